package harness

// C17 directed traces and follow-up scripts.
//
// The random walk of c17_gen_test.go reaches single time boundaries easily, but a history that has to
// cross three of them in order with the right actors in between (a Sell-Order finishes with a bid
// and nobody completes it, then the Dym-Name expires, then the grace period ends, then ANOTHER
// account registers the name, then the old bidder tries to complete) is rare.  Two devices make such
// histories certain in the quick tier:
//
//   - c17Directed(): fixed op-line scripts run before the random walks on every seed (the same way
//     c10Directed() / coreCorpus() are used), through the same executor, monitors and Lean driver;
//   - follow-up scripts (c17gen.followUp): after an accepted bid / sell order / offer the generator
//     queues, with some probability, the steps that walk that very asset through the boundaries;
//     every step is produced from the real state at the moment it is emitted.

import (
	"fmt"
	"math/big"
	"strings"

	dymnstypes "github.com/dymensionxyz/dymension/v3/x/dymns/types"
)

const (
	c17T0    = int64(1704067200)
	c17Year  = int64(86400 * 365)
	c17Grace = int64(30 * 86400)
	c17SoDur = int64(86400)
)

type c17script struct {
	name  string
	lines []string // "op line" or "op line => expected observation"
}

// c17Directed: each script starts with its own reset line.  Names n0 n1 n2 cost 9, 8, 7 (first
// year) + 1 per further year; aliases l0 l1 l2 cost 8, 7, 6.
func c17Directed() []c17script {
	A := func(k int64) string { return amt(k, 0).String() }
	steps := strings.Join([]string{A(9), A(8), A(7), A(6), A(5)}, ",")
	head := func(inc int) []string {
		return []string{
			fmt.Sprintf("reset 4 3 3 2 %d %d %s %d %s %s %s %d 1 1 => ok", c17Grace, c17SoDur, A(1), inc, A(1), steps, steps, c17T0),
			"fund 0 " + A(200), "fund 1 " + A(200), "fund 2 " + A(200), "fund 3 " + A(200),
		}
	}
	adv := func(dt int64) string { return fmt.Sprintf("adv %d", dt) }
	sc := func(name string, inc int, lines ...string) c17script {
		return c17script{name, append(head(inc), lines...)}
	}
	return []c17script{
		sc("take-over-with-uncompleted-bid", 0,
			"reg 0 0 1 "+A(9)+" 1 => ok",
			"ura 0 0 0 0 0 0:3 => ok",
			"ctrl 0 0 3 => ok",
			"sell 0 n 0 "+A(2)+" 0 => ok",
			"buy 1 n 0 "+A(3)+" => ok",
			"buy 2 n 0 "+A(3), // not above the highest bid
			adv(c17SoDur),     // exactly the order's expiry: not finished yet
			"comp 1 n 0 => precond",
			adv(1), // finished, nobody completes
			"comp 3 n 0 => denied",
			"buy 2 n 0 "+A(5),
			adv(c17Year-c17SoDur), // one second after the name's expiry
			"xfer 0 0 1 => unauth",
			"sell 0 n 0 "+A(1)+" 0",
			"reg 2 0 1 "+A(9)+" 0 => precond",
			adv(c17Grace-2), // one second before the end of the grace period
			"reg 2 0 1 "+A(9)+" 0 => precond",
			adv(1),
			"reg 2 0 2 "+A(10)+" 2 => ok", // take-over by another account: the bid goes back to a1
			"comp 1 n 0 => notfound",      // the old bidder
			"comp 0 n 0 => notfound",      // the old owner
			"comp 2 n 0 => notfound",
			"buy 3 n 0 "+A(4)+" => notfound",
			"csell 0 n 0 => denied",
			"own 0 => -", "own 1 => -", "own 2 => 0",
			"res 0 0 c0 => 0:2",
			"rev 0:3 0 => -",
			"sell 0 n 0 "+A(1)+" 0 => denied",
			"sell 2 n 0 "+A(1)+" "+A(6)+" => ok", // the new owner's own sale
			"buy 1 n 0 "+A(6)+" => ok",
			"own 1 => 0", "own 2 => -",
		),
		// C18: the history ENDS in the state whose export is easy to get wrong — a finished Sell-Order
		// still holding its highest bid, the Dym-Name expired beyond the grace period, nobody completed the
		// order or took the name over: the bid is escrow that the exported genesis has to list
		sc("uncompleted-bid-left-on-name-expired-beyond-grace", 0,
			"reg 0 0 1 "+A(9)+" 1 => ok",
			"sell 0 n 0 "+A(2)+" 0 => ok",
			"buy 1 n 0 "+A(3)+" => ok",
			adv(c17SoDur+1),       // finished, nobody completes
			adv(c17Year-c17SoDur), // the name has expired
			adv(c17Grace),         // and the grace period is over
		),
		sc("take-over-with-bidless-sell-order", 10,
			"reg 0 1 1 "+A(8)+" 0 => ok",
			"sell 0 n 1 "+A(2)+" "+A(5)+" => ok",
			adv(c17SoDur+1),
			"csell 3 n 1 => denied",
			adv(c17Year),
			"buy 1 n 1 "+A(5),
			adv(c17Grace),
			"reg 3 1 1 "+A(8)+" 0 => ok",
			"csell 0 n 1",
			"csell 3 n 1 => notfound",
			"buy 1 n 1 "+A(5)+" => notfound",
			"comp 3 n 1 => notfound",
			"own 3 => 1", "own 0 => -",
			"sell 3 n 1 "+A(1)+" 0 => ok",
			"csell 3 n 1 => ok",
		),
		sc("renew-and-extend-with-uncompleted-bid", 0,
			"reg 0 2 1 "+A(7)+" 0 => ok",
			"sell 0 n 2 "+A(1)+" 0 => ok",
			"buy 1 n 2 "+A(4)+" => ok",
			adv(c17SoDur+1),
			adv(c17Year), // expired, inside the grace period
			"reg 2 2 1 "+A(7)+" 0 => precond",
			"reg 0 2 1 "+A(1)+" 1 => ok", // renew by the same owner: the bid goes back to a1
			"comp 1 n 2 => notfound",
			"own 0 => 2",
			// extend an unexpired name while a finished order with a bid is pending: it stays the owner's sale
			"sell 0 n 2 "+A(1)+" 0 => ok",
			"buy 1 n 2 "+A(2)+" => ok",
			adv(c17SoDur+1),
			"reg 0 2 1 "+A(1)+" 0 => ok",
			"comp 1 n 2 => ok",
			"own 1 => 2", "own 0 => -",
		),
		sc("complete-after-name-expiry-refunds", 5,
			"reg 0 0 1 "+A(9)+" 0 => ok",
			adv(c17Year-c17SoDur),
			"sell 0 n 0 "+A(1)+" 0 => denied", // would end at the name's expiry
			// (time cannot go back: a second name for the order that ends just before the expiry)
			"reg 1 1 1 "+A(8)+" 0 => ok",
			adv(c17Year-c17SoDur-10),
			"sell 1 n 1 "+A(1)+" 0 => ok",
			"buy 2 n 1 "+A(2)+" => ok",
			"buy 3 n 1 "+A(2), // below the increment
			"buy 3 n 1 "+new(big.Int).Add(amt(2, 0), new(big.Int).Div(amt(2, 0), big.NewInt(20))).String()+" => ok", // exactly +5 %: a2 refunded
			adv(c17SoDur+12),
			"comp 3 n 1 => ok", // name expired: the bid is refunded, the name stays
			"own 1 => -", "own 3 => -",
			"comp 3 n 1 => notfound",
			adv(c17Grace),
			"reg 3 1 1 "+A(8)+" 0 => ok",
			"reg 2 0 1 "+A(9)+" 0 => ok",
		),
		sc("alias-sell-order-finished-uncompleted", 0,
			"rollapp 0 1 1 0 => ok",
			"rollapp 1 2 2 1 => ok",
			"alias 1 2 2 "+A(6)+" => ok",
			"sell 0 l 0 "+A(2)+" 0 => ok",
			"buy 1 l 0 "+A(3)+" 2 => ok",
			adv(c17SoDur+1),
			"comp 3 l 0 => denied",
			adv(c17Year+c17Grace), // aliases do not expire: the order and its bid just wait
			"comp 1 l 0 => ok",    // l0 moves to c2, a0 is paid
			"comp 1 l 0 => notfound",
			"sell 0 l 0 "+A(1)+" 0 => denied",
			// an order with a bid whose alias becomes reserved in the params: completion refunds
			"sell 1 l 1 "+A(2)+" 0 => ok",
			"buy 0 l 1 "+A(2)+" 1 => ok",
			adv(c17SoDur+1),
			"resv 1",
			"comp 0 l 1 => ok",
			"resv -",
			// alias trading switched off with a finished order pending: completion refunds
			"sell 1 l 0 "+A(2)+" 0 => ok",
			"buy 0 l 0 "+A(2)+" 1 => ok",
			adv(c17SoDur+1),
			"trade 1 0",
			"comp 1 l 0 => ok",
			"trade 1 1",
			// a bidless order past its expiry
			"sell 1 l 2 "+A(2)+" 0 => ok",
			adv(c17SoDur+1),
			"buy 0 l 2 "+A(2)+" 1",
			"comp 1 l 2 => precond",
			"csell 1 l 2 => ok",
		),
		sc("offers-on-a-name-that-expires-and-is-taken-over", 0,
			"reg 0 0 1 "+A(9)+" 0 => ok",
			"offer 1 n 0 "+A(3)+" - => ok",
			"offer 2 n 0 "+A(4)+" - => ok",
			"offer 3 n 0 "+A(2)+" - => ok",
			"bon 0 => 101,102,103",
			adv(c17Year+1),
			"abo 0 101 "+A(3),
			"offer 3 n 0 "+A(5)+" 103",
			"cbo 2 102 => ok", // refund on an expired name
			adv(c17Grace),
			"reg 3 0 1 "+A(9)+" 0 => ok", // taken over by the maker of offer 103; offers stay open and escrowed
			"bon 0 => 101,103",
			"abo 3 103 "+A(2),
			"cbo 3 103 => ok",
			"abo 0 101 "+A(3)+" => denied", // the previous owner
			"abo 3 101 "+A(5)+" => ok",     // counter-offer by the new owner
			"abo 3 101 "+A(3)+" => ok",     // accepted: a3 is paid, a1 owns the name
			"own 1 => 0", "own 3 => -",
			"bob 1 => -",
		),
		// ---- governance paths and the RollApp ownership transfer (worker agent-c17x) ----
		sc("chain-id-migration-keeps-indexes-and-resolution", 0,
			"reg 0 0 1 "+A(9)+" 0 => ok",
			"reg 1 1 1 "+A(8)+" 0 => ok",
			"ura 0 0 100 0 1 100:1 => ok", // sa.n0@cosmoshub-4 -> a1 (cosmos prefix)
			"ura 0 0 0 1 0 0:2 => ok",     // n0 default record -> a2
			"ura 1 1 100 0 0 100:3 => ok", // n1@cosmoshub-4 -> a3
			"ura 1 1 102 0 0 100:2 => ok", // n1@injective-1 -> a2: would collide with the record above
			"mig - => invalid",
			"mig 100>102,102>103 => invalid", // a chain-id on both sides
			"mig 100>102 => ok",              // n0 rewritten, n1 skipped (two records for injective-1|"")
			"res 1 0 c102 => 100:1", "res 1 0 c100 => -",
			"rev 100:1 102 => 1.0@l1001", "rev 100:1 100 => -", // the params record of cosmoshub-4 (alias cosmos) moved to injective-1 too
			"res 0 1 c100 => 100:3", "res 0 1 c102 => 100:2",
			"rev 100:3 100 => 0.1@c100",
			"mig 100>103 => ok", // n1's cosmoshub-4 record moves to juno-1 (no params record left to move)
			"res 0 1 l1001 => 100:2", "res 0 1 c103 => 100:3",
			"rev 100:3 103 => 0.1@c103",
			adv(c17Year+1), // both names expired: the migration does not load them
			"mig 103>101 => ok",
			"reg 0 0 1 "+A(1)+" 0 => ok",
		),
		sc("chain-id-migration-onto-the-host-chain-id", 0,
			"reg 0 0 1 "+A(9)+" 0 => ok",
			"ura 0 0 100 0 0 100:1 => ok", // n0@cosmoshub-4 -> a1
			"ura 0 0 100 0 1 100:2 => ok", // sa.n0@cosmoshub-4 -> a2
			"mig 100>0 => ok",             // stored as the literal host chain-id (model: chain 999)
			"res 0 0 c0 => 0:0",           // forward: the owner (fallback), not the stored record
			"res 1 0 c0 => -",
			"rev 100:1 0", // lists n0@dym (known finding)
			"rev 100:2 0",
			"ura 0 0 0 0 0 - => notfound", // the literal record cannot be deleted through its chain-id either
			"ura 0 0 0 1 0 0:3 => ok",     // a host record for the same path next to it: two records for the host chain, empty path
			"res 0 0 c0 => 0:3",
			"mig 0>103 => ok", // host chain-id as the previous id: only the literal records move
			"res 0 0 c103 => 100:1", "res 1 0 c103 => 100:2", "res 0 0 c0 => 0:3",
			"rev 100:1 103 => 0.0@l1000", // the params record of the host chain-id (alias dym) moved to juno-1 as well
		),
		sc("update-aliases-proposal", 0,
			"rollapp 0 1 1 0 => ok",
			"ualias - - => invalid",
			"ualias 100:1001 - => exists",
			"ualias - 102:1002 => notfound",
			"ualias - 100:1000 => notfound",
			"ualias 102:1000 - => invalid", // alias of another chain-id: SetParams refuses
			"ualias 102:1002,100:1003 0:1000 => ok",
			"res 0 0 l1002", "res 0 0 l1000",
			"reg 0 0 1 "+A(9)+" 0 => ok",
			"res 0 0 l1000 => -", "res 0 0 c0 => 0:0",
			"rev 0:0 0 => 0.0@c0",
			"ualias 0:1000,1:1 100:1001 => ok", // cosmos is listed second (sorted): juno keeps the default alias
			"rev 0:0 0 => 0.0@l1000",
			"ualias 1:0 - => ok", // the RollApp's own alias becomes a params alias of the same chain-id
			"sell 0 l 0 "+A(2)+" 0 => denied",
		),
		sc("rollapp-transfer-with-open-alias-orders", 0,
			"rollapp 0 1 1 0 => ok",
			"rollapp 1 2 2 1 => ok",
			"alias 0 1 2 "+A(6)+" => ok",
			"sell 0 l 0 "+A(2)+" 0 => ok",
			"buy 1 l 0 "+A(3)+" 2 => ok",
			"sell 0 l 2 "+A(2)+" 0 => ok", // bidless
			"offer 1 l 2 "+A(4)+" - 2 => ok",
			"xferra 1 1 3 => denied",
			"xferra 0 1 0 => invalid",
			"xferra 0 3 1 => notfound",
			"xferra 0 1 3 => ok", // a3 owns rollapp c1 now, with l0 (order + bid of a1) and l2 (bidless order, offer)
			"csell 0 l 0 => denied",
			"csell 3 l 0 => precond",
			"csell 0 l 2 => denied",
			"abo 0 201 "+A(4)+" => denied",
			adv(c17SoDur+1),
			"comp 0 l 0 => denied", // the account that placed the order is neither owner nor bidder any more
			"comp 3 l 0 => ok",     // the new owner completes: a3 is paid the bid, l0 moves to c2
			"csell 3 l 2 => ok",
			"abo 3 201 "+A(4)+" => ok", // the new owner accepts the offer made before the transfer: a3 is paid
			"sell 3 l 2 "+A(1)+" 0 => denied",
		),
		sc("params-change-with-open-bids", 0,
			"reg 0 0 2 "+A(10)+" 0 => ok",
			"sell 0 n 0 "+A(2)+" 0 => ok",
			"buy 1 n 0 "+A(4)+" => ok",
			"offer 2 n 0 "+A(1)+" - => ok",
			fmt.Sprintf("setp %d %d %s 10 => ok", 45*86400, 3600, A(2)), // +10 %, min offer 2, orders last one hour
			"buy 2 n 0 "+new(big.Int).Add(amt(4, 0), big.NewInt(1)).String()+" => invalid",
			"buy 2 n 0 "+new(big.Int).Add(amt(4, 0), new(big.Int).Div(amt(4, 0), big.NewInt(10))).String()+" => ok", // exactly +10 %: a1 refunded
			"offer 3 n 0 "+A(1)+" - => invalid", // below the new minimum
			"offer 2 n 0 "+A(2)+" 101 => ok",    // raising the old offer: deposits the difference
			fmt.Sprintf("setp %d %d %s 0 => invalid", 30*86400-1, 3600, A(2)),
			fmt.Sprintf("setp %d %d %s 0 => invalid", 30*86400, 7*86400+1, A(2)),
			fmt.Sprintf("setp %d %d %s 11 => invalid", 30*86400, 3600, A(2)),
			adv(3601),
			"comp 2 n 0 => precond", // the open order keeps the expiry it was placed with
			adv(c17SoDur),
			"comp 2 n 0 => ok",
			"own 2 => 0",
			"sell 2 n 0 "+A(2)+" 0 => ok",
			"v",
		),
	}
}

// runDirected executes one script like a generated trace (full state view after every state change).
func (h *c17h) runDirected(s c17script) {
	var kinds []string
	for _, e := range s.lines {
		line, want := e, ""
		if i := strings.Index(e, " => "); i >= 0 {
			line, want = e[:i], e[i+4:]
		}
		obs := h.exec(line)
		h.r.Emit(line, obs)
		if want != "" && obs != want {
			// not a property violation by itself (the monitors judge); recorded for whoever maintains the scripts
			h.r.Hit("directed/unexpected-outcome")
			h.unexpected = append(h.unexpected, fmt.Sprintf("%s: %s => %s (script says %s)", s.name, line, obs, want))
			h.r.Set("directed_unexpected", h.unexpected)
		}
		switch ff := strings.Fields(line); ff[0] {
		case "reset", "v", "own", "res", "rev", "bon", "bol", "bob":
		default:
			h.r.Emit("v", h.exec("v"))
			kinds = append(kinds, ff[0]+"/"+obs)
		}
	}
	h.r.Hit("directed/" + s.name)
	h.r.Class("directed/"+s.name+"/"+strings.Join(kinds, " "), h.nontr)
	h.r.Trace()
}

// ---- follow-up scripts of the random generator ---------------------------------------------------

// c17step produces the next op line of a queued script from the current real state (c.s, c.p); ok =
// false: the step no longer applies (the asset moved on otherwise), the rest of the script is dropped.
type c17step func(c *c17gen) (line string, ok bool)

func (c *c17gen) graceSec() int64 { return int64(c.p.Misc.GracePeriodDuration.Seconds()) }

// an account other than those listed (falls back to any account)
func (c *c17gen) otherThan(not ...int) int {
	var l []int
	for a := 0; a < c.h.nA; a++ {
		skip := false
		for _, x := range not {
			skip = skip || x == a
		}
		if !skip {
			l = append(l, a)
		}
	}
	if v, ok := pick(c.g, l); ok {
		return v
	}
	return c.acct()
}

// advTo: move the clock to `at` (skipped when already there or beyond)
func advTo(at func(c *c17gen) (int64, bool)) c17step {
	return func(c *c17gen) (string, bool) {
		t, ok := at(c)
		if !ok {
			return "", false
		}
		if t <= c.s.now {
			return "", true // nothing to do: next step
		}
		return fmt.Sprintf("adv %d", t-c.s.now), true
	}
}

// fundFor: top the account up when it cannot pay `need`
func fundFor(a int, need func(c *c17gen) *big.Int) c17step {
	return func(c *c17gen) (string, bool) {
		if c.s.bal[a].BigInt().Cmp(need(c)) >= 0 {
			return "", true
		}
		return fmt.Sprintf("fund %d %s", a, new(big.Int).Add(need(c), amt(int64(c.g.Intn(3)), 0))), true
	}
}

// scriptNameLapse: walk Dym-Name n — which has a Sell-Order (with or without a bid) and/or open
// offers — past the order's expiry, the name's expiry and the grace period, have another account
// take it over (or the owner renew it), then let the parties of the old order try it again.
func (c *c17gen) scriptNameLapse(n int) []c17step {
	g := c.g
	d, okd := c.s.names[n]
	if !okd {
		return nil
	}
	owner := c.id(d.Owner)
	bidder := -1
	if so, ok := c.s.nameSO[n]; ok && so.HighestBid != nil {
		bidder = c.id(so.HighestBid.Bidder)
	}
	var offerMakers []int
	for _, id := range c.boIDs() {
		if bo := c.s.bos[id]; bo.AssetType == dymnstypes.TypeName && bo.AssetId == c17Name(n) {
			offerMakers = append(offerMakers, c.id(bo.Buyer))
		}
	}
	taker := c.otherThan(owner, bidder)
	switch {
	case bidder >= 0 && g.Chance(15):
		taker = bidder // the old bidder himself registers the name: fee paid, bid refunded
	case len(offerMakers) > 0 && g.Chance(30):
		taker = offerMakers[g.Intn(len(offerMakers))]
	}
	renew := g.Chance(25)
	dur := 1 + g.Intn(2)
	name := func(c *c17gen) (int64, bool) {
		d, ok := c.s.names[n]
		if !ok || c.id(d.Owner) != owner {
			return 0, false
		}
		return d.ExpireAt, true
	}
	var st []c17step
	if so, ok := c.s.nameSO[n]; ok {
		exp := so.ExpireAt
		st = append(st, advTo(func(c *c17gen) (int64, bool) {
			so, ok := c.s.nameSO[n]
			return exp + 1, ok && so.ExpireAt == exp
		}))
		if g.Chance(35) {
			st = append(st, func(c *c17gen) (string, bool) {
				return fmt.Sprintf("comp %d n %d", c.otherThan(owner, bidder), n), true
			})
		}
	}
	// past the name's expiry (sometimes exactly at it first)
	if g.Chance(20) {
		st = append(st, advTo(func(c *c17gen) (int64, bool) { t, ok := name(c); return t, ok }))
	}
	st = append(st, advTo(func(c *c17gen) (int64, bool) { t, ok := name(c); return t + 1, ok }))
	if renew {
		if g.Chance(50) {
			st = append(st, advTo(func(c *c17gen) (int64, bool) { t, ok := name(c); return t + 1 + int64(g.Intn(int(c.graceSec()))), ok }))
		}
		st = append(st,
			fundFor(owner, func(c *c17gen) *big.Int { return c.regCost(n, owner, dur) }),
			func(c *c17gen) (string, bool) {
				if _, ok := name(c); !ok {
					return "", false
				}
				return fmt.Sprintf("reg %d %d %d %s %d", owner, n, dur, c.regCost(n, owner, dur), g.Intn(3)), true
			})
	} else {
		switch g.Intn(5) {
		case 0: // one second early: rejected, then exactly at the end of the grace period
			st = append(st,
				advTo(func(c *c17gen) (int64, bool) { t, ok := name(c); return t + c.graceSec() - 1, ok }),
				fundFor(taker, func(c *c17gen) *big.Int { return c.regCost(n, taker, dur) }),
				func(c *c17gen) (string, bool) {
					return fmt.Sprintf("reg %d %d %d %s %d", taker, n, dur, c.regCost(n, taker, dur), g.Intn(3)), true
				},
				advTo(func(c *c17gen) (int64, bool) { t, ok := name(c); return t + c.graceSec(), ok }))
		case 1, 2:
			st = append(st, advTo(func(c *c17gen) (int64, bool) { t, ok := name(c); return t + c.graceSec(), ok }))
		default:
			extra := int64(1 + g.Intn(90*86400))
			st = append(st, advTo(func(c *c17gen) (int64, bool) { t, ok := name(c); return t + c.graceSec() + extra, ok }))
		}
		st = append(st,
			fundFor(taker, func(c *c17gen) *big.Int { return c.regCost(n, taker, dur) }),
			func(c *c17gen) (string, bool) {
				if _, ok := name(c); !ok {
					return "", false
				}
				return fmt.Sprintf("reg %d %d %d %s %d", taker, n, dur, c.regCost(n, taker, dur), g.Intn(3)), true
			})
	}
	// afterwards: the parties of the old order / the old offers try again
	after := []c17step{}
	if bidder >= 0 {
		after = append(after, func(c *c17gen) (string, bool) { return fmt.Sprintf("comp %d n %d", bidder, n), true })
	}
	after = append(after,
		func(c *c17gen) (string, bool) { return fmt.Sprintf("comp %d n %d", owner, n), true },
		func(c *c17gen) (string, bool) { return fmt.Sprintf("csell %d n %d", owner, n), true },
		func(c *c17gen) (string, bool) {
			return fmt.Sprintf("buy %d n %d %s", c.otherThan(c.id(c.s.names[n].Owner)), n, c.amount(amt(3, 0))), true
		},
		func(c *c17gen) (string, bool) {
			cur := c.id(c.s.names[n].Owner)
			return fmt.Sprintf("sell %d n %d %s %s", cur, n, amt(int64(1+g.Intn(3)), 0), []string{"0", amt(6, 0).String()}[g.Intn(2)]), true
		},
		func(c *c17gen) (string, bool) {
			// the current owner answers an offer that is still open on the name
			for _, id := range c.boIDs() {
				if bo := c.s.bos[id]; bo.AssetType == dymnstypes.TypeName && bo.AssetId == c17Name(n) {
					m := bo.OfferPrice.Amount.BigInt()
					if g.Chance(25) {
						m = new(big.Int).Add(m, amt(1, 0))
					}
					return fmt.Sprintf("abo %d %s %s", c.id(c.s.names[n].Owner), id, m), true
				}
			}
			return "", true
		},
		func(c *c17gen) (string, bool) {
			for _, id := range c.boIDs() {
				if bo := c.s.bos[id]; bo.AssetType == dymnstypes.TypeName && bo.AssetId == c17Name(n) {
					return fmt.Sprintf("cbo %d %s", c.id(bo.Buyer), id), true
				}
			}
			return "", true
		})
	// the first one or two in order (old bidder first), the rest shuffled and thinned
	k := 1 + g.Intn(2)
	if k > len(after) {
		k = len(after)
	}
	st = append(st, after[:k]...)
	rest := after[k:]
	for i := len(rest) - 1; i > 0; i-- {
		j := g.Intn(i + 1)
		rest[i], rest[j] = rest[j], rest[i]
	}
	for _, x := range rest {
		if g.Chance(55) {
			st = append(st, x)
		}
	}
	return st
}

// scriptAliasOrder: an alias Sell-Order with a bid waits past its expiry (aliases never expire);
// sometimes the alias becomes reserved or alias trading is switched off before somebody completes.
func (c *c17gen) scriptAliasOrder(l int) []c17step {
	g := c.g
	so, ok := c.s.alSO[l]
	if !ok || so.HighestBid == nil {
		return nil
	}
	ch, okc := c.s.alias[l]
	if !okc {
		return nil
	}
	owner, bidder, exp := c.id(c.s.rolls[ch].Owner), c.id(so.HighestBid.Bidder), so.ExpireAt
	still := func(c *c17gen) bool { so, ok := c.s.alSO[l]; return ok && so.ExpireAt == exp }
	st := []c17step{advTo(func(c *c17gen) (int64, bool) { return exp + 1 + int64(g.Intn(3))*c17Year, still(c) })}
	undo := c17step(nil)
	switch g.Intn(6) {
	case 0:
		st = append(st, func(c *c17gen) (string, bool) { return fmt.Sprintf("resv %d", l), still(c) })
		undo = func(c *c17gen) (string, bool) { return "resv -", true }
	case 1:
		st = append(st, func(c *c17gen) (string, bool) { return "trade 1 0", still(c) })
		undo = func(c *c17gen) (string, bool) { return "trade 1 1", true }
	}
	if g.Chance(30) {
		st = append(st, func(c *c17gen) (string, bool) {
			return fmt.Sprintf("comp %d l %d", c.otherThan(owner, bidder), l), still(c)
		})
	}
	who := []int{bidder, owner}[g.Intn(2)]
	st = append(st,
		func(c *c17gen) (string, bool) { return fmt.Sprintf("comp %d l %d", who, l), still(c) },
		func(c *c17gen) (string, bool) { return fmt.Sprintf("comp %d l %d", bidder, l), true })
	if undo != nil {
		st = append(st, undo)
	}
	st = append(st, func(c *c17gen) (string, bool) { return fmt.Sprintf("sell %d l %d %s 0", owner, l, amt(1, 0)), true })
	return st
}

// followUp looks at the op just executed (line, obs; c.s is the state after it) and may queue a script.
func (c *c17gen) followUp(line, obs string) {
	if obs != "ok" || len(c.queue) > 0 {
		return
	}
	f := strings.Fields(line)
	g := c.g
	switch f[0] {
	case "buy":
		i := c17atoi(f[3])
		if f[2] == "n" {
			if so, ok := c.s.nameSO[i]; ok && so.HighestBid != nil && g.Chance(30) {
				c.queue = c.scriptNameLapse(i)
				c.h.r.Hit("script/name-lapse-after-bid")
			}
		} else if so, ok := c.s.alSO[i]; ok && so.HighestBid != nil && g.Chance(30) {
			c.queue = c.scriptAliasOrder(i)
			c.h.r.Hit("script/alias-order-after-bid")
		}
	case "sell":
		if f[2] == "n" && g.Chance(10) {
			c.queue = c.scriptNameLapse(c17atoi(f[3]))
			c.h.r.Hit("script/name-lapse-after-sell")
		}
	case "offer":
		if f[2] == "n" && g.Chance(12) {
			c.queue = c.scriptNameLapse(c17atoi(f[3]))
			c.h.r.Hit("script/name-lapse-after-offer")
		}
	}
}

// nextLine: the next op line of the trace — from the queued script (a random op is interleaved now
// and then), else from the random generator.
func (c *c17gen) nextLine() string {
	for len(c.queue) > 0 && !c.g.Chance(12) {
		step := c.queue[0]
		c.queue = c.queue[1:]
		l, ok := step(c)
		if !ok {
			c.queue = nil
			c.h.r.Hit("script/dropped")
			break
		}
		if l != "" {
			if len(c.queue) == 0 {
				c.h.r.Hit("script/ran-to-the-end")
			}
			return l
		}
	}
	return c.next()
}
