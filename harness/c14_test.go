package harness

import (
	"fmt"
	"hash/fnv"
	"sort"
	"strconv"
	"strings"
	"testing"
	"time"

	"cosmossdk.io/math"
	storetypes "cosmossdk.io/store/types"
	sdk "github.com/cosmos/cosmos-sdk/types"
	authtypes "github.com/cosmos/cosmos-sdk/x/auth/types"
	"github.com/cosmos/gogoproto/proto"

	lockupkeeper "github.com/dymensionxyz/dymension/v3/x/lockup/keeper"
	lockuptypes "github.com/dymensionxyz/dymension/v3/x/lockup/types"
)

// C14 — locked tokens are fully backed and return only to the owner after the period.
//
// Line protocol (see lean/DymVerif/Driver/C14.lean):
//   reset <minDur> <fee> <allowed a,b|-> <nActors> <nDenoms> <feeDenom> <probes p,q,…>
//   fund <a> <d> <amt> | lock <a> <d> <amt> <dur> | unlock <a> <id> (-|<d> <amt>) | extend <a> <id> <dur>
//   force <a> <id> (-|<d> <amt>) | begin <dt> | end
//   restart                                  export of the whole application state, production InitChainer on a
//                                            fresh application, the trace continues THERE (chain restart)
//   setparams <minDur> <fee> <allowed a,b|-> the lockup params written through the keeper's SetParams (params subspace)
// Every op is executed on the real application (message router / Begin-EndBlocker of the full app);
// the observation is rendered from keeper queries (by id, by account, accumulation, bank balances).
// The monitors below use only observations of the real system plus their own bookkeeping of *when the
// owner's begin-unlock message was accepted*; they never look at the Lean model.

const (
	c14Sec = int64(time.Second)
	c14Day = 24 * int64(time.Hour)
	// generator mix: a restart is a whole export + InitChainer of a fresh application (two orders of
	// magnitude dearer than a message), hence per mille
	c14RestartPerMille   = 30
	c14SetParamsPerMille = 25
	c14DirectedPct       = 20
)

type c14Lock struct {
	id     uint64
	owner  int // actor index, -1 = not an actor
	dur    int64
	unl    bool  // IsUnlocking
	end    int64 // ns since BaseTime (valid iff unl)
	denom  int   // denom index, -1 = unknown
	amt    math.Int
	ncoins int
}

type c14Snap struct {
	locks  map[uint64]c14Lock
	ids    []uint64
	last   uint64
	mod    []math.Int
	modAll sdk.Coins
	bal    [][]math.Int
	digest string
	now    int64
	height int64
}

type c14H struct {
	r       *Run
	f       *Fix
	k       *lockupkeeper.Keeper
	nA, nD  int
	denoms  []string
	addrs   []sdk.AccAddress
	fee     int64
	minDur  int64
	allowed map[int]bool
	allowL  []int // the allow-list in the order the keeper returns it
	probes  []int64
	modAddr sdk.AccAddress
	trace   []string
	snap    c14Snap
	started map[uint64]int64 // lock id -> block time (ns) at which the owner's begin-unlock was accepted
	kinds   []string         // op-kind/outcome sequence of the trace (for the class hash)
	nontriv bool
}

func c14ErrClass(err error) string {
	if err == nil {
		return "ok"
	}
	if IsPanic(err) {
		return "panic"
	}
	m := err.Error()
	switch {
	case strings.Contains(m, "is less than the minimum lock duration"):
		return "below-min"
	case strings.Contains(m, "less than the total cost of the message"):
		return "fee-funds"
	case strings.Contains(m, "requested amount to unlock exceeds locked tokens"):
		return "exceeds"
	case strings.Contains(m, "already unlocking"):
		return "already-unlocking"
	case strings.Contains(m, "not allowed to force unlock"):
		return "not-allowed"
	case strings.Contains(m, "new duration should be greater than the original"):
		return "dur-not-greater"
	case strings.Contains(m, "cannot edit unlocking lockup"):
		return "is-unlocking"
	case strings.Contains(m, "lockup not found"):
		return "not-found"
	case strings.Contains(m, "not the owner of specified lock"), strings.Contains(m, "does not match"):
		return "not-owner"
	case strings.Contains(m, "insufficient funds"):
		return "funds"
	}
	return "other"
}

func (h *c14H) denomName(i int) string {
	if i >= 0 && i < len(h.denoms) {
		return h.denoms[i]
	}
	return fmt.Sprintf("unk%d", i)
}

func (h *c14H) addr(i int) sdk.AccAddress {
	if i >= 0 && i < len(h.addrs) {
		return h.addrs[i]
	}
	return Actor(1000 + i)
}

func (h *c14H) actorOf(bech string) int {
	for i, a := range h.addrs {
		if a.String() == bech {
			return i
		}
	}
	return -1
}

func (h *c14H) denomIdx(d string) int {
	for i, x := range h.denoms {
		if x == d {
			return i
		}
	}
	return -1
}

// takeSnap reads the lock objects straight from the store (prefix 0x02), i.e. independently of the
// reference indexes, plus bank balances.
func (h *c14H) takeSnap() c14Snap {
	ctx := h.f.Ctx
	s := c14Snap{locks: map[uint64]c14Lock{}, now: int64(h.f.Time.Sub(BaseTime)), height: h.f.Height}
	st := ctx.KVStore(h.f.App.GetKVStoreKeys()[lockuptypes.StoreKey])
	it := storetypes.KVStorePrefixIterator(st, lockuptypes.KeyPrefixPeriodLock)
	for ; it.Valid(); it.Next() {
		var pl lockuptypes.PeriodLock
		if err := proto.Unmarshal(it.Value(), &pl); err != nil {
			h.r.T.Fatalf("unmarshal lock: %v", err)
		}
		l := c14Lock{id: pl.ID, owner: h.actorOf(pl.Owner), dur: int64(pl.Duration), unl: pl.IsUnlocking(), denom: -1, amt: math.ZeroInt(), ncoins: len(pl.Coins)}
		if l.unl {
			l.end = int64(pl.EndTime.Sub(BaseTime))
		}
		if len(pl.Coins) >= 1 {
			l.denom = h.denomIdx(pl.Coins[0].Denom)
			l.amt = pl.Coins[0].Amount
		}
		s.locks[pl.ID] = l
		s.ids = append(s.ids, pl.ID)
	}
	it.Close()
	sort.Slice(s.ids, func(i, j int) bool { return s.ids[i] < s.ids[j] })
	s.last = h.k.GetLastLockID(ctx)
	s.modAll = h.f.App.BankKeeper.GetAllBalances(ctx, h.modAddr)
	for d := 0; d < h.nD; d++ {
		s.mod = append(s.mod, s.modAll.AmountOf(h.denoms[d]))
	}
	for a := 0; a < h.nA; a++ {
		row := []math.Int{}
		for d := 0; d < h.nD; d++ {
			row = append(row, h.f.Bal(h.addrs[a], h.denoms[d]))
		}
		s.bal = append(s.bal, row)
	}
	s.digest = h.f.StoreDigest(lockuptypes.StoreKey)
	return s
}

func c14Join(xs []string, sep string) string {
	if len(xs) == 0 {
		return "-"
	}
	return strings.Join(xs, sep)
}

// render: the canonical observation, from the keeper's *queries*.
func (h *c14H) render(out string) string {
	// queries run on a discarded branch of the state, as gRPC queries do (GetPeriodLocksAccumulation
	// initialises an empty sum-tree on first use, i.e. it writes)
	ctx, _ := h.f.Ctx.CacheContext()
	last := h.k.GetLastLockID(ctx)
	var L []string
	for id := uint64(1); id <= last; id++ {
		pl, err := h.k.GetLockByID(ctx, id)
		if err != nil {
			continue
		}
		e := "-"
		if pl.IsUnlocking() {
			e = strconv.FormatInt(int64(pl.EndTime.Sub(BaseTime)), 10)
		}
		den, amt := "?", "?"
		if len(pl.Coins) == 1 {
			den, amt = strconv.Itoa(h.denomIdx(pl.Coins[0].Denom)), pl.Coins[0].Amount.String()
		}
		L = append(L, fmt.Sprintf("%d:%d:%d:%s:%s:%s", pl.ID, h.actorOf(pl.Owner), int64(pl.Duration), e, den, amt))
	}
	var M, B, Q, A []string
	for d := 0; d < h.nD; d++ {
		M = append(M, h.f.Bal(h.modAddr, h.denoms[d]).String())
	}
	for a := 0; a < h.nA; a++ {
		var row, ids []string
		for d := 0; d < h.nD; d++ {
			row = append(row, h.f.Bal(h.addrs[a], h.denoms[d]).String())
		}
		B = append(B, c14Join(row, ","))
		pls := h.k.GetAccountPeriodLocks(ctx, h.addrs[a])
		sort.Slice(pls, func(i, j int) bool { return pls[i].ID < pls[j].ID })
		for _, pl := range pls {
			ids = append(ids, strconv.FormatUint(pl.ID, 10))
		}
		Q = append(Q, c14Join(ids, "."))
	}
	for d := 0; d < h.nD; d++ {
		var row []string
		for _, p := range h.probes {
			row = append(row, h.k.GetPeriodLocksAccumulation(ctx, lockuptypes.QueryCondition{LockQueryType: lockuptypes.ByDuration, Denom: h.denoms[d], Duration: time.Duration(p)}).String())
		}
		A = append(A, c14Join(row, ","))
	}
	// sums over the lock objects as stored (h.snap was taken after the op)
	sn := h.snap
	var S, W, O, U []string
	for d := 0; d < h.nD; d++ {
		dd := d
		S = append(S, h.sumLocks(sn, func(l c14Lock) bool { return l.denom == dd }).String())
		var row []string
		for _, p := range h.probes {
			pp := p
			row = append(row, h.sumLocks(sn, func(l c14Lock) bool { return l.denom == dd && l.dur >= pp }).String())
		}
		W = append(W, c14Join(row, ","))
	}
	for a := 0; a < h.nA; a++ {
		var row []string
		for d := 0; d < h.nD; d++ {
			aa, dd := a, d
			row = append(row, h.sumLocks(sn, func(l c14Lock) bool { return l.owner == aa && l.denom == dd }).String())
		}
		O = append(O, c14Join(row, ","))
	}
	for _, id := range sn.ids {
		if l := sn.locks[id]; l.unl && l.end <= sn.now {
			U = append(U, strconv.FormatUint(id, 10))
		}
	}
	// the parameters in force, as the keeper returns them
	pr := h.k.GetParams(ctx)
	var al []string
	for _, a := range pr.ForceUnlockAllowedAddresses {
		al = append(al, strconv.Itoa(h.actorOf(a)))
	}
	P := fmt.Sprintf("%d:%s:%s", int64(pr.MinLockDuration), pr.LockCreationFee.String(), c14Join(al, ","))
	// two walks of the lock-reference indexes: GetPeriodLocks in the order it returns (= the order of the
	// exported genesis: not-unlocking by (duration, id), then unlocking), and the EndBlocker's own
	// iterator over the end-time references (ids, sorted)
	var G, I []string
	if all, err := h.k.GetPeriodLocks(ctx); err == nil {
		for _, pl := range all {
			G = append(G, strconv.FormatUint(pl.ID, 10))
		}
	}
	for _, id := range h.maturedByIterator(ctx) {
		I = append(I, strconv.FormatUint(id, 10))
	}
	return fmt.Sprintf("%s L=%s last=%d M=%s B=%s Q=%s A=%s S=%s W=%s O=%s U=%s t=%d h=%d P=%s G=%s I=%s", out, c14Join(L, ","), last, c14Join(M, ","),
		c14Join(B, ";"), c14Join(Q, ";"), c14Join(A, ";"), c14Join(S, ","), c14Join(W, ";"), c14Join(O, ";"), c14Join(U, "."),
		int64(h.f.Time.Sub(BaseTime)), h.f.Height, P, c14Join(G, "."), c14Join(I, ".")) + h.renderRefs(ctx, c14Join(G, "."))
}

// maturedByIterator walks LockIteratorBeforeTime(block time) — the iterator WithdrawAllMaturedLocks uses —
// and returns the referenced lock ids, ascending.
func (h *c14H) maturedByIterator(ctx sdk.Context) []uint64 {
	it := h.k.LockIteratorBeforeTime(ctx, h.f.Time)
	defer it.Close()
	ids := []uint64{}
	for ; it.Valid(); it.Next() {
		ids = append(ids, sdk.BigEndianToUint64(it.Value()))
	}
	sort.Slice(ids, func(i, j int) bool { return ids[i] < ids[j] })
	return ids
}

// readParams re-observes the lockup parameters in force (after a restart the module has written its
// defaults; after setparams whatever the subspace accepted).
func (h *c14H) readParams() {
	p := h.k.GetParams(h.f.Ctx)
	h.minDur = int64(p.MinLockDuration)
	if p.LockCreationFee.IsNil() || !p.LockCreationFee.IsInt64() {
		h.r.T.Fatalf("lock creation fee out of the harness's range: %v", p.LockCreationFee)
	}
	h.fee = p.LockCreationFee.Int64()
	h.allowed, h.allowL = map[int]bool{}, nil
	for _, a := range p.ForceUnlockAllowedAddresses {
		i := h.actorOf(a)
		h.allowed[i] = true
		h.allowL = append(h.allowL, i)
	}
}

func c14CSV(s string) []int64 {
	if s == "-" || s == "" {
		return nil
	}
	var out []int64
	for _, x := range strings.Split(s, ",") {
		v, _ := strconv.ParseInt(x, 10, 64)
		out = append(out, v)
	}
	return out
}

func (h *c14H) viol(sig, detail string) {
	h.r.Violate(sig, detail, append([]string(nil), h.trace...)...)
}

// parsed op, for the monitors
type c14Op struct {
	kind   string
	a      int
	id     uint64
	d      int
	amt    int64
	dur    int64
	hasC   bool
	out    string // ok:<id> / err:<class> / panic
	ok     bool
	wasVB  bool
	retID  uint64
	newDur int64
}

func (h *c14H) coins(hasC bool, d int, amt int64) sdk.Coins {
	if !hasC {
		return nil
	}
	return sdk.Coins{sdk.Coin{Denom: h.denomName(d), Amount: math.NewInt(amt)}}
}

// exec runs one op line on the real code, evaluates the monitors and returns the observation.
func (h *c14H) exec(line string) string {
	f := strings.Fields(line)
	h.trace = append(h.trace, line)
	pi := func(i int) int64 {
		if i >= len(f) {
			return 0
		}
		v, _ := strconv.ParseInt(f[i], 10, 64)
		return v
	}
	if len(f) == 0 {
		return "bad-op"
	}
	switch f[0] {
	case "reset":
		if len(f) != 8 {
			return "bad-op"
		}
		h.trace = []string{line}
		h.f = NewFix(h.r.T)
		h.k = h.f.App.LockupKeeper
		h.f.Rebind = append(h.f.Rebind, func() { h.k = h.f.App.LockupKeeper }) // C18 continue-after-import
		h.minDur, h.fee = pi(1), pi(2)
		h.allowed = map[int]bool{}
		h.nA, h.nD = int(pi(4)), int(pi(5))
		base, err := h.f.App.TxFeesKeeper.GetBaseDenom(h.f.Ctx)
		if err != nil {
			h.r.T.Fatalf("base denom: %v", err)
		}
		if pi(6) != 0 {
			h.r.T.Fatalf("fee denom index must be 0")
		}
		h.denoms = []string{base, "bar", "foo", "foobar", "baz"}[:h.nD]
		h.addrs = nil
		for a := 0; a < h.nA; a++ {
			h.addrs = append(h.addrs, Actor(a))
		}
		var al []string
		for _, a := range c14CSV(f[3]) {
			h.allowed[int(a)] = true
			al = append(al, h.addr(int(a)).String())
		}
		h.probes = c14CSV(f[7])
		h.k.SetParams(h.f.Ctx, lockuptypes.NewParams(al, math.NewInt(h.fee), time.Duration(h.minDur)))
		h.modAddr = authtypes.NewModuleAddress(lockuptypes.ModuleName)
		h.started = map[uint64]int64{}
		h.kinds = nil
		h.nontriv = false
		h.snap = h.takeSnap()
		// echo of the parameters as the real keeper returns them
		p := h.k.GetParams(h.f.Ctx)
		if int64(p.MinLockDuration) != h.minDur || !p.LockCreationFee.Equal(math.NewInt(h.fee)) || len(p.ForceUnlockAllowedAddresses) != len(al) {
			h.r.T.Fatalf("params not set: %+v", p)
		}
		h.readParams()
		return "ok"
	case "fund":
		if len(f) != 4 {
			return "bad-op"
		}
		h.f.Fund(h.addr(int(pi(1))), sdk.NewCoin(h.denomName(int(pi(2))), math.NewInt(pi(3))))
		h.snap = h.takeSnap()
		return h.render("ok:0")
	}
	if h.f == nil {
		return "bad-op"
	}
	pre := h.snap
	op := c14Op{kind: f[0]}
	var err error
	var vbErr error
	deliver := func(msg sdk.Msg) []byte {
		if vb, ok := msg.(sdk.HasValidateBasic); ok {
			if vbErr = vb.ValidateBasic(); vbErr != nil {
				op.wasVB = true
				return nil
			}
		}
		var res *sdk.Result
		res, err = h.f.Deliver(msg)
		if err != nil || res == nil {
			return nil
		}
		return res.Data
	}
	switch f[0] {
	case "lock":
		if len(f) != 5 {
			return "bad-op"
		}
		op.a, op.d, op.amt, op.dur = int(pi(1)), int(pi(2)), pi(3), pi(4)
		data := deliver(&lockuptypes.MsgLockTokens{Owner: h.addr(op.a).String(), Duration: time.Duration(op.dur), Coins: h.coins(true, op.d, op.amt)})
		if data != nil {
			var resp lockuptypes.MsgLockTokensResponse
			_ = proto.Unmarshal(data, &resp)
			op.retID = resp.ID
		}
	case "unlock", "force":
		if len(f) != 4 && len(f) != 5 {
			return "bad-op"
		}
		op.a, op.id = int(pi(1)), uint64(pi(2))
		if len(f) == 5 {
			op.hasC, op.d, op.amt = true, int(pi(3)), pi(4)
		} else if f[3] != "-" {
			return "bad-op"
		}
		if f[0] == "unlock" {
			data := deliver(&lockuptypes.MsgBeginUnlocking{Owner: h.addr(op.a).String(), ID: op.id, Coins: h.coins(op.hasC, op.d, op.amt)})
			if data != nil {
				var resp lockuptypes.MsgBeginUnlockingResponse
				_ = proto.Unmarshal(data, &resp)
				op.retID = resp.UnlockingLockID
			}
		} else {
			deliver(&lockuptypes.MsgForceUnlock{Owner: h.addr(op.a).String(), ID: op.id, Coins: h.coins(op.hasC, op.d, op.amt)})
		}
	case "extend":
		if len(f) != 4 {
			return "bad-op"
		}
		op.a, op.id, op.dur = int(pi(1)), uint64(pi(2)), pi(3)
		deliver(&lockuptypes.MsgExtendLockup{Owner: h.addr(op.a).String(), ID: op.id, Duration: time.Duration(op.dur)})
	case "begin":
		if len(f) != 2 || pi(1) < 0 {
			return "bad-op"
		}
		err = h.f.Begin(time.Duration(pi(1)))
	case "end":
		if len(f) != 1 {
			return "bad-op"
		}
		err = h.f.End()
	case "restart":
		// chain restart: ExportGenesis of every module on the live state, production InitChainer on a
		// fresh application; everything after runs on the imported chain.  The lockup params are whatever
		// lockup's InitGenesis wrote: re-observed, not re-set.
		if len(f) != 1 {
			return "bad-op"
		}
		f2, _, _, ierr := h.f.ImportedCopy()
		if ierr != nil {
			err = ierr
		} else {
			h.f, h.k = f2, f2.App.LockupKeeper
			lastFix = f2
			h.readParams()
		}
	case "setparams":
		if len(f) != 4 || pi(1) < 0 || pi(2) < 0 {
			return "bad-op"
		}
		var al []string
		for _, a := range c14CSV(f[3]) {
			al = append(al, h.addr(int(a)).String())
		}
		np := lockuptypes.NewParams(al, math.NewInt(pi(2)), time.Duration(pi(1)))
		err = h.f.Try(func(ctx sdk.Context) error { h.k.SetParams(ctx, np); return nil })
		h.readParams()
		if err == nil && (h.minDur != pi(1) || h.fee != pi(2) || len(h.allowL) != len(al)) {
			h.viol("C14/setparams/not-in-force", fmt.Sprintf("set %s, keeper returns %+v", line, h.k.GetParams(h.f.Ctx)))
		}
	default:
		return "bad-op"
	}
	switch {
	case op.wasVB:
		op.out = "err:invalid"
	case err == nil:
		op.out, op.ok = "ok:"+strconv.FormatUint(op.retID, 10), true
	case IsPanic(err):
		op.out = "panic"
	default:
		op.out = "err:" + c14ErrClass(err)
		if op.kind == "begin" || op.kind == "end" || op.kind == "restart" || op.kind == "setparams" {
			op.out = "panic" // an error out of Begin/EndBlocker (or of the import) halts the chain just as a panic does
		}
	}
	post := h.takeSnap()
	h.snap = post
	h.monitor(op, pre, post, err)
	h.kinds = append(h.kinds, op.kind+"/"+op.out[:strings.IndexAny(op.out+":", ":")]+c14Sub(op, pre))
	if op.ok && op.kind != "begin" && op.kind != "end" && op.kind != "restart" && op.kind != "setparams" {
		h.nontriv = true
	}
	return h.render(op.out)
}

// c14Sub refines the op kind for the class hash / branch counters.
func c14Sub(op c14Op, pre c14Snap) string {
	l, ex := pre.locks[op.id]
	switch op.kind {
	case "unlock", "force":
		s := ""
		if ex && l.unl {
			s += "/unlocking"
		}
		if op.hasC && ex && math.NewInt(op.amt).LT(l.amt) {
			s += "/partial"
		}
		return s
	}
	return ""
}

func (h *c14H) sumLocks(s c14Snap, pred func(c14Lock) bool) math.Int {
	t := math.ZeroInt()
	for _, id := range s.ids {
		if l := s.locks[id]; pred(l) {
			t = t.Add(l.amt)
		}
	}
	return t
}

// monitor: the property's clauses evaluated on the implementation (model independent).
func (h *c14H) monitor(op c14Op, pre, post c14Snap, err error) {
	ctx, _ := h.f.Ctx.CacheContext() // discarded: see render
	isAdmin := op.kind == "restart" || op.kind == "setparams"
	isMsg := op.kind != "begin" && op.kind != "end" && !isAdmin
	// --- block processing must not fail
	if !isMsg && !isAdmin && err != nil {
		h.viol("C14/"+op.kind+"block/fails", err.Error())
		return
	}
	// --- the exported state must be importable; a params change must be accepted
	if isAdmin && err != nil {
		h.viol("C14/"+op.kind+"/fails", trunc200(err.Error()))
		return
	}
	// --- a restart / a params change moves no coin and touches no lock (every field of every lock is
	//     compared by the per-lock monitors below: for these two op kinds ANY difference is a violation)
	if isAdmin {
		if post.last != pre.last {
			h.viol("C14/"+op.kind+"/last-lock-id-changed", fmt.Sprintf("%d -> %d", pre.last, post.last))
		}
		same := pre.modAll.Equal(post.modAll) && len(pre.ids) == len(post.ids)
		for a := 0; a < h.nA && same; a++ {
			for d := 0; d < h.nD; d++ {
				if !pre.bal[a][d].Equal(post.bal[a][d]) {
					same = false
				}
			}
		}
		if !same {
			h.viol("C14/"+op.kind+"/balances-or-lock-count-changed", fmt.Sprintf("module %s -> %s, locks %d -> %d", pre.modAll, post.modAll, len(pre.ids), len(post.ids)))
		}
		for _, id := range pre.ids {
			l := pre.locks[id]
			n, still := post.locks[id]
			if !still {
				h.viol("C14/"+op.kind+"/lock-lost", fmt.Sprintf("lock %d: %+v", id, l))
			} else if l.id != n.id || l.owner != n.owner || l.dur != n.dur || l.unl != n.unl || l.end != n.end || l.denom != n.denom || !l.amt.Equal(n.amt) || l.ncoins != n.ncoins {
				h.viol("C14/"+op.kind+"/lock-changed", fmt.Sprintf("lock %d: %+v -> %+v", id, l, n))
			}
		}
		if op.kind == "setparams" && pre.digest != post.digest {
			h.viol("C14/setparams/changed-lockup-store", "a params change wrote to the lockup store")
		}
		if post.now != pre.now || post.height != pre.height {
			h.viol("C14/"+op.kind+"/clock-changed", fmt.Sprintf("t %d -> %d, h %d -> %d", pre.now, post.now, pre.height, post.height))
		}
	}
	if isMsg && IsPanic(err) {
		h.viol("C14/msg/"+op.kind+"-panics", err.Error())
	}
	// --- a rejected message leaves the module's store and all balances untouched
	if isMsg && !op.ok {
		same := pre.digest == post.digest && pre.modAll.Equal(post.modAll)
		for a := 0; a < h.nA && same; a++ {
			for d := 0; d < h.nD; d++ {
				if !pre.bal[a][d].Equal(post.bal[a][d]) {
					same = false
				}
			}
		}
		if !same {
			h.viol("C14/rejected/"+op.kind+"-changed-state", "rejected message ("+op.out+") changed lockup store or balances")
		}
	}
	// --- custody: module account = Σ coins of existing locks, per denom (all denoms the account holds)
	for _, id := range post.ids {
		if l := post.locks[id]; l.ncoins != 1 || l.denom < 0 || !l.amt.IsPositive() || l.owner < 0 {
			h.viol("C14/custody/malformed-lock", fmt.Sprintf("lock %d: %+v", id, l))
		}
	}
	for d := 0; d < h.nD; d++ {
		dd := d
		if s := h.sumLocks(post, func(l c14Lock) bool { return l.denom == dd }); !s.Equal(post.mod[d]) {
			h.viol("C14/custody/module-balance-differs", fmt.Sprintf("denom %d: module balance %s, Σ locks %s", d, post.mod[d], s))
		}
	}
	for _, c := range post.modAll {
		if h.denomIdx(c.Denom) < 0 {
			h.viol("C14/custody/foreign-denom-in-module-account", c.String())
		}
	}
	// --- accumulation(denom, k) = Σ coins of locks with duration >= k, for every k that can matter
	ks := map[int64]bool{0: true, 1: true}
	for _, p := range h.probes {
		ks[p] = true
	}
	for _, s := range []c14Snap{pre, post} {
		for _, l := range s.locks {
			ks[l.dur], ks[l.dur+1] = true, true
			if l.dur > 0 {
				ks[l.dur-1] = true
			}
		}
	}
	if op.dur > 0 {
		ks[op.dur], ks[op.dur+1], ks[op.dur-1] = true, true, true
	}
	for d := 0; d < h.nD; d++ {
		for k := range ks {
			dd, kk := d, k
			got := h.k.GetPeriodLocksAccumulation(ctx, lockuptypes.QueryCondition{LockQueryType: lockuptypes.ByDuration, Denom: h.denoms[d], Duration: time.Duration(k)})
			want := h.sumLocks(post, func(l c14Lock) bool { return l.denom == dd && l.dur >= kk })
			if !got.Equal(want) {
				h.viol("C14/accumulation/differs-from-lock-sum", fmt.Sprintf("denom %d duration>=%d: accumulation %s, Σ locks %s", d, k, got, want))
			}
		}
	}
	// --- the module's own registered invariants (extra oracles)
	if msg, broken := lockupkeeper.AccumulationStoreInvariant(*h.k)(ctx); broken {
		h.viol("C14/registered-invariant/accumulation-store", msg)
	}
	if msg, broken := lockupkeeper.LocksBalancesInvariant(*h.k)(ctx); broken {
		h.viol("C14/registered-invariant/locks-amount", msg)
	}
	// --- the indexes serve the queries: all locks / by account / by id agree with the stored objects
	if all, _ := h.k.GetPeriodLocks(ctx); true {
		var ids []uint64
		for _, pl := range all {
			ids = append(ids, pl.ID)
		}
		sort.Slice(ids, func(i, j int) bool { return ids[i] < ids[j] })
		if fmt.Sprint(ids) != fmt.Sprint(post.ids) {
			h.viol("C14/index/all-locks-query-differs", fmt.Sprintf("GetPeriodLocks %v, stored %v", ids, post.ids))
		}
	}
	for a := 0; a < h.nA; a++ {
		var ids, want []uint64
		for _, pl := range h.k.GetAccountPeriodLocks(ctx, h.addrs[a]) {
			ids = append(ids, pl.ID)
		}
		sort.Slice(ids, func(i, j int) bool { return ids[i] < ids[j] })
		for _, id := range post.ids {
			if post.locks[id].owner == a {
				want = append(want, id)
			}
		}
		if fmt.Sprint(ids) != fmt.Sprint(want) {
			h.viol("C14/index/by-account-query-differs", fmt.Sprintf("actor %d: GetAccountPeriodLocks %v, stored %v", a, ids, want))
		}
	}
	// --- the end-time references (rebuilt by addLockRefs at begin-unlock and at import) name exactly the
	//     unlocking locks whose end time has come
	{
		want := []uint64{}
		for _, id := range post.ids {
			if l := post.locks[id]; l.unl && l.end <= post.now {
				want = append(want, id)
			}
		}
		if got := h.maturedByIterator(ctx); fmt.Sprint(got) != fmt.Sprint(want) {
			h.viol("C14/index/matured-iterator-differs", fmt.Sprintf("LockIteratorBeforeTime %v, stored %v", got, want))
		}
	}
	// --- every index-driven query against the lock table (c14_refs_test.go)
	h.monitorRefs(ctx, post)
	// --- ids are never reused
	if post.last < pre.last {
		h.viol("C14/ids/last-lock-id-decreased", fmt.Sprintf("%d -> %d", pre.last, post.last))
	}
	for _, id := range post.ids {
		if _, old := pre.locks[id]; !old && id <= pre.last {
			h.viol("C14/ids/reused", fmt.Sprintf("lock %d appeared, last id was %d", id, pre.last))
		}
		if id > post.last {
			h.viol("C14/ids/above-last", fmt.Sprintf("lock %d > last id %d", id, post.last))
		}
	}
	ownerOK := func(l c14Lock) bool { return isMsg && op.ok && op.a == l.owner }
	forceOK := func(l c14Lock) bool {
		return op.kind == "force" && ownerOK(l) && op.id == l.id && h.allowed[op.a]
	}
	// --- per existing lock: immutables, duration monotone, end time, exits
	for _, id := range pre.ids {
		l := pre.locks[id]
		n, still := post.locks[id]
		if still {
			if n.owner != l.owner || n.denom != l.denom {
				h.viol("C14/immutable/owner-or-denom-changed", fmt.Sprintf("lock %d: %+v -> %+v", id, l, n))
			}
			if n.dur < l.dur {
				h.viol("C14/duration/decreased", fmt.Sprintf("lock %d: %d -> %d", id, l.dur, n.dur))
			}
			if n.dur != l.dur && !(op.kind == "extend" && ownerOK(l) && op.id == id && !l.unl) {
				h.viol("C14/duration/changed-without-owner-extend", fmt.Sprintf("lock %d: %d -> %d by %s", id, l.dur, n.dur, op.kind))
			}
			if l.unl && (!n.unl || n.end != l.end) {
				h.viol("C14/timing/end-time-changed", fmt.Sprintf("lock %d: end %d -> %v/%d", id, l.end, n.unl, n.end))
			}
			if !l.unl && n.unl {
				if !(op.kind == "unlock" && ownerOK(l) && op.id == id) {
					h.viol("C14/timing/unlock-started-without-owner-request", fmt.Sprintf("lock %d by op %s of actor %d", id, op.kind, op.a))
				}
				if n.end != post.now+n.dur {
					h.viol("C14/timing/end-time-not-start-plus-duration", fmt.Sprintf("lock %d: end %d, now %d, duration %d", id, n.end, post.now, n.dur))
				}
				h.started[id] = post.now
			}
			if n.amt.GT(l.amt) && !(op.kind == "lock" && ownerOK(l) && op.d == l.denom && n.amt.Sub(l.amt).Equal(math.NewInt(op.amt)) && !l.unl && op.dur == l.dur) {
				h.viol("C14/topup/amount-grew-without-owner-deposit", fmt.Sprintf("lock %d: %s -> %s by %s", id, l.amt, n.amt, op.kind))
			}
			if n.amt.LT(l.amt) {
				diff := l.amt.Sub(n.amt)
				switch {
				case op.kind == "unlock" && ownerOK(l) && op.id == id:
					// the difference must sit in exactly one fresh unlocking lock of the same owner
					s, okSplit := post.locks[op.retID]
					if _, old := pre.locks[op.retID]; old || !okSplit || s.owner != l.owner || s.denom != l.denom || s.dur != l.dur || !s.amt.Equal(diff) || !s.unl {
						h.viol("C14/split/partial-unlock-not-conserving", fmt.Sprintf("lock %d: %s -> %s, split lock %d: %+v", id, l.amt, n.amt, op.retID, s))
					}
				case forceOK(l):
				default:
					h.viol("C14/exit/amount-decreased-without-right", fmt.Sprintf("lock %d: %s -> %s by op %s of actor %d", id, l.amt, n.amt, op.kind, op.a))
				}
			}
			continue
		}
		// the lock is gone: matured after the owner's own unlock request, or force-unlocked by an authorised owner
		switch {
		case op.kind == "end":
			t0, ok := h.started[id]
			if !ok || !l.unl {
				h.viol("C14/exit/returned-without-owner-unlock-request", fmt.Sprintf("lock %d (%+v) removed by EndBlocker", id, l))
			} else if t0+l.dur > post.now {
				h.viol("C14/exit/returned-before-period-elapsed", fmt.Sprintf("lock %d: unlock started %d, duration %d, now %d", id, t0, l.dur, post.now))
			}
		case forceOK(l):
		default:
			h.viol("C14/exit/lock-removed-without-right", fmt.Sprintf("lock %d (%+v) removed by op %s of actor %d", id, l, op.kind, op.a))
		}
	}
	// --- new locks: created by the owner's deposit, or split off an own lock
	for _, id := range post.ids {
		if _, old := pre.locks[id]; old {
			continue
		}
		n := post.locks[id]
		switch {
		case op.kind == "lock" && op.ok && op.a == n.owner && op.retID == id:
			if n.unl || n.dur != op.dur || n.denom != op.d || !n.amt.Equal(math.NewInt(op.amt)) {
				h.viol("C14/create/new-lock-differs-from-request", fmt.Sprintf("%+v", n))
			}
			if n.dur < h.minDur {
				h.viol("C14/create/below-min-duration-accepted", fmt.Sprintf("%+v min %d", n, h.minDur))
			}
		case op.kind == "unlock" && op.ok && op.a == n.owner && op.retID == id:
			if !n.unl || n.end != post.now+n.dur {
				h.viol("C14/timing/end-time-not-start-plus-duration", fmt.Sprintf("split lock %d: %+v now %d", id, n, post.now))
			}
			h.started[id] = post.now
		default:
			h.viol("C14/create/lock-appeared-without-owner-request", fmt.Sprintf("lock %d (%+v) after op %s of actor %d", id, n, op.kind, op.a))
		}
	}
	// --- an owner's total (free + locked) never changes except by the lock fee: coins that leave a
	//     lock reach the owner and nobody else; split / top-up / extend conserve
	for a := 0; a < h.nA; a++ {
		for d := 0; d < h.nD; d++ {
			aa, dd := a, d
			own := func(s c14Snap) math.Int {
				return s.bal[aa][dd].Add(h.sumLocks(s, func(l c14Lock) bool { return l.owner == aa && l.denom == dd }))
			}
			want := own(pre)
			if op.kind == "lock" && op.ok && op.a == a && d == 0 {
				want = want.Sub(math.NewInt(h.fee))
			}
			if got := own(post); !got.Equal(want) {
				h.viol("C14/conservation/owner-total-changed", fmt.Sprintf("actor %d denom %d: free+locked %s -> %s (op %s %s)", a, d, own(pre), got, op.kind, op.out))
			}
			lp := h.sumLocks(pre, func(l c14Lock) bool { return l.owner == aa && l.denom == dd })
			lq := h.sumLocks(post, func(l c14Lock) bool { return l.owner == aa && l.denom == dd })
			if lq.LT(lp) && op.kind != "end" && !(op.kind == "force" && op.ok && op.a == a && h.allowed[a]) {
				h.viol("C14/exit/locked-total-decreased-by-message", fmt.Sprintf("actor %d denom %d: locked %s -> %s by %s of actor %d", a, d, lp, lq, op.kind, op.a))
			}
		}
	}
	// --- nobody but the owner: an accepted unlock/extend/force names the signer's own lock
	if (op.kind == "unlock" || op.kind == "extend" || op.kind == "force") && op.ok {
		if l, ex := pre.locks[op.id]; !ex || l.owner != op.a {
			h.viol("C14/nobody-else/non-owner-message-accepted", fmt.Sprintf("%s by actor %d on lock %d (%+v, exists %v)", op.kind, op.a, op.id, l, ex))
		}
		if op.kind == "force" && !h.allowed[op.a] {
			h.viol("C14/nobody-else/force-unlock-by-unauthorised", fmt.Sprintf("actor %d", op.a))
		}
	}
	// --- after the period the coins do return: at EndBlock (height >= 6) every lock whose end time has
	//     come is paid out, and none whose end time has not
	if op.kind == "end" {
		for _, id := range pre.ids {
			l := pre.locks[id]
			_, still := post.locks[id]
			due := l.unl && l.end <= post.now && post.height >= 6
			if due && still {
				h.viol("C14/timing/matured-lock-not-returned", fmt.Sprintf("lock %d end %d now %d height %d", id, l.end, post.now, post.height))
			}
		}
	}
}

// c14Res: ok / err / panic from an observation line
func c14Res(obs string) string {
	for _, p := range []string{"ok", "err", "panic"} {
		if strings.HasPrefix(obs, p) {
			return p
		}
	}
	return "bad"
}

func c14Hash(xs []string) string {
	hh := fnv.New64a()
	for _, x := range xs {
		hh.Write([]byte(x))
		hh.Write([]byte{0})
	}
	return strconv.FormatUint(hh.Sum64(), 16)
}

func (h *c14H) finishTrace() {
	if h.f == nil {
		return
	}
	h.r.Class(c14Hash(h.kinds), h.nontriv)
	h.r.Trace()
}

// ---------------------------------------------------------------------------------- generator

type c14Gen struct {
	h    *c14H
	rng  *Rng
	durs []int64
}

func (g *c14Gen) emit(line string) string {
	obs := g.h.exec(line)
	g.h.r.Emit(line, obs)
	return obs
}

func (g *c14Gen) pickLock(pred func(c14Lock) bool) (c14Lock, bool) {
	var c []c14Lock
	for _, id := range g.h.snap.ids {
		if l := g.h.snap.locks[id]; pred == nil || pred(l) {
			c = append(c, l)
		}
	}
	if len(c) == 0 {
		return c14Lock{}, false
	}
	return c[g.rng.Intn(len(c))], true
}

func (g *c14Gen) amount(bal math.Int) int64 {
	b := int64(0)
	if bal.IsInt64() {
		b = bal.Int64()
	}
	switch g.rng.Intn(10) {
	case 0:
		return 1
	case 1:
		return 2
	case 2:
		if b > 0 {
			return b
		}
	case 3:
		if b > g.h.fee {
			return b - g.h.fee
		}
	}
	if b <= 1 {
		return 1 + int64(g.rng.Intn(50))
	}
	m := b / 4
	if m < 1 {
		m = 1
	}
	return 1 + int64(g.rng.U64()%uint64(m))
}

func (g *c14Gen) dur() int64 { return g.durs[g.rng.Intn(len(g.durs))] }

func (g *c14Gen) genLock() {
	h, rng := g.h, g.rng
	a, d := rng.Intn(h.nA), rng.Intn(h.nD)
	dur := g.dur()
	amt := g.amount(h.snap.bal[a][d])
	br := "lock/new"
	if rng.Chance(35) {
		if l, ok := g.pickLock(nil); ok {
			a, d, dur = l.owner, l.denom, l.dur
			amt = g.amount(h.snap.bal[a][d])
			br = "lock/topup-same-owner-denom-duration"
			if l.unl {
				br = "lock/same-as-unlocking-lock"
			}
		}
	}
	if dur < h.minDur {
		br = "lock/below-min-duration"
	} else if dur == h.minDur {
		h.r.Hit("lock/at-min-duration")
	}
	if rng.Chance(25) { // perturb
		switch rng.Intn(7) {
		case 0:
			amt, br = 0, "lock/zero-amount"
		case 1:
			amt, br = -amt, "lock/negative-amount"
		case 2:
			dur, br = 0, "lock/zero-duration"
		case 3:
			dur, br = -dur, "lock/negative-duration"
		case 4:
			if h.snap.bal[a][d].IsInt64() {
				amt, br = h.snap.bal[a][d].Int64()+1, "lock/more-than-balance"
			}
		case 5:
			if h.snap.bal[a][d].IsInt64() && d == 0 && h.fee > 0 {
				amt, br = h.snap.bal[a][d].Int64()-h.fee+1, "lock/fee-denom-balance-short-by-one"
			}
		case 6:
			if h.minDur > 0 {
				dur, br = h.minDur-1, "lock/below-min-duration"
			}
		}
	}
	obs := g.emit(fmt.Sprintf("lock %d %d %d %d", a, d, amt, dur))
	h.r.Hit(br + "=>" + c14Res(obs))
}

func (g *c14Gen) coinArg(l c14Lock) (string, string) {
	amt := int64(0)
	if l.amt.IsInt64() {
		amt = l.amt.Int64()
	}
	switch g.rng.Intn(12) {
	case 0, 1, 2, 3:
		return "-", "all-empty-coins"
	case 4:
		return fmt.Sprintf("%d %d", l.denom, amt), "all-equal-coins"
	case 5, 6, 7:
		if amt > 1 {
			return fmt.Sprintf("%d %d", l.denom, 1+int64(g.rng.U64()%uint64(amt-1))), "partial"
		}
		return "-", "all-empty-coins"
	case 8:
		if amt > 1 {
			return fmt.Sprintf("%d %d", l.denom, amt-1), "partial-all-but-one"
		}
		return fmt.Sprintf("%d 1", l.denom), "all-equal-coins"
	case 9:
		return fmt.Sprintf("%d %d", l.denom, amt+1), "more-than-locked"
	case 10:
		if g.h.nD > 1 {
			return fmt.Sprintf("%d %d", (l.denom+1)%g.h.nD, 1), "other-denom"
		}
		return fmt.Sprintf("%d %d", l.denom+1, 1), "unknown-denom"
	default:
		return fmt.Sprintf("%d 0", l.denom), "zero-amount"
	}
}

func (g *c14Gen) signer(l c14Lock, pct int) (int, string) {
	if g.rng.Chance(pct) {
		return (l.owner + 1 + g.rng.Intn(g.h.nA-1)) % g.h.nA, "non-owner"
	}
	return l.owner, "owner"
}

func (g *c14Gen) genUnlock() {
	h, rng := g.h, g.rng
	var l c14Lock
	var ok bool
	if rng.Chance(85) {
		l, ok = g.pickLock(func(l c14Lock) bool { return !l.unl })
	}
	if !ok {
		l, ok = g.pickLock(nil)
	}
	if !ok || rng.Chance(4) {
		id := h.snap.last + 1 + uint64(rng.Intn(2))
		if rng.Chance(30) {
			id = 0
		}
		obs := g.emit(fmt.Sprintf("unlock %d %d -", rng.Intn(h.nA), id))
		h.r.Hit("unlock/absent-or-zero-id=>" + c14Res(obs))
		return
	}
	c, cb := g.coinArg(l)
	a, sb := g.signer(l, 12)
	st := "not-unlocking"
	if l.unl {
		st = "already-unlocking"
	}
	obs := g.emit(fmt.Sprintf("unlock %d %d %s", a, l.id, c))
	h.r.Hit("unlock/" + sb + "/" + st + "/" + cb + "=>" + c14Res(obs))
}

func (g *c14Gen) genExtend() {
	h, rng := g.h, g.rng
	var l c14Lock
	var ok bool
	if rng.Chance(85) {
		l, ok = g.pickLock(func(l c14Lock) bool { return !l.unl })
	}
	if !ok {
		l, ok = g.pickLock(nil)
	}
	if !ok || rng.Chance(4) {
		obs := g.emit(fmt.Sprintf("extend %d %d %d", rng.Intn(h.nA), h.snap.last+1, g.dur()))
		h.r.Hit("extend/absent-id=>" + c14Res(obs))
		return
	}
	var dur int64
	var br string
	switch rng.Intn(10) {
	case 0:
		dur, br = l.dur, "same-duration"
	case 1:
		dur, br = l.dur-1, "shorter-by-one"
	case 2:
		dur, br = l.dur+1, "longer-by-one"
	case 3:
		dur, br = 0, "zero-duration"
	case 4, 5:
		// to the duration of another lock of the same owner and denom: equal durations for one owner
		if o, ok2 := g.pickLock(func(o c14Lock) bool { return o.owner == l.owner && o.denom == l.denom && o.id != l.id && o.dur > l.dur }); ok2 {
			dur, br = o.dur, "to-equal-duration-of-own-other-lock"
			break
		}
		fallthrough
	default:
		dur, br = g.dur(), "pool-duration"
		if dur <= l.dur && rng.Chance(70) {
			dur = l.dur + 1 + int64(rng.Intn(1000))
			br = "longer"
		}
	}
	a, sb := g.signer(l, 12)
	st := "not-unlocking"
	if l.unl {
		st = "unlocking"
	}
	obs := g.emit(fmt.Sprintf("extend %d %d %d", a, l.id, dur))
	h.r.Hit("extend/" + sb + "/" + st + "/" + br + "=>" + c14Res(obs))
}

func (g *c14Gen) genForce() {
	h, rng := g.h, g.rng
	var l c14Lock
	var ok bool
	if rng.Chance(70) {
		l, ok = g.pickLock(func(l c14Lock) bool { return h.allowed[l.owner] })
	}
	if !ok {
		l, ok = g.pickLock(nil)
	}
	if !ok {
		obs := g.emit(fmt.Sprintf("force %d %d -", rng.Intn(h.nA), h.snap.last+1))
		h.r.Hit("force/absent-id=>" + c14Res(obs))
		return
	}
	c, cb := g.coinArg(l)
	a, sb := g.signer(l, 20)
	if sb == "non-owner" && rng.Chance(60) {
		// an authorised address trying somebody else's lock
		for _, x := range h.allowL {
			if x != l.owner {
				a, sb = x, "authorised-non-owner"
				break
			}
		}
	}
	al := "unauthorised"
	if h.allowed[a] {
		al = "authorised"
	}
	st := "not-unlocking"
	if l.unl {
		st = "unlocking"
	}
	obs := g.emit(fmt.Sprintf("force %d %d %s", a, l.id, c))
	h.r.Hit("force/" + sb + "/" + al + "/" + st + "/" + cb + "=>" + c14Res(obs))
}

func (g *c14Gen) genBlock() {
	h, rng := g.h, g.rng
	g.emit("end")
	var dt int64
	br := "block/dt-pool"
	// aim at the boundary of a pending maturity
	if l, ok := g.pickLock(func(l c14Lock) bool { return l.unl && l.end > h.snap.now }); ok && rng.Chance(60) {
		rem := l.end - h.snap.now
		switch rng.Intn(4) {
		case 0:
			dt, br = rem, "block/to-exact-end-time"
		case 1:
			dt, br = rem-1, "block/to-end-time-minus-1ns"
		case 2:
			dt, br = rem+1, "block/to-end-time-plus-1ns"
		default:
			dt, br = rem/2, "block/half-way"
		}
	} else {
		pool := []int64{0, 1, c14Sec, 6 * c14Sec, int64(time.Hour), c14Day, 7 * c14Day}
		dt = pool[rng.Intn(len(pool))]
	}
	if dt > 400*c14Day {
		dt, br = 400*c14Day, "block/dt-capped"
	}
	h.r.Hit(br)
	g.emit(fmt.Sprintf("begin %d", dt))
	if h.f.Height < 6 {
		h.r.Hit("block/height-below-6")
	}
}

// paramsLine renders a setparams line for the given values.
func c14ParamsLine(min, fee int64, al []int) string {
	var xs []string
	for _, a := range al {
		xs = append(xs, strconv.Itoa(a))
	}
	return fmt.Sprintf("setparams %d %d %s", min, fee, c14Join(xs, ","))
}

// genRestart: export -> InitChainer on a fresh application, the trace goes on there.  The import
// resets the lockup params to the module defaults (fee 5*10^16): afterwards either governance sets the
// old values again, or the actors are given enough of the fee denom to go on under the defaults.
func (g *c14Gen) genRestart() {
	h, rng := g.h, g.rng
	sn := h.snap
	nUnl, pair, split := 0, false, false
	seen := map[[2]int64]int{}
	for _, id := range sn.ids {
		l := sn.locks[id]
		if l.unl {
			nUnl++
			if _, ok := h.started[id]; ok && l.amt.IsPositive() {
				split = true
			}
		}
		k := [2]int64{int64(l.denom), l.dur}
		seen[k]++
		if seen[k] >= 2 {
			pair = true
		}
	}
	switch {
	case len(sn.ids) == 0:
		h.r.Hit("restart/no-locks")
	case len(sn.ids) == 1:
		h.r.Hit("restart/one-lock")
	default:
		h.r.Hit("restart/many-locks")
	}
	if nUnl > 0 {
		h.r.Hit("restart/while-unlocking")
	}
	if pair {
		h.r.Hit("restart/locks-sharing-denom-and-duration")
	}
	if split {
		h.r.Hit("restart/after-split-or-begin-unlock")
	}
	oMin, oFee, oAl := h.minDur, h.fee, append([]int(nil), h.allowL...)
	obs := g.emit("restart")
	h.r.Hit("restart=>" + c14Res(obs))
	if h.minDur != oMin || h.fee != oFee || len(h.allowL) != len(oAl) {
		h.r.Hit("restart/params-reset-by-import")
	}
	if rng.Chance(60) {
		g.emit(c14ParamsLine(oMin, oFee, oAl))
		h.r.Hit("restart/then-params-restored")
	} else {
		for a := 0; a < h.nA; a++ {
			if rng.Chance(70) && h.snap.bal[a][0].IsInt64() && h.snap.bal[a][0].Int64() < 4000000000000000000 {
				g.emit(fmt.Sprintf("fund %d 0 %d", a, h.fee*int64(1+rng.Intn(6))+int64(rng.Intn(1000000))))
			}
		}
		h.r.Hit("restart/then-default-params")
	}
}

// genSetParams: a governance change of the lockup params mid-history, with the directed follow-ups of
// the clauses: a removed owner's force-unlock, an existing lock below a raised minimum.
func (g *c14Gen) genSetParams() {
	h, rng := g.h, g.rng
	min, fee, al := h.minDur, h.fee, append([]int(nil), h.allowL...)
	var follow []string
	switch rng.Intn(5) {
	case 0: // raise the minimum above an existing lock's duration
		if l, ok := g.pickLock(func(l c14Lock) bool { return !l.unl && l.dur < 1<<61 }); ok {
			min = l.dur + 1 + int64(rng.Intn(3))*c14Sec
			h.r.Hit("setparams/min-raised-above-existing-lock")
			follow = append(follow, fmt.Sprintf("lock %d %d 1 %d", l.owner, l.denom, l.dur)) // top-up: now below the minimum
			follow = append(follow, fmt.Sprintf("unlock %d %d -", l.owner, l.id))           // still unlocks
			if rng.Chance(50) {
				follow = append(follow, "end", fmt.Sprintf("begin %d", l.dur), "end")
			}
			break
		}
		fallthrough
	case 1: // take an owner off the allow-list
		if l, ok := g.pickLock(func(l c14Lock) bool { return h.allowed[l.owner] }); ok {
			var na []int
			for _, a := range al {
				if a != l.owner {
					na = append(na, a)
				}
			}
			al = na
			h.r.Hit("setparams/owner-removed-from-allow-list")
			follow = append(follow, fmt.Sprintf("force %d %d -", l.owner, l.id))
			break
		}
		fallthrough
	case 2: // put an owner on the allow-list
		if l, ok := g.pickLock(func(l c14Lock) bool { return !h.allowed[l.owner] }); ok {
			al = append(al, l.owner)
			h.r.Hit("setparams/owner-added-to-allow-list")
			if rng.Chance(70) {
				follow = append(follow, fmt.Sprintf("force %d %d -", l.owner, l.id))
			}
			break
		}
		fallthrough
	case 3:
		fee = []int64{0, 1, 7, 1000, 50000}[rng.Intn(5)]
		h.r.Hit("setparams/fee-changed")
		follow = append(follow, fmt.Sprintf("lock %d 0 %d %d", rng.Intn(h.nA), 1+rng.Intn(50), g.dur()))
	default:
		min = []int64{0, 1, 5, c14Sec, c14Day}[rng.Intn(5)]
		al = nil
		for a := 0; a < h.nA; a++ {
			if rng.Chance(35) {
				al = append(al, a)
			}
		}
		h.r.Hit("setparams/all-random")
	}
	obs := g.emit(c14ParamsLine(min, fee, al))
	h.r.Hit("setparams=>" + c14Res(obs))
	for _, l := range follow {
		obs = g.emit(l)
		h.r.Hit("setparams/follow-up/" + strings.Fields(l)[0] + "=>" + c14Res(obs))
	}
}

// directed: the histories the restart clauses are about — two or more locks with the SAME denom and the
// SAME duration (the per-(denom, duration) accumulation entry InitializeAllLocks has to sum), a restart
// while locks are unlocking, a restart right after a split — each followed by lock / unlock / extend /
// maturity on the imported chain.
func (g *c14Gen) directed() {
	h, rng := g.h, g.rng
	d := rng.Intn(h.nD)
	dur := []int64{h.minDur, h.minDur + 1, c14Sec, c14Day, 7 * c14Day}[rng.Intn(5)]
	if dur <= 0 {
		dur = 1 + int64(rng.Intn(10))
	}
	a, b := 0, 1
	for _, x := range []int{a, b} {
		g.emit(fmt.Sprintf("fund %d 0 %d", x, 6*h.fee+100000))
		if d != 0 {
			g.emit(fmt.Sprintf("fund %d %d %d", x, d, 100000))
		}
	}
	g.emit(fmt.Sprintf("lock %d %d %d %d", a, d, 100+rng.Intn(900), dur))
	g.emit(fmt.Sprintf("lock %d %d %d %d", b, d, 50+rng.Intn(900), dur))
	mine := func(o int, unl bool) func(c14Lock) bool {
		return func(l c14Lock) bool { return l.owner == o && l.denom == d && l.dur == dur && l.unl == unl }
	}
	kind := rng.Intn(4)
	switch kind {
	case 0:
		h.r.Hit("directed/same-denom-same-duration/two-owners")
	case 1: // a third lock of the same (denom, duration): a's first one is unlocking, so the deposit opens a new lock
		if l, ok := g.pickLock(mine(a, false)); ok {
			g.emit(fmt.Sprintf("unlock %d %d -", a, l.id))
			g.emit(fmt.Sprintf("lock %d %d %d %d", a, d, 10+rng.Intn(90), dur))
		}
		h.r.Hit("directed/same-denom-same-duration/three-locks-one-unlocking")
	case 2: // restart while unlocking, part of the period elapsed
		if l, ok := g.pickLock(mine(b, false)); ok {
			g.emit(fmt.Sprintf("unlock %d %d -", b, l.id))
			g.emit("end")
			g.emit(fmt.Sprintf("begin %d", dur/2))
		}
		h.r.Hit("directed/restart-while-unlocking")
	default: // restart right after a split
		if l, ok := g.pickLock(mine(a, false)); ok && l.amt.IsInt64() && l.amt.Int64() > 1 {
			g.emit(fmt.Sprintf("unlock %d %d %d %d", a, l.id, d, 1+rng.Intn(int(l.amt.Int64()-1))))
		}
		h.r.Hit("directed/restart-after-split")
	}
	g.genRestart()
	// the imported chain goes on: deposit (top-up or new lock), begin-unlock, extend, maturity
	g.emit(fmt.Sprintf("lock %d %d %d %d", a, d, 1+rng.Intn(50), dur))
	if l, ok := g.pickLock(mine(b, false)); ok {
		if rng.Chance(50) {
			g.emit(fmt.Sprintf("extend %d %d %d", b, l.id, dur+1+int64(rng.Intn(100))))
		} else {
			g.emit(fmt.Sprintf("unlock %d %d -", b, l.id))
		}
	}
	if l, ok := g.pickLock(mine(a, false)); ok && rng.Chance(60) {
		g.emit(fmt.Sprintf("unlock %d %d -", a, l.id))
	}
	if rng.Chance(40) {
		g.genRestart() // twice in a row: the rebuilt store is exported again
	}
	for i := 0; i < 6 && h.f.Height < 7; i++ {
		g.emit("end")
		g.emit("begin 1")
	}
	g.emit("end")
	g.emit(fmt.Sprintf("begin %d", dur))
	g.emit("end")
}

func (g *c14Gen) trace(n int) {
	h, rng := g.h, g.rng
	nA, nD := 2+rng.Intn(3), 1+rng.Intn(3)
	// duration pool: around the minimum, around the registered invariant's probe durations, tiny, huge
	min := []int64{0, 1, 5, c14Sec, c14Day}[rng.Intn(5)]
	fee := []int64{0, 1, 7, 1000}[rng.Intn(4)]
	g.durs = []int64{1, 2, 5, 10, c14Sec - 1, c14Sec, c14Sec + 1, 60 * c14Sec, c14Day - 1, c14Day, c14Day + 1, 7 * c14Day, 7*c14Day + 1, 14 * c14Day, 14*c14Day - 1}
	if min > 0 {
		g.durs = append(g.durs, min-1, min, min, min+1, min+1)
	}
	if rng.Chance(30) {
		g.durs = append(g.durs, 1<<62)
	}
	var al []string
	for a := 0; a < nA; a++ {
		if rng.Chance(35) {
			al = append(al, strconv.Itoa(a))
		}
	}
	probes := []int64{0, 1, 2, 6, c14Sec, c14Sec + 1, c14Day, c14Day + 1, 7 * c14Day, 14 * c14Day, 14*c14Day + 1}
	if min > 1 {
		probes = append(probes, min)
	}
	var ps []string
	for _, p := range probes {
		ps = append(ps, strconv.FormatInt(p, 10))
	}
	g.emit(fmt.Sprintf("reset %d %d %s %d %d 0 %s", min, fee, c14Join(al, ","), nA, nD, strings.Join(ps, ",")))
	for a := 0; a < nA; a++ {
		for d := 0; d < nD; d++ {
			if rng.Chance(90) {
				amt := []int64{1, 10, 1000, 1000000, 5000000000}[rng.Intn(5)]
				if d == 0 && rng.Chance(70) {
					amt += fee * int64(1+rng.Intn(20))
				}
				g.emit(fmt.Sprintf("fund %d %d %d", a, d, amt))
			}
		}
	}
	// some traces start after the auto-withdraw height
	if rng.Chance(50) {
		for i := 0; i < 5; i++ {
			g.emit("end")
			g.emit("begin 1")
		}
	}
	if rng.Chance(c14DirectedPct) {
		g.directed()
	}
	for i := 0; i < n; i++ {
		x := rng.Intn(100)
		nl := len(h.snap.ids)
		if y := rng.Intn(1000); y < c14RestartPerMille {
			g.genRestart()
			continue
		} else if y < c14RestartPerMille+c14SetParamsPerMille {
			g.genSetParams()
			continue
		}
		switch {
		case x < 30 || nl == 0 && x < 70:
			g.genLock()
		case x < 50:
			g.genUnlock()
		case x < 62:
			g.genExtend()
		case x < 72:
			g.genForce()
		default:
			g.genBlock()
		}
	}
	g.emit("end")
	h.finishTrace()
}

// c14Fixed: directed histories run first on every seed (whatever the random generator then picks):
//  1. two locks of two owners sharing denom AND duration -> restart (the per-(denom, duration) entry of
//     InitializeAllLocks has to hold their sum) -> top-up, extend, begin-unlock, maturity on the imported chain;
//  2. a full and a partial begin-unlock, half the period elapses, restart while unlocking, a second
//     restart, then both mature at their old end times;
//  3. params mid-history: an allow-listed owner force-unlocks, is taken off the list (refused), the
//     minimum is raised above an existing lock (top-up refused, begin-unlock accepted, paid out), then a
//     restart: default params (nobody may force-unlock, minimum 0, fee 5*10^16).
const c14FixedProbes = "0,1,2,6,10,11,20,21,1000000000,86400000000000"

var c14Fixed = [][]string{
	{"reset 5 1000 - 3 1 0 " + c14FixedProbes, "fund 0 0 106000", "fund 1 0 106000", "lock 0 0 309 6", "lock 1 0 661 6", "restart",
		"end", "setparams 5 1000 -", "lock 0 0 11 6", "extend 1 2 20", "unlock 0 1 -", "end", "begin 1", "end", "begin 1", "end", "begin 1", "end", "begin 1", "end", "begin 1", "end", "begin 6", "end"},
	{"reset 0 7 - 2 2 0 " + c14FixedProbes, "fund 0 0 100000", "fund 1 0 1000", "fund 0 1 5000", "fund 1 1 5000", "lock 0 1 1000 20", "lock 1 1 500 20", "lock 0 0 300 10",
		"unlock 0 1 1 400", "unlock 1 2 -", "end", "begin 10", "restart", "end", "begin 1", "restart", "setparams 0 7 -", "lock 0 1 50 20", "end", "begin 1", "end", "begin 1", "end", "begin 1", "end", "begin 7", "end"},
	{"reset 5 7 1 2 1 0 " + c14FixedProbes, "fund 0 0 200000000000000000", "fund 1 0 100000", "lock 1 0 1000 10", "lock 0 0 2000 10", "force 1 1 0 100",
		"setparams 5 7 -", "force 1 1 -", "setparams 100 7 0", "lock 1 0 5 10", "unlock 1 1 -", "force 0 2 0 500", "end", "begin 1", "end", "begin 1", "end", "begin 1", "end", "begin 1", "end", "begin 1", "end", "begin 10", "end",
		"restart", "force 0 2 -", "lock 0 0 100 4", "unlock 0 2 0 700", "end", "begin 10", "end"},
}

func TestC14(t *testing.T) {
	r := NewRun(t, "C14")
	defer r.Close()
	h := &c14H{r: r}
	if lines := ReplayLines(); lines != nil {
		for _, l := range lines {
			if strings.HasPrefix(l, "reset") {
				h.finishTrace()
			}
			r.Emit(l, h.exec(l))
		}
		h.finishTrace()
		return
	}
	for _, tr := range c14Fixed {
		for _, l := range tr {
			r.Emit(l, h.exec(l))
		}
		r.Hit("fixed/directed-trace")
		h.finishTrace()
	}
	if h.f != nil {
		c14BlockedOwnerProbe(h)
	}
	nTraces := r.N(200, 3600)
	for i := 0; i < nTraces; i++ {
		g := &c14Gen{h: h, rng: r.Rng.Fork()}
		g.trace(40 + g.rng.Intn(60))
	}
	r.Set("model", "M-Lockup")
}
