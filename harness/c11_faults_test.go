package harness

// TestC11Faults — C11's second sentence on the real application: "a failure while processing one item
// (… slashing one sequencer …) is confined to that item and does not prevent the others from being
// processed".  Directed fault scenarios that need no injection seam: state that user / governance
// messages can produce and that makes ONE item of a begin/end-block work list fail (here: by a panic,
// the harshest kind of failure), next to healthy items due in the same block.
//
//   liveness: LivenessSlashMinAbsolute is a governance parameter (a coin; Params.ValidateBasic does
//   not tie its denom to the bond denom).  With another denom, slashing a proposer whose bond lies
//   between abs and abs/multiplier panics inside Coin.Sub.  Rollapp r0 has such a proposer, rollapp r1
//   a healthy one (bond * multiplier > abs), both idle and due in the same block.
//
// The M-Core monitors run on these traces as on any other (their C11 signatures are adopted by TestC11;
// what this fault means for the schedule of C08 is outside this test), the fixture reports every error or
// recovered panic of BeginBlocker / EndBlocker as a C11 violation, and the confinement of the failure is
// checked here: the healthy rollapp's proposer IS slashed in the block in which the other one's slash fails.
// Nothing of this is replayed by the Lean driver (M-Core has a single bond denom).

import (
	"fmt"
	"testing"

	sdk "github.com/cosmos/cosmos-sdk/types"
)

func c11FaultTraces() [][]string {
	return [][]string{{
		"reset dispute=3 lsb=3 lsi=2 mul=10000000000000000 abs=50 dsu=1 dl=1 kick=100 notice=1000000000 actors=8 rollapps=2 minbond=10 absdenom=udym",
		"begin dt=1000000000",
		"create_rollapp r0 minbond=10",
		"create_rollapp r1 minbond=10",
		"fund a0 amt=1000",
		"fund a2 amt=1000000",
		"create_seq a0 r0 bond=100 denom=ok",
		"create_seq a2 r1 bond=100000 denom=ok",
		"end fail=-",
		"begin dt=1000000000", "end fail=-",
		"begin dt=1000000000", "end fail=-",
		"begin dt=1000000000", "end fail=-",
		"begin dt=1000000000", "end fail=-",
		"begin dt=1000000000", "end fail=-",
		"begin dt=1000000000", "end fail=-",
	}}
}

func TestC11Faults(t *testing.T) {
	r := NewRun(t, "C11F")
	defer r.Close()
	traces := c11FaultTraces()
	if lines := ReplayLines(); lines != nil {
		traces = SplitTraces(lines)
	}
	for _, tr := range traces {
		p := parseCoreParams(tr[0])
		h := newCoreH(t, p)
		if err := h.f.App.SequencerKeeper.GetParams(h.f.Ctx).ValidateBasic(); err != nil {
			// not a state messages can reach: the parameter set is refused by its own validation
			r.Hit("c11/faults/params-refused-by-validation")
			continue
		}
		mon := &coreMon{h: h, r: r, everNotic: map[int]bool{}, removed: map[int]bool{}, reset: map[int]int64{}}
		mon.trace = []string{tr[0]}
		s := h.snapshot()
		r.Emit(tr[0], s.renderFull("ok"))
		healthyBefore, faultyBefore := sdk.Coin{}, sdk.Coin{}
		for _, l := range tr[1:] {
			mon.trace = append(mon.trace, l)
			res := h.exec(l)
			s = h.snapshot()
			r.Emit(l, s.renderFull(res))
			if q, ok := s.Seqs[2]; ok && healthyBefore.Denom == "" {
				healthyBefore = sdk.NewCoin(coreDenom, q.Tokens)
			}
			if q, ok := s.Seqs[0]; ok && faultyBefore.Denom == "" {
				faultyBefore = sdk.NewCoin(coreDenom, q.Tokens)
			}
		}
		// confinement: the healthy proposer (a2 of r1) was slashed at least once although the slash of
		// a0 (r0), due in the same blocks, cannot be carried out
		q0, ok0 := s.Seqs[0]
		q2, ok2 := s.Seqs[2]
		switch {
		case !ok0 || !ok2:
			r.Hit("c11/faults/scenario-not-established")
		case !q2.Tokens.LT(healthyBefore.Amount):
			r.Violate("C11/confined/liveness-failure-of-one-rollapp-stops-the-others",
				fmt.Sprintf("the healthy proposer a2 of r1 was never slashed (bond %s -> %s) in blocks in which the slash of a0 (r0) fails", healthyBefore.Amount, q2.Tokens), mon.trace...)
		default:
			r.Hit("c11/faults/liveness-failure-confined")
			if q0.Tokens.Equal(faultyBefore.Amount) {
				r.Hit("c11/faults/faulty-slash-left-no-trace")
			}
		}
		r.Class("liveness-abs-denom", true)
		r.Trace()
	}
}
