package harness

// C14, second pass: the lock-reference indexes as observed state, and blocked lock owners.
//
//   renderRefs   the index-driven answers of the REAL keeper that Model/LockupRefs computes from its
//                reference store (observation fields R= Iw= Gw= H= AL= AU= AW= LD=)
//   monitorRefs  model-independent: the REAL index-driven queries against the REAL lock table (the lock
//                objects read under prefix 0x02), signatures C14/index/<query>-differs-from-lock-table
//   c14BlockedOwnerProbe  every way a user has to make a blocked module account own a lock

import (
	"bytes"
	"errors"
	"fmt"
	"sort"
	"strconv"
	"time"

	"cosmossdk.io/math"
	storetypes "cosmossdk.io/store/types"
	sdk "github.com/cosmos/cosmos-sdk/types"
	authtypes "github.com/cosmos/cosmos-sdk/x/auth/types"
	"github.com/cosmos/gogoproto/proto"
	"google.golang.org/protobuf/reflect/protoreflect"

	lockuptypes "github.com/dymensionxyz/dymension/v3/x/lockup/types"
)

func c14IDs(pls []lockuptypes.PeriodLock, sorted bool) []uint64 {
	ids := []uint64{}
	for _, pl := range pls {
		ids = append(ids, pl.ID)
	}
	if sorted {
		sort.Slice(ids, func(i, j int) bool { return ids[i] < ids[j] })
	}
	return ids
}

func c14IDStr(ids []uint64) string {
	var xs []string
	for _, id := range ids {
		xs = append(xs, strconv.FormatUint(id, 10))
	}
	return c14Join(xs, ".")
}

// refKeyCount counts the reference keys of the store: everything under KeyPrefixNotUnlocking (0x03)
// and KeyPrefixUnlocking (0x04).
func (h *c14H) refKeyCount(ctx sdk.Context) (notUnl, unl int) {
	st := ctx.KVStore(h.f.App.GetKVStoreKeys()[lockuptypes.StoreKey])
	for i, pre := range [][]byte{lockuptypes.KeyPrefixNotUnlocking, lockuptypes.KeyPrefixUnlocking} {
		it := storetypes.KVStorePrefixIterator(st, pre)
		for ; it.Valid(); it.Next() {
			if i == 0 {
				notUnl++
			} else {
				unl++
			}
		}
		it.Close()
	}
	return
}

// maturedWalk: LockIteratorBeforeTime(block time) in the iterator's own order.
func (h *c14H) maturedWalk(ctx sdk.Context) []uint64 {
	it := h.k.LockIteratorBeforeTime(ctx, h.f.Time)
	defer it.Close()
	ids := []uint64{}
	for ; it.Valid(); it.Next() {
		ids = append(ids, sdk.BigEndianToUint64(it.Value()))
	}
	return ids
}

func (h *c14H) renderRefs(ctx sdk.Context, G string) string {
	sn := h.snap
	n0, n1 := h.refKeyCount(ctx)
	var H, AL, AU, AW, LD []string
	for _, id := range sn.ids {
		l := sn.locks[id]
		ids := c14IDs(h.k.GetAccountLockedDurationNotUnlockingOnly(ctx, h.addr(l.owner), h.denomName(l.denom), time.Duration(l.dur)), false)
		H = append(H, fmt.Sprintf("%d>%s", id, c14IDStr(ids)))
	}
	for a := 0; a < h.nA; a++ {
		locked := h.k.GetAccountLockedCoins(ctx, h.addrs[a])
		unlocking := h.k.GetAccountUnlockingCoins(ctx, h.addrs[a])
		unlockable := h.k.GetAccountUnlockableCoins(ctx, h.addrs[a])
		var r1, r2, r3 []string
		for d := 0; d < h.nD; d++ {
			r1 = append(r1, locked.AmountOf(h.denoms[d]).String())
			r2 = append(r2, unlocking.AmountOf(h.denoms[d]).String())
			r3 = append(r3, unlockable.AmountOf(h.denoms[d]).String())
		}
		AL, AU, AW = append(AL, c14Join(r1, ",")), append(AU, c14Join(r2, ",")), append(AW, c14Join(r3, ","))
	}
	for d := 0; d < h.nD; d++ {
		var row []string
		for i, p := range h.probes {
			if i%3 != 0 { // every third probe duration (budget)
				continue
			}
			row = append(row, c14IDStr(c14IDs(h.k.GetLocksLongerThanDurationDenom(ctx, h.denoms[d], time.Duration(p)), true)))
		}
		LD = append(LD, c14Join(row, ","))
	}
	return fmt.Sprintf(" R=%d Iw=%s Gw=%s H=%s AL=%s AU=%s AW=%s LD=%s", n0+n1, c14IDStr(h.maturedWalk(ctx)), G,
		c14Join(H, ","), c14Join(AL, ";"), c14Join(AU, ";"), c14Join(AW, ";"), c14Join(LD, ";"))
}

// monitorRefs judges the real index-driven queries against the real lock table.
func (h *c14H) monitorRefs(ctx sdk.Context, post c14Snap) {
	diff := func(q string, got, want any) {
		if fmt.Sprint(got) != fmt.Sprint(want) {
			h.viol("C14/index/"+q+"-differs-from-lock-table", fmt.Sprintf("query %v, lock table %v", got, want))
		}
	}
	sel := func(pred func(c14Lock) bool) []uint64 {
		out := []uint64{}
		for _, id := range post.ids {
			if pred(post.locks[id]) {
				out = append(out, id)
			}
		}
		return out
	}
	// the number of reference keys: 4 per not-unlocking lock in the not-unlocking queue, 8 per unlocking
	// lock in the unlocking queue, nothing else
	n0, n1 := h.refKeyCount(ctx)
	nu, un := len(sel(func(l c14Lock) bool { return !l.unl })), len(sel(func(l c14Lock) bool { return l.unl }))
	diff("reference-key-count", [2]int{n0, n1}, [2]int{4 * nu, 8 * un})
	// the EndBlocker's iterator, in its own order = (end time, id)
	{
		want := sel(func(l c14Lock) bool { return l.unl && l.end <= post.now })
		sort.SliceStable(want, func(i, j int) bool { return post.locks[want[i]].end < post.locks[want[j]].end })
		diff("matured-walk", h.maturedWalk(ctx), want)
	}
	// GetPeriodLocks in the order it returns: not-unlocking by (duration, id), then unlocking by (duration, id)
	if all, err := h.k.GetPeriodLocks(ctx); err == nil {
		want := append(sel(func(l c14Lock) bool { return !l.unl }), sel(func(l c14Lock) bool { return l.unl })...)
		k := len(sel(func(l c14Lock) bool { return !l.unl }))
		byDur := func(xs []uint64) {
			sort.SliceStable(xs, func(i, j int) bool { return post.locks[xs[i]].dur < post.locks[xs[j]].dur })
		}
		byDur(want[:k])
		byDur(want[k:])
		diff("period-locks", c14IDs(all, false), want)
	}
	for a := 0; a < h.nA; a++ {
		aa := a
		own := func(l c14Lock) bool { return l.owner == aa }
		sum := func(pred func(c14Lock) bool) []string {
			var row []string
			for d := 0; d < h.nD; d++ {
				dd := d
				row = append(row, h.sumLocks(post, func(l c14Lock) bool { return own(l) && l.denom == dd && pred(l) }).String())
			}
			return row
		}
		coins := func(cs sdk.Coins) []string {
			var row []string
			for d := 0; d < h.nD; d++ {
				row = append(row, cs.AmountOf(h.denoms[d]).String())
			}
			return row
		}
		diff("account-locked-coins", coins(h.k.GetAccountLockedCoins(ctx, h.addrs[a])), sum(func(l c14Lock) bool { return !l.unl || l.end > post.now }))
		diff("account-unlocking-coins", coins(h.k.GetAccountUnlockingCoins(ctx, h.addrs[a])), sum(func(l c14Lock) bool { return l.unl && l.end > post.now }))
		diff("account-unlockable-coins", coins(h.k.GetAccountUnlockableCoins(ctx, h.addrs[a])), sum(func(l c14Lock) bool { return l.unl && l.end <= post.now }))
		diff("account-locked-past-time", c14IDs(h.k.GetAccountLockedPastTime(ctx, h.addrs[a], h.f.Time), true),
			sel(func(l c14Lock) bool { return own(l) && (!l.unl || l.end > post.now) }))
		diff("account-locked-past-time-not-unlocking", c14IDs(h.k.GetAccountLockedPastTimeNotUnlockingOnly(ctx, h.addrs[a], h.f.Time), true),
			sel(func(l c14Lock) bool { return own(l) && !l.unl }))
		diff("account-unlocked-before-time", c14IDs(h.k.GetAccountUnlockedBeforeTime(ctx, h.addrs[a], h.f.Time), true),
			sel(func(l c14Lock) bool { return own(l) && l.unl && l.end <= post.now }))
	}
	// HasLock / AddToExistingLock: for the (owner, denom, duration) of every stored lock the walk yields
	// exactly the not-unlocking locks with these three fields, ascending
	for _, id := range post.ids {
		l := post.locks[id]
		if l.owner < 0 || l.denom < 0 {
			continue
		}
		got := c14IDs(h.k.GetAccountLockedDurationNotUnlockingOnly(ctx, h.addrs[l.owner], h.denoms[l.denom], time.Duration(l.dur)), false)
		diff("account-locked-duration-not-unlocking", got, sel(func(x c14Lock) bool {
			return x.owner == l.owner && x.denom == l.denom && x.dur == l.dur && !x.unl
		}))
	}
	for d := 0; d < h.nD; d++ {
		dd := d
		for i, p := range h.probes {
			if i%3 != 0 { // the probes of the observation field LD=
				continue
			}
			pp := p
			diff("locks-longer-than-duration-denom", c14IDs(h.k.GetLocksLongerThanDurationDenom(ctx, h.denoms[d], time.Duration(p)), true),
				sel(func(l c14Lock) bool { return l.denom == dd && l.dur >= pp }))
		}
		diff("locks-past-time-denom", c14IDs(h.k.GetLocksPastTimeDenom(ctx, h.denoms[d], h.f.Time), true),
			sel(func(l c14Lock) bool { return l.denom == dd && (!l.unl || l.end > post.now) }))
	}
}

// c14BlockedOwnerProbe: can a user make a blocked bank recipient (a module account) own a lock?
// Everything runs on a branch of the state that is discarded.
func c14BlockedOwnerProbe(h *c14H) {
	r := h.r
	var mod sdk.AccAddress
	for _, name := range []string{"distribution", "streamer", "incentives", "bonded_tokens_pool", "txfees", "gov", "mint"} {
		if a := authtypes.NewModuleAddress(name); h.f.App.BankKeeper.BlockedAddr(a) {
			mod = a
			break
		}
	}
	if mod == nil {
		r.Hit("blocked-owner/no-blocked-module-account-found")
		return
	}
	base := h.denoms[0]
	// (1) MsgLockTokens naming the module account as owner needs the owner's signature: the signer the
	//     codec derives from the message IS the owner field; no key signs for a module account
	lockMsg := &lockuptypes.MsgLockTokens{Owner: mod.String(), Duration: time.Hour, Coins: sdk.NewCoins(sdk.NewCoin(base, math.NewInt(1000)))}
	// (the lockup messages carry no cosmos.msg.v1.signer option: the signers are the legacy GetSigners())
	signersOf := func(m sdk.Msg) [][]byte {
		if s, _, err := h.f.App.AppCodec().GetMsgV1Signers(m); err == nil {
			return s
		}
		var out [][]byte
		if lm, ok := m.(interface{ GetSigners() []sdk.AccAddress }); ok {
			for _, a := range lm.GetSigners() {
				out = append(out, a)
			}
		}
		return out
	}
	allOwner := true
	for _, m := range []sdk.Msg{lockMsg, &lockuptypes.MsgBeginUnlocking{Owner: mod.String(), ID: 1},
		&lockuptypes.MsgExtendLockup{Owner: mod.String(), ID: 1, Duration: time.Hour}, &lockuptypes.MsgForceUnlock{Owner: mod.String(), ID: 1}} {
		if s := signersOf(m); len(s) != 1 || !bytes.Equal(s[0], mod) {
			allOwner = false
			h.viol("C14/blocked/message-signer-is-not-the-owner", fmt.Sprintf("%T: signers %x", m, s))
		}
	}
	if allOwner {
		r.Hit("blocked-owner/every-lockup-message-is-signed-by-its-owner-field")
	}
	// (2) ownership cannot be transferred: the Msg service has the four known methods, and the only
	//     address field of each request is the signing owner
	if d, err := proto.HybridResolver.FindDescriptorByName(protoreflect.FullName("dymensionxyz.dymension.lockup.Msg")); err == nil {
		sd := d.(protoreflect.ServiceDescriptor)
		var names []string
		strFields := 0
		for i := 0; i < sd.Methods().Len(); i++ {
			m := sd.Methods().Get(i)
			names = append(names, string(m.Name()))
			fs := m.Input().Fields()
			for j := 0; j < fs.Len(); j++ {
				if fs.Get(j).Kind() == protoreflect.StringKind && fs.Get(j).Name() != "owner" {
					strFields++
				}
			}
		}
		sort.Strings(names)
		if fmt.Sprint(names) == "[BeginUnlocking ExtendLockup ForceUnlock LockTokens]" && strFields == 0 {
			r.Hit("blocked-owner/no-message-names-another-owner")
		} else {
			h.viol("C14/blocked/a-message-can-name-another-owner", fmt.Sprintf("methods %v, non-owner string fields %d", names, strFields))
		}
	} else {
		r.Hit("blocked-owner/msg-service-descriptor-not-found")
	}
	// (3) a user's own lock never changes owner (monitor C14/immutable/owner-or-denom-changed on every op);
	//     a bank send to a module account creates no lock (custody monitors).
	// (4) what the signature check protects: with the signature check bypassed (message router called
	//     directly) the keeper accepts the lock, and the EndBlocker's loop panics when it is due —
	//     Props/C14Refs endBlock_panics_iff_blocked_owner on the real code
	_ = h.f.Try(func(ctx sdk.Context) error {
		coins := sdk.NewCoins(sdk.NewCoin(base, math.NewInt(1_000_000_000_000_000_000)))
		if err := banktestutilMint(h, ctx, mod, coins); err != nil {
			r.Hit("blocked-owner/probe-funding-failed")
			return errors.New("discard")
		}
		hd := h.f.App.MsgServiceRouter().Handler(lockMsg)
		res, err := hd(ctx, lockMsg)
		if err != nil {
			r.Hit("blocked-owner/router-bypass-lock=>err")
			return errors.New("discard")
		}
		r.Hit("blocked-owner/router-bypass-lock=>ok")
		var resp lockuptypes.MsgLockTokensResponse
		_ = proto.Unmarshal(res.Data, &resp)
		bu := &lockuptypes.MsgBeginUnlocking{Owner: mod.String(), ID: resp.ID}
		if _, err := h.f.App.MsgServiceRouter().Handler(bu)(ctx, bu); err != nil {
			r.Hit("blocked-owner/router-bypass-begin-unlock=>err")
			return errors.New("discard")
		}
		late := ctx.WithBlockTime(ctx.BlockTime().Add(2 * time.Hour)).WithBlockHeight(ctx.BlockHeight() + 10)
		panicked := func() (p bool) {
			defer func() {
				if recover() != nil {
					p = true
				}
			}()
			h.k.WithdrawAllMaturedLocks(late)
			return false
		}()
		if panicked {
			r.Hit("blocked-owner/matured-lock-of-blocked-owner=>endblock-panics")
		} else {
			h.viol("C14/blocked/matured-lock-of-blocked-owner-withdrawn-without-panic", "WithdrawAllMaturedLocks returned")
		}
		return errors.New("discard")
	})
}

// banktestutilMint gives coins to any address, blocked or not (mint to the mint module, keeper-level send).
func banktestutilMint(h *c14H, ctx sdk.Context, to sdk.AccAddress, coins sdk.Coins) error {
	if err := h.f.App.BankKeeper.MintCoins(ctx, "mint", coins); err != nil {
		return err
	}
	return h.f.App.BankKeeper.SendCoins(ctx, authtypes.NewModuleAddress("mint"), to, coins)
}
