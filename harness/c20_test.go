package harness

// C20 — privileged operations cannot be reached by unprivileged callers.
//
// Two kinds of traces (both start with a `reset` line followed by header lines):
//   reset ante : `ty` headers, then `tx …` ops — message trees through the application's REAL ante
//                handler (see c20_util.go: runAnte), compared with M-Ante on the same tree.
//   reset priv : fixture objects (`own` lines), then `priv …` / `ext …` ops — privileged messages
//                through Fix.Deliver with signers from {authority, owner, other users, module
//                accounts}, compared with M-Guards driven by the regenerated guard table.

import (
	"fmt"
	"hash/fnv"
	"reflect"
	"strings"
	"testing"

	codectypes "github.com/cosmos/cosmos-sdk/codec/types"
	sdk "github.com/cosmos/cosmos-sdk/types"
)

type c20State struct {
	r           *Run
	t           *testing.T
	mode        string
	ante        *c20Ante
	priv        *c20Priv
	stored      *c20Stored
	trace       []string // op lines of the current trace (for replays)
	hdr         []string // reset + header lines of the current trace
	seq         []string // op-kind/outcome sequence of the trace (class key)
	nontr       bool
	share       *Fix // fixture shared by all ante traces (the ante ops are stateless)
	signersDone bool
	extAllDone  bool
	pstats      map[string]int    // per-kind counters over all priv traces
	ctrlErr     map[string]string // last dry-run error per kind
	extHit      map[string]bool   // governance-only types probed with content the authority gets accepted
	extMiss     map[string]string // … and those whose content the authority does not get accepted (last error)
}

func c20Hash(s string) string {
	h := fnv.New64a()
	h.Write([]byte(s))
	return fmt.Sprintf("%016x", h.Sum64())
}

// exec runs one op line on the real code and returns the canonical observation
func (s *c20State) exec(line string) string {
	f := strings.Fields(line)
	if len(f) == 0 {
		return "bad-op"
	}
	s.trace = append(s.trace, line)
	switch f[0] {
	case "reset":
		s.endTrace()
		s.trace = []string{line}
		s.hdr = []string{line}
		s.mode = ""
		if len(f) > 1 {
			s.mode = f[1]
		}
		switch s.mode {
		case "ante":
			if s.share == nil {
				s.share = NewFix(s.t)
			}
			s.ante = newC20Ante(s.share)
		case "priv":
			s.priv = newC20Priv(s)
		case "stored":
			s.stored = newC20Stored(s)
		}
		return "ok"
	case "ty", "xo":
		s.hdr = append(s.hdr, line)
		return "ok"
	case "stored":
		return s.execStored(line, f)
	case "rtx":
		if s.ante == nil {
			return "bad-op"
		}
		return s.execRtx(line, f)
	case "tx":
		if s.ante == nil {
			return "bad-op"
		}
		return s.execTx(line, f)
	case "path":
		if s.ante == nil || len(f) < 3 {
			return "bad-op"
		}
		return s.execPath(line, f)
	case "wrappers":
		if s.ante == nil {
			return "bad-op"
		}
		return s.execWrappers(line)
	case "own", "fix", "priv", "ext", "signer", "rows":
		if s.priv == nil {
			return "bad-op"
		}
		return s.priv.exec(line, f)
	}
	return "bad-op"
}

func (s *c20State) endTrace() {
	if len(s.seq) > 0 {
		s.r.Class(c20Hash(strings.Join(s.seq, ";")), s.nontr)
		s.r.Trace()
	}
	s.seq, s.nontr = nil, false
}

func (s *c20State) execTx(line string, f []string) string {
	r, h := s.r, s.ante
	var n int
	if _, err := fmt.Sscanf(f[1], "%d", &n); err != nil || n < 0 {
		return "bad-op"
	}
	roots, rest, err := c20ParseNodes(f[2:], n)
	if err != nil || len(rest) != 0 {
		return "bad-op"
	}
	tx, err := h.makeTx(roots)
	if err != nil {
		return "bad-op"
	}
	obs, later := h.runAnte(tx)
	if later != nil {
		r.Hit("ante/passed-reject-then-later-decorator-error")
		msg := later.Error()
		if len(msg) > 48 {
			msg = msg[:48]
		}
		r.Hit("ante/later-error/" + msg)
	} else if obs == "ok" {
		r.Hit("ante/whole-chain-ok")
	}
	replay := append(append([]string{}, s.hdr...), line)
	// ---- monitors (from the property text, independent of the Lean model)
	e := h.expect(roots)
	rejected := obs != "ok"
	if e.mustReject && !rejected {
		sig := "C20/nesting/disabled-message-accepted"
		if e.why == "too-deep" {
			sig = "C20/nesting/deeper-than-limit-accepted"
		} else if strings.Contains(e.why, "grant") {
			sig = "C20/nesting/grant-of-disabled-message-accepted"
		}
		r.Violate(sig, "tree with "+e.why+" passed the reject decorator", replay...)
	}
	if e.hasBad && !rejected {
		r.Violate("C20/nesting/unparseable-wrapper-accepted", "a wrapper whose packed messages cannot be read passed the reject decorator", replay...)
	}
	if e.mustReject {
		r.Hit("ante/must-reject/" + e.why)
	}
	if e.topGrantU {
		if rejected {
			r.Hit("ante/top-level-grant-of-update-client/rejected")
		} else {
			r.Hit("ante/top-level-grant-of-update-client/accepted(grant_depth_semantics)")
		}
	}
	if e.benign {
		if rejected {
			r.Hit("ante/benign-tree-rejected")
		} else {
			r.Hit("ante/benign-tree-accepted")
		}
	}
	// wire form: what a node really receives.  When the tx encodes and decodes, the decoded tx must
	// get the same verdict as the in-memory one.
	if !e.hasBad {
		if bz, err := s.share.App.TxConfig().TxEncoder()(tx); err == nil {
			if tx2, err := s.share.App.TxConfig().TxDecoder()(bz); err == nil {
				obs2, _ := h.runAnte(tx2)
				r.Hit("ante/wire-roundtrip")
				if obs2 != obs {
					r.Violate("C20/nesting/decoded-tx-verdict-differs", fmt.Sprintf("in-memory %q, decoded %q", obs, obs2), replay...)
				}
			} else {
				r.Hit("ante/wire-decode-failed")
				if r.hits["ante/wire-decode-failed"] < 3 {
					r.Set("wire-decode-failure-sample", err.Error()+" :: "+line)
				}
			}
		} else {
			r.Hit("ante/wire-encode-failed")
		}
	}
	r.Hit("ante/obs/" + strings.Join(strings.Fields(obs)[:c20min(2, len(strings.Fields(obs)))], "-"))
	r.Class("tx/"+c20Hash(line), true)
	s.seq = append(s.seq, "tx:"+obs)
	s.nontr = true
	return obs
}

// the node a path addresses in the REAL transaction (SDK accessors), to be compared with M-Ante's reach
func (s *c20State) execPath(line string, f []string) string {
	var path []int
	if f[1] != "-" {
		for _, x := range strings.Split(f[1], ",") {
			var v int
			if _, err := fmt.Sscanf(x, "%d", &v); err != nil {
				return "bad-op"
			}
			path = append(path, v)
		}
	}
	var n int
	if _, err := fmt.Sscanf(f[2], "%d", &n); err != nil || n < 0 {
		return "bad-op"
	}
	roots, rest, err := c20ParseNodes(f[3:], n)
	if err != nil || len(rest) != 0 {
		return "bad-op"
	}
	tx, err := s.ante.makeTx(roots)
	if err != nil {
		return "bad-op"
	}
	obs := s.ante.reachReal(tx, path)
	s.r.Hit("ante/path/" + strings.Fields(obs)[0])
	s.seq = append(s.seq, "path:"+obs)
	return obs
}

// which registered message types execute packed messages — asked of the real interface registry;
// every one of them must be unwrapped by the reject decorator (checked by nesting a disabled
// message inside it)
func (s *c20State) execWrappers(line string) string {
	r, h := s.r, s.ante
	names, urls := h.probeWrappers()
	replay := append(append([]string{}, s.hdr...), line)
	known := map[string]bool{}
	for _, a := range c20Wrappers {
		known[h.urlOf[a]] = true
	}
	for i, u := range urls {
		r.Hit("ante/registry-wrapper/" + u)
		if known[u] {
			continue
		}
		// a message-carrying type the harness does not know: nest a vesting message and ask the ante handler
		fresh, err := h.f.App.InterfaceRegistry().Resolve(u)
		if err != nil {
			continue
		}
		accepted := false
		rv := reflect.ValueOf(fresh).Elem()
		for j := 0; j < rv.NumField(); j++ {
			if rv.Field(j).Type() == reflect.TypeOf([]*codectypes.Any{}) {
				rv.Field(j).Set(reflect.ValueOf([]*codectypes.Any{mustAny(h.kinds["V1"].proto(h))}))
			} else if rv.Field(j).Type() == reflect.TypeOf(&codectypes.Any{}) {
				rv.Field(j).Set(reflect.ValueOf(mustAny(h.kinds["V1"].proto(h))))
			}
		}
		if sm, ok := fresh.(sdk.Msg); ok {
			txb := h.f.App.TxConfig().NewTxBuilder()
			if txb.SetMsgs(sm) == nil {
				obs, _ := h.runAnte(txb.GetTx())
				accepted = obs == "ok"
			}
		}
		if accepted {
			r.Violate("C20/nesting/wrapper-type-not-unwrapped", "registered message type "+names[i]+" ("+u+") carries packed messages but a disabled message inside it passes the reject decorator", replay...)
		} else {
			r.Hit("ante/registry-wrapper-unknown-to-harness-but-rejected/" + u)
		}
	}
	s.seq = append(s.seq, "wrappers")
	return strings.Join(names, ",")
}

func c20min(a, b int) int {
	if a < b {
		return a
	}
	return b
}

// ---- generator for the nesting part -----------------------------------------------------

var (
	c20Wrappers = []string{"E", "G", "P"}
	c20Benign   = []string{"S", "D", "L", "C", "Q"}
	c20Disabled = []string{"X", "U", "M", "V1", "V2", "V3"}
)

func c20pick(r *Rng, xs []string) string { return xs[r.Intn(len(xs))] }

func leaf(ty string) *c20Node      { return &c20Node{ty: ty, auth: "-"} }
func grantOf(auth string) *c20Node { return &c20Node{ty: "R", auth: auth} }
func wrap(ty string, kids ...*c20Node) *c20Node {
	return &c20Node{ty: ty, auth: "-", kids: kids}
}

func c20Shape(r *Rng, depth, limit int) *c20Node {
	if depth >= limit || r.Chance(22) {
		if r.Chance(15) {
			return grantOf(c20pick(r, []string{"S", "D", "E", "G", "Z"}))
		}
		return leaf(c20pick(r, c20Benign))
	}
	n := 1 + r.Intn(2)
	switch x := r.Intn(20); x {
	case 0:
		n = 0
	case 1:
		n = 3
	}
	w := wrap(c20pick(r, c20Wrappers))
	for i := 0; i < n; i++ {
		w.kids = append(w.kids, c20Shape(r, depth+1, limit))
	}
	return w
}

func c20Leaves(n *c20Node, out *[]*c20Node) {
	if len(n.kids) == 0 {
		*out = append(*out, n)
		return
	}
	for _, k := range n.kids {
		c20Leaves(k, out)
	}
}

func c20Disable(r *Rng, n *c20Node) {
	n.kids, n.bad = nil, false
	if r.Chance(25) {
		n.ty, n.auth = "R", c20pick(r, c20Disabled)
	} else {
		n.ty, n.auth = c20pick(r, c20Disabled), "-"
	}
}

func c20RandomTx(r *Rng) []*c20Node {
	nroots := 1
	if r.Chance(20) {
		nroots = 2 + r.Intn(2)
	}
	limit := r.Intn(8) // deepest leaf at depth ≤ 7
	var roots []*c20Node
	for i := 0; i < nroots; i++ {
		roots = append(roots, c20Shape(r, 0, limit))
	}
	var leaves []*c20Node
	for _, x := range roots {
		c20Leaves(x, &leaves)
	}
	switch k := r.Intn(100); {
	case k < 50: // exactly one disabled leaf
		c20Disable(r, leaves[r.Intn(len(leaves))])
	case k < 68: // benign only
	case k < 80: // several disabled leaves
		for i := 0; i < 2+r.Intn(3); i++ {
			c20Disable(r, leaves[r.Intn(len(leaves))])
		}
	default: // perturbed: unreadable wrappers / grants, possibly next to a disabled leaf
		var all []*c20Node
		var coll func(n *c20Node)
		coll = func(n *c20Node) {
			all = append(all, n)
			for _, c := range n.kids {
				coll(c)
			}
		}
		for _, x := range roots {
			coll(x)
		}
		for i := 0; i < 1+r.Intn(2); i++ {
			n := all[r.Intn(len(all))]
			if n.ty == "E" || n.ty == "G" || n.ty == "P" || n.ty == "R" {
				n.bad = true
			} else {
				n.ty, n.auth, n.bad = "R", c20pick(r, []string{"S", "U", "V1", "Z"}), true
			}
		}
		if r.Bool() {
			c20Disable(r, leaves[r.Intn(len(leaves))])
		}
	}
	return roots
}

// chains: w1(w2(…(leaf))) for every wrapper sequence of length d
func c20Chains(d int, leafs []*c20Node, emit func([]*c20Node)) {
	idx := make([]int, d)
	for {
		for _, lf := range leafs {
			cp := *lf
			n := &cp
			for i := d - 1; i >= 0; i-- {
				n = wrap(c20Wrappers[idx[i]], n)
			}
			emit([]*c20Node{n})
		}
		i := d - 1
		for ; i >= 0; i-- {
			idx[i]++
			if idx[i] < len(c20Wrappers) {
				break
			}
			idx[i] = 0
		}
		if i < 0 {
			return
		}
	}
}

func TestC20(t *testing.T) {
	r := NewRun(t, "C20")
	defer r.Close()
	s := &c20State{r: r, t: t}
	run := func(line string) string {
		obs := s.exec(line)
		r.Emit(line, obs)
		return obs
	}
	if lines := ReplayLines(); lines != nil {
		for _, l := range lines {
			run(l)
		}
		s.endTrace()
		return
	}

	// ---- part 1: nesting
	startAnte := func() {
		run("reset ante")
		for _, l := range s.ante.headerLines() {
			run(l)
		}
		for _, l := range c20XoLines() {
			run(l)
		}
	}
	startAnte()
	run("wrappers")
	// exhaustive chains
	chainDepth := r.N(5, 7)
	leafs := []*c20Node{leaf("X"), leaf("U"), leaf("M"), leaf("V1"), leaf("V2"), leaf("V3"), leaf("S"),
		grantOf("U"), grantOf("V1"), grantOf("X"), grantOf("S"), wrap("E"), {ty: "E", auth: "-", bad: true}}
	for d := 0; d <= chainDepth; d++ {
		startAnte()
		c20Chains(d, leafs, func(roots []*c20Node) {
			if len(s.trace) > 400 {
				startAnte()
			}
			run(c20TxLine(roots))
			r.Hit(fmt.Sprintf("ante/chain-depth-%d", d))
		})
	}
	// seeded random trees
	nTx := r.N(20000, 250000)
	for i := 0; i < nTx; i++ {
		if i%200 == 0 {
			startAnte()
		}
		roots := c20RandomTx(r.Rng)
		line := c20TxLine(roots)
		run(line)
		if r.Rng.Chance(25) {
			// a path: mostly one that exists (random walk down the tree), sometimes perturbed
			var path []string
			cur := roots
			for len(cur) > 0 {
				ix := r.Rng.Intn(len(cur))
				path = append(path, fmt.Sprint(ix))
				if r.Rng.Chance(25) {
					break
				}
				cur = cur[ix].kids
			}
			if r.Rng.Chance(30) {
				switch r.Rng.Intn(3) {
				case 0:
					path = append(path, "0")
				case 1:
					path[len(path)-1] = "7"
				default:
					path = append(path, fmt.Sprint(r.Rng.Intn(3)), "0")
				}
			}
			run("path " + strings.Join(path, ",") + strings.TrimPrefix(line, "tx"))
		}
	}

	// ---- part 1b: every route of NewAnteHandler (c20_routes_test.go)
	c20RouteTraces(s, run, startAnte)

	// ---- part 1c: stored proposals (c20_stored_test.go)
	c20StoredTraces(s, run)

	// ---- part 2: authority / owner guards
	nTraces := r.N(24, 300)
	for i := 0; i < nTraces; i++ {
		c20dbg("priv trace %d ops=%d", i, r.nOps)
		run("reset priv")
		s.priv.generate(run, r.N(260, 400))
	}
	s.endTrace()
	if s.priv != nil {
		s.priv.finish()
	}
}
