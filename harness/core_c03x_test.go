package harness

// --- w-coreb: C03 frame of a fraud proposal that punishes a sequencer of ANOTHER rollapp ---
//
// Neither SubmitRollappFraud nor PunishSequencer checks that PunishSequencerAddress is a sequencer of
// the rollapp named in the proposal.  Props/C03X `fraud_other_rollapps` states what such an accepted
// proposal may touch; the monitor below evaluates exactly those clauses on the implementation
// (snapshot before / after the op; nothing here uses the Lean model).

import (
	"fmt"
	"sort"
	"strings"
)

// coreForeignSeqs: the sequencers (actor indices, ascending) that belong to a rollapp other than ri.
func coreForeignSeqs(s *coreSnap, ri int) []int {
	var out []int
	for i, q := range s.Seqs {
		if i >= 0 && q.Ra != ri {
			out = append(out, i)
		}
	}
	sort.Ints(out)
	return out
}

// genFraudForeignPunish: generator branch of genFraud.  With some probability the proposal punishes a
// sequencer of another rollapp than the forked one (half of the time, when there is one, that other
// rollapp's proposer).  Returns the (possibly replaced) punish / rewardee tokens of the op line.
func (c *coreGen) genFraudForeignPunish(s *coreSnap, ri int, punish, rewardee string) (string, string) {
	g := c.g
	foreign := coreForeignSeqs(s, ri)
	if len(foreign) == 0 || !g.Chance(12+map[string]int{"C03": 28}[c.focus]) {
		return punish, rewardee
	}
	a := foreign[g.Intn(len(foreign))]
	var props []int
	for _, x := range foreign {
		if ra := s.Seqs[x].Ra; ra >= 0 && ra < len(s.Ras) && s.Ras[ra].Prop == x {
			props = append(props, x)
		}
	}
	if len(props) > 0 && g.Chance(50) {
		a = props[g.Intn(len(props))]
	}
	c.r.Hit("fraud-punish-other-rollapp")
	if ra := s.Seqs[a].Ra; ra >= 0 && ra < len(s.Ras) && s.Ras[ra].Prop == a {
		c.r.Hit("fraud-punish-other-rollapp-proposer")
	}
	if rewardee == "-" && g.Chance(55) {
		rewardee = fmt.Sprintf("a%d", c.pickActor())
	}
	return fmt.Sprintf("a%d", a), rewardee
}

// checkForeignPunish: monitor `C03/frame/other-rollapp-record-changed` (+ the bond clause).  Evaluated
// on an ACCEPTED fraud op whose punished sequencer belonged (before the op) to another rollapp than
// the forked one.
//
// --- w-corem (integration with agent-corea): the three op kinds added to M-Core fork NOTHING, so for them
// EVERY rollapp is an "other" rollapp (ri = -1 below):
//   - `punish a<i> …` (standalone PunishSequencerProposal, C07.punish_keeps_roles): the same clauses as for
//     the foreign punishment of a fraud proposal, for every rollapp incl. the punished sequencer's own —
//     no state reverted, no revision, no queue / sequencer-height / liveness-event / notice entry touched,
//     the punished record keeps everything but `tokens`, a punished proposer stays proposer;
//   - `xferowner r<i> …` (MsgTransferOwnership): the same, nobody is punished, and the owner field of the
//     named rollapp is the one field that may differ;
//   - `set_seq_params …` (x/sequencer MsgUpdateParams): the same, nothing may differ.
func (m *coreMon) checkForeignPunish(op string, f []string, kv map[string]string, res string, prev, cur *coreSnap) {
	if prev == nil || len(f) < 2 || res != "ok" {
		return
	}
	ri, a, ownerOf := -1, -1, -1 // forked rollapp / punished sequencer / rollapp whose owner may be rewritten; -1 = none
	var pq coreSeq
	wasProp := false
	switch f[0] {
	case "fraud":
		if !strings.HasPrefix(kv["punish"], "a") || !strings.HasPrefix(f[1], "r") {
			return
		}
		ri = int(atoi(strings.TrimPrefix(f[1], "r")))
		a = int(atoi(strings.TrimPrefix(kv["punish"], "a")))
		q, ok := prev.Seqs[a]
		if !ok || q.Ra == ri {
			return
		}
		pq = q
		m.r.Hit("fraud-punish-other-rollapp/accepted")
	case "punish":
		if !strings.HasPrefix(f[1], "a") {
			return
		}
		a = int(atoi(strings.TrimPrefix(f[1], "a")))
		q, ok := prev.Seqs[a]
		if !ok {
			m.violate("C03/frame/punish-proposal-accepted-for-non-sequencer", op)
			return
		}
		pq = q
		m.r.Hit("no-fork-op-frame/punish")
	case "xferowner":
		if !strings.HasPrefix(f[1], "r") {
			return
		}
		ownerOf = int(atoi(strings.TrimPrefix(f[1], "r")))
		m.r.Hit("no-fork-op-frame/xferowner")
	case "set_seq_params":
		m.r.Hit("no-fork-op-frame/set_seq_params")
	default:
		return
	}
	if a >= 0 {
		wasProp = pq.Ra >= 0 && pq.Ra < len(prev.Ras) && prev.Ras[pq.Ra].Prop == a
		if wasProp && f[0] == "fraud" {
			m.r.Hit("fraud-punish-other-rollapp-proposer/accepted")
		} else if wasProp {
			m.r.Hit("no-fork-op-frame/punish-proposer")
		}
	}
	const sig = "C03/frame/other-rollapp-record-changed"
	bad := func(format string, args ...interface{}) {
		what := fmt.Sprintf("`%s` (forks nothing): ", op)
		if f[0] == "fraud" {
			what = fmt.Sprintf("`%s` (forks r%d, punishes a%d of r%d): ", op, ri, a, pq.Ra)
		}
		m.violate(sig, what+fmt.Sprintf(format, args...))
	}
	if f[0] != "fraud" {
		// no fork: nothing is added anywhere either
		if len(cur.Ras) != len(prev.Ras) {
			bad("%d rollapp records -> %d", len(prev.Ras), len(cur.Ras))
		}
		if x, y := strings.Join(prev.Queue, ";"), strings.Join(cur.Queue, ";"); x != y {
			bad("finalization queue: %s -> %s", x, y)
		}
		if x, y := fmt.Sprint(prev.Lev), fmt.Sprint(cur.Lev); x != y {
			bad("liveness events: %s -> %s", x, y)
		}
		if x, y := fmt.Sprint(prev.Pk), fmt.Sprint(cur.Pk); x != y {
			bad("pending delayed packets: %s -> %s", x, y)
		}
	}
	// every field of every other rollapp's observation: existence, launched, genesis-bridge height,
	// revisions, latest index, latest finalized index, liveness event height / countdown start, proposer,
	// successor, every state (incl. NextProposer, descriptors' summary) and the by-height index
	for rj := range prev.Ras {
		if rj == ri {
			continue
		}
		if rj >= len(cur.Ras) {
			bad("r%d disappeared", rj)
			continue
		}
		pr, cr := prev.Ras[rj], cur.Ras[rj]
		if rj == ownerOf { // MsgTransferOwnership of this rollapp: the owner (monitored by C11/owner/…) may differ
			pr.Owner, cr.Owner, pr.OwnerBlocked, cr.OwnerBlocked = "", "", false, false
		}
		if x, y := fmt.Sprintf("%+v", pr), fmt.Sprintf("%+v", cr); x != y {
			bad("record of r%d: %s -> %s", rj, trunc200(x), trunc200(y))
		}
	}
	if wasProp && (pq.Ra >= len(cur.Ras) || cur.Ras[pq.Ra].Prop != a) {
		bad("a%d was the proposer of r%d and is not any more", a, pq.Ra)
	}
	// finalization-queue entries of other rollapps: same entries, same order
	oq := func(q []string) string {
		var out []string
		for _, e := range q {
			if parts := strings.SplitN(e, ":", 3); len(parts) < 2 || parts[1] != fmt.Sprintf("r%d", ri) {
				out = append(out, e)
			}
		}
		return strings.Join(out, ";")
	}
	if x, y := oq(prev.Queue), oq(cur.Queue); x != y {
		bad("queue entries of other rollapps: %s -> %s", x, y)
	}
	// sequencer-height pairs: none added; every pair of a sequencer of another rollapp kept
	curSH := map[[2]uint64]bool{}
	for _, p := range cur.SeqH {
		curSH[p] = true
	}
	prevSH := map[[2]uint64]bool{}
	for _, p := range prev.SeqH {
		prevSH[p] = true
		if q, ok := prev.Seqs[int(p[0])]; ok && q.Ra != ri && !curSH[p] {
			bad("sequencer-height pair (a%d,%d) of r%d removed", p[0], p[1], q.Ra)
		}
	}
	for _, p := range cur.SeqH {
		if !prevSH[p] {
			bad("sequencer-height pair (a%d,%d) added", p[0], p[1])
		}
	}
	// liveness events of other rollapps
	ol := func(l [][2]int64) string {
		var out []string
		for _, e := range l {
			if int(e[1]) != ri {
				out = append(out, fmt.Sprintf("%d:r%d", e[0], e[1]))
			}
		}
		return strings.Join(out, ",")
	}
	if x, y := ol(prev.Lev), ol(cur.Lev); x != y {
		bad("liveness events of other rollapps: %s -> %s", x, y)
	}
	// notice-queue entries of sequencers of other rollapps
	on := func(s *coreSnap) string {
		var out []string
		for _, e := range s.Nq {
			if q, ok := prev.Seqs[int(e[1])]; !ok || q.Ra != ri {
				out = append(out, fmt.Sprintf("%d:a%d", e[0], e[1]))
			}
		}
		return strings.Join(out, ",")
	}
	if x, y := on(prev), on(cur); x != y {
		bad("notice-queue entries of sequencers of other rollapps: %s -> %s", x, y)
	}
	// sequencer records: the punished one keeps everything but `tokens`; every other sequencer of
	// another rollapp is literally unchanged; nobody appears or disappears
	if len(cur.Seqs) != len(prev.Seqs) {
		bad("%d sequencer records -> %d", len(prev.Seqs), len(cur.Seqs))
	}
	for i, p := range prev.Seqs {
		c, ok := cur.Seqs[i]
		if !ok {
			bad("sequencer record a%d disappeared", i)
			continue
		}
		if p.Ra == ri {
			if !c.Tokens.Equal(p.Tokens) { // sequencers of the forked rollapp: opted out / unbonded by the fork, bonds untouched
				bad("bond of a%d (sequencer of the forked rollapp, not punished) %s -> %s", i, p.Tokens, c.Tokens)
			}
			continue
		}
		same := c.Ra == p.Ra && c.Bonded == p.Bonded && c.OptedIn == p.OptedIn && c.Dishonor == p.Dishonor && c.Notice == p.Notice
		if i == a {
			if !same {
				bad("punished a%d: %+v -> %+v (only tokens may change)", i, p, c)
			}
			if !c.Tokens.IsZero() && f[0] == "fraud" { // the standalone proposal: C07/punish/… in core_test.go
				m.violate("C03/frame/other-rollapp-punished-bond-not-zero", fmt.Sprintf("`%s`: a%d keeps %s of %s", op, i, c.Tokens, p.Tokens))
			}
		} else if !same || !c.Tokens.Equal(p.Tokens) {
			bad("sequencer a%d of r%d: %+v -> %+v", i, p.Ra, p, c)
		}
	}
	// hub clock
	if cur.H != prev.H || cur.T != prev.T {
		bad("hub clock %d/%d -> %d/%d", prev.H, prev.T, cur.H, cur.T)
	}
}

// --- w-coreb: end ---
