package harness

// --- w-coreb: C03 frame of a fraud proposal that punishes a sequencer of ANOTHER rollapp ---
//
// Neither SubmitRollappFraud nor PunishSequencer checks that PunishSequencerAddress is a sequencer of
// the rollapp named in the proposal.  Props/C03X `fraud_other_rollapps` states what such an accepted
// proposal may touch; the monitor below evaluates exactly those clauses on the implementation
// (snapshot before / after the op; nothing here uses the Lean model).

import (
	"fmt"
	"sort"
	"strings"
)

// coreForeignSeqs: the sequencers (actor indices, ascending) that belong to a rollapp other than ri.
func coreForeignSeqs(s *coreSnap, ri int) []int {
	var out []int
	for i, q := range s.Seqs {
		if i >= 0 && q.Ra != ri {
			out = append(out, i)
		}
	}
	sort.Ints(out)
	return out
}

// genFraudForeignPunish: generator branch of genFraud.  With some probability the proposal punishes a
// sequencer of another rollapp than the forked one (half of the time, when there is one, that other
// rollapp's proposer).  Returns the (possibly replaced) punish / rewardee tokens of the op line.
func (c *coreGen) genFraudForeignPunish(s *coreSnap, ri int, punish, rewardee string) (string, string) {
	g := c.g
	foreign := coreForeignSeqs(s, ri)
	if len(foreign) == 0 || !g.Chance(12+map[string]int{"C03": 28}[c.focus]) {
		return punish, rewardee
	}
	a := foreign[g.Intn(len(foreign))]
	var props []int
	for _, x := range foreign {
		if ra := s.Seqs[x].Ra; ra >= 0 && ra < len(s.Ras) && s.Ras[ra].Prop == x {
			props = append(props, x)
		}
	}
	if len(props) > 0 && g.Chance(50) {
		a = props[g.Intn(len(props))]
	}
	c.r.Hit("fraud-punish-other-rollapp")
	if ra := s.Seqs[a].Ra; ra >= 0 && ra < len(s.Ras) && s.Ras[ra].Prop == a {
		c.r.Hit("fraud-punish-other-rollapp-proposer")
	}
	if rewardee == "-" && g.Chance(55) {
		rewardee = fmt.Sprintf("a%d", c.pickActor())
	}
	return fmt.Sprintf("a%d", a), rewardee
}

// checkForeignPunish: monitor `C03/frame/other-rollapp-record-changed` (+ the bond clause).  Evaluated
// on an ACCEPTED fraud op whose punished sequencer belonged (before the op) to another rollapp than
// the forked one.
func (m *coreMon) checkForeignPunish(op string, f []string, kv map[string]string, res string, prev, cur *coreSnap) {
	if prev == nil || len(f) < 2 || f[0] != "fraud" || res != "ok" || !strings.HasPrefix(kv["punish"], "a") || !strings.HasPrefix(f[1], "r") {
		return
	}
	ri := int(atoi(strings.TrimPrefix(f[1], "r")))
	a := int(atoi(strings.TrimPrefix(kv["punish"], "a")))
	pq, ok := prev.Seqs[a]
	if !ok || pq.Ra == ri {
		return
	}
	m.r.Hit("fraud-punish-other-rollapp/accepted")
	wasProp := pq.Ra >= 0 && pq.Ra < len(prev.Ras) && prev.Ras[pq.Ra].Prop == a
	if wasProp {
		m.r.Hit("fraud-punish-other-rollapp-proposer/accepted")
	}
	const sig = "C03/frame/other-rollapp-record-changed"
	bad := func(format string, args ...interface{}) {
		m.violate(sig, fmt.Sprintf("`%s` (forks r%d, punishes a%d of r%d): ", op, ri, a, pq.Ra)+fmt.Sprintf(format, args...))
	}
	// every field of every other rollapp's observation: existence, launched, genesis-bridge height,
	// revisions, latest index, latest finalized index, liveness event height / countdown start, proposer,
	// successor, every state (incl. NextProposer, descriptors' summary) and the by-height index
	for rj := range prev.Ras {
		if rj == ri {
			continue
		}
		if rj >= len(cur.Ras) {
			bad("r%d disappeared", rj)
			continue
		}
		if x, y := fmt.Sprintf("%+v", prev.Ras[rj]), fmt.Sprintf("%+v", cur.Ras[rj]); x != y {
			bad("record of r%d: %s -> %s", rj, trunc200(x), trunc200(y))
		}
	}
	if wasProp && (pq.Ra >= len(cur.Ras) || cur.Ras[pq.Ra].Prop != a) {
		bad("a%d was the proposer of r%d and is not any more", a, pq.Ra)
	}
	// finalization-queue entries of other rollapps: same entries, same order
	oq := func(q []string) string {
		var out []string
		for _, e := range q {
			if parts := strings.SplitN(e, ":", 3); len(parts) < 2 || parts[1] != fmt.Sprintf("r%d", ri) {
				out = append(out, e)
			}
		}
		return strings.Join(out, ";")
	}
	if x, y := oq(prev.Queue), oq(cur.Queue); x != y {
		bad("queue entries of other rollapps: %s -> %s", x, y)
	}
	// sequencer-height pairs: none added; every pair of a sequencer of another rollapp kept
	curSH := map[[2]uint64]bool{}
	for _, p := range cur.SeqH {
		curSH[p] = true
	}
	prevSH := map[[2]uint64]bool{}
	for _, p := range prev.SeqH {
		prevSH[p] = true
		if q, ok := prev.Seqs[int(p[0])]; ok && q.Ra != ri && !curSH[p] {
			bad("sequencer-height pair (a%d,%d) of r%d removed", p[0], p[1], q.Ra)
		}
	}
	for _, p := range cur.SeqH {
		if !prevSH[p] {
			bad("sequencer-height pair (a%d,%d) added", p[0], p[1])
		}
	}
	// liveness events of other rollapps
	ol := func(l [][2]int64) string {
		var out []string
		for _, e := range l {
			if int(e[1]) != ri {
				out = append(out, fmt.Sprintf("%d:r%d", e[0], e[1]))
			}
		}
		return strings.Join(out, ",")
	}
	if x, y := ol(prev.Lev), ol(cur.Lev); x != y {
		bad("liveness events of other rollapps: %s -> %s", x, y)
	}
	// notice-queue entries of sequencers of other rollapps
	on := func(s *coreSnap) string {
		var out []string
		for _, e := range s.Nq {
			if q, ok := prev.Seqs[int(e[1])]; !ok || q.Ra != ri {
				out = append(out, fmt.Sprintf("%d:a%d", e[0], e[1]))
			}
		}
		return strings.Join(out, ",")
	}
	if x, y := on(prev), on(cur); x != y {
		bad("notice-queue entries of sequencers of other rollapps: %s -> %s", x, y)
	}
	// sequencer records: the punished one keeps everything but `tokens`; every other sequencer of
	// another rollapp is literally unchanged; nobody appears or disappears
	if len(cur.Seqs) != len(prev.Seqs) {
		bad("%d sequencer records -> %d", len(prev.Seqs), len(cur.Seqs))
	}
	for i, p := range prev.Seqs {
		c, ok := cur.Seqs[i]
		if !ok {
			bad("sequencer record a%d disappeared", i)
			continue
		}
		if p.Ra == ri {
			if !c.Tokens.Equal(p.Tokens) { // sequencers of the forked rollapp: opted out / unbonded by the fork, bonds untouched
				bad("bond of a%d (sequencer of the forked rollapp, not punished) %s -> %s", i, p.Tokens, c.Tokens)
			}
			continue
		}
		same := c.Ra == p.Ra && c.Bonded == p.Bonded && c.OptedIn == p.OptedIn && c.Dishonor == p.Dishonor && c.Notice == p.Notice
		if i == a {
			if !same {
				bad("punished a%d: %+v -> %+v (only tokens may change)", i, p, c)
			}
			if !c.Tokens.IsZero() {
				m.violate("C03/frame/other-rollapp-punished-bond-not-zero", fmt.Sprintf("`%s`: a%d keeps %s of %s", op, i, c.Tokens, p.Tokens))
			}
		} else if !same || !c.Tokens.Equal(p.Tokens) {
			bad("sequencer a%d of r%d: %+v -> %+v", i, p.Ra, p, c)
		}
	}
	// hub clock
	if cur.H != prev.H || cur.T != prev.T {
		bad("hub clock %d/%d -> %d/%d", prev.H, prev.T, cur.H, cur.T)
	}
}

// --- w-coreb: end ---
