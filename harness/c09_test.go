package harness

// C09 — the canonical light client always agrees with the settled rollapp state.
// M-LC is layered on M-Core: rollapp / sequencer ops go through the M-Core executor (core_util.go),
// light-client ops through the shared IBC fixture (ibc_util.go, fixture A).  Header verification by
// 07-tendermint is the oracle `ibc=` recorded on the op line after execution.

import (
	"crypto/sha256"
	"fmt"
	"os"
	"sort"
	"strconv"
	"strings"
	"testing"
	"time"

	"cosmossdk.io/math"
	sdk "github.com/cosmos/cosmos-sdk/types"
	"github.com/cosmos/cosmos-sdk/x/authz"
	clienttypes "github.com/cosmos/ibc-go/v8/modules/core/02-client/types"
	channeltypes "github.com/cosmos/ibc-go/v8/modules/core/04-channel/types"
	commitmenttypes "github.com/cosmos/ibc-go/v8/modules/core/23-commitment/types"
	ibcexported "github.com/cosmos/ibc-go/v8/modules/core/exported"
	ibctm "github.com/cosmos/ibc-go/v8/modules/light-clients/07-tendermint"
	ics23 "github.com/cosmos/ics23/go"

	lctypes "github.com/dymensionxyz/dymension/v3/x/lightclient/types"
	rollapptypes "github.com/dymensionxyz/dymension/v3/x/rollapp/types"
	seqtypes "github.com/dymensionxyz/dymension/v3/x/sequencer/types"
)

type c09Client struct {
	id    string
	chain int // rollapp index, or -1
	conn  string
}

type c09H struct {
	t       *testing.T
	core    *coreH
	e       *ibcEnv
	clients []c09Client
	chans   []c09Chan
	// x/group fixture of the stored-proposal route (c09_group.go)
	groupPolicy string
	nProposals  uint64
}

type c09Chan struct {
	id     string
	client int
}

func newC09H(t *testing.T, p coreParams) *c09H {
	core := newCoreH(t, p)
	return &c09H{t: t, core: core, e: newIbcEnvOnCore(t, core)}
}

// rollapp clock: token -> time.  One token is a quarter of a second, so that perturbed timestamps
// (ts+3) fall into the same Unix second as the honest one for every other height: agreement of a
// consensus state and a block descriptor is agreement of the exact instants, not of the seconds.
const c09Tick = 250 * time.Millisecond

func c09Time(tok uint64) time.Time {
	return BaseTime.Add(-2 * time.Hour).Add(time.Duration(tok) * c09Tick)
}
func c09TimeTok(t time.Time) uint64 {
	return uint64(t.Sub(BaseTime.Add(-2*time.Hour)) / c09Tick)
}

// actor tokens on op lines: a<k> = core actor k, x<k> = a key no sequencer registered
func c09Actor(tok string) int {
	k, _ := strconv.Atoi(tok[1:])
	if strings.HasPrefix(tok, "x") {
		return -1 - k
	}
	return k
}

func c09ActorTok(i int) string {
	if i < 0 {
		return fmt.Sprintf("x%d", -1-i)
	}
	return fmt.Sprintf("a%d", i)
}

// next-validators-hash token: 0 garbage, k+1 = single-validator set of actor token k (x<j> = 1000+j)
func (h *c09H) nvHash(tok uint64) []byte {
	if tok == 0 {
		return h.e.header(hdrSpec{ChainID: "x-1", Height: 1, Vals: []hdrVal{{0, 1, true}}, TrustedVals: []hdrVal{{0, 1, true}}, NextGarbage: true, Proposer: 0, ProposerData: -2, Root: ibcRoot(0)}).Header.NextValidatorsHash
	}
	return h.e.valsetOf([]hdrVal{{nvOwner(tok), 1, true}}).Hash()
}

func (h *c09H) nvTok(hash []byte) uint64 {
	for a := 0; a < len(h.core.actors); a++ {
		if string(h.e.valsetOf([]hdrVal{{a, 1, true}}).Hash()) == string(hash) {
			return uint64(a + 1)
		}
	}
	for x := 0; x < 4; x++ {
		if string(h.e.valsetOf([]hdrVal{{-1 - x, 1, true}}).Hash()) == string(hash) {
			return uint64(1000 + x + 1)
		}
	}
	return 0
}

func parseVals(s string) []hdrVal {
	var out []hdrVal
	if s == "" || s == "-" {
		return out
	}
	for _, x := range strings.Split(s, ",") {
		p := strings.Split(x, ":")
		out = append(out, hdrVal{Actor: c09Actor(p[0]), Power: atoi(p[1]), Signs: p[2] == "1"})
	}
	return out
}

func valsLine(vs []hdrVal) string {
	var xs []string
	for _, v := range vs {
		xs = append(xs, fmt.Sprintf("%s:%d:%s", c09ActorTok(v.Actor), v.Power, b2s(v.Signs)))
	}
	return strings.Join(xs, ",")
}

func uList(s string) []uint64 {
	var out []uint64
	if s == "" || s == "-" {
		return out
	}
	for _, x := range strings.Split(s, ",") {
		out = append(out, atou(x))
	}
	return out
}

func c09Spec(tok uint64) *ics23.ProofSpec {
	sp := commitmenttypes.GetSDKSpecs()
	switch tok {
	case 1:
		return sp[0]
	case 2:
		return sp[1]
	}
	c := *sp[0]
	c.MaxDepth = 77
	return &c
}

func c09Path(tok uint64) string {
	switch tok {
	case 1:
		return "upgrade"
	case 2:
		return "upgradedIBCState"
	}
	return "other"
}

// c09LcClass names the hub-side refusal an error carries ("" = none of them: 07-tendermint / ibc core said no)
func c09LcClass(err error) string {
	s := err.Error()
	has := func(x string) bool { return strings.Contains(s, x) }
	switch {
	case has("validator set proposer not equal header proposer field"):
		return "proposerMismatch"
	case has("update canonical client with non sequencer header"):
		return "nonSequencer"
	case has("validator set is not the sequencer"):
		return "validatorSet"
	case has("header from sequencer of another rollapp"):
		return "foreignSequencer"
	case has("header is from unbonded sequencer"):
		return "unbonded"
	case has("client update revision mismatch"):
		return "revision"
	case has("misbehavior evidence is disabled for canonical clients"), has("cannot submit misbehavour for a canonical client"):
		return "misbehaviourDisabled"
	case has("block descriptor state root does not match tendermint header app hash"):
		return "root"
	case has("block descriptor timestamp does not match tendermint header timestamp"):
		return "ts"
	case has("next validator hash on light client cons state does not match"):
		return "nextVal"
	case has("no cosmos.msg.v1.signer option found"), has("fee payer address:  does not exist"):
		return "noSigner"
	case has("disabled: /ibc.core.client.v1.MsgUpdateClient"), has("disabled: /ibc.core.client.v1.MsgSubmitMisbehaviour"):
		return "nestedDisabled"
	case has("get sequencer of state info"), has("get next sequencer of state info"), has("no block descriptor found"):
		return "internal"
	case has("in a transaction with non ibc messages"):
		return "mixedTx"
	case has("canonical channel already exists"):
		return "chanExists"
	case has("client latest height not less than new latest height"):
		return "resolveHeight"
	case has("canonical client not found"):
		return "forkNoClient"
	case has("height nil or not tm client height"):
		return "forkNoCons"
	case has("unverified header"):
		return "unbondBlocked"
	}
	return ""
}

func (h *c09H) clientByTok(tok string) (int, string) {
	i, _ := strconv.Atoi(strings.TrimPrefix(tok, "c"))
	if i < 0 || i >= len(h.clients) {
		return i, fmt.Sprintf("07-tendermint-%d", i)
	}
	return i, h.clients[i].id
}

func (h *c09H) hdrFromLine(chain string, m map[string]string, root uint64) *ibctm.Header {
	ps := c09Actor(m["ps"])
	pd := -2
	if m["pd"] != m["ps"] {
		pd = c09Actor(m["pd"])
	}
	nv := nvOwner(atou(m["nv"]))
	spec := hdrSpec{ChainID: chain, Height: atou(m["h"]), Trusted: atou(m["trusted"]), Time: c09Time(atou(m["ts"])), Root: ibcRoot(root),
		Vals: parseVals(m["vals"]), TrustedVals: parseVals(m["tvals"]), NextVal: nv, NextGarbage: atou(m["nv"]) == 0, Proposer: ps, ProposerData: pd, AppVersion: atou(m["rev"])}
	return h.e.header(spec)
}

func (h *c09H) exec1(msg sdk.Msg) (anteErr, msgErr error) { return h.e.runTx(msg) }

func (h *c09H) msgExec(inner sdk.Msg) sdk.Msg {
	m := authz.NewMsgExec(h.e.relayer, []sdk.Msg{inner})
	return &m
}

// exec runs one op line; returns the result class and (for ops with an oracle) the oracle verdict
func (h *c09H) exec(line string) (res string, ibc string) {
	f := strings.Fields(line)
	m := parseKV(f)
	app := h.e.f.App
	ctx := func() sdk.Context { return h.e.f.Ctx }
	dbg := func(err error) {
		if err != nil && os.Getenv("C09_DEBUG") != "" {
			fmt.Fprintln(os.Stderr, "DEBUG", f[0], "err:", err)
		}
	}
	if r, o, ok := h.execAdmin(f, m); ok {
		if os.Getenv("C09_DEBUG") != "" {
			fmt.Fprintln(os.Stderr, "DEBUG", f[0], "=>", r)
		}
		return r, o
	}
	switch f[0] {
	case "update":
		_, id := h.core.rollapp(f[1])
		_, a := h.core.actor(m["by"])
		roots, tss := uList(m["roots"]), strings.Split(m["tss"], ",")
		var bds rollapptypes.BlockDescriptors
		start := atou(m["start"])
		for i, r := range roots {
			bd := rollapptypes.BlockDescriptor{Height: start + uint64(i), StateRoot: ibcRoot(r), DrsVersion: uint32(atou(m["drs"]))}
			if i < len(tss) && tss[i] != "-" && tss[i] != "" {
				bd.Timestamp = c09Time(atou(tss[i]))
			}
			bds.BD = append(bds.BD, bd)
		}
		msg := rollapptypes.MsgUpdateState{Creator: a.String(), RollappId: id, StartHeight: start, NumBlocks: atou(m["num"]), DAPath: "",
			BDs: bds, RollappRevision: atou(m["rev"]), Last: m["last"] == "1"}
		_, err := h.e.f.Deliver(&msg)
		dbg(err)
		if err != nil {
			if c := c09LcClass(err); c != "" {
				return "lc:" + c, ""
			}
		}
		return coreUpdClass(err), ""
	case "bridge":
		// stands for a completed genesis bridge (C10): TransferProofHeight only — the canonical client is this property's subject
		_, id := h.core.rollapp(f[1])
		ra, ok := app.RollappKeeper.GetRollapp(ctx(), id)
		ht := atou(m["h"])
		lh, okh := app.RollappKeeper.GetLatestHeight(ctx(), id)
		if !ok || ra.GenesisState.TransferProofHeight != 0 || !okh || ht == 0 || ht > lh {
			return "err", ""
		}
		ra.GenesisState.TransferProofHeight = ht
		app.RollappKeeper.SetRollapp(ctx(), ra)
		return "ok", ""
	case "lc_create":
		chain := "plainchain-1"
		ri := -1
		if strings.HasPrefix(m["chain"], "r") {
			ri, chain = h.core.rollapp(m["chain"])
		}
		exp := lctypes.DefaultExpectedCanonicalClientParams()
		cs := ibctm.NewClientState(chain, exp.TrustLevel, exp.TrustingPeriod, exp.UnbondingPeriod, exp.MaxClockDrift,
			clienttypes.NewHeight(clienttypes.ParseChainID(chain), atou(m["h"])), nil, nil)
		if atou(m["tl"]) != 0 {
			cs.TrustLevel = ibctm.Fraction{Numerator: 2, Denominator: 3}
		}
		if atou(m["tp"]) != 0 {
			cs.TrustingPeriod = exp.TrustingPeriod - time.Hour
		}
		if atou(m["ub"]) != 0 {
			cs.UnbondingPeriod = exp.UnbondingPeriod + time.Hour
		}
		if atou(m["dr"]) != 0 {
			cs.MaxClockDrift = 10 * time.Minute
		}
		for _, t := range uList(m["specs"]) {
			cs.ProofSpecs = append(cs.ProofSpecs, c09Spec(t))
		}
		for _, t := range uList(m["path"]) {
			cs.UpgradePath = append(cs.UpgradePath, c09Path(t))
		}
		id, err := h.e.createClient(cs, c09Time(atou(m["ts"])), ibcRoot(atou(m["root"])), h.nvHash(atou(m["nv"])))
		dbg(err)
		if err != nil {
			return "bad-op", "" // the generator only asks for client states ibc-go accepts
		}
		h.clients = append(h.clients, c09Client{id: id, chain: ri})
		return "ok", ""
	case "lc_setcanon":
		_, cid := h.clientByTok(f[1])
		var err error
		func() {
			defer func() {
				if r := recover(); r != nil {
					err = &PanicError{Val: r}
				}
			}()
			_, err = h.e.f.Deliver(&lctypes.MsgSetCanonicalClient{Signer: h.e.relayer.String(), ClientId: cid})
		}()
		dbg(err)
		switch {
		case err == nil:
			return "ok", ""
		case IsPanic(err):
			return "lc:paramsPanic", ""
		case strings.Contains(err.Error(), "not found: client") || strings.Contains(err.Error(), "client: not found"):
			return "lc:notFound", ""
		case strings.Contains(err.Error(), "rollapp: not found") || strings.Contains(err.Error(), "not found: rollapp"):
			return "lc:rollappNotFound", ""
		case strings.Contains(err.Error(), "canonical client for rollapp"):
			return "lc:alreadyExists", ""
		case strings.Contains(err.Error(), "params"):
			return "lc:params", ""
		case strings.Contains(err.Error(), "latest state info index"):
			return "lc:noState", ""
		case strings.Contains(err.Error(), "not at least one cons state matches"):
			return "lc:noMatch", ""
		}
		if c := c09LcClass(err); c != "" {
			return "lc:" + c, ""
		}
		return "lc:other", ""
	case "lc_update":
		ci, cid := h.clientByTok(f[1])
		chain := "plainchain-1"
		if ci < len(h.clients) && h.clients[ci].chain >= 0 {
			chain = h.core.rollapps[h.clients[ci].chain]
		}
		hd := h.hdrFromLine(chain, m, atou(m["root"]))
		signer := h.e.relayer.String()
		if m["w"] == "group" {
			signer = h.ensureGroup()
		}
		inner, err := clienttypes.NewMsgUpdateClient(cid, hd, signer)
		if err != nil {
			h.t.Fatal(err)
		}
		if m["w"] == "group" {
			return h.runGroup(inner)
		}
		return h.runWrapped(m["w"], inner)
	case "lc_misb":
		ci, cid := h.clientByTok(f[1])
		chain := "plainchain-1"
		if ci < len(h.clients) && h.clients[ci].chain >= 0 {
			chain = h.core.rollapps[h.clients[ci].chain]
		}
		h1 := h.hdrFromLine(chain, m, atou(m["root"]))
		h2 := h.hdrFromLine(chain, m, atou(m["root"])+1)
		mb := ibctm.NewMisbehaviour(cid, h1, h2)
		var inner sdk.Msg
		var err error
		k := m["k"]
		signer := h.e.relayer.String()
		if strings.HasSuffix(k, "Group") {
			signer = h.ensureGroup()
		}
		if strings.HasPrefix(k, "submit") {
			inner, err = clienttypes.NewMsgSubmitMisbehaviour(cid, mb, signer) //nolint:staticcheck
		} else {
			inner, err = clienttypes.NewMsgUpdateClient(cid, mb, signer)
		}
		if err != nil {
			h.t.Fatal(err)
		}
		if strings.HasSuffix(k, "Group") {
			return h.runGroup(inner)
		}
		w := map[string]string{"submit": "top", "submitNested": "nested", "viaUpdate": "top", "viaUpdateNested": "nested", "viaWrapped": "wrapped", "viaWrappedNested": "nestedwrapped"}[k]
		return h.runWrapped(w, inner)
	case "lc_chaninit":
		ci, _ := h.clientByTok(f[1])
		if ci < 0 || ci >= len(h.clients) {
			return "lc:notFound", ""
		}
		if h.clients[ci].conn == "" {
			h.clients[ci].conn = h.e.openConnection(h.clients[ci].id)
		}
		ch, err := h.e.chanOpenInit(h.clients[ci].conn)
		dbg(err)
		if err != nil {
			return "lc:ibc", "" // ibc core refuses (client not active)
		}
		h.chans = append(h.chans, c09Chan{id: ch, client: ci})
		return "ok", ""
	case "lc_chanack":
		chi, _ := strconv.Atoi(strings.TrimPrefix(f[1], "ch"))
		chID := fmt.Sprintf("channel-%d", chi)
		route := m["w"] // "" / top: MsgChannelOpenAck in the transaction; nested: inside authz.MsgExec; confirm: MsgChannelOpenConfirm
		var msg sdk.Msg = channeltypes.NewMsgChannelOpenAck("transfer", chID, "channel-77", "ics20-1", []byte("proof"), clienttypes.NewHeight(1, 1), h.e.relayer.String())
		ck := app.IBCKeeper.ChannelKeeper
		before, exists := ck.GetChannel(ctx(), "transfer", chID)
		switch route {
		case "nested":
			msg = h.msgExec(msg)
		case "confirm":
			// the rollapp started the handshake: the hub's channel end is in TRYOPEN (stand-in for an accepted MsgChannelOpenTry)
			if exists && before.State == channeltypes.INIT {
				try := before
				try.State = channeltypes.TRYOPEN
				try.Counterparty.ChannelId = "channel-77"
				ck.SetChannel(ctx(), "transfer", chID, try)
			}
			msg = channeltypes.NewMsgChannelOpenConfirm("transfer", chID, []byte("proof"), clienttypes.NewHeight(1, 1), h.e.relayer.String())
		}
		ae, me := h.exec1(msg)
		dbg(ae)
		dbg(me)
		if route == "confirm" && exists && before.State == channeltypes.INIT {
			ck.SetChannel(ctx(), "transfer", chID, before)
		}
		if ae != nil {
			if c := c09LcClass(ae); c != "" {
				return "ante:" + c, ""
			}
			if route == "nested" || route == "confirm" {
				return "ante:other", "" // the ante chain has nothing to say about these two routes
			}
			return "ante:chanUnknown", ""
		}
		if me == nil {
			h.t.Fatal("a channel handshake with a bogus proof succeeded")
		}
		if (route == "nested" || route == "confirm") && exists && before.State == channeltypes.INIT && !c09IsProofFailure(me) &&
			!strings.Contains(me.Error(), "client") {
			// on a channel in INIT state over an active client the only thing between these two routes and an open channel is the proof
			h.t.Fatalf("%s: the handshake message did not get as far as proof verification: %v", route, me)
		}
		if m["ibc"] == "1" && (exists || route == "" || route == "top") {
			h.e.setChannelOpen(chID, "channel-77") // stands for the same message carrying a valid proof
			return "ok", ""
		}
		return "lc:ibc", ""
	}
	switch f[0] {
	case "fraud", "unbond", "bond_dec":
		// M-Core ops the light-client hooks can veto: same messages as core_util.go, error kept for classification
		var msg sdk.Msg
		switch f[0] {
		case "fraud":
			_, id := h.core.rollapp(f[1])
			msg = &rollapptypes.MsgRollappFraudProposal{Authority: h.core.gov, RollappId: id, FraudHeight: atou(m["h"]), FraudRevision: atou(m["rev"])}
		case "unbond":
			_, a := h.core.actor(f[1])
			msg = &seqtypes.MsgUnbond{Creator: a.String()}
		case "bond_dec":
			_, a := h.core.actor(f[1])
			msg = &seqtypes.MsgDecreaseBond{Creator: a.String(), DecreaseAmount: sdk.NewCoin(coreDenom, math.NewIntFromUint64(atou(m["amt"])))}
		}
		_, err := h.e.f.Deliver(msg)
		dbg(err)
		if err != nil {
			if c := c09LcClass(err); c != "" {
				return "lc:" + c, ""
			}
			return "err", ""
		}
		return "ok", ""
	}
	// everything else is an M-Core op
	r := h.core.exec(line)
	return r, ""
}

// c09IsProofFailure: ibc core refused the handshake step because the (bogus) proof does not verify — everything before
// that (routing, authz dispatch, channel / connection / client lookups, state checks) went through
func c09IsProofFailure(err error) bool {
	return strings.Contains(err.Error(), "failed channel state verification")
}

// runWrapped sends `inner` by one of the four routes and classifies the outcome
func (h *c09H) runWrapped(w string, inner sdk.Msg) (string, string) {
	var msg sdk.Msg = inner
	switch w {
	case "wrapped", "nestedwrapped":
		if u, ok := inner.(*clienttypes.MsgUpdateClient); ok {
			msg = &lctypes.MsgUpdateClient{Inner: u}
		}
	}
	if w == "nested" || w == "nestedwrapped" {
		msg = h.msgExec(msg)
	}
	ae, me := h.exec1(msg)
	if os.Getenv("C09_DEBUG") != "" {
		fmt.Fprintln(os.Stderr, "DEBUG", w, "ante:", ae, "msg:", me)
	}
	if ae != nil {
		if c := c09LcClass(ae); c != "" {
			return "ante:" + c, "0"
		}
		return "ante:other", "0"
	}
	if me != nil {
		if c := c09LcClass(me); c != "" {
			return "lc:" + c, "0"
		}
		if strings.Contains(me.Error(), "light client not found") || strings.Contains(me.Error(), "cannot update client") && strings.Contains(me.Error(), "not found") {
			return "lc:notFound", "0"
		}
		return "lc:ibc", "0"
	}
	return "ok", "1"
}

// ---- snapshot of the light-client side ------------------------------------------------------------

type c09Cons struct {
	H, Root, Ts, Nv uint64
}

type c09ClientSnap struct {
	Chain  int
	Frozen bool
	Latest uint64
	Cons   []c09Cons
	Params bool // equal to the expected parameters, lists included
}

type c09Desc struct {
	R     int
	H     uint64
	Root  uint64
	HasTs bool
	Ts    uint64
	Next  int // sequencer for the next block as the state info says now: actor index, -1 none
}

type c09Snap struct {
	Clients []c09ClientSnap
	R2C     map[int]int
	C2R     map[int]int
	SS      [][3]uint64 // (actor, client, height)
	SM      [][3]uint64 // (client, height, actor)
	ChOf    map[int]int
	Chans   []bool
	Descs   []c09Desc
	Rev     []uint64
	Bonded  map[int]bool
	SeqRa   map[int]int
	Tokens  map[int]math.Int // recorded bond (not rendered: part of the M-Core observation)
}

func (h *c09H) clientIdx(id string) int {
	for i, c := range h.clients {
		if c.id == id {
			return i
		}
	}
	return -1
}

func (h *c09H) snapshot() *c09Snap {
	app, ctx := h.e.f.App, h.e.f.Ctx
	s := &c09Snap{R2C: map[int]int{}, C2R: map[int]int{}, ChOf: map[int]int{}, Bonded: map[int]bool{}, SeqRa: map[int]int{}, Tokens: map[int]math.Int{}}
	exp := lctypes.DefaultExpectedCanonicalClientParams()
	for ci, c := range h.clients {
		var cs c09ClientSnap
		cs.Chain = c.chain
		st, ok := app.IBCKeeper.ClientKeeper.GetClientState(ctx, c.id)
		if ok {
			tm := st.(*ibctm.ClientState)
			// the chain id the client has NOW (an upgrade or a recovery can change it)
			cs.Chain = -1
			if ri, known := h.core.raIdx[tm.ChainId]; known {
				cs.Chain = ri
			}
			cs.Frozen = !tm.FrozenHeight.IsZero()
			cs.Latest = tm.LatestHeight.RevisionHeight
			cs.Params = tm.TrustLevel == exp.TrustLevel && tm.TrustingPeriod == exp.TrustingPeriod && tm.UnbondingPeriod == exp.UnbondingPeriod &&
				tm.MaxClockDrift == exp.MaxClockDrift && len(tm.ProofSpecs) == len(exp.ProofSpecs) && len(tm.UpgradePath) == len(exp.UpgradePath)
			if cs.Params {
				for i := range tm.ProofSpecs {
					cs.Params = cs.Params && tm.ProofSpecs[i].SpecEquals(exp.ProofSpecs[i]) && lctypes.EqualICS23ProofSpecs(*tm.ProofSpecs[i], *exp.ProofSpecs[i])
				}
				for i := range tm.UpgradePath {
					cs.Params = cs.Params && tm.UpgradePath[i] == exp.UpgradePath[i]
				}
			}
			store := app.IBCKeeper.ClientKeeper.ClientStore(ctx, c.id)
			ibctm.IterateConsensusStateAscending(store, func(ht ibcexported.Height) bool {
				if x, ok := app.IBCKeeper.ClientKeeper.GetClientConsensusState(ctx, c.id, ht); ok {
					t := x.(*ibctm.ConsensusState)
					cs.Cons = append(cs.Cons, c09Cons{ht.GetRevisionHeight(), uint64(t.Root.Hash[0]), c09TimeTok(t.Timestamp), h.nvTok(t.NextValidatorsHash)})
				}
				return false
			})
		}
		s.Clients = append(s.Clients, cs)
		if r, ok := app.LightClientKeeper.GetRollappForClientID(ctx, c.id); ok {
			s.C2R[ci] = h.core.raIdx[r]
		}
		for ht := uint64(0); ht < 130; ht++ {
			if a, err := app.LightClientKeeper.GetSigner(ctx, c.id, ht); err == nil {
				s.SM = append(s.SM, [3]uint64{uint64(ci), ht, uint64(h.core.aidx(a))})
			}
		}
	}
	for _, cc := range app.LightClientKeeper.GetAllCanonicalClients(ctx) {
		s.R2C[h.core.raIdx[cc.RollappId]] = h.clientIdx(cc.IbcClientId)
	}
	for _, e := range app.LightClientKeeper.ExportGenesis(ctx).HeaderSigners {
		s.SS = append(s.SS, [3]uint64{uint64(h.core.aidx(e.SequencerAddress)), uint64(h.clientIdx(e.ClientId)), e.Height})
	}
	sort.Slice(s.SS, func(i, j int) bool { return lt3(s.SS[i], s.SS[j]) })
	sort.Slice(s.SM, func(i, j int) bool { return lt3(s.SM[i], s.SM[j]) })
	for ri, id := range h.core.rollapps {
		ra, ok := app.RollappKeeper.GetRollapp(ctx, id)
		s.Rev = append(s.Rev, 0)
		if !ok {
			continue
		}
		s.Rev[ri] = ra.LatestRevision().Number
		if ra.ChannelId != "" {
			n, _ := strconv.Atoi(strings.TrimPrefix(ra.ChannelId, "channel-"))
			s.ChOf[ri] = n
		}
		li, ok := app.RollappKeeper.GetLatestStateInfoIndex(ctx, id)
		if !ok {
			continue
		}
		for i := uint64(1); i <= li.Index; i++ {
			st, ok := app.RollappKeeper.GetStateInfo(ctx, id, i)
			if !ok {
				continue
			}
			for _, bd := range st.BDs.BD {
				d := c09Desc{R: ri, H: bd.Height, Root: uint64(bd.StateRoot[0]), HasTs: !bd.Timestamp.IsZero(), Next: -1}
				if d.HasTs {
					d.Ts = c09TimeTok(bd.Timestamp)
				}
				if q, err := app.SequencerKeeper.RealSequencer(ctx, st.NextSequencerForHeight(bd.Height)); err == nil {
					d.Next = h.core.aidx(q.Address)
				}
				s.Descs = append(s.Descs, d)
			}
		}
	}
	for i, c := range h.chans {
		ch, ok := app.IBCKeeper.ChannelKeeper.GetChannel(ctx, "transfer", c.id)
		s.Chans = append(s.Chans, ok && ch.State == channeltypes.OPEN)
		_ = i
	}
	for _, q := range app.SequencerKeeper.AllSequencers(ctx) {
		i := h.core.aidx(q.Address)
		s.Bonded[i] = q.Status == seqtypes.Bonded
		s.SeqRa[i] = h.core.raIdx[q.RollappId]
		s.Tokens[i] = q.TokensCoin().Amount
	}
	return s
}

func pairsOf(m map[int]int) string {
	var xs []string
	for _, k := range sortedKeys(m) {
		xs = append(xs, fmt.Sprintf("r%d>ch%d", k, m[k]))
	}
	return "chof=" + strings.Join(xs, ",")
}

func lt3(a, b [3]uint64) bool {
	for i := 0; i < 3; i++ {
		if a[i] != b[i] {
			return a[i] < b[i]
		}
	}
	return false
}

func sortedKeys(m map[int]int) []int {
	var ks []int
	for k := range m {
		ks = append(ks, k)
	}
	sort.Ints(ks)
	return ks
}

func (h *c09H) chainTok(ri int) uint64 {
	if ri < 0 {
		return 100
	}
	return uint64(ri)
}

func (s *c09Snap) render(h *c09H) string {
	var sb strings.Builder
	sb.WriteString(" || cl=")
	for i, c := range s.Clients {
		if i > 0 {
			sb.WriteByte(';')
		}
		var cons []string
		for _, x := range c.Cons {
			cons = append(cons, fmt.Sprintf("%d/%d/%d/%d", x.H, x.Root, x.Ts, x.Nv))
		}
		fmt.Fprintf(&sb, "%d:%d:%s:%d:%s", i, h.chainTok(c.Chain), b2s(c.Frozen), c.Latest, strings.Join(cons, ","))
	}
	pairs := func(m map[int]int) string {
		var xs []string
		for _, k := range sortedKeys(m) {
			xs = append(xs, fmt.Sprintf("%d>%d", k, m[k]))
		}
		return strings.Join(xs, ",")
	}
	fmt.Fprintf(&sb, " | r2c=%s c2r=%s | ss=", pairs(s.R2C), pairs(s.C2R))
	for i, x := range s.SS {
		if i > 0 {
			sb.WriteByte(',')
		}
		fmt.Fprintf(&sb, "%d:%d:%d", x[0], x[1], x[2])
	}
	sb.WriteString(" sm=")
	for i, x := range s.SM {
		if i > 0 {
			sb.WriteByte(',')
		}
		fmt.Fprintf(&sb, "%d:%d:%d", x[0], x[1], x[2])
	}
	fmt.Fprintf(&sb, " | chof=%s chans=", pairs(s.ChOf))
	for i, o := range s.Chans {
		if i > 0 {
			sb.WriteByte(',')
		}
		fmt.Fprintf(&sb, "%d:%d:%s", i, h.chans[i].client, b2s(o))
	}
	sb.WriteString(" | descs=")
	for i, d := range s.Descs {
		if i > 0 {
			sb.WriteByte(',')
		}
		ts := "-"
		if d.HasTs {
			ts = strconv.FormatUint(d.Ts, 10)
		}
		fmt.Fprintf(&sb, "%d:%d:%d:%s", d.R, d.H, d.Root, ts)
	}
	return sb.String()
}

// ---- monitors (model independent) ----------------------------------------------------------------

type c09Mon struct {
	h     *c09H
	r     *Run
	trace []string
	prev  *c09Snap
	// C06, third clause: headers accepted from a bonded sequencer for a height the hub had no descriptor for,
	// kept until a descriptor for that height exists or the consensus state is gone: (client, height) -> signers
	unv map[[2]uint64]map[int]bool
	// channels opened by a message the light-client decorator does not look at (nested ack, confirm)
	unseenOpen map[int]bool
}

func (m *c09Mon) violate(sig, detail string) {
	m.r.Violate(sig, detail, append([]string(nil), m.trace...)...)
}

func (s *c09Snap) desc(r int, ht uint64) *c09Desc {
	for i := range s.Descs {
		if s.Descs[i].R == r && s.Descs[i].H == ht {
			return &s.Descs[i]
		}
	}
	return nil
}

func (s *c09Snap) cons(c int, ht uint64) *c09Cons {
	if c < 0 || c >= len(s.Clients) {
		return nil
	}
	for i := range s.Clients[c].Cons {
		if s.Clients[c].Cons[i].H == ht {
			return &s.Clients[c].Cons[i]
		}
	}
	return nil
}

func agree(cs *c09Cons, d *c09Desc, withNext bool) string {
	switch {
	case cs.Root != d.Root:
		return "root"
	case d.HasTs && cs.Ts != d.Ts:
		return "timestamp"
	case withNext && (d.Next < 0 || cs.Nv != uint64(d.Next+1)):
		return "next-validators-hash"
	}
	return ""
}

func (m *c09Mon) check(op, res string, cur *c09Snap) {
	prev := m.prev
	m.prev = cur
	if prev == nil {
		return
	}
	f := strings.Fields(op)
	kv := parseKV(f)
	// designation_unique_stable
	for r, c := range cur.R2C {
		if r2, ok := cur.C2R[c]; !ok || r2 != r {
			m.violate("C09/designation_unique_stable/maps-not-inverse", fmt.Sprintf("r%d>c%d but c%d>%v", r, c, c, cur.C2R[c]))
		}
	}
	for c, r := range cur.C2R {
		if c2, ok := cur.R2C[r]; !ok || c2 != c {
			m.violate("C09/designation_unique_stable/maps-not-inverse", fmt.Sprintf("c%d>r%d but r%d>%v", c, r, r, cur.R2C[r]))
		}
	}
	for r, c := range prev.R2C {
		if c2, ok := cur.R2C[r]; !ok || c2 != c {
			m.violate("C09/designation_unique_stable/designation-moved", fmt.Sprintf("r%d: c%d -> %v by %s", r, c, cur.R2C[r], op))
		}
	}
	for r, c := range cur.R2C {
		_, had := prev.R2C[r]
		if had {
			continue
		}
		// set_canonical_requires_agreement: a new designation
		if f[0] != "lc_setcanon" && !(f[0] == "tx" && strings.Contains(op, "lc_setcanon ")) {
			m.violate("C09/set_canonical_requires_agreement/designated-by-another-op", op)
		}
		cl := cur.Clients[c]
		if cl.Chain != r {
			m.violate("C09/set_canonical_requires_agreement/client-of-another-chain", op)
		}
		if !cl.Params {
			m.violate("C09/set_canonical_requires_agreement/client-parameters-differ-from-expected", fmt.Sprintf("client c%d designated for r%d", c, r))
		}
		overlap := 0
		for i := range cl.Cons {
			if d := cur.desc(r, cl.Cons[i].H); d != nil {
				overlap++
				if why := agree(&cl.Cons[i], d, true); why != "" {
					sig := "C09/set_canonical_requires_agreement/existing-consensus-state-disagrees"
					if f[0] == "tx" && prev.cons(c, cl.Cons[i].H) == nil {
						// the consensus state arrived in the same transaction as the designation
						sig = "C09/later_conflict_rejected/conflicting-items-accepted-in-one-transaction"
					}
					m.violate(sig,
						fmt.Sprintf("c%d designated for r%d although its consensus state at %d (%+v) disagrees (%s) with the descriptor (%+v)", c, r, cl.Cons[i].H, cl.Cons[i], why, *d))
				}
			}
		}
		if overlap == 0 {
			m.violate("C09/set_canonical_requires_agreement/no-overlap", op)
		}
	}
	// canonical_client_immutable: a canonical client stays a client of its rollapp's chain with the expected parameters
	for r, c := range cur.R2C {
		if c < 0 || c >= len(cur.Clients) {
			continue
		}
		if cur.Clients[c].Chain != r {
			m.violate("C09/canonical_client_immutable/chain-id-changed", fmt.Sprintf("canonical client c%d of r%d has the chain id of %d after %s", c, r, cur.Clients[c].Chain, op))
		}
		if _, was := prev.R2C[r]; was && !cur.Clients[c].Params && prev.Clients[c].Params {
			m.violate("C09/canonical_client_immutable/parameters-changed", fmt.Sprintf("canonical client c%d of r%d after %s", c, r, op))
		}
	}
	// agreement_inv / later_conflict_rejected: an item that arrives while the client is canonical must agree
	for r, c := range prev.R2C {
		if c >= len(cur.Clients) {
			continue
		}
		for i := range cur.Clients[c].Cons {
			cs := &cur.Clients[c].Cons[i]
			d := cur.desc(r, cs.H)
			if d == nil {
				continue
			}
			pc, pd := prev.cons(c, cs.H), prev.desc(r, cs.H)
			newCons := pc == nil || *pc != *cs
			newDesc := pd == nil || pd.Root != d.Root || pd.Ts != d.Ts || pd.HasTs != d.HasTs
			if !newCons && !newDesc {
				continue
			}
			which := "conflicting-header-accepted-after-state-update"
			if newDesc {
				which = "conflicting-state-update-accepted-after-header"
			}
			if f[0] != "lc_update" && !newDesc {
				which = "conflicting-consensus-state-written-by-" + f[0]
			}
			if f[0] == "update" && pc == nil {
				which = "fork-resolution-writes-disagreeing-consensus-state"
			}
			if f[0] == "tx" {
				which = "conflicting-items-accepted-in-one-transaction"
			}
			if why := agree(cs, d, true); why != "" {
				m.violate("C09/later_conflict_rejected/"+which,
					fmt.Sprintf("r%d c%d height %d: consensus state %+v vs descriptor %+v disagree (%s) after %s", r, c, cs.H, *cs, *d, why, op))
			}
		}
	}
	if f[0] == "tx" {
		// the per-message clauses, for every message of a transaction that went through as a whole
		if res == "ok" {
			for _, sub := range c09TxSubs(op) {
				sf := strings.Fields(sub)
				m.c06(sf, parseKV(sf), "ok", prev, cur)
				m.perMsg(sf, parseKV(sf), "ok", sub, prev, cur)
				if sf[0] == "lc_misb" {
					ci, _ := m.h.clientByTok(sf[1])
					_, was := prev.C2R[ci]
					if _, is := cur.C2R[ci]; is && !was && ci < len(cur.Clients) && cur.Clients[ci].Frozen && !prev.Clients[ci].Frozen {
						m.violate("C09/misbehaviour_rejected/client-designated-and-frozen-in-one-transaction", op)
					}
				}
			}
		} else {
			m.c06(f, kv, res, prev, cur)
		}
	} else {
		m.c06(f, kv, res, prev, cur)
		m.perMsg(f, kv, res, op, prev, cur)
	}
	m.channels(op, prev, cur)
}

// perMsg: the clauses about one client message (signer_rules, nested_update_rejected, misbehaviour_rejected)
func (m *c09Mon) perMsg(f []string, kv map[string]string, res, op string, prev, cur *c09Snap) {
	switch f[0] {
	case "lc_update":
		ci, _ := m.h.clientByTok(f[1])
		r, canonical := prev.C2R[ci]
		if canonical && res == "ok" {
			// signer_rules: a header was accepted on a canonical client — every key that signed it must be a
			// bonded sequencer of that rollapp, and the header must carry the current revision
			bad := ""
			for _, v := range parseVals(kv["vals"]) {
				if !v.Signs {
					continue
				}
				if v.Actor < 0 || !prev.Bonded[v.Actor] {
					bad = "signed by an unknown or unbonded key"
				} else if prev.SeqRa[v.Actor] != r {
					bad = "signed by a sequencer of another rollapp"
				}
			}
			if bad == "" && atou(kv["rev"]) != prev.Rev[r] {
				bad = "wrong revision"
			}
			if bad != "" {
				m.violate("C09/signer_rules/accepted-header-not-of-a-bonded-sequencer-of-the-rollapp-at-current-revision", bad+": "+op)
			}
			if a := c09Actor(kv["pd"]); a >= 0 && prev.SeqRa[a] != r {
				m.r.Hit("signer/accepted-header-naming-a-proposer-of-another-rollapp")
			}
		}
		if (kv["w"] == "nested" || kv["w"] == "group") && !strings.HasPrefix(res, "ante:") {
			m.violate("C09/nested_update_rejected/nested-update-not-refused-by-ante", op+" => "+res)
		}
	case "lc_misb":
		ci, _ := m.h.clientByTok(f[1])
		if _, canonical := prev.C2R[ci]; canonical {
			if res == "ok" || res == "lc:ibc" && (kv["k"] == "submit" || kv["k"] == "viaUpdate") {
				m.violate("C09/misbehaviour_rejected/misbehaviour-against-canonical-client-not-refused", op+" => "+res)
			}
			if ci < len(cur.Clients) && cur.Clients[ci].Frozen && !prev.Clients[ci].Frozen {
				m.violate("C09/misbehaviour_rejected/canonical-client-frozen-by-misbehaviour", op)
			}
		}
	}
}

// channels: first_channel_only
func (m *c09Mon) channels(op string, prev, cur *c09Snap) {
	for r, ch := range prev.ChOf {
		if c2, ok := cur.ChOf[r]; !ok || c2 != ch {
			m.violate("C09/first_channel_only/canonical-channel-changed", fmt.Sprintf("r%d: %d -> %v by %s", r, ch, cur.ChOf[r], op))
		}
	}
	for r, ch := range cur.ChOf {
		if _, had := prev.ChOf[r]; had {
			continue
		}
		if ch >= len(cur.Chans) || !cur.Chans[ch] {
			m.violate("C09/first_channel_only/unopened-channel-became-canonical", fmt.Sprintf("r%d: channel %d is canonical but not open after %s", r, ch, op))
		}
		if c, ok := cur.R2C[r]; !ok || ch >= len(m.h.chans) || m.h.chans[ch].client != c {
			m.violate("C09/first_channel_only/channel-of-another-client", op)
		}
		for o, isOpen := range prev.Chans {
			if isOpen && o != ch && o < len(m.h.chans) && m.h.chans[o].client == cur.R2C[r] {
				if _, wasCanon := prev.R2C[r]; wasCanon {
					if m.unseenOpen[o] {
						// other root cause than the ante-write-kept findings: the earlier channel was opened by a message the decorator does not look at
						m.violate("C09/first_channel_only/later-channel-canonical-after-unseen-open", op)
					} else {
						m.violate("C09/first_channel_only/not-the-first-opened-channel", op)
					}
				}
			}
		}
	}
	// the first transfer channel OPENED over the canonical client of a rollapp without canonical channel must become canonical
	for o, isOpen := range cur.Chans {
		if !isOpen || o < len(prev.Chans) && prev.Chans[o] || o >= len(m.h.chans) {
			continue
		}
		for r, c := range prev.R2C {
			if c != m.h.chans[o].client {
				continue
			}
			if _, had := prev.ChOf[r]; had {
				continue
			}
			earlier := false
			for o2, was := range prev.Chans {
				earlier = earlier || was && o2 < len(m.h.chans) && m.h.chans[o2].client == c
			}
			if got, ok := cur.ChOf[r]; !earlier && (!ok || got != o) {
				if m.unseenOpen == nil {
					m.unseenOpen = map[int]bool{}
				}
				m.unseenOpen[o] = true
				m.violate("C09/first_channel_only/opened-channel-not-canonical",
					fmt.Sprintf("r%d: channel %d is the first channel opened over canonical client c%d but is not the rollapp's canonical channel (%s) after %s", r, o, c, pairsOf(cur.ChOf), op))
			}
		}
	}
}

// c06 evaluates C06's third clause on the implementation, independently of the model and of the module's own
// signer records: a sequencer must not withdraw (MsgUnbond / MsgDecreaseBond) while a header it signed, accepted
// into the client that is now canonical for its rollapp, is still unverified (no state update covers its height yet
// and the consensus state it produced is still in the client).
func (m *c09Mon) c06(f []string, kv map[string]string, res string, prev, cur *c09Snap) {
	if m.unv == nil {
		m.unv = map[[2]uint64]map[int]bool{}
	}
	chainRa := func(s *c09Snap, ci int) int {
		if ci < 0 || ci >= len(s.Clients) {
			return -1
		}
		return s.Clients[ci].Chain
	}
	if f[0] == "lc_update" && res == "ok" {
		ci, _ := m.h.clientByTok(f[1])
		ht := atou(kv["h"])
		ra := chainRa(cur, ci)
		if ra >= 0 && cur.cons(ci, ht) != nil && prev.cons(ci, ht) == nil && prev.desc(ra, ht) == nil {
			for _, v := range parseVals(kv["vals"]) {
				// the signer the hub can attribute the header to: the named proposer, signing, a bonded sequencer of that rollapp
				if v.Signs && v.Actor >= 0 && v.Actor == c09Actor(kv["ps"]) && prev.Bonded[v.Actor] && prev.SeqRa[v.Actor] == ra {
					k := [2]uint64{uint64(ci), ht}
					if m.unv[k] == nil {
						m.unv[k] = map[int]bool{}
					}
					m.unv[k][v.Actor] = true
					m.r.Hit("c06/optimistic-header-tracked")
					if _, canon := prev.C2R[ci]; !canon {
						m.r.Hit("c06/optimistic-header-before-designation")
					}
				}
			}
		}
	}
	for k := range m.unv {
		ci, ht := int(k[0]), k[1]
		if cur.cons(ci, ht) == nil || cur.desc(chainRa(cur, ci), ht) != nil {
			delete(m.unv, k) // rolled back, or verified by a state update
		}
	}
	if (f[0] == "unbond" || f[0] == "bond_dec") && len(f) > 1 {
		a := c09Actor(f[1])
		ra, isSeq := prev.SeqRa[a]
		if !isSeq {
			return
		}
		c, canon := prev.R2C[ra]
		if !canon {
			return
		}
		// a withdrawal: the message was accepted and the recorded bond went down (an accepted MsgUnbond of the proposer
		// only starts its notice period: nothing is paid out, the blockers are consulted when the notice has elapsed
		// and the proposer has rotated out)
		withdrew := false
		if res == "ok" {
			pt, ok1 := prev.Tokens[a]
			ct, ok2 := cur.Tokens[a]
			withdrew = ok1 && (!ok2 || ct.LT(pt))
		}
		pending := false
		for k, who := range m.unv {
			if int(k[0]) == c && who[a] && prev.cons(c, k[1]) != nil && prev.desc(ra, k[1]) == nil {
				pending = true
				if withdrew {
					m.violate("C06/withdraw/allowed-while-signed-header-unverified",
						fmt.Sprintf("%s accepted although a%d signed the header at height %d of canonical client c%d of r%d, which no state update covers yet", strings.Join(f, " "), a, k[1], c, ra))
				}
			}
		}
		if pending {
			if res == "ok" && !withdrew {
				res = "ok-proposer-notice-started"
			}
			m.r.Hit("c06/withdraw-attempt-with-unverified-header/" + res)
		}
	}
}

// ---- generator ----------------------------------------------------------------------------------

type c09Gen struct {
	g    *Rng
	h    *c09H
	r    *Run
	step int
	// C06, third clause: optimistic headers this generator had a bonded non-proposer sign on a client that was not
	// canonical at the time (generator memory, not the module's signer store): (actor, client)
	early [][2]int
}

func c09Params() coreParams {
	return coreParams{Dispute: 6, LsBlocks: 1000000, LsInterval: 1000000, MulRaw: 10000000000000000, Abs: 1, DSU: 1, DL: 1, Kick: 1000000,
		NoticeNs: int64(2 * time.Second), NActors: 5, NRollapps: 2, MinBond: 1}
}

func honestRoot(h uint64) uint64 { return h%100 + 1 }
func honestTs(h uint64) uint64   { return 10 * h }

func (c *c09Gen) raMembers(ri int) []int {
	if ri == 0 {
		return []int{0, 1, 2}
	}
	return []int{3, 4}
}

// what the generator needs to know about a rollapp, from the real state
type c09Ra struct {
	revStart   uint64
	exists     bool
	latest     uint64
	prop, succ int
	rev        uint64
	tph        uint64
	awaiting   bool
	lastFin    uint64
}

func (c *c09Gen) ra(cs *coreSnap, ri int) c09Ra {
	var out c09Ra
	if ri >= len(cs.Ras) || !cs.Ras[ri].Exists {
		return out
	}
	r := cs.Ras[ri]
	out.exists, out.prop, out.succ, out.tph = true, r.Prop, r.Succ, r.Tph
	if n := len(r.Revs); n > 0 {
		out.rev, out.revStart = r.Revs[n-1][0], r.Revs[n-1][1]
	}
	for _, st := range r.States {
		if st.Num > 0 {
			out.latest = st.Start + st.Num - 1
		}
		if st.Final {
			out.lastFin = st.Start + st.Num - 1
		}
	}
	if r.Prop >= 0 {
		if q, ok := cs.Seqs[r.Prop]; ok && q.Notice >= 0 && q.Notice <= cs.T {
			out.awaiting = true
		}
	}
	return out
}

func (c *c09Gen) updateLine(ri int, ra c09Ra, ls *c09Snap, perturb bool, last bool) string {
	g := c.g
	n := uint64(1 + g.Intn(4))
	if last && ra.rev > 0 && ra.latest+1 == ra.revStart && g.Chance(60) {
		n = 1
	}
	start := ra.latest + 1
	var roots, tss []string
	for i := uint64(0); i < n; i++ {
		ht := start + i
		root, ts := honestRoot(ht), honestTs(ht)
		if perturb {
			// disagree with an optimistic header where there is one, else anywhere
			target := uint64(g.Intn(int(n)))
			for j := uint64(0); j < n; j++ {
				if cl, ok := ls.R2C[ri]; ok && ls.cons(cl, start+j) != nil && g.Chance(70) {
					target = j
				}
			}
			if i == target {
				if g.Bool() {
					root += 100
					c.r.Hit("update/wrong-root")
				} else {
					ts += 3
					c.r.Hit("update/wrong-timestamp")
				}
			}
		}
		roots = append(roots, strconv.FormatUint(root, 10))
		tss = append(tss, strconv.FormatUint(ts, 10))
	}
	by := ra.prop
	if by < 0 {
		by = c.raMembers(ri)[0]
	}
	return fmt.Sprintf("update r%d by=a%d start=%d num=%d rev=%d last=%s bdlen=%d seqerr=- ts=all drs=1 rooterr=- roots=%s tss=%s",
		ri, by, start, n, ra.rev, b2s(last), n, strings.Join(roots, ","), strings.Join(tss, ","))
}

// nvOwner: the actor whose single-validator set a next-validators token names (-1000: none)
func nvOwner(tok uint64) int {
	switch {
	case tok == 0:
		return -1000
	case tok > 1000:
		return -1 - int(tok-1001)
	}
	return int(tok - 1)
}

func (c *c09Gen) headerLine(ci int, cs *coreSnap, ls *c09Snap) string {
	g := c.g
	cl := ls.Clients[ci]
	ri := cl.Chain
	var ra c09Ra
	if ri >= 0 {
		ra = c.ra(cs, ri)
	}
	_, canonical := ls.C2R[ci]
	// trusted consensus state: usually the latest
	if len(cl.Cons) == 0 {
		return "begin dt=1000000000"
	}
	tr := cl.Cons[len(cl.Cons)-1]
	if g.Chance(20) {
		tr = cl.Cons[g.Intn(len(cl.Cons))]
	}
	signer := nvOwner(tr.Nv)
	if signer == -1000 {
		signer = 0
	}
	ht := tr.H + 1 + uint64(g.Intn(4))
	where := "after-posted"
	if ra.exists && ht <= ra.latest {
		where = "inside-posted"
	}
	if tr.H != cl.Cons[len(cl.Cons)-1].H {
		where = "below-latest-consensus-state"
	}
	c.r.Hit("header/" + where)
	root, ts := honestRoot(ht), honestTs(ht)
	nv := uint64(signer + 1)
	if signer < 0 {
		nv = uint64(1000 + (-1 - signer) + 1)
	}
	if ra.exists && ra.prop >= 0 && canonical {
		nv = uint64(ra.prop + 1)
	}
	ps, pd := signer, signer
	rev := ra.rev
	vals := []hdrVal{{signer, 1, true}}
	tvals := []hdrVal{{signer, 1, true}}
	name := "honest"
	if g.Chance(40) {
		switch g.Intn(12) {
		case 0:
			root += 100
			name = "wrong-root"
		case 1:
			ts += 3
			name = "wrong-timestamp"
		case 2:
			nv = uint64((signer+1)%5 + 1)
			name = "wrong-next-validators"
		case 3:
			ps, pd = -1, -1
			vals = []hdrVal{{signer, 10, true}, {-1, 1, false}}
			if ht == tr.H+1 {
				ht++
			}
			root, ts = honestRoot(ht), honestTs(ht)
			name = "unknown-proposer"
		case 4:
			pd = (signer + 1) % 5
			if pd == signer {
				pd = (signer + 2) % 5
			}
			name = "proposer-fields-differ"
		case 5:
			rev++
			name = "wrong-revision"
		case 6:
			// the rollapp's own key signs, the header names a sequencer of the other rollapp as proposer
			other := c.raMembers(1 - max(ri, 0))[0]
			if g.Bool() {
				other = c.raMembers(1 - max(ri, 0))[g.Intn(2)]
			}
			vals = []hdrVal{{signer, 10, true}, {other, 1, false}}
			ps, pd = other, other
			if ri >= 0 {
				rev = c.ra(cs, 1-ri).rev
			}
			if ht == tr.H+1 {
				ht++ // a changed validator set needs a non-adjacent update
			}
			root, ts = honestRoot(ht)+100*uint64(g.Intn(2)), honestTs(ht)
			name = "proposer-of-other-rollapp"
		case 7:
			vals = []hdrVal{{(signer + 2) % 5, 1, true}}
			ps, pd = (signer+2)%5, (signer+2)%5
			name = "signed-by-untrusted-key"
		case 8:
			// an unbonded (or never bonded) member as proposer
			for _, a := range c.raMembers(max(ri, 0)) {
				if q, ok := cs.Seqs[a]; ok && !q.Bonded {
					vals = []hdrVal{{signer, 10, true}, {a, 1, false}}
					ps, pd = a, a
					if ht == tr.H+1 {
						ht++
					}
					root, ts = honestRoot(ht), honestTs(ht)
					name = "unbonded-proposer"
				}
			}
		case 9:
			nv = 0
			name = "garbage-next-validators"
		case 10:
			// a bonded non-proposer member of the same rollapp as named proposer
			for _, a := range c.raMembers(max(ri, 0)) {
				if q, ok := cs.Seqs[a]; ok && q.Bonded && a != signer {
					vals = []hdrVal{{signer, 10, true}, {a, 1, false}}
					ps, pd = a, a
					if ht == tr.H+1 {
						ht++
					}
					root, ts = honestRoot(ht), honestTs(ht)
					name = "other-member-as-proposer"
				}
			}
		case 11:
			ts = honestTs(tr.H) // not after the trusted state's time
			name = "timestamp-not-increasing"
		}
	}
	if len(vals) == 2 {
		c.r.Hit("header/validator-set-not-the-sequencer-alone")
	}
	if len(vals) == 2 && vals[0].Actor == vals[1].Actor {
		vals, ps, pd, name = []hdrVal{{signer, 1, true}}, signer, signer, "honest"
	}
	c.r.Hit("header/" + name)
	w := "top"
	switch g.Intn(20) {
	case 0:
		w = "wrapped"
	case 1, 2:
		w = "nested"
	case 3:
		w = "nestedwrapped"
	case 4:
		w = "group"
	}
	c.r.Hit("header/route-" + w)
	return fmt.Sprintf("lc_update c%d w=%s h=%d root=%d ts=%d nv=%d ps=%s pd=%s rev=%d trusted=%d vals=%s tvals=%s",
		ci, w, ht, root, ts, nv, c09ActorTok(ps), c09ActorTok(pd), rev, tr.H, valsLine(vals), valsLine(tvals))
}

// earlyHeaderLine: an honest header for a height above everything posted, on the not-yet-canonical client ci, signed
// by the trusted key (power 10) and by the bonded non-proposer member `a` (power 1) whom it names as proposer —
// the relayer order "create client, update it, then MsgSetCanonicalClient" with a sequencer that may want to leave
func (c *c09Gen) earlyHeaderLine(ci int, cs *coreSnap, ls *c09Snap, ra c09Ra) string {
	cl := ls.Clients[ci]
	if len(cl.Cons) == 0 || cl.Frozen {
		return ""
	}
	tr := cl.Cons[len(cl.Cons)-1]
	signer := nvOwner(tr.Nv)
	if signer < 0 || signer >= 5 {
		return ""
	}
	ht := max(tr.H, ra.latest) + 2 + uint64(c.g.Intn(3)) // non-adjacent: the validator set differs from the trusted one
	nv := uint64(signer + 1)
	if ra.prop >= 0 {
		nv = uint64(ra.prop + 1)
	}
	if c.g.Chance(40) {
		// the same, naming a key no sequencer registered as proposer: the hub attributes the header to nobody and
		// records no signer, yet its consensus state sits above the posted heights when the client is designated —
		// the state update that later covers the height must still be compared with it
		c.early = append(c.early, [2]int{-1, ci})
		c.r.Hit("header/early-naming-unregistered-proposer")
		return fmt.Sprintf("lc_update c%d w=top h=%d root=%d ts=%d nv=%d ps=%s pd=%s rev=%d trusted=%d vals=%s tvals=%s",
			ci, ht, honestRoot(ht), honestTs(ht), nv, c09ActorTok(-1), c09ActorTok(-1), ra.rev, tr.H,
			valsLine([]hdrVal{{signer, 10, true}, {-1, 1, false}}), valsLine([]hdrVal{{signer, 1, true}}))
	}
	a := -1
	for _, m := range c.raMembers(cl.Chain) {
		if q, ok := cs.Seqs[m]; ok && q.Bonded && m != ra.prop && m != signer {
			a = m
		}
	}
	if a < 0 {
		return ""
	}
	c.early = append(c.early, [2]int{a, ci})
	c.r.Hit("header/early-signed-by-non-proposer-member")
	return fmt.Sprintf("lc_update c%d w=top h=%d root=%d ts=%d nv=%d ps=%s pd=%s rev=%d trusted=%d vals=%s tvals=%s",
		ci, ht, honestRoot(ht), honestTs(ht), nv, c09ActorTok(a), c09ActorTok(a), ra.rev, tr.H,
		valsLine([]hdrVal{{signer, 10, true}, {a, 1, true}}), valsLine([]hdrVal{{signer, 1, true}}))
}

func (c *c09Gen) createLine(cs *coreSnap, ls *c09Snap) string {
	g := c.g
	ri := g.Intn(2)
	ra := c.ra(cs, ri)
	chain := fmt.Sprintf("r%d", ri)
	if g.Chance(8) {
		chain = "x"
		c.r.Hit("create/non-rollapp-chain")
	}
	ht := uint64(1 + g.Intn(6))
	if ra.exists && ra.latest > 0 {
		ht = 1 + uint64(g.Intn(int(ra.latest)+3))
	}
	root, ts := honestRoot(ht), honestTs(ht)
	owner := ra.prop
	if owner < 0 {
		owner = c.raMembers(ri)[0]
	}
	nv := uint64(owner + 1)
	tl, tp, ub, dr := 0, 0, 0, 0
	specs, path := "1,2", "1,2"
	if g.Chance(35) {
		switch g.Intn(14) {
		case 0:
			tl = 1
			c.r.Hit("create/trust-level")
		case 1:
			tp = 1
			c.r.Hit("create/trusting-period")
		case 2:
			ub = 1
			c.r.Hit("create/unbonding-period")
		case 3:
			dr = 1
			c.r.Hit("create/clock-drift")
		case 4:
			specs = "1"
			c.r.Hit("create/first-proof-spec-only")
		case 5:
			path = "-"
			c.r.Hit("create/empty-upgrade-path")
		case 6:
			specs, path = "1", "-"
			c.r.Hit("create/first-spec-and-empty-path")
		case 7:
			path = "1"
			c.r.Hit("create/short-upgrade-path")
		case 8:
			path = "1,3"
			c.r.Hit("create/wrong-upgrade-path")
		case 9:
			specs = "1,2,1"
			c.r.Hit("create/three-proof-specs")
		case 10:
			specs = "1,3"
			c.r.Hit("create/wrong-proof-spec")
		case 11:
			root += 100
			c.r.Hit("create/wrong-root")
		case 12:
			ts += 3
			c.r.Hit("create/wrong-timestamp")
		case 13:
			// an attacker's client: own key, bogus low consensus state, to be walked up to an agreeing one
			nv = 1001 + uint64(g.Intn(2))
			if g.Bool() {
				root += 100
			}
			c.r.Hit("create/foreign-validator-set")
		}
	}
	return fmt.Sprintf("lc_create chain=%s tl=%d tp=%d ub=%d dr=%d specs=%s path=%s h=%d root=%d ts=%d nv=%d", chain, tl, tp, ub, dr, specs, path, ht, root, ts, nv)
}

func (c *c09Gen) misbLine(ci int, ls *c09Snap) string {
	g := c.g
	cl := ls.Clients[ci]
	if len(cl.Cons) == 0 {
		return "begin dt=1000000000"
	}
	tr := cl.Cons[len(cl.Cons)-1]
	signer := nvOwner(tr.Nv)
	if signer == -1000 {
		signer = 0
	}
	ht := tr.H + 1 + uint64(g.Intn(3))
	ks := []string{"submit", "submit", "submitNested", "submitNested", "viaUpdate", "viaUpdate", "viaUpdateNested", "viaWrapped", "viaWrappedNested", "submitGroup", "viaUpdateGroup"}
	k := ks[g.Intn(len(ks))]
	c.r.Hit("misbehaviour/" + k)
	vals := []hdrVal{{signer, 1, true}}
	prop := signer
	if g.Chance(15) {
		prop = (max(signer, 0) + 1) % 5
		vals = []hdrVal{{prop, 1, true}}
		c.r.Hit("misbehaviour/not-verifying")
	}
	nv := uint64(signer + 1)
	if signer < 0 {
		nv = uint64(1000 + (-1 - signer) + 1)
	}
	return fmt.Sprintf("lc_misb c%d k=%s h=%d root=%d ts=%d nv=%d ps=%s pd=%s rev=0 trusted=%d vals=%s tvals=%s",
		ci, k, ht, honestRoot(ht), honestTs(ht), nv, c09ActorTok(prop), c09ActorTok(prop), tr.H, valsLine(vals), valsLine([]hdrVal{{signer, 1, true}}))
}

func (c *c09Gen) next(cs *coreSnap, ls *c09Snap, inBlock *bool) string {
	g := c.g
	c.step++
	if *inBlock {
		if g.Chance(35) {
			*inBlock = false
			return "end fail=-"
		}
	} else if g.Chance(25) {
		*inBlock = true
		return fmt.Sprintf("begin dt=%d", int64(time.Second)*int64(1+g.Intn(3)))
	}
	ri := g.Intn(2)
	ra := c.ra(cs, ri)
	if !ra.exists {
		return fmt.Sprintf("create_rollapp r%d minbond=1", ri)
	}
	mem := c.raMembers(ri)
	// sequencers
	for k, a := range mem {
		if _, ok := cs.Seqs[a]; !ok {
			if cs.Bal[a].IsZero() {
				return fmt.Sprintf("fund a%d amt=100000", a)
			}
			if k == 0 || g.Chance(50) {
				return fmt.Sprintf("create_seq a%d r%d bond=%d denom=ok", a, ri, 3000-1000*k)
			}
		}
	}
	if ra.latest == 0 || (ra.latest < 4 && g.Chance(60)) {
		return c.updateLine(ri, ra, ls, false, false)
	}
	if ra.tph == 0 && g.Chance(40) {
		return fmt.Sprintf("bridge r%d h=%d", ri, 1+g.Intn(int(ra.latest)))
	}
	// clients
	var mine []int
	for i, cl := range ls.Clients {
		if cl.Chain == ri {
			mine = append(mine, i)
		}
	}
	canon, hasCanon := ls.R2C[ri]
	// C06, third clause: early optimistic header -> designation -> withdrawal attempt of its signer
	if !hasCanon && len(mine) > 0 && g.Chance(6) {
		if l := c.earlyHeaderLine(mine[g.Intn(len(mine))], cs, ls, ra); l != "" {
			return l
		}
	}
	for _, e := range c.early {
		a, ci := e[0], e[1]
		if ci >= len(ls.Clients) || ls.Clients[ci].Chain != ri {
			continue
		}
		if a < 0 {
			if !hasCanon && g.Chance(10) {
				c.r.Hit("setcanon/after-early-header-of-unregistered-proposer")
				return fmt.Sprintf("lc_setcanon c%d", ci)
			}
			continue
		}
		q, ok := cs.Seqs[a]
		if !ok || !q.Bonded {
			continue
		}
		if !hasCanon && g.Chance(10) {
			c.r.Hit("setcanon/after-early-header")
			return fmt.Sprintf("lc_setcanon c%d", ci)
		}
		if hasCanon && canon == ci && a != ra.prop && g.Chance(8) {
			if g.Bool() {
				c.r.Hit("sequencer/early-signer-unbond")
				return fmt.Sprintf("unbond a%d", a)
			}
			c.r.Hit("sequencer/early-signer-bond-dec")
			return fmt.Sprintf("bond_dec a%d amt=%d", a, 1+g.Intn(500))
		}
	}
	if hasCanon && canon < len(ls.Clients) && ls.Clients[canon].Frozen && len(mine) > 1 && g.Chance(30) {
		// the window after a fork froze the canonical client: governance recovers it with another client of the chain
		sub := mine[g.Intn(len(mine))]
		c.r.Hit("admin/recover-frozen-canonical-client")
		return fmt.Sprintf("lc_recover c%d sub=c%d", canon, sub)
	}
	if len(mine) > 1 && g.Chance(2) {
		c.r.Hit("admin/recover-any")
		return fmt.Sprintf("lc_recover c%d sub=c%d", mine[g.Intn(len(mine))], mine[g.Intn(len(mine))])
	}
	if len(mine) > 0 && g.Chance(2) {
		ci := mine[g.Intn(len(mine))]
		if hasCanon && g.Bool() {
			ci = canon
		}
		chain := []string{"x", "r0", "r1"}[g.Intn(3)]
		c.r.Hit("admin/upgrade")
		return fmt.Sprintf("lc_upgrade c%d chain=%s h=%d ts=%d nv=%d", ci, chain, ls.Clients[ci].Latest+uint64(g.Intn(3)), 2000+g.Intn(50), 1+g.Intn(5))
	}
	if len(mine) > 0 && g.Chance(9) {
		if l := c.txLine(ri, ra, cs, ls, mine); l != "" {
			return l
		}
	}
	k := g.Intn(100)
	switch {
	case len(ls.Clients) < 6 && (len(mine) == 0 || k < 8):
		return c.createLine(cs, ls)
	case k < 16 && len(mine) > 0:
		ci := mine[g.Intn(len(mine))]
		if hasCanon {
			c.r.Hit("setcanon/second-attempt")
		}
		if g.Chance(5) {
			ci = 9
			c.r.Hit("setcanon/unknown-client")
		}
		return fmt.Sprintf("lc_setcanon c%d", ci)
	case k < 50 && len(mine) > 0:
		ci := mine[g.Intn(len(mine))]
		if hasCanon && g.Chance(75) {
			ci = canon
		}
		return c.headerLine(ci, cs, ls)
	case k < 66:
		if ra.prop < 0 {
			// after a fork: somebody opts in again
			for _, a := range mem {
				if q, ok := cs.Seqs[a]; ok && q.Bonded && !q.OptedIn && q.Notice < 0 {
					c.r.Hit("fork/opt-in-after-fork")
					return fmt.Sprintf("optin a%d 1", a)
				}
			}
			return fmt.Sprintf("begin dt=%d", int64(time.Second))
		}
		perturb := g.Chance(25)
		last := ra.awaiting
		firstAfterFork := ra.rev > 0 && ra.latest+1 == ra.revStart
		if firstAfterFork && !last && g.Chance(40) {
			c.r.Hit("fork/rotation-started-before-first-update-of-new-revision")
			return fmt.Sprintf("unbond a%d", ra.prop)
		}
		if last {
			c.r.Hit("rotation/last-update")
		}
		if firstAfterFork {
			c.r.Hit("fork/first-update-of-new-revision")
			if last {
				c.r.Hit("fork/first-update-of-new-revision-is-last-block-of-proposer")
			}
		}
		return c.updateLine(ri, ra, ls, perturb, last)
	case k < 72 && ra.prop >= 0 && !ra.awaiting:
		c.r.Hit("rotation/start")
		return fmt.Sprintf("unbond a%d", ra.prop)
	case k < 76:
		a := mem[g.Intn(len(mem))]
		if q, ok := cs.Seqs[a]; ok && a != ra.prop {
			if q.Bonded && g.Bool() {
				c.r.Hit("sequencer/non-proposer-unbond")
				return fmt.Sprintf("unbond a%d", a)
			}
			return fmt.Sprintf("optin a%d %d", a, g.Intn(2))
		}
		return fmt.Sprintf("begin dt=%d", int64(time.Second))
	case k < 82 && ra.tph > 0 && ra.latest > ra.lastFin:
		// fork: fraud height somewhere above the finalized heights and the bridge height
		lo := max(ra.lastFin, ra.tph) + 1
		if lo > ra.latest+1 {
			lo = ra.latest + 1
		}
		fh := lo + uint64(g.Intn(int(ra.latest+2-lo)))
		if hasCanon {
			c.r.Hit("fork/with-canonical-client")
		} else {
			c.r.Hit("fork/without-canonical-client")
		}
		return fmt.Sprintf("fraud r%d auth=gov h=%d rev=%d punish=- rewardee=-", ri, fh, ra.rev)
	case k < 88 && len(mine) > 0:
		ci := mine[g.Intn(len(mine))]
		if hasCanon && g.Chance(60) {
			ci = canon
		}
		return c.misbLine(ci, ls)
	case k < 94 && len(mine) > 0:
		ci := mine[g.Intn(len(mine))]
		if hasCanon && g.Chance(70) {
			ci = canon
		}
		return fmt.Sprintf("lc_chaninit c%d", ci)
	case len(ls.Chans) > 0:
		ch := g.Intn(len(ls.Chans))
		ibc := 1
		if g.Chance(30) {
			ibc = 0
			c.r.Hit("channel/ack-with-bad-proof")
		}
		if g.Chance(4) {
			ch = 50
		}
		w := "top"
		switch k := g.Intn(100); {
		case k < 14:
			w = "nested"
		case k < 24:
			w = "confirm"
		}
		c.r.Hit("channel/route-" + w)
		return fmt.Sprintf("lc_chanack ch%d w=%s ibc=%d", ch, w, ibc)
	}
	return c.updateLine(ri, ra, ls, false, false)
}

func c09RunTrace(t *testing.T, r *Run, lines []string, g *Rng, nOps int) {
	var h *c09H
	var mon *c09Mon
	var gen *c09Gen
	hash := sha256.New()
	accepted := 0
	inBlock := false
	var cs *coreSnap
	var ls *c09Snap
	for i := 0; ; i++ {
		var op string
		if lines != nil {
			if i >= len(lines) {
				break
			}
			op = lines[i]
		} else {
			if i > nOps {
				break
			}
			if i == 0 {
				op = c09Params().line()
			} else {
				op = gen.next(cs, ls, &inBlock)
			}
		}
		f := strings.Fields(op)
		if f[0] == "reset" {
			h = newC09H(t, parseCoreParams(op))
			mon = &c09Mon{h: h, r: r}
			gen = &c09Gen{g: g, h: h, r: r}
			mon.trace = []string{op}
			cs, ls = h.core.snapshot(), h.snapshot()
			r.Emit(op, cs.render("ok")+ls.render(h))
			mon.check(op, "ok", ls)
			continue
		}
		var res, ibc string
		if f[0] == "tx" {
			res, op = h.execTx(op) // the oracle verdicts are filled in (generated line) or checked (replayed line) per sub-op
		} else {
			res, ibc = h.exec(op)
		}
		if ibc != "" {
			// oracle: recorded on generated lines, checked on replayed ones
			kv := parseKV(f)
			if v, ok := kv["ibc"]; ok {
				if v != ibc && (res == "ok" || res == "lc:ibc") {
					res = "bad-oracle"
				}
			} else {
				op += " ibc=" + ibc
			}
		}
		mon.trace = append(mon.trace, op)
		cs, ls = h.core.snapshot(), h.snapshot()
		r.Emit(op, cs.render(res)+ls.render(h))
		mon.check(op, res, ls)
		r.Hit(f[0] + "/" + res)
		hash.Write([]byte(f[0] + "/" + res + ";"))
		if res == "ok" && f[0] != "begin" && f[0] != "end" && f[0] != "fund" {
			accepted++
		}
		if res == "blockfail" {
			mon.violate("C11/block/"+f[0]+"-failed", "Begin/EndBlocker returned an error or panicked")
		}
	}
	r.Class(fmt.Sprintf("%x", hash.Sum(nil)[:8]), accepted > 0)
	r.Trace()
}

// directed histories run before the random walks on every seed: the shortest replays of the known
// findings (so that each keeps being re-checked) and a few scripted happy paths
func c09Directed() [][]string {
	reset := c09Params().line()
	ra0 := []string{reset, "create_rollapp r0 minbond=1", "fund a0 amt=100000", "create_seq a0 r0 bond=3000 denom=ok"}
	up := func(start, n int) string {
		var roots, tss []string
		for i := 0; i < n; i++ {
			roots = append(roots, strconv.Itoa(start+i+1))
			tss = append(tss, strconv.Itoa(10*(start+i)))
		}
		return fmt.Sprintf("update r0 by=a0 start=%d num=%d rev=0 last=0 bdlen=%d seqerr=- ts=all drs=1 rooterr=- roots=%s tss=%s", start, n, n, strings.Join(roots, ","), strings.Join(tss, ","))
	}
	honest := "lc_create chain=r0 tl=0 tp=0 ub=0 dr=0 specs=1,2 path=1,2 h=2 root=3 ts=20 nv=1"
	cat := func(xs ...[]string) []string {
		var out []string
		for _, x := range xs {
			out = append(out, x...)
		}
		return out
	}
	return [][]string{
		// truncated parameter lists pass the parameter check
		cat(ra0, []string{up(1, 3), "lc_create chain=r0 tl=0 tp=0 ub=0 dr=0 specs=1 path=- h=2 root=3 ts=20 nv=1", "lc_setcanon c0"}),
		// store order of consensus states ("1-10" < "1-8"): the bogus consensus state at 8 is never looked at
		cat(ra0, []string{up(1, 8), up(9, 1), up(10, 1), "lc_create chain=r0 tl=0 tp=0 ub=0 dr=0 specs=1,2 path=1,2 h=8 root=99 ts=80 nv=1002",
			"lc_update c0 w=top h=10 root=11 ts=100 nv=1 ps=x1 pd=x1 rev=0 trusted=8 vals=x1:1:1 tvals=x1:1:1", "lc_setcanon c0"}),
		// a header that contradicts the posted descriptor, signed by the rollapp's sequencer, naming a sequencer of another rollapp as proposer
		cat(ra0, []string{"create_rollapp r1 minbond=1", "fund a3 amt=100000", "create_seq a3 r1 bond=3000 denom=ok", up(1, 4), honest, "lc_setcanon c0",
			"lc_update c0 w=top h=4 root=99 ts=40 nv=1 ps=a3 pd=a3 rev=0 trusted=2 vals=a0:10:1,a3:1:0 tvals=a0:1:1",
			"lc_update c0 w=top h=4 root=99 ts=40 nv=1 ps=a0 pd=a0 rev=0 trusted=2 vals=a0:1:1 tvals=a0:1:1"}),
		// MsgSubmitMisbehaviour inside authz.MsgExec freezes the canonical client
		cat(ra0, []string{up(1, 3), honest, "lc_setcanon c0",
			"lc_misb c0 k=submit h=4 root=5 ts=40 nv=1 ps=a0 pd=a0 rev=0 trusted=2 vals=a0:1:1 tvals=a0:1:1",
			"lc_misb c0 k=submitNested h=4 root=5 ts=40 nv=1 ps=a0 pd=a0 rev=0 trusted=2 vals=a0:1:1 tvals=a0:1:1"}),
		// a channel-open-ack with a bad proof makes a never-opened channel canonical
		cat(ra0, []string{up(1, 3), honest, "lc_setcanon c0", "lc_chaninit c0", "lc_chaninit c0", "lc_chanack ch0 ibc=0", "lc_chanack ch1 ibc=1"}),
		// fork resolution when the first update of the new revision is the proposer's last block
		cat(ra0, []string{"fund a1 amt=100000", "fund a2 amt=100000", "create_seq a1 r0 bond=2000 denom=ok", "create_seq a2 r0 bond=1000 denom=ok", up(1, 3),
			"bridge r0 h=1", honest, "lc_setcanon c0", "fraud r0 auth=gov h=3 rev=0 punish=- rewardee=-", "optin a1 1", "optin a2 1", "unbond a1",
			"begin dt=3000000000", "end fail=-",
			"update r0 by=a1 start=3 num=1 rev=1 last=1 bdlen=1 seqerr=- ts=all drs=1 rooterr=- roots=4 tss=30"}),
		// C06, third clause: the bonded non-proposer a1 signs an optimistic header (height 5, heights 1..3 posted) that is accepted
		// into the client BEFORE the client is designated canonical; after the designation a1 can neither unbond nor
		// decrease its bond until a state update reaches height 5
		cat(ra0, []string{"fund a1 amt=100000", "create_seq a1 r0 bond=2000 denom=ok", up(1, 3), honest,
			"lc_update c0 w=top h=5 root=6 ts=50 nv=1 ps=a1 pd=a1 rev=0 trusted=2 vals=a0:10:1,a1:1:1 tvals=a0:1:1",
			"lc_setcanon c0", "unbond a1", "bond_dec a1 amt=100", up(4, 1), "unbond a1", up(5, 2), "bond_dec a1 amt=100", "unbond a1"}),
		// a consensus state nobody is recorded as signer of (the header names a key no sequencer registered) sits above the
		// posted heights when the client is designated; the state update covering it disagrees and must be refused
		cat(ra0, []string{up(1, 3), honest,
			"lc_update c0 w=top h=5 root=6 ts=50 nv=1 ps=x1 pd=x1 rev=0 trusted=2 vals=a0:10:1,x1:1:0 tvals=a0:1:1", "lc_setcanon c0",
			"update r0 by=a0 start=4 num=3 rev=0 last=0 bdlen=3 seqerr=- ts=all drs=1 rooterr=- roots=5,99,7 tss=40,50,60", up(4, 3)}),
		// ONE transaction [MsgUpdateState(heights 4..5), MsgUpdateClient(header for 5 with another root)]: the ante handler sees the
		// header before the state update exists (optimistic), the hook sees the state update before the consensus state exists
		cat(ra0, []string{up(1, 3), honest, "lc_setcanon c0",
			"tx " + up(4, 2) + " ;; lc_update c0 w=top h=5 root=99 ts=50 nv=1 ps=a0 pd=a0 rev=0 trusted=2 vals=a0:1:1 tvals=a0:1:1",
			up(6, 1), "begin dt=1000000000", "end fail=-"}),
		// the same with the header for a height inside the batch
		cat(ra0, []string{up(1, 3), honest, "lc_setcanon c0",
			"tx " + up(4, 2) + " ;; lc_update c0 w=top h=4 root=99 ts=40 nv=1 ps=a0 pd=a0 rev=0 trusted=2 vals=a0:1:1 tvals=a0:1:1", up(6, 1)}),
		// ONE transaction [MsgSetCanonicalClient, MsgUpdateClient(header for the posted height 3 with another root, signed by the sequencer
		// a0 with power 10 and naming the unregistered key x1 as proposer)]: the ante handler sees a client that is not canonical and a
		// proposer that is no sequencer (nothing to check), the designation then succeeds, the header then gets into the canonical client
		cat(ra0, []string{up(1, 3), "lc_create chain=r0 tl=0 tp=0 ub=0 dr=0 specs=1,2 path=1,2 h=1 root=2 ts=10 nv=1",
			"tx lc_setcanon c0 ;; lc_update c0 w=top h=3 root=99 ts=30 nv=1 ps=x1 pd=x1 rev=0 trusted=1 vals=a0:10:1,x1:1:0 tvals=a0:1:1"}),
		// ONE transaction [MsgSetCanonicalClient, MsgSubmitMisbehaviour]: the client is designated and frozen
		cat(ra0, []string{up(1, 3), honest,
			"tx lc_setcanon c0 ;; lc_misb c0 k=submit h=4 root=5 ts=40 nv=1 ps=a0 pd=a0 rev=0 trusted=2 vals=a0:1:1 tvals=a0:1:1"}),
		// mirrored order: the header first — the hook of the state update then finds the consensus state and refuses, the transaction is atomic
		cat(ra0, []string{up(1, 3), honest, "lc_setcanon c0",
			"tx lc_update c0 w=top h=5 root=99 ts=50 nv=1 ps=a0 pd=a0 rev=0 trusted=2 vals=a0:1:1 tvals=a0:1:1 ;; " + up(4, 2), up(4, 2)}),
		// a header contradicting the posted descriptor of height 3, and evidence, inside an x/group proposal that is only stored at
		// submission (Exec unspecified) and would run on a later vote with Exec = TRY: the submitting transaction is refused
		cat(ra0, []string{up(1, 3), honest, "lc_setcanon c0",
			"lc_update c0 w=group h=3 root=99 ts=30 nv=1 ps=a0 pd=a0 rev=0 trusted=2 vals=a0:1:1 tvals=a0:1:1",
			"lc_misb c0 k=submitGroup h=4 root=5 ts=40 nv=1 ps=a0 pd=a0 rev=0 trusted=2 vals=a0:1:1 tvals=a0:1:1",
			"lc_misb c0 k=viaUpdateGroup h=4 root=5 ts=40 nv=1 ps=a0 pd=a0 rev=0 trusted=2 vals=a0:1:1 tvals=a0:1:1",
			"lc_update c0 w=group h=5 root=6 ts=50 nv=1 ps=a0 pd=a0 rev=0 trusted=2 vals=a0:1:1 tvals=a0:1:1"}),
		// a fork freezes the canonical client; governance recovers it with a client of another chain that carries a bogus consensus
		// state at the posted height 3 and another trusting period; an upgrade with a non-verifying proof before and after
		cat(ra0, []string{up(1, 5), "bridge r0 h=1", honest, "lc_setcanon c0",
			"lc_create chain=x tl=0 tp=1 ub=0 dr=0 specs=1,2 path=1,2 h=3 root=99 ts=30 nv=1001",
			"lc_upgrade c0 chain=x h=9 ts=2000 nv=2", "lc_recover c0 sub=c1", "fraud r0 auth=gov h=5 rev=0 punish=- rewardee=-",
			"lc_upgrade c0 chain=x h=9 ts=2000 nv=2", "lc_recover c0 sub=c1", "lc_recover c0 sub=c7", "lc_recover c1 sub=c0", "lc_upgrade c7 chain=r1 h=9 ts=2000 nv=2"}),
		// the first channel over the canonical client is opened by an ack inside authz.MsgExec / by MsgChannelOpenConfirm: it does not
		// become canonical, the next channel acknowledged at top level does
		cat(ra0, []string{up(1, 3), honest, "lc_setcanon c0", "lc_chaninit c0", "lc_chaninit c0", "lc_chanack ch0 w=nested ibc=1", "lc_chanack ch1 w=top ibc=1"}),
		cat(ra0, []string{up(1, 3), honest, "lc_setcanon c0", "lc_chaninit c0", "lc_chaninit c0", "lc_chanack ch0 w=confirm ibc=1", "lc_chanack ch1 w=top ibc=1"}),
		cat(ra0, []string{up(1, 3), honest, "lc_setcanon c0", "lc_chaninit c0", "lc_chanack ch0 w=nested ibc=0", "lc_chanack ch7 w=nested ibc=1", "lc_chanack ch7 w=confirm ibc=1", "lc_chanack ch0 w=confirm ibc=0", "lc_chanack ch0 w=top ibc=1"}),
		// happy path: designation, honest optimistic header, agreeing state update, channel
		cat(ra0, []string{up(1, 3), honest, "lc_setcanon c0",
			"lc_update c0 w=top h=5 root=6 ts=50 nv=1 ps=a0 pd=a0 rev=0 trusted=2 vals=a0:1:1 tvals=a0:1:1", up(4, 3),
			"lc_chaninit c0", "lc_chanack ch0 ibc=1"}),
	}
}

func TestC09(t *testing.T) {
	r := NewRun(t, "C09")
	defer r.Close()
	if lines := ReplayLines(); lines != nil {
		c09RunTrace(t, r, lines, NewRng(1), 0)
		return
	}
	for _, script := range c09Directed() {
		c09RunTrace(t, r, script, NewRng(1), 0)
	}
	nTraces, nOps := r.N(120, 1500), r.N(110, 140)
	for tr := 0; tr < nTraces; tr++ {
		c09RunTrace(t, r, nil, ibcTraceRng(r.Seed, tr), nOps)
	}
}

var _ = math.NewInt
