package harness

// C09 — several messages in ONE transaction.  An op line
//
//	tx <sub-op> ;; <sub-op> ;; …
//
// carries sub-ops of the kinds `update`, `lc_update`, `lc_misb`, `lc_chanack` (ibc=0 only), `lc_setcanon`
// written exactly like the stand-alone op lines.  All messages go into one signed transaction that runs through
// the production ante handler (every decorator sees ALL messages before ANY message executes; the ante writes
// persist when the ante chain succeeds) and then through the message router in order, atomically (baseapp's two
// cache contexts, ibc_util.go runTxAt).
//
// MsgUpdateState must be signed by the sequencer's account, whose key the fixture does not have (core actors
// are bare addresses): it travels as authz.MsgExec{MsgUpdateState} of the relayer, under a generic authz grant
// from the sequencer's account to the relayer for exactly that message type (written into the authz store, it
// stands for a MsgGrant of the sequencer).  Neither authz.MsgExec nor MsgUpdateState is looked at by the nested
// message filter or by the light-client decorator, so the ante phase of such a message is the same as that of a
// top-level MsgUpdateState.

import (
	"fmt"
	"os"
	"strings"

	sdk "github.com/cosmos/cosmos-sdk/types"
	"github.com/cosmos/cosmos-sdk/x/authz"
	clienttypes "github.com/cosmos/ibc-go/v8/modules/core/02-client/types"
	channeltypes "github.com/cosmos/ibc-go/v8/modules/core/04-channel/types"
	ibctm "github.com/cosmos/ibc-go/v8/modules/light-clients/07-tendermint"

	lctypes "github.com/dymensionxyz/dymension/v3/x/lightclient/types"
	rollapptypes "github.com/dymensionxyz/dymension/v3/x/rollapp/types"
)

const c09TxSep = ";;"

// c09TxSubs splits a `tx` line into its sub-op lines
func c09TxSubs(line string) []string {
	rest := strings.TrimSpace(strings.TrimPrefix(strings.TrimSpace(line), "tx"))
	var out []string
	for _, s := range strings.Split(rest, c09TxSep) {
		if s = strings.TrimSpace(s); s != "" {
			out = append(out, s)
		}
	}
	return out
}

func c09TxJoin(subs []string) string { return "tx " + strings.Join(subs, " "+c09TxSep+" ") }

func (h *c09H) updateStateMsg(f []string, m map[string]string) *rollapptypes.MsgUpdateState {
	_, id := h.core.rollapp(f[1])
	_, a := h.core.actor(m["by"])
	roots, tss := uList(m["roots"]), strings.Split(m["tss"], ",")
	var bds rollapptypes.BlockDescriptors
	start := atou(m["start"])
	for i, r := range roots {
		bd := rollapptypes.BlockDescriptor{Height: start + uint64(i), StateRoot: ibcRoot(r), DrsVersion: uint32(atou(m["drs"]))}
		if i < len(tss) && tss[i] != "-" && tss[i] != "" {
			bd.Timestamp = c09Time(atou(tss[i]))
		}
		bds.BD = append(bds.BD, bd)
	}
	return &rollapptypes.MsgUpdateState{Creator: a.String(), RollappId: id, StartHeight: start, NumBlocks: atou(m["num"]), DAPath: "",
		BDs: bds, RollappRevision: atou(m["rev"]), Last: m["last"] == "1"}
}

// grantUpdateState: the sequencer account `granter` lets the relayer send MsgUpdateState on its behalf
func (h *c09H) grantUpdateState(granter sdk.AccAddress) {
	a := h.e.f.App
	url := sdk.MsgTypeURL(&rollapptypes.MsgUpdateState{})
	if auth, _ := a.AuthzKeeper.GetAuthorization(h.e.f.Ctx, h.e.relayer, granter, url); auth != nil {
		return
	}
	if err := a.AuthzKeeper.SaveGrant(h.e.f.Ctx, h.e.relayer, granter, authz.NewGenericAuthorization(url), nil); err != nil {
		h.t.Fatal(err)
	}
}

func (h *c09H) chainOfClient(ci int) string {
	if ci >= 0 && ci < len(h.clients) && h.clients[ci].chain >= 0 {
		return h.core.rollapps[h.clients[ci].chain]
	}
	return "plainchain-1"
}

// wrapRoute applies one of the four routes to an ibc client message
func (h *c09H) wrapRoute(w string, inner sdk.Msg) sdk.Msg {
	msg := inner
	switch w {
	case "wrapped", "nestedwrapped":
		if u, ok := inner.(*clienttypes.MsgUpdateClient); ok {
			msg = &lctypes.MsgUpdateClient{Inner: u}
		}
	}
	if w == "nested" || w == "nestedwrapped" {
		msg = h.msgExec(msg)
	}
	return msg
}

// txMsg builds the message of one sub-op; ok=false: the sub-op cannot travel in a tx line
func (h *c09H) txMsg(sub string) (msg sdk.Msg, ok bool) {
	f := strings.Fields(sub)
	m := parseKV(f)
	switch f[0] {
	case "update":
		u := h.updateStateMsg(f, m)
		if u.ValidateBasic() != nil {
			return nil, false // stateless failures are refused before the ante handler: not this op's subject
		}
		h.grantUpdateState(sdk.MustAccAddressFromBech32(u.Creator))
		x := authz.NewMsgExec(h.e.relayer, []sdk.Msg{u})
		return &x, true
	case "lc_update":
		if m["w"] == "group" {
			return nil, false // the stored-proposal route is two transactions (submit, vote): stand-alone op only
		}
		ci, cid := h.clientByTok(f[1])
		hd := h.hdrFromLine(h.chainOfClient(ci), m, atou(m["root"]))
		inner, err := clienttypes.NewMsgUpdateClient(cid, hd, h.e.relayer.String())
		if err != nil {
			h.t.Fatal(err)
		}
		return h.wrapRoute(m["w"], inner), true
	case "lc_misb":
		if strings.HasSuffix(m["k"], "Group") {
			return nil, false
		}
		ci, cid := h.clientByTok(f[1])
		chain := h.chainOfClient(ci)
		mb := ibctm.NewMisbehaviour(cid, h.hdrFromLine(chain, m, atou(m["root"])), h.hdrFromLine(chain, m, atou(m["root"])+1))
		var inner sdk.Msg
		var err error
		if strings.HasPrefix(m["k"], "submit") {
			inner, err = clienttypes.NewMsgSubmitMisbehaviour(cid, mb, h.e.relayer.String()) //nolint:staticcheck
		} else {
			inner, err = clienttypes.NewMsgUpdateClient(cid, mb, h.e.relayer.String())
		}
		if err != nil {
			h.t.Fatal(err)
		}
		w := map[string]string{"submit": "top", "submitNested": "nested", "viaUpdate": "top", "viaUpdateNested": "nested", "viaWrapped": "wrapped", "viaWrappedNested": "nestedwrapped"}[m["k"]]
		return h.wrapRoute(w, inner), true
	case "lc_chanack":
		if m["ibc"] != "0" || (m["w"] != "" && m["w"] != "top") {
			return nil, false // a verifying handshake proof needs a counterparty chain; only the failing top-level ack travels in a tx
		}
		chID := "channel-" + strings.TrimPrefix(f[1], "ch")
		return channeltypes.NewMsgChannelOpenAck("transfer", chID, "channel-77", "ics20-1", []byte("proof"), clienttypes.NewHeight(1, 1), h.e.relayer.String()), true
	case "lc_setcanon":
		_, cid := h.clientByTok(f[1])
		return &lctypes.MsgSetCanonicalClient{Signer: h.e.relayer.String(), ClientId: cid}, true
	}
	return nil, false
}

func c09SetCanonClass(err error) string {
	switch {
	case err == nil:
		return "ok"
	case IsPanic(err):
		return "lc:paramsPanic"
	case strings.Contains(err.Error(), "not found: client") || strings.Contains(err.Error(), "client: not found"):
		return "lc:notFound"
	case strings.Contains(err.Error(), "rollapp: not found") || strings.Contains(err.Error(), "not found: rollapp"):
		return "lc:rollappNotFound"
	case strings.Contains(err.Error(), "canonical client for rollapp"):
		return "lc:alreadyExists"
	case strings.Contains(err.Error(), "params"):
		return "lc:params"
	case strings.Contains(err.Error(), "latest state info index"):
		return "lc:noState"
	case strings.Contains(err.Error(), "not at least one cons state matches"):
		return "lc:noMatch"
	}
	if c := c09LcClass(err); c != "" {
		return "lc:" + c
	}
	return "lc:other"
}

// c09MsgClass classifies the failure of the message of sub-op kind `kind` in the message phase
func c09MsgClass(kind string, err error) string {
	switch kind {
	case "update":
		if c := c09LcClass(err); c != "" {
			return "lc:" + c
		}
		return coreUpdClass(err)
	case "lc_setcanon":
		return c09SetCanonClass(err)
	}
	if c := c09LcClass(err); c != "" {
		return "lc:" + c
	}
	if strings.Contains(err.Error(), "light client not found") || strings.Contains(err.Error(), "cannot update client") && strings.Contains(err.Error(), "not found") {
		return "lc:notFound"
	}
	return "lc:ibc"
}

// execTx runs a `tx` line.  Returns the result class and the line with the oracle verdicts (`ibc=`) filled in on
// the sub-ops that have one: 1 for a message that executed, 0 for the one that failed and for those never reached.
func (h *c09H) execTx(line string) (res string, outLine string) {
	subs := c09TxSubs(line)
	if len(subs) == 0 {
		return "bad-op", line
	}
	var msgs []sdk.Msg
	var kinds []string
	for _, s := range subs {
		msg, ok := h.txMsg(s)
		if !ok {
			return "bad-op", line
		}
		msgs = append(msgs, msg)
		kinds = append(kinds, strings.Fields(s)[0])
	}
	ae, me, at := h.e.runTxAt(msgs...)
	if os.Getenv("C09_DEBUG") != "" {
		fmt.Fprintln(os.Stderr, "DEBUG tx ante:", ae, "msg:", me, "at:", at)
	}
	switch {
	case ae != nil:
		res = "ante:other"
		if c := c09LcClass(ae); c != "" {
			res = "ante:" + c
		} else {
			for _, k := range kinds {
				if k == "lc_chanack" {
					res = "ante:chanUnknown" // as for the stand-alone op: GetChannelConnection failed
				}
			}
		}
		at = 0
	case me != nil:
		res = c09MsgClass(kinds[at], me)
	default:
		res = "ok"
		at = len(subs)
	}
	// oracle verdicts
	mismatch := false
	for i, s := range subs {
		k := kinds[i]
		if k != "lc_update" && k != "lc_misb" {
			continue
		}
		v := "0"
		if ae == nil && i < at {
			v = "1"
		}
		kv := parseKV(strings.Fields(s))
		if old, ok := kv["ibc"]; ok {
			// replayed line: the recorded verdict of a message that executed, or that failed in 07-tendermint, must be the real one
			if old != v && ae == nil && (i < at || i == at && res == "lc:ibc") {
				mismatch = true
			}
		} else {
			subs[i] = s + " ibc=" + v
		}
	}
	if mismatch {
		res = "bad-oracle"
	}
	return res, c09TxJoin(subs)
}

// ---- generator --------------------------------------------------------------------------------------

// hdrAt: a header line for height ht on client ci, signed by the key the highest consensus state below ht trusts
// (that key alone is the validator set, so on a canonical client the hub attributes the header to that sequencer)
func (c *c09Gen) hdrAt(ci int, ht uint64, root uint64, cs *coreSnap, ls *c09Snap, w string) string {
	cl := ls.Clients[ci]
	var tr *c09Cons
	for i := range cl.Cons {
		if cl.Cons[i].H < ht {
			tr = &cl.Cons[i]
		}
	}
	if tr == nil {
		return ""
	}
	signer := nvOwner(tr.Nv)
	if signer == -1000 {
		return ""
	}
	nv := tr.Nv
	rev := uint64(0)
	if cl.Chain >= 0 {
		ra := c.ra(cs, cl.Chain)
		rev = ra.rev
		if _, canonical := ls.C2R[ci]; canonical && ra.prop >= 0 {
			nv = uint64(ra.prop + 1)
		}
	}
	v := valsLine([]hdrVal{{signer, 1, true}})
	return fmt.Sprintf("lc_update c%d w=%s h=%d root=%d ts=%d nv=%d ps=%s pd=%s rev=%d trusted=%d vals=%s tvals=%s",
		ci, w, ht, root, honestTs(ht), nv, c09ActorTok(signer), c09ActorTok(signer), rev, tr.H, v, v)
}

// txLine: several messages in one transaction ("" = nothing to say in this state)
func (c *c09Gen) txLine(ri int, ra c09Ra, cs *coreSnap, ls *c09Snap, mine []int) string {
	g := c.g
	canon, hasCanon := ls.R2C[ri]
	ci := mine[g.Intn(len(mine))]
	if hasCanon && g.Chance(80) {
		ci = canon
	}
	route := func() string {
		if g.Chance(12) {
			return []string{"wrapped", "nested", "nestedwrapped"}[g.Intn(3)]
		}
		return "top"
	}
	name, subs := "", []string(nil)
	switch g.Intn(9) {
	case 0, 1, 2:
		// a state update and a header for one of its heights, in either order, agreeing or not
		if ra.prop < 0 {
			return ""
		}
		up := c.updateLine(ri, ra, ls, false, ra.awaiting)
		n := atou(parseKV(strings.Fields(up))["num"])
		ht := ra.latest + 1 + uint64(g.Intn(int(n)))
		where := "inside-the-batch"
		if ht == ra.latest+n {
			where = "last-block-of-the-batch"
		}
		root := honestRoot(ht)
		kind := "agreeing"
		if g.Chance(65) {
			root += 100
			kind = "conflicting"
		}
		hd := c.hdrAt(ci, ht, root, cs, ls, "top")
		if hd == "" {
			return ""
		}
		if g.Chance(60) {
			name, subs = "state-update-then-"+kind+"-header/"+where, []string{up, hd}
		} else {
			name, subs = kind+"-header-then-state-update/"+where, []string{hd, up}
		}
	case 3:
		// one message: the split into ante part and message part must be the stand-alone op
		switch g.Intn(4) {
		case 0:
			if ra.prop < 0 {
				return ""
			}
			subs = []string{c.updateLine(ri, ra, ls, g.Chance(25), ra.awaiting)}
		case 1:
			subs = []string{c.headerLine(ci, cs, ls)}
		case 2:
			subs = []string{c.misbLine(ci, ls)}
		case 3:
			subs = []string{fmt.Sprintf("lc_setcanon c%d", ci)}
		}
		name = "single-message"
	case 4:
		// two headers: the second trusts the consensus state the first one is about to write
		h1 := c.headerLine(ci, cs, ls)
		h2 := c.headerLine(ci, cs, ls)
		subs, name = []string{h1, h2}, "two-headers"
	case 5:
		// two failing acks for two channels: the second ante check sees the first ante write
		if len(ls.Chans) < 1 {
			return ""
		}
		a, b := g.Intn(len(ls.Chans)), g.Intn(len(ls.Chans))
		subs, name = []string{fmt.Sprintf("lc_chanack ch%d ibc=0", a), fmt.Sprintf("lc_chanack ch%d ibc=0", b)}, "two-acks"
		if g.Bool() {
			subs[1] = c.headerLine(ci, cs, ls)
			name = "ack-then-header"
		}
	case 6:
		// designation and a header in one transaction: the ante handler sees a client that is not canonical yet
		ht := ra.latest + 1
		if g.Bool() && ra.latest > 1 {
			ht = 1 + uint64(g.Intn(int(ra.latest)))
		}
		root := honestRoot(ht)
		if g.Bool() {
			root += 100
		}
		hd := c.hdrAt(ci, ht, root, cs, ls, route())
		if hd == "" {
			return ""
		}
		subs, name = []string{fmt.Sprintf("lc_setcanon c%d", ci), hd}, "designation-then-header"
		if g.Chance(30) {
			subs, name = []string{hd, fmt.Sprintf("lc_setcanon c%d", ci)}, "header-then-designation"
		}
	case 7:
		subs, name = []string{c.headerLine(ci, cs, ls), c.misbLine(ci, ls)}, "header-then-misbehaviour"
		if g.Bool() {
			subs[0], subs[1] = subs[1], subs[0]
			name = "misbehaviour-then-header"
		}
	case 8:
		// three messages: header, state update, header
		if ra.prop < 0 {
			return ""
		}
		up := c.updateLine(ri, ra, ls, g.Chance(20), ra.awaiting)
		subs, name = []string{c.headerLine(ci, cs, ls), up, c.headerLine(ci, cs, ls)}, "header-update-header"
	}
	if g.Chance(22) {
		// designation first, then a message whose ante check has just treated the client as NOT canonical
		if _, isCanon := ls.C2R[ci]; !isCanon || g.Chance(10) {
			if g.Bool() {
				// a header for a posted height, signed by the trusted key (power 10) and naming a key no sequencer registered as proposer
				cl := ls.Clients[ci]
				if len(cl.Cons) > 0 && ra.latest >= cl.Cons[0].H+2 {
					tr := cl.Cons[0]
					signer := nvOwner(tr.Nv)
					ht := tr.H + 2 + uint64(g.Intn(int(ra.latest-tr.H-1)))
					root := honestRoot(ht)
					if g.Chance(70) {
						root += 100
					}
					if signer >= 0 && cl.Cons[len(cl.Cons)-1].H < ht {
						hd := fmt.Sprintf("lc_update c%d w=top h=%d root=%d ts=%d nv=%d ps=x1 pd=x1 rev=%d trusted=%d vals=%s tvals=%s",
							ci, ht, root, honestTs(ht), tr.Nv, ra.rev, tr.H, valsLine([]hdrVal{{signer, 10, true}, {-2, 1, false}}), valsLine([]hdrVal{{signer, 1, true}}))
						subs, name = []string{fmt.Sprintf("lc_setcanon c%d", ci), hd}, "designation-then-header-naming-unregistered-proposer"
					}
				}
			} else {
				subs, name = []string{fmt.Sprintf("lc_setcanon c%d", ci), c.misbLine(ci, ls)}, "designation-then-misbehaviour"
			}
		}
	}
	for _, s := range subs {
		if s == "" || strings.HasPrefix(s, "begin") {
			return ""
		}
	}
	if len(subs) == 0 {
		return ""
	}
	c.r.Hit("tx/" + name)
	return c09TxJoin(subs)
}
