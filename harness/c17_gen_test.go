package harness

// C17 generator and test entry point.

import (
	"crypto/sha256"
	"fmt"
	"math/big"
	"sort"
	"strconv"
	"strings"
	"testing"

	dymnstypes "github.com/dymensionxyz/dymension/v3/x/dymns/types"
)

var e18 = new(big.Int).Exp(big.NewInt(10), big.NewInt(18), nil)

func amt(k int64, plus int64) *big.Int {
	x := new(big.Int).Mul(big.NewInt(k), e18)
	return x.Add(x, big.NewInt(plus))
}

type c17gen struct {
	h *c17h
	g *Rng
	s *c17snap
	p dymnstypes.Params

	queue []c17step // follow-up script in progress (c17_directed_test.go)
}

func (c *c17gen) acct() int { return c.g.Intn(c.h.nA) }
func (c *c17gen) other(a int) int {
	if c.h.nA < 2 {
		return a
	}
	b := c.g.Intn(c.h.nA - 1)
	if b >= a {
		b++
	}
	return b
}
func (c *c17gen) name() int  { return c.g.Intn(c.h.nN) }
func (c *c17gen) alias() int { return c.g.Intn(c.h.nL) }
func (c *c17gen) id(s string) int {
	if v, ok := c.h.acctID[s]; ok {
		return v
	}
	return 0
}

func (c *c17gen) sortedNames() []int {
	var l []int
	for i := range c.s.names {
		l = append(l, i)
	}
	sort.Ints(l)
	return l
}

func pick[T any](g *Rng, l []T) (T, bool) {
	var z T
	if len(l) == 0 {
		return z, false
	}
	return l[g.Intn(len(l))], true
}

// amounts around the interesting thresholds of the current state
func (c *c17gen) amount(around ...*big.Int) string {
	pool := []*big.Int{big.NewInt(0), amt(1, 0), amt(2, 0), amt(3, 7), amt(5, 0), amt(10, 0), amt(25, 1), c.p.Price.MinOfferPrice.BigInt()}
	for _, x := range around {
		if x == nil {
			continue
		}
		pool = append(pool, x, new(big.Int).Add(x, big.NewInt(1)))
		if x.Sign() > 0 {
			pool = append(pool, new(big.Int).Sub(x, big.NewInt(1)))
		}
	}
	if len(around) > 0 && c.g.Chance(75) {
		return pool[8+c.g.Intn(len(pool)-8)].String()
	}
	return pool[c.g.Intn(len(pool))].String()
}

// an offer at or above the threshold lo (and not above hi when hi is set) if valid, else a perturbed one
func (c *c17gen) offerAmt(valid bool, lo, hi *big.Int) string {
	if !valid || lo == nil {
		return c.amount(lo, hi)
	}
	cand := []*big.Int{lo, new(big.Int).Add(lo, big.NewInt(1)), new(big.Int).Add(lo, amt(1, 0))}
	if hi != nil {
		cand = append(cand, hi, hi)
	}
	x := cand[c.g.Intn(len(cand))]
	if hi != nil && x.Cmp(hi) > 0 {
		x = hi
	}
	return x.String()
}

func (c *c17gen) liveNames() []int {
	var l []int
	for _, i := range c.sortedNames() {
		if !c.s.expired(c.s.names[i]) {
			l = append(l, i)
		}
	}
	return l
}

func (c *c17gen) regCost(n, a, dur int) *big.Int {
	ext := c.p.Price.PriceExtends.BigInt()
	first := c.p.Price.GetFirstYearDymNamePrice(c17Name(n)).BigInt()
	d, ok := c.s.names[n]
	if ok && d.Owner == c17Acct(a) {
		return new(big.Int).Mul(ext, big.NewInt(int64(dur)))
	}
	x := new(big.Int).Mul(ext, big.NewInt(int64(dur-1)))
	return x.Add(x, first)
}

func (c *c17gen) minNextBid(so dymnstypes.SellOrder) *big.Int {
	if so.HighestBid == nil {
		return so.MinPrice.Amount.BigInt()
	}
	b := so.HighestBid.Price.Amount.BigInt()
	inc := new(big.Int).Mul(b, big.NewInt(int64(c.p.Price.MinBidIncrementPercent)))
	inc.Quo(inc, big.NewInt(100))
	want := new(big.Int).Add(b, inc)
	if inc.Sign() == 0 {
		want.Add(b, big.NewInt(1))
	}
	return want
}

// rollapps owned by account a
func (c *c17gen) rollappsOf(a int) []int {
	var l []int
	for k := 1; k <= c.h.nR; k++ {
		if r, ok := c.s.rolls[k]; ok && r.Owner == c17Acct(a) {
			l = append(l, k)
		}
	}
	return l
}

func (c *c17gen) anyRollapp() int { return 1 + c.g.Intn(c.h.nR) }

func (c *c17gen) boIDs() []string {
	var l []string
	for id := range c.s.bos {
		l = append(l, id)
	}
	sort.Strings(l)
	return l
}

// next produces one state-changing op line from the current real state.
func (c *c17gen) next() string {
	g := c.g
	valid := g.Chance(72)
	w := []struct {
		k string
		w int
	}{{"reg", 15}, {"xfer", 4}, {"ctrl", 3}, {"ura", 10}, {"det", 3}, {"sell", 9}, {"csell", 2}, {"comp", 6}, {"buy", 13},
		{"offer", 9}, {"cbo", 3}, {"abo", 6}, {"rollapp", 3}, {"alias", 2}, {"adv", 9}, {"trade", 1}, {"fund", 2}, {"resv", 1},
		{"xferra", 2}, {"mig", 2}, {"ualias", 1}, {"setp", 1}}
	tot := 0
	for _, x := range w {
		tot += x.w
	}
	s := c.s
	names := c.sortedNames()
	if live := c.liveNames(); len(live) > 0 && g.Chance(85) {
		names = live
	}
	draw := func() string {
		r := g.Intn(tot)
		for _, x := range w {
			if r < x.w {
				return x.k
			}
			r -= x.w
		}
		return "adv"
	}
	hasBid := false
	for _, so := range s.nameSO {
		hasBid = hasBid || so.HighestBid != nil
	}
	for _, so := range s.alSO {
		hasBid = hasBid || so.HighestBid != nil
	}
	feasible := func(k string) bool {
		switch k {
		case "xfer", "ctrl", "ura", "det", "sell", "offer":
			return len(names) > 0
		case "csell", "buy":
			return len(s.nameSO)+len(s.alSO) > 0
		case "comp":
			return hasBid
		case "cbo", "abo":
			return len(s.bos) > 0
		case "rollapp":
			return len(s.rolls) < c.h.nR
		case "alias", "xferra":
			return len(s.rolls) > 0
		}
		return true
	}
	kind := draw()
	for try := 0; valid && !feasible(kind) && try < 8; try++ {
		kind = draw()
	}
	switch kind {
	case "xferra":
		// x/rollapp MsgTransferOwnership: prefer RollApps whose aliases have open sell orders / offers
		ch := c.anyRollapp()
		var busy []int
		for l := range s.alSO {
			if r, ok := s.alias[l]; ok {
				busy = append(busy, r)
			}
		}
		sort.Ints(busy)
		if v, ok := pick(g, busy); ok && g.Chance(70) {
			ch = v
		}
		a := c.acct()
		if r, ok := s.rolls[ch]; ok && valid {
			a = c.id(r.Owner)
		}
		b := c.other(a)
		if !valid && g.Chance(25) {
			b = a
		}
		return fmt.Sprintf("xferra %d %d %d", a, ch, b)
	case "mig":
		// MigrateChainIdsProposal: chain-ids that occur in configs / params, onto fresh, used and host ids
		var used []int
		seen := map[int]bool{}
		for _, i := range c.sortedNames() {
			for _, cf := range s.names[i].Configs {
				if cf.ChainId != "" {
					if id, ok := c.h.chainID[cf.ChainId]; ok && !seen[id] {
						seen[id] = true
						used = append(used, id)
					}
				}
			}
		}
		all := []int{0, 100, 101, 102, 103}
		for k := 1; k <= c.h.nR; k++ {
			all = append(all, k)
		}
		n := 1 + g.Intn(2)
		var pairs []string
		taken := map[int]bool{}
		for i := 0; i < n; i++ {
			prev := all[g.Intn(len(all))]
			if v, ok := pick(g, used); ok && g.Chance(75) {
				prev = v
			}
			next := all[g.Intn(len(all))]
			if g.Chance(20) {
				next = 0
			}
			if valid {
				for try := 0; try < 8 && (taken[prev] || taken[next] || prev == next); try++ {
					prev, next = all[g.Intn(len(all))], all[g.Intn(len(all))]
				}
				if taken[prev] || taken[next] || prev == next {
					continue
				}
			}
			taken[prev], taken[next] = true, true
			pairs = append(pairs, fmt.Sprintf("%d>%d", prev, next))
		}
		if len(pairs) == 0 {
			if valid {
				pairs = []string{"100>102"}
			} else {
				return "mig -"
			}
		}
		return "mig " + strings.Join(pairs, ",")
	case "ualias":
		// UpdateAliasesProposal
		chains := []int{0, 100, 101, 102, 103, 1}
		aliases := []int{1000, 1001, 1002, 1003, c.alias()}
		inParams := map[int]bool{}
		var have []string
		for _, r := range c.p.Chains.AliasesOfChainIds {
			for _, a := range r.Aliases {
				inParams[c.h.aliasID[a]] = true
				have = append(have, fmt.Sprintf("%d:%d", c.h.chainID[r.ChainId], c.h.aliasID[a]))
			}
		}
		add, rem := "-", "-"
		if g.Chance(70) {
			l := aliases[g.Intn(len(aliases))]
			if valid {
				for try := 0; try < 6 && inParams[l]; try++ {
					l = aliases[g.Intn(len(aliases))]
				}
			}
			add = fmt.Sprintf("%d:%d", chains[g.Intn(len(chains))], l)
		}
		if v, ok := pick(g, have); ok && (g.Chance(50) || add == "-") {
			rem = v
		} else if !valid && g.Chance(50) {
			rem = fmt.Sprintf("%d:%d", chains[g.Intn(len(chains))], aliases[g.Intn(len(aliases))])
		}
		return fmt.Sprintf("ualias %s %s", add, rem)
	case "setp":
		// MsgUpdateParams while orders / bids / offers are open: grace, sell-order duration, min offer, increment
		day := 86400
		gr := []int{30 * day, 31 * day, 45 * day, 60 * day}[g.Intn(4)]
		so := []int{3600, day, 3 * day, 7 * day}[g.Intn(4)]
		mo := []string{amt(1, 0).String(), amt(2, 7).String(), amt(4, 0).String()}[g.Intn(3)]
		inc := []int{0, 1, 5, 10}[g.Intn(4)]
		if !valid {
			switch g.Intn(4) {
			case 0:
				gr = 30*day - 1
			case 1:
				so = []int{0, 7*day + 1}[g.Intn(2)]
			case 2:
				mo = new(big.Int).Sub(amt(1, 0), big.NewInt(1)).String()
			default:
				inc = 11
			}
		}
		return fmt.Sprintf("setp %d %d %s %d", gr, so, mo, inc)
	case "fund":
		return fmt.Sprintf("fund %d %s", c.acct(), []string{amt(1, 0).String(), amt(50, 0).String(), amt(1000, 3).String()}[g.Intn(3)])
	case "trade":
		return fmt.Sprintf("trade %d %d", g.Intn(7)/6^1, g.Intn(7)/6^1)
	case "resv":
		if g.Chance(50) {
			return "resv -"
		}
		return fmt.Sprintf("resv %d", c.alias())
	case "adv":
		var pool []int64
		pool = append(pool, 1, 60, 3600, 86400)
		grace := int64(c.p.Misc.GracePeriodDuration.Seconds())
		for _, so := range s.nameSO {
			pool = append(pool, so.ExpireAt-s.now, so.ExpireAt-s.now+1)
		}
		for _, so := range s.alSO {
			pool = append(pool, so.ExpireAt-s.now, so.ExpireAt-s.now+1)
		}
		if g.Chance(30) {
			for _, d := range s.names {
				pool = append(pool, d.ExpireAt-s.now-1, d.ExpireAt-s.now, d.ExpireAt-s.now+1, d.ExpireAt+grace-s.now-1, d.ExpireAt+grace-s.now, d.ExpireAt+grace-s.now+1,
					d.ExpireAt-s.now-int64(c.p.Misc.SellOrderDuration.Seconds())-1, d.ExpireAt-s.now-int64(c.p.Misc.SellOrderDuration.Seconds()))
			}
		}
		var ps []int64
		for _, x := range pool {
			if x > 0 {
				ps = append(ps, x)
			}
		}
		sort.Slice(ps, func(i, j int) bool { return ps[i] < ps[j] })
		// prefer the nearer boundaries so that a trace walks through them
		i := g.Intn(len(ps))
		if g.Chance(60) {
			i = g.Intn(1 + len(ps)/2)
		}
		return fmt.Sprintf("adv %d", ps[i])
	case "reg":
		n, a, dur := c.name(), c.acct(), 1+g.Intn(3)
		if valid {
			if d, ok := s.names[n]; ok {
				grace := int64(c.p.Misc.GracePeriodDuration.Seconds())
				if !(s.expired(d) && s.now >= d.ExpireAt+grace) || g.Chance(40) {
					a = c.id(d.Owner)
				}
			}
			return fmt.Sprintf("reg %d %d %d %s %d", a, n, dur, c.regCost(n, a, dur), g.Intn(3))
		}
		if g.Chance(15) {
			dur = 0
		}
		pay := c.regCost(n, a, max(dur, 1))
		if g.Chance(50) {
			pay = new(big.Int).Add(pay, big.NewInt(int64(g.Intn(3)-1)))
		}
		return fmt.Sprintf("reg %d %d %d %s %d", a, n, dur, pay, g.Intn(3))
	case "xfer":
		n := c.name()
		if v, ok := pick(g, names); ok && valid {
			n = v
		}
		a := c.acct()
		if d, ok := s.names[n]; ok && valid {
			a = c.id(d.Owner)
		}
		b := c.other(a)
		if !valid && g.Chance(20) {
			b = a
		}
		return fmt.Sprintf("xfer %d %d %d", a, n, b)
	case "ctrl":
		n := c.name()
		if v, ok := pick(g, names); ok && valid {
			n = v
		}
		a := c.acct()
		if d, ok := s.names[n]; ok && valid {
			a = c.id(d.Owner)
		}
		return fmt.Sprintf("ctrl %d %d %d", a, n, c.acct())
	case "ura":
		n := c.name()
		if v, ok := pick(g, names); ok && valid {
			n = v
		}
		a := c.acct()
		if d, ok := s.names[n]; ok && valid {
			a = c.id(d.Controller)
		}
		chains := []int{0, 0, 100, 100, 102}
		for k := 1; k <= c.h.nR; k++ {
			chains = append(chains, k)
		}
		ch := chains[g.Intn(len(chains))]
		e := g.Intn(2)
		path := g.Intn(len(c17Paths))
		if g.Chance(55) {
			path = 0
		}
		val := "-"
		if d, ok := s.names[n]; !(g.Chance(18) && ok && len(d.Configs) > 0) {
			hrp := ch
			if ch > 100 {
				hrp = []int{100, 0}[g.Intn(2)] // external chains: any account text is accepted
			}
			if ch >= 1 && ch <= c.h.nR {
				if r, ok := s.rolls[ch]; ok && r.GenesisInfo.Bech32Prefix == "" {
					hrp = []int{0, 100, ch}[g.Intn(3)]
				}
			}
			if !valid && g.Chance(40) {
				hrp = []int{0, 100, 1, c.h.nR}[g.Intn(4)]
			}
			val = fmt.Sprintf("%d:%d", hrp, c.acct())
		} else if ok {
			// delete an existing record
			cf := d.Configs[g.Intn(len(d.Configs))]
			ch = c17atoi(c.h.cfgChain(cf.ChainId))
			path = c17atoi(c.h.pathID(cf.Path))
		}
		return fmt.Sprintf("ura %d %d %d %d %d %s", a, n, ch, e, path, val)
	case "det":
		n := c.name()
		if v, ok := pick(g, names); ok && valid {
			n = v
		}
		a := c.acct()
		if d, ok := s.names[n]; ok && valid {
			a = c.id(d.Controller)
		}
		contact := []string{"keep", "k0", "k1", "k2"}[g.Intn(4)]
		return fmt.Sprintf("det %d %d %s %d", a, n, contact, g.Intn(2))
	case "sell":
		if g.Chance(35) && len(s.alias) > 0 {
			var ls []int
			for l := range s.alias {
				ls = append(ls, l)
			}
			sort.Ints(ls)
			l := ls[g.Intn(len(ls))]
			a := c.acct()
			if valid {
				a = c.id(s.rolls[s.alias[l]].Owner)
			}
			mn := c.amount()
			sl := "0"
			if g.Chance(60) {
				sl = c.amount()
			}
			if valid {
				mn = amt(int64(1+g.Intn(5)), 0).String()
				if sl != "0" {
					sl = amt(int64(5+g.Intn(10)), int64(g.Intn(2))).String()
				}
			}
			return fmt.Sprintf("sell %d l %d %s %s", a, l, mn, sl)
		}
		n := c.name()
		if v, ok := pick(g, names); ok && valid {
			n = v
			for try := 0; try < 4; try++ {
				if _, has := s.nameSO[n]; !has {
					break
				}
				n, _ = pick(g, names)
			}
		}
		a := c.acct()
		if d, ok := s.names[n]; ok && valid {
			a = c.id(d.Owner)
		}
		mn := c.amount()
		sl := "0"
		if g.Chance(60) {
			sl = c.amount()
		}
		if valid {
			mn = amt(int64(1+g.Intn(5)), 0).String()
			if sl != "0" {
				sl = amt(int64(5+g.Intn(10)), int64(g.Intn(2))).String()
			}
		}
		return fmt.Sprintf("sell %d n %d %s %s", a, n, mn, sl)
	case "csell", "comp":
		// prefer assets that have a sell order
		var cand []string
		for i := 0; i < c.h.nN; i++ {
			if _, ok := s.nameSO[i]; ok {
				cand = append(cand, "n "+strconv.Itoa(i))
			}
		}
		for i := 0; i < c.h.nL; i++ {
			if _, ok := s.alSO[i]; ok {
				cand = append(cand, "l "+strconv.Itoa(i))
			}
		}
		tgt := "n " + strconv.Itoa(c.name())
		if v, ok := pick(g, cand); ok && g.Chance(85) {
			tgt = v
		}
		a := c.acct()
		tf := strings.Fields(tgt)
		i := c17atoi(tf[1])
		if valid {
			var parties []int
			if tf[0] == "n" {
				if d, ok := s.names[i]; ok {
					parties = append(parties, c.id(d.Owner))
				}
				if so, ok := s.nameSO[i]; ok && so.HighestBid != nil && kind == "comp" {
					parties = append(parties, c.id(so.HighestBid.Bidder))
				}
			} else {
				if ch, ok := s.alias[i]; ok {
					parties = append(parties, c.id(s.rolls[ch].Owner))
				}
				if so, ok := s.alSO[i]; ok && so.HighestBid != nil && kind == "comp" {
					parties = append(parties, c.id(so.HighestBid.Bidder))
				}
			}
			if v, ok := pick(g, parties); ok {
				a = v
			}
		}
		return fmt.Sprintf("%s %d %s", kind, a, tgt)
	case "buy":
		if (g.Chance(25) || (len(s.alSO) > 0 && g.Chance(50))) && (len(s.alSO) > 0 || !valid) {
			l := c.alias()
			var ls []int
			for x, so := range s.alSO {
				if !valid || so.ExpireAt >= s.now {
					ls = append(ls, x)
				}
			}
			sort.Ints(ls)
			if v, ok := pick(g, ls); ok {
				l = v
			}
			a := c.acct()
			dst := c.anyRollapp()
			if valid {
				// a buyer that owns a rollapp other than the source
				for try := 0; try < 6; try++ {
					a = c.acct()
					if rs := c.rollappsOf(a); len(rs) > 0 {
						dst = rs[g.Intn(len(rs))]
						if dst != s.alias[l] {
							break
						}
					}
				}
			}
			off := c.amount()
			if so, ok := s.alSO[l]; ok {
				sp := (*big.Int)(nil)
				if so.HasSetSellPrice() {
					sp = so.SellPrice.Amount.BigInt()
				}
				off = c.offerAmt(valid, c.minNextBid(so), sp)
			}
			return fmt.Sprintf("buy %d l %d %s %d", a, l, off, dst)
		}
		n := c.name()
		var ns []int
		for x, so := range s.nameSO {
			if !valid || so.ExpireAt >= s.now {
				ns = append(ns, x)
			}
		}
		sort.Ints(ns)
		if v, ok := pick(g, ns); ok && g.Chance(90) {
			n = v
		}
		a := c.acct()
		if d, ok := s.names[n]; ok && valid {
			a = c.other(c.id(d.Owner))
		}
		off := c.amount()
		if so, ok := s.nameSO[n]; ok {
			sp := (*big.Int)(nil)
			if so.HasSetSellPrice() {
				sp = so.SellPrice.Amount.BigInt()
			}
			off = c.offerAmt(valid, c.minNextBid(so), sp)
		}
		return fmt.Sprintf("buy %d n %d %s", a, n, off)
	case "offer":
		if g.Chance(30) && (len(s.alias) > 0 || !valid) {
			l := c.alias()
			var ls []int
			for x := range s.alias {
				ls = append(ls, x)
			}
			sort.Ints(ls)
			if v, ok := pick(g, ls); ok {
				l = v
			}
			a := c.acct()
			dst := c.anyRollapp()
			if valid {
				for try := 0; try < 6; try++ {
					a = c.acct()
					if rs := c.rollappsOf(a); len(rs) > 0 {
						dst = rs[g.Intn(len(rs))]
						if dst != s.alias[l] {
							break
						}
					}
				}
			}
			cont := "-"
			var base *big.Int
			for _, id := range c.boIDs() {
				bo := s.bos[id]
				if bo.AssetType == dymnstypes.TypeAlias && bo.AssetId == c17Alias(l) && bo.Buyer == c17Acct(a) && g.Chance(60) {
					cont = id
					base = new(big.Int).Add(bo.OfferPrice.Amount.BigInt(), big.NewInt(1))
				}
			}
			if !valid && g.Chance(30) {
				if v, ok := pick(g, c.boIDs()); ok {
					cont = v
				}
			}
			lo := c.p.Price.MinOfferPrice.BigInt()
			if base != nil && base.Cmp(lo) > 0 {
				lo = base
			}
			return fmt.Sprintf("offer %d l %d %s %s %d", a, l, c.offerAmt(valid, lo, nil), cont, dst)
		}
		n := c.name()
		if v, ok := pick(g, names); ok && valid {
			n = v
		}
		a := c.acct()
		if d, ok := s.names[n]; ok && valid {
			a = c.other(c.id(d.Owner))
		}
		cont := "-"
		var base *big.Int
		for _, id := range c.boIDs() {
			bo := s.bos[id]
			if bo.AssetType == dymnstypes.TypeName && bo.AssetId == c17Name(n) && bo.Buyer == c17Acct(a) && g.Chance(60) {
				cont = id
				base = new(big.Int).Add(bo.OfferPrice.Amount.BigInt(), big.NewInt(1))
			}
		}
		if !valid && g.Chance(30) {
			if v, ok := pick(g, c.boIDs()); ok {
				cont = v
			} else {
				cont = []string{"101", "201", "109"}[g.Intn(3)]
			}
		}
		lo := c.p.Price.MinOfferPrice.BigInt()
		if base != nil && base.Cmp(lo) > 0 {
			lo = base
		}
		return fmt.Sprintf("offer %d n %d %s %s", a, n, c.offerAmt(valid, lo, nil), cont)
	case "cbo":
		id := []string{"101", "102", "201", "103"}[g.Intn(4)]
		a := c.acct()
		if v, ok := pick(g, c.boIDs()); ok {
			id = v
			if valid {
				a = c.id(s.bos[id].Buyer)
			}
		}
		return fmt.Sprintf("cbo %d %s", a, id)
	case "abo":
		id := []string{"101", "102", "201", "103"}[g.Intn(4)]
		a := c.acct()
		m := c.amount()
		if v, ok := pick(g, c.boIDs()); ok {
			id = v
			bo := s.bos[id]
			if valid {
				if bo.AssetType == dymnstypes.TypeName {
					if d, ok := s.names[c.h.nameID[bo.AssetId]]; ok {
						a = c.id(d.Owner)
					}
				} else if ch, ok := s.alias[c.h.aliasID[bo.AssetId]]; ok {
					a = c.id(s.rolls[ch].Owner)
				}
			}
			switch g.Intn(4) {
			case 0, 1:
				m = bo.OfferPrice.Amount.String()
			case 2:
				m = new(big.Int).Add(bo.OfferPrice.Amount.BigInt(), amt(int64(g.Intn(3)), 1)).String()
			default:
				m = c.amount(bo.OfferPrice.Amount.BigInt())
			}
		}
		return fmt.Sprintf("abo %d %s %s", a, id, m)
	case "rollapp":
		ch := c.anyRollapp()
		if valid {
			for k := 1; k <= c.h.nR; k++ {
				if _, ok := s.rolls[k]; !ok {
					ch = k
					break
				}
			}
		}
		hrp := ch
		if g.Chance(25) {
			hrp = 0
		}
		l := c.alias()
		if valid {
			for try := 0; try < 5; try++ {
				if _, used := s.alias[l]; !used {
					break
				}
				l = c.alias()
			}
		}
		return fmt.Sprintf("rollapp %d %d %d %d", c.acct(), ch, hrp, l)
	case "alias":
		ch := c.anyRollapp()
		a := c.acct()
		if r, ok := s.rolls[ch]; ok && valid {
			a = c.id(r.Owner)
		}
		l := c.alias()
		if valid {
			for try := 0; try < 5; try++ {
				if _, used := s.alias[l]; !used {
					break
				}
				l = c.alias()
			}
		}
		pay := c.p.Price.GetAliasPrice(c17Alias(l)).BigInt()
		if !valid && g.Chance(50) {
			pay = new(big.Int).Add(pay, big.NewInt(int64(g.Intn(3)-1)))
		}
		return fmt.Sprintf("alias %d %d %d %s", a, ch, l, pay)
	}
	return "adv 1"
}

// a few read-only probes after each op
func (c *c17gen) queries() []string {
	g := c.g
	var out []string
	hrps := []int{0, 0, 100}
	chains := []int{0, 0, 100, 102}
	for k := 1; k <= c.h.nR; k++ {
		hrps = append(hrps, k)
		chains = append(chains, k)
	}
	handle := func() string {
		switch g.Intn(5) {
		case 0:
			return []string{"l1000", "l1001"}[g.Intn(2)]
		case 1:
			return "l" + strconv.Itoa(c.alias())
		}
		return "c" + strconv.Itoa(chains[g.Intn(len(chains))])
	}
	n := 2 + g.Intn(3)
	for i := 0; i < n; i++ {
		switch g.Intn(8) {
		case 0:
			out = append(out, fmt.Sprintf("own %d", c.acct()))
		case 1, 2, 3:
			path := 0
			if g.Chance(30) {
				path = g.Intn(len(c17Paths))
			}
			out = append(out, fmt.Sprintf("res %d %d %s", path, c.name(), handle()))
		case 4, 5, 6:
			hp := hrps[g.Intn(len(hrps))]
			wc := chains[g.Intn(len(chains))]
			if g.Chance(60) && hp != 100 {
				wc = hp
				if r, ok := c.s.rolls[wc]; wc != 0 && ok && r.GenesisInfo.Bech32Prefix == "" {
					hp = []int{0, 100}[g.Intn(2)]
				}
			}
			out = append(out, fmt.Sprintf("rev %d:%d %d", hp, c.acct(), wc))
		default:
			switch g.Intn(3) {
			case 0:
				out = append(out, fmt.Sprintf("bon %d", c.name()))
			case 1:
				out = append(out, fmt.Sprintf("bol %d", c.alias()))
			default:
				out = append(out, fmt.Sprintf("bob %d", c.acct()))
			}
		}
	}
	return out
}

func (h *c17h) genTrace(g *Rng) {
	nA, nN, nL, nR := 3+g.Intn(3), 3+g.Intn(6), 3+g.Intn(4), 2+g.Intn(2)
	day := 86400
	grace := []int{30 * day, 31 * day, 45 * day}[g.Intn(3)]
	soDur := []int{3600, day, 3 * day, 7 * day}[g.Intn(4)]
	minOffer := []string{amt(1, 0).String(), amt(2, 7).String()}[g.Intn(2)]
	inc := []int{0, 0, 1, 5, 10}[g.Intn(5)]
	ext := []*big.Int{amt(1, 0), amt(3, 1)}[g.Intn(2)]
	var ns, as []string
	base := int64(4 + g.Intn(20))
	for i := 0; i < 5; i++ {
		ns = append(ns, amt(base+int64(4-i)*int64(1+g.Intn(9)), int64(g.Intn(4))).String())
	}
	ns[4] = amt(base, 3).String()
	for i := 0; i < 5; i++ {
		as = append(as, amt(int64(30-5*i), int64(i)).String())
	}
	// name steps must be strictly decreasing: rebuild deterministically
	for i := 3; i >= 0; i-- {
		prev, _ := new(big.Int).SetString(ns[i+1], 10)
		ns[i] = new(big.Int).Add(prev, amt(int64(1+g.Intn(7)), int64(g.Intn(2)))).String()
	}
	tn, ta := 1, 1
	if g.Chance(5) {
		tn = 0
	}
	if g.Chance(5) {
		ta = 0
	}
	line := fmt.Sprintf("reset %d %d %d %d %d %d %s %d %s %s %s %d %d %d", nA, nN, nL, nR, grace, soDur, minOffer, inc, ext,
		strings.Join(ns, ","), strings.Join(as, ","), BaseTime.Unix(), tn, ta)
	h.r.Emit(line, h.exec(line))
	emit := func(l string) string {
		obs := h.exec(l)
		h.r.Emit(l, obs)
		return obs
	}
	for a := 0; a < nA; a++ {
		if g.Chance(88) {
			emit(fmt.Sprintf("fund %d %s", a, []string{amt(60, 0).String(), amt(400, 5).String(), amt(5000, 0).String(), amt(5000, 1).String()}[g.Intn(4)]))
		}
	}
	c := &c17gen{h: h, g: g}
	if g.Chance(65) {
		// two RollApps of different creators early, so that alias trading has both sides
		a := g.Intn(nA)
		b := (a + 1 + g.Intn(nA-1)) % nA
		emit(fmt.Sprintf("rollapp %d 1 %d 0", a, []int{1, 1, 0}[g.Intn(3)]))
		emit(fmt.Sprintf("rollapp %d 2 %d 1", b, []int{2, 2, 0}[g.Intn(3)]))
		emit("v")
	}
	nOps := 40 + g.Intn(70)
	for i := 0; i < nOps; i++ {
		c.s = h.snap()
		c.p = h.params()
		l := c.nextLine()
		obs := emit(l)
		emit("v")
		c.s = h.snap()
		c.followUp(l, obs)
		for _, q := range c.queries() {
			emit(q)
		}
	}
	sum := sha256.Sum256([]byte(strings.Join(h.kinds, " ")))
	h.r.Class(fmt.Sprintf("%x", sum[:8]), h.nontr)
	h.r.Trace()
}

var c17Witness = []string{
	"reset 3 3 3 2 2592000 86400 1000000000000000000 0 1000000000000000000 9000000000000000000,8000000000000000000,7000000000000000000,6000000000000000000,5000000000000000000 9000000000000000000,8000000000000000000,7000000000000000000,6000000000000000000,5000000000000000000 1704067200 1 1",
	"fund 0 100000000000000000000",
	"fund 1 100000000000000000000",
	"rollapp 1 1 1 0",
	"reg 0 0 1 9000000000000000000 0",
	"ura 0 0 1 0 0 1:1",
	"v",
	"rev 1:0 1",
	"res 0 0 l0",
	"rollapp 1 2 0 1",
	"v",
	"rev 0:0 2",
	"res 0 0 l1",
	// resolve_agree_counterexample_host_literal (Props/C17Gov): a record migrated onto the host chain-id
	"ura 0 0 100 0 0 100:1",
	"v",
	"mig 100>0",
	"v",
	"rev 100:1 0",
	"res 0 0 l1000",
	"res 0 0 c0",
	"res 0 0 c100",
}

func TestC17(t *testing.T) {
	r := NewRun(t, "C17")
	defer r.Close()
	f := NewFix(t)
	h := &c17h{r: r, f: f, base: f.Ctx, k: f.App.DymNSKeeper}
	saved := *f
	h.f0 = &saved
	f.Rebind = append(f.Rebind, func() { h.k = h.f.App.DymNSKeeper })
	if lines := ReplayLines(); lines != nil {
		for i, l := range lines {
			r.Emit(l, h.exec(l))
			ff := strings.Fields(l)
			// (a recorded history already has the `v` line after each message)
			if ff[0] != "reset" && ff[0] != "v" && h.msgOf(ff) != nil && !(i+1 < len(lines) && lines[i+1] == "v") {
				r.Emit("v", h.exec("v"))
			}
		}
		r.Trace()
		return
	}
	// the Lean counterexamples of Props/C17 (resolve_agree_counterexample_*), replayed on the real code
	for _, l := range c17Witness {
		r.Emit(l, h.exec(l))
	}
	r.Hit("witness-trace")
	r.Trace()
	// directed traces: the multi-boundary histories (order left uncompleted -> name expiry -> grace
	// -> take-over -> old bidder) are in every run, whatever the seed and the budget
	for _, s := range c17Directed() {
		h.runDirected(s)
	}
	n := r.N(400, 4500)
	for i := 0; i < n; i++ {
		h.genTrace(r.Rng.Fork())
	}
}
