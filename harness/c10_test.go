package harness

// C10 — the bridge to a rollapp opens only through a matching genesis handshake.
// Generator + executor on the real code (fixture A, see ibc_util.go) + model-independent monitors.

import (
	"crypto/sha256"
	"encoding/json"
	"errors"
	"fmt"
	"math/big"
	"os"
	"sort"
	"strconv"
	"strings"
	"testing"
	"time"

	"cosmossdk.io/math"
	sdk "github.com/cosmos/cosmos-sdk/types"
	authtypes "github.com/cosmos/cosmos-sdk/x/auth/types"
	"github.com/cosmos/cosmos-sdk/x/authz"
	banktypes "github.com/cosmos/cosmos-sdk/x/bank/types"
	distrtypes "github.com/cosmos/cosmos-sdk/x/distribution/types"
	govtypes "github.com/cosmos/cosmos-sdk/x/gov/types"
	transfertypes "github.com/cosmos/ibc-go/v8/modules/apps/transfer/types"
	clienttypes "github.com/cosmos/ibc-go/v8/modules/core/02-client/types"
	channeltypes "github.com/cosmos/ibc-go/v8/modules/core/04-channel/types"
	ibcexported "github.com/cosmos/ibc-go/v8/modules/core/exported"
	ibctm "github.com/cosmos/ibc-go/v8/modules/light-clients/07-tendermint"

	"github.com/dymensionxyz/dymension/v3/app/apptesting"
	denommetadata "github.com/dymensionxyz/dymension/v3/x/denommetadata"
	dmtypes "github.com/dymensionxyz/dymension/v3/x/denommetadata/types"
	irotypes "github.com/dymensionxyz/dymension/v3/x/iro/types"
	rollapptypes "github.com/dymensionxyz/dymension/v3/x/rollapp/types"
)

// ---- tokens <-> strings -------------------------------------------------------------------------

func c10Checksum(t uint64) string {
	switch {
	case t == 0:
		return ""
	case t >= 1000:
		return strings.Repeat("x", 65)
	}
	return fmt.Sprintf("checksum%d", t)
}

func c10Prefix(t uint64) string {
	switch {
	case t == 0:
		return ""
	case t >= 1000:
		return "bad prefix"
	}
	return "pf" + string(rune('a'+t%26)) + string(rune('a'+(t/26)%26))
}

func c10Denom(t uint64) string {
	switch {
	case t == 0:
		return ""
	case t >= 1000:
		return "1bad"
	}
	return fmt.Sprintf("tk%dx", t)
}

type c10H struct {
	e    *ibcEnv
	t    *testing.T
	gov  string
	nra  int
	seqN int
	// harness-side bookkeeping of what it built (never of what the code decided)
	chans    []c10Chan
	canonOf  map[int]string // rollapp -> canonical client id made by `link`
	connOf   map[int]string
	complete map[int]bool // a success ack for a handshake packet was observed
	// the harness opened a channel of the rollapp through a top-level MsgChannelOpenAck the ante handler let through
	hasCanonChan map[int]bool
	// success acknowledgements observed for packets that arrived on a rollapp's canonical channel while its
	// TransferProofHeight was 0 (= completed handshakes; the model's ghost counter nOpen)
	nOpen map[int]int
	seqNo    map[int]uint64
	// rollapp -> index of the sequencer actor that launched it (its dymint key is the next-validator set of the
	// canonical client's consensus state; it posts the state updates)
	seqOf map[int]int
	// two-chain fixture (c10_coord_test.go): messages and packets go through real blocks of the coordinator's hub chain
	deliverFn func(sdk.Msg) error
	recvFn    func(channeltypes.Packet, clienttypes.Height) (ibcexported.Acknowledgement, string, error)
}

type c10Chan struct {
	id   string
	kind byte // 'c' canonical of r, 's' second over canonical client of r, 'p' plain
	r    int
}

const c10IroTok, c10BlockedTok = 50, 900

func (h *c10H) addr(t uint64) string {
	switch {
	case t == c10IroTok:
		return h.e.f.App.IROKeeper.GetModuleAccountAddress()
	case t >= 1000:
		return "notbech32"
	case t >= 900:
		return authtypes.NewModuleAddress(distrtypes.ModuleName).String()
	}
	return Actor(300 + int(t)).String()
}

var c10Pool = []uint64{1, 2, 3, 4, 5, 6, 7, 8, 9, c10IroTok, c10BlockedTok}

func newC10H(t *testing.T) *c10H {
	h := &c10H{e: newIbcEnv(t, 12), t: t, canonOf: map[int]string{}, connOf: map[int]string{}, complete: map[int]bool{}, seqNo: map[int]uint64{}, hasCanonChan: map[int]bool{}, nOpen: map[int]int{}, seqOf: map[int]int{}}
	// no state is finalized within a trace (forking a finalized height is C02's subject)
	rp := h.e.f.App.RollappKeeper.GetParams(h.e.f.Ctx)
	rp.DisputePeriodInBlocks = 1_000_000
	h.e.f.App.RollappKeeper.SetParams(h.e.f.Ctx, rp)
	h.gov = authtypes.NewModuleAddress(govtypes.ModuleName).String()
	if !h.e.f.App.BankKeeper.BlockedAddr(authtypes.NewModuleAddress(distrtypes.ModuleName)) {
		t.Fatal("distribution module account is expected to be blocked")
	}
	return h
}

type c10Acc struct {
	Addr uint64
	Amt  *big.Int
}

type c10GI struct {
	Nil                bool
	Ck, Pf, Nb, Nd, Ne uint64
	SupNil             bool
	Sup                *big.Int
	Accs               []c10Acc
	Sealed             bool
}

func bigOf(s string) *big.Int {
	b, ok := new(big.Int).SetString(s, 10)
	if !ok {
		return big.NewInt(0)
	}
	return b
}

func parseC10GI(m map[string]string) c10GI {
	if m["gi"] == "nil" {
		return c10GI{Nil: true}
	}
	g := c10GI{Ck: atou(m["ck"]), Pf: atou(m["pf"]), Nb: atou(m["nb"]), Nd: atou(m["nd"]), Ne: atou(m["ne"]), Sealed: m["sealed"] == "1"}
	if m["sup"] == "nil" {
		g.SupNil = true
	} else {
		g.Sup = bigOf(m["sup"])
	}
	if m["accs"] != "-" && m["accs"] != "" {
		for _, x := range strings.Split(m["accs"], ";") {
			p := strings.Split(x, ":")
			g.Accs = append(g.Accs, c10Acc{atou(p[0]), bigOf(p[1])})
		}
	}
	return g
}

func (g c10GI) line() string {
	if g.Nil {
		return "gi=nil"
	}
	sup := "nil"
	if !g.SupNil {
		sup = g.Sup.String()
	}
	accs := "-"
	if len(g.Accs) > 0 {
		var xs []string
		for _, a := range g.Accs {
			xs = append(xs, fmt.Sprintf("%d:%s", a.Addr, a.Amt))
		}
		accs = strings.Join(xs, ";")
	}
	return fmt.Sprintf("ck=%d pf=%d nb=%d nd=%d ne=%d sup=%s accs=%s sealed=%s", g.Ck, g.Pf, g.Nb, g.Nd, g.Ne, sup, accs, b2s(g.Sealed))
}

func (h *c10H) accounts(g c10GI) []rollapptypes.GenesisAccount {
	var out []rollapptypes.GenesisAccount
	for _, a := range g.Accs {
		out = append(out, rollapptypes.GenesisAccount{Address: h.addr(a.Addr), Amount: math.NewIntFromBigInt(a.Amt)})
	}
	return out
}

func (h *c10H) genesisInfo(g c10GI) *rollapptypes.GenesisInfo {
	if g.Nil {
		return nil
	}
	gi := &rollapptypes.GenesisInfo{GenesisChecksum: c10Checksum(g.Ck), Bech32Prefix: c10Prefix(g.Pf),
		NativeDenom: rollapptypes.DenomMetadata{Base: c10Denom(g.Nb), Display: c10Denom(g.Nd), Exponent: uint32(g.Ne)}, Sealed: g.Sealed}
	if !g.SupNil {
		gi.InitialSupply = math.NewIntFromBigInt(g.Sup)
	}
	if len(g.Accs) > 0 {
		gi.GenesisAccounts = &rollapptypes.GenesisAccounts{Accounts: h.accounts(g)}
	}
	return gi
}

// deliver = Fix.Deliver with the message's ValidateBasic inside the panic guard (baseapp recovers there too)
func (h *c10H) deliver(msg sdk.Msg) (err error) {
	if h.deliverFn != nil {
		return h.deliverFn(msg)
	}
	defer func() {
		if r := recover(); r != nil {
			err = &PanicError{Val: r}
		}
	}()
	_, err = h.e.f.Deliver(msg)
	return err
}

func c10Res(err error) string {
	if err == nil {
		return "ok"
	}
	if os.Getenv("C10_DEBUG") != "" {
		fmt.Fprintln(os.Stderr, "DEBUG err:", err)
	}
	if IsPanic(err) {
		return "panic"
	}
	return "err"
}

type c10FT struct {
	Denom    uint64
	Amt      *big.Int
	Canon    bool
	Recv     uint64
	SenderOk bool
}

func parseC10FT(s string) *c10FT {
	p := strings.Split(s, "/")
	if len(p) != 5 {
		return nil
	}
	return &c10FT{Denom: atou(p[0]), Amt: bigOf(p[1]), Canon: p[2] == "1", Recv: atou(p[3]), SenderOk: p[4] == "1"}
}

func (t *c10FT) line() string {
	if t == nil {
		return "-"
	}
	return fmt.Sprintf("%d/%s/%s/%d/%s", t.Denom, t.Amt, b2s(t.Canon), t.Recv, b2s(t.SenderOk))
}

func (h *c10H) ftData(t *c10FT) transfertypes.FungibleTokenPacketData {
	amt := t.Amt.String()
	if !t.Canon {
		amt = "+" + amt // parses to the same number, is not the canonical decimal string
	}
	recv := rollapptypes.HubRecipient
	switch t.Recv {
	case 1:
		recv = Actor(301).String()
	case 2:
		recv = ""
	}
	sender := "rollappsender"
	if !t.SenderOk {
		sender = ""
	}
	return transfertypes.NewFungibleTokenPacketData(c10Denom(t.Denom), amt, sender, recv, "")
}

type c10MD struct {
	Base         uint64
	Units        [][2]uint64
	SdkOk, IbcOk bool
	Shape        string
}

func parseC10MD(s, shape string) c10MD {
	p := strings.Split(s, "/")
	md := c10MD{Shape: shape}
	if len(p) != 4 {
		return md
	}
	md.Base = atou(p[0])
	if p[1] != "-" {
		for _, u := range strings.Split(p[1], ",") {
			q := strings.Split(u, ":")
			md.Units = append(md.Units, [2]uint64{atou(q[0]), atou(q[1])})
		}
	}
	md.SdkOk, md.IbcOk = p[2] == "1", p[3] == "1"
	return md
}

func (m c10MD) line() string {
	us := "-"
	if len(m.Units) > 0 {
		var xs []string
		for _, u := range m.Units {
			xs = append(xs, fmt.Sprintf("%d:%d", u[0], u[1]))
		}
		us = strings.Join(xs, ",")
	}
	return fmt.Sprintf("md=%d/%s/%s/%s mdshape=%s", m.Base, us, b2s(m.SdkOk), b2s(m.IbcOk), m.Shape)
}

// metadata builds the bank metadata of a spec; display = the gi's display denom when it is among the units
func (m c10MD) metadata(display uint64) banktypes.Metadata {
	md := banktypes.Metadata{Base: c10Denom(m.Base), Name: "name", Symbol: "SYM"}
	if m.Shape == "noname" {
		md.Name = ""
	}
	md.Display = md.Base
	for i, u := range m.Units {
		du := &banktypes.DenomUnit{Denom: c10Denom(u[0]), Exponent: uint32(u[1])}
		if i == 0 && m.Shape == "aliasdup" {
			du.Aliases = []string{du.Denom}
		}
		md.DenomUnits = append(md.DenomUnits, du)
		md.Display = du.Denom
	}
	for _, u := range m.Units {
		if u[0] == display {
			md.Display = c10Denom(display)
		}
	}
	return md
}

func cloneMD(m banktypes.Metadata) banktypes.Metadata {
	out := m
	out.DenomUnits = nil
	for _, u := range m.DenomUnits {
		c := *u
		c.Aliases = append([]string(nil), u.Aliases...)
		out.DenomUnits = append(out.DenomUnits, &c)
	}
	return out
}

// mdOracles computes the two SDK verdicts the model takes as oracles
func (h *c10H) mdOracles(md banktypes.Metadata, rollappID, chanID string) (sdkOk, ibcOk bool) {
	sdkOk = cloneMD(md).Validate() == nil
	gb := rollapptypes.GenesisBridgeData{NativeDenom: cloneMD(md)}
	_, _, err := gb.IBCDenom(rollappID, chanID)
	return sdkOk, err == nil
}

func c10AckClass(ack []byte, success bool, isNil bool, et string) string {
	if isNil {
		return "async"
	}
	if success {
		return "ok"
	}
	gbWrap := false
	for _, w := range []string{"validate and get actionable data", "get rollapp id", "unmarshal genesis bridge data", "genesis bridge data: to IBC denom",
		"create denom metadata", "handle genesis transfer", "transfer genesis: enable transfers"} {
		if strings.Contains(et, w) {
			gbWrap = true
		}
	}
	if !gbWrap {
		return "err:lower"
	}
	has := func(s string) bool { return strings.Contains(et, s) }
	switch {
	case has("get rollapp id") && has("canonical channel is missing"):
		return "err:noChannel"
	case has("get rollapp id"):
		return "err:notCanonical"
	case has("unmarshal genesis bridge data"):
		return "err:unmarshal"
	case has("missing fields in genesis bridge info"):
		return "err:missing"
	case has("invalid genesis info"):
		switch {
		case has("invalid bech32 prefix"):
			return "err:gi-badPrefix"
		case has("invalid genesis checksum"):
			return "err:gi-badChecksum"
		case has("no native token rollapp"):
			return "err:gi-noNative"
		case has("too many genesis accounts"):
			return "err:gi-tooMany"
		case has("invalid initial supply"):
			return "err:gi-badSupply"
		case has("metadata: invalid argument"):
			return "err:gi-badMetadata"
		}
		return "err:gi-invalidArg"
	case has("invalid metadata"):
		return "err:badMd"
	case has("metadata denom does not match genesis info denom"):
		return "err:mdBase"
	case has("denom metadata does not contain display unit"):
		return "err:mdDisplay"
	case has("invalid genesis transfer"):
		return "err:badTransfer"
	case has("genesis checksum mismatch"):
		return "err:checksum"
	case has("bech32 prefix mismatch"):
		return "err:prefix"
	case has("native denom mismatch"):
		return "err:denom"
	case has("initial supply mismatch"):
		return "err:supply"
	case has("genesis accounts mismatch"):
		return "err:accounts"
	case has("genesis transfer required"):
		return "err:trRequired"
	case has("genesis transfer not expected"):
		return "err:trUnexpected"
	case has("receiver mismatch"):
		return "err:trReceiver"
	case has("amount mismatch"):
		return "err:trAmount"
	case has("denom mismatch"):
		return "err:trDenom"
	case has("to IBC denom"):
		return "err:ibcDenom"
	case has("create denom metadata"):
		return "err:mdCreate"
	case has("handle genesis transfer"):
		return "err:credit"
	case has("enable transfers"):
		return "err:enable"
	}
	return "err:other"
}

func (h *c10H) chanByTok(tok string) (c10Chan, bool) {
	i, err := strconv.Atoi(strings.TrimPrefix(tok, "c"))
	if err != nil {
		return c10Chan{}, false
	}
	id := fmt.Sprintf("channel-%d", i)
	for _, c := range h.chans {
		if c.id == id {
			return c, true
		}
	}
	return c10Chan{}, false
}

func ridx(tok string) int { i, _ := strconv.Atoi(strings.TrimPrefix(tok, "r")); return i }

type c10Recv struct {
	ch      c10Chan
	kind    string
	gi      c10GI
	ft      *c10FT
	data    []byte
	success bool
	isNil   bool
}

// exec runs one op line on the real application and returns the result class
func (h *c10H) exec(line string) (res string, rc *c10Recv) {
	f := strings.Fields(line)
	m := parseKV(f)
	app := h.e.f.App
	switch f[0] {
	case "create":
		ri := ridx(f[1])
		g := parseC10GI(m)
		msg := rollapptypes.MsgCreateRollapp{
			Creator: h.e.owner.String(), RollappId: ibcRollappID(ri), InitialSequencer: "*",
			MinSequencerBond: sdk.NewCoin(ibcDenom, math.NewIntFromUint64(1)),
			Alias:            fmt.Sprintf("alias%c", 'a'+ri), VmType: rollapptypes.Rollapp_WASM, GenesisInfo: h.genesisInfo(g),
			Metadata: &rollapptypes.RollappMetadata{Website: "https://dymension.xyz", Description: "d", LogoUrl: "https://dymension.xyz/logo.png",
				Telegram: "https://t.me/rolly", X: "https://x.dymension.xyz"},
		}
		fundAlias(h.e, msg.Alias, msg.Creator)
		return c10Res(h.deliver(&msg)), nil
	case "setgi":
		by := h.e.owner
		if m["by"] != "owner" {
			by = Actor(398)
		}
		g := parseC10GI(m)
		msg := rollapptypes.MsgUpdateRollappInformation{Owner: by.String(), RollappId: ibcRollappID(ridx(f[1])), GenesisInfo: h.genesisInfo(g)}
		if g.Nil {
			msg.Metadata = &rollapptypes.RollappMetadata{Website: "https://dymension.xyz/new", Description: "d2", LogoUrl: "https://dymension.xyz/logo.png",
				Telegram: "https://t.me/rolly", X: "https://x.dymension.xyz"}
		}
		return c10Res(h.deliver(&msg)), nil
	case "force":
		auth := h.gov
		if m["by"] != "gov" {
			auth = h.e.owner.String()
		}
		g := parseC10GI(m)
		if g.Nil {
			return "bad-op", nil
		}
		msg := rollapptypes.MsgForceGenesisInfoChange{Authority: auth, RollappId: ibcRollappID(ridx(f[1])), NewGenesisInfo: *h.genesisInfo(g)}
		return c10Res(h.deliver(&msg)), nil
	case "plan":
		by := h.e.owner
		if m["by"] != "owner" {
			by = Actor(398)
		}
		msg := irotypes.MsgCreatePlan{Owner: by.String(), RollappId: ibcRollappID(ridx(f[1])), AllocatedAmount: math.NewIntFromBigInt(bigOf(m["alloc"])),
			BondingCurve: irotypes.DefaultBondingCurve(), TradingEnabled: m["te"] != "0", IroPlanDuration: time.Duration(atou(m["dur"])) * time.Second,
			IncentivePlanParams: irotypes.DefaultIncentivePlanParams(), LiquidityPart: irotypes.DefaultParams().MinLiquidityPart, LiquidityDenom: ibcDenom,
			VestingDuration: irotypes.DefaultParams().MinVestingDuration, VestingStartTimeAfterSettlement: 0}
		if st, ok := m["start"]; ok { // MsgCreatePlan.start_time (seconds after BaseTime); absent = the zero time
			msg.StartTime = BaseTime.Add(time.Duration(atou(st)) * time.Second)
		}
		return c10Res(h.deliver(&msg)), nil
	case "enable":
		// MsgEnableTrading of the plan of rollapp r<i>; a rollapp without a plan is addressed through a plan id that does not exist
		by := h.e.owner
		if m["by"] != "owner" {
			by = Actor(398)
		}
		planID := "999999"
		if p, ok := app.IROKeeper.GetPlanByRollapp(h.e.f.Ctx, ibcRollappID(ridx(f[1]))); ok {
			planID = strconv.FormatUint(p.Id, 10)
		}
		msg := irotypes.MsgEnableTrading{Owner: by.String(), PlanId: planID}
		return c10Res(h.deliver(&msg)), nil
	case "tick":
		if err := h.e.f.Begin(time.Duration(atou(m["dt"])) * time.Second); err != nil {
			return "blockfail", nil
		}
		h.e.fixCtx()
		if err := h.e.f.End(); err != nil {
			return "blockfail", nil
		}
		return "ok", nil
	case "seq":
		ri := ridx(f[1])
		ra, ok := app.RollappKeeper.GetRollapp(h.e.f.Ctx, ibcRollappID(ri))
		if ok && ra.Launched {
			return "ok", nil // the model's `seq` is about launching; further sequencers change nothing here
		}
		if h.seqN >= len(h.e.seqAddr) {
			return "bad-op", nil
		}
		err := h.e.createSequencer(h.seqN, ri)
		if err == nil {
			h.seqOf[ri] = h.seqN
			h.seqN++
		}
		return c10Res(err), nil
	case "link":
		ri := ridx(f[1])
		id := ibcRollappID(ri)
		ra, ok := app.RollappKeeper.GetRollapp(h.e.f.Ctx, id)
		if _, has := app.LightClientKeeper.GetCanonicalClient(h.e.f.Ctx, id); !ok || !ra.Launched || has {
			return "err", nil
		}
		cid, err := h.e.createClient(ibcClientState(id, 10, "ok"), ibcRaTime(10), ibcRoot(10), h.e.valHash(h.seqOf[ri]))
		if err != nil {
			h.t.Fatal(err)
		}
		app.LightClientKeeper.SetCanonicalClient(h.e.f.Ctx, id, cid) // designation itself is C09's subject
		conn := h.e.openConnection(cid)
		ch, err := h.e.chanOpenInit(conn)
		if err != nil {
			h.t.Fatal(err)
		}
		cp := "channel-77"
		ack := channeltypes.NewMsgChannelOpenAck("transfer", ch, cp, "ics20-1", []byte("proof"), clienttypes.NewHeight(1, 10), h.e.relayer.String())
		if ae, _ := h.e.runTx(ack); ae != nil { // the proof-carrying message itself cannot succeed without a counterparty
			h.t.Fatal(ae)
		}
		h.e.setChannelOpen(ch, cp)
		h.canonOf[ri], h.connOf[ri] = cid, conn
		h.hasCanonChan[ri] = true
		h.chans = append(h.chans, c10Chan{ch, 'c', ri})
		return "ok", nil
	case "canon":
		// the rollapp's light client becomes canonical; no channel yet
		ri := ridx(f[1])
		id := ibcRollappID(ri)
		ra, ok := app.RollappKeeper.GetRollapp(h.e.f.Ctx, id)
		if _, has := app.LightClientKeeper.GetCanonicalClient(h.e.f.Ctx, id); !ok || !ra.Launched || has {
			return "err", nil
		}
		cid, err := h.e.createClient(ibcClientState(id, 10, "ok"), ibcRaTime(10), ibcRoot(10), h.e.valHash(h.seqOf[ri]))
		if err != nil {
			h.t.Fatal(err)
		}
		app.LightClientKeeper.SetCanonicalClient(h.e.f.Ctx, id, cid) // designation itself is C09's subject
		h.canonOf[ri], h.connOf[ri] = cid, h.e.openConnection(cid)
		return "ok", nil
	case "chopen":
		// a transfer channel over the rollapp's canonical client reaches OPEN on the hub.  The channel is
		// created by a real MsgChannelOpenInit; the hub-side message that would open it is sent through
		// the production ante handler (its proof cannot verify: no counterparty chain) and the channel
		// end is then flipped to OPEN through the keeper:
		//   via=ack     MsgChannelOpenAck as a top-level message (the ante hook records the canonical channel,
		//               or refuses the transaction when one is recorded already)
		//   via=nested  the same message inside authz.MsgExec (grantee = signer: no grant needed)
		//   via=try     handshake started from the rollapp: the hub sees MsgChannelOpenTry / MsgChannelOpenConfirm
		ri := ridx(f[1])
		conn, ok := h.connOf[ri]
		if !ok {
			return "err", nil
		}
		if cid := h.canonOf[ri]; !h.clientOfActive(cid) {
			return "err", nil // ibc core refuses every channel-handshake step over a client that is not active
		}
		ch, err := h.e.chanOpenInit(conn)
		if err != nil {
			h.t.Fatal(err)
		}
		cp := fmt.Sprintf("channel-%d", 80+len(h.chans))
		ack := channeltypes.NewMsgChannelOpenAck("transfer", ch, cp, "ics20-1", []byte("proof"), clienttypes.NewHeight(1, 10), h.e.relayer.String())
		kind := byte('s')
		switch m["via"] {
		case "ack":
			if ae, _ := h.e.runTx(ack); ae != nil {
				return "err", nil // refused by the ante handler: the channel stays in INIT
			}
			if !h.hasCanonChan[ri] {
				kind = 'c'
				h.hasCanonChan[ri] = true
			}
		case "nested":
			exec := authz.NewMsgExec(h.e.relayer, []sdk.Msg{ack})
			if ae, _ := h.e.runTx(&exec); ae != nil {
				h.t.Fatal("nested MsgChannelOpenAck refused by the ante handler: ", ae)
			}
		default:
			try := channeltypes.NewMsgChannelOpenTry("transfer", "ics20-1", channeltypes.UNORDERED, []string{conn}, "transfer", cp, "ics20-1",
				[]byte("proof"), clienttypes.NewHeight(1, 10), h.e.relayer.String())
			if ae, _ := h.e.runTx(try); ae != nil {
				h.t.Fatal("MsgChannelOpenTry refused by the ante handler: ", ae)
			}
			confirm := channeltypes.NewMsgChannelOpenConfirm("transfer", ch, []byte("proof"), clienttypes.NewHeight(1, 10), h.e.relayer.String())
			if ae, _ := h.e.runTx(confirm); ae != nil {
				h.t.Fatal("MsgChannelOpenConfirm refused by the ante handler: ", ae)
			}
		}
		h.e.setChannelOpen(ch, cp)
		h.chans = append(h.chans, c10Chan{ch, kind, ri})
		return "ok", nil
	case "premd":
		// governance registers bank metadata for the IBC denom of the rollapp's native denom on its recorded canonical
		// channel, outside the handshake: the production handler of a passed CreateDenomMetadataProposal
		ra, ok := app.RollappKeeper.GetRollapp(h.e.f.Ctx, ibcRollappID(ridx(f[1])))
		if !ok || ra.ChannelId == "" || ra.GenesisInfo.NativeDenom.Base == "" {
			return "err", nil // there is no such IBC denom
		}
		d := transfertypes.ParseDenomTrace(transfertypes.GetPrefixedDenom("transfer", ra.ChannelId, ra.GenesisInfo.NativeDenom.Base)).IBCDenom()
		prop := dmtypes.NewCreateMetadataProposal("pre-register", "metadata of a rollapp denom registered by governance", []banktypes.Metadata{{
			Base: d, Display: d, Name: "preregistered", Symbol: "PRE", DenomUnits: []*banktypes.DenomUnit{{Denom: d, Exponent: 0}}}})
		handler := denommetadata.NewDenomMetadataProposalHandler(app.DenomMetadataKeeper)
		return c10Res(h.e.f.Try(func(ctx sdk.Context) error { return handler(ctx, prop) })), nil
	case "update":
		// MsgUpdateState for the next n blocks of the rollapp, from its sequencer; block h carries root ibcRoot(h) and time
		// ibcRaTime(h), which is what the canonical client's consensus state at height 10 holds.  A hard fork unbonds the
		// proposer and opts every sequencer out: a new sequencer (the next actor of the pool) is created first and becomes
		// the proposer (MsgCreateSequencer -> RecoverFromSentinel).
		ri := ridx(f[1])
		id := ibcRollappID(ri)
		ai, ok := h.seqOf[ri]
		if !ok {
			return "err", nil // no sequencer (not launched): nobody to post it
		}
		if app.SequencerKeeper.GetProposer(h.e.f.Ctx, id).Sentinel() {
			if h.seqN >= len(h.e.seqAddr) {
				return "bad-op", nil
			}
			if err := h.e.createSequencer(h.seqN, ri); err != nil {
				h.t.Fatal("new sequencer after a hard fork: ", err)
			}
			ai = h.seqN
			h.seqOf[ri] = ai
			h.seqN++
		}
		ra, _ := app.RollappKeeper.GetRollapp(h.e.f.Ctx, id)
		start := uint64(1)
		if lh, ok := app.RollappKeeper.GetLatestHeight(h.e.f.Ctx, id); ok {
			start = lh + 1
		}
		n := atou(m["n"])
		var bds rollapptypes.BlockDescriptors
		for i := uint64(0); i < n; i++ {
			bds.BD = append(bds.BD, rollapptypes.BlockDescriptor{Height: start + i, StateRoot: ibcRoot(start + i), Timestamp: ibcRaTime(start + i), DrsVersion: 1})
		}
		msg := rollapptypes.MsgUpdateState{Creator: h.e.seqAddr[ai].String(), RollappId: id, StartHeight: start, NumBlocks: n, DAPath: "",
			BDs: bds, RollappRevision: ra.LatestRevision().Number}
		return c10Res(h.deliver(&msg)), nil
	case "fork":
		// MsgRollappFraudProposal (fraud height h, the revision of that height filled in, nobody punished) from the
		// governance authority or from somebody else
		id := ibcRollappID(ridx(f[1]))
		auth := h.gov
		if m["by"] != "gov" {
			auth = h.e.owner.String()
		}
		ht := atou(m["h"])
		var rev uint64
		if ra, ok := app.RollappKeeper.GetRollapp(h.e.f.Ctx, id); ok {
			rev = ra.GetRevisionForHeight(ht).Number
		}
		msg := rollapptypes.MsgRollappFraudProposal{Authority: auth, RollappId: id, FraudHeight: ht, FraudRevision: rev}
		return c10Res(h.deliver(&msg)), nil
	case "link2":
		ri := ridx(f[1])
		conn, ok := h.connOf[ri]
		if !ok {
			return "err", nil
		}
		if cid := h.canonOf[ri]; !h.clientOfActive(cid) {
			return "err", nil
		}
		ch, err := h.e.chanOpenInit(conn)
		if err != nil {
			h.t.Fatal(err)
		}
		h.e.setChannelOpen(ch, "channel-78") // stands for a channel opened from the rollapp side (Try/Confirm)
		h.chans = append(h.chans, c10Chan{ch, 's', ri})
		return "ok", nil
	case "plainch":
		cid, err := h.e.createClient(ibcClientState("plainchain-1", 10, "ok"), ibcRaTime(10), ibcRoot(10), h.e.valHash(0))
		if err != nil {
			h.t.Fatal(err)
		}
		conn := h.e.openConnection(cid)
		ch, err := h.e.chanOpenInit(conn)
		if err != nil {
			h.t.Fatal(err)
		}
		h.e.setChannelOpen(ch, "channel-79")
		h.chans = append(h.chans, c10Chan{ch, 'p', -1})
		return "ok", nil
	case "send":
		c, ok := h.chanByTok(f[1])
		if !ok {
			return "err", nil
		}
		tr := transfertypes.NewMsgTransfer("transfer", c.id, sdk.NewCoin(ibcDenom, math.NewInt(5)), h.e.relayer.String(), "pfa1receiver", clienttypes.NewHeight(1, 100000), 0, "")
		return c10Res(h.deliver(tr)), nil
	case "recv":
		c, ok := h.chanByTok(f[1])
		if !ok {
			return "err", nil
		}
		rc = &c10Recv{ch: c, kind: m["kind"]}
		var data []byte
		switch m["kind"] {
		case "gb":
			g := parseC10GI(m)
			rc.gi = g
			var gb rollapptypes.GenesisBridgeData
			gb.GenesisInfo = rollapptypes.GenesisBridgeInfo{GenesisChecksum: c10Checksum(g.Ck), Bech32Prefix: c10Prefix(g.Pf),
				NativeDenom: rollapptypes.DenomMetadata{Base: c10Denom(g.Nb), Display: c10Denom(g.Nd), Exponent: uint32(g.Ne)}, GenesisAccounts: h.accounts(g)}
			if !g.SupNil {
				gb.GenesisInfo.InitialSupply = math.NewIntFromBigInt(g.Sup)
			}
			md := parseC10MD(m["md"], m["mdshape"])
			gb.NativeDenom = md.metadata(g.Nd)
			rid := ""
			if c.r >= 0 {
				rid = ibcRollappID(c.r)
			}
			so, io := h.mdOracles(gb.NativeDenom, rid, c.id)
			if so != md.SdkOk || io != md.IbcOk {
				return "bad-oracle", rc
			}
			if ft := parseC10FT(m["tr"]); ft != nil {
				rc.ft = ft
				d := h.ftData(ft)
				gb.GenesisTransfer = &d
			}
			var err error
			if data, err = json.Marshal(gb); err != nil {
				h.t.Fatal(err)
			}
			if g.SupNil { // a nil math.Int marshals as "0": leave the field out instead
				var mm map[string]json.RawMessage
				var gm map[string]json.RawMessage
				if json.Unmarshal(data, &mm) != nil || json.Unmarshal(mm["genesis_info"], &gm) != nil {
					h.t.Fatal("re-marshal")
				}
				delete(gm, "initial_supply")
				mm["genesis_info"], _ = json.Marshal(gm)
				data, _ = json.Marshal(mm)
			}
		case "ft":
			ft := parseC10FT(m["tr"])
			if ft == nil {
				return "bad-op", rc
			}
			rc.ft = ft
			data = h.ftData(ft).GetBytes()
		default:
			data = []byte("\x00\x01 not json")
		}
		rc.data = data
		h.seqNo[indexOfChan(h.chans, c.id)]++
		pkt := channeltypes.NewPacket(data, h.seqNo[indexOfChan(h.chans, c.id)], "transfer", "channel-77", "transfer", c.id, clienttypes.NewHeight(1, 100000), 0)
		closedBefore := false
		if c.kind == 'c' {
			if ra, ok := app.RollappKeeper.GetRollapp(h.e.f.Ctx, ibcRollappID(c.r)); ok {
				closedBefore = ra.GenesisState.TransferProofHeight == 0
			}
		}
		recvFn := h.e.recvPacket
		if h.recvFn != nil {
			recvFn = h.recvFn // two-chain fixture: ibc core itself tests the client
		} else if !h.clientActive(c.id) {
			// ibc core's RecvPacket verifies the packet commitment first, and that starts with the status of the channel's
			// client (03-connection VerifyPacketCommitment): under a client that is not active the message fails
			return "err", rc
		}
		ack, et, err := recvFn(pkt, clienttypes.NewHeight(1, atou(m["ph"])))
		if err == nil && ack != nil && ack.Success() && closedBefore {
			h.nOpen[c.r]++
		}
		if err != nil {
			if IsPanic(err) {
				return "panic", rc
			}
			return "err", rc
		}
		if os.Getenv("C10_DEBUG") != "" && et != "" {
			fmt.Fprintln(os.Stderr, "DEBUG ack err:", et)
		}
		rc.isNil = ack == nil
		if ack != nil {
			rc.success = ack.Success()
			return c10AckClass(ack.Acknowledgement(), rc.success, false, et), rc
		}
		return "async", rc
	}
	return "bad-op", nil
}

// clientActive: the status ibc core computes for the client under a channel (the real ClientKeeper.GetClientStatus)
func (h *c10H) clientActive(chanID string) bool {
	k := h.e.f.App.IBCKeeper
	ctx := h.e.f.Ctx
	ch, ok := k.ChannelKeeper.GetChannel(ctx, "transfer", chanID)
	if !ok || len(ch.ConnectionHops) == 0 {
		return true
	}
	conn, ok := k.ConnectionKeeper.GetConnection(ctx, ch.ConnectionHops[0])
	if !ok {
		return true
	}
	cs, ok := k.ClientKeeper.GetClientState(ctx, conn.ClientId)
	if !ok {
		return true
	}
	return k.ClientKeeper.GetClientStatus(ctx, cs, conn.ClientId) == ibcexported.Active
}

func (h *c10H) clientOfActive(clientID string) bool {
	k := h.e.f.App.IBCKeeper.ClientKeeper
	cs, ok := k.GetClientState(h.e.f.Ctx, clientID)
	return !ok || k.GetClientStatus(h.e.f.Ctx, cs, clientID) == ibcexported.Active
}

func indexOfChan(cs []c10Chan, id string) int {
	for i, c := range cs {
		if c.id == id {
			return i
		}
	}
	return -1
}

func fundAlias(e *ibcEnv, alias, creator string) {
	defer func() { _ = recover() }()
	apptesting.FundForAliasRegistration(e.f.App, e.f.Ctx, alias, creator)
}

// ---- snapshot -----------------------------------------------------------------------------------

type c10RaSnap struct {
	Exists, Launched bool
	GI               string
	GIraw            rollapptypes.GenesisInfo
	PreLaunch        string
	Plan             string
	HasPlan          bool
	PlanTE           bool   // plan.TradingEnabled
	PlanStart        string // plan.StartTime in seconds after BaseTime, "-" = the zero time
	Chan             string
	Tph              uint64
	Md               bool
	Bal              map[uint64]*big.Int
	Supply           *big.Int
	Denom            string
	NOpen            int
	LastH            uint64 // latest rollapp height the hub holds a state update for
	Frozen           bool   // the canonical client's FrozenHeight is set
	Rev              uint64 // number of hard forks
}

type c10Snap struct {
	Now   int64
	Ras   []c10RaSnap
	Chans string
	Stray []string // ibc vouchers of pool addresses that belong to no rollapp's canonical channel and no plain channel
}

func (h *c10H) tokOf(s string, f func(uint64) string, cands ...uint64) uint64 {
	for _, c := range cands {
		if f(c) == s {
			return c
		}
	}
	return 99999
}

var c10TokCands = func() []uint64 {
	var out []uint64
	for i := uint64(0); i < 40; i++ {
		out = append(out, i)
	}
	return append(out, 1000)
}()

func (h *c10H) renderGI(gi rollapptypes.GenesisInfo) string {
	sup := "nil"
	if !gi.InitialSupply.IsNil() {
		sup = gi.InitialSupply.String()
	}
	accs := "-"
	if len(gi.Accounts()) > 0 {
		var xs []string
		for _, a := range gi.Accounts() {
			xs = append(xs, fmt.Sprintf("%d:%s", h.tokOf(a.Address, h.addr, c10PoolAll...), a.Amount))
		}
		accs = strings.Join(xs, ";")
	}
	return fmt.Sprintf("%d,%d,%d,%d,%d,%s,%s,%s", h.tokOf(gi.GenesisChecksum, c10Checksum, c10TokCands...), h.tokOf(gi.Bech32Prefix, c10Prefix, c10TokCands...),
		h.tokOf(gi.NativeDenom.Base, c10Denom, c10TokCands...), h.tokOf(gi.NativeDenom.Display, c10Denom, c10TokCands...), gi.NativeDenom.Exponent, sup, accs, b2s(gi.Sealed))
}

var c10PoolAll = func() []uint64 {
	out := append([]uint64(nil), c10Pool...)
	for i := uint64(10); i < 120; i++ {
		if i != c10IroTok {
			out = append(out, i)
		}
	}
	return append(out, 1000)
}()

func (h *c10H) snapshot() *c10Snap {
	app, ctx := h.e.f.App, h.e.f.Ctx
	s := &c10Snap{Now: int64(h.e.f.Time.Sub(BaseTime) / time.Second)}
	chanOwner := map[string]int{}
	for ri := 0; ri < h.nra; ri++ {
		var r c10RaSnap
		ra, ok := app.RollappKeeper.GetRollapp(ctx, ibcRollappID(ri))
		if !ok {
			s.Ras = append(s.Ras, r)
			continue
		}
		r.Exists, r.Launched, r.GIraw, r.GI = true, ra.Launched, ra.GenesisInfo, h.renderGI(ra.GenesisInfo)
		r.PreLaunch = "-"
		if ra.PreLaunchTime != nil {
			r.PreLaunch = strconv.FormatInt(int64(ra.PreLaunchTime.Sub(BaseTime)/time.Second), 10)
		}
		r.Plan, r.PlanStart = "-", "-"
		if p, ok := app.IROKeeper.GetPlanByRollapp(ctx, ra.RollappId); ok {
			r.HasPlan = true
			r.Plan = fmt.Sprintf("%s:%s", p.TotalAllocation.Amount, b2s(p.IsSettled()))
			r.PlanTE = p.TradingEnabled
			if !p.StartTime.IsZero() {
				r.PlanStart = strconv.FormatInt(int64(p.StartTime.Sub(BaseTime)/time.Second), 10)
			}
		}
		r.Chan = "-"
		if ra.ChannelId != "" {
			r.Chan = strings.TrimPrefix(ra.ChannelId, "channel-")
			chanOwner[ra.ChannelId] = ri
		}
		r.Tph = ra.GenesisState.TransferProofHeight
		r.NOpen = h.nOpen[ri]
		r.LastH, _ = app.RollappKeeper.GetLatestHeight(ctx, ra.RollappId)
		r.Rev = uint64(len(ra.Revisions) - 1) // number of hard forks (= the latest revision number, except on the two-chain fixture, whose rollapp starts at revision 2: ibctesting headers carry app version 2)
		if cid, ok := app.LightClientKeeper.GetCanonicalClient(ctx, ra.RollappId); ok {
			if cs, ok := app.IBCKeeper.ClientKeeper.GetClientState(ctx, cid); ok {
				if tm, ok := cs.(*ibctm.ClientState); ok {
					r.Frozen = !tm.FrozenHeight.IsZero()
				}
			}
		}
		r.Bal = map[uint64]*big.Int{}
		r.Supply = big.NewInt(0)
		s.Ras = append(s.Ras, r)
	}
	plain := map[string]bool{}
	for _, c := range h.chans {
		if c.kind == 'p' {
			plain[c.id] = true
		}
	}
	// every ibc voucher held by a pool address is attributed through its denom trace
	seenDenom := map[string]int{}
	for _, tok := range c10Pool {
		a, err := sdk.AccAddressFromBech32(h.addr(tok))
		if err != nil {
			continue
		}
		for _, c := range app.BankKeeper.GetAllBalances(ctx, a) {
			if !strings.HasPrefix(c.Denom, "ibc/") {
				continue
			}
			hash, err := transfertypes.ParseHexHash(strings.TrimPrefix(c.Denom, "ibc/"))
			if err != nil {
				continue
			}
			tr, ok := app.TransferKeeper.GetDenomTrace(ctx, hash)
			p := strings.Split(tr.Path, "/")
			if !ok || len(p) != 2 {
				s.Stray = append(s.Stray, c.Denom)
				continue
			}
			if ri, ok := chanOwner[p[1]]; ok {
				b := s.Ras[ri].Bal[tok]
				if b == nil {
					b = big.NewInt(0)
				}
				s.Ras[ri].Bal[tok] = new(big.Int).Add(b, c.Amount.BigInt())
				seenDenom[c.Denom] = ri
				s.Ras[ri].Denom = c.Denom
			} else if !plain[p[1]] {
				s.Stray = append(s.Stray, c.Denom)
			}
		}
	}
	for d, ri := range seenDenom {
		s.Ras[ri].Supply.Add(s.Ras[ri].Supply, app.BankKeeper.GetSupply(ctx, d).Amount.BigInt())
	}
	for ri := range s.Ras {
		r := &s.Ras[ri]
		if !r.Exists || r.Chan == "-" || r.GIraw.NativeDenom.Base == "" {
			continue
		}
		d := transfertypes.ParseDenomTrace(transfertypes.GetPrefixedDenom("transfer", "channel-"+r.Chan, r.GIraw.NativeDenom.Base)).IBCDenom()
		_, r.Md = app.BankKeeper.GetDenomMetaData(ctx, d)
	}
	var cs []string
	for _, c := range h.chans {
		k := "p"
		if c.kind != 'p' {
			k = fmt.Sprintf("%c%d", c.kind, c.r)
		}
		cs = append(cs, strings.TrimPrefix(c.id, "channel-")+":"+k)
	}
	s.Chans = strings.Join(cs, ",")
	return s
}

func (s *c10Snap) render(res string) string {
	var sb strings.Builder
	fmt.Fprintf(&sb, "res=%s now=%d", res, s.Now)
	for ri, r := range s.Ras {
		if !r.Exists {
			continue
		}
		var toks []uint64
		for t, b := range r.Bal {
			if t == c10IroTok && r.HasPlan {
				continue // after an IRO settlement the module moves its vouchers on (pool, incentives)
			}
			if b.Sign() != 0 {
				toks = append(toks, t)
			}
		}
		sort.Slice(toks, func(i, j int) bool { return toks[i] < toks[j] })
		bal := "-"
		if len(toks) > 0 {
			var xs []string
			for _, t := range toks {
				xs = append(xs, fmt.Sprintf("%d:%s", t, r.Bal[t]))
			}
			bal = strings.Join(xs, ",")
		}
		te := "-"
		if r.HasPlan {
			te = b2s(r.PlanTE)
		}
		fmt.Fprintf(&sb, " | r%d l=%s gi=%s pl=%s plan=%s te=%s ps=%s ch=%s tph=%d no=%d md=%s lh=%d fz=%s rev=%d bal=%s", ri, b2s(r.Launched), r.GI, r.PreLaunch, r.Plan, te, r.PlanStart, r.Chan, r.Tph, r.NOpen, b2s(r.Md), r.LastH, b2s(r.Frozen), r.Rev, bal)
	}
	sb.WriteString(" | chans=" + s.Chans)
	return sb.String()
}

// ---- monitors (model independent) ----------------------------------------------------------------

type c10Mon struct {
	h     *c10H
	r     *Run
	trace []string
	prev  *c10Snap
}

func (m *c10Mon) violate(sig, detail string) {
	m.r.Violate(sig, detail, append([]string(nil), m.trace...)...)
}

// matches: the property's own notion of "the packet's genesis info equals what is registered and
// the genesis transfer equals the sum of the registered accounts to the fixed recipient"
func (m *c10Mon) matches(rc *c10Recv, reg rollapptypes.GenesisInfo) bool {
	if rc.kind != "gb" {
		return false
	}
	h := m.h
	g := rc.gi
	if c10Checksum(g.Ck) != reg.GenesisChecksum || c10Prefix(g.Pf) != reg.Bech32Prefix || c10Denom(g.Nb) != reg.NativeDenom.Base ||
		c10Denom(g.Nd) != reg.NativeDenom.Display || uint32(g.Ne) != reg.NativeDenom.Exponent {
		return false
	}
	if g.SupNil != reg.InitialSupply.IsNil() || (!g.SupNil && g.Sup.Cmp(reg.InitialSupply.BigInt()) != 0) {
		return false
	}
	// accounts as multisets of (address, amount)
	cnt := map[string]int{}
	sum := big.NewInt(0)
	for _, a := range reg.Accounts() {
		cnt[a.Address+"|"+a.Amount.String()]++
		sum.Add(sum, a.Amount.BigInt())
	}
	for _, a := range g.Accs {
		cnt[h.addr(a.Addr)+"|"+a.Amt.String()]--
	}
	for _, v := range cnt {
		if v != 0 {
			return false
		}
	}
	if len(reg.Accounts()) == 0 {
		return rc.ft == nil
	}
	return rc.ft != nil && rc.ft.Recv == 0 && rc.ft.Canon && rc.ft.Amt.Cmp(sum) == 0
}

func c10BalEq(a, b map[uint64]*big.Int) bool {
	for _, t := range c10Pool {
		x, y := a[t], b[t]
		if x == nil {
			x = big.NewInt(0)
		}
		if y == nil {
			y = big.NewInt(0)
		}
		if x.Cmp(y) != 0 {
			return false
		}
	}
	return true
}

func (m *c10Mon) check(op, res string, rc *c10Recv, cur *c10Snap, digestBefore, digestAfter string) {
	prev := m.prev
	m.prev = cur
	if prev == nil {
		return
	}
	f := strings.Fields(op)
	h := m.h
	if len(cur.Stray) > 0 {
		m.violate("C10/credited_exactly/voucher-of-unknown-channel", fmt.Sprint(cur.Stray))
	}
	// genesis_info_frozen: registered genesis info of a launched / IRO rollapp changes only by governance
	for ri := range cur.Ras {
		if ri >= len(prev.Ras) || !prev.Ras[ri].Exists {
			continue
		}
		p, c := prev.Ras[ri], cur.Ras[ri]
		if (p.Launched || p.HasPlan) && p.GI != c.GI && !(f[0] == "force" && strings.Contains(op, "by=gov")) {
			m.violate("C10/genesis_info_frozen/changed-after-launch-or-plan", fmt.Sprintf("r%d %s -> %s by %s", ri, p.GI, c.GI, op))
		}
		if (p.Launched || p.HasPlan) && !strings.HasSuffix(p.GI, ",1") {
			m.violate("C10/genesis_info_frozen/not-sealed", fmt.Sprintf("r%d launched=%v plan=%v gi=%s", ri, p.Launched, p.HasPlan, p.GI))
		}
		// crediting happens only in a successful handshake
		if !(f[0] == "recv" && rc != nil && rc.ch.kind == 'c' && rc.ch.r == ri) && (!c10BalEq(p.Bal, c.Bal) || p.Tph != c.Tph || (p.Md != c.Md && !(f[0] == "premd" && ridx(f[1]) == ri && !p.Md))) {
			m.violate("C10/credited_exactly/bridge-state-changed-outside-handshake", fmt.Sprintf("r%d by %s", ri, op))
		}
		// fork_keeps_bridge: a hard fork (accepted or not) leaves proof height, registered genesis info, credited vouchers and their
		// supply, the bank metadata of the rollapp's IBC denom, the recorded canonical channel, the IRO plan and the launch flag alone
		if f[0] == "fork" && (p.Tph != c.Tph || p.GI != c.GI || !c10BalEq(p.Bal, c.Bal) || p.Md != c.Md || p.Chan != c.Chan || p.Plan != c.Plan ||
			p.Launched != c.Launched || p.Supply.Cmp(c.Supply) != 0) {
			m.violate("C10/fork_keeps_bridge/bridge-state-changed-by-fork", fmt.Sprintf("r%d by %s", ri, op))
		}
	}
	switch f[0] {
	case "fork":
		ri := ridx(f[1])
		if res == "ok" && ri < len(prev.Ras) {
			if !strings.Contains(op, "by=gov") {
				m.violate("C10/fork_guard/accepted-from-non-authority", op)
			}
			if prev.Ras[ri].Tph == 0 {
				m.violate("C10/fork_guard/accepted-while-bridge-closed", op)
			}
			if !cur.Ras[ri].Frozen {
				m.violate("C10/fork_freezes/client-not-frozen-after-fork", op)
			}
			m.r.Hit("fork/accepted")
			if prev.Ras[ri].Frozen {
				m.r.Hit("fork/accepted-while-frozen")
			}
		}
	case "update":
		ri := ridx(f[1])
		if res == "ok" && ri < len(prev.Ras) {
			if cur.Ras[ri].Frozen {
				m.violate("C10/update_reopens/client-still-frozen-after-state-update", op)
			}
			if prev.Ras[ri].Frozen {
				m.r.Hit("update/unfreezes-after-fork")
			}
		}
	case "enable":
		// trading of an IRO plan is switched on by the rollapp's owner only, and only once
		ri := ridx(f[1])
		if res == "ok" {
			if !strings.Contains(op, "by=owner") {
				m.violate("C10/enable_trading/accepted-from-non-owner", op)
			}
			if ri >= len(prev.Ras) || !prev.Ras[ri].HasPlan || prev.Ras[ri].PlanTE {
				m.violate("C10/enable_trading/accepted-without-disabled-plan", op)
			}
		}
	case "send":
		c, ok := h.chanByTok(f[1])
		if ok && c.kind == 's' {
			// closed: nothing is sent over ANY channel of the rollapp's canonical client before the handshake has
			// completed, whether a canonical channel is recorded or not - and over a non-canonical one never
			if res == "ok" {
				if !h.complete[c.r] {
					m.violate("C10/closed/send-allowed-before-handshake", op)
				} else {
					m.violate("C10/closed/send-allowed-non-canonical-channel", op)
				}
			}
			return
		}
		if !ok || c.kind != 'c' {
			return
		}
		if !h.complete[c.r] && res == "ok" {
			m.violate("C10/closed_blocks_outgoing/transfer-sent-before-handshake", op)
		}
		// open_flows: after the handshake transfers flow - unless a hard fork has the canonical client frozen (until the
		// rollapp's next state update), in which case ibc core refuses them
		if h.complete[c.r] && res != "ok" && !prev.Ras[c.r].Frozen {
			m.violate("C10/open_flows/transfer-refused-after-handshake", op)
		}
		if prev.Ras[c.r].Frozen && res == "ok" {
			m.violate("C10/fork_freezes/transfer-sent-over-frozen-client", op)
		}
		if prev.Ras[c.r].Frozen {
			m.r.Hit("send/frozen-client")
		}
	case "recv":
		if rc != nil && rc.ch.kind == 's' {
			// closed: a packet on a channel of the rollapp's canonical client that is not its recorded canonical
			// channel is neither accepted nor passed on to the transfer stack, and changes nothing
			if rc.success || rc.isNil {
				if !h.complete[rc.ch.r] {
					m.violate("C10/closed/recv-accepted-before-handshake", op)
				} else {
					m.violate("C10/closed/recv-accepted-non-canonical-channel", op)
				}
			} else if digestBefore != digestAfter {
				m.violate("C10/closed/state-changed-on-error-ack", op)
			}
			return
		}
		if rc == nil || rc.ch.kind != 'c' {
			return
		}
		ri := rc.ch.r
		p, c := prev.Ras[ri], cur.Ras[ri]
		if !h.complete[ri] {
			if rc.success || rc.isNil {
				// accepted (or passed on) while the bridge was closed
				if !m.matches(rc, p.GIraw) {
					m.violate("C10/first_packet_must_be_handshake/non-matching-packet-accepted", op)
				}
				if rc.isNil {
					m.violate("C10/first_packet_must_be_handshake/packet-passed-on-while-closed", op)
				}
			}
			if rc.success && rc.kind == "gb" {
				// credited_exactly: balance deltas = registered accounts, supply = their sum, metadata, IRO
				want := map[uint64]*big.Int{}
				sum := big.NewInt(0)
				for _, a := range p.GIraw.Accounts() {
					t := h.tokOf(a.Address, h.addr, c10PoolAll...)
					if want[t] == nil {
						want[t] = big.NewInt(0)
					}
					want[t].Add(want[t], a.Amount.BigInt())
					sum.Add(sum, a.Amount.BigInt())
				}
				if p.HasPlan { // the IRO settlement hook spends the module's share right away; the supply check below still covers it
					delete(want, c10IroTok)
					delete(c.Bal, c10IroTok)
				}
				if !c10BalEq(want, c.Bal) || !c10BalEq(map[uint64]*big.Int{}, p.Bal) {
					m.violate("C10/credited_exactly/credits-differ-from-registered-accounts", fmt.Sprintf("want %v got %v", want, c.Bal))
				}
				if c.Supply.Cmp(sum) != 0 {
					m.violate("C10/credited_exactly/voucher-supply-differs-from-sum", fmt.Sprintf("supply %s sum %s", c.Supply, sum))
				}
				if c.Md != (p.GIraw.NativeDenom.Base != "") {
					m.violate("C10/credited_exactly/denom-metadata-not-registered", op)
				}
				if p.HasPlan && !strings.HasSuffix(c.Plan, ":1") {
					m.violate("C10/credited_exactly/iro-plan-not-settled", op)
				}
				if c.Tph == 0 {
					m.violate("C10/open_flows/bridge-still-closed-after-success", op)
				}
				h.complete[ri] = true
				switch {
				case p.HasPlan:
					m.r.Hit("handshake/ok-iro-plan-settled")
				case len(p.GIraw.Accounts()) > 0:
					m.r.Hit("handshake/ok-with-accounts")
				case p.GIraw.NativeDenom.Base != "":
					m.r.Hit("handshake/ok-denom-no-accounts")
				default:
					m.r.Hit("handshake/ok-no-native-denom")
				}
			} else if !rc.success {
				// mismatch_credits_nothing
				if digestBefore != digestAfter || !c10BalEq(p.Bal, c.Bal) || c.Tph != 0 || c.Md != p.Md || c.Plan != p.Plan {
					m.violate("C10/mismatch_credits_nothing/state-changed-on-error-ack", op)
				}
			}
		} else {
			// handshake_once
			if !c10BalEq(p.Bal, c.Bal) || c.Supply.Cmp(p.Supply) != 0 {
				if rc.kind == "gb" {
					m.violate("C10/handshake_once/second-handshake-credited", op)
				}
			}
			if rc.kind == "gb" && rc.success {
				m.violate("C10/handshake_once/second-handshake-acknowledged-success", op)
			}
		}
	}
}

// ---- generator ---------------------------------------------------------------------------------

type c10Gen struct {
	g    *Rng
	h    *c10H
	r    *Run
	reg  map[int]c10GI // what the generator last registered successfully (as a hint only)
	plan map[int]bool
	// deferred-trading flow: rollapps for which a plan with trading disabled was requested, and the
	// follow-up ops (op kind + rollapp) queued after such a request
	deferred map[int]bool
	script   []string
}

// enableLine: MsgEnableTrading for the plan of rollapp ri, by its owner or by somebody else
func (c *c10Gen) enableLine(ri int, r c10RaSnap) string {
	by := "owner"
	if c.g.Chance(25) {
		by = "other"
		c.r.Hit("enable/not-owner")
	}
	switch {
	case !r.HasPlan:
		c.r.Hit("enable/no-plan")
	case r.PlanTE:
		// (a settled plan always has trading enabled here: settlement needs a launched rollapp, i.e. the
		// pre-launch time has passed, which is 10 years away while trading is disabled - the fixture's
		// light clients cannot be created that late, so "settled but never enabled" is model-only)
		c.r.Hit("enable/already-enabled")
	case by == "owner":
		c.r.Hit("enable/disabled-plan-by-owner")
	}
	return fmt.Sprintf("enable r%d by=%s", ri, by)
}

// ownerSetgi: the owner's genesis-info update of a rollapp (fresh valid info, or the registered one with
// another checksum / the IRO allocation re-routed to another account)
func (c *c10Gen) ownerSetgi(ri int, r c10RaSnap) string {
	gi := c.validGI(ri)
	if r.Exists {
		switch c.g.Intn(4) {
		case 3:
			// the registered info resubmitted unchanged (an idempotent client retry), followed by a changing
			// update: a no-op update must not alter anything, the seal included
			gi = c.fromReal(r.GIraw)
			c.r.Hit("setgi/identical-resubmit")
			if r.HasPlan {
				c.r.Hit("setgi/identical-resubmit-after-plan")
			}
			c.script = append([]string{fmt.Sprintf("setgi r%d", ri)}, c.script...)
		case 0:
			gi = c.fromReal(r.GIraw)
			gi.Ck = gi.Ck%3 + 1
		case 1:
			gi = c.fromReal(r.GIraw)
			for i := range gi.Accs {
				if gi.Accs[i].Addr == c10IroTok && gi.Accs[i].Amt.Cmp(big.NewInt(2)) > 0 {
					half := new(big.Int).Rsh(gi.Accs[i].Amt, 1)
					gi.Accs[i].Amt = new(big.Int).Sub(gi.Accs[i].Amt, half)
					gi.Accs = append(gi.Accs, c10Acc{9, half})
					c.r.Hit("setgi/iro-allocation-rerouted")
					break
				}
			}
		}
	}
	if r.HasPlan {
		c.r.Hit("setgi/after-plan")
		switch {
		case !r.PlanTE:
			c.r.Hit("setgi/after-plan-trading-disabled")
		case c.deferred[ri]:
			c.r.Hit("setgi/after-enable")
		}
	}
	return fmt.Sprintf("setgi r%d by=owner %s", ri, gi.line())
}

func (c *c10Gen) validGI(ri int) c10GI {
	g := c.g
	gi := c10GI{Ck: uint64(1 + g.Intn(3)), Pf: uint64(1 + g.Intn(3)), Nb: uint64(1 + g.Intn(3)), Nd: uint64(11 + g.Intn(3)), Ne: 18}
	switch g.Intn(10) {
	case 0, 1: // no native denom
		gi.Nb, gi.Nd, gi.Ne = 0, 0, 0
		gi.Sup = big.NewInt(0)
		c.r.Hit("gi/no-native-denom")
		return gi
	case 2: // denom but no accounts
		gi.Sup = big.NewInt(int64(1 + g.Intn(1000)))
		c.r.Hit("gi/no-accounts")
		return gi
	}
	n := 1 + g.Intn(4)
	perm := []uint64{1, 2, 3, 4, 5, 6}
	for i := range perm {
		j := i + g.Intn(len(perm)-i)
		perm[i], perm[j] = perm[j], perm[i]
	}
	sum := big.NewInt(0)
	for i := 0; i < n; i++ {
		a := c10Acc{perm[i], big.NewInt(int64(1 + g.Intn(500)))}
		gi.Accs = append(gi.Accs, a)
		sum.Add(sum, a.Amt)
	}
	if g.Chance(35) { // IRO account
		alloc := new(big.Int).Mul(big.NewInt(int64(11+g.Intn(1000))), new(big.Int).Exp(big.NewInt(10), big.NewInt(18), nil))
		pos := g.Intn(len(gi.Accs) + 1)
		gi.Accs = append(gi.Accs[:pos], append([]c10Acc{{c10IroTok, alloc}}, gi.Accs[pos:]...)...)
		sum.Add(sum, alloc)
		c.r.Hit("gi/iro-account")
	}
	gi.Sup = new(big.Int).Add(sum, big.NewInt(int64(g.Intn(3))))
	c.r.Hit("gi/accounts")
	return gi
}

func cloneGI(g c10GI) c10GI {
	out := g
	out.Accs = nil
	for _, a := range g.Accs {
		out.Accs = append(out.Accs, c10Acc{a.Addr, new(big.Int).Set(a.Amt)})
	}
	if g.Sup != nil {
		out.Sup = new(big.Int).Set(g.Sup)
	}
	return out
}

// perturbGI changes one field / the account list; returns the name of the perturbation
func (c *c10Gen) perturbGI(gi c10GI) (c10GI, string) {
	g := c.g
	out := cloneGI(gi)
	for try := 0; try < 10; try++ {
		switch g.Intn(23) {
		case 21:
			// same addresses, same total, one unit moved from one account to another: only a per-account
			// comparison of the amounts can tell
			if len(gi.Accs) > 1 {
				i := g.Intn(len(gi.Accs))
				j := (i + 1 + g.Intn(len(gi.Accs)-1)) % len(gi.Accs)
				if out.Accs[i].Amt.Cmp(big.NewInt(1)) > 0 && gi.Accs[i].Addr != gi.Accs[j].Addr {
					out.Accs[i].Amt = new(big.Int).Sub(out.Accs[i].Amt, big.NewInt(1))
					out.Accs[j].Amt = new(big.Int).Add(out.Accs[j].Amt, big.NewInt(1))
					return out, "amounts-redistributed"
				}
			}
		case 22:
			// the amounts of two accounts swapped (a permutation of the amounts, not of the accounts)
			if len(gi.Accs) > 1 {
				i := g.Intn(len(gi.Accs))
				j := (i + 1 + g.Intn(len(gi.Accs)-1)) % len(gi.Accs)
				if out.Accs[i].Amt.Cmp(out.Accs[j].Amt) != 0 && gi.Accs[i].Addr != gi.Accs[j].Addr {
					out.Accs[i].Amt, out.Accs[j].Amt = out.Accs[j].Amt, out.Accs[i].Amt
					return out, "amounts-swapped"
				}
			}
		case 20:
			if gi.isDenomSet() && g.Chance(40) {
				out.Accs = nil
				for i := 0; i < 101; i++ {
					out.Accs = append(out.Accs, c10Acc{uint64(10 + i + i/40), big.NewInt(1)}) // skips token 50
				}
				out.Sup = big.NewInt(1000)
				return out, "accounts-101"
			}
		case 0:
			out.Ck = gi.Ck%3 + 1
			if out.Ck == gi.Ck {
				out.Ck++
			}
			return out, "checksum"
		case 1:
			out.Ck = 0
			return out, "checksum-empty"
		case 2:
			out.Ck = 1000
			return out, "checksum-long"
		case 3:
			out.Pf = gi.Pf + 1
			return out, "prefix"
		case 4:
			out.Pf = 1000
			return out, "prefix-invalid"
		case 5:
			out.Nb = gi.Nb + 1
			return out, "denom-base"
		case 6:
			out.Nd = gi.Nd + 1
			return out, "denom-display"
		case 7:
			out.Ne = 6
			return out, "denom-exponent"
		case 8:
			if gi.Sup != nil {
				out.Sup = new(big.Int).Add(gi.Sup, big.NewInt(1))
				return out, "supply"
			}
		case 9:
			out.SupNil, out.Sup = true, nil
			return out, "supply-nil"
		case 10:
			if len(gi.Accs) > 0 {
				i := g.Intn(len(gi.Accs))
				out.Accs = append(out.Accs[:i], out.Accs[i+1:]...)
				return out, "account-missing"
			}
		case 11:
			out.Accs = append(out.Accs, c10Acc{uint64(7 + g.Intn(3)), big.NewInt(1)})
			return out, "account-extra"
		case 12:
			if len(gi.Accs) > 0 {
				i := g.Intn(len(gi.Accs))
				out.Accs = append(out.Accs, c10Acc{gi.Accs[i].Addr, new(big.Int).Set(gi.Accs[i].Amt)})
				return out, "account-duplicated"
			}
		case 13:
			if len(gi.Accs) > 1 {
				i, j := 0, len(gi.Accs)-1
				out.Accs[i], out.Accs[j] = out.Accs[j], out.Accs[i]
				return out, "accounts-reordered"
			}
		case 14:
			if len(gi.Accs) > 0 {
				i := g.Intn(len(gi.Accs))
				out.Accs[i].Amt = new(big.Int).Add(out.Accs[i].Amt, big.NewInt(1))
				return out, "account-amount"
			}
		case 15:
			if len(gi.Accs) > 0 {
				i := g.Intn(len(gi.Accs))
				out.Accs[i].Addr = uint64(7 + g.Intn(3))
				return out, "account-address"
			}
		case 16:
			if len(gi.Accs) > 1 {
				// duplicate one, drop another: same length, not a permutation
				out.Accs[len(out.Accs)-1] = c10Acc{gi.Accs[0].Addr, new(big.Int).Set(gi.Accs[0].Amt)}
				return out, "account-replaced-by-duplicate"
			}
		case 17:
			if len(gi.Accs) > 0 {
				i := g.Intn(len(gi.Accs))
				out.Accs[i].Amt = big.NewInt(0)
				return out, "account-zero-amount"
			}
		case 18:
			if len(gi.Accs) > 0 {
				out.Accs[0].Addr = 1000
				return out, "account-bad-address"
			}
		case 19:
			out.Nb, out.Nd, out.Ne = 0, 0, 0
			return out, "denom-unset"
		}
	}
	out.Ck = gi.Ck + 1
	return out, "checksum"
}

func (c *c10Gen) mdFor(gi c10GI, perturb bool) c10MD {
	md := c10MD{Base: gi.Nb, Units: [][2]uint64{{gi.Nb, 0}, {gi.Nd, gi.Ne}}, Shape: "ok"}
	if !gi.isDenomSet() {
		return c10MD{Shape: "ok"}
	}
	if perturb {
		switch c.g.Intn(6) {
		case 0:
			md.Base = gi.Nb + 1
			md.Units[0][0] = gi.Nb + 1
			c.r.Hit("md/base-differs")
		case 1:
			md.Units = md.Units[:1]
			c.r.Hit("md/no-display-unit")
		case 2:
			md.Units[1][1] = 6
			c.r.Hit("md/display-exponent-differs")
		case 3:
			md.Shape = "noname"
			c.r.Hit("md/sdk-invalid")
		case 4:
			md.Shape = "aliasdup"
			c.r.Hit("md/alias-duplicate-after-rename")
		case 5:
			md.Units = append(md.Units, [2]uint64{gi.Nd + 5, 24})
			c.r.Hit("md/extra-unit")
		}
	}
	return md
}

func (g c10GI) isDenomSet() bool { return !(g.Nb == 0 && g.Nd == 0 && g.Ne == 0) }

func (g c10GI) sum() *big.Int {
	s := big.NewInt(0)
	for _, a := range g.Accs {
		s.Add(s, a.Amt)
	}
	return s
}

// recvLine builds a `recv` op line; oracles are filled in from the real SDK functions
func (c *c10Gen) recvLine(ch c10Chan, cidx int, snap *c10Snap) string {
	g := c.g
	h := c.h
	ph := 1 + g.Intn(20)
	base := fmt.Sprintf("recv c%s ph=%d", strings.TrimPrefix(ch.id, "channel-"), ph)
	k := g.Intn(100)
	if k < 8 {
		c.r.Hit("recv/junk")
		return base + " kind=junk"
	}
	if k < 25 {
		ft := &c10FT{Denom: uint64(1 + g.Intn(3)), Amt: big.NewInt(int64(1 + g.Intn(50))), Canon: true, Recv: 1, SenderOk: true}
		if g.Chance(15) {
			ft.Amt = big.NewInt(0)
		}
		c.r.Hit("recv/ordinary-transfer")
		return base + " kind=ft tr=" + ft.line()
	}
	// handshake packet derived from the registered genesis info of the channel's rollapp (or any, for plain channels)
	ri := ch.r
	if ri < 0 {
		ri = 0
	}
	var gi c10GI
	if ri < len(snap.Ras) && snap.Ras[ri].Exists {
		gi = c.fromReal(snap.Ras[ri].GIraw)
	} else {
		gi = c.validGI(ri)
	}
	name := "valid"
	perturbTr, perturbMd := false, false
	switch p := g.Intn(100); {
	case p < 45:
	case p < 75:
		gi, name = c.perturbGI(gi)
	case p < 88:
		perturbTr = true
		name = "transfer"
	default:
		perturbMd = true
		name = "metadata"
	}
	c.r.Hit("recv/gb-" + name)
	md := c.mdFor(gi, perturbMd)
	var ft *c10FT
	if len(gi.Accs) > 0 {
		ft = &c10FT{Denom: gi.Nb, Amt: gi.sum(), Canon: true, Recv: 0, SenderOk: true}
		if name != "valid" && name != "transfer" && name != "metadata" && g.Chance(50) && ri < len(snap.Ras) && snap.Ras[ri].Exists {
			// keep the transfer as the registered info wants it, so that only the perturbed field differs
			ft.Amt = c.fromReal(snap.Ras[ri].GIraw).sum()
			if ft.Amt.Sign() == 0 {
				ft = nil
			}
		}
	}
	if perturbTr {
		switch g.Intn(8) {
		case 0:
			if ft != nil {
				ft = nil
				c.r.Hit("tr/missing")
			} else {
				ft = &c10FT{Denom: gi.Nb, Amt: big.NewInt(5), Canon: true, Recv: 0, SenderOk: true}
				c.r.Hit("tr/unexpected")
			}
		case 1:
			if ft != nil {
				ft.Recv = 1
				c.r.Hit("tr/receiver")
			}
		case 2:
			if ft != nil {
				ft.Amt = new(big.Int).Add(ft.Amt, big.NewInt(1))
				c.r.Hit("tr/amount+1")
			}
		case 3:
			if ft != nil {
				ft.Amt = new(big.Int).Sub(ft.Amt, big.NewInt(1))
				c.r.Hit("tr/amount-1")
			}
		case 4:
			if ft != nil {
				ft.Canon = false
				c.r.Hit("tr/amount-non-canonical-string")
			}
		case 5:
			if ft != nil {
				ft.Denom = gi.Nb + 1
				c.r.Hit("tr/denom")
			}
		case 6:
			if ft != nil {
				ft.SenderOk = false
				c.r.Hit("tr/blank-sender")
			}
		case 7:
			if ft != nil {
				ft.Recv = 2
				c.r.Hit("tr/blank-receiver")
			}
		}
	}
	// oracles
	rid := ""
	if ch.r >= 0 {
		rid = ibcRollappID(ch.r)
	}
	md.SdkOk, md.IbcOk = h.mdOracles(md.metadata(gi.Nd), rid, ch.id)
	return fmt.Sprintf("%s kind=gb %s %s tr=%s", base, gi.line(), md.line(), ft.line())
}

// fromReal converts a registered genesis info back to tokens
func (c *c10Gen) fromReal(gi rollapptypes.GenesisInfo) c10GI {
	h := c.h
	out := c10GI{Ck: h.tokOf(gi.GenesisChecksum, c10Checksum, c10TokCands...), Pf: h.tokOf(gi.Bech32Prefix, c10Prefix, c10TokCands...),
		Nb: h.tokOf(gi.NativeDenom.Base, c10Denom, c10TokCands...), Nd: h.tokOf(gi.NativeDenom.Display, c10Denom, c10TokCands...), Ne: uint64(gi.NativeDenom.Exponent)}
	if gi.InitialSupply.IsNil() {
		out.SupNil = true
	} else {
		out.Sup = gi.InitialSupply.BigInt()
	}
	for _, a := range gi.Accounts() {
		out.Accs = append(out.Accs, c10Acc{h.tokOf(a.Address, h.addr, c10PoolAll...), a.Amount.BigInt()})
	}
	return out
}

func (c *c10Gen) next(s *c10Snap, step int) string {
	g := c.g
	h := c.h
	// queued follow-ups of a trading-disabled plan request (interleaved with ordinary ops)
	if len(c.script) > 0 && g.Chance(65) {
		f := strings.Fields(c.script[0])
		c.script = c.script[1:]
		qi := ridx(f[1])
		var qr c10RaSnap
		if qi < len(s.Ras) {
			qr = s.Ras[qi]
		}
		if qr.Exists && !qr.Launched {
			switch f[0] {
			case "setgi":
				return c.ownerSetgi(qi, qr)
			case "enable":
				return c.enableLine(qi, qr)
			case "seq":
				if qr.PreLaunch != "-" && atoi(qr.PreLaunch) > s.Now {
					c.r.Hit("seq/before-pre-launch-time")
					if qr.HasPlan && !qr.PlanTE {
						c.r.Hit("seq/before-pre-launch-time-trading-disabled")
					}
				}
				return "seq " + f[1]
			case "tick":
				c.r.Hit("tick")
				return "tick dt=" + f[2]
			}
		}
	}
	ri := g.Intn(h.nra)
	var r c10RaSnap
	if ri < len(s.Ras) {
		r = s.Ras[ri]
	}
	rt := fmt.Sprintf("r%d", ri)
	// a rollapp progresses: create -> (setgi)* -> (plan) -> tick -> seq -> link -> packets
	if !r.Exists {
		gi := c.validGI(ri)
		switch g.Intn(10) {
		case 0:
			c.r.Hit("create/nil-genesis-info")
			return "create " + rt + " gi=nil"
		case 1:
			var nm string
			gi, nm = c.perturbGI(gi)
			c.r.Hit("create/perturbed-" + nm)
		case 2:
			gi.Accs = append(gi.Accs, c10Acc{c10BlockedTok, big.NewInt(3)})
			gi.Sup = new(big.Int).Add(gi.Sup, big.NewInt(3))
			if !gi.isDenomSet() {
				gi = c.validGI(ri)
			}
			c.r.Hit("create/blocked-genesis-account")
		case 3:
			gi.Ck = 0
			c.r.Hit("create/not-launchable")
		}
		return "create " + rt + " " + gi.line()
	}
	linked := r.Chan != "-"
	_, hasClient := h.canonOf[ri]
	if r.Launched {
		// state updates and hard forks (MsgRollappFraudProposal) of a launched rollapp
		switch u := g.Intn(100); {
		case u < 9 || (r.Frozen && u < 30):
			if r.Frozen {
				c.r.Hit("update/frozen-client")
			} else {
				c.r.Hit("update/active-client")
			}
			n := 3 + g.Intn(12)
			if g.Chance(5) {
				n = 0
				c.r.Hit("update/no-blocks")
			}
			return fmt.Sprintf("update %s n=%d", rt, n)
		case u < 19 && h.seqN+2 <= len(h.e.seqAddr): // (every accepted fork costs a sequencer of the pool at the next state update)
			by := "gov"
			if g.Chance(15) {
				by = "other"
				c.r.Hit("fork/not-authority")
			}
			lo := r.Tph + 1
			if lo < 11 {
				lo = 11
			}
			ht := lo + uint64(g.Intn(int(r.LastH+3)))
			switch g.Intn(8) {
			case 0:
				ht = uint64(g.Intn(int(r.Tph) + 2)) // at or below the proof height (0 included)
				c.r.Hit("fork/at-or-below-proof-height")
			case 1:
				ht = uint64(1 + g.Intn(11))
				c.r.Hit("fork/low-height")
			}
			switch {
			case r.Tph == 0:
				c.r.Hit("fork/bridge-closed")
			case r.LastH == 0:
				c.r.Hit("fork/no-state")
			case !hasClient:
				c.r.Hit("fork/no-canonical-client")
			case ht > r.LastH:
				c.r.Hit("fork/future-height")
			default:
				c.r.Hit("fork/truncating")
			}
			if r.Frozen {
				c.r.Hit("fork/while-frozen")
			}
			return fmt.Sprintf("fork %s by=%s h=%d", rt, by, ht)
		}
	}
	k := g.Intn(100)
	switch {
	case !r.Launched && k < 30:
		gi := c.validGI(ri)
		by := "owner"
		switch g.Intn(8) {
		case 0:
			by = "other"
			c.r.Hit("setgi/not-owner")
		case 1:
			var nm string
			gi, nm = c.perturbGI(gi)
			c.r.Hit("setgi/perturbed-" + nm)
		case 2:
			c.r.Hit("setgi/no-genesis-info")
			return "setgi " + rt + " by=" + by + " gi=nil"
		case 3:
			gi.Sealed = true
			c.r.Hit("setgi/owner-seals")
		}
		if r.HasPlan {
			c.r.Hit("setgi/after-plan")
			switch {
			case !r.PlanTE:
				c.r.Hit("setgi/after-plan-trading-disabled")
			case c.deferred[ri]:
				c.r.Hit("setgi/after-enable")
			}
		}
		return "setgi " + rt + " by=" + by + " " + gi.line()
	case !r.Launched && k < 45:
		// MsgEnableTrading: mostly where it can succeed (plan with trading disabled), sometimes where it cannot
		if (r.HasPlan && !r.PlanTE && g.Chance(60)) || (r.HasPlan && r.PlanTE && g.Chance(20)) || (!r.HasPlan && g.Chance(8)) {
			return c.enableLine(ri, r)
		}
		reg := c.fromReal(r.GIraw)
		alloc := big.NewInt(0)
		for _, a := range reg.Accs {
			if a.Addr == c10IroTok {
				alloc = a.Amt
			}
		}
		by := "owner"
		switch g.Intn(8) {
		case 0:
			by = "other"
			c.r.Hit("plan/not-owner")
		case 1:
			alloc = new(big.Int).Add(alloc, big.NewInt(1))
			c.r.Hit("plan/allocation-mismatch")
		}
		if alloc.Sign() == 0 {
			alloc = new(big.Int).Exp(big.NewInt(10), big.NewInt(20), nil)
			c.r.Hit("plan/no-iro-account")
		}
		dur := 600 * (1 + g.Intn(3))
		te := 1
		if g.Chance(35) {
			// deferred trading: MsgCreatePlan.trading_enabled = false, MsgEnableTrading later
			te = 0
			c.r.Hit("plan/trading-disabled")
			c.deferred[ri] = true
			if g.Chance(60) {
				// the owner tries to change the genesis info and to launch before and after enabling trading
				c.script = append(c.script, "setgi "+rt, "seq "+rt, "enable "+rt, "setgi "+rt, "seq "+rt,
					fmt.Sprintf("tick %s %d", rt, dur), "seq "+rt)
			}
		} else {
			c.r.Hit("plan/trading-enabled")
		}
		start := ""
		switch g.Intn(5) {
		case 0: // MsgCreatePlan.start_time in the future
			start = fmt.Sprintf(" start=%d", s.Now+int64(60*(1+g.Intn(20))))
			c.r.Hit(fmt.Sprintf("plan/start-time-future-te%d", te))
		case 1: // ... in the past (or now)
			start = fmt.Sprintf(" start=%d", s.Now-int64(g.Intn(int(s.Now)+1)))
			c.r.Hit(fmt.Sprintf("plan/start-time-past-te%d", te))
		}
		return fmt.Sprintf("plan %s by=%s alloc=%s dur=%d te=%d%s", rt, by, alloc, dur, te, start)
	case !r.Launched && k < 60:
		c.r.Hit("tick")
		return fmt.Sprintf("tick dt=%d", 300*(1+g.Intn(5)))
	case !r.Launched:
		if r.PreLaunch != "-" && atoi(r.PreLaunch) > s.Now {
			c.r.Hit("seq/before-pre-launch-time")
			if r.HasPlan && !r.PlanTE {
				c.r.Hit("seq/before-pre-launch-time-trading-disabled")
			}
		}
		return "seq " + rt
	case !linked && !hasClient && k < 30:
		return "link " + rt
	case !linked && !hasClient && k < 62:
		c.r.Hit("canon/client-before-channel")
		return "canon " + rt
	case !linked && !hasClient && k < 70:
		return "tick dt=60"
	case !linked && hasClient && k < 22:
		c.r.Hit("chopen/ack-records-canonical-channel")
		return "chopen " + rt + " via=ack"
	case !linked && hasClient && k < 36:
		c.r.Hit("chopen/nested-ack-no-canonical-channel")
		return "chopen " + rt + " via=nested"
	case !linked && hasClient && k < 50:
		c.r.Hit("chopen/try-confirm-no-canonical-channel")
		return "chopen " + rt + " via=try"
	case !linked && hasClient:
		// packets / transfers on the channels opened so far over the canonical client (below)
	case k < 8:
		gi := c.validGI(ri)
		if g.Chance(50) {
			gi = c.fromReal(r.GIraw)
			gi.Ck = gi.Ck%3 + 1
		}
		c.r.Hit("setgi/after-launch")
		return "setgi " + rt + " by=owner " + gi.line()
	case k < 11:
		gi := c.validGI(ri)
		by := "owner"
		if g.Chance(30) && !linked {
			by = "gov"
		}
		c.r.Hit("force/by-" + by)
		return "force " + rt + " by=" + by + " " + gi.line()
	case k < 14:
		switch g.Intn(4) {
		case 0:
			c.r.Hit("chopen/ack-canonical-channel-exists")
			return "chopen " + rt + " via=ack"
		case 1:
			c.r.Hit("chopen/nested-ack-canonical-channel-exists")
			return "chopen " + rt + " via=nested"
		case 2:
			c.r.Hit("chopen/try-confirm-canonical-channel-exists")
			return "chopen " + rt + " via=try"
		}
		return "link2 " + rt
	case k < 15 && !h.complete[ri]:
		c.r.Hit("premd/before-handshake")
		return "premd " + rt
	case k < 15:
		c.r.Hit("premd/after-handshake")
		return "premd " + rt
	case k < 17:
		return "plainch"
	case k < 19:
		return "tick dt=60"
	case k < 21:
		return "seq " + rt
	case k < 23:
		return c.enableLine(ri, r) // launched: the plan (if any) has trading enabled, or was settled
	}
	if len(h.chans) == 0 {
		if hasClient {
			return "chopen " + rt + " via=try"
		}
		return "link " + rt
	}
	// packets and transfers on some channel, biased towards this rollapp's canonical one (while none is
	// recorded: towards the channels opened over its canonical client)
	ci := g.Intn(len(h.chans))
	if g.Chance(70) {
		for i, ch := range h.chans {
			if ch.r == ri && (ch.kind == 'c' || (ch.kind == 's' && !linked)) {
				ci = i
			}
		}
	}
	ch := h.chans[ci]
	phase := "before"
	if ch.kind == 'c' && h.complete[ch.r] {
		phase = "after"
	}
	if ch.kind == 's' {
		switch {
		case ch.r < len(s.Ras) && s.Ras[ch.r].Chan == "-":
			phase = "no-canonical-channel"
		case !h.complete[ch.r]:
			phase = "other-canonical-before"
		default:
			phase = "other-canonical-after"
		}
	}
	if g.Chance(25) {
		c.r.Hit(fmt.Sprintf("send/%c-%s", ch.kind, phase))
		return "send c" + strings.TrimPrefix(ch.id, "channel-")
	}
	c.r.Hit(fmt.Sprintf("recv/%c-%s", ch.kind, phase))
	return c.recvLine(ch, ci, s)
}

func c10RunTrace(t *testing.T, r *Run, lines []string, gen func(h *c10H, s *c10Snap, i int) string, nOps int) {
	if len(lines) > 0 && c10IsCoordTrace(lines[0]) {
		c10CoordRunTrace(t, r, lines) // two-chain fixture, see c10_coord_test.go
		return
	}
	h := newC10H(t)
	mon := &c10Mon{h: h, r: r}
	hash := sha256.New()
	accepted := 0
	i := 0
	var s *c10Snap
	for {
		var op string
		if lines != nil {
			if i >= len(lines) {
				break
			}
			op = lines[i]
		} else {
			if i > nOps {
				break
			}
			if i == 0 {
				op = "reset nra=2"
			} else {
				op = gen(h, s, i)
			}
		}
		i++
		mon.trace = append(mon.trace, op)
		f := strings.Fields(op)
		if f[0] == "reset" {
			h.nra = int(atou(parseKV(f)["nra"]))
			s = h.snapshot()
			r.Emit(op, s.render("ok"))
			mon.check(op, "ok", nil, s, "", "")
			continue
		}
		before := ""
		if f[0] == "recv" {
			before = h.e.f.StoreDigest("rollapp", "bank", "iro", "denommetadata", "transfer", "delayedack")
		}
		res, rc := h.exec(op)
		after := ""
		if f[0] == "recv" {
			after = h.e.f.StoreDigest("rollapp", "bank", "iro", "denommetadata", "transfer", "delayedack")
		}
		s = h.snapshot()
		r.Emit(op, s.render(res))
		mon.check(op, res, rc, s, before, after)
		r.Hit(f[0] + "/" + strings.SplitN(res, ":", 2)[0])
		if strings.HasPrefix(res, "err:") {
			r.Hit("ack/" + res)
		}
		hash.Write([]byte(f[0] + "/" + res + ";"))
		if res == "ok" && f[0] != "tick" {
			accepted++
		}
		if res == "blockfail" {
			mon.violate("C11/block/tick-failed", "Begin/EndBlocker returned an error or panicked")
		}
	}
	r.Class(fmt.Sprintf("%x", hash.Sum(nil)[:8]), accepted > 0)
	r.Trace()
}

// c10Directed: fixed traces run before the random walks, so that even the smallest run contains the
// deferred-trading flow (IRO plan created with trading disabled, MsgEnableTrading later) end to end.
func c10Directed() [][]string {
	const alloc = "11000000000000000000"
	const sum = "11000000000000000010"
	gi := func(ck int, accs string) string {
		return fmt.Sprintf("ck=%d pf=1 nb=1 nd=11 ne=18 sup=%s accs=%s sealed=0", ck, sum, accs)
	}
	reg := "1:10;50:" + alloc
	rerouted := "1:10;50:5500000000000000000;9:5500000000000000000"
	hs := "recv c0 ph=7 kind=gb " + gi(1, reg) + " md=1/1:0,11:18/1/1 mdshape=ok tr=1/" + sum + "/1/0/1"
	gi2 := "ck=1 pf=1 nb=1 nd=11 ne=18 sup=30 accs=1:10;2:20 sealed=0"
	hs2 := "recv cX ph=7 kind=gb " + gi2 + " md=1/1:0,11:18/1/1 mdshape=ok tr=1/30/1/0/1"
	return [][]string{
		{ // plan with trading disabled seals; the owner's updates are refused before and after MsgEnableTrading; handshake settles
			"reset nra=2",
			"create r0 gi=nil",
			"setgi r0 by=owner " + gi(1, reg),
			"tick dt=100",
			"plan r0 by=owner alloc=" + alloc + " dur=600 te=0",
			"setgi r0 by=owner " + gi(2, reg),
			"setgi r0 by=owner " + gi(1, rerouted),
			"seq r0",
			"enable r0 by=other",
			"enable r1 by=owner",
			"tick dt=50",
			"enable r0 by=owner",
			"setgi r0 by=owner " + gi(2, reg),
			"setgi r0 by=owner " + gi(1, rerouted),
			"enable r0 by=owner",
			"seq r0",
			"tick dt=600",
			"seq r0",
			"link r0",
			"send c0",
			hs,
			"send c0",
			"enable r0 by=owner",
		},
		{ // sealed by a plan: the registered info resubmitted unchanged, then the re-routing update
			"reset nra=2",
			"create r0 " + gi(1, reg),
			"plan r0 by=owner alloc=" + alloc + " dur=600",
			"setgi r0 by=owner " + gi(1, reg),
			"setgi r0 by=owner " + gi(1, rerouted),
			"setgi r0 by=owner " + gi(2, reg),
			"tick dt=600",
			"seq r0",
			"link r0",
			hs,
		},
		{ // the same plan with the flag set, in the old line format (no te= token)
			"reset nra=2",
			"create r0 " + gi(1, reg),
			"plan r0 by=owner alloc=" + alloc + " dur=600",
			"enable r0 by=owner",
			"setgi r0 by=owner " + gi(2, reg),
			"tick dt=600",
			"seq r0",
			"link r0",
			hs,
		},
		{ // MsgCreatePlan.start_time: refused without trading_enabled; in the future it moves the start of trading and the pre-launch time
			"reset nra=2",
			"create r0 " + gi(1, reg),
			"tick dt=100",
			"plan r0 by=owner alloc=" + alloc + " dur=600 te=0 start=400",
			"plan r0 by=owner alloc=" + alloc + " dur=600 te=1 start=400",
			"tick dt=700",
			"seq r0",
			"tick dt=300",
			"seq r0",
			"link r0",
			hs,
		},
		{ // ... in the past it is moved up to the block time
			"reset nra=2",
			"create r0 " + gi(1, reg),
			"tick dt=100",
			"plan r0 by=owner alloc=" + alloc + " dur=600 te=1 start=40",
			"tick dt=500",
			"seq r0",
			"tick dt=100",
			"seq r0",
		},
		{ // channels over the canonical client that the ante hook never saw (handshake started from the rollapp: Try/Confirm;
			// MsgChannelOpenAck nested in authz.MsgExec): no canonical channel is recorded, and nothing flows in either
			// direction - before a canonical channel exists, before the handshake on it, and after
			"reset nra=2",
			"create r0 " + gi2,
			"seq r0",
			"canon r0",
			"chopen r0 via=try",
			"send c0",
			"recv c0 ph=3 kind=ft tr=1/5/1/1/1",
			strings.Replace(hs2, "recv cX", "recv c0", 1),
			"chopen r0 via=nested",
			"send c1",
			"recv c1 ph=3 kind=ft tr=1/5/1/1/1",
			strings.Replace(hs2, "recv cX", "recv c1", 1),
			"plainch",
			"chopen r0 via=ack",
			"send c3",
			"recv c3 ph=3 kind=ft tr=1/5/1/1/1",
			strings.Replace(hs2, "recv cX", "recv c0", 1),
			"send c0",
			strings.Replace(hs2, "recv cX", "recv c3", 1),
			"send c3",
			"send c0",
			"send c1",
			"recv c1 ph=9 kind=ft tr=1/5/1/1/1",
			strings.Replace(hs2, "recv cX", "recv c1", 1),
			"chopen r0 via=ack",
			"chopen r0 via=try",
			"send c5",
			"recv c5 ph=9 kind=ft tr=1/5/1/1/1",
			"recv c3 ph=9 kind=ft tr=1/5/1/1/1",
		},
		{ // metadata of the rollapp's IBC denom registered by governance before the handshake: the handshake's own
			// CreateDenomMetadata fails, the bridge stays closed
			"reset nra=2",
			"create r0 " + gi2,
			"seq r0",
			"premd r0",
			"link r0",
			"premd r0",
			"premd r0",
			strings.Replace(hs2, "recv cX", "recv c0", 1),
			"send c0",
			strings.Replace(hs2, "recv cX", "recv c0", 1),
		},
		{ // hard fork (MsgRollappFraudProposal): refused while the bridge is closed, from a non-authority, at or below the proof height;
			// accepted, it freezes the canonical client - nothing in or out - and leaves proof height / credits / metadata alone;
			// a second fork while frozen; the next state update re-opens; a repeated handshake packet is then passed on
			"reset nra=2",
			"create r0 " + gi2,
			"update r0 n=3",
			"seq r0",
			"link r0",
			"fork r0 by=gov h=12",
			"update r0 n=12",
			"fork r0 by=gov h=12",
			strings.Replace(hs2, "recv cX", "recv c0", 1),
			"send c0",
			"fork r0 by=other h=12",
			"fork r0 by=gov h=7",
			"fork r0 by=gov h=8",
			"fork r0 by=gov h=0",
			"fork r1 by=gov h=12",
			"chopen r0 via=try",
			"fork r0 by=gov h=12",
			"send c0",
			"recv c0 ph=9 kind=ft tr=1/5/1/1/1",
			strings.Replace(hs2, "recv cX", "recv c0", 1),
			"recv c1 ph=9 kind=ft tr=1/5/1/1/1",
			"send c1",
			"fork r0 by=gov h=30",
			"update r0 n=0",
			"update r0 n=3",
			"send c0",
			"recv c0 ph=9 kind=ft tr=1/5/1/1/1",
			strings.Replace(hs2, "recv cX", "recv c0", 1),
			"recv c1 ph=9 kind=ft tr=1/5/1/1/1",
			"fork r0 by=gov h=13",
			"update r0 n=5",
			"send c0",
		},
		{ // a fork below the only consensus state the canonical client holds (height 10) finds nothing to freeze at
			"reset nra=2",
			"create r0 " + gi2,
			"seq r0",
			"link r0",
			"update r0 n=9",
			strings.Replace(hs2, "recv cX", "recv c0", 1),
			"fork r0 by=gov h=12",
			"update r0 n=4",
			"fork r0 by=gov h=10",
			"fork r0 by=gov h=11",
			"send c0",
			"update r0 n=1",
			"send c0",
		},
		{ // trading never enabled: the rollapp stays unlaunchable for 10 years
			"reset nra=2",
			"create r0 " + gi(1, reg),
			"plan r0 by=owner alloc=" + alloc + " dur=600 te=0",
			"tick dt=3000",
			"seq r0",
			"setgi r0 by=owner " + gi(2, reg),
			"force r0 by=gov " + gi(2, reg),
			"enable r0 by=owner",
			"seq r0",
			"tick dt=600",
			"seq r0",
		},
	}
}

func TestC10(t *testing.T) {
	r := NewRun(t, "C10")
	defer r.Close()
	if lines := ReplayLines(); lines != nil {
		// a replay file may hold several traces (C12 / C18 replay whole generated histories): each
		// starts at its `reset` line on a fresh fixture
		for _, tr := range SplitTraces(lines) {
			c10RunTrace(t, r, tr, nil, 0)
		}
		return
	}
	for _, lines := range c10Directed() {
		r.Hit("directed/deferred-trading-trace")
		c10RunTrace(t, r, lines, nil, 0)
	}
	for _, d := range c10CoordDirected() {
		r.Hit("directed/coord-trace/" + d.name) // the branches themselves are hit from the outcomes (c10CoordH.branch)
		c10RunTrace(t, r, d.lines, nil, 0)
	}
	nTraces, nOps := r.N(220, 4000), r.N(45, 60)
	for tr := 0; tr < nTraces; tr++ {
		g := ibcTraceRng(r.Seed, tr)
		var gen *c10Gen
		c10RunTrace(t, r, nil, func(h *c10H, s *c10Snap, i int) string {
			if gen == nil {
				gen = &c10Gen{g: g, h: h, r: r, reg: map[int]c10GI{}, plan: map[int]bool{}, deferred: map[int]bool{}}
			}
			return gen.next(s, i)
		}, nOps)
	}
}

var _ = errors.New
