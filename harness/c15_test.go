package harness

import (
	"context"
	"crypto/sha256"
	"fmt"
	"sort"
	"strconv"
	"strings"
	"testing"
	"time"

	"cosmossdk.io/math"
	sdk "github.com/cosmos/cosmos-sdk/types"
	authtypes "github.com/cosmos/cosmos-sdk/x/auth/types"
	banktestutil "github.com/cosmos/cosmos-sdk/x/bank/testutil"
	stakingtypes "github.com/cosmos/cosmos-sdk/x/staking/types"
	epochstypes "github.com/osmosis-labs/osmosis/v15/x/epochs/types"

	inctypes "github.com/dymensionxyz/dymension/v3/x/incentives/types"
	lockuptypes "github.com/dymensionxyz/dymension/v3/x/lockup/types"
	rollapptypes "github.com/dymensionxyz/dymension/v3/x/rollapp/types"
	sponstypes "github.com/dymensionxyz/dymension/v3/x/sponsorship/types"
	"github.com/dymensionxyz/dymension/v3/x/streamer"
	streamerkeeper "github.com/dymensionxyz/dymension/v3/x/streamer/keeper"
	streamertypes "github.com/dymensionxyz/dymension/v3/x/streamer/types"
)

// C15 — incentive payouts never exceed what was funded.
//
// Line protocol (model ops; see lean/DymVerif/Driver/C15.lean):
//   reset <now> <maxIter> <nd> <na>
//   begin <dtSeconds> | end | maxiter <n> | fund <addr> <c0,c1> | locks <owner:denom:amt:dur>...
//   rollapp <r> <owner> <launched> | rgauge <r>
//   mkgauge <owner> <perpetual> <lockDenom> <durSeconds> <c0,c1> <start> <numEpochs>
//   addgauge <owner> <gaugeId> <c0,c1>
//   mkstream <c0,c1> <g:w,...|-> <start> <epochId> <numEpochs> [s] | term <id> | replace <id> <g:w,...>
//     (trailing `s`: CreateStreamProposal{Sponsored: true}; its records are ignored by the chain)
//   update <id> <g:w,...>: UpdateStreamDistributionProposal
//   distribution <g:w,...|->: the current x/sponsorship distribution (input of the model, derived from the real
//     keeper after every op that changed it, never taken from a file)
//   poolgauges <denomIdx> <hasSupply>: Hooks.AfterPoolCreated(poolId = denomIdx-10) -> CreatePoolGauge; lock denom
//     index denomIdx (>= 10) is the pool's share denom gamm/pool/<poolId>; hasSupply=1: the shares are minted to
//     the actors first
// Harness-only sponsorship lines: delegate <actor> <dym> (real MsgDelegate to the genesis validator),
// vote <actor> <g:pct,...> (real MsgVote, weights in percent), revoke <actor> (real MsgRevokeVote).
// Harness-only lines (executed on the real lockup / rollapp module; the model answers them with the constant
// observation `harness-only`; the resulting lock table is handed to the model by a `locks` line):
// lock <owner> <denom> <amt> <dur>, unlock <owner> <lockId>;
// xferowner <r> <newOwner>: real MsgTransferOwnership (on success the model gets a `rollapp` line).
// forceowner <r> <newOwner>: FAULT INJECTION, harness-only: writes the owner straight into the real rollapp store
// (RollappKeeper.SetRollapp), bypassing MsgTransferOwnership; the model gets the `rollapp` line.  Since fix F4
// (64b101c36) the message refuses blocked addresses, so `forceowner r 102` produces a state OUTSIDE the reachable
// ones; it is there to exercise the failing-recipient path of Distribute (epoch hooks rolled back as a whole).
// Observation of `begin` / `end` with outcome ok: the state is followed by ` D=[a:c0,c1 …] H=[gid:c0,c1 …]`:
// D = per account (actors, fresh addresses; module accounts excluded) the REAL balance delta over the op,
// H = per gauge the REAL delta of DistributedCoins over the op; non-zero entries only, ascending.  The driver
// prints there what the specification functions dueG / dueTotal (Lemmas/IncentDue: blockDue, blockHandout)
// compute on the state before the op.
// They are part of ops.txt, so a replay of ops.txt (C12's replicas) executes the real messages; the `locks`
// line and the `rollapp` line that follow them in a file are derived again, never taken from the file.
// Addresses: 0..na-1 actors, 100 streamer module, 101 incentives module, 102 lockup module (blocked),
// 200.. fresh addresses: deterministic (Actor(n)), never funded, WITHOUT an x/auth account until a payout
// creates one (C12: account numbers are handed out in payment order).  Their reward balances are printed
// after the fixed ones (ascending address, non-zero only).
// Times: seconds since BaseTime + c15T0; 0 is the zero time.  Epoch ids: 0 day, 1 hour, 2 week.

const c15T0 = 1000000
const c15ND = 2
const c15NA = 6
const c15Fresh0 = 200 // first fresh (account-less) address

var c15Reward = []string{"rwa", "rwb"}
var c15Epochs = []string{"day", "hour", "week"}

func c15Addr(a int) sdk.AccAddress {
	switch a {
	case 100:
		return authtypes.NewModuleAddress(streamertypes.ModuleName)
	case 101:
		return authtypes.NewModuleAddress(inctypes.ModuleName)
	case 102:
		return authtypes.NewModuleAddress(lockuptypes.ModuleName)
	}
	return Actor(a)
}

func c15LockDenom(i int) string {
	if i >= 10 {
		return fmt.Sprintf("gamm/pool/%d", i-10) // gammtypes.GetPoolShareDenom
	}
	return fmt.Sprintf("lk%d", i)
}
func c15RollappID(r int) string { return fmt.Sprintf("rolx%s_%d-1", string(rune('a'+r%26)), 7000+r) }

func c15Coins(tok string) sdk.Coins {
	cs := sdk.NewCoins()
	if tok == "-" {
		return cs
	}
	for i, p := range strings.Split(tok, ",") {
		v, ok := math.NewIntFromString(p)
		if !ok {
			panic("bad coins token " + tok)
		}
		if v.IsPositive() && i < len(c15Reward) {
			cs = cs.Add(sdk.NewCoin(c15Reward[i], v))
		}
	}
	return cs
}

func c15ShowCoins(cs sdk.Coins) string {
	p := make([]string, c15ND)
	for i := range p {
		p[i] = cs.AmountOf(c15Reward[i]).String()
	}
	return strings.Join(p, ",")
}

func c15Recs(tok string) []streamertypes.DistrRecord {
	out := []streamertypes.DistrRecord{}
	if tok == "-" {
		return out
	}
	for _, p := range strings.Split(tok, ",") {
		gw := strings.Split(p, ":")
		g, _ := strconv.ParseUint(gw[0], 10, 64)
		w, _ := math.NewIntFromString(gw[1])
		out = append(out, streamertypes.DistrRecord{GaugeId: g, Weight: w})
	}
	return out
}

// c15World is one running chain (the primary, or the shadow that pages with an unlimited budget).
type c15World struct {
	f      *Fix
	halted bool
	pay    *c15PayRec // payouts of the incentives module account seen during the running block op
	fresh  []int      // fresh addresses (>= c15Fresh0) that became rollapp owners in this trace, ascending
	pools  []int      // lock denom indexes (10 + poolId) of the pools whose share denom was minted
}

// distrLine renders the real sponsorship distribution as the model's input line
func (w *c15World) distrLine() string {
	d, err := w.f.App.SponsorshipKeeper.GetDistribution(w.f.Ctx)
	if err != nil {
		panic(err)
	}
	p := []string{}
	for _, g := range d.Gauges {
		p = append(p, fmt.Sprintf("%d:%s", g.GaugeId, g.Power))
	}
	if len(p) == 0 {
		return "distribution -"
	}
	return "distribution " + strings.Join(p, ",")
}

func c15ShowRecs(rs []streamertypes.DistrRecord) string {
	if len(rs) == 0 {
		return "-"
	}
	p := []string{}
	for _, r := range rs {
		p = append(p, fmt.Sprintf("%d*%s", r.GaugeId, r.Weight))
	}
	return strings.Join(p, "+")
}

func (w *c15World) addFresh(a int) {
	if a < c15Fresh0 {
		return
	}
	for _, x := range w.fresh {
		if x == a {
			return
		}
	}
	w.fresh = append(w.fresh, a)
	sort.Ints(w.fresh)
}

// accts: every address that may legitimately gain reward coins in a block (actors + fresh owners)
func (w *c15World) accts() []int {
	out := []int{}
	for a := 0; a < c15NA; a++ {
		out = append(out, a)
	}
	return append(out, w.fresh...)
}

// c15Batch is one call of x/incentives Distribute as seen from the bank: all gauges are updated first,
// then every recipient is paid once.  prev / cur are the real gauges before / after the call's updates.
type c15Batch struct {
	prev, cur map[uint64]inctypes.Gauge
	paid      map[string]sdk.Coins
}

// c15PayRec records, through a bank send restriction that changes nothing, every payment the incentives
// module account makes while a Begin/EndBlock runs, grouped into Distribute calls: a payment seen with a
// gauge table different from the one of the previous payment starts a new call.
type c15PayRec struct {
	armed   bool
	last    map[uint64]inctypes.Gauge
	lastKey string
	batches []*c15Batch
}

func c15GaugeTable(gs []inctypes.Gauge) (map[uint64]inctypes.Gauge, string) {
	m := map[uint64]inctypes.Gauge{}
	sort.Slice(gs, func(i, j int) bool { return gs[i].Id < gs[j].Id })
	var b strings.Builder
	for _, g := range gs {
		m[g.Id] = g
		fmt.Fprintf(&b, "%d:%s:%s:%d;", g.Id, g.Coins, g.DistributedCoins, g.FilledEpochs)
	}
	return m, b.String()
}

func (p *c15PayRec) arm(pre []inctypes.Gauge) {
	p.last, p.lastKey = c15GaugeTable(append([]inctypes.Gauge(nil), pre...))
	p.batches, p.armed = nil, true
}

func (p *c15PayRec) observe(ctx sdk.Context, f *Fix, to sdk.AccAddress, amt sdk.Coins) {
	cur, key := c15GaugeTable(f.App.IncentivesKeeper.GetGauges(ctx))
	if key != p.lastKey || len(p.batches) == 0 {
		p.batches = append(p.batches, &c15Batch{prev: p.last, cur: cur, paid: map[string]sdk.Coins{}})
		p.last, p.lastKey = cur, key
	}
	b := p.batches[len(p.batches)-1]
	b.paid[to.String()] = b.paid[to.String()].Add(amt...)
}

type c15Trace struct {
	r         *Run
	w         *c15World // primary
	sh        *c15World // shadow: same ops, MaxIterationsPerBlock = unlimited
	shadowOK  bool      // still comparable
	lines     []string  // replay lines of this trace
	kinds     []string  // op-kind/outcome sequence (class key)
	accepted  bool
	lastLocks string
	lastDistr string
	skipLine  string          // the `rollapp` line emitted by a successful xferowner (skipped when a file repeats it)
	noAcct    map[string]bool // fresh addresses (bech32) that had no x/auth account before the running op
	// facts about the trace used to name what fails
	everUnsorted   bool
	midEpochJoin   bool
	sharesExceeded bool
	blockedOwner   bool
	servedTwice    bool
	ptrStreamGone  bool // a stream was terminated while its epoch's pointer pointed into it
	// per stream: distributed coins at the start of its current epoch, the most one epoch may hand out
	// (sum of the real CalculateGaugeRewards over its records), and whether its records were replaced
	epochBase   map[uint64]sdk.Coins
	epochMax    map[uint64]sdk.Coins
	epochExempt map[uint64]bool
	retargeted  map[uint64]bool   // streams whose records were replaced (outside the paging clause's quantifier)
	epochRecs   map[uint64]string // sponsored streams: the records seen last
}

// cause names why a stream could hand out more than it holds, from facts observed earlier in the trace
func (t *c15Trace) cause() string {
	switch {
	case t.servedTwice:
		return "pair-served-twice"
	case t.sharesExceeded:
		return "share-rounding"
	case len(t.retargeted) > 0:
		return "records-replaced" // governance re-targeted a stream's records (possibly in the middle of an epoch)
	}
	return "unexplained"
}

func c15Time(f *Fix) int64 { return int64(f.Time.Sub(BaseTime)/time.Second) + c15T0 }
func c15ToTime(t int64) time.Time {
	if t == 0 {
		return time.Time{}
	}
	return BaseTime.Add(time.Duration(t-c15T0) * time.Second)
}

func c15NewWorld(t *testing.T, maxIter uint64) *c15World {
	f := NewFix(t)
	for i := 0; i < 6; i++ { // lockup auto-withdraw starts at height 6
		if err := f.Begin(time.Second); err != nil {
			t.Fatal(err)
		}
		if err := f.End(); err != nil {
			t.Fatal(err)
		}
	}
	// epochs start counting now (the test genesis starts them in year 1)
	for _, e := range f.App.EpochsKeeper.AllEpochInfos(f.Ctx) {
		f.App.EpochsKeeper.DeleteEpochInfo(f.Ctx, e.Identifier)
		if err := f.App.EpochsKeeper.AddEpochInfo(f.Ctx, epochstypes.EpochInfo{Identifier: e.Identifier, StartTime: f.Time, Duration: e.Duration, CurrentEpochStartTime: f.Time}); err != nil {
			t.Fatal(err)
		}
	}
	f.App.StreamerKeeper.SetParams(f.Ctx, streamertypes.NewParams(maxIter))
	big := math.NewIntWithDecimal(1, 40)
	for a := 0; a < c15NA; a++ {
		f.Fund(Actor(a), sdk.NewCoin("stake", big), sdk.NewCoin(c15LockDenom(0), big), sdk.NewCoin(c15LockDenom(1), big))
	}
	w := &c15World{f: f, pay: &c15PayRec{}}
	inc := c15Addr(101)
	watch := func() {
		f.App.BankKeeper.AppendSendRestriction(func(ctx context.Context, from, to sdk.AccAddress, amt sdk.Coins) (sdk.AccAddress, error) {
			if w.pay.armed && from.Equals(inc) {
				w.pay.observe(sdk.UnwrapSDKContext(ctx), f, to, amt)
			}
			return to, nil
		})
	}
	watch()
	f.Rebind = append(f.Rebind, watch) // C18 continue-after-import: the imported application's bank keeper is watched as well
	return w
}

func (w *c15World) locksLine() string {
	ls, err := w.f.App.LockupKeeper.GetPeriodLocks(w.f.Ctx)
	if err != nil {
		panic(err)
	}
	sort.Slice(ls, func(i, j int) bool { return ls[i].ID < ls[j].ID })
	parts := []string{}
	for _, l := range ls {
		owner := -1
		for a := 0; a < c15NA; a++ {
			if Actor(a).String() == l.Owner {
				owner = a
			}
		}
		for _, d := range append([]int{0, 1}, w.pools...) {
			if amt := l.Coins.AmountOf(c15LockDenom(d)); amt.IsPositive() {
				parts = append(parts, fmt.Sprintf("%d:%d:%s:%d", owner, d, amt, int64(l.Duration/time.Second)))
			}
		}
	}
	if len(parts) == 0 {
		return "locks -"
	}
	return "locks " + strings.Join(parts, " ")
}

func c15Ptr(p streamertypes.EpochPointer) string {
	if p.StreamId == streamertypes.MaxStreamID && p.GaugeId == streamertypes.MaxGaugeID {
		return "L"
	}
	return fmt.Sprintf("%d/%d", p.StreamId, p.GaugeId)
}

func c15IDs(ss []streamertypes.Stream) string {
	if len(ss) == 0 {
		return "-"
	}
	p := []string{}
	for _, s := range ss {
		p = append(p, strconv.FormatUint(s.Id, 10))
	}
	return strings.Join(p, ",")
}

// obs renders the canonical state of the real chain.
func (w *c15World) obs() string {
	f := w.f
	ik, sk := f.App.IncentivesKeeper, f.App.StreamerKeeper
	status := map[uint64]string{}
	for _, g := range ik.GetUpcomingGauges(f.Ctx) {
		status[g.Id] = "u"
	}
	for _, g := range ik.GetActiveGauges(f.Ctx) {
		status[g.Id] += "a"
	}
	for _, g := range ik.GetFinishedGauges(f.Ctx) {
		status[g.Id] += "f"
	}
	gs := ik.GetGauges(f.Ctx)
	sort.Slice(gs, func(i, j int) bool { return gs[i].Id < gs[j].Id })
	gp := []string{}
	for _, g := range gs {
		gp = append(gp, fmt.Sprintf("%d:%s:%d:%s:%s", g.Id, status[g.Id], g.FilledEpochs, c15ShowCoins(g.Coins), c15ShowCoins(g.DistributedCoins)))
	}
	sp := []string{}
	for _, s := range sk.GetStreams(f.Ctx) {
		e := "N"
		if len(s.EpochCoins) == 0 {
			e = "E"
		}
		spo := "n"
		if s.Sponsored {
			spo = "s"
		}
		sp = append(sp, fmt.Sprintf("%d:%d/%d:%s:%s:%s:%s:%s:%s:%s", s.Id, s.FilledEpochs, s.NumEpochsPaidOver, c15ShowCoins(s.Coins), c15ShowCoins(s.DistributedCoins), c15ShowCoins(s.EpochCoins), e,
			spo, s.DistributeTo.TotalWeight, c15ShowRecs(s.DistributeTo.Records)))
	}
	pp, ep := []string{}, []string{}
	for _, id := range c15Epochs {
		p, err := sk.GetEpochPointer(f.Ctx, id)
		if err != nil {
			panic(err)
		}
		pp = append(pp, c15Ptr(p))
		ei := f.App.EpochsKeeper.GetEpochInfo(f.Ctx, id)
		ep = append(ep, strconv.FormatInt(int64(ei.CurrentEpochStartTime.Sub(BaseTime)/time.Second)+c15T0, 10))
	}
	bp := []string{}
	for _, a := range []int{0, 1, 2, 3, 4, 5, 100, 101} {
		bp = append(bp, fmt.Sprintf("%d:%s", a, c15ShowCoins(f.App.BankKeeper.GetAllBalances(f.Ctx, c15Addr(a)))))
	}
	for _, a := range w.fresh {
		if c := c15Only(f.App.BankKeeper.GetAllBalances(f.Ctx, c15Addr(a))); !c.Empty() {
			bp = append(bp, fmt.Sprintf("%d:%s", a, c15ShowCoins(c)))
		}
	}
	return fmt.Sprintf("t=%d it=%d E=%s P=%s G=[%s] S=[%s] U=%s A=%s F=%s B=[%s]",
		c15Time(f), sk.GetParams(f.Ctx).MaxIterationsPerBlock, strings.Join(ep, ","), strings.Join(pp, ","),
		strings.Join(gp, " "), strings.Join(sp, " "),
		c15IDs(sk.GetUpcomingStreams(f.Ctx)), c15IDs(sk.GetActiveStreams(f.Ctx)), c15IDs(sk.GetFinishedStreams(f.Ctx)),
		strings.Join(bp, " "))
}

func c15Class(err error) string {
	if err == nil {
		return "ok"
	}
	if IsPanic(err) {
		return "panic"
	}
	return "err"
}

// apply executes one parsed line on one world and returns the outcome class ("ok", "invalid", "err",
// "panic", and for `end`: "halt err"/"halt panic").  unlimited: the shadow ignores `maxiter`.
func (w *c15World) apply(fl []string, unlimited bool) (class string, err error) {
	f := w.f
	if w.halted {
		return "halt", nil
	}
	n := func(i int) int64 { v, _ := strconv.ParseInt(fl[i], 10, 64); return v }
	switch fl[0] {
	case "begin":
		if err := f.Begin(time.Duration(n(1)) * time.Second); err != nil {
			w.halted = true
			return "halt " + c15Class(err), err
		}
		return "ok", nil
	case "end":
		if err := f.End(); err != nil {
			w.halted = true
			return "halt " + c15Class(err), err
		}
		return "ok", nil
	case "maxiter":
		v := uint64(n(1))
		if unlimited {
			v = 1 << 62
		}
		f.App.StreamerKeeper.SetParams(f.Ctx, streamertypes.NewParams(v))
		return "ok", nil
	case "fund":
		cs := c15Coins(fl[2])
		var err error
		if n(1) == 100 {
			err = banktestutil.FundModuleAccount(f.Ctx, f.App.BankKeeper, streamertypes.ModuleName, cs)
		} else {
			err = banktestutil.FundAccount(f.Ctx, f.App.BankKeeper, c15Addr(int(n(1))), cs)
		}
		if err != nil {
			panic(err)
		}
		return "ok", nil
	case "lock":
		amt, _ := math.NewIntFromString(fl[3])
		_, err := f.Deliver(lockuptypes.NewMsgLockTokens(c15Addr(int(n(1))), time.Duration(n(4))*time.Second, sdk.NewCoins(sdk.NewCoin(c15LockDenom(int(n(2))), amt))))
		return c15Class(err), err
	case "unlock":
		_, err := f.Deliver(lockuptypes.NewMsgBeginUnlocking(c15Addr(int(n(1))), uint64(n(2)), nil))
		return c15Class(err), err
	case "xferowner":
		ra, ok := f.App.RollappKeeper.GetRollapp(f.Ctx, c15RollappID(int(n(1))))
		if !ok {
			return "err", fmt.Errorf("no rollapp")
		}
		newOwner := c15Addr(int(n(2))).String()
		if len(fl) > 3 && fl[3] == "uc" {
			// the all-uppercase bech32 spelling of the same address (valid bech32, accepted by ValidateBasic)
			newOwner = strings.ToUpper(newOwner)
		}
		_, err := f.Deliver(&rollapptypes.MsgTransferOwnership{CurrentOwner: ra.Owner, NewOwner: newOwner, RollappId: ra.RollappId})
		return c15Class(err), err
	case "forceowner":
		// fault injection (see the header): not a message of the chain
		ra, ok := f.App.RollappKeeper.GetRollapp(f.Ctx, c15RollappID(int(n(1))))
		if !ok {
			return "err", fmt.Errorf("no rollapp")
		}
		ra.Owner = c15Addr(int(n(2))).String()
		f.App.RollappKeeper.SetRollapp(f.Ctx, ra)
		return "ok", nil
	case "rollapp":
		f.App.RollappKeeper.SetRollapp(f.Ctx, rollapptypes.Rollapp{RollappId: c15RollappID(int(n(1))), Owner: c15Addr(int(n(2))).String(), Launched: fl[3] == "1"})
		return "ok", nil
	case "rgauge":
		// the real x/rollapp hook: CreateRollappGauge + SaveEndorsement (votes for the gauge need the endorsement)
		err := f.Try(func(ctx sdk.Context) error {
			return f.App.StreamerKeeper.Hooks().RollappCreated(ctx, c15RollappID(int(n(1))), "", nil)
		})
		return c15Class(err), err
	case "poolgauges":
		idx := int(n(1))
		if fl[2] == "1" {
			big := math.NewIntWithDecimal(1, 30)
			for a := 0; a < c15NA; a++ {
				f.Fund(Actor(a), sdk.NewCoin(c15LockDenom(idx), big))
			}
			known := false
			for _, x := range w.pools {
				known = known || x == idx
			}
			if !known {
				w.pools = append(w.pools, idx)
			}
		}
		before := len(f.App.IncentivesKeeper.GetGauges(f.Ctx))
		var perr error
		func() {
			defer func() {
				if e := recover(); e != nil {
					perr = &PanicError{Val: e}
				}
			}()
			// the hook runs on the transaction's own context (no cache of its own) and only logs an error
			f.App.StreamerKeeper.Hooks().AfterPoolCreated(f.Ctx, c15Addr(0), uint64(idx-10))
		}()
		if perr != nil {
			return "panic", perr
		}
		if len(f.App.IncentivesKeeper.GetGauges(f.Ctx)) != before+len(f.App.IncentivesKeeper.GetLockableDurations(f.Ctx)) {
			return "err", fmt.Errorf("CreatePoolGauge stopped early")
		}
		return "ok", nil
	case "delegate":
		vals, err := f.App.StakingKeeper.GetAllValidators(f.Ctx)
		if err != nil || len(vals) == 0 {
			panic("no validator")
		}
		_, err = f.Deliver(&stakingtypes.MsgDelegate{DelegatorAddress: c15Addr(int(n(1))).String(), ValidatorAddress: vals[0].OperatorAddress,
			Amount: sdk.NewCoin("stake", math.NewIntWithDecimal(n(2), 18))})
		return c15Class(err), err
	case "vote":
		ws := []sponstypes.GaugeWeight{}
		if fl[2] != "-" {
			for _, p := range strings.Split(fl[2], ",") {
				gw := strings.Split(p, ":")
				g, _ := strconv.ParseUint(gw[0], 10, 64)
				pct, _ := strconv.ParseInt(gw[1], 10, 64)
				ws = append(ws, sponstypes.GaugeWeight{GaugeId: g, Weight: math.NewIntWithDecimal(pct, 18)})
			}
		}
		_, err := f.Deliver(&sponstypes.MsgVote{Voter: c15Addr(int(n(1))).String(), Weights: ws})
		return c15Class(err), err
	case "revoke":
		_, err := f.Deliver(&sponstypes.MsgRevokeVote{Voter: c15Addr(int(n(1))).String()})
		return c15Class(err), err
	case "mkgauge":
		msg := inctypes.NewMsgCreateAssetGauge(fl[2] == "1", c15Addr(int(n(1))),
			lockuptypes.QueryCondition{LockQueryType: lockuptypes.ByDuration, Denom: c15LockDenom(int(n(3))), Duration: time.Duration(n(4)) * time.Second},
			c15Coins(fl[5]), c15ToTime(n(6)), uint64(n(7)))
		if err := msg.ValidateBasic(); err != nil {
			return "invalid", err
		}
		_, err := f.Deliver(msg)
		return c15Class(err), err
	case "addgauge":
		msg := inctypes.NewMsgAddToGauge(c15Addr(int(n(1))), uint64(n(2)), c15Coins(fl[3]))
		if err := msg.ValidateBasic(); err != nil {
			return "invalid", err
		}
		_, err := f.Deliver(msg)
		return c15Class(err), err
	case "mkstream":
		p := &streamertypes.CreateStreamProposal{Title: "t", Description: "d", DistributeToRecords: c15Recs(fl[2]), Coins: c15Coins(fl[1]),
			StartTime: c15ToTime(n(3)), DistrEpochIdentifier: c15EpochName(int(n(4))), NumEpochsPaidOver: uint64(n(5)), Sponsored: len(fl) > 6 && fl[6] == "s"}
		if err := p.ValidateBasic(); err != nil {
			return "invalid", err
		}
		err := f.Try(func(ctx sdk.Context) error { return streamer.HandleCreateStreamProposal(ctx, f.App.StreamerKeeper, p) })
		return c15Class(err), err
	case "update":
		p := &streamertypes.UpdateStreamDistributionProposal{Title: "t", Description: "d", StreamId: uint64(n(1)), Records: c15Recs(fl[2])}
		if err := p.ValidateBasic(); err != nil {
			return "invalid", err
		}
		err := f.Try(func(ctx sdk.Context) error {
			return streamer.HandleUpdateStreamDistributionProposal(ctx, f.App.StreamerKeeper, p)
		})
		return c15Class(err), err
	case "term":
		p := &streamertypes.TerminateStreamProposal{Title: "t", Description: "d", StreamId: uint64(n(1))}
		if err := p.ValidateBasic(); err != nil {
			return "invalid", err
		}
		err := f.Try(func(ctx sdk.Context) error {
			return streamer.HandleTerminateStreamProposal(ctx, f.App.StreamerKeeper, p)
		})
		return c15Class(err), err
	case "replace":
		p := &streamertypes.ReplaceStreamDistributionProposal{Title: "t", Description: "d", StreamId: uint64(n(1)), Records: c15Recs(fl[2])}
		if err := p.ValidateBasic(); err != nil {
			return "invalid", err
		}
		err := f.Try(func(ctx sdk.Context) error {
			return streamer.HandleReplaceStreamDistributionProposal(ctx, f.App.StreamerKeeper, p)
		})
		return c15Class(err), err
	}
	panic("unknown op line: " + strings.Join(fl, " "))
}

func c15EpochName(e int) string {
	if e >= 0 && e < len(c15Epochs) {
		return c15Epochs[e]
	}
	return "fortnight" // not configured
}

// ---------------------------------------------------------------------------------------------
// trace driver: executes lines on primary + shadow, emits protocol lines, runs the monitors

func c15Start(r *Run, maxIter uint64) *c15Trace {
	t := &c15Trace{r: r, w: c15NewWorld(r.T, maxIter), sh: c15NewWorld(r.T, 1<<62), shadowOK: true,
		epochBase: map[uint64]sdk.Coins{}, epochMax: map[uint64]sdk.Coins{}, epochExempt: map[uint64]bool{}, retargeted: map[uint64]bool{}, epochRecs: map[uint64]string{}}
	// C18 continue-after-import forks the PRIMARY chain (the one the observation lines come from) and the
	// shadow along with it; lastFix used to be the shadow, the fixture created last
	t.w.f.Co = []*Fix{t.sh.f}
	lastFix = t.w.f
	line := fmt.Sprintf("reset %d %d %d %d", c15Time(t.w.f), maxIter, c15ND, c15NA)
	t.lines = append(t.lines, line)
	r.Emit(line, "ok | "+t.w.obs())
	t.lastLocks = "locks -"
	t.lastDistr = "distribution -"
	return t
}

func (t *c15Trace) finish() {
	h := sha256.Sum256([]byte(strings.Join(t.kinds, ";")))
	t.r.Class(fmt.Sprintf("%x", h[:8]), t.accepted)
	t.r.Trace()
}

// snapshot of what the monitors compare across an op
type c15Snap struct {
	bal       map[int]sdk.Coins
	epochNo   map[string]int64
	active    map[uint64]bool
	upcoming  map[uint64]bool
	ptrs      map[string]string
	gActive   map[uint64]bool // gauges in the incentives module's active list
	gUpcoming map[uint64]bool // ... upcoming list
}

func (w *c15World) snap() c15Snap {
	f := w.f
	s := c15Snap{bal: map[int]sdk.Coins{}, epochNo: map[string]int64{}, active: map[uint64]bool{}, upcoming: map[uint64]bool{}, ptrs: map[string]string{}, gActive: map[uint64]bool{}, gUpcoming: map[uint64]bool{}}
	for _, g := range f.App.IncentivesKeeper.GetActiveGauges(f.Ctx) {
		s.gActive[g.Id] = true
	}
	for _, g := range f.App.IncentivesKeeper.GetUpcomingGauges(f.Ctx) {
		s.gUpcoming[g.Id] = true
	}
	for _, a := range append([]int{0, 1, 2, 3, 4, 5, 100, 101, 102}, w.fresh...) {
		s.bal[a] = c15Only(f.App.BankKeeper.GetAllBalances(f.Ctx, c15Addr(a)))
	}
	for _, id := range c15Epochs {
		s.epochNo[id] = f.App.EpochsKeeper.GetEpochInfo(f.Ctx, id).CurrentEpoch
		p, _ := f.App.StreamerKeeper.GetEpochPointer(f.Ctx, id)
		s.ptrs[id] = c15Ptr(p)
	}
	for _, x := range f.App.StreamerKeeper.GetActiveStreams(f.Ctx) {
		s.active[x.Id] = true
	}
	for _, x := range f.App.StreamerKeeper.GetUpcomingStreams(f.Ctx) {
		s.upcoming[x.Id] = true
	}
	return s
}

// reward-denom part of a balance
func c15Only(cs sdk.Coins) sdk.Coins {
	out := sdk.NewCoins()
	for _, d := range c15Reward {
		if a := cs.AmountOf(d); a.IsPositive() {
			out = out.Add(sdk.NewCoin(d, a))
		}
	}
	return out
}

// exec runs one line.  Returns false when the trace cannot continue (chain halted).
func (t *c15Trace) exec(line string) bool {
	r := t.r
	fl := strings.Fields(line)
	if len(fl) == 0 || fl[0] == "locks" || fl[0] == "distribution" || fl[0] == "reset" || (fl[0] == "rollapp" && len(fl) > 2 && fl[2] == "102") {
		return true // `locks` lines are derived from the real lockup module, never taken from a file
	}
	if line == t.skipLine {
		t.skipLine = ""
		return true // the `rollapp` line a successful xferowner just before it has already produced
	}
	t.skipLine = ""
	harnessOnly := fl[0] == "lock" || fl[0] == "unlock" || fl[0] == "xferowner" || fl[0] == "forceowner" || fl[0] == "delegate" || fl[0] == "vote" || fl[0] == "revoke"
	t.lines = append(t.lines, line)
	if (fl[0] == "rollapp" || fl[0] == "xferowner" || fl[0] == "forceowner") && len(fl) > 2 {
		if a, err := strconv.Atoi(fl[2]); err == nil {
			t.w.addFresh(a)
			t.sh.addFresh(a)
		}
	}
	// fresh addresses without an x/auth account before the op (a payout creates the account)
	t.noAcct = map[string]bool{}
	for _, a := range t.w.fresh {
		if !t.w.f.App.AccountKeeper.HasAccount(t.w.f.Ctx, c15Addr(a)) {
			t.noAcct[c15Addr(a).String()] = true
		}
	}
	pre := t.w.snap()
	preLocks, _ := t.w.f.App.LockupKeeper.GetPeriodLocks(t.w.f.Ctx)
	preRollapps := t.w.f.App.RollappKeeper.GetAllRollapps(t.w.f.Ctx)
	preGauges := t.w.f.App.IncentivesKeeper.GetGauges(t.w.f.Ctx)
	if fl[0] == "begin" || fl[0] == "end" {
		t.w.pay.arm(preGauges)
	}
	class, err := t.w.apply(fl, false)
	t.w.pay.armed = false
	t.kinds = append(t.kinds, fl[0]+"/"+class)
	if class == "ok" && fl[0] != "begin" && fl[0] != "end" {
		t.accepted = true
	}
	r.Hit("op/" + fl[0] + "/" + strings.Fields(class)[0])
	if fl[0] == "maxiter" && fl[1] == "0" && t.shadowOK {
		t.shadowOK = false // the property quantifies over limits from 1 up; 0 only exercises the model
		r.Hit("shadow/stopped-at-limit-0")
	}
	if fl[0] == "forceowner" && t.shadowOK {
		t.shadowOK = false // fault injection: outside the reachable states the paging clause quantifies over
		r.Hit("shadow/stopped-at-fault-injection")
	}
	if t.shadowOK {
		c2, _ := t.sh.apply(fl, true)
		if c2 != class {
			t.shadowOK = false // the two runs have diverged (e.g. one of them halted); stop comparing
			r.Hit("shadow/diverged-outcome")
		}
	}
	switch {
	case harnessOnly:
		// not a model op: the driver answers with the same constant.  The outcome is compared across
		// replicas through the digest file (and shows in the `locks` / `rollapp` line that follows)
		if digestOut != nil {
			fmt.Fprintf(digestOut, "c15 %s -> %s\n", line, class)
		}
		r.Emit(line, "harness-only")
	case strings.HasPrefix(class, "halt"):
		r.Emit(line, class)
	case class == "ok" && (fl[0] == "begin" || fl[0] == "end"):
		r.Emit(line, class+" | "+t.w.obs()+t.dueFields(fl[0], pre, preGauges))
	default:
		r.Emit(line, class+" | "+t.w.obs())
	}
	if strings.HasPrefix(class, "halt") {
		t.onHalt(fl[0], class, err)
		return false
	}
	if (fl[0] == "xferowner" || fl[0] == "forceowner") && class == "ok" {
		// the transfer went through on the real rollapp module (forceowner: was written into its store): tell
		// the model the new owner
		ra, _ := t.w.f.App.RollappKeeper.GetRollapp(t.w.f.Ctx, c15RollappID(func() int { v, _ := strconv.Atoi(fl[1]); return v }()))
		rl := fmt.Sprintf("rollapp %s %s %s", fl[1], fl[2], c15b(ra.Launched))
		t.lines = append(t.lines, rl)
		t.skipLine = rl
		r.Emit(rl, "ok | "+t.w.obs())
		if n, _ := strconv.Atoi(fl[2]); n >= c15Fresh0 {
			r.Hit("rollapp-owner-fresh")
		}
		if fl[2] == "102" {
			t.blockedOwner = true
			r.Hit("rollapp-owner-blocked")
			if fl[0] == "forceowner" {
				r.Hit("rollapp-owner-blocked/injected")
			}
		}
	}
	// hand the (possibly changed) lock table to the model
	if fl[0] == "lock" || fl[0] == "unlock" || fl[0] == "end" {
		if ll := t.w.locksLine(); ll != t.lastLocks {
			t.lastLocks = ll
			t.lines = append(t.lines, ll)
			r.Emit(ll, "ok | "+t.w.obs())
			if fl[0] == "end" {
				r.Hit("lock-matured-in-endblock")
			}
		}
	}
	// hand the (possibly changed) sponsorship distribution to the model
	if dl := t.w.distrLine(); dl != t.lastDistr {
		t.lastDistr = dl
		t.lines = append(t.lines, dl)
		r.Emit(dl, "ok | "+t.w.obs())
		r.Hit("distribution-changed/after-" + fl[0])
	}
	t.monitors(fl, class, pre, preLocks, preRollapps, preGauges)
	return true
}

func (t *c15Trace) replay() []string { return append([]string(nil), t.lines...) }

func (t *c15Trace) onHalt(op, class string, err error) {
	r := t.r
	msg := ""
	if err != nil {
		msg = err.Error()
	}
	r.Hit("halt/" + op)
	// every failing Begin/EndBlock is a C11 matter ("block processing never fails"); the signature names the cause
	switch {
	case op == "end" && t.blockedOwner && strings.Contains(msg, "not allowed to receive funds"):
		// F4: the owner of a rollapp with a gauge was transferred to a blocked module account
		r.Hit("halt/blocked-rollapp-owner")
		r.Violate("C11/block/streamer-endblock-fails/blocked-rollapp-owner",
			"streamer EndBlock failed (block processing stops): a rollapp gauge pays the rollapp owner, who is a blocked module account: "+c15Short(msg), t.replay()...)
	case op == "end" && strings.Contains(msg, "insufficient funds"):
		c := t.cause()
		if c == "unexplained" && t.everUnsorted { // the failing block itself is the second visit
			c = "pair-served-twice"
		}
		r.Violate("C11/block/end-fails/streamer-cannot-pay-"+c,
			"streamer EndBlock failed (block processing stops): streams try to hand out more than the streamer account holds: "+c15Short(msg), t.replay()...)
	default:
		r.Violate("C11/block/"+op+"-fails/other", "block processing failed: "+c15Short(msg), t.replay()...)
	}
}

func c15Short(s string) string {
	if len(s) > 300 {
		return s[:300]
	}
	return s
}

// ---------------------------------------------------------------------------------------------
// monitors (model independent: only the real keepers' state and functions are consulted)

func (t *c15Trace) monitors(fl []string, class string, pre c15Snap, preLocks []lockuptypes.PeriodLock, preRollapps []rollapptypes.Rollapp, preGauges []inctypes.Gauge) {
	r, f := t.r, t.w.f
	ik, sk, bk := f.App.IncentivesKeeper, f.App.StreamerKeeper, f.App.BankKeeper
	op := fl[0]
	post := t.w.snap()

	// a terminated stream's last (partial) epoch naturally depends on how far the paging had got
	if op == "term" && class == "ok" {
		if id, err := strconv.ParseUint(fl[1], 10, 64); err == nil {
			t.retargeted[id] = true
			r.Hit("stream-terminated")
			if st, err := sk.GetStreamByID(f.Ctx, id); err == nil {
				if strings.HasPrefix(pre.ptrs[st.DistrEpochIdentifier], fl[1]+"/") {
					t.ptrStreamGone = true
					r.Hit("stream-terminated-under-pointer")
				}
			}
		}
	}

	// exactly once per epoch: within one epoch a stream hands out at most the sum of its records' shares
	{
		sharesOf := func(s streamertypes.Stream) sdk.Coins {
			sum := sdk.NewCoins()
			if len(s.EpochCoins) == 0 || s.DistributeTo.TotalWeight.IsZero() {
				return sum
			}
			for _, rec := range s.DistributeTo.Records {
				if c, err := sk.CalculateGaugeRewards(f.Ctx, s.EpochCoins, rec, s.DistributeTo.TotalWeight); err == nil {
					sum = sum.Add(c...)
				}
			}
			return sum
		}
		for _, s := range sk.GetStreams(f.Ctx) {
			base, seen := t.epochBase[s.Id]
			if !seen {
				t.epochBase[s.Id], t.epochMax[s.Id] = s.DistributedCoins, sharesOf(s)
				continue
			}
			if (op == "replace" || op == "update") && class == "ok" && fl[1] == strconv.FormatUint(s.Id, 10) {
				t.epochExempt[s.Id] = true
				t.retargeted[s.Id] = true
				r.Hit("records-" + op + "d")
			}
			if !t.epochExempt[s.Id] && s.DistributedCoins.IsAllGTE(base) {
				if inc := s.DistributedCoins.Sub(base...); !inc.IsAllLTE(t.epochMax[s.Id]) {
					t.servedTwice = true
					r.Hit("pair-served-twice")
					what := "other"
					if t.everUnsorted {
						what = "unsorted-active-streams"
					}
					r.Violate("C15/paging_independent/pair-served-twice/"+what, fmt.Sprintf("within one epoch stream %d handed out %s, its records' shares add up to %s only: some (stream, gauge) pair was served more than once",
						s.Id, inc, t.epochMax[s.Id]), t.replay()...)
				}
			}
			if op == "begin" && post.epochNo[s.DistrEpochIdentifier] != pre.epochNo[s.DistrEpochIdentifier] {
				t.epochBase[s.Id], t.epochMax[s.Id], t.epochExempt[s.Id] = s.DistributedCoins, sharesOf(s), false
			}
		}
	}

	// sponsored streams: the distribution x/sponsorship hands out lists its gauges in strictly ascending id order
	// (the model's Op.wfS assumption), and a sponsored stream that went through its own epoch's start in this
	// block carries exactly DistrInfoFromDistribution(current distribution)
	{
		d, err := f.App.SponsorshipKeeper.GetDistribution(f.Ctx)
		if err == nil {
			for i := 1; i < len(d.Gauges); i++ {
				if d.Gauges[i-1].GaugeId >= d.Gauges[i].GaugeId {
					r.Violate("C15/sponsored/distribution-not-strictly-ascending", fmt.Sprintf("gauge %d listed before %d", d.Gauges[i-1].GaugeId, d.Gauges[i].GaugeId), t.replay()...)
				}
			}
			want := streamertypes.DistrInfoFromDistribution(d)
			for _, s := range sk.GetActiveStreams(f.Ctx) {
				if !s.Sponsored {
					continue
				}
				r.Hit("sponsored/active")
				if s.DistributeTo.TotalWeight.IsZero() {
					r.Hit("sponsored/active-with-empty-distribution")
				}
				if op == "begin" && post.epochNo[s.DistrEpochIdentifier] != pre.epochNo[s.DistrEpochIdentifier] && pre.active[s.Id] {
					r.Hit("sponsored/epoch-start")
					if c15ShowRecs(s.DistributeTo.Records) != c15ShowRecs(want.Records) || !s.DistributeTo.TotalWeight.Equal(want.TotalWeight) {
						r.Violate("C15/sponsored/records-not-refreshed-at-epoch-start", fmt.Sprintf("stream %d carries %s (total %s) after its epoch start, the distribution is %s (total %s)",
							s.Id, c15ShowRecs(s.DistributeTo.Records), s.DistributeTo.TotalWeight, c15ShowRecs(want.Records), want.TotalWeight), t.replay()...)
					}
					if t.epochRecs[s.Id] != "" && t.epochRecs[s.Id] != c15ShowRecs(s.DistributeTo.Records) {
						r.Hit("sponsored/retargeted-at-epoch-start")
					}
				}
				t.epochRecs[s.Id] = c15ShowRecs(s.DistributeTo.Records)
			}
		}
	}

	// gauge_bounded
	owedG := sdk.NewCoins()
	negG := false
	for _, g := range ik.GetGauges(f.Ctx) {
		if !g.DistributedCoins.IsAllLTE(g.Coins) {
			r.Violate("C15/gauge_bounded/distributed-exceeds-coins", fmt.Sprintf("gauge %d distributed %s > coins %s", g.Id, g.DistributedCoins, g.Coins), t.replay()...)
			negG = true
		}
	}
	if !negG {
		for _, g := range ik.GetNotFinishedGauges(f.Ctx) {
			owedG = owedG.Add(g.Coins.Sub(g.DistributedCoins...)...)
		}
		if bal := bk.GetAllBalances(f.Ctx, c15Addr(101)); !owedG.IsAllLTE(bal) {
			r.Violate("C15/module_solvent/incentives-balance-below-undistributed", fmt.Sprintf("incentives holds %s, unfinished gauges are owed %s", c15Only(bal), owedG), t.replay()...)
		}
	}

	// stream_epoch_bounded: the shares the real CalculateGaugeRewards hands out for one epoch
	{
		for _, s := range append(sk.GetActiveStreams(f.Ctx), sk.GetUpcomingStreams(f.Ctx)...) {
			if len(s.DistributeTo.Records) == 0 || len(s.EpochCoins) == 0 || s.DistributeTo.TotalWeight.IsZero() {
				continue
			}
			sum := sdk.NewCoins()
			for _, rec := range s.DistributeTo.Records {
				c, err := sk.CalculateGaugeRewards(f.Ctx, s.EpochCoins, rec, s.DistributeTo.TotalWeight)
				if err == nil {
					sum = sum.Add(c...)
				}
			}
			if !sum.IsAllLTE(s.EpochCoins) {
				t.sharesExceeded = true
				r.Hit("f8-epoch-shares-exceed")
				r.Violate("C15/stream_epoch_bounded/epoch-shares-exceed-epoch-coins", fmt.Sprintf("stream %d: gauges' shares of the epoch %s > epoch coins %s", s.Id, sum, s.EpochCoins), t.replay()...)
			}
		}
	}

	// stream_bounded, streamer solvency (as integers: an over-distributed stream counts negatively)
	owed := map[string]math.Int{}
	for _, d := range c15Reward {
		owed[d] = math.ZeroInt()
	}
	unsorted := false
	act := sk.GetActiveStreams(f.Ctx)
	for i, s := range act {
		if i > 0 && act[i-1].Id > s.Id {
			unsorted = true
		}
	}
	if unsorted {
		t.everUnsorted = true
		r.Hit("active-streams-unsorted")
	}
	for _, s := range append(act, sk.GetUpcomingStreams(f.Ctx)...) {
		for _, d := range c15Reward {
			owed[d] = owed[d].Add(s.Coins.AmountOf(d)).Sub(s.DistributedCoins.AmountOf(d))
		}
	}
	for _, s := range sk.GetStreams(f.Ctx) {
		// paging_independent rests on the epoch pointer bisecting each stream's records by gauge id: a stored
		// record list that is not strictly ascending lets a saved pointer resolve to the wrong position
		for i := 1; i < len(s.DistributeTo.Records); i++ {
			if s.DistributeTo.Records[i-1].GaugeId >= s.DistributeTo.Records[i].GaugeId {
				r.Violate("C15/paging_independent/stream-records-not-strictly-ascending",
					fmt.Sprintf("stream %d stores records with gauge id %d before %d", s.Id, s.DistributeTo.Records[i-1].GaugeId, s.DistributeTo.Records[i].GaugeId), t.replay()...)
			}
		}
		if !s.DistributedCoins.IsAllLTE(s.Coins) {
			r.Hit("f8-stream-overdistributed")
			r.Violate("C15/stream_bounded/distributed-exceeds-coins/"+t.cause(), fmt.Sprintf("stream %d distributed %s > coins %s", s.Id, s.DistributedCoins, s.Coins), t.replay()...)
		}
	}
	sbal := bk.GetAllBalances(f.Ctx, c15Addr(100))
	for _, d := range c15Reward {
		if sbal.AmountOf(d).LT(owed[d]) {
			r.Violate("C15/module_solvent/streamer-balance-below-undistributed/"+t.cause(), fmt.Sprintf("streamer holds %s%s, unfinished streams are owed %s%s", sbal.AmountOf(d), d, owed[d], d), t.replay()...)
		}
	}

	// registered invariants of x/streamer as extra oracles (x/incentives registers none)
	for _, iv := range []struct {
		name string
		fn   sdk.Invariant
	}{{"streams-count", streamerkeeper.StreamsCountInvariant(sk)}, {"last-stream-id", streamerkeeper.LastStreamIdInvariant(sk)},
		{"streamer-balance", streamerkeeper.StreamerBalanceInvariant(sk)}, {"streams", streamerkeeper.StreamsInvariant(sk)}} {
		func() {
			defer func() {
				if e := recover(); e != nil {
					r.Hit("invariant/streamer-panics")
					r.Violate("C15/invariant/streamer-invariant-panics/"+t.cause(), fmt.Sprintf("evaluating the registered invariant streamer/%s panics: %v", iv.name, e), t.replay()...)
				}
			}()
			if msg, broken := iv.fn(f.Ctx); broken {
				sig := "C15/invariant/streamer-" + iv.name
				if iv.name == "streams" || iv.name == "streamer-balance" {
					sig += "/" + t.cause()
				}
				r.Violate(sig, c15Short(msg), t.replay()...)
			}
		}()
	}

	// conservation + recipients over blocks: reward coins only move streamer -> incentives -> recipients
	if op == "begin" || op == "end" {
		tot0, tot1 := sdk.NewCoins(), sdk.NewCoins()
		for a, c := range pre.bal {
			tot0 = tot0.Add(c...)
			tot1 = tot1.Add(post.bal[a]...)
		}
		if !tot0.Equal(tot1) {
			r.Violate("C15/conservation/reward-coins-created-or-lost-in-block", fmt.Sprintf("before %s after %s", tot0, tot1), t.replay()...)
		}
		if !post.bal[100].IsAllLTE(pre.bal[100]) {
			r.Violate("C15/conservation/streamer-balance-grows-in-block", fmt.Sprintf("before %s after %s", pre.bal[100], post.bal[100]), t.replay()...)
		}
		gain := map[int]sdk.Coins{}
		accts := t.w.accts()
		for _, a := range accts {
			if !post.bal[a].IsAllGTE(pre.bal[a]) {
				r.Violate("C15/recipients_legit/account-debited-by-block", fmt.Sprintf("actor %d before %s after %s", a, pre.bal[a], post.bal[a]), t.replay()...)
				continue
			}
			gain[a] = post.bal[a].Sub(pre.bal[a]...)
		}
		if !post.bal[102].Equal(pre.bal[102]) {
			r.Violate("C15/recipients_legit/payout-to-unqualified-account", "the lockup module account received rewards", t.replay()...)
		}
		// who may receive: owners of locks qualifying for some asset gauge, owners of rollapps with a gauge
		may := map[string]bool{}
		for _, g := range preGauges {
			if a := g.GetAsset(); a != nil {
				for _, l := range preLocks {
					if l.Coins.AmountOf(a.Denom).IsPositive() && l.Duration >= a.Duration {
						may[l.Owner] = true
					}
				}
			}
			if ra := g.GetRollapp(); ra != nil {
				for _, x := range preRollapps {
					if x.RollappId == ra.RollappId && x.Launched {
						may[x.Owner] = true
					}
				}
			}
		}
		// portfolio of qualifying locks per actor (for the proportionality check)
		port := map[int]string{}
		for _, a := range accts {
			if !gain[a].Empty() {
				r.Hit("payout")
				if a >= c15Fresh0 {
					r.Hit("payout-to-fresh-owner")
				}
				if !may[Actor(a).String()] {
					r.Violate("C15/recipients_legit/payout-to-unqualified-account", fmt.Sprintf("actor %d gained %s in `%s` without a qualifying lock or a launched rollapp with a gauge", a, gain[a], op), t.replay()...)
				}
			}
			ps := []string{}
			for _, l := range preLocks {
				if l.Owner == Actor(a).String() {
					ps = append(ps, fmt.Sprintf("%s/%d", l.Coins, l.Duration))
				}
			}
			for _, x := range preRollapps {
				if x.Owner == Actor(a).String() {
					ps = append(ps, "rollapp") // rollapp owners are not comparable by locks alone
				}
			}
			sort.Strings(ps)
			port[a] = strings.Join(ps, ";")
		}
		for i, a := range accts {
			for _, b := range accts[i+1:] {
				if port[a] == port[b] && !strings.Contains(port[a], "rollapp") && !gain[a].Equal(gain[b]) {
					r.Violate("C15/recipients_legit/equal-locks-unequal-rewards", fmt.Sprintf("actors %d and %d hold identical locks [%s] but gained %s vs %s", a, b, port[a], gain[a], gain[b]), t.replay()...)
				}
			}
		}
	}

	if op == "begin" || op == "end" {
		if op == "begin" && class == "ok" {
			t.failingRecipient(pre, post, preLocks, preRollapps, preGauges)
		}
		t.proportional(op, pre, post, preLocks, preRollapps, preGauges)
	}

	// branch bookkeeping for naming paging differences
	if op == "begin" {
		// all due upcoming streams are activated by the first BeforeEpochStart of the block (identifiers
		// tick in the order day, hour, week); a stream joins cleanly only if that is its own epoch's start
		firstTick := -1
		for i, id := range c15Epochs {
			if post.epochNo[id] != pre.epochNo[id] && firstTick < 0 {
				firstTick = i
			}
		}
		for id := range pre.upcoming {
			if !post.upcoming[id] { // activated in this block (it may already have finished again)
				s, _ := sk.GetStreamByID(f.Ctx, id)
				if s != nil && firstTick >= 0 && c15Epochs[firstTick] != s.DistrEpochIdentifier {
					t.midEpochJoin = true
					r.Hit("stream-activated-mid-epoch")
				}
			}
		}
		for _, id := range c15Epochs {
			if post.epochNo[id] != pre.epochNo[id] {
				r.Hit("epoch-boundary/" + id)
			}
		}
	}
	if op == "end" {
		for _, id := range c15Epochs {
			if p := post.ptrs[id]; p != "L" && p != "0/0" {
				r.Hit("paged-partial/" + id)
			}
		}
	}

	// paging_independent: at every epoch end both runs have handled every (stream, gauge) pair of the
	// epoch, so every stream of that epoch must have handed out the same coins in both runs
	if t.shadowOK && op == "begin" {
		for _, id := range c15Epochs {
			if post.epochNo[id] == pre.epochNo[id] {
				continue
			}
			for _, s := range sk.GetStreams(f.Ctx) {
				if s.DistrEpochIdentifier != id || t.retargeted[s.Id] {
					continue // a stream re-targeted by governance within an epoch is outside the clause
				}
				s2, err := t.sh.f.App.StreamerKeeper.GetStreamByID(t.sh.f.Ctx, s.Id)
				if err != nil || s2.DistributedCoins.Equal(s.DistributedCoins) {
					continue
				}
				t.shadowOK = false
				what := "other"
				switch {
				case t.everUnsorted && t.servedTwice:
					what = "unsorted-active-streams"
				case t.ptrStreamGone:
					what = "pointer-stream-terminated"
				case t.midEpochJoin:
					what = "stream-activated-mid-epoch"
				}
				r.Hit("paging-differs/" + what)
				r.Violate("C15/paging_independent/"+what, fmt.Sprintf("at the end of a `%s` epoch stream %d has handed out %s with the configured per-block limits but %s with an unlimited budget",
					id, s.Id, c15ShowCoins(s.DistributedCoins), c15ShowCoins(s2.DistributedCoins)), t.replay()...)
				break
			}
		}
	}
	_ = class
}

// dueFields renders the two extra observation fields of an accepted `begin` / `end` from the REAL chain:
// ` D=[a:c0,c1 …] H=[gid:c0,c1 …]`, D = balance delta over the op of every non-module account (actors and
// fresh addresses, ascending, non-zero only; a debited account is reported by recipients_legit and not printed),
// H = delta of every gauge's DistributedCoins (ascending gauge id, non-zero only).  The model side prints what
// the specification functions dueG / dueTotal say (blockDue / blockHandout on the state before the op), so the
// correspondence diff compares the specification with the real payouts line by line.
// Model independent consistency: everything a gauge hands out reaches a non-module account and nothing else is
// credited, i.e. per denom the D entries add up to the H entries.
func (t *c15Trace) dueFields(op string, pre c15Snap, preGauges []inctypes.Gauge) string {
	r, f := t.r, t.w.f
	dp, hp := []string{}, []string{}
	sumD, sumH := sdk.NewCoins(), sdk.NewCoins()
	comparable := true
	for _, a := range t.w.accts() {
		now := c15Only(f.App.BankKeeper.GetAllBalances(f.Ctx, c15Addr(a)))
		if !now.IsAllGTE(pre.bal[a]) {
			comparable = false // C15/recipients_legit/account-debited-by-block
			continue
		}
		if d := now.Sub(pre.bal[a]...); !d.Empty() {
			dp = append(dp, fmt.Sprintf("%d:%s", a, c15ShowCoins(d)))
			sumD = sumD.Add(d...)
		}
	}
	before := map[uint64]sdk.Coins{}
	beforeCoins := map[uint64]sdk.Coins{}
	for _, g := range preGauges {
		before[g.Id] = g.DistributedCoins
		beforeCoins[g.Id] = g.Coins
	}
	gs := f.App.IncentivesKeeper.GetGauges(f.Ctx)
	sort.Slice(gs, func(i, j int) bool { return gs[i].Id < gs[j].Id })
	// "what a stream hands to its gauges": every coin the streamer account moves to the incentives account in a
	// block is handed to some gauge, i.e. must show up in that gauge's Coins.  (Model-independent: balances and
	// stored gauges only.)  x/incentives Distribute persists a gauge handed in by the streamer only through
	// updateGaugePostDistribute, i.e. only when the gauge distributes something in the same call: a gauge with no
	// qualifying lock (or an unlaunched rollapp) keeps its old Coins although the stream's share has been moved and
	// the stream's DistributedCoins have grown — the share is stranded in the incentives account.
	if moved := c15Only(pre.bal[100]); moved.IsAllGTE(c15Only(f.App.BankKeeper.GetAllBalances(f.Ctx, c15Addr(100)))) {
		moved = moved.Sub(c15Only(f.App.BankKeeper.GetAllBalances(f.Ctx, c15Addr(100)))...)
		credited := sdk.NewCoins()
		okc := true
		for _, g := range gs {
			if !g.Coins.IsAllGTE(beforeCoins[g.Id]) {
				okc = false
				break
			}
			credited = credited.Add(c15Only(g.Coins.Sub(beforeCoins[g.Id]...))...)
		}
		if okc && !moved.Empty() {
			r.Hit("stream-share/moved")
			if !moved.Equal(credited) {
				r.Hit("stream-share/moved-but-gauge-not-credited")
				r.Violate("C15/stream_hands_to_gauges/share-moved-gauge-not-credited", fmt.Sprintf("over `%s` the streamer account moved %s to the incentives account (the streams' DistributedCoins grew accordingly) but the gauges' Coins grew by %s only: a gauge that distributes nothing in the same Distribute call (no qualifying lock / unlaunched rollapp) is not written back, its share is stranded in the incentives module account",
					op, c15ShowCoins(moved), c15ShowCoins(credited)), t.replay()...)
			}
		}
	}
	for _, g := range gs {
		if !g.DistributedCoins.IsAllGTE(before[g.Id]) {
			comparable = false
			continue
		}
		if d := c15Only(g.DistributedCoins.Sub(before[g.Id]...)); !d.Empty() {
			hp = append(hp, fmt.Sprintf("%d:%s", g.Id, c15ShowCoins(d)))
			sumH = sumH.Add(d...)
		}
	}
	if comparable && !sumD.Equal(sumH) {
		r.Violate("C15/proportional/handout-sum-differs-from-credited-sum", fmt.Sprintf("over `%s` the gauges' distributed coins grew by %s in total, the non-module accounts were credited %s in total",
			op, c15ShowCoins(sumH), c15ShowCoins(sumD)), t.replay()...)
	}
	if len(dp) > 0 {
		r.Hit("due/compared")
		if op == "begin" {
			r.Hit("due/compared-epoch-hook")
		} else {
			r.Hit("due/compared-endblock")
		}
		if len(dp) > 1 {
			r.Hit("due/compared/several-accounts")
		}
	}
	return fmt.Sprintf(" D=[%s] H=[%s]", strings.Join(dp, " "), strings.Join(hp, " "))
}

// failingRecipient: branch bookkeeping (Hits only, no signature) for an epoch hook that fails as a whole because
// ONE recipient cannot be paid.  Distribute has no per-recipient isolation: a recipient the bank refuses (a blocked
// module account; after fix F4 only reachable by the `forceowner` fault injection) fails the whole call; inside
// the osmosis x/epochs wrapper the hook's error is discarded and its cache context dropped, so the chain goes on
// but NO recipient of that hook is paid in this epoch, the good ones included.  Only real keeper state is read.
func (t *c15Trace) failingRecipient(pre, post c15Snap, preLocks []lockuptypes.PeriodLock, preRollapps []rollapptypes.Rollapp, preGauges []inctypes.Gauge) {
	r, f := t.r, t.w.f
	type ownerT struct {
		launched, blocked bool
		actor             int // -1: not an account the harness tracks
	}
	ownerOf := func(g inctypes.Gauge) (o ownerT, ok bool) {
		for _, x := range preRollapps {
			if g.GetRollapp() != nil && x.RollappId == g.GetRollapp().RollappId {
				o = ownerT{launched: x.Launched, actor: -1}
				addr, err := sdk.AccAddressFromBech32(x.Owner)
				o.blocked = err == nil && f.App.BankKeeper.BlockedAddr(addr)
				for _, a := range t.w.accts() {
					if Actor(a).String() == x.Owner {
						o.actor = a
					}
				}
				return o, true
			}
		}
		return o, false
	}
	remaining := func(g inctypes.Gauge) sdk.Coins {
		if !g.DistributedCoins.IsAllLTE(g.Coins) {
			return sdk.NewCoins()
		}
		return g.Coins.Sub(g.DistributedCoins...)
	}
	blockedGauge := map[uint64]bool{} // rollapp gauges that would pay a blocked address
	for _, g := range preGauges {
		if o, ok := ownerOf(g); ok && o.launched && o.blocked && !remaining(g).Empty() {
			blockedGauge[g.Id] = true
		}
	}
	anyBlocked := false
	for _, g := range preGauges {
		anyBlocked = anyBlocked || t.feedsBlocked(g.Id, preRollapps, preGauges)
	}
	if !anyBlocked {
		return
	}
	now := map[uint64]inctypes.Gauge{}
	for _, g := range f.App.IncentivesKeeper.GetGauges(f.Ctx) {
		now[g.Id] = g
	}
	untouched := func(g inctypes.Gauge) bool {
		return now[g.Id].DistributedCoins.Equal(g.DistributedCoins) && now[g.Id].FilledEpochs == g.FilledEpochs
	}

	// (1) x/incentives AfterEpochEnd of the distribution epoch: every active gauge (and every upcoming one that is
	// due) is distributed in ONE call
	id := f.App.IncentivesKeeper.GetParams(f.Ctx).DistrEpochIdentifier
	if pre.epochNo[id] >= 1 && post.epochNo[id] == pre.epochNo[id]+1 {
		upcoming := map[uint64]bool{}
		for _, g := range preGauges {
			upcoming[g.Id] = pre.gUpcoming[g.Id] && !f.Ctx.BlockTime().Before(g.StartTime) // activated by the hook first
		}
		inCall := func(g inctypes.Gauge) bool { return pre.gActive[g.Id] || upcoming[g.Id] }
		fails := false
		for _, g := range preGauges {
			fails = fails || (blockedGauge[g.Id] && inCall(g))
		}
		if fails {
			r.Hit("epoch-hook/failing-recipient")
			starved := map[string]bool{}
			defer func() {
				for k := range starved {
					r.Hit("epoch-hook/failing-recipient/good-recipient-starved" + k)
				}
			}()
			for _, g := range preGauges {
				if blockedGauge[g.Id] || !inCall(g) || remaining(g).Empty() || !untouched(g) {
					continue
				}
				if o, ok := ownerOf(g); ok {
					// a rollapp gauge of a good owner, due its whole remainder
					if o.launched && !o.blocked && o.actor >= 0 && post.bal[o.actor].Equal(pre.bal[o.actor]) {
						starved[""], starved["/rollapp-owner"] = true, true
					}
					continue
				}
				// an asset gauge: some qualifying lock is due a positive amount (the code's own formula)
				a := g.GetAsset()
				e := uint64(1)
				if a == nil || (!g.IsPerpetual && g.NumEpochsPaidOver <= g.FilledEpochs) {
					continue
				}
				if !g.IsPerpetual {
					e = g.NumEpochsPaidOver - g.FilledEpochs
				}
				sum := math.ZeroInt()
				for _, l := range preLocks {
					if amt := l.Coins.AmountOf(a.Denom); amt.IsPositive() && l.Duration >= a.Duration {
						sum = sum.Add(amt)
					}
				}
				for _, l := range preLocks {
					amt := l.Coins.AmountOf(a.Denom)
					if !amt.IsPositive() || l.Duration < a.Duration {
						continue
					}
					for _, c := range remaining(g) {
						if !c.Amount.Mul(amt).Quo(sum.Mul(math.NewIntFromUint64(e))).IsPositive() {
							continue
						}
						for _, ac := range t.w.accts() {
							if Actor(ac).String() == l.Owner && post.bal[ac].Equal(pre.bal[ac]) {
								starved[""], starved["/lock-owner"] = true, true
							}
						}
					}
				}
			}
		}
	}

	// (2) x/streamer AfterEpochEnd flush (Distribute with epochEnd = true over what the paged EndBlocks left): on
	// success the epoch's pointer is reset to the first gauge; a pointer that is NOT there after the epoch ended
	// with an active stream of that epoch means the hook was rolled back
	for _, eid := range c15Epochs {
		if pre.epochNo[eid] < 1 || post.epochNo[eid] != pre.epochNo[eid]+1 || post.ptrs[eid] == "0/0" {
			continue
		}
		feeds := false
		for _, s := range f.App.StreamerKeeper.GetStreams(f.Ctx) {
			if s.DistrEpochIdentifier != eid || !pre.active[s.Id] {
				continue
			}
			for _, rec := range s.DistributeTo.Records {
				feeds = feeds || t.feedsBlocked(rec.GaugeId, preRollapps, preGauges)
			}
		}
		if feeds {
			r.Hit("epoch-hook/failing-recipient/streamer-flush")
			if post.ptrs[eid] == pre.ptrs[eid] {
				r.Hit("epoch-hook/failing-recipient/streamer-flush/pointer-kept")
			}
		}
	}
}

// feedsBlocked: gauge id is a rollapp gauge of a launched rollapp whose owner is a blocked address (whatever the
// gauge holds: a stream's share arrives in the same call)
func (t *c15Trace) feedsBlocked(id uint64, preRollapps []rollapptypes.Rollapp, preGauges []inctypes.Gauge) bool {
	for _, g := range preGauges {
		if g.Id != id || g.GetRollapp() == nil {
			continue
		}
		for _, x := range preRollapps {
			if x.RollappId == g.GetRollapp().RollappId && x.Launched {
				addr, err := sdk.AccAddressFromBech32(x.Owner)
				return err == nil && t.w.f.App.BankKeeper.BlockedAddr(addr)
			}
		}
	}
	return false
}

// proportional: "rewards reach the owners of qualifying locks in proportion to their locked amounts".
//
// Model independent.  For every Distribute call of the block op (c15Batch) and every gauge whose distributed
// coins changed in it, the payout is recomputed from the REAL state before the call:
//   - asset gauge (denom d, duration D): the qualifying locks are the locks of the real lockup table that hold
//     d and have Duration >= D — the rule of GetLocksLongerThanDurationDenom (an inclusive range over the
//     denom/duration index, over BOTH the not-unlocking and the unlocking prefix: a lock counts until it is
//     withdrawn after maturity), re-derived here over GetPeriodLocks, not taken from the function under test.
//     (Epochs run first in BeginBlock and the streamer runs before lockup in EndBlock, so the lock table at
//     the start of the op is the table at the distribution.)
//     Every qualifying lock l is due exactly  floor(remain_c * amount_l / (S * e))  of every remaining coin c,
//     S the qualifying locks' total, e = 1 (perpetual) or NumEpochsPaidOver - FilledEpochs: the code's own
//     rounding, no tolerance; remain = the gauge's coins at the call minus what it had distributed before.
//   - rollapp gauge: what it distributed goes to the rollapp's owner.
//
// Each recipient's payment in the call must equal the sum of what it is due; anybody else gets nothing.
// Additionally, at the incentives module's epoch end every active asset gauge with a qualifying lock that is
// due a positive amount must have distributed.
func (t *c15Trace) proportional(op string, pre, post c15Snap, preLocks []lockuptypes.PeriodLock, preRollapps []rollapptypes.Rollapp, preGauges []inctypes.Gauge) {
	r, f := t.r, t.w.f
	batches := t.w.pay.batches
	t.w.pay.batches = nil

	type due struct {
		owner string
		amt   sdk.Coins
	}
	// what an asset gauge with `remain` coins left owes to each qualifying lock
	dueOf := func(g inctypes.Gauge, remain sdk.Coins, filled uint64) (out []due, qualifying int) {
		a := g.GetAsset()
		e := uint64(1)
		if !g.IsPerpetual {
			if g.NumEpochsPaidOver <= filled {
				return nil, 0
			}
			e = g.NumEpochsPaidOver - filled
		}
		sum := math.ZeroInt()
		var q []lockuptypes.PeriodLock
		for _, l := range preLocks {
			if amt := l.Coins.AmountOf(a.Denom); amt.IsPositive() && l.Duration >= a.Duration {
				q = append(q, l)
				sum = sum.Add(amt)
			}
		}
		if sum.IsZero() {
			return nil, 0
		}
		for _, l := range q {
			cs := sdk.NewCoins()
			for _, c := range remain {
				if x := c.Amount.Mul(l.Coins.AmountOf(a.Denom)).Quo(sum.Mul(math.NewIntFromUint64(e))); x.IsPositive() {
					cs = cs.Add(sdk.NewCoin(c.Denom, x))
				}
			}
			out = append(out, due{l.Owner, cs})
		}
		return out, len(q)
	}
	accts := t.w.accts()
	actorOf := func(addr string) string {
		for _, a := range accts {
			if Actor(a).String() == addr {
				return fmt.Sprintf("actor %d", a)
			}
		}
		return addr
	}

	// a hook whose error the epochs module swallowed has its payments rolled back: the payments seen must
	// add up to what the accounts really gained, otherwise the calls cannot be told apart any more
	seen := map[string]sdk.Coins{}
	for _, b := range batches {
		for to, c := range b.paid {
			seen[to] = seen[to].Add(c...)
		}
	}
	reconciled := true
	for _, a := range accts {
		if !post.bal[a].IsAllGTE(pre.bal[a]) || !c15Only(seen[Actor(a).String()]).Equal(post.bal[a].Sub(pre.bal[a]...)) {
			reconciled = false
		}
		delete(seen, Actor(a).String())
	}
	if len(seen) > 0 {
		reconciled = false
	}
	if !reconciled {
		r.Hit("proportional/payments-rolled-back")
		return
	}

	distributedInOp := map[uint64]bool{}
	for _, b := range batches {
		r.Hit("proportional/distribute-call")
		// C12: recipients of ONE call that have no x/auth account yet get their account numbers in payment order
		nNew := 0
		for to := range b.paid {
			if t.noAcct[to] {
				nNew++
				delete(t.noAcct, to)
			}
		}
		if nNew >= 2 {
			r.Hit("distribute-call/several-accountless-recipients")
			if nNew >= 4 {
				r.Hit("distribute-call/4+-accountless-recipients")
			}
			if len(b.paid) > nNew {
				r.Hit("distribute-call/accountless-and-existing-recipients")
			}
		}
		expect := map[string]sdk.Coins{}
		qualifies := map[string]bool{} // owners of a lock qualifying for an asset gauge that distributed in this call
		var assets []inctypes.Gauge
		for id, g := range b.cur {
			pg, ok := b.prev[id]
			if !ok || g.DistributedCoins.Equal(pg.DistributedCoins) {
				continue
			}
			distributedInOp[id] = true
			if !g.DistributedCoins.IsAllGTE(pg.DistributedCoins) || !g.Coins.IsAllGTE(pg.DistributedCoins) {
				continue // reported by gauge_bounded
			}
			handed := g.DistributedCoins.Sub(pg.DistributedCoins...)
			switch {
			case g.GetAsset() != nil:
				r.Hit("proportional/asset-gauge-distributes")
				assets = append(assets, g)
				ds, nq := dueOf(g, g.Coins.Sub(pg.DistributedCoins...), pg.FilledEpochs)
				if nq > 1 {
					r.Hit("proportional/several-qualifying-locks")
				}
				total := sdk.NewCoins()
				for _, d := range ds {
					expect[d.owner] = expect[d.owner].Add(d.amt...)
					qualifies[d.owner] = true
					total = total.Add(d.amt...)
				}
				if !total.Equal(handed) {
					sig := "C15/proportional/payout-not-proportional"
					if nq > 0 && handed.IsAllLTE(total) {
						sig = "C15/proportional/qualifying-lock-unpaid"
					}
					r.Violate(sig, fmt.Sprintf("in `%s` asset gauge %d (%s, duration %s) handed out %s; its %d qualifying locks are due %s in total (remaining %s, filled epochs %d)",
						op, id, g.GetAsset().Denom, g.GetAsset().Duration, handed, nq, total, g.Coins.Sub(pg.DistributedCoins...), pg.FilledEpochs), t.replay()...)
				}
			case g.GetRollapp() != nil:
				for _, x := range preRollapps {
					if x.RollappId == g.GetRollapp().RollappId {
						expect[x.Owner] = expect[x.Owner].Add(handed...)
					}
				}
			}
		}
		// the shape in which one gauge's lock selection can leak into another's: two asset gauges of one
		// denom with different durations in one call, and a lock whose duration lies between the two
		for i := range assets {
			for j := range assets {
				a, c := assets[i].GetAsset(), assets[j].GetAsset()
				if a.Denom != c.Denom || a.Duration <= c.Duration {
					continue
				}
				for _, l := range preLocks {
					if l.Coins.AmountOf(a.Denom).IsPositive() && l.Duration >= c.Duration && l.Duration < a.Duration {
						if assets[i].Id < assets[j].Id {
							r.Hit("proportional/two-durations/longer-gauge-first")
						} else {
							r.Hit("proportional/two-durations/shorter-gauge-first")
						}
						break
					}
				}
			}
		}
		owners := map[string]bool{}
		for o := range expect {
			owners[o] = true
		}
		for o := range b.paid {
			owners[o] = true
		}
		names := []string{}
		for o := range owners {
			names = append(names, o)
		}
		sort.Strings(names)
		for _, o := range names {
			got, want := c15Only(b.paid[o]), c15Only(expect[o])
			if got.Equal(want) {
				continue
			}
			sig := "C15/proportional/payout-not-proportional"
			if qualifies[o] && got.IsAllLTE(want) {
				sig = "C15/proportional/qualifying-lock-unpaid"
			}
			r.Violate(sig, fmt.Sprintf("in one Distribute call of `%s` %s was paid %s; its qualifying locks (and rollapps) are due %s", op, actorOf(o), c15ShowCoins(got), c15ShowCoins(want)), t.replay()...)
		}
	}

	// the incentives epoch end distributes every active gauge
	if op == "begin" {
		id := f.App.IncentivesKeeper.GetParams(f.Ctx).DistrEpochIdentifier
		if pre.epochNo[id] >= 1 && post.epochNo[id] == pre.epochNo[id]+1 {
			// the hook fails as a whole (and is swallowed) when a rollapp gauge cannot be paid
			for _, g := range preGauges {
				if ra := g.GetRollapp(); ra != nil {
					found := false
					for _, x := range preRollapps {
						if x.RollappId == ra.RollappId {
							found = true
							if o, err := sdk.AccAddressFromBech32(x.Owner); err != nil || f.App.BankKeeper.BlockedAddr(o) {
								return
							}
						}
					}
					if !found {
						return
					}
				}
			}
			r.Hit("proportional/incentives-epoch-end")
			for _, g := range preGauges {
				if g.GetAsset() == nil || !pre.gActive[g.Id] || distributedInOp[g.Id] || !g.DistributedCoins.IsAllLTE(g.Coins) {
					continue
				}
				ds, nq := dueOf(g, g.Coins.Sub(g.DistributedCoins...), g.FilledEpochs)
				for _, d := range ds {
					if !d.amt.Empty() {
						r.Violate("C15/proportional/qualifying-lock-unpaid", fmt.Sprintf("the incentives epoch (%s) ended with asset gauge %d (%s, duration %s, remaining %s) active and %d qualifying locks, %s due %s, but the gauge distributed nothing",
							id, g.Id, g.GetAsset().Denom, g.GetAsset().Duration, g.Coins.Sub(g.DistributedCoins...), nq, actorOf(d.owner), c15ShowCoins(d.amt)), t.replay()...)
						break
					}
				}
			}
		}
	}
}

// ---------------------------------------------------------------------------------------------
// generator

type c15Gen struct {
	t        *c15Trace
	g        *Rng
	nGauges  int
	perp     []int // ids of perpetual gauges (valid stream targets)
	nonperp  []int
	nStreams int
	nRoll    int
	nFresh   int   // fresh addresses handed out so far (the next one is c15Fresh0 + nFresh)
	rgauges  []int // ids of rollapp gauges
	lockIDs  []uint64
	inBlock  bool
	staked   map[int]bool // actors that have delegated (may vote)
	voted    map[int]bool
	nPools   int
}

// votes: a sponsorship vote of one actor over 1-3 perpetual gauges (percent weights, total <= 100, sometimes
// listed in descending gauge order: x/sponsorship sorts), after a delegation if the actor has none yet
func (x *c15Gen) sponsorshipOp() bool {
	g := x.g
	if x.staked == nil {
		x.staked, x.voted = map[int]bool{}, map[int]bool{}
	}
	a := g.Intn(c15NA)
	if !x.staked[a] || g.Chance(15) {
		x.staked[a] = true
		x.t.r.Hit("sponsorship/delegate")
		if !x.do(fmt.Sprintf("delegate %d %d", a, 1+g.Intn(50))) {
			return false
		}
	}
	if x.voted[a] && g.Chance(25) {
		x.voted[a] = false
		x.t.r.Hit("sponsorship/revoke")
		return x.do(fmt.Sprintf("revoke %d", a))
	}
	if len(x.perp) == 0 {
		return true
	}
	pick := map[int]bool{}
	for i := 1 + g.Intn(3); i > 0; i-- {
		pick[x.perp[g.Intn(len(x.perp))]] = true
	}
	ids := []int{}
	for id := range pick {
		ids = append(ids, id)
	}
	sort.Ints(ids)
	if g.Chance(30) {
		sort.Sort(sort.Reverse(sort.IntSlice(ids)))
		x.t.r.Hit("sponsorship/vote-weights-descending")
	}
	left := 100
	parts := []string{}
	for i, id := range ids {
		w := 1 + g.Intn(left-(len(ids)-1-i))
		if g.Chance(30) && i == len(ids)-1 {
			w = left // everything allocated
		}
		left -= w
		parts = append(parts, fmt.Sprintf("%d:%d", id, w))
	}
	if g.Chance(8) && len(x.nonperp) > 0 {
		parts = append(parts, fmt.Sprintf("%d:1", x.nonperp[0])) // rejected: not perpetual
		x.t.r.Hit("perturb/vote-non-perpetual")
	}
	x.voted[a] = true
	x.t.r.Hit("sponsorship/vote")
	return x.do(fmt.Sprintf("vote %d %s", a, strings.Join(parts, ",")))
}

// freshOwners: every rollapp (most of them) is handed to a never-seen, account-less address through the real
// MsgTransferOwnership, and the rollapp gauges are funded in the same block — directly (paid at the incentives
// epoch end) or by a stream (paid by the streamer's EndBlock / epoch end) — so that ONE Distribute call pays
// several recipients whose x/auth accounts are created by that payment.  grow > 0: first bring the number of
// rollapps with a gauge up to grow.
func (x *c15Gen) freshOwners(grow int) bool {
	g := x.g
	for x.nRoll < grow {
		rr := x.nRoll
		x.nRoll++
		if !x.do(fmt.Sprintf("rollapp %d %d 1", rr, g.Intn(c15NA))) || !x.do(fmt.Sprintf("rgauge %d", rr)) {
			return false
		}
	}
	x.sync()
	if x.nRoll == 0 || len(x.rgauges) == 0 {
		return true
	}
	x.t.r.Hit("shape/fresh-rollapp-owners")
	for rr := 0; rr < x.nRoll; rr++ {
		if g.Chance(85) {
			a := c15Fresh0 + x.nFresh
			x.nFresh++
			if !x.do(fmt.Sprintf("xferowner %d %d", rr, a)) {
				return false
			}
		}
	}
	small := func() string { return strconv.Itoa(1 + g.Intn(100000)) }
	if g.Chance(35) {
		// direct top-ups (the funder needs reward coins)
		funder := g.Intn(c15NA)
		if !x.do(fmt.Sprintf("fund %d 100000000,100000000", funder)) {
			return false
		}
		for _, id := range x.rgauges {
			if !x.do(fmt.Sprintf("addgauge %d %d %s,%s", funder, id, small(), []string{"0", small()}[g.Intn(2)])) {
				return false
			}
		}
		return true
	}
	// one stream over all rollapp gauges (and sometimes an asset gauge, whose lock owners have accounts)
	ids := append([]int(nil), x.rgauges...)
	for _, id := range x.perp {
		isR := false
		for _, r := range x.rgauges {
			isR = isR || r == id
		}
		if !isR && g.Chance(30) {
			ids = append(ids, id)
		}
	}
	sort.Ints(ids)
	parts := []string{}
	for _, id := range ids {
		parts = append(parts, fmt.Sprintf("%d:%d", id, 1+g.Intn(3)))
	}
	coins := fmt.Sprintf("%d,%d", 1000*len(ids)+g.Intn(1000000), []int{0, 7, 100000}[g.Intn(3)])
	if !x.do("fund 100 " + coins) {
		return false
	}
	ok := x.do(fmt.Sprintf("mkstream %s %s %d %d %d", coins, strings.Join(parts, ","), x.now(), []int{1, 1, 1, 0, 2}[g.Intn(5)], 1+g.Intn(3)))
	x.sync()
	return ok
}

// blockedEpisode: FAULT INJECTION between two blocks (outside the reachable states since fix F4, see `forceowner`).
// A rollapp with a gauge is handed to the blocked lockup module account, that gauge and one more are topped up
// directly, one block begins (mostly across the week boundary: the incentives epoch hook — and any streamer flush
// that reaches the gauge — fails as a whole and is rolled back), and the owner is repaired BEFORE the block's
// EndBlock, which a blocked recipient would fail (the fixed finding F4, not wanted again).
func (x *c15Gen) blockedEpisode() bool {
	g, f := x.g, x.t.w.f
	x.sync()
	if len(x.rgauges) == 0 {
		return true
	}
	gid := x.rgauges[g.Intn(len(x.rgauges))]
	gauge, err := f.App.IncentivesKeeper.GetGaugeByID(f.Ctx, uint64(gid))
	if err != nil || gauge.GetRollapp() == nil {
		return true
	}
	ra, ok := f.App.RollappKeeper.GetRollapp(f.Ctx, gauge.GetRollapp().RollappId)
	rr, owner := -1, -1
	for i := 0; i < x.nRoll; i++ {
		if c15RollappID(i) == gauge.GetRollapp().RollappId {
			rr = i
		}
	}
	for _, a := range x.t.w.accts() {
		if ok && Actor(a).String() == ra.Owner {
			owner = a
		}
	}
	if rr < 0 || owner < 0 {
		return true
	}
	x.t.r.Hit("perturb/forceowner-blocked")
	funder := g.Intn(c15NA)
	other := 1 + g.Intn(x.nGauges)
	dt := 7*86400 + 1
	if g.Chance(30) {
		dt = x.dt()
	}
	for _, l := range []string{
		fmt.Sprintf("fund %d 100000000,100000000", funder),
		fmt.Sprintf("addgauge %d %d %d,%d", funder, gid, 1+g.Intn(100000), g.Intn(2)*g.Intn(1000)),
		fmt.Sprintf("addgauge %d %d %d,0", funder, other, 1+g.Intn(100000)),
		fmt.Sprintf("forceowner %d 102", rr),
		fmt.Sprintf("begin %d", dt),
		fmt.Sprintf("rollapp %d %d %s", rr, owner, c15b(ra.Launched)),
		"end",
	} {
		if !x.do(l) {
			return false
		}
	}
	x.sync()
	return true
}

func (x *c15Gen) amount() string {
	g := x.g
	switch g.Intn(9) {
	case 0:
		return strconv.Itoa(1 + g.Intn(20))
	case 1, 2:
		return strconv.Itoa(100 + g.Intn(100000))
	case 3:
		return "1000000"
	case 4:
		return "1000000000000000000"
	case 5:
		return "6000000000000000000"
	case 6:
		return "1000000000000000000000000"
	case 7:
		return strconv.FormatUint(g.U64()>>uint(g.Intn(40)), 10)
	default:
		return strconv.Itoa(1 + g.Intn(1000))
	}
}

func (x *c15Gen) coins(allowEmpty bool) string {
	g := x.g
	switch g.Intn(6) {
	case 0:
		if allowEmpty {
			return "0,0"
		}
		return x.amount() + ",0"
	case 1:
		return "0," + x.amount()
	case 2:
		return x.amount() + "," + x.amount()
	default:
		return x.amount() + ",0"
	}
}

func (x *c15Gen) now() int64 { return c15Time(x.t.w.f) }

func (x *c15Gen) startTime() int64 {
	g := x.g
	switch g.Intn(6) {
	case 0:
		return x.now() - int64(g.Intn(5000)) // in the past
	case 1:
		return x.now() + int64(1+g.Intn(7200))
	case 2:
		return x.now() + int64(g.Intn(3*86400))
	default:
		return x.now()
	}
}

func (x *c15Gen) recs(perturb bool) string {
	g := x.g
	if len(x.perp) == 0 {
		return "1:1"
	}
	n := 1 + g.Intn(4)
	if g.Chance(15) {
		n = 6
	}
	pick := map[int]bool{}
	for i := 0; i < n; i++ {
		pick[x.perp[g.Intn(len(x.perp))]] = true
	}
	ids := []int{}
	for id := range pick {
		ids = append(ids, id)
	}
	sort.Ints(ids)
	equal := g.Chance(40)
	w0 := 1 + g.Intn(5)
	parts := []string{}
	for _, id := range ids {
		w := w0
		if !equal {
			switch g.Intn(4) {
			case 0:
				w = 1 + g.Intn(10)
			case 1:
				w = 1 + g.Intn(1000)
			case 2:
				w = []int{1, 3, 7, 11, 13, 997}[g.Intn(6)]
			default:
				w = 1 + g.Intn(3)
			}
		}
		parts = append(parts, fmt.Sprintf("%d:%d", id, w))
	}
	if perturb {
		x.t.r.Hit("perturb/records")
		switch g.Intn(11) {
		case 6: // one zero weight among valid, sorted records
			i := g.Intn(len(parts))
			parts[i] = strings.Split(parts[i], ":")[0] + ":0"
			x.t.r.Hit("perturb/records/zero-weight-sorted")
		case 7: // a zero-weight record out of order (at the end, naming a gauge id below the others; or moved to the front)
			if len(parts) > 1 {
				if g.Bool() {
					first := strings.Split(parts[0], ":")[0]
					parts = append(parts[1:], first+":0")
				} else {
					last := strings.Split(parts[len(parts)-1], ":")[0]
					parts = append([]string{last + ":0"}, parts[:len(parts)-1]...)
				}
			} else {
				parts = append(parts, "0:0")
			}
			x.t.r.Hit("perturb/records/zero-weight-unsorted")
		case 8: // a zero-weight duplicate of a listed gauge
			parts = append(parts, strings.Split(parts[g.Intn(len(parts))], ":")[0]+":0")
			x.t.r.Hit("perturb/records/zero-weight-duplicate")
		case 9: // a zero-weight record for an unknown gauge (sorted position: the end)
			parts = append(parts, fmt.Sprintf("%d:0", x.nGauges+1+g.Intn(3)))
			x.t.r.Hit("perturb/records/zero-weight-unknown-gauge")
		case 10: // a zero-weight record for a non-perpetual gauge, inserted in sorted position
			if len(x.nonperp) > 0 {
				id := x.nonperp[g.Intn(len(x.nonperp))]
				out := []string{}
				done := false
				for _, p := range parts {
					pid, _ := strconv.Atoi(strings.Split(p, ":")[0])
					if !done && pid > id {
						out = append(out, fmt.Sprintf("%d:0", id))
						done = true
					}
					if pid != id {
						out = append(out, p)
					}
				}
				if !done {
					out = append(out, fmt.Sprintf("%d:0", id))
				}
				parts = out
			}
			x.t.r.Hit("perturb/records/zero-weight-non-perpetual")
		case 0: // unknown gauge
			parts = append(parts, fmt.Sprintf("%d:1", x.nGauges+1+g.Intn(3)))
		case 1: // non-perpetual gauge
			if len(x.nonperp) > 0 {
				parts = append(parts, fmt.Sprintf("%d:1", x.nonperp[g.Intn(len(x.nonperp))]))
			} else {
				parts = append(parts, "0:1")
			}
		case 2: // unsorted
			if len(parts) > 1 {
				parts[0], parts[len(parts)-1] = parts[len(parts)-1], parts[0]
			} else {
				parts = append(parts, parts[0])
			}
		case 3: // duplicate
			parts = append(parts, parts[len(parts)-1])
		case 4: // all weights zero
			for i := range parts {
				parts[i] = strings.Split(parts[i], ":")[0] + ":0"
			}
		case 5: // empty
			return "-"
		}
	}
	return strings.Join(parts, ",")
}

func (x *c15Gen) do(line string) bool { return x.t.exec(line) }

// one random transaction-level op
func (x *c15Gen) txOp() bool {
	g := x.g
	perturb := g.Chance(30)
	switch g.Intn(17) {
	case 0, 1: // create asset gauge
		perp := g.Chance(65)
		ne := 1
		if !perp {
			ne = 1 + g.Intn(4)
		}
		denom, dur, start := g.Intn(2), []int{1, 3600, 10800, 25200, 60}[g.Intn(5)], x.startTime()
		owner := g.Intn(c15NA)
		coins := x.coins(true)
		if perturb {
			x.t.r.Hit("perturb/mkgauge")
			switch g.Intn(6) {
			case 0:
				ne = 0
			case 1:
				perp, ne = true, 2
			case 2:
				dur = 7
			case 3:
				denom = 5
			case 4:
				start = 0
			case 5:
				coins = "99999999999999999999999999999999999999999999,0" // more than the owner has
			}
		}
		ok := x.do(fmt.Sprintf("mkgauge %d %s %d %d %s %d %d", owner, c15b(perp), denom, dur, coins, start, ne))
		x.sync()
		return ok
	case 2: // add to gauge
		gid := 1 + g.Intn(x.nGauges+1)
		if perturb {
			x.t.r.Hit("perturb/addgauge")
			gid = x.nGauges + 1 + g.Intn(3)
		}
		return x.do(fmt.Sprintf("addgauge %d %d %s", g.Intn(c15NA), gid, x.coins(perturb)))
	case 3, 4: // lock
		ok := x.do(fmt.Sprintf("lock %d %d %s %d", g.Intn(c15NA), g.Intn(2), []string{"1", "7", "100", "1000", "333333", "1000000000000000000", strconv.Itoa(1 + g.Intn(5000))}[g.Intn(7)], []int{1, 60, 3600, 10800, 25200, 30}[g.Intn(6)]))
		x.sync()
		return ok
	case 5: // begin unlocking
		x.sync()
		if len(x.lockIDs) == 0 {
			return true
		}
		id := x.lockIDs[g.Intn(len(x.lockIDs))]
		l, err := x.t.w.f.App.LockupKeeper.GetLockByID(x.t.w.f.Ctx, id)
		if err != nil {
			return true
		}
		owner := 0
		for a := 0; a < c15NA; a++ {
			if Actor(a).String() == l.Owner {
				owner = a
			}
		}
		x.t.r.Hit("lock-change/unlock")
		return x.do(fmt.Sprintf("unlock %d %d", owner, id))
	case 6, 7, 8: // create stream
		if len(x.perp) == 0 && !perturb {
			return true
		}
		coins := x.coins(false)
		if !perturb || g.Chance(50) {
			if !x.do("fund 100 " + coins) {
				return false
			}
		} else {
			x.t.r.Hit("perturb/mkstream-unfunded")
		}
		ne, ep, recs := []int{1, 2, 2, 3, 3, 4, 6}[g.Intn(7)], []int{1, 1, 1, 0, 2}[g.Intn(5)], x.recs(perturb && g.Chance(60))
		if perturb && g.Chance(30) {
			x.t.r.Hit("perturb/mkstream-params")
			switch g.Intn(3) {
			case 0:
				ne = 0
			case 1:
				ep = 3
			case 2:
				coins = "0,0"
			}
		}
		spo := ""
		if g.Chance(30) {
			spo = " s" // sponsored: the records above are ignored, the stream follows the sponsorship distribution
			x.t.r.Hit("mkstream-sponsored")
		}
		ok := x.do(fmt.Sprintf("mkstream %s %s %d %d %d%s", coins, recs, x.startTime(), ep, ne, spo))
		x.sync()
		return ok
	case 9: // terminate
		if x.nStreams == 0 && !perturb {
			return true
		}
		id := 1 + g.Intn(x.nStreams+1)
		if perturb {
			id = x.nStreams + 1 + g.Intn(2)
		}
		if !g.Chance(35) {
			return true
		}
		return x.do(fmt.Sprintf("term %d", id))
	case 10: // replace distribution
		if x.nStreams == 0 || !g.Chance(35) {
			return true
		}
		return x.do(fmt.Sprintf("replace %d %s", 1+g.Intn(x.nStreams), x.recs(perturb)))
	case 11: // iteration limit
		v := []int{1, 1, 1, 2, 3, 5, 8, 500}[g.Intn(8)]
		if perturb && g.Chance(20) {
			v = 0
			x.t.r.Hit("perturb/maxiter-0")
		}
		if v == 1 {
			x.t.r.Hit("limit-1")
		}
		return x.do(fmt.Sprintf("maxiter %d", v))
	case 12: // rollapp + gauge
		if x.nRoll >= 3 {
			rr := g.Intn(x.nRoll)
			owner := g.Intn(c15NA)
			if perturb && g.Chance(15) {
				// deliberately: hand the rollapp to a blocked module account through the real message
				x.t.r.Hit("perturb/xferowner-blocked")
				if g.Chance(40) {
					x.t.r.Hit("perturb/xferowner-blocked-uppercase-spelling")
					return x.do(fmt.Sprintf("xferowner %d 102 uc", rr))
				}
				return x.do(fmt.Sprintf("xferowner %d 102", rr))
			}
			if g.Chance(25) {
				a := c15Fresh0 + x.nFresh
				x.nFresh++
				return x.do(fmt.Sprintf("xferowner %d %d", rr, a))
			}
			return x.do(fmt.Sprintf("rollapp %d %d %s", rr, owner, c15b(g.Chance(75))))
		}
		if perturb && g.Chance(30) {
			x.t.r.Hit("perturb/rgauge-unknown-rollapp")
			ok := x.do(fmt.Sprintf("rgauge %d", x.nRoll+2))
			x.sync()
			return ok
		}
		rr := x.nRoll
		x.nRoll++
		launched := g.Chance(75)
		if !launched {
			x.t.r.Hit("rollapp-not-launched")
		}
		if !x.do(fmt.Sprintf("rollapp %d %d %s", rr, g.Intn(c15NA), c15b(launched))) {
			return false
		}
		ok := x.do(fmt.Sprintf("rgauge %d", rr))
		x.sync()
		return ok
	case 13: // fund streamer or an actor
		if g.Bool() {
			return x.do("fund 100 " + x.coins(false))
		}
		return x.do(fmt.Sprintf("fund %d %s", g.Intn(c15NA), x.coins(false)))
	case 14: // the rollapps change hands to never-seen addresses and their gauges are funded
		if g.Chance(60) {
			return x.freshOwners(0)
		}
		return true
	case 15: // sponsorship: delegate / vote / revoke (changes the distribution sponsored streams follow)
		return x.sponsorshipOp()
	default: // UpdateStreamDistributionProposal; rarely a new pool (AfterPoolCreated -> CreatePoolGauge)
		if g.Chance(12) && x.nPools < 2 {
			x.nPools++
			has := g.Chance(80)
			if !has {
				x.t.r.Hit("perturb/poolgauges-no-supply")
			}
			ok := x.do(fmt.Sprintf("poolgauges %d %s", 10+x.nPools, c15b(has)))
			x.sync()
			if ok && has && g.Chance(70) {
				ok = x.do(fmt.Sprintf("lock %d %d %s %d", g.Intn(c15NA), 10+x.nPools, []string{"7", "1000", "333333"}[g.Intn(3)], []int{60, 3600, 25200}[g.Intn(3)]))
				x.sync()
			}
			return ok
		}
		if x.nStreams == 0 || !g.Chance(40) {
			return true
		}
		return x.do(fmt.Sprintf("update %d %s", 1+g.Intn(x.nStreams), x.recs(perturb)))
	}
}

func c15b(b bool) string {
	if b {
		return "1"
	}
	return "0"
}

// sync refreshes the generator's view of ids from the real state
func (x *c15Gen) sync() {
	f := x.t.w.f
	gs := f.App.IncentivesKeeper.GetGauges(f.Ctx)
	x.nGauges = len(gs)
	x.perp, x.nonperp, x.rgauges = nil, nil, nil
	for _, g := range gs {
		if g.GetRollapp() != nil {
			x.rgauges = append(x.rgauges, int(g.Id))
		}
		if g.IsPerpetual {
			x.perp = append(x.perp, int(g.Id))
		} else {
			x.nonperp = append(x.nonperp, int(g.Id))
		}
	}
	sort.Ints(x.perp)
	sort.Ints(x.nonperp)
	sort.Ints(x.rgauges)
	x.nStreams = int(f.App.StreamerKeeper.GetLastStreamID(f.Ctx))
	ls, _ := f.App.LockupKeeper.GetPeriodLocks(f.Ctx)
	x.lockIDs = nil
	for _, l := range ls {
		x.lockIDs = append(x.lockIDs, l.ID)
	}
	sort.Slice(x.lockIDs, func(i, j int) bool { return x.lockIDs[i] < x.lockIDs[j] })
}

func (x *c15Gen) dt() int {
	g := x.g
	switch g.Intn(12) {
	case 0, 1, 2:
		return 1 + g.Intn(10)
	case 3, 4:
		return 600 + g.Intn(1800)
	case 5, 6, 7:
		return 3601 + g.Intn(100)
	case 8:
		return 86401
	case 9:
		return 7*86400 + 1
	case 10:
		return 1800
	default:
		return 60 + g.Intn(4000)
	}
}

func c15RandomTrace(r *Run, g *Rng) {
	mi := []uint64{1, 1, 2, 3, 5, 500}[g.Intn(6)]
	t := c15Start(r, mi)
	defer t.finish()
	x := &c15Gen{t: t, g: g}
	// first block: epochs start counting
	if !x.do("begin 1") || !x.do("end") {
		return
	}
	// a population to work with
	for a := 0; a < c15NA; a++ {
		if g.Chance(70) {
			x.do(fmt.Sprintf("fund %d %s", a, "1000000000000000000000000000,1000000000000000000000000000"))
		}
	}
	// often: two asset gauges on one lock denom with different durations (both creation orders), locks whose
	// durations lie between the two and above both, and a stream feeding both gauges
	if g.Chance(60) {
		r.Hit("shape/two-durations")
		durs := []int{60, 3600, 10800, 25200}
		i := g.Intn(len(durs) - 1)
		short, long := durs[i], durs[i+1+g.Intn(len(durs)-1-i)]
		d := g.Intn(2)
		first, second := long, short
		if g.Bool() {
			first, second = short, long
		}
		if !x.do(fmt.Sprintf("begin %d", 1+g.Intn(100))) {
			return
		}
		x.do(fmt.Sprintf("mkgauge %d 1 %d %d %s %d 1", g.Intn(c15NA), d, first, x.coins(true), x.now()))
		x.do(fmt.Sprintf("mkgauge %d %s %d %d %s %d %d", g.Intn(c15NA), c15b(g.Chance(70)), d, second, x.coins(true), x.now(), 1+g.Intn(3)))
		x.sync()
		for k := 1 + g.Intn(3); k > 0; k-- {
			x.do(fmt.Sprintf("lock %d %d %s %d", g.Intn(c15NA), d, []string{"1", "7", "100", "1000", "333333"}[g.Intn(5)], short))
		}
		if g.Chance(70) {
			x.do(fmt.Sprintf("lock %d %d %s %d", g.Intn(c15NA), d, []string{"1", "7", "100", "1000", "333333"}[g.Intn(5)], long))
		}
		x.sync()
		if g.Chance(60) && len(x.perp) >= 2 {
			coins := x.coins(false)
			x.do("fund 100 " + coins)
			a, b := x.perp[len(x.perp)-2], x.perp[len(x.perp)-1]
			x.do(fmt.Sprintf("mkstream %s %d:%d,%d:%d %d %d %d", coins, a, 1+g.Intn(3), b, 1+g.Intn(3), x.now(), []int{1, 1, 0, 2}[g.Intn(4)], 2+g.Intn(3)))
			x.sync()
		}
		if !x.do("end") {
			return
		}
	}
	// often: several rollapps with gauges whose owners are never-seen addresses, funded in one block
	if g.Chance(55) {
		if !x.do(fmt.Sprintf("begin %d", 1+g.Intn(100))) {
			return
		}
		if !x.freshOwners(2+g.Intn(7)) || !x.do("end") {
			return
		}
	}
	// often: a sponsored stream over the hour epoch with votes that change between (and within) epochs
	if g.Chance(45) {
		r.Hit("shape/sponsored-stream")
		if !x.do(fmt.Sprintf("begin %d", 1+g.Intn(100))) {
			return
		}
		for k := 0; k < 3; k++ {
			x.do(fmt.Sprintf("mkgauge %d 1 %d %d 0,0 %d 1", g.Intn(c15NA), g.Intn(2), []int{1, 60, 3600}[g.Intn(3)], x.now()))
		}
		x.sync()
		x.do(fmt.Sprintf("lock %d %d %s %d", g.Intn(c15NA), 0, "1000", 3600))
		x.do(fmt.Sprintf("lock %d %d %s %d", g.Intn(c15NA), 1, "333333", 3600))
		if g.Chance(75) {
			if !x.sponsorshipOp() {
				return
			}
		} else {
			r.Hit("shape/sponsored-stream-created-on-empty-distribution")
		}
		coins := x.coins(false)
		x.do("fund 100 " + coins)
		x.do(fmt.Sprintf("mkstream %s - %d %d %d s", coins, x.now(), []int{1, 1, 1, 0}[g.Intn(4)], 2+g.Intn(4)))
		x.sync()
		if !x.do("end") {
			return
		}
	}
	nblocks := 8 + g.Intn(30)
	for b := 0; b < nblocks; b++ {
		if !x.do(fmt.Sprintf("begin %d", x.dt())) {
			return
		}
		x.sync()
		k := g.Intn(4)
		if b < 3 {
			k = 3 + g.Intn(5)
		}
		for i := 0; i < k; i++ {
			if !x.txOp() {
				return
			}
		}
		if !x.do("end") {
			return
		}
	}
	// sometimes, at the END of the trace (the shadow comparison stops at a fault injection): a failing recipient
	// in the epoch hooks, then two more blocks with the owner repaired
	if g.Chance(30) {
		if !x.blockedEpisode() || !x.do(fmt.Sprintf("begin %d", []int{3601, 7*86400 + 1}[g.Intn(2)])) || !x.do("end") {
			return
		}
		if x.do(fmt.Sprintf("begin %d", x.dt())) {
			x.do("end")
		}
	}
}

// ---------------------------------------------------------------------------------------------
// fixed witness histories (run first on every run; they are also the shortest replays)

var c15Witnesses = map[string][]string{
	// F8, stream exactly funded: six equal weights, 6e18 per epoch => shares add up to 6e18+12; EndBlock fails
	"f8-endblock-fails": {
		"begin 1", "end",
		"mkgauge 0 1 0 1 0,0 NOW 1", "mkgauge 0 1 0 1 0,0 NOW 1", "mkgauge 0 1 0 1 0,0 NOW 1",
		"mkgauge 0 1 0 1 0,0 NOW 1", "mkgauge 0 1 0 1 0,0 NOW 1", "mkgauge 0 1 0 1 0,0 NOW 1",
		"lock 1 0 100 3600",
		"fund 100 6000000000000000000,0",
		"mkstream 6000000000000000000,0 1:1,2:1,3:1,4:1,5:1,6:1 NOW 1 2",
		"begin 3601", "end", "begin 3601", "end", "begin 3601", "end",
	},
	// F8 with other funds in the module account: the stream hands out more than it was given, and the
	// second stream's remainder is no longer covered
	"f8-overdistribution": {
		"begin 1", "end",
		"mkgauge 0 1 0 1 0,0 NOW 1", "mkgauge 0 1 0 1 0,0 NOW 1", "mkgauge 0 1 0 1 0,0 NOW 1",
		"mkgauge 0 1 0 1 0,0 NOW 1", "mkgauge 0 1 0 1 0,0 NOW 1", "mkgauge 0 1 0 1 0,0 NOW 1",
		"lock 1 0 100 3600",
		"fund 100 6000000000000001000,0",
		"mkstream 6000000000000000000,0 1:1,2:1,3:1,4:1,5:1,6:1 NOW 1 2",
		"mkstream 1000,0 1:1 NOW 2 3",
		"begin 3601", "end", "begin 3601", "end", "begin 3601", "end", "begin 3601", "end",
	},
	// F8 while the over-distributed stream is still active: GetModuleToDistributeCoins panics (Coins.Sub negative)
	"f8-invariant-panics": {
		"begin 1", "end",
		"mkgauge 0 1 0 1 0,0 NOW 1", "mkgauge 0 1 0 1 0,0 NOW 1", "mkgauge 0 1 0 1 0,0 NOW 1",
		"mkgauge 0 1 0 1 0,0 NOW 1", "mkgauge 0 1 0 1 0,0 NOW 1", "mkgauge 0 1 0 1 0,0 NOW 1",
		"lock 1 0 100 3600",
		"fund 100 6000000000000001000,0",
		"mkstream 6000000000000000000,0 1:1,2:1,3:1,4:1,5:1,6:1 NOW 1 2",
		"begin 3601", "end", "begin 3601", "end", "begin 10", "mkstream 5,0 1:1 NOW 1 2", "end",
	},
	// the active-stream list is not kept sorted by id but is bisected by id: with limit 1 the pointer is lost
	"unsorted-active-streams": {
		"maxiter 1",
		"begin 1", "end",
		"mkgauge 0 1 0 1 0,0 NOW 1", "mkgauge 0 1 0 1 0,0 NOW 1",
		"lock 1 0 100 3600",
		"fund 100 9000,0",
		"mkstream 3000,0 1:1,2:1 NOW 1 1", "mkstream 3000,0 1:1,2:1 NOW 1 3", "mkstream 3000,0 1:1,2:1 NOW 1 3",
		"begin 3601", "end", "begin 1200", "end", "begin 1200", "end", "begin 1201", "end", "begin 1200", "end", "begin 1200", "end", "begin 1201", "end",
	},
	// same unsorted list [3,2] with limit 3: the saved pointer (stream 2, gauge 2) bisects to stream 3, whose
	// second pair and stream 2's first pair are served a second time in the same epoch
	"unsorted-pair-served-twice": {
		"maxiter 3",
		"begin 1", "end",
		"mkgauge 0 1 0 1 0,0 NOW 1", "mkgauge 0 1 0 1 0,0 NOW 1",
		"lock 1 0 100 3600",
		"fund 100 9000,0",
		"mkstream 3000,0 1:1,2:1 NOW 1 1", "mkstream 3000,0 1:1,2:1 NOW 1 3", "mkstream 3000,0 1:1,2:1 NOW 1 3",
		"begin 3601", "end", "begin 1200", "end", "begin 1200", "end", "begin 1201", "end", "begin 1200", "end", "begin 1200", "end", "begin 1201", "end",
		"begin 1200", "end", "begin 1200", "end", "begin 1201", "end", "begin 1200", "end",
	},
	// F4: a launched rollapp with a gauge is transferred to a blocked module account; a stream pays the gauge
	"f4-blocked-rollapp-owner": {
		"begin 1", "end",
		"rollapp 0 2 1", "rgauge 0",
		"fund 100 9000,0",
		"mkstream 9000,0 1:1 NOW 1 3",
		"xferowner 0 102",
		"begin 3601", "end", "begin 3601", "end", "begin 3601", "end",
	},
	// the same with the blocked address spelled in upper case (a blocked-address test keyed by the
	// canonical lower-case text would miss it)
	"f4-blocked-rollapp-owner-uppercase": {
		"begin 1", "end",
		"rollapp 0 2 1", "rgauge 0",
		"fund 100 9000,0",
		"mkstream 9000,0 1:1 NOW 1 3",
		"xferowner 0 102 uc",
		"begin 3601", "end", "begin 3601", "end", "begin 3601", "end",
	},
	// governance re-targets a half-served stream in the middle of the epoch (limit 1): gauge 2 gets the whole
	// epoch amount on top of what gauge 1 already got; stream 1 hands out 1500 of 1000 and the next EndBlock
	// cannot pay stream 2 (the first `begin 3601` only activates the streams; the second starts their epoch)
	"retarget-mid-epoch": {
		"maxiter 1",
		"begin 1", "end",
		"mkgauge 0 1 0 1 0,0 NOW 1", "mkgauge 0 1 0 1 0,0 NOW 1", "mkgauge 0 1 0 1 0,0 NOW 1",
		"lock 1 0 100 3600",
		"fund 100 2000,0",
		"mkstream 1000,0 1:1,2:1 NOW 1 2", "mkstream 1000,0 3:1 NOW 1 2",
		"begin 3601", "end", "begin 3601", "end", "replace 1 2:1", "begin 10", "end", "begin 10", "end",
	},
	// governance terminates stream 1 while the hour pointer points into it (limit 1): the bisection resolves the
	// pointer (1, gauge 2) to stream 2 and skips stream 2's gauge 1 for this epoch
	"terminate-under-pointer": {
		"maxiter 1",
		"begin 1", "end",
		"mkgauge 0 1 0 1 0,0 NOW 1", "mkgauge 0 1 0 1 0,0 NOW 1", "mkgauge 0 1 0 1 0,0 NOW 1",
		"lock 1 0 100 3600",
		"fund 100 6000,0",
		"mkstream 3000,0 1:1,2:1,3:1 NOW 1 2", "mkstream 3000,0 1:1,2:1,3:1 NOW 1 2",
		"begin 3601", "end", "begin 3601", "end", "term 1", "begin 10", "end", "begin 10", "end", "begin 10", "end", "begin 3601", "end",
	},
	// two asset gauges on one lock denom with different durations, a lock whose duration lies between the two
	// and a longer one: every gauge must pay exactly the locks that qualify for IT, whichever gauge is processed
	// first (incentives epoch end = week; creation order = processing order for equal start times)
	"two-durations-longer-first": {
		"begin 1", "end", "fund 0 100000,100000",
		"mkgauge 0 1 0 10800 5000,0 NOW 1", "mkgauge 0 1 0 3600 7000,30 NOW 1",
		"lock 1 0 100 3600", "lock 2 0 300 25200", "lock 3 0 50 60",
		"begin 604801", "end", "begin 10", "end",
	},
	"two-durations-shorter-first": {
		"begin 1", "end", "fund 0 100000,100000",
		"mkgauge 0 1 0 3600 7000,30 NOW 1", "mkgauge 0 1 0 10800 5000,0 NOW 1",
		"lock 1 0 100 3600", "lock 2 0 300 25200", "lock 3 0 50 60",
		"begin 604801", "end", "begin 10", "end",
	},
	// the same without a lock long enough for the longer gauge: the shorter gauge must still pay
	"two-durations-no-long-lock": {
		"begin 1", "end", "fund 0 100000,100000",
		"mkgauge 0 1 0 10800 5000,0 NOW 1", "mkgauge 0 0 0 3600 7000,0 NOW 2",
		"lock 1 0 100 3600", "lock 4 0 11 3600",
		"begin 604801", "end", "begin 604801", "end",
	},
	// the same two gauges fed by one stream and distributed in one streamer call (limit 500) and one by one (limit 1)
	"two-durations-streamed": {
		"begin 1", "end", "fund 0 100000,100000",
		"mkgauge 0 1 0 10800 0,0 NOW 1", "mkgauge 0 1 0 3600 0,0 NOW 1",
		"lock 1 0 100 3600", "lock 2 0 300 25200",
		"fund 100 9000,0", "mkstream 9000,0 1:1,2:2 NOW 1 4",
		"begin 604801", "end", "begin 3601", "end", "begin 10", "end",
		"maxiter 1", "begin 3601", "end", "begin 10", "end", "begin 10", "end",
	},
	// a sponsored stream follows the sponsorship distribution: created on {1:50%,2:50%}; the vote moves to gauge 3 in
	// the middle of an epoch (the stream keeps its records until its next epoch start, then re-targets itself);
	// the vote is revoked (empty distribution: the epoch hands out nothing and is NOT counted as filled); a new vote
	// arrives and the stream finishes.  Paged with limit 1, so the re-targeting meets a pointer that is reset.
	"sponsored-retarget": {
		"maxiter 1",
		"begin 1", "end",
		"mkgauge 0 1 0 1 0,0 NOW 1", "mkgauge 0 1 0 1 0,0 NOW 1", "mkgauge 0 1 0 1 0,0 NOW 1",
		"lock 1 0 100 3600",
		"delegate 0 10", "vote 0 2:50,1:50",
		"fund 100 3000,7", "mkstream 3000,7 - NOW 1 3 s",
		"begin 3601", "end", "begin 10", "end", "vote 0 3:100", "begin 10", "end",
		"begin 3601", "end", "begin 10", "end", "revoke 0",
		"begin 3601", "end", "begin 3601", "end",
		"delegate 2 5", "vote 2 1:10,3:30",
		"begin 3601", "end", "begin 10", "end", "begin 10", "end", "begin 3601", "end", "begin 3601", "end",
	},
	// created while nobody has voted (total weight 0, not an error for a sponsored stream), next to an ordinary stream;
	// governance replaces / updates the sponsored stream's records: the next epoch start overwrites them again
	"sponsored-empty-then-votes": {
		"begin 1", "end",
		"mkgauge 0 1 0 1 0,0 NOW 1", "mkgauge 0 1 1 60 0,0 NOW 1",
		"lock 1 0 100 3600", "lock 2 1 50 60",
		"fund 100 9000,0", "mkstream 4000,0 1:1 NOW 1 2 s", "mkstream 5000,0 1:1,2:4 NOW 1 5",
		"begin 3601", "end", "begin 3601", "end",
		"delegate 3 7", "vote 3 2:100",
		"begin 3601", "end", "replace 1 1:1", "begin 10", "end", "update 1 2:3", "begin 3601", "end", "begin 3601", "end", "begin 3601", "end",
	},
	// UpdateStreamDistributionProposal in the middle of a half-served epoch (limit 1): gauge 2 dropped (weight 0),
	// gauge 3 added, gauge 1 re-weighted
	"update-distr-mid-epoch": {
		"maxiter 1",
		"begin 1", "end",
		"mkgauge 0 1 0 1 0,0 NOW 1", "mkgauge 0 1 0 1 0,0 NOW 1", "mkgauge 0 1 0 1 0,0 NOW 1",
		"lock 1 0 100 3600",
		"fund 100 6000,0",
		"mkstream 6000,0 1:1,2:1 NOW 1 3",
		"begin 3601", "end", "begin 3601", "end", "update 1 2:0,3:5,1:2", "update 1 1:2,2:0,3:5", "begin 10", "end", "begin 10", "end",
		"update 1 1:0,3:0", "update 1 4:1", "begin 3601", "end", "begin 3601", "end",
	},
	// Hooks.AfterPoolCreated -> CreatePoolGauge: five perpetual asset gauges on the pool's share denom, owned by
	// the streamer module account, with empty coins; a stream and a sponsored stream feed them; a pool whose share
	// denom has no supply gets none
	"pool-gauges": {
		"begin 1", "end",
		"poolgauges 11 1", "poolgauges 12 0",
		"lock 1 11 100 3600", "lock 2 11 300 60",
		"delegate 4 3", "vote 4 2:40,5:60",
		"fund 100 9000,50", "mkstream 5000,50 1:1,2:2,5:3 NOW 1 2", "mkstream 4000,0 - NOW 1 2 s",
		"begin 3601", "end", "begin 3601", "end", "begin 3601", "end", "begin 604801", "end",
	},
	// a stream feeds asset gauge 1 (a lock qualifies from the start) and asset gauge 2 (other denom: nobody has a
	// qualifying lock yet); a lock for gauge 2 arrives in the middle of the epoch.  Limit 500: the first EndBlock of
	// the epoch serves both gauges — gauge 2 distributes nothing in that call, so it is not written back: its share
	// (2000) is stranded in the incentives account and actor 2 never gets anything although the stream's
	// DistributedCoins say 4000.  Limit 1 (next witness): gauge 2 is served one block later, after the lock: it is
	// credited and pays actor 2.  So what the gauges receive from the stream depends on the iteration limit.
	"stream-share-stranded": {
		"begin 1", "end",
		"mkgauge 0 1 0 3600 0,0 NOW 1", "mkgauge 0 1 1 3600 0,0 NOW 1",
		"lock 1 0 100 3600",
		"fund 100 4000,0", "mkstream 4000,0 1:1,2:1 NOW 1 2",
		"begin 3601", "end", "begin 3601", "end", "lock 2 1 50 3600", "begin 10", "end", "begin 10", "end", "begin 3601", "end", "begin 3601", "end",
	},
	"stream-share-stranded-limit-1": {
		"maxiter 1",
		"begin 1", "end",
		"mkgauge 0 1 0 3600 0,0 NOW 1", "mkgauge 0 1 1 3600 0,0 NOW 1",
		"lock 1 0 100 3600",
		"fund 100 4000,0", "mkstream 4000,0 1:1,2:1 NOW 1 2",
		"begin 3601", "end", "begin 3601", "end", "lock 2 1 50 3600", "begin 10", "end", "begin 10", "end", "begin 3601", "end", "begin 3601", "end",
	},
	// FAULT INJECTION (forceowner: outside the reachable states since fix F4): a failing recipient in the EPOCH-HOOK
	// path.  Rollapp gauge 1 (owner forced to the blocked lockup module account), rollapp gauge 2 (good owner 3) and
	// the non-perpetual asset gauge 3 (locks of actors 1 and 4) are funded directly, no stream feeds them (the
	// streamer EndBlock never touches them), and all are due in the same x/incentives AfterEpochEnd (week).  The
	// payout to the blocked address fails the whole Distribute call; the epochs wrapper discards the hook's error
	// and its writes: the block goes on, NOBODY is paid, no gauge moves (not even upcoming -> active), twice; once
	// the owner is repaired the next week pays everybody.
	"epoch-hook-failing-recipient": {
		"begin 1", "end", "fund 0 1000000,1000000",
		"rollapp 0 2 1", "rgauge 0", "rollapp 1 3 1", "rgauge 1",
		"mkgauge 0 0 0 3600 7000,30 NOW 2",
		"lock 1 0 100 3600", "lock 4 0 300 25200",
		"addgauge 0 1 500,0", "addgauge 0 2 900,7",
		"forceowner 0 102",
		"begin 604801", "end", "begin 10", "end",
		"addgauge 0 2 100,0",
		"begin 604801", "end",
		"rollapp 0 2 1",
		"begin 604801", "end", "begin 604801", "end",
	},
	// the same through the streamer's AfterEpochEnd flush: limit 1, one hour stream over the rollapp gauges 1, 2, 3;
	// the EndBlock of the epoch's first block serves gauge 1 only; then gauge 2's owner is forced to the blocked
	// address and the hour ends: the flush (Distribute with epochEnd = true over gauges 2 and 3) fails and is rolled
	// back as a whole (pointer kept, epoch not counted, good owner 4 of gauge 3 unpaid).  The owner is repaired
	// BEFORE the block's EndBlock runs (which would otherwise fail the block, the fixed finding F4).
	"epoch-hook-failing-recipient-streamer-flush": {
		"maxiter 1",
		"begin 1", "end",
		"rollapp 0 2 1", "rgauge 0", "rollapp 1 3 1", "rgauge 1", "rollapp 2 4 1", "rgauge 2",
		"fund 100 9000,0",
		"mkstream 9000,0 1:1,2:1,3:1 NOW 1 3",
		"begin 3601", "end", "begin 3601", "end",
		"forceowner 1 102",
		"begin 3601",
		"rollapp 1 3 1",
		"end", "begin 10", "end", "begin 10", "end", "begin 3601", "end", "begin 3601", "end",
	},
	// a stream that becomes active at another identifier's epoch start is served in its first (partial)
	// epoch only if the pointer of its own epoch has not yet reached the end
	"stream-activated-mid-epoch": {
		"maxiter 1",
		"begin 1", "end",
		"mkgauge 0 1 0 1 0,0 NOW 1", "mkgauge 0 1 0 1 0,0 NOW 1", "mkgauge 0 1 0 1 0,0 NOW 1",
		"lock 1 0 100 3600",
		"fund 100 9000,0",
		"mkstream 3000,0 1:1,2:1,3:1 NOW 0 3",
		"begin 86401", "end", "begin 86401", "end",
		"mkstream 3000,0 1:1,2:1,3:1 NOW 0 2",
		"begin 3601", "end", "begin 10", "end", "begin 10", "end", "begin 86401", "end",
	},
}

// C12 shapes: ONE Distribute call pays several recipients that have no x/auth account yet (never-seen
// addresses that became rollapp owners through MsgTransferOwnership), so the order of the payments decides
// the account numbers.  Run first on every run (also the smallest, VERIF_SCALE'd one).
func init() {
	rep := func(n int, f func(r int) []string) (out []string) {
		for r := 0; r < n; r++ {
			out = append(out, f(r)...)
		}
		return out
	}
	cat := func(xs ...[]string) (out []string) {
		for _, x := range xs {
			out = append(out, x...)
		}
		return out
	}
	mk := func(n int) []string {
		return rep(n, func(r int) []string {
			return []string{fmt.Sprintf("rollapp %d %d 1", r, r%c15NA), fmt.Sprintf("rgauge %d", r)}
		})
	}
	xfer := func(n, base int) []string {
		return rep(n, func(r int) []string { return []string{fmt.Sprintf("xferowner %d %d", r, base+r)} })
	}
	recs := func(from, n int) string {
		p := []string{}
		for i := 0; i < n; i++ {
			p = append(p, fmt.Sprintf("%d:%d", from+i, 1+i%3))
		}
		return strings.Join(p, ",")
	}
	// a stream over 8 rollapp gauges, all served by one EndBlock: 8 account-less owners per epoch, new owners every epoch
	c15Witnesses["fresh-owners-streamed"] = cat([]string{"begin 1", "end"}, mk(8), xfer(8, 200),
		[]string{"fund 100 90000,24", "mkstream 90000,24 " + recs(1, 8) + " NOW 1 3", "begin 3601", "end", "begin 3601", "end"},
		xfer(8, 210), []string{"begin 3601", "end"}, xfer(8, 220), []string{"begin 3601", "end", "begin 10", "end"})
	// the same paged three pairs per block: 3 + 3 + 2 account-less owners per call; the rest of an epoch is served at its end
	c15Witnesses["fresh-owners-paged"] = cat([]string{"maxiter 3", "begin 1", "end"}, mk(8), xfer(8, 200),
		[]string{"fund 100 90000,0", "mkstream 90000,0 " + recs(1, 8) + " NOW 1 3", "begin 3601", "end", "begin 3601", "end", "begin 10", "end", "begin 10", "end"},
		xfer(8, 210), []string{"begin 3601", "end", "begin 10", "end"}, xfer(8, 220), []string{"begin 3601", "end", "begin 3601", "end"})
	// incentives epoch end: an asset gauge (lock owners, accounts exist) and 6 directly funded rollapp gauges with account-less owners
	top := func(n, amt int) []string {
		return rep(n, func(r int) []string { return []string{fmt.Sprintf("addgauge 0 %d %d,%d", 2+r, amt+r, r%2*7)} })
	}
	c15Witnesses["fresh-owners-epoch-end"] = cat([]string{"begin 1", "end", "fund 0 1000000,1000000",
		"mkgauge 0 1 0 3600 7000,30 NOW 1", "lock 1 0 100 3600", "lock 2 0 300 25200"}, mk(6), xfer(6, 200), top(6, 1000),
		[]string{"begin 604801", "end", "begin 10", "end"}, xfer(6, 210), top(6, 500), []string{"addgauge 0 1 900,0", "begin 604801", "end", "begin 10", "end"})
}

func c15RunWitness(r *Run, name string) {
	lines := c15Witnesses[name]
	mi := uint64(500)
	t := c15Start(r, mi)
	defer t.finish()
	r.Hit("witness/" + name)
	for _, l := range lines {
		l = strings.ReplaceAll(l, "NOW", strconv.FormatInt(c15Time(t.w.f), 10))
		if !t.exec(l) {
			return
		}
	}
}

func TestC15(t *testing.T) {
	r := NewRun(t, "C15")
	defer r.Close()
	blockFailHook = nil // this harness classifies block failures itself (C11/block/… with the cause)
	if rl := ReplayLines(); rl != nil {
		var tr *c15Trace
		halted := false // the trace's chain halted: skip to the next trace
		for _, l := range rl {
			fl := strings.Fields(l)
			if fl[0] == "reset" {
				if tr != nil {
					tr.finish()
				}
				mi, _ := strconv.ParseUint(fl[2], 10, 64)
				tr = c15Start(r, mi)
				halted = false
				continue
			}
			if halted {
				continue
			}
			if tr == nil {
				tr = c15Start(r, 500)
			}
			// absolute times in a replay file are relative to the recorded reset time; the fixture is
			// deterministic, so they coincide
			if !tr.exec(l) {
				halted = true
			}
		}
		if tr != nil {
			tr.finish()
		}
		return
	}
	names := []string{}
	for k := range c15Witnesses {
		names = append(names, k)
	}
	sort.Strings(names)
	for _, k := range names {
		c15RunWitness(r, k)
	}
	n := r.N(120, 1500)
	for i := 0; i < n; i++ {
		c15RandomTrace(r, r.Rng.Fork())
	}
}
