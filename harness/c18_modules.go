package harness

// Further query dumps of the generic C18 comparison (c18Generic): keeper-level answers that the
// property's statement names and that live in indexes, reference lists or parameter stores which a
// re-export alone cannot show (or shows only after the indexes were rebuilt from the same list).
// Contract as c18Dump: canonical text, sorted where the underlying order carries no meaning, no
// addresses of Go objects.  One key per (module, query family) so that the violation signature names
// what differs.

import (
	"encoding/json"
	"fmt"
	"os"
	"path/filepath"
	"sort"
	"strings"

	"cosmossdk.io/math"
	sdk "github.com/cosmos/cosmos-sdk/types"

	dymnstypes "github.com/dymensionxyz/dymension/v3/x/dymns/types"
	lockuptypes "github.com/dymensionxyz/dymension/v3/x/lockup/types"
	sequencertypes "github.com/dymensionxyz/dymension/v3/x/sequencer/types"
	sponsorshiptypes "github.com/dymensionxyz/dymension/v3/x/sponsorship/types"
)

func init() {
	c18ExtraDumps = append(c18ExtraDumps,
		c18DumpParams, c18DumpLockup, c18DumpIncentives, c18DumpStreamer, c18DumpLightclient,
		c18DumpDymns, c18DumpSequencers, c18DumpIro, c18DumpSponsorship, c18DumpRollapp, c18DumpDebug)
}

var c18DebugN int

// c18DumpDebug: with VERIF_C18_DUMP=<dir> every dump map is also written to <dir>/dump-<n>.json
// (calls alternate: original chain, imported chain) so that a truncated violation detail can be read in full
func c18DumpDebug(f *Fix, ctx sdk.Context, out map[string]string) {
	dir := os.Getenv("VERIF_C18_DUMP")
	if dir == "" {
		return
	}
	b, _ := json.MarshalIndent(out, "", " ")
	_ = os.WriteFile(filepath.Join(dir, fmt.Sprintf("dump-%03d.json", c18DebugN)), b, 0o644)
	c18DebugN++
}

// c18Guard records a panic of a dump as the dump's value (a query that panics on one chain and not
// on the other is a difference)
func c18Guard(out map[string]string, key string, fn func() string) {
	defer func() {
		if e := recover(); e != nil {
			out[key] = trunc200(fmt.Sprint("panic: ", e))
		}
	}()
	out[key] = fn()
}

func c18Join(xs []string, sorted bool) string {
	if sorted {
		sort.Strings(xs)
	}
	return strings.Join(xs, ";")
}

// ---- parameters of every custom module
func c18DumpParams(f *Fix, ctx sdk.Context, out map[string]string) {
	app := f.App
	c18Guard(out, "params.rollapp", func() string { p := app.RollappKeeper.GetParams(ctx); return p.String() })
	c18Guard(out, "params.sequencer", func() string { p := app.SequencerKeeper.GetParams(ctx); return p.String() })
	c18Guard(out, "params.delayedack", func() string { p := app.DelayedAckKeeper.GetParams(ctx); return p.String() })
	c18Guard(out, "params.eibc", func() string { p := app.EIBCKeeper.GetParams(ctx); return p.String() })
	c18Guard(out, "params.dymns", func() string { p := app.DymNSKeeper.GetParams(ctx); return p.String() })
	c18Guard(out, "params.iro", func() string { p := app.IROKeeper.GetParams(ctx); return p.String() })
	c18Guard(out, "params.lockup", func() string { p := app.LockupKeeper.GetParams(ctx); return p.String() })
	c18Guard(out, "params.incentives", func() string { p := app.IncentivesKeeper.GetParams(ctx); return p.String() })
	c18Guard(out, "params.streamer", func() string { p := app.StreamerKeeper.GetParams(ctx); return p.String() })
	c18Guard(out, "params.sponsorship", func() string {
		p, err := app.SponsorshipKeeper.GetParams(ctx)
		if err != nil {
			return "ERR"
		}
		return p.String()
	})
}

// ---- lockup: locks by id, last id, per-account and per-denom answers of the reference indexes,
// accumulation store
func c18DumpLockup(f *Fix, ctx sdk.Context, out map[string]string) {
	k := f.App.LockupKeeper
	var locks []lockuptypes.PeriodLock
	c18Guard(out, "lockup.locksById", func() string {
		last := k.GetLastLockID(ctx)
		var xs []string
		for id := uint64(1); id <= last && id < 100000; id++ {
			l, err := k.GetLockByID(ctx, id)
			if err != nil {
				continue
			}
			locks = append(locks, *l)
			xs = append(xs, fmt.Sprintf("%d:%s", id, l.String()))
		}
		return fmt.Sprintf("last=%d;", last) + c18Join(xs, false)
	})
	c18Guard(out, "lockup.byAccount", func() string {
		owners := map[string]bool{}
		for _, l := range locks {
			owners[l.Owner] = true
		}
		var xs []string
		for o := range owners {
			addr, err := sdk.AccAddressFromBech32(o)
			if err != nil {
				continue
			}
			var ids []string
			for _, l := range k.GetAccountPeriodLocks(ctx, addr) {
				ids = append(ids, fmt.Sprint(l.ID))
			}
			sort.Strings(ids)
			xs = append(xs, fmt.Sprintf("%s=%s|locked=%s|unlocking=%s", o, strings.Join(ids, ","), k.GetAccountLockedCoins(ctx, addr), k.GetAccountUnlockingCoins(ctx, addr)))
		}
		return c18Join(xs, true)
	})
	c18Guard(out, "lockup.accumulation", func() string {
		type dd struct {
			denom string
			d     int64
		}
		seen := map[dd]bool{}
		var xs []string
		for _, l := range locks {
			for _, c := range l.Coins {
				key := dd{c.Denom, int64(l.Duration)}
				if seen[key] {
					continue
				}
				seen[key] = true
				acc := k.GetPeriodLocksAccumulation(ctx, lockuptypes.QueryCondition{Denom: c.Denom, Duration: l.Duration})
				var ids []string
				for _, x := range k.GetLocksLongerThanDurationDenom(ctx, c.Denom, l.Duration) {
					ids = append(ids, fmt.Sprint(x.ID))
				}
				sort.Strings(ids)
				xs = append(xs, fmt.Sprintf("%s/%d=%s[%s]", c.Denom, int64(l.Duration), acc, strings.Join(ids, ",")))
			}
		}
		return c18Join(xs, true) + "|module=" + k.GetModuleLockedCoins(ctx).String()
	})
}

// ---- incentives: every gauge by id with its class (upcoming / active / finished), last id, the
// denom index, module totals
func c18DumpIncentives(f *Fix, ctx sdk.Context, out map[string]string) {
	k := f.App.IncentivesKeeper
	class := map[uint64]string{}
	c18Guard(out, "incentives.gaugeClasses", func() string {
		for _, g := range k.GetUpcomingGauges(ctx) {
			class[g.Id] += "U"
		}
		for _, g := range k.GetActiveGauges(ctx) {
			class[g.Id] += "A"
		}
		for _, g := range k.GetFinishedGauges(ctx) {
			class[g.Id] += "F"
		}
		var xs []string
		for id, c := range class {
			if c == "F" {
				continue // finished gauges are compared by incentives.finishedGauges
			}
			xs = append(xs, fmt.Sprintf("%06d:%s", id, c))
		}
		return c18Join(xs, true)
	})
	c18Guard(out, "incentives.finishedGauges", func() string {
		var xs []string
		for _, g := range k.GetFinishedGauges(ctx) {
			xs = append(xs, fmt.Sprintf("%06d", g.Id))
		}
		return c18Join(xs, true)
	})
	c18Guard(out, "incentives.gaugesById", func() string {
		last := k.GetLastGaugeID(ctx)
		var xs []string
		for id := uint64(1); id <= last && id < 100000; id++ {
			if class[id] == "F" || class[id] == "" {
				continue // (finished: see above; absent on both sides)
			}
			g, err := k.GetGaugeByID(ctx, id)
			if err != nil {
				xs = append(xs, fmt.Sprintf("%d:ERR", id))
				continue
			}
			xs = append(xs, fmt.Sprintf("%d:%s", id, g.String()))
		}
		return fmt.Sprintf("last=%d;", last) + c18Join(xs, false)
	})
	c18Guard(out, "incentives.gaugesByDenom", func() string {
		denoms := map[string]bool{}
		for _, g := range k.GetGauges(ctx) {
			if a := g.GetAsset(); a != nil && class[g.Id] != "F" {
				denoms[a.Denom] = true
			}
		}
		var xs []string
		for d := range denoms {
			var ids []string
			gs, err := k.GetGaugesForDenom(ctx, d)
			if err != nil {
				ids = append(ids, "ERR")
			}
			for _, g := range gs {
				if class[g.Id] == "F" {
					continue // GetGaugesForDenom walks every class; finished gauges are compared by incentives.finishedGauges
				}
				ids = append(ids, fmt.Sprintf("%06d", g.Id))
			}
			sort.Strings(ids)
			xs = append(xs, d+"="+strings.Join(ids, ","))
		}
		return c18Join(xs, true)
	})
	c18Guard(out, "incentives.toDistribute", func() string { return k.GetModuleToDistributeCoins(ctx).String() })
}

// ---- streamer: every stream by id with its class, the order of the active streams (= payment
// order), epoch pointers, last id, module totals
func c18DumpStreamer(f *Fix, ctx sdk.Context, out map[string]string) {
	k := f.App.StreamerKeeper
	class := map[uint64]string{}
	c18Guard(out, "streamer.streamClasses", func() string {
		for _, s := range k.GetUpcomingStreams(ctx) {
			class[s.Id] += "U"
		}
		for _, s := range k.GetActiveStreams(ctx) {
			class[s.Id] += "A"
		}
		for _, s := range k.GetFinishedStreams(ctx) {
			class[s.Id] += "F"
		}
		var xs []string
		for id, c := range class {
			if c == "F" {
				continue
			}
			xs = append(xs, fmt.Sprintf("%06d:%s", id, c))
		}
		return c18Join(xs, true)
	})
	c18Guard(out, "streamer.finishedStreams", func() string {
		var xs []string
		for _, s := range k.GetFinishedStreams(ctx) {
			xs = append(xs, fmt.Sprintf("%06d", s.Id))
		}
		return c18Join(xs, true)
	})
	c18Guard(out, "streamer.activeOrder", func() string {
		var xs []string
		for _, s := range k.GetActiveStreams(ctx) {
			xs = append(xs, fmt.Sprint(s.Id))
		}
		return c18Join(xs, false)
	})
	c18Guard(out, "streamer.streamsById", func() string {
		last := k.GetLastStreamID(ctx)
		var xs []string
		for id := uint64(1); id <= last && id < 100000; id++ {
			if class[id] == "F" || class[id] == "" {
				continue
			}
			s, err := k.GetStreamByID(ctx, id)
			if err != nil {
				xs = append(xs, fmt.Sprintf("%d:ERR", id))
				continue
			}
			xs = append(xs, fmt.Sprintf("%d:%s", id, s.String()))
		}
		return fmt.Sprintf("last=%d;", last) + c18Join(xs, false)
	})
	c18Guard(out, "streamer.epochPointers", func() string {
		ps, err := k.GetAllEpochPointers(ctx)
		if err != nil {
			return "ERR"
		}
		var xs []string
		for _, p := range ps {
			xs = append(xs, p.String())
		}
		return c18Join(xs, true)
	})
	c18Guard(out, "streamer.toDistribute", func() string { return k.GetModuleToDistributeCoins(ctx).String() })
}

// ---- lightclient: canonical pairs in both directions, header signers in both directions
func c18DumpLightclient(f *Fix, ctx sdk.Context, out map[string]string) {
	k := f.App.LightClientKeeper
	c18Guard(out, "lightclient.canonical", func() string {
		var xs []string
		clients := map[string]bool{}
		for _, ra := range f.App.RollappKeeper.GetAllRollapps(ctx) {
			c, ok := k.GetCanonicalClient(ctx, ra.RollappId)
			xs = append(xs, fmt.Sprintf("r:%s->%s,%v", ra.RollappId, c, ok))
			if ok {
				clients[c] = true
			}
		}
		for _, cc := range k.GetAllCanonicalClients(ctx) {
			clients[cc.IbcClientId] = true
		}
		// client ids 07-tendermint-0 .. n as well: a reverse entry without a forward one
		for i := 0; i < 8; i++ {
			clients[fmt.Sprintf("07-tendermint-%d", i)] = true
		}
		for c := range clients {
			r, ok := k.GetRollappForClientID(ctx, c)
			xs = append(xs, fmt.Sprintf("c:%s->%s,%v", c, r, ok))
		}
		return c18Join(xs, true)
	})
	c18Guard(out, "lightclient.signers", func() string {
		g := k.ExportGenesis(ctx)
		var xs []string
		for _, s := range g.HeaderSigners {
			by, err := k.GetSigner(ctx, s.ClientId, s.Height)
			e := ""
			if err != nil {
				e = "ERR"
			}
			xs = append(xs, fmt.Sprintf("%s/%s/%d->%s%s", s.SequencerAddress, s.ClientId, s.Height, by, e))
		}
		return c18Join(xs, true)
	})
}

// ---- dymns: names, reverse lookups (owner, configured address, fallback address) for every address
// that occurs in a name, alias lookups in both directions.  Reverse-lookup lists are compared as sets
// (the stored order is insertion order and is re-sorted by the keeper on removal).
func c18DumpDymns(f *Fix, ctx sdk.Context, out map[string]string) {
	k := f.App.DymNSKeeper
	// Dym-Names that expired longer ago than the grace period are left out of the genesis on purpose
	// (x/dymns/genesis.go); no expiry-checked query can return them on either chain.  Compared: the
	// records the genesis is meant to carry.
	var names []dymnstypes.DymName
	func() {
		defer func() { _ = recover() }()
		cut := ctx.BlockTime().Add(-1 * k.GetParams(ctx).Misc.GracePeriodDuration).Unix()
		for _, n := range k.GetAllDymNames(ctx) {
			if n.ExpireAt >= cut {
				names = append(names, n)
			}
		}
	}()
	render := func(ns []dymnstypes.DymName, err error) string {
		if err != nil {
			return "ERR"
		}
		var xs []string
		for _, n := range ns {
			xs = append(xs, n.Name)
		}
		sort.Strings(xs)
		return strings.Join(xs, ",")
	}
	c18Guard(out, "dymns.names", func() string {
		var xs []string
		for _, n := range names {
			live := k.GetDymNameWithExpirationCheck(ctx, n.Name) != nil
			xs = append(xs, fmt.Sprintf("%s:%s:%v", n.Name, n.String(), live))
		}
		return c18Join(xs, true)
	})
	c18Guard(out, "dymns.reverseLookups", func() string {
		owners, cfgs, fbs := map[string]bool{}, map[string]bool{}, map[string]bool{}
		for i := range names {
			n := names[i]
			owners[n.Owner] = true
			owners[n.Controller] = true
			func() {
				defer func() { _ = recover() }()
				ca, fa := n.GetAddressesForReverseMapping()
				for a := range ca {
					cfgs[a] = true
				}
				for a := range fa {
					fbs[a] = true
				}
			}()
		}
		var xs []string
		for o := range owners {
			xs = append(xs, "own:"+o+"="+render(k.GetDymNamesOwnedBy(ctx, o)))
			if acc, err := sdk.AccAddressFromBech32(o); err == nil {
				xs = append(xs, "fbacc:"+o+"="+render(k.GetDymNamesContainsFallbackAddress(ctx, dymnstypes.FallbackAddress(acc))))
			}
		}
		for a := range cfgs {
			xs = append(xs, "cfg:"+a+"="+render(k.GetDymNamesContainsConfiguredAddress(ctx, a)))
		}
		_ = fbs
		return c18Join(xs, true)
	})
	// the all-time buy-order counter: the next order's id is "10<count+1>" / "20<count+1>" (PlaceBuyOrder)
	c18Guard(out, "dymns.buyOrderCount", func() string { return fmt.Sprint(k.GetCountBuyOrders(ctx)) })
	c18Guard(out, "dymns.aliases", func() string {
		var xs []string
		for _, a := range k.GetAllRollAppsWithAliases(ctx) {
			xs = append(xs, fmt.Sprintf("ra:%s=%s", a.ChainId, strings.Join(k.GetAliasesOfRollAppId(ctx, a.ChainId), ",")))
			for _, al := range a.Aliases {
				r, ok := k.GetRollAppIdByAlias(ctx, al)
				xs = append(xs, fmt.Sprintf("al:%s->%s,%v", al, r, ok))
			}
		}
		return c18Join(xs, true)
	})
}

// ---- sequencers by rollapp: all, per status, proposer, successor
func c18DumpSequencers(f *Fix, ctx sdk.Context, out map[string]string) {
	k := f.App.SequencerKeeper
	c18Guard(out, "sequencer.byRollapp", func() string {
		var xs []string
		addrs := func(ss []sequencertypes.Sequencer) string {
			var as []string
			for _, s := range ss {
				as = append(as, s.Address)
			}
			sort.Strings(as)
			return strings.Join(as, ",")
		}
		for _, ra := range f.App.RollappKeeper.GetAllRollapps(ctx) {
			id := ra.RollappId
			xs = append(xs, fmt.Sprintf("%s:all=%s|bonded=%s|unbonded=%s|potential=%s|proposer=%s|successor=%s", id,
				addrs(k.RollappSequencers(ctx, id)),
				addrs(k.RollappSequencersByStatus(ctx, id, sequencertypes.Bonded)),
				addrs(k.RollappSequencersByStatus(ctx, id, sequencertypes.Unbonded)),
				addrs(k.RollappPotentialProposers(ctx, id)),
				k.GetProposer(ctx, id).Address, k.GetSuccessor(ctx, id).Address))
		}
		return c18Join(xs, true)
	})
	// the dymint-address index (SetSequencerByDymintAddr: written with the sequencer at creation, rebuilt by
	// InitGenesis from MustProposerAddr of every exported sequencer): every sequencer is found under the
	// address of its own dymint key
	c18Guard(out, "sequencer.byDymintAddr", func() string {
		var xs []string
		for _, s := range k.AllSequencers(ctx) {
			if s.Sentinel() {
				continue
			}
			pa, err := s.ProposerAddr()
			if err != nil {
				xs = append(xs, s.Address+"=NOKEY")
				continue
			}
			got, err := k.SequencerByDymintAddr(ctx, pa)
			if err != nil {
				xs = append(xs, fmt.Sprintf("%s=%x->ERR", s.Address, pa))
				continue
			}
			xs = append(xs, fmt.Sprintf("%s=%x->%s", s.Address, pa, got.Address))
		}
		return c18Join(xs, true)
	})
	c18Guard(out, "sequencer.records", func() string {
		var xs []string
		for _, s := range k.AllSequencers(ctx) {
			xs = append(xs, s.String())
		}
		return c18Join(xs, true)
	})
}

// ---- iro: plan lookup by rollapp (the index written by SetPlan), tradable plans
func c18DumpIro(f *Fix, ctx sdk.Context, out map[string]string) {
	k := f.App.IROKeeper
	c18Guard(out, "iro.plansByRollapp", func() string {
		var xs []string
		for _, p := range k.GetAllPlans(ctx, false) {
			q, ok := k.GetPlanByRollapp(ctx, p.RollappId)
			xs = append(xs, fmt.Sprintf("%s->%d,%v", p.RollappId, q.Id, ok))
			if _, ok2 := k.GetPlan(ctx, fmt.Sprint(p.Id)); !ok2 {
				xs = append(xs, fmt.Sprintf("plan %d not retrievable by id", p.Id))
			}
		}
		var tr []string
		for _, p := range k.GetAllPlans(ctx, true) {
			tr = append(tr, fmt.Sprint(p.Id))
		}
		return c18Join(xs, true) + "|tradable=" + strings.Join(tr, ",")
	})
}

// ---- sponsorship: votes and recorded powers by voter, who may claim
func c18DumpSponsorship(f *Fix, ctx sdk.Context, out map[string]string) {
	k := f.App.SponsorshipKeeper
	c18Guard(out, "sponsorship.votes", func() string {
		var xs []string
		err := k.IterateVotes(ctx, func(voter sdk.AccAddress, vote sponsorshiptypes.Vote) (bool, error) {
			var ps []string
			_ = k.IterateDelegatorValidatorPower(ctx, voter, func(val sdk.ValAddress, power math.Int) (bool, error) {
				ps = append(ps, val.String()+"="+power.String())
				return false, nil
			})
			got, gerr := k.GetVote(ctx, voter)
			xs = append(xs, fmt.Sprintf("%s:%s|%v|%s", voter, got.String(), gerr != nil, strings.Join(ps, ",")))
			_ = vote
			return false, nil
		})
		if err != nil {
			return "ERR"
		}
		return c18Join(xs, true)
	})
	// the claim blacklist (who already claimed / voted in the running epoch)
	c18Guard(out, "sponsorship.canClaim", func() string {
		var xs []string
		err := k.IterateVotes(ctx, func(voter sdk.AccAddress, _ sponsorshiptypes.Vote) (bool, error) {
			can, cerr := k.CanClaim(ctx, voter)
			xs = append(xs, fmt.Sprintf("%s=%v,%v", voter, can, cerr != nil))
			return false, nil
		})
		if err != nil {
			return "ERR"
		}
		return c18Join(xs, true)
	})
}

// ---- rollapp: latest / latest finalized heights per rollapp
func c18DumpRollapp(f *Fix, ctx sdk.Context, out map[string]string) {
	k := f.App.RollappKeeper
	c18Guard(out, "rollapp.heights", func() string {
		var xs []string
		for _, ra := range k.GetAllRollapps(ctx) {
			h, ok := k.GetLatestHeight(ctx, ra.RollappId)
			fi, fok := k.GetLatestFinalizedStateIndex(ctx, ra.RollappId)
			xs = append(xs, fmt.Sprintf("%s:latest=%d,%v|finIdx=%d,%v", ra.RollappId, h, ok, fi.Index, fok))
		}
		return c18Join(xs, true)
	})
}
