#!/bin/bash
# regenerate go.mod / go.sum of the harness module from /repo's current go.mod
set -e
REPO=${REPO:-/repo}
cd "$(dirname "$0")"
{
  echo "module dymverif/harness"
  echo
  grep -E '^go ' $REPO/go.mod
  grep -E '^toolchain ' $REPO/go.mod || true
  echo
  echo "require github.com/dymensionxyz/dymension/v3 v3.0.0"
  echo
  # copy require/replace blocks verbatim
  awk '/^require \(/,/^\)/' $REPO/go.mod
  awk '/^replace \(/,/^\)/' $REPO/go.mod
  grep -E '^replace [^(]' $REPO/go.mod || true
  echo "replace github.com/dymensionxyz/dymension/v3 => $REPO"
} > go.mod
cp $REPO/go.sum go.sum
