package harness

// C20 — STORED proposals.  A gov v1 / group proposal is stored at submission and its messages are
// executed later (gov EndBlocker, `group.MsgExec`) by the module itself, with no ante handler in
// between: the reject decorator's check of the SUBMISSION is the only barrier between a disabled
// message and its execution.
//
//   reset stored                      a fresh app with a one-member group (admin a0) and its policy account
//   stored <G|P> <leaf alias>         submit a proposal carrying the leaf (signed for by the module
//                                     account that would execute it) THROUGH the real ante handler;
//                                     when it passes: deliver it (the proposal is stored); for a group
//                                     proposal also vote and send `group.MsgExec` through the ante and
//                                     deliver it
//   observation: <verdict of the submission> | <verdict of group.MsgExec, or ->
//
// monitors: a disabled leaf whose submission passes the ante (`C20/stored-proposal/<type>/submitted-via-<wrapper>`);
// branches record that a benign stored group proposal is really executed by group.MsgExec.

import (
	"fmt"
	"strings"
	"time"

	"cosmossdk.io/math"
	sdk "github.com/cosmos/cosmos-sdk/types"
	authtypes "github.com/cosmos/cosmos-sdk/x/auth/types"
	vestingtypes "github.com/cosmos/cosmos-sdk/x/auth/vesting/types"
	banktypes "github.com/cosmos/cosmos-sdk/x/bank/types"
	govv1 "github.com/cosmos/cosmos-sdk/x/gov/types/v1"
	"github.com/cosmos/cosmos-sdk/x/group"
	ibcclienttypes "github.com/cosmos/ibc-go/v8/modules/core/02-client/types"
	ibctm "github.com/cosmos/ibc-go/v8/modules/light-clients/07-tendermint"
)

type c20Stored struct {
	f         *Fix
	h         *c20Ante
	policy    sdk.AccAddress
	ok        bool
	why       string
	govFunded bool
}

func newC20Stored(s *c20State) *c20Stored {
	f := NewFix(s.t)
	st := &c20Stored{f: f, h: newC20Ante(f)}
	for i := 0; i < 3; i++ {
		f.Fund(Actor(i), sdk.NewCoin("adym", pow10(1, 30)))
	}
	pol := group.NewThresholdDecisionPolicy("1", time.Hour, 0)
	m, err := group.NewMsgCreateGroupWithPolicy(Actor(0).String(), []group.MemberRequest{{Address: Actor(0).String(), Weight: "1"}}, "", "", false, pol)
	if err != nil {
		st.why = err.Error()
		return st
	}
	res, err := f.Deliver(m)
	if err != nil {
		st.why = "create group: " + err.Error()
		return st
	}
	var r group.MsgCreateGroupWithPolicyResponse
	if err := c20Resp(res, &r); err != nil {
		st.why = "group response: " + err.Error()
		return st
	}
	st.policy, err = sdk.AccAddressFromBech32(r.GroupPolicyAddress)
	if err != nil {
		st.why = err.Error()
		return st
	}
	f.Fund(st.policy, sdk.NewCoin("adym", pow10(1, 24)))
	st.ok = true
	return st
}

// the leaf as the executing module account would have to sign it
func (st *c20Stored) leafFor(alias string, exec sdk.AccAddress) (sdk.Msg, bool) {
	coin := sdk.NewCoins(sdk.NewCoin("adym", math.NewInt(7)))
	switch alias {
	case "S":
		return &banktypes.MsgSend{FromAddress: exec.String(), ToAddress: Actor(1).String(), Amount: coin}, true
	case "V1":
		return &vestingtypes.MsgCreateVestingAccount{FromAddress: exec.String(), ToAddress: Actor(12).String(), Amount: coin, EndTime: 4102444800}, true
	case "V2":
		return &vestingtypes.MsgCreatePeriodicVestingAccount{FromAddress: exec.String(), ToAddress: Actor(13).String(), StartTime: 1, VestingPeriods: []vestingtypes.Period{{Length: 10, Amount: coin}}}, true
	case "V3":
		return &vestingtypes.MsgCreatePermanentLockedAccount{FromAddress: exec.String(), ToAddress: Actor(14).String(), Amount: coin}, true
	case "U":
		return &ibcclienttypes.MsgUpdateClient{ClientId: "07-tendermint-0", ClientMessage: mustAny(&ibctm.Header{}), Signer: exec.String()}, true
	case "M":
		return &ibcclienttypes.MsgSubmitMisbehaviour{ClientId: "07-tendermint-0", Misbehaviour: mustAny(&ibctm.Misbehaviour{}), Signer: exec.String()}, true //nolint:staticcheck
	}
	return nil, false
}

func (st *c20Stored) anteOf(m sdk.Msg) string {
	txb := st.f.App.TxConfig().NewTxBuilder()
	if err := txb.SetMsgs(m); err != nil {
		return "bad-op"
	}
	txb.SetGasLimit(10_000_000)
	txb.SetFeeAmount(sdk.NewCoins(sdk.NewCoin("adym", math.NewInt(1_000_000_000_000_000))))
	obs, _ := st.h.runAnte(txb.GetTx())
	return obs
}

func (s *c20State) execStored(line string, f []string) string {
	r, st := s.r, s.stored
	if st == nil || len(f) != 3 || (f[1] != "G" && f[1] != "P") {
		return "bad-op"
	}
	if !st.ok {
		r.Hit("stored/fixture-failed/" + c20Printable(st.why, 60))
		return "bad-op"
	}
	k, known := st.h.kinds[f[2]]
	if !known {
		return "bad-op"
	}
	exec := st.policy
	if f[1] == "G" {
		exec = authtypes.NewModuleAddress("gov")
	}
	leafMsg, ok := st.leafFor(f[2], exec)
	if !ok {
		return "bad-op"
	}
	var submit sdk.Msg
	if f[1] == "G" {
		dep := sdk.NewCoins(sdk.NewCoin("adym", pow10(1, 20)))
		if gp, err := st.f.App.GovKeeper.Params.Get(st.f.Ctx); err == nil && len(gp.MinDeposit) > 0 {
			dep = sdk.NewCoins(gp.MinDeposit...)
			if !st.govFunded {
				st.govFunded = true
				for _, c := range dep {
					st.f.Fund(Actor(0), sdk.NewCoin(c.Denom, c.Amount.MulRaw(100)))
				}
			}
		}
		m, err := govv1.NewMsgSubmitProposal([]sdk.Msg{leafMsg}, dep, Actor(0).String(), "", "title", "summary", false)
		if err != nil {
			return "bad-op"
		}
		submit = m
	} else {
		m := &group.MsgSubmitProposal{GroupPolicyAddress: st.policy.String(), Proposers: []string{Actor(0).String()}, Title: "t", Summary: "s"}
		if err := m.SetMsgs([]sdk.Msg{leafMsg}); err != nil {
			return "bad-op"
		}
		submit = m
	}
	replay := append(append([]string{}, s.hdr...), line)
	wrapper := map[string]string{"G": "gov-proposal", "P": "group-proposal"}[f[1]]
	tyName := st.h.goName[f[2]]
	tyName = tyName[strings.LastIndex(tyName, ".")+1:]
	obsA := st.anteOf(submit)
	obsE := "-"
	disabled := k.disabled >= 0 // inside a proposal the leaf sits at depth 1: every disabled kind is forbidden there
	if obsA == "ok" && disabled {
		r.Violate("C20/stored-proposal/"+tyName+"/submitted-via-"+wrapper, "the submission of a proposal carrying "+tyName+" passed the ante handler: the proposal can be stored and executed later without any further check", replay...)
	}
	if obsA != "ok" {
		r.Hit("stored/" + wrapper + "/submission-rejected/" + f[2])
	} else {
		// what baseapp does next: the message is delivered, the proposal is stored
		res, err := st.f.Deliver(submit)
		if err != nil {
			r.Hit("stored/" + wrapper + "/submission-passed-ante-but-handler-failed/" + c20Printable(err.Error(), 50))
		} else {
			r.Hit("stored/" + wrapper + "/stored/" + f[2])
			if f[1] == "P" {
				var pr group.MsgSubmitProposalResponse
				if err := c20Resp(res, &pr); err == nil {
					if _, err := st.f.Deliver(&group.MsgVote{ProposalId: pr.ProposalId, Voter: Actor(0).String(), Option: group.VOTE_OPTION_YES}); err != nil {
						r.Hit("stored/group-proposal/vote-failed/" + c20Printable(err.Error(), 50))
					}
					ex := &group.MsgExec{ProposalId: pr.ProposalId, Executor: Actor(0).String()}
					obsE = st.anteOf(ex)
					before := st.f.Bal(Actor(1), "adym")
					if _, err := st.f.Deliver(ex); err != nil {
						r.Hit("stored/group-proposal/exec-failed/" + c20Printable(err.Error(), 50))
					} else if f[2] == "S" && st.f.Bal(Actor(1), "adym").Sub(before).Equal(math.NewInt(7)) {
						r.Hit("stored/group-proposal/exec-through-ante-ok-and-stored-messages-executed")
					} else {
						r.Hit("stored/group-proposal/exec-delivered-without-visible-effect")
					}
				}
			}
		}
	}
	obs := obsA + " | " + obsE
	r.Class("stored/"+c20Hash(line), true)
	s.seq = append(s.seq, "stored:"+obs)
	s.nontr = true
	return obs
}

func c20StoredTraces(s *c20State, run func(string) string) {
	run("reset stored")
	for _, l := range s.stored.h.headerLines() {
		run(l)
	}
	for _, w := range []string{"P", "G"} {
		for _, l := range []string{"S", "V1", "V2", "V3", "U", "M", "S"} {
			run(fmt.Sprintf("stored %s %s", w, l))
		}
	}
}
