package harness

// C09 — MsgUpgradeClient (permissionless) and MsgRecoverClient (ibc authority = gov) on the real application.  Neither is
// looked at by the light-client decorator or by the nested-message filter; x/lightclient has no hook on them.
//
//	lc_upgrade c<i> chain=r<k>|x h=<height> ts=<tok> nv=<tok>     real MsgUpgradeClient through the production ante handler and
//	        the message router, with proofs that do not verify (no counterparty chain to commit an upgrade plan): what is
//	        checked on the real code is that the ante chain has nothing to say and that ibc core gets as far as the proof
//	lc_recover c<i> sub=c<j>                                      real MsgRecoverClient delivered the way an accepted governance
//	        proposal delivers it (message router, signer = gov module account); no proof is involved: fully executed

import (
	"strings"

	clienttypes "github.com/cosmos/ibc-go/v8/modules/core/02-client/types"
	commitmenttypes "github.com/cosmos/ibc-go/v8/modules/core/23-commitment/types"
	ibctm "github.com/cosmos/ibc-go/v8/modules/light-clients/07-tendermint"
)

func (h *c09H) execAdmin(f []string, m map[string]string) (res string, ibc string, handled bool) {
	app, ctx := h.e.f.App, h.e.f.Ctx
	switch f[0] {
	case "lc_upgrade":
		_, cid := h.clientByTok(f[1])
		chain := "plainchain-1"
		if strings.HasPrefix(m["chain"], "r") {
			_, chain = h.core.rollapp(m["chain"])
		}
		var up *ibctm.ClientState
		if st, ok := app.IBCKeeper.ClientKeeper.GetClientState(ctx, cid); ok {
			cp := *st.(*ibctm.ClientState)
			up = &cp
		} else {
			up = ibcClientState(chain, 1, "")
		}
		up.ChainId = chain
		up.LatestHeight = clienttypes.NewHeight(clienttypes.ParseChainID(chain), atou(m["h"]))
		up = up.ZeroCustomFields().(*ibctm.ClientState)
		cons := &ibctm.ConsensusState{Timestamp: c09Time(atou(m["ts"])), Root: commitmenttypes.NewMerkleRoot([]byte(ibctm.SentinelRoot)), NextValidatorsHash: h.nvHash(atou(m["nv"]))}
		msg, err := clienttypes.NewMsgUpgradeClient(cid, up, cons, []byte("proof"), []byte("proof"), h.e.relayer.String())
		if err != nil {
			h.t.Fatal(err)
		}
		ae, me := h.e.runTx(msg)
		switch {
		case ae != nil:
			if c := c09LcClass(ae); c != "" {
				return "ante:" + c, "0", true
			}
			return "ante:other", "0", true
		case me == nil:
			h.t.Fatal("a client upgrade with a bogus proof succeeded")
		case strings.Contains(me.Error(), "not found") && !strings.Contains(me.Error(), "consensus state"):
			return "lc:notFound", "0", true
		}
		return "lc:ibc", "0", true
	case "lc_recover":
		_, subject := h.clientByTok(f[1])
		_, substitute := h.clientByTok(m["sub"])
		_, err := h.e.f.Deliver(clienttypes.NewMsgRecoverClient(h.core.gov, subject, substitute))
		switch {
		case err == nil:
			return "ok", "", true
		case IsPanic(err):
			return "panic", "", true
		case strings.Contains(err.Error(), "not found") || strings.Contains(err.Error(), "cannot get client state"):
			return "lc:notFound", "", true
		}
		return "lc:ibc", "", true
	}
	return "", "", false
}
