package harness

// M-Core harness (rollapp + sequencer): fixture, op executor, canonical observation, snapshots.
// Used by TestCore (properties C01 C02 C03 C06 C07 C08).

import (
	"errors"
	"fmt"
	"math/big"
	"os"
	"sort"
	"strconv"
	"strings"
	"testing"
	"time"

	"cosmossdk.io/math"
	codectypes "github.com/cosmos/cosmos-sdk/codec/types"
	"github.com/cosmos/cosmos-sdk/crypto/keys/ed25519"
	sdk "github.com/cosmos/cosmos-sdk/types"
	sdkerrors "github.com/cosmos/cosmos-sdk/types/errors"
	authtypes "github.com/cosmos/cosmos-sdk/x/auth/types"
	distrtypes "github.com/cosmos/cosmos-sdk/x/distribution/types"
	govtypes "github.com/cosmos/cosmos-sdk/x/gov/types"
	govv1 "github.com/cosmos/cosmos-sdk/x/gov/types/v1"
	transfertypes "github.com/cosmos/ibc-go/v8/modules/apps/transfer/types"
	clienttypes "github.com/cosmos/ibc-go/v8/modules/core/02-client/types"
	channeltypes "github.com/cosmos/ibc-go/v8/modules/core/04-channel/types"
	commitmenttypes "github.com/cosmos/ibc-go/v8/modules/core/23-commitment/types"
	ibctm "github.com/cosmos/ibc-go/v8/modules/light-clients/07-tendermint"

	"github.com/dymensionxyz/dymension/v3/app/apptesting"
	commontypes "github.com/dymensionxyz/dymension/v3/x/common/types"
	datypes "github.com/dymensionxyz/dymension/v3/x/delayedack/types"
	rollappkeeper "github.com/dymensionxyz/dymension/v3/x/rollapp/keeper"
	rollapptypes "github.com/dymensionxyz/dymension/v3/x/rollapp/types"
	seqtypes "github.com/dymensionxyz/dymension/v3/x/sequencer/types"
)

const coreDenom = "adym"

type coreParams struct {
	Dispute, LsBlocks, LsInterval uint64
	MulRaw                        int64 // multiplier as raw 10^-18 units
	Abs                           uint64
	DSU, DL, Kick                 uint64
	NoticeNs                      int64
	NActors, NRollapps            int
	MinBond                       uint64
	// AbsDenom: denom of LivenessSlashMinAbsolute when it is NOT the bond denom (reset token `absdenom=`).
	// Only TestC11Faults uses it (fault scenario, not part of the M-Core protocol the driver replays).
	AbsDenom string
}

func (p coreParams) line() string {
	return fmt.Sprintf("reset dispute=%d lsb=%d lsi=%d mul=%d abs=%d dsu=%d dl=%d kick=%d notice=%d actors=%d rollapps=%d minbond=%d",
		p.Dispute, p.LsBlocks, p.LsInterval, p.MulRaw, p.Abs, p.DSU, p.DL, p.Kick, p.NoticeNs, p.NActors, p.NRollapps, p.MinBond)
}

func parseKV(fields []string) map[string]string {
	m := map[string]string{}
	for _, f := range fields {
		if i := strings.IndexByte(f, '='); i > 0 {
			m[f[:i]] = f[i+1:]
		}
	}
	return m
}

func atou(s string) uint64 { v, _ := strconv.ParseUint(s, 10, 64); return v }
func atoi(s string) int64  { v, _ := strconv.ParseInt(s, 10, 64); return v }

func parseCoreParams(line string) coreParams {
	m := parseKV(strings.Fields(line))
	return coreParams{Dispute: atou(m["dispute"]), LsBlocks: atou(m["lsb"]), LsInterval: atou(m["lsi"]), MulRaw: atoi(m["mul"]),
		Abs: atou(m["abs"]), DSU: atou(m["dsu"]), DL: atou(m["dl"]), Kick: atou(m["kick"]), NoticeNs: atoi(m["notice"]),
		NActors: int(atoi(m["actors"])), NRollapps: int(atoi(m["rollapps"])), MinBond: atou(m["minbond"]), AbsDenom: m["absdenom"]}
}

type coreH struct {
	t        *testing.T
	f        *Fix
	p        coreParams
	actors   []sdk.AccAddress // sorted by bech32 string: index = rank
	actorIdx map[string]int
	pubkeys  []*codectypes.Any
	rollapps []string // sorted
	raIdx    map[string]int
	created  map[int]bool
	owner    sdk.AccAddress
	fails    map[[2]uint64]bool
	gov      string
	// lastImport: what the last `reimport` op found ("" = nothing)
	lastImport string
	// blocked: module accounts the bank refuses as recipients (bank.BlockedAddr); token `m<i>`, index
	// 900+i on the Lean side (Core.blockedAddr).  m0 = the distribution module account.
	blocked []sdk.AccAddress
	// blockedErr[i]: the bank's own refusal of blocked[i] (obtained from the bank at fixture start):
	// the reference value the `blockedRecipient` result class is recognised by
	blockedErr []error
	// extra: "nobody" addresses (Actor(1000+i)) that were named in an op, by bech32 string -> i
	extra map[string]int
}

// coreBlockedBase: index of the first blocked module account in the model's address space
const coreBlockedBase = 900

func coreActorName(i int) string {
	if i < 0 {
		return "-"
	}
	return "a" + strconv.Itoa(i)
}

func newCoreH(t *testing.T, p coreParams) *coreH {
	h := &coreH{t: t, f: NewFix(t), p: p, actorIdx: map[string]int{}, raIdx: map[string]int{}, created: map[int]bool{}, fails: map[[2]uint64]bool{}}
	h.gov = authtypes.NewModuleAddress(govtypes.ModuleName).String()
	h.initBlocked()
	type ak struct {
		addr sdk.AccAddress
		pk   *codectypes.Any
	}
	var aks []ak
	for i := 0; i < p.NActors; i++ {
		priv := ed25519.GenPrivKeyFromSecret([]byte(fmt.Sprintf("dymverif-core-seq-%d", i)))
		pkAny, err := codectypes.NewAnyWithValue(priv.PubKey())
		if err != nil {
			t.Fatal(err)
		}
		aks = append(aks, ak{Actor(100 + i), pkAny})
	}
	sort.Slice(aks, func(i, j int) bool { return aks[i].addr.String() < aks[j].addr.String() })
	for i, a := range aks {
		h.actors = append(h.actors, a.addr)
		h.pubkeys = append(h.pubkeys, a.pk)
		h.actorIdx[a.addr.String()] = i
	}
	names := []string{"raa", "rbb", "rcc", "rdd"}
	for i := 0; i < p.NRollapps; i++ {
		id := fmt.Sprintf("%s_%d-1", names[i], 1001+i)
		h.rollapps = append(h.rollapps, id)
		h.raIdx[id] = i
	}
	h.owner = Actor(99)
	// params
	rp := h.f.App.RollappKeeper.GetParams(h.f.Ctx)
	rp.DisputePeriodInBlocks = p.Dispute
	rp.LivenessSlashBlocks = p.LsBlocks
	rp.LivenessSlashInterval = p.LsInterval
	rp.MinSequencerBondGlobal = sdk.NewCoin(coreDenom, math.NewIntFromUint64(1))
	h.f.App.RollappKeeper.SetParams(h.f.Ctx, rp)
	sp := h.f.App.SequencerKeeper.GetParams(h.f.Ctx)
	sp.NoticePeriod = time.Duration(p.NoticeNs)
	sp.LivenessSlashMinMultiplier = math.LegacyNewDecFromBigIntWithPrec(math.NewInt(p.MulRaw).BigInt(), 18)
	sp.LivenessSlashMinAbsolute = sdk.NewCoin(coreDenom, math.NewIntFromUint64(p.Abs))
	if p.AbsDenom != "" {
		sp.LivenessSlashMinAbsolute = sdk.NewCoin(p.AbsDenom, math.NewIntFromUint64(p.Abs))
	}
	sp.DishonorStateUpdate = p.DSU
	sp.DishonorLiveness = p.DL
	sp.DishonorKickThreshold = p.Kick
	h.f.App.SequencerKeeper.SetParams(h.f.Ctx, sp)
	h.installSeam()
	return h
}

// initBlocked names the blocked module accounts and takes the bank's refusal of each of them from the
// bank itself (a transfer of one base unit out of the sequencer module account inside a discarded
// cache context: the recipient check comes before anything else, nothing is written).
func (h *coreH) initBlocked() {
	app := h.f.App
	h.blocked = []sdk.AccAddress{authtypes.NewModuleAddress(distrtypes.ModuleName)}
	h.blockedErr = nil
	for i, a := range h.blocked {
		if !app.BankKeeper.BlockedAddr(a) {
			h.t.Fatalf("m%d (%s) is not a blocked address of the bank", i, a)
		}
		cctx, _ := h.f.Ctx.CacheContext()
		err := app.BankKeeper.SendCoinsFromModuleToAccount(cctx, seqtypes.ModuleName, a, sdk.NewCoins(sdk.NewCoin(coreDenom, math.OneInt())))
		if err == nil || !errors.Is(err, sdkerrors.ErrUnauthorized) {
			h.t.Fatalf("bank did not refuse the blocked recipient m%d with ErrUnauthorized: %v", i, err)
		}
		h.blockedErr = append(h.blockedErr, err)
	}
}

// msgClass: result class of a message that may pay out of the module account: the bank's refusal of a
// blocked recipient (the registered error value and the bank's own text for that recipient, both
// taken from the reference error) is `blockedRecipient`, every other failure `err`.
func (h *coreH) msgClass(err error) string {
	if err != nil && !IsPanic(err) {
		for _, ref := range h.blockedErr {
			if errors.Is(err, sdkerrors.ErrUnauthorized) && strings.Contains(err.Error(), ref.Error()) {
				return "blockedRecipient"
			}
		}
	}
	return okErr(err)
}

// installSeam wraps the production finalization step with the injected-failure oracle.
func (h *coreH) installSeam() {
	k := h.f.App.RollappKeeper
	k.SetFinalizePendingFn(func(ctx sdk.Context, idx rollapptypes.StateInfoIndex) error {
		if ri, ok := h.raIdx[idx.RollappId]; ok && h.fails[[2]uint64{uint64(ri), idx.Index}] {
			return fmt.Errorf("injected finalization failure")
		}
		return k.VerifFinalizePendingState(ctx, idx)
	})
}

// onApp returns a copy of the harness bound to another application instance (same actors, rollapp
// names and parameters) — used by the genesis export / import check.
func (h *coreH) onApp(f *Fix) *coreH {
	c := *h
	c.f = f
	c.fails = map[[2]uint64]bool{}
	c.created = map[int]bool{}
	for k, v := range h.created {
		c.created[k] = v
	}
	c.installSeam()
	return &c
}

// ownerName: the token of a rollapp owner string (decoded: the spelling's case does not matter)
func (h *coreH) ownerName(owner string) string {
	a, err := sdk.AccAddressFromBech32(owner)
	if err != nil {
		return "?" + owner
	}
	if a.Equals(h.owner) {
		return "o0"
	}
	for i, b := range h.blocked {
		if a.Equals(b) {
			return "m" + strconv.Itoa(i)
		}
	}
	if i, ok := h.actorIdx[a.String()]; ok {
		return coreActorName(i)
	}
	if i, ok := h.extra[a.String()]; ok {
		return coreActorName(i)
	}
	return "?" + owner
}

func (h *coreH) actor(tok string) (int, sdk.AccAddress) {
	if strings.HasPrefix(tok, "o") { // the creator (first owner) of every rollapp
		return -3, h.owner
	}
	if strings.HasPrefix(tok, "m") { // blocked module account (only meaningful as a recipient)
		if i, err := strconv.Atoi(tok[1:]); err == nil && i >= 0 && i < len(h.blocked) {
			return coreBlockedBase + i, h.blocked[i]
		}
	}
	i, _ := strconv.Atoi(strings.TrimPrefix(tok, "a"))
	if i < 0 || i >= len(h.actors) {
		if h.extra == nil {
			h.extra = map[string]int{}
		}
		h.extra[Actor(1000+i).String()] = i
		return i, Actor(1000 + i) // unknown actor: a valid address that is nobody
	}
	return i, h.actors[i]
}

func (h *coreH) rollapp(tok string) (int, string) {
	i, _ := strconv.Atoi(strings.TrimPrefix(tok, "r"))
	if i < 0 || i >= len(h.rollapps) {
		return i, fmt.Sprintf("zz_%d-1", 9000+i)
	}
	return i, h.rollapps[i]
}

// bdsFromSpec expands `seqerr=<k|-> ts=<all|none|k> drs=<v> rooterr=<k|->` into descriptors.
func bdsFromSpec(start, n uint64, m map[string]string, bdlen uint64) rollapptypes.BlockDescriptors {
	var bds rollapptypes.BlockDescriptors
	seqerr, rooterr, tsmiss := int64(-1), int64(-1), int64(-1)
	if m["seqerr"] != "-" {
		seqerr = atoi(m["seqerr"])
	}
	if m["rooterr"] != "-" {
		rooterr = atoi(m["rooterr"])
	}
	tsAll := m["ts"] == "all"
	if m["ts"] != "all" && m["ts"] != "none" {
		tsmiss = atoi(m["ts"])
		tsAll = true
	}
	drs := uint32(atou(m["drs"]))
	drs0 := drs // optional `drs0=<v>`: the DRS version of every descriptor except the last one
	if v, ok := m["drs0"]; ok {
		drs0 = uint32(atou(v))
	}
	for i := uint64(0); i < bdlen; i++ {
		bd := rollapptypes.BlockDescriptor{Height: start + i, StateRoot: make([]byte, 32), DrsVersion: drs0}
		if i+1 == bdlen {
			bd.DrsVersion = drs
		}
		if int64(i) == seqerr {
			bd.Height = start + i + 1
		}
		if int64(i) == rooterr {
			bd.StateRoot = make([]byte, 31)
		}
		if tsAll && int64(i) != tsmiss {
			bd.Timestamp = BaseTime.Add(time.Duration(start+i) * time.Second)
		}
		bds.BD = append(bds.BD, bd)
	}
	return bds
}

// The update-state errors are partly registered errors and partly gerrc errors wrapped with a text;
// the latter can only be told apart by that text, which is taken from the error values themselves.
func errText(e error) string {
	s := e.Error()
	if i := strings.Index(s, ": "); i > 0 {
		return s[:i]
	}
	return s
}

func coreUpdClass(err error) string {
	if err == nil {
		return "ok"
	}
	if IsPanic(err) {
		return "panic"
	}
	s := err.Error()
	for _, m := range []struct {
		e error
		c string
	}{
		{rollapptypes.ErrUnknownRollappID, "unknownRollapp"},
		{seqtypes.ErrNotProposer, "notProposer"},
		{rollapptypes.ErrWrongRollappRevision, "wrongRevision"},
		{rollapptypes.ErrInvalidBlockDescriptorTimestamp, "noTimestamp"},
		{rollapptypes.ErrWrongBlockHeight, "wrongHeight"},
		{rollapptypes.ErrInvalidNumBlocks, "badBlocks"},
		{rollapptypes.ErrInvalidBlockSequence, "badSequence"},
		{rollapptypes.ErrInvalidStateRoot, "badRoot"},
	} {
		if strings.Contains(s, errText(m.e)) {
			return m.c
		}
	}
	switch {
	case strings.Contains(s, "not in the middle of a rotation"):
		return "badLast"
	case strings.Contains(s, "obsolete DRS"):
		return "obsolete"
	}
	return "other"
}

func okErr(err error) string {
	if err == nil {
		return "ok"
	}
	if os.Getenv("CORE_DEBUG") != "" {
		fmt.Fprintln(os.Stderr, "DEBUG err:", err)
	}
	return "err"
}

// exec runs one op line on the real application and returns the result class.
func (h *coreH) exec(line string) string {
	f := strings.Fields(line)
	m := parseKV(f)
	app := h.f.App
	switch f[0] {
	case "create_rollapp":
		ri, id := h.rollapp(f[1])
		if h.created[ri] {
			return "err"
		}
		msg := rollapptypes.MsgCreateRollapp{
			Creator: h.owner.String(), RollappId: id, InitialSequencer: "*",
			MinSequencerBond: sdk.NewCoin(coreDenom, math.NewIntFromUint64(atou(m["minbond"]))),
			Alias:            fmt.Sprintf("alias%c", 'a'+ri), VmType: rollapptypes.Rollapp_WASM,
			GenesisInfo: &rollapptypes.GenesisInfo{Bech32Prefix: fmt.Sprintf("pf%c", 'a'+ri), GenesisChecksum: "1234567890abcdefg",
				InitialSupply: math.NewInt(1000), NativeDenom: rollapptypes.DenomMetadata{Display: "DEN", Base: "aden", Exponent: 18}},
			Metadata: &rollapptypes.RollappMetadata{Website: "https://dymension.xyz", Description: "d", LogoUrl: "https://dymension.xyz/logo.png",
				Telegram: "https://t.me/rolly", X: "https://x.dymension.xyz"},
		}
		apptesting.FundForAliasRegistration(app, h.f.Ctx, msg.Alias, msg.Creator)
		_, err := h.f.Deliver(&msg)
		if err == nil {
			h.created[ri] = true
		}
		return okErr(err)
	case "bridge":
		// stands for "genesis bridge completed with proof height h" (C10 covers the handshake itself):
		// a canonical 07-tendermint client with a consensus state at h, and TransferProofHeight = h.
		_, id := h.rollapp(f[1])
		ra, ok := app.RollappKeeper.GetRollapp(h.f.Ctx, id)
		ht := atou(m["h"])
		lh, okh := app.RollappKeeper.GetLatestHeight(h.f.Ctx, id)
		if !ok || ra.GenesisState.TransferProofHeight != 0 || !okh || ht == 0 || ht > lh {
			return "err"
		}
		err := h.f.Try(func(ctx sdk.Context) error {
			cs := ibctm.NewClientState(id, ibctm.DefaultTrustLevel, 14*24*time.Hour, 21*24*time.Hour, 10*time.Minute,
				clienttypes.NewHeight(1, ht), commitmenttypes.GetSDKSpecs(), []string{"upgrade", "upgradedIBCState"})
			cons := ibctm.NewConsensusState(BaseTime.Add(time.Duration(ht)*time.Second), commitmenttypes.NewMerkleRoot(make([]byte, 32)), make([]byte, 32))
			cid, err := app.IBCKeeper.ClientKeeper.CreateClient(ctx, cs, cons)
			if err != nil {
				return err
			}
			app.LightClientKeeper.SetCanonicalClient(ctx, id, cid)
			ra.GenesisState.TransferProofHeight = ht
			app.RollappKeeper.SetRollapp(ctx, ra)
			return nil
		})
		return okErr(err)
	case "packet":
		// C03: a pending delayed packet of the rollapp with the given proof height (stored the way the
		// delayedack middleware stores it); what the fork hooks do with it is observed under pk=
		ri, id := h.rollapp(f[1])
		if _, ok := app.RollappKeeper.GetRollapp(h.f.Ctx, id); !ok || ri < 0 {
			return "err"
		}
		typ := map[string]commontypes.RollappPacket_Type{"R": commontypes.RollappPacket_ON_RECV, "A": commontypes.RollappPacket_ON_ACK, "T": commontypes.RollappPacket_ON_TIMEOUT}[m["t"]]
		data := transfertypes.NewFungibleTokenPacketData("adym", "1", Actor(98).String(), Actor(97).String(), "")
		pkt := channeltypes.NewPacket(data.GetBytes(), atou(m["seq"]), "transfer", "channel-0", "transfer", "channel-0", clienttypes.NewHeight(1, 1000000), 0)
		rp := commontypes.RollappPacket{RollappId: id, Packet: &pkt, Status: commontypes.Status_PENDING, Type: typ, ProofHeight: atou(m["ph"])}
		who := data.Receiver
		if typ != commontypes.RollappPacket_ON_RECV {
			who = data.Sender
		}
		err := h.f.Try(func(ctx sdk.Context) error {
			app.DelayedAckKeeper.SetRollappPacket(ctx, rp)
			app.DelayedAckKeeper.MustSetPendingPacketByAddress(ctx, who, rp.RollappPacketKey())
			return nil
		})
		return okErr(err)
	case "fund":
		ai, a := h.actor(f[1])
		if ai >= coreBlockedBase && ai < coreBlockedBase+len(h.blocked) {
			return "bad-op" // the test's own funding goes through the bank too; m<i> is a rewardee token only
		}
		h.f.Fund(a, sdk.NewCoin(coreDenom, math.NewIntFromUint64(atou(m["amt"]))))
		return "ok"
	case "create_seq":
		ai, a := h.actor(f[1])
		_, id := h.rollapp(f[2])
		denom := coreDenom
		if m["denom"] == "bad" {
			denom = "stake"
		}
		var pk *codectypes.Any
		if ai >= 0 && ai < len(h.pubkeys) {
			pk = h.pubkeys[ai]
		}
		msg := seqtypes.MsgCreateSequencer{Creator: a.String(), DymintPubKey: pk, RollappId: id,
			Bond: sdk.Coin{Denom: denom, Amount: math.NewIntFromUint64(atou(m["bond"]))},
			Metadata: seqtypes.SequencerMetadata{Rpcs: []string{"https://rpc.wpd.evm.rollapp.noisnemyd.xyz:443"},
				EvmRpcs: []string{"https://rpc.evm.rollapp.noisnemyd.xyz:443"}, RestApiUrls: []string{"https://api.wpd.evm.rollapp.noisnemyd.xyz:443"}}}
		_, err := h.f.Deliver(&msg)
		return okErr(err)
	case "bond_inc":
		_, a := h.actor(f[1])
		denom := coreDenom
		if m["denom"] == "bad" {
			denom = "stake"
		}
		_, err := h.f.Deliver(&seqtypes.MsgIncreaseBond{Creator: a.String(), AddAmount: sdk.Coin{Denom: denom, Amount: math.NewIntFromUint64(atou(m["amt"]))}})
		return okErr(err)
	case "bond_dec":
		_, a := h.actor(f[1])
		_, err := h.f.Deliver(&seqtypes.MsgDecreaseBond{Creator: a.String(), DecreaseAmount: sdk.Coin{Denom: coreDenom, Amount: math.NewIntFromUint64(atou(m["amt"]))}})
		return okErr(err)
	case "unbond":
		_, a := h.actor(f[1])
		_, err := h.f.Deliver(&seqtypes.MsgUnbond{Creator: a.String()})
		return okErr(err)
	case "optin":
		_, a := h.actor(f[1])
		_, err := h.f.Deliver(&seqtypes.MsgUpdateOptInStatus{Creator: a.String(), OptedIn: f[2] == "1"})
		return okErr(err)
	case "kick":
		_, a := h.actor(f[1])
		_, err := h.f.Deliver(&seqtypes.MsgKickProposer{Creator: a.String()})
		return okErr(err)
	case "update":
		_, id := h.rollapp(f[1])
		_, a := h.actor(m["by"])
		start, num := atou(m["start"]), atou(m["num"])
		msg := rollapptypes.MsgUpdateState{Creator: a.String(), RollappId: id, StartHeight: start, NumBlocks: num, DAPath: "",
			BDs: bdsFromSpec(start, num, m, atou(m["bdlen"])), RollappRevision: atou(m["rev"]), Last: m["last"] == "1"}
		_, err := h.f.Deliver(&msg)
		if os.Getenv("CORE_DEBUG") != "" && err != nil {
			fmt.Fprintln(os.Stderr, "DEBUG upd err:", err)
		}
		return coreUpdClass(err)
	case "fraud":
		_, id := h.rollapp(f[1])
		auth := h.gov
		if m["auth"] != "gov" {
			_, a := h.actor(m["auth"])
			auth = a.String()
		}
		msg := rollapptypes.MsgRollappFraudProposal{Authority: auth, RollappId: id, FraudHeight: atou(m["h"]), FraudRevision: atou(m["rev"])}
		if m["punish"] != "-" {
			_, a := h.actor(m["punish"])
			msg.PunishSequencerAddress = a.String()
		}
		if m["rewardee"] != "-" {
			_, a := h.actor(m["rewardee"])
			msg.Rewardee = a.String()
		}
		_, err := h.f.Deliver(&msg)
		return h.msgClass(err)
	case "xferowner":
		// x/rollapp MsgTransferOwnership signed by `by`; uc=1: the new owner's bech32 string in upper case
		// (valid bech32, the same address)
		_, id := h.rollapp(f[1])
		_, by := h.actor(m["by"])
		_, to := h.actor(m["to"])
		newOwner := to.String()
		if m["uc"] == "1" {
			newOwner = strings.ToUpper(newOwner)
		}
		_, err := h.f.Deliver(&rollapptypes.MsgTransferOwnership{CurrentOwner: by.String(), NewOwner: newOwner, RollappId: id})
		return okErr(err)
	case "set_seq_params":
		// x/sequencer MsgUpdateParams (the whole parameter set is replaced)
		auth := h.gov
		if m["auth"] != "gov" {
			_, x := h.actor(m["auth"])
			auth = x.String()
		}
		sp := app.SequencerKeeper.GetParams(h.f.Ctx)
		mul, ok := new(big.Int).SetString(m["mul"], 10)
		if !ok {
			return "bad-op"
		}
		sp.NoticePeriod = time.Duration(atoi(m["notice"]))
		sp.DishonorKickThreshold = atou(m["kick"])
		sp.LivenessSlashMinMultiplier = math.LegacyNewDecFromBigIntWithPrec(mul, 18)
		sp.LivenessSlashMinAbsolute = sdk.NewCoin(coreDenom, math.NewIntFromUint64(atou(m["abs"])))
		sp.DishonorStateUpdate = atou(m["dsu"])
		sp.DishonorLiveness = atou(m["dl"])
		_, err := h.f.Deliver(&seqtypes.MsgUpdateParams{Authority: auth, Params: sp})
		if err == nil { // the monitors and the generator read the parameters in force from h.p
			h.p.NoticeNs, h.p.Kick, h.p.MulRaw, h.p.Abs, h.p.DSU, h.p.DL = atoi(m["notice"]), atou(m["kick"]), mul.Int64(), atou(m["abs"]), atou(m["dsu"]), atou(m["dl"])
		}
		return okErr(err)
	case "punish":
		// the standalone governance PunishSequencerProposal, delivered the way an executed proposal
		// delivers it: x/gov's MsgExecLegacyContent -> legacy router -> x/sequencer's proposal handler
		_, a := h.actor(f[1])
		auth := h.gov
		if m["auth"] != "gov" {
			_, x := h.actor(m["auth"])
			auth = x.String()
		}
		content := &seqtypes.PunishSequencerProposal{Title: "t", Description: "d", PunishSequencerAddress: a.String()}
		if m["rewardee"] != "-" {
			_, rw := h.actor(m["rewardee"])
			content.Rewardee = rw.String()
		}
		any, err := codectypes.NewAnyWithValue(content)
		if err != nil {
			return "bad-op"
		}
		_, err = h.f.Deliver(&govv1.MsgExecLegacyContent{Content: any, Authority: auth})
		// x/gov flattens the handler's error into the text of ErrInvalidProposalContent (%+v): the
		// bank's refusal of the recipient is recognised by the bank's own text for that recipient
		if err != nil && !IsPanic(err) {
			for _, ref := range h.blockedErr {
				txt := ref.Error()
				if i := strings.LastIndex(txt, ": "); i > 0 {
					txt = txt[:i]
				}
				if strings.Contains(err.Error(), txt) {
					return "blockedRecipient"
				}
			}
		}
		return okErr(err)
	case "obsolete":
		auth := h.gov
		if m["auth"] != "gov" {
			_, a := h.actor(m["auth"])
			auth = a.String()
		}
		var vs []uint32
		if m["v"] != "-" {
			for _, x := range strings.Split(m["v"], ",") {
				vs = append(vs, uint32(atou(x)))
			}
		}
		_, err := h.f.Deliver(&rollapptypes.MsgMarkObsoleteRollapps{Authority: auth, DrsVersions: vs})
		return okErr(err)
	case "reimport":
		// C18: export the whole application state, initialise a fresh application from it with the
		// production InitChainer, compare, and continue on the imported chain
		f2, exp1, exp2, err := h.f.ImportedCopy()
		if err != nil {
			h.lastImport = "import-failed: " + err.Error()
			return "import-failed"
		}
		h.lastImport = ""
		var mods []string
		for mn := range exp1 {
			mods = append(mods, mn)
		}
		sort.Strings(mods)
		for _, mn := range mods {
			if !c18Modules[mn] {
				continue // third-party modules (e.g. osmosis x/epochs re-stamps current_epoch_start_height at import) are outside C18's list
			}
			if d := firstJSONDiff(exp1[mn], exp2[mn]); d != "" {
				h.lastImport += "reexport " + mn + d + "; "
			}
		}
		if m1, m2 := h.f.Invariants(), f2.Invariants(); m1 == "" && m2 != "" {
			h.lastImport += "invariant " + m2 + "; "
		}
		if !h.f.App.BankKeeper.GetSupply(h.f.Ctx, coreDenom).Amount.Equal(f2.App.BankKeeper.GetSupply(f2.Ctx, coreDenom).Amount) {
			h.lastImport += "supply differs; "
		}
		h.f = f2
		lastFix = f2 // C12: the per-op store digests follow the history onto the imported application
		h.installSeam()
		return "ok"
	case "begin":
		err := h.f.Begin(time.Duration(atoi(m["dt"])))
		if err != nil {
			return "blockfail"
		}
		return "ok"
	case "end":
		h.fails = map[[2]uint64]bool{}
		if m["fail"] != "-" {
			for _, x := range strings.Split(m["fail"], ",") {
				p := strings.Split(x, ":")
				h.fails[[2]uint64{atou(strings.TrimPrefix(p[0], "r")), atou(p[1])}] = true
			}
		}
		err := h.f.End()
		h.fails = map[[2]uint64]bool{}
		if err != nil {
			return "blockfail"
		}
		return "ok"
	}
	return "bad-op"
}

// ---- snapshot of the observable state --------------------------------------------------------

type coreState struct {
	Creator, Next          int // Next: -1 empty, -2 sentinel
	Start, Num, CH         uint64
	Final                  bool
	NBds, LastBdH, LastDrs uint64
	LastHasTs              bool
}

type coreRa struct {
	Exists          bool
	Launched        bool
	Tph             uint64
	Revs            [][2]uint64
	LastFin, Latest uint64
	EvH, CdStart    int64
	Prop, Succ      int // -1 = sentinel
	Owner           string // token: o0 / a<i> / m<i>
	OwnerBlocked    bool   // the bank refuses the stored owner as a recipient (monitors only)
	States          []coreState
	ByHeight        map[uint64]uint64
	Probes          []uint64
}

type coreSeq struct {
	Ra              int
	Bonded, OptedIn bool
	Tokens          math.Int
	Dishonor        uint64
	Notice          int64 // ns since BaseTime, -1 = none
}

type coreSnap struct {
	H      int64
	T      int64
	Ras    []coreRa
	Seqs   map[int]coreSeq
	Queue  []string
	SeqH   [][2]uint64 // (actor, height)
	Lev    [][2]int64  // (height, rollapp)
	Nq     [][2]int64  // (time, actor)
	Mod    math.Int
	Bal    []math.Int
	MBal   []math.Int // balances of the blocked module accounts m0.. (monitors only, not part of the observation)
	Supply math.Int
	SP     string   // x/sequencer params in force: notice,kick,mul(raw),abs,dsu,dl
	Pk     []corePk // pending delayed packets of the rollapps
}

type corePk struct {
	Ra      int
	Ph, Seq uint64
	T       string
}

func (h *coreH) aidx(addr string) int {
	if addr == seqtypes.SentinelSeqAddr {
		return -2
	}
	if addr == "" {
		return -1
	}
	if i, ok := h.actorIdx[addr]; ok {
		return i
	}
	return -9
}

func (h *coreH) snapshot() *coreSnap {
	app, ctx := h.f.App, h.f.Ctx
	s := &coreSnap{H: h.f.Height, T: int64(h.f.Time.Sub(BaseTime)), Seqs: map[int]coreSeq{}}
	for ri, id := range h.rollapps {
		var r coreRa
		ra, ok := app.RollappKeeper.GetRollapp(ctx, id)
		if !ok {
			s.Ras = append(s.Ras, r)
			continue
		}
		r.Exists, r.Launched, r.Tph = true, ra.Launched, ra.GenesisState.TransferProofHeight
		r.Owner = h.ownerName(ra.Owner)
		if oa, err := sdk.AccAddressFromBech32(ra.Owner); err != nil || app.BankKeeper.BlockedAddr(oa) {
			r.OwnerBlocked = true
		}
		for _, rv := range ra.Revisions {
			r.Revs = append(r.Revs, [2]uint64{rv.Number, rv.StartHeight})
		}
		r.EvH, r.CdStart = ra.LivenessEventHeight, ra.LivenessCountdownStartHeight
		if li, ok := app.RollappKeeper.GetLatestStateInfoIndex(ctx, id); ok {
			r.Latest = li.Index
		}
		if lf, ok := app.RollappKeeper.GetLatestFinalizedStateIndex(ctx, id); ok {
			r.LastFin = lf.Index
		}
		p := app.SequencerKeeper.GetProposer(ctx, id)
		r.Prop = h.aidx(p.Address)
		if r.Prop == -2 {
			r.Prop = -1
		}
		sc := app.SequencerKeeper.GetSuccessor(ctx, id)
		r.Succ = h.aidx(sc.Address)
		if r.Succ == -2 {
			r.Succ = -1
		}
		probe := map[uint64]bool{0: true}
		for i := uint64(1); i <= r.Latest+1; i++ {
			st, ok := app.RollappKeeper.GetStateInfo(ctx, id, i)
			if !ok {
				if i <= r.Latest {
					r.States = append(r.States, coreState{Creator: -9})
				}
				continue
			}
			cs := coreState{Creator: h.aidx(st.Sequencer), Next: h.aidx(st.NextProposer), Start: st.StartHeight, Num: st.NumBlocks,
				CH: st.CreationHeight, Final: st.Status == commontypes.Status_FINALIZED, NBds: uint64(len(st.BDs.BD))}
			if n := len(st.BDs.BD); n > 0 {
				cs.LastBdH, cs.LastDrs, cs.LastHasTs = st.BDs.BD[n-1].Height, uint64(st.BDs.BD[n-1].DrsVersion), !st.BDs.BD[n-1].Timestamp.IsZero()
			}
			r.States = append(r.States, cs)
			for _, x := range []uint64{st.StartHeight - 1, st.StartHeight, st.StartHeight + st.NumBlocks - 1, st.StartHeight + st.NumBlocks} {
				probe[x] = true
			}
		}
		for x := range probe {
			r.Probes = append(r.Probes, x)
		}
		sort.Slice(r.Probes, func(i, j int) bool { return r.Probes[i] < r.Probes[j] })
		r.ByHeight = map[uint64]uint64{}
		for _, x := range r.Probes {
			if st, err := app.RollappKeeper.FindStateInfoByHeight(ctx, id, x); err == nil {
				r.ByHeight[x] = st.StateInfoIndex.Index
			}
		}
		_ = ri
		s.Ras = append(s.Ras, r)
	}
	for _, q := range app.SequencerKeeper.AllSequencers(ctx) {
		i := h.aidx(q.Address)
		cs := coreSeq{Ra: h.raIdx[q.RollappId], Bonded: q.Status == seqtypes.Bonded, OptedIn: q.OptedIn, Tokens: q.TokensCoin().Amount, Dishonor: q.Dishonor, Notice: -1}
		if q.NoticeStarted() {
			cs.Notice = int64(q.NoticePeriodTime.Sub(BaseTime))
		}
		s.Seqs[i] = cs
	}
	qs, _ := app.RollappKeeper.GetEntireFinalizationQueue(ctx)
	for _, q := range qs {
		var ix []string
		for _, i := range q.FinalizationQueue {
			ix = append(ix, strconv.FormatUint(i.Index, 10))
		}
		s.Queue = append(s.Queue, fmt.Sprintf("%d:r%d:%s", q.CreationHeight, h.raIdx[q.RollappId], strings.Join(ix, ",")))
	}
	prs, _ := app.RollappKeeper.AllSequencerHeightPairs(ctx)
	for _, p := range prs {
		s.SeqH = append(s.SeqH, [2]uint64{uint64(h.aidx(p.Sequencer)), p.Height})
	}
	sort.Slice(s.SeqH, func(i, j int) bool {
		if s.SeqH[i][0] != s.SeqH[j][0] {
			return s.SeqH[i][0] < s.SeqH[j][0]
		}
		return s.SeqH[i][1] < s.SeqH[j][1]
	})
	for _, e := range app.RollappKeeper.GetLivenessEvents(ctx, nil) {
		s.Lev = append(s.Lev, [2]int64{e.HubHeight, int64(h.raIdx[e.RollappId])})
	}
	sort.Slice(s.Lev, func(i, j int) bool {
		if s.Lev[i][0] != s.Lev[j][0] {
			return s.Lev[i][0] < s.Lev[j][0]
		}
		return s.Lev[i][1] < s.Lev[j][1]
	})
	nq, _ := app.SequencerKeeper.NoticeQueue(ctx, nil)
	for _, q := range nq {
		s.Nq = append(s.Nq, [2]int64{int64(q.NoticePeriodTime.Sub(BaseTime)), int64(h.aidx(q.Address))})
	}
	s.Mod = app.BankKeeper.GetBalance(ctx, authtypes.NewModuleAddress(seqtypes.ModuleName), coreDenom).Amount
	for _, a := range h.actors {
		s.Bal = append(s.Bal, app.BankKeeper.GetBalance(ctx, a, coreDenom).Amount)
	}
	for _, a := range h.blocked {
		s.MBal = append(s.MBal, app.BankKeeper.GetBalance(ctx, a, coreDenom).Amount)
	}
	s.Supply = app.BankKeeper.GetSupply(ctx, coreDenom).Amount
	{
		sp := app.SequencerKeeper.GetParams(ctx)
		abs := "0"
		if sp.LivenessSlashMinAbsolute.Denom == coreDenom && !sp.LivenessSlashMinAbsolute.Amount.IsNil() {
			abs = sp.LivenessSlashMinAbsolute.Amount.String()
		}
		mul := "0"
		if !sp.LivenessSlashMinMultiplier.IsNil() {
			mul = sp.LivenessSlashMinMultiplier.BigInt().String()
		}
		s.SP = fmt.Sprintf("%d,%d,%s,%s,%d,%d", int64(sp.NoticePeriod), sp.DishonorKickThreshold, mul, abs, sp.DishonorStateUpdate, sp.DishonorLiveness)
	}
	for _, pk := range app.DelayedAckKeeper.ListRollappPackets(ctx, datypes.ByStatus(commontypes.Status_PENDING)) {
		ri, ok := h.raIdx[pk.RollappId]
		if !ok {
			continue
		}
		s.Pk = append(s.Pk, corePk{Ra: ri, Ph: pk.ProofHeight, Seq: pk.Packet.Sequence, T: map[commontypes.RollappPacket_Type]string{commontypes.RollappPacket_ON_RECV: "R", commontypes.RollappPacket_ON_ACK: "A", commontypes.RollappPacket_ON_TIMEOUT: "T"}[pk.Type]})
	}
	sort.Slice(s.Pk, func(i, j int) bool {
		a, b := s.Pk[i], s.Pk[j]
		if a.Ra != b.Ra {
			return a.Ra < b.Ra
		}
		if a.Ph != b.Ph {
			return a.Ph < b.Ph
		}
		if a.Seq != b.Seq {
			return a.Seq < b.Seq
		}
		return a.T < b.T
	})
	return s
}

func nextName(i int) string {
	switch i {
	case -1:
		return "-"
	case -2:
		return "S"
	}
	return coreActorName(i)
}

func b2s(b bool) string {
	if b {
		return "1"
	}
	return "0"
}

// render produces the canonical observation line (everything the model must reproduce).
func (s *coreSnap) render(res string) string {
	var sb strings.Builder
	fmt.Fprintf(&sb, "res=%s h=%d t=%d", res, s.H, s.T)
	for ri, r := range s.Ras {
		if !r.Exists {
			continue
		}
		fmt.Fprintf(&sb, " | r%d l=%s tph=%d rev=", ri, b2s(r.Launched), r.Tph)
		for i, rv := range r.Revs {
			if i > 0 {
				sb.WriteByte(',')
			}
			fmt.Fprintf(&sb, "%d@%d", rv[0], rv[1])
		}
		fmt.Fprintf(&sb, " n=%d fin=%d ev=%d cd=%d prop=%s succ=%s own=%s st=", r.Latest, r.LastFin, r.EvH, r.CdStart, coreActorName(r.Prop), coreActorName(r.Succ), r.Owner)
		for i, st := range r.States {
			if i > 0 {
				sb.WriteByte(';')
			}
			fs := "P"
			if st.Final {
				fs = "F"
			}
			fmt.Fprintf(&sb, "%d,%d,%s,%d,%s,%s,%d,%d,%d,%s", st.Start, st.Num, coreActorName(st.Creator), st.CH, fs, nextName(st.Next), st.NBds, st.LastBdH, st.LastDrs, b2s(st.LastHasTs))
		}
		sb.WriteString(" bh=")
		for i, x := range r.Probes {
			if i > 0 {
				sb.WriteByte(',')
			}
			if ix, ok := r.ByHeight[x]; ok {
				fmt.Fprintf(&sb, "%d>%d", x, ix)
			} else {
				fmt.Fprintf(&sb, "%d>-", x)
			}
		}
	}
	sb.WriteString(" | q=" + strings.Join(s.Queue, ";"))
	sb.WriteString(" | sh=")
	for i, p := range s.SeqH {
		if i > 0 {
			sb.WriteByte(',')
		}
		fmt.Fprintf(&sb, "a%d:%d", p[0], p[1])
	}
	sb.WriteString(" | seqs=")
	var ids []int
	for i := range s.Seqs {
		ids = append(ids, i)
	}
	sort.Ints(ids)
	for k, i := range ids {
		q := s.Seqs[i]
		if k > 0 {
			sb.WriteByte(';')
		}
		nt := "-"
		if q.Notice >= 0 {
			nt = strconv.FormatInt(q.Notice, 10)
		}
		fmt.Fprintf(&sb, "a%d:r%d:%s:%s:%s:%d:%s", i, q.Ra, b2s(q.Bonded), b2s(q.OptedIn), q.Tokens, q.Dishonor, nt)
	}
	sb.WriteString(" | lev=")
	for i, e := range s.Lev {
		if i > 0 {
			sb.WriteByte(',')
		}
		fmt.Fprintf(&sb, "%d:r%d", e[0], e[1])
	}
	sb.WriteString(" | nq=")
	for i, e := range s.Nq {
		if i > 0 {
			sb.WriteByte(',')
		}
		fmt.Fprintf(&sb, "%d:a%d", e[0], e[1])
	}
	fmt.Fprintf(&sb, " | mod=%s bal=", s.Mod)
	for i, b := range s.Bal {
		if i > 0 {
			sb.WriteByte(',')
		}
		sb.WriteString(b.String())
	}
	sb.WriteString(" | sp=" + s.SP)
	return sb.String()
}

var _ = rollappkeeper.Keeper{}

// c18Modules: the custom modules whose genesis C18 is about (its anchor list) plus bank.
var c18Modules = map[string]bool{"rollapp": true, "sequencer": true, "delayedack": true, "eibc": true, "dymns": true,
	"lightclient": true, "iro": true, "lockup": true, "incentives": true, "streamer": true, "sponsorship": true, "bank": true}

// renderFull: the M-Core observation followed by the pending delayed packets (Core protocol only;
// the C09 protocol appends its own light-client part to render).
func (s *coreSnap) renderFull(res string) string {
	var sb strings.Builder
	sb.WriteString(s.render(res))
	sb.WriteString(" | pk=")
	for i, p := range s.Pk {
		if i > 0 {
			sb.WriteByte(',')
		}
		fmt.Fprintf(&sb, "r%d:%d:%d:%s", p.Ra, p.Ph, p.Seq, p.T)
	}
	return sb.String()
}
