package harness

import (
	"errors"
	"fmt"
	"hash/fnv"
	"math/big"
	"os"
	"strconv"
	"strings"
	"testing"
	"time"

	"cosmossdk.io/math"
	sdk "github.com/cosmos/cosmos-sdk/types"
	sdkerrors "github.com/cosmos/cosmos-sdk/types/errors"
	banktypes "github.com/cosmos/cosmos-sdk/x/bank/types"
	"github.com/dymensionxyz/gerr-cosmos/gerrc"

	"github.com/dymensionxyz/dymension/v3/app/apptesting"
	irokeeper "github.com/dymensionxyz/dymension/v3/x/iro/keeper"
	irotypes "github.com/dymensionxyz/dymension/v3/x/iro/types"
	rollapptypes "github.com/dymensionxyz/dymension/v3/x/rollapp/types"
)

// C13 — IRO plans stay solvent and the bonding curve cannot be gamed.
//
// Line protocol (one trace = one rollapp with at most one plan; actor 0 is the rollapp owner):
//   reset <takerFeeRaw> <creationFee> <minLiqPartRaw> <minVestDurNs> <minPlanDurNs> <feeBase> <n> <genAlloc> <liqDecimals>
//   create <alloc> <Mraw> <Nraw> <Craw> <L> <enabled> <startNs> <planDurNs> <liqPartRaw> <vestDurNs> <vestStartAfterNs>
//   time <dtNs> | fund <a> <amt> | buy <a> <amt> <maxCost> | bes <a> <spend> <minTokens> | sell <a> <amt> <minIncome>
//   enable <a> | settle <raFunded> | claim <a> | claimv <a> | xfer <a> <b> <amt>
//   chown <a> <b>                                        (x/rollapp MsgTransferOwnership{CurrentOwner a, NewOwner b})
//   xs <Mraw> <Nraw> <Craw> <L> <sold> <netSpend>        (stateless Newton-contract sweep op)
// After a `|` the executor appends the curve-oracle values it read from the real code:
// `x:I(x)` (raw 10^-18 value of integral(x) obtained as Cost(0,x) of an 18/18-decimals copy of the
// curve — `integral` itself is unexported) and `s:p:T` (TokensApproximation(s,p) raw, or `err`).
// Tokens after `|` on an input line are ignored and recomputed (so any line replays).
//
// Many plans (Model/IroPlans): a trace may register further rollapps, each a "slot" with its own owner,
// traders, denoms, plan and curve; all other op lines address the CURRENT slot.
//   newra            register a further rollapp; it becomes the current slot
//   sel <k>          make slot k current
//   restart          export the whole application state, initialise a fresh application from it with the
//                    production InitChainer (Fix.ImportedCopy) and CONTINUE ON THE IMPORTED CHAIN
//   reset … | <n>    the oracle suffix of reset is the LastPlanId of the application the trace starts on
// Every observation starts with `<class> <cur> <plan id of the current rollapp|-> <LastPlanId> <#plans> ;`
// (the id is read through GetPlanByRollapp); the observation of `restart` shows every slot.

var c13ErrTable = []ErrMap{
	{irotypes.ErrPlanNotFound, "notfound"},
	{irotypes.ErrPlanSettled, "settled"},
	{irotypes.ErrPlanNotStarted, "notstarted"},
	{irotypes.ErrInsufficientTokens, "instokens"},
	{irotypes.ErrInvalidCost, "invalidcost"},
	{irotypes.ErrInvalidExpectedOutAmount, "maxcost"},
	{irotypes.ErrInvalidMinCost, "mincost"},
	{irotypes.ErrPlanNotSettled, "notsettled"},
	{irotypes.ErrNoTokensToClaim, "notokens"},
	{irotypes.ErrFailedBootstrapLiquidityPool, "bootstrap"},
	{sdkerrors.ErrInsufficientFunds, "funds"},
	{sdkerrors.ErrInvalidCoins, "coins"},
	{sdkerrors.ErrInvalidRequest, "invalid"},
	{gerrc.ErrPermissionDenied, "denied"},
	{gerrc.ErrFailedPrecondition, "precond"},
	{gerrc.ErrInternal, "internal"},
}

const c13NoPlan = "999999999"

type c13Snap struct {
	sold, liq math.Int
}

// c13Slot: one rollapp of a trace (the fields of the same names in c13 are the CURRENT slot's)
type c13Slot struct {
	rollapp, raDenom, iroDenom, planID string
	curve                              irotypes.BondingCurve
	actors                             []sdk.AccAddress
	base                               []math.Int
	besOK, trades, streakActor         int
	streakBes                          bool
	streak                             []c13Snap
}

type c13 struct {
	r     *Run
	f     *Fix
	tr    int // traces started
	onFix int
	raSeq int // rollapps registered (names)
	slots []c13Slot
	cur   int

	// configuration of the current trace
	n        int
	L        int
	feeBase  bool
	liq      string
	rollapp  string
	raDenom  string
	iroDenom string
	genAlloc math.Int
	takerFee math.LegacyDec
	actors   []sdk.AccAddress
	base     []math.Int
	t0       time.Time
	planID   string
	curve    irotypes.BondingCurve
	lines    []string

	// monitor state
	besOK       int // executed exact-spend purchases of this trace
	streakBes   bool
	trades      int
	streakActor int
	streak      []c13Snap
	kinds       []string
	nontrivial  bool
}

func c13Dec(raw string) math.LegacyDec {
	b, ok := new(big.Int).SetString(raw, 10)
	if !ok {
		panic("bad dec " + raw)
	}
	return math.LegacyNewDecFromBigIntWithPrec(b, 18)
}
func c13Int(s string) math.Int {
	v, ok := math.NewIntFromString(s)
	if !ok {
		panic("bad int " + s)
	}
	return v
}
func c13Raw(d math.LegacyDec) string { return d.BigInt().String() }
func p10(n int) math.Int             { return math.NewIntWithDecimal(1, n) }

func (c *c13) k() *irokeeper.Keeper { return c.f.App.IROKeeper }

func (c *c13) fixProposer() {
	vals, err := c.f.App.StakingKeeper.GetAllValidators(c.f.Ctx)
	if err != nil || len(vals) == 0 {
		c.r.T.Fatal("no validators")
	}
	ca, _ := vals[0].GetConsAddr()
	h := c.f.Ctx.BlockHeader()
	h.ProposerAddress = ca
	c.f.Ctx = c.f.Ctx.WithBlockHeader(h)
}

func c13Letters(i int) string {
	s := ""
	for k := 0; k < 4; k++ {
		s += string(rune('a' + i%26))
		i /= 26
	}
	return s
}

func (c *c13) ensureDenom(denom string, exp int) {
	bk := c.f.App.BankKeeper
	if _, ok := bk.GetDenomMetaData(c.f.Ctx, denom); !ok {
		disp := strings.ToUpper(denom) + "D"
		bk.SetDenomMetaData(c.f.Ctx, banktypes.Metadata{Base: denom, Display: disp, Name: disp, Symbol: disp,
			DenomUnits: []*banktypes.DenomUnit{{Denom: denom, Exponent: 0}, {Denom: disp, Exponent: uint32(exp)}}})
	}
	gp := c.f.App.GAMMKeeper.GetParams(c.f.Ctx)
	for _, d := range gp.AllowedPoolCreationDenoms {
		if d == denom {
			return
		}
	}
	gp.AllowedPoolCreationDenoms = append(gp.AllowedPoolCreationDenoms, denom)
	c.f.App.GAMMKeeper.SetParams(c.f.Ctx, gp)
}

// ---- oracle access to the real curve ---------------------------------------------------------

func (c *c13) oracleI(curve irotypes.BondingCurve, x math.Int) string {
	c18 := curve
	c18.RollappDenomDecimals, c18.LiquidityDenomDecimals = 18, 18
	return x.String() + ":" + c18.Cost(math.ZeroInt(), x).String()
}

func (c *c13) oracleT(curve irotypes.BondingCurve, sold, net math.Int) (tok string, res math.LegacyDec, ok bool) {
	startX := irotypes.ScaleFromBase(sold, 18)
	spend := irotypes.ScaleFromBase(net, curve.LiquidityDecimals())
	key := c13Raw(startX) + ":" + c13Raw(spend) + ":"
	defer func() {
		if e := recover(); e != nil {
			tok, ok = key+"err", false
		}
	}()
	x, _, err := curve.TokensApproximation(startX, spend)
	if err != nil {
		return key + "err", math.LegacyDec{}, false
	}
	return key + c13Raw(x), x, true
}

// ---- observation -----------------------------------------------------------------------------

func (c *c13) plan() (irotypes.Plan, bool) {
	if c.planID == "" {
		return irotypes.Plan{}, false
	}
	return c.k().GetPlan(c.f.Ctx, c.planID)
}

func (c *c13) rel(t time.Time) string {
	if t.IsZero() {
		return "0"
	}
	return strconv.FormatInt(t.Sub(c.t0).Nanoseconds(), 10)
}

func b01(b bool) string {
	if b {
		return "1"
	}
	return "0"
}

func (c *c13) modAddr() sdk.AccAddress {
	return c.f.App.AccountKeeper.GetModuleAddress(irotypes.ModuleName)
}

// slotState: plan, accounts of the plan / module and of the slot's actors
func (c *c13) slotState() string {
	ps := "-"
	planLiq := math.ZeroInt()
	if p, ok := c.plan(); ok {
		ps = fmt.Sprintf("%s %s %s %s %s %s %s %s %s %s", p.SoldAmt, p.ClaimedAmt, p.MaxAmountToSell, b01(p.TradingEnabled), c.rel(p.StartTime),
			b01(p.IsSettled()), p.VestingPlan.Amount, p.VestingPlan.Claimed, c.rel(p.VestingPlan.StartTime), c.rel(p.VestingPlan.EndTime))
		planLiq = c.f.Bal(p.GetAddress(), c.liq)
	}
	var accts []string
	for i, a := range c.actors {
		accts = append(accts, fmt.Sprintf("%s,%s,%s", c.f.Bal(a, c.liq).Sub(c.base[i]), c.f.Bal(a, c.iroDenom), c.f.Bal(a, c.raDenom)))
	}
	return fmt.Sprintf("%s | %s %s %s o%d | %s", ps, planLiq, c.f.Bal(c.modAddr(), c.iroDenom), c.f.Bal(c.modAddr(), c.raDenom), c.ownerIdx(), strings.Join(accts, " "))
}

// ownerIdx: the actor index of the rollapp's current owner as x/rollapp has it (-1: nobody of the trace)
func (c *c13) ownerIdx() int {
	ra, ok := c.f.App.RollappKeeper.GetRollapp(c.f.Ctx, c.rollapp)
	if !ok {
		return -1
	}
	for i, a := range c.actors {
		if a.String() == ra.Owner {
			return i
		}
	}
	return -1
}

// storePid: the plan id the store's by-rollapp index holds for the current rollapp
func (c *c13) storePid() string {
	if p, ok := c.k().GetPlanByRollapp(c.f.Ctx, c.rollapp); ok {
		return strconv.FormatUint(p.Id, 10)
	}
	return "-"
}

func (c *c13) nPlans() int { return len(c.k().GetAllPlans(c.f.Ctx, false)) }

func (c *c13) state() string {
	return fmt.Sprintf("%d %s %d %d ; %s", c.cur, c.storePid(), c.k().GetLastPlanId(c.f.Ctx), c.nPlans(), c.slotState())
}

// stateAll: every slot (the observation of `restart`)
func (c *c13) stateAll() string {
	var parts []string
	c.forAll(func(k int) { parts = append(parts, fmt.Sprintf("[%d %s %s]", k, c.storePid(), c.slotState())) })
	return fmt.Sprintf("%d %d %d ; %s", c.cur, c.k().GetLastPlanId(c.f.Ctx), c.nPlans(), strings.Join(parts, " "))
}

func (c *c13) now() time.Duration { return c.f.Time.Sub(c.t0) }

// ---- executor --------------------------------------------------------------------------------

func (c *c13) viol(sig, detail string) {
	c.r.Violate(sig, detail, append([]string(nil), c.lines...)...)
}

func (c *c13) reset(fl []string) string {
	if c.f == nil || c.onFix >= 12 {
		c.f = NewFix(c.r.T)
		c.onFix = 0
		c.fixProposer()
	}
	c.onFix++
	c.tr++
	c.takerFee = c13Dec(fl[1])
	p := c.k().GetParams(c.f.Ctx)
	p.TakerFee = c.takerFee
	p.CreationFee = c13Int(fl[2])
	p.MinLiquidityPart = c13Dec(fl[3])
	mvd, _ := strconv.ParseInt(fl[4], 10, 64)
	mpd, _ := strconv.ParseInt(fl[5], 10, 64)
	p.MinVestingDuration = time.Duration(mvd)
	p.MinPlanDuration = time.Duration(mpd)
	c.k().SetParams(c.f.Ctx, p)
	c.feeBase = fl[6] == "1"
	c.n, _ = strconv.Atoi(fl[7])
	c.genAlloc = c13Int(fl[8])
	c.L, _ = strconv.Atoi(fl[9])
	if c.feeBase {
		bd, err := c.f.App.TxFeesKeeper.GetBaseDenom(c.f.Ctx)
		if err != nil {
			c.r.T.Fatal(err)
		}
		c.liq = bd
	} else {
		c.liq = fmt.Sprintf("liq%d", c.L)
	}
	c.ensureDenom(c.liq, c.L)
	c.slots, c.cur = []c13Slot{{}}, 0
	c.newRollapp(0)
	c.t0 = c.f.Time
	c.kinds, c.nontrivial = nil, false
	return "ok"
}

// newRollapp registers the rollapp of slot k (own owner and traders) and makes its fields current
func (c *c13) newRollapp(k int) {
	c.raSeq++
	name := "vf" + c13Letters(c.raSeq)
	c.rollapp = fmt.Sprintf("%s_%d-1", name, 100000+c.raSeq)
	c.raDenom = "ibc/RA" + strings.ToUpper(name)
	c.iroDenom = irotypes.IRODenom(c.rollapp)
	c.planID = ""
	c.curve = irotypes.BondingCurve{}
	c.actors = nil
	for i := 0; i < c.n; i++ {
		c.actors = append(c.actors, Actor(c.tr*16+i+k*10000000))
	}
	owner := c.actors[0]
	apptesting.FundForAliasRegistration(c.f.App, c.f.Ctx, name, owner.String())
	msg := &rollapptypes.MsgCreateRollapp{
		Creator: owner.String(), RollappId: c.rollapp, InitialSequencer: "*",
		MinSequencerBond: rollapptypes.DefaultMinSequencerBondGlobalCoin,
		Alias:            name, VmType: rollapptypes.Rollapp_EVM,
		GenesisInfo: &rollapptypes.GenesisInfo{
			Bech32Prefix: name, GenesisChecksum: "1234567890abcdefg", InitialSupply: c.genAlloc.MulRaw(2),
			NativeDenom:     rollapptypes.DenomMetadata{Display: "DEN", Base: "aden", Exponent: 18},
			GenesisAccounts: &rollapptypes.GenesisAccounts{Accounts: []rollapptypes.GenesisAccount{{Address: c.k().GetModuleAccountAddress(), Amount: c.genAlloc}}},
		},
		Metadata: &rollapptypes.RollappMetadata{Website: "https://dymension.xyz", Description: "d", LogoUrl: "https://dymension.xyz/logo.png", Telegram: "https://t.me/rolly", X: "https://x.dymension.xyz"},
	}
	if _, err := c.f.Deliver(msg); err != nil {
		c.r.T.Fatalf("create rollapp: %v", err)
	}
	c.base = nil
	for _, a := range c.actors {
		c.base = append(c.base, c.f.Bal(a, c.liq))
	}
	c.trades, c.streakActor, c.streak, c.besOK, c.streakBes = 0, -1, nil, 0, false
}

func (c *c13) save() {
	c.slots[c.cur] = c13Slot{c.rollapp, c.raDenom, c.iroDenom, c.planID, c.curve, c.actors, c.base, c.besOK, c.trades, c.streakActor, c.streakBes, c.streak}
}

func (c *c13) load(k int) {
	s := c.slots[k]
	c.rollapp, c.raDenom, c.iroDenom, c.planID, c.curve, c.actors, c.base = s.rollapp, s.raDenom, s.iroDenom, s.planID, s.curve, s.actors, s.base
	c.besOK, c.trades, c.streakActor, c.streakBes, c.streak = s.besOK, s.trades, s.streakActor, s.streakBes, s.streak
	c.cur = k
}

// forAll runs fn with every slot loaded in turn and restores the current one
func (c *c13) forAll(fn func(k int)) {
	c.save()
	cur := c.cur
	for k := range c.slots {
		c.load(k)
		fn(k)
		c.save()
	}
	c.load(cur)
}

func (c *c13) class(err error) string { return ErrClass(err, c13ErrTable) }

func (c *c13) pid() string {
	if c.planID == "" {
		return c13NoPlan
	}
	return c.planID
}

// exec runs one op line on the real code; returns the observation and the oracle suffix
func (c *c13) exec(line string) (obs string, suffix string) {
	main := line
	if i := strings.Index(line, "|"); i >= 0 {
		main = strings.TrimSpace(line[:i])
	}
	fl := strings.Fields(main)
	if fl[0] == "xs" {
		return c.execSweep(fl)
	}
	if fl[0] == "reset" {
		c.lines = []string{main}
		obs = c.reset(fl)
		return obs, fmt.Sprintf("| %d", c.k().GetLastPlanId(c.f.Ctx))
	}
	if c.f == nil {
		return "bad-op", ""
	}
	act := func(i int) (sdk.AccAddress, int) { a, _ := strconv.Atoi(fl[i]); return c.actors[a%len(c.actors)], a }
	before := c.state()
	digest := c.f.StoreDigest("iro")
	planBefore, hadPlan := c.plan()
	var orc []string
	var err error
	var post []func() // monitors, run once the op line is part of the replay
	cls := ""
	kind := fl[0]
	ok := false
	all := false
	extra := ""
	ownerBefore := c.ownerIdx()
	if ownerBefore < 0 {
		ownerBefore = 0
	}
	switch fl[0] {
	case "newra":
		c.save()
		c.slots = append(c.slots, c13Slot{})
		c.cur = len(c.slots) - 1
		c.newRollapp(c.cur)
		planBefore, hadPlan = irotypes.Plan{}, false
		cls = "ok"
	case "sel":
		k, _ := strconv.Atoi(fl[1])
		if k < 0 || k >= len(c.slots) {
			cls = "badslot"
			break
		}
		c.save()
		c.load(k)
		cls = "ok"
	case "restart":
		all = true
		f2, _, _, ierr := c.f.ImportedCopy()
		if ierr != nil && c18ImportClass(ierr) == "vfbc-deploy-needs-proposer" {
			// known C18 finding (the VFBC deployment at InitChain needs a proposer in the header): continue
			// with a proposer, as the generic C18 hook does
			f2, _, _, ierr = c.f.ImportedCopyOpt(true)
		}
		if ierr != nil {
			cls = "import-failed"
			// a trace with fewer than ten plans of its own may depend on the plans earlier traces left in the
			// shared application: its op lines alone do not replay on a fresh one — separate signature, so
			// that the self-contained directed trace (twelve plans) keeps the replay of the main signature
			c.save()
			own := 0
			for _, sl := range c.slots {
				if sl.planID != "" {
					own++
				}
			}
			sig := "C13/restart/exported-genesis-rejected/" + c18ImportClass(ierr)
			if own < 10 {
				sig += "/with-plans-of-earlier-traces"
			}
			post = append(post, func() {
				c.viol(sig, trunc200("InitChainer failed on the exported state: "+ierr.Error()))
			})
			break
		}
		c.f = f2
		lastFix = f2
		c.fixProposer()
		cls = "ok"
	case "create":
		curve := irotypes.BondingCurve{M: c13Dec(fl[2]), N: c13Dec(fl[3]), C: c13Dec(fl[4]), RollappDenomDecimals: 18}
		l, _ := strconv.Atoi(fl[5])
		curve.LiquidityDenomDecimals = uint64(l)
		stt, _ := strconv.ParseInt(fl[7], 10, 64)
		pd, _ := strconv.ParseInt(fl[8], 10, 64)
		vd, _ := strconv.ParseInt(fl[10], 10, 64)
		vs, _ := strconv.ParseInt(fl[11], 10, 64)
		enabled := fl[6] == "1"
		msg := &irotypes.MsgCreatePlan{Owner: c.actors[ownerBefore].String(), RollappId: c.rollapp, AllocatedAmount: c13Int(fl[1]), BondingCurve: curve,
			TradingEnabled: enabled, IroPlanDuration: time.Duration(pd), IncentivePlanParams: irotypes.DefaultIncentivePlanParams(),
			LiquidityPart: c13Dec(fl[9]), LiquidityDenom: c.liq, VestingDuration: time.Duration(vd), VestingStartTimeAfterSettlement: time.Duration(vs)}
		if enabled {
			msg.StartTime = c.t0.Add(time.Duration(stt))
		}
		if curve.ValidateBasic() == nil {
			fee := c.k().GetParams(c.f.Ctx).CreationFee
			orc = append(orc, c.oracleI(curve, math.ZeroInt()), c.oracleI(curve, fee))
		}
		var res *sdk.Result
		res, err = c.f.Deliver(msg)
		if err == nil {
			var r irotypes.MsgCreatePlanResponse
			if e := r.Unmarshal(res.Data); e == nil && r.PlanId != "" {
				c.planID = r.PlanId
			} else if len(res.MsgResponses) > 0 {
				if e := r.Unmarshal(res.MsgResponses[0].Value); e == nil {
					c.planID = r.PlanId
				}
			}
			if c.planID == "" {
				p, found := c.k().GetPlanByRollapp(c.f.Ctx, c.rollapp)
				if !found {
					c.r.T.Fatal("plan created but not found")
				}
				c.planID = strconv.FormatUint(p.Id, 10)
			}
			c.curve = curve
			cls = "ok"
		} else if IsPanic(err) {
			cls = "panic"
		} else {
			cls = "rej"
		}
	case "time":
		dt, _ := strconv.ParseInt(fl[1], 10, 64)
		if dt < 0 {
			cls = "invalid"
			break
		}
		if e := c.f.Begin(time.Duration(dt)); e != nil {
			c.viol("C13/env/begin-block-failed", e.Error())
		}
		c.fixProposer()
		if e := c.f.End(); e != nil {
			c.viol("C13/env/end-block-failed", e.Error())
		}
		cls = "ok"
	case "fund":
		a, _ := act(1)
		amt := c13Int(fl[2])
		if amt.IsNegative() {
			cls = "invalid"
			break
		}
		if amt.IsPositive() {
			c.f.Fund(a, sdk.NewCoin(c.liq, amt))
		}
		c.streakActor = -1
		cls = "ok"
	case "buy":
		a, ai := act(1)
		amt := c13Int(fl[2])
		if hadPlan {
			orc = append(orc, c.oracleI(c.curve, planBefore.SoldAmt), c.oracleI(c.curve, planBefore.SoldAmt.Add(amt)))
		}
		lb := c.f.Bal(a, c.liq)
		_, err = c.f.Deliver(&irotypes.MsgBuy{Buyer: a.String(), PlanId: c.pid(), Amount: amt, MaxCostAmount: c13Int(fl[3])})
		cls = c.class(err)
		post = append(post, func() { c.afterTrade(kind, ai, a, planBefore, hadPlan, err, math.Int{}, math.Int{}, lb, ownerBefore) })
	case "bes":
		a, ai := act(1)
		spend := c13Int(fl[2])
		curveErr := false
		net := math.ZeroInt()
		if hadPlan && spend.IsPositive() {
			if n, _, e := c.k().ApplyTakerFee(spend, c.takerFee, false); e == nil {
				net = n
				if !irotypes.ScaleFromBase(planBefore.SoldAmt, 18).LT(math.LegacyOneDec()) {
					tok, _, tok_ok := c.oracleT(c.curve, planBefore.SoldAmt, n)
					orc = append(orc, tok)
					curveErr = !tok_ok
				} else {
					curveErr = true
				}
			}
		}
		lb := c.f.Bal(a, c.liq)
		_, err = c.f.Deliver(&irotypes.MsgBuyExactSpend{Buyer: a.String(), PlanId: c.pid(), Spend: spend, MinOutTokensAmount: c13Int(fl[3])})
		cls = c.class(err)
		if err == nil {
			// the pointwise Newton contract at this executed purchase (Model/IroNewton: NewtonUpperAt /
			// NewtonLowerAt with newtonTolRaw), recomputed here from the real code's values
			pa, _ := c.plan()
			orc = append(orc, c.oracleI(c.curve, planBefore.SoldAmt), c.oracleI(c.curve, pa.SoldAmt))
			nu, nl := c13NewtonAt(c.curve, c.L, planBefore.SoldAmt, pa.SoldAmt, net)
			extra = fmt.Sprintf(" nu=%s nl=%s", b01(nu), b01(nl))
			if !nl {
				c.r.Hit("newton/lower-contract-fails-at-executed-purchase")
				sold0, sold1, L := planBefore.SoldAmt, pa.SoldAmt, c.L
				post = append(post, func() {
					c.viol("C13/newton_contract/undershoot-at-executed-purchase", fmt.Sprintf("executed purchase L=%d sold %s: net spend %s buys %s tokens whose curve value is below the spend by more than the Newton tolerance (3·1e-12 + 1e-11·spend)", L, sold0, net, sold1.Sub(sold0)))
				})
			}
			if !nu {
				c.r.Hit("newton/upper-contract-fails-at-executed-purchase")
				sold0, sold1, L := planBefore.SoldAmt, pa.SoldAmt, c.L
				post = append(post, func() {
					c.viol("C13/newton_contract/overshoot", fmt.Sprintf("executed purchase L=%d sold %s: net spend %s buys %s tokens whose unfloored cost exceeds it (blame point of the solvency / round-trip theorems)", L, sold0, net, sold1.Sub(sold0)))
				})
			}
		}
		if (cls == "other" || cls == "panic") && curveErr {
			cls = "curve" // TokensForExactInAmount returned an error or panicked (LegacyDec overflow): the tx fails
			if IsPanic(err) {
				c.r.Hit("bes/newton-panic")
			}
		}
		post = append(post, func() { c.afterTrade(kind, ai, a, planBefore, hadPlan, err, spend, net, lb, ownerBefore) })
	case "sell":
		a, ai := act(1)
		amt := c13Int(fl[2])
		if hadPlan {
			orc = append(orc, c.oracleI(c.curve, planBefore.SoldAmt.Sub(amt)), c.oracleI(c.curve, planBefore.SoldAmt))
		}
		lb := c.f.Bal(a, c.liq)
		_, err = c.f.Deliver(&irotypes.MsgSell{Seller: a.String(), PlanId: c.pid(), Amount: amt, MinIncomeAmount: c13Int(fl[3])})
		cls = c.class(err)
		post = append(post, func() { c.afterTrade(kind, ai, a, planBefore, hadPlan, err, math.Int{}, math.Int{}, lb, ownerBefore) })
	case "enable":
		a, ai := act(1)
		_, err = c.f.Deliver(&irotypes.MsgEnableTrading{Owner: a.String(), PlanId: c.pid()})
		cls = c.class(err)
		if err == nil && ai != ownerBefore {
			post = append(post, func() { c.viol("C13/owner/non-owner-enabled-trading", fmt.Sprintf("a%d enabled trading, the owner is a%d", ai, ownerBefore)) })
		}
	case "settle":
		rf := c13Int(fl[1])
		err = c.f.Try(func(ctx sdk.Context) error {
			if rf.IsPositive() {
				coins := sdk.NewCoins(sdk.NewCoin(c.raDenom, rf))
				if e := c.f.App.BankKeeper.MintCoins(ctx, "mint", coins); e != nil {
					return e
				}
				if e := c.f.App.BankKeeper.SendCoinsFromModuleToModule(ctx, "mint", irotypes.ModuleName, coins); e != nil {
					return e
				}
			}
			return c.k().Settle(ctx, c.rollapp, c.raDenom)
		})
		cls = c.class(err)
		orc = append(orc, b01(!errors.Is(err, irotypes.ErrFailedBootstrapLiquidityPool)))
		if errors.Is(err, irotypes.ErrFailedBootstrapLiquidityPool) && os.Getenv("C13_DEBUG") != "" {
			fmt.Printf("BOOTSTRAP: %+v\n", err)
		}
		c.streakActor = -1
	case "claim":
		a, ai := act(1)
		bal := c.f.Bal(a, c.iroDenom)
		raBefore := c.f.Bal(a, c.raDenom)
		_, err = c.f.Deliver(&irotypes.MsgClaim{Claimer: a.String(), PlanId: c.pid()})
		cls = c.class(err)
		post = append(post, func() { c.afterClaim(ai, a, planBefore, hadPlan, bal, raBefore, err) })
	case "claimv":
		a, ai := act(1)
		liqBefore := c.f.Bal(a, c.liq)
		_, err = c.f.Deliver(&irotypes.MsgClaimVested{Claimer: a.String(), PlanId: c.pid()})
		cls = c.class(err)
		post = append(post, func() { c.afterClaimVested(ai, a, planBefore, hadPlan, liqBefore, err, ownerBefore) })
	case "chown":
		a, _ := act(1)
		b, bi := act(2)
		_, err = c.f.Deliver(&rollapptypes.MsgTransferOwnership{CurrentOwner: a.String(), NewOwner: b.String(), RollappId: c.rollapp})
		switch {
		case err == nil:
			cls = "ok"
			if got := c.ownerIdx(); got != bi {
				post = append(post, func() { c.viol("C13/owner/transfer-did-not-take-effect", fmt.Sprintf("owner is a%d after a transfer to a%d", got, bi)) })
			}
		case IsPanic(err):
			cls = "panic"
		case errors.Is(err, rollapptypes.ErrUnauthorizedSigner):
			cls = "denied"
		case errors.Is(err, rollapptypes.ErrSameOwner):
			cls = "rej"
		default:
			cls = "other"
		}
		c.streakActor = -1
	case "xfer":
		a, _ := act(1)
		b, _ := act(2)
		amt := c13Int(fl[3])
		if !amt.IsPositive() {
			cls = "invalid"
			break
		}
		err = c.f.Try(func(ctx sdk.Context) error {
			return c.f.App.BankKeeper.SendCoins(ctx, a, b, sdk.NewCoins(sdk.NewCoin(c.iroDenom, amt)))
		})
		cls = c.class(err)
		c.streakActor = -1
	default:
		return "bad-op", ""
	}
	ok = cls == "ok"
	after := c.state()
	if all {
		after = c.stateAll()
	}
	full := main
	if len(orc) > 0 {
		suffix = "| " + strings.Join(orc, " ")
		full = main + " " + suffix
	}
	c.lines = append(c.lines, full)
	// a rejected op must leave everything observable untouched
	if !ok && kind != "time" && kind != "restart" {
		if after != before || digest != c.f.StoreDigest("iro") {
			c.viol("C13/atomic/rejected-op-changed-state", fmt.Sprintf("class %s: before `%s` after `%s`", cls, before, after))
		}
	}
	for _, fn := range post {
		fn()
	}
	if ok && (kind == "create" || kind == "restart") && len(c.slots) > 1 {
		// a new plan / a restart must leave every other plan where it was
		c.forAll(func(int) { c.monitorState() })
	} else {
		c.monitorState()
	}
	c.kinds = append(c.kinds, kind+"/"+cls)
	if ok && kind != "time" && kind != "fund" {
		c.nontrivial = true
	}
	c.r.Hit(kind + "/" + cls)
	return cls + " " + after + extra, suffix
}

// c13NewtonAt: the two pointwise Newton inequalities at an executed exact-spend purchase, on the real
// code's values: I(x) = Cost(0,x) of the 18/18-decimals copy of the curve (raw 10^-18),
//   upper: 10^L·(I(sold1) − I(sold0)) ≤ 10^18·net
//   lower: p − tol ≤ I(sold1) − I(sold0)   with p = net·10^(18−L), tol = 3·10^(18−12) + p/10^11
// (12 = epsilonPrecision of bonding_curve.go; the model takes it from the regenerated Gen/Iro.lean)
func c13NewtonAt(curve irotypes.BondingCurve, L int, sold0, sold1, net math.Int) (upper, lower bool) {
	c18 := curve
	c18.RollappDenomDecimals, c18.LiquidityDenomDecimals = 18, 18
	d := c18.Cost(math.ZeroInt(), sold1).Sub(c18.Cost(math.ZeroInt(), sold0))
	upper = p10(L).Mul(d).LTE(p10(18).Mul(net))
	p := net.Mul(p10(18 - L))
	tol := p10(6).MulRaw(3).Add(p.Quo(p10(11)))
	lower = p.Sub(tol).LTE(d)
	return
}

// ---- monitors (model independent) ------------------------------------------------------------

// monitorState: clauses that must hold after every op
func (c *c13) monitorState() {
	p, ok := c.plan()
	if c.planID != "" {
		// the id handed out at creation must keep naming this rollapp's plan, and the index must agree
		if !ok {
			c.viol("C13/plans/plan-record-missing", fmt.Sprintf("slot %d: plan %s of %s is gone", c.cur, c.planID, c.rollapp))
		} else if p.RollappId != c.rollapp {
			c.viol("C13/plans/plan-replaced-by-another-rollapp", fmt.Sprintf("slot %d: plan id %s of %s now names the plan of %s", c.cur, c.planID, c.rollapp, p.RollappId))
			c.onFix = 1 << 30
			return
		}
		if sp := c.storePid(); sp != c.planID {
			c.viol("C13/plans/index-names-another-id", fmt.Sprintf("slot %d: created as plan %s, GetPlanByRollapp finds %s", c.cur, c.planID, sp))
		}
		if id, _ := strconv.ParseUint(c.planID, 10, 64); id > c.k().GetLastPlanId(c.f.Ctx) {
			c.viol("C13/plans/last-plan-id-below-existing-id", fmt.Sprintf("plan %s exists, LastPlanId is %d", c.planID, c.k().GetLastPlanId(c.f.Ctx)))
		}
	}
	if !ok {
		return
	}
	// cause: the creation fee booked as sold (sold within the fee) or a trade
	cause := "by-trade"
	if p.SoldAmt.LTE(c.k().GetParams(c.f.Ctx).CreationFee) {
		cause = "by-creation-fee"
	}
	if p.SoldAmt.GT(p.MaxAmountToSell) {
		c.viol("C13/sold_bounded/sold-exceeds-max-sell/"+cause, fmt.Sprintf("sold %s > maxSell %s", p.SoldAmt, p.MaxAmountToSell))
	}
	if p.SoldAmt.GT(p.TotalAllocation.Amount) || p.MaxAmountToSell.GT(p.TotalAllocation.Amount) {
		c.viol("C13/sold_bounded/exceeds-allocation/"+cause, fmt.Sprintf("sold %s maxSell %s allocation %s", p.SoldAmt, p.MaxAmountToSell, p.TotalAllocation.Amount))
	}
	if !p.IsSettled() {
		bal := c.f.Bal(p.GetAddress(), c.liq)
		val := c13SafeCost(c.curve, math.ZeroInt(), p.SoldAmt)
		if bal.AddRaw(int64(c.trades)).LT(val) {
			sig := "C13/solvent/plan-balance-below-curve-value/buy-sell-only"
			if c.besOK > 0 {
				sig = "C13/solvent/plan-balance-below-curve-value/after-exact-spend"
			}
			c.viol(sig, fmt.Sprintf("plan holds %s, curve value of sold %s is %s, executed trades %d (short by %s)", bal, p.SoldAmt, val, c.trades, val.Sub(bal)))
		}
	} else {
		supply := c.f.App.BankKeeper.GetSupply(c.f.Ctx, c.iroDenom).Amount
		mod := c.f.Bal(c.modAddr(), c.raDenom)
		if mod.LT(supply) {
			c.viol("C13/module_holds_unclaimed/module-short", fmt.Sprintf("module holds %s rollapp tokens, unclaimed IRO tokens %s", mod, supply))
		}
		if p.VestingPlan.Claimed.GT(p.VestingPlan.Amount) {
			c.viol("C13/vesting_bounded/over-claimed", fmt.Sprintf("claimed %s of %s", p.VestingPlan.Claimed, p.VestingPlan.Amount))
		}
	}
	if msg, broken := irokeeper.AllInvariants(*c.k())(c.f.Ctx); broken {
		what := "other"
		for _, ph := range [][2]string{
			{"total allocation less than sold amount", "plan-sold-exceeds-allocation"},
			{"total allocation less than claimed amount", "plan-claimed-exceeds-allocation"},
			{"claimed amount greater than sold amount", "plan-claimed-exceeds-sold"},
			{"insufficient RA tokens", "accounting-module-short-of-rollapp-tokens"},
			{"incorrect founder funds", "accounting-founder-funds"},
			{"iro tokens left in module", "accounting-iro-tokens-left"},
			{"last plan id mismatch", "plan-last-id"},
			{"plan validate basic", "plan-validate-basic"},
		} {
			if strings.Contains(msg, ph[0]) {
				what = ph[1]
				break
			}
		}
		if what == "plan-sold-exceeds-allocation" {
			what += "/" + cause
		}
		c.viol("C13/invariant/"+what, msg)
		c.onFix = 1 << 30 // the shared app keeps the broken plan: start the next trace on a fresh app
	}
}

func (c *c13) afterTrade(kind string, ai int, a sdk.AccAddress, pb irotypes.Plan, had bool, err error, spend, net, liqBefore math.Int, ownerIdx int) {
	if err != nil {
		return
	}
	owner := ai == ownerIdx
	if had {
		if pb.IsSettled() {
			c.viol("C13/trade_gating/traded-after-settlement", kind+" succeeded on a settled plan")
		}
		if !owner && (!pb.TradingEnabled || c.f.Time.Before(pb.StartTime)) {
			c.viol("C13/trade_gating/non-owner-traded-before-start", fmt.Sprintf("%s by a%d succeeded: enabled=%v start=%s now=%s", kind, ai, pb.TradingEnabled, c.rel(pb.StartTime), c.now()))
		}
	}
	c.trades++
	if kind == "bes" {
		c.besOK++
	}
	pa, _ := c.plan()
	liqNow := c.f.Bal(a, c.liq)
	// exact-spend clause
	if kind == "bes" {
		t := pa.SoldAmt.Sub(pb.SoldAmt)
		cost := c13SafeCost(c.curve, pb.SoldAmt, pa.SoldAmt)
		if cost.GT(spend) {
			c.viol("C13/exact_spend/cost-exceeds-spend", fmt.Sprintf("L=%d spend %s granted %s tokens which cost %s", c.L, spend, t, cost))
		}
		tol := c13Tol(c.L, net).Add(c13SafeCost(c.curve, pa.SoldAmt, pa.SoldAmt.AddRaw(1)).AddRaw(1))
		if cost.LT(net.Sub(tol)) {
			c.viol("C13/exact_spend/granted-tokens-worth-less-than-spend", fmt.Sprintf("L=%d spend %s (net of fee %s) granted %s base tokens which cost only %s (tolerance %s)", c.L, spend, net, t, cost, tol))
		}
	}
	// round trip: consecutive trades of one trader that bring sold back to an earlier value of the run
	if c.streakActor != ai {
		c.streakActor = ai
		c.streak = []c13Snap{{pb.SoldAmt, liqBefore}} // the state before this trade is the first snapshot
		c.streakBes = false
	}
	if kind == "bes" {
		c.streakBes = true
	}
	for _, s := range c.streak {
		if s.sold.Equal(pa.SoldAmt) && !liqNow.LT(s.liq) {
			sig := "C13/roundtrip/no-loss-on-round-trip/buy-sell-only"
			if c.streakBes {
				sig = "C13/roundtrip/no-loss-on-round-trip/with-exact-spend"
			}
			c.viol(sig, fmt.Sprintf("a%d: sold back to %s with liquidity %s >= %s before", ai, s.sold, liqNow, s.liq))
		}
	}
	c.streak = append(c.streak, c13Snap{pa.SoldAmt, liqNow})
}

// c13Tol: rounding tolerance of the exact-spend clause, in liquidity base units: Newton's epsilon
// (10^-12 display units, absolute or relative; times 3 = 1 + the largest curve exponent, which is how
// much a correction of the token amount by epsilon/price can move the cost) and truncations.  The
// callers add the price of one base unit of the token (token amounts are integral).
func c13Tol(L int, net math.Int) math.Int {
	t := math.NewInt(3).Add(net.Quo(p10(11)))
	if L > 12 {
		t = t.Add(p10(L - 12).MulRaw(3))
	}
	return t
}

func (c *c13) afterClaim(ai int, a sdk.AccAddress, pb irotypes.Plan, had bool, bal, raBefore math.Int, err error) {
	if !had {
		return
	}
	if err != nil {
		if pb.IsSettled() && bal.IsPositive() {
			c.viol("C13/claim/holder-cannot-claim", fmt.Sprintf("a%d holds %s IRO tokens after settlement, claim failed: %s", ai, bal, c.class(err)))
		}
		return
	}
	if !pb.IsSettled() {
		c.viol("C13/claim/claimed-before-settlement", "claim succeeded on an unsettled plan")
	}
	got := c.f.Bal(a, c.raDenom).Sub(raBefore)
	if !got.Equal(bal) || !c.f.Bal(a, c.iroDenom).IsZero() {
		c.viol("C13/claim/not-one-to-one", fmt.Sprintf("a%d held %s, received %s, still holds %s", ai, bal, got, c.f.Bal(a, c.iroDenom)))
	}
	// exactly once: an immediate second claim (discarded cache context) must fail
	cctx, _ := c.f.Ctx.CacheContext()
	msg := &irotypes.MsgClaim{Claimer: a.String(), PlanId: c.pid()}
	func() {
		defer func() { _ = recover() }()
		if _, e := c.f.App.MsgServiceRouter().Handler(msg)(cctx, msg); e == nil {
			c.viol("C13/claim/claimed-twice", fmt.Sprintf("a%d claimed a second time", ai))
		}
	}()
}

func (c *c13) afterClaimVested(ai int, a sdk.AccAddress, pb irotypes.Plan, had bool, liqBefore math.Int, err error, ownerIdx int) {
	if err != nil || !had {
		return
	}
	if ai != ownerIdx {
		c.viol("C13/vesting/non-owner-claimed", fmt.Sprintf("a%d claimed vested funds, the owner is a%d", ai, ownerIdx))
	}
	pa, _ := c.plan()
	v := pa.VestingPlan
	got := c.f.Bal(a, c.liq).Sub(liqBefore)
	if !got.Equal(v.Claimed.Sub(pb.VestingPlan.Claimed)) {
		c.viol("C13/vesting/payout-differs-from-bookkeeping", fmt.Sprintf("received %s, claimed moved by %s", got, v.Claimed.Sub(pb.VestingPlan.Claimed)))
	}
	if v.Claimed.GT(v.Amount) {
		c.viol("C13/vesting_bounded/over-claimed", fmt.Sprintf("claimed %s of %s", v.Claimed, v.Amount))
	}
	now := c.f.Time
	if now.Before(v.StartTime) {
		c.viol("C13/vesting_linear/released-before-start", fmt.Sprintf("claimed %s before the vesting start", v.Claimed))
		return
	}
	if now.After(v.EndTime) {
		return
	}
	x := math.NewInt(now.Sub(v.StartTime).Nanoseconds())
	y := math.NewInt(v.EndTime.Sub(v.StartTime).Nanoseconds())
	// linear schedule: claimed/amount <= x/y
	if y.Mul(v.Claimed).GT(v.Amount.Mul(x)) {
		ahead := v.Claimed.Sub(v.Amount.Mul(x).Quo(y))
		// exact tolerance of the half-even rounded ratio: amount / (2*10^18)
		two18 := p10(18).MulRaw(2)
		if two18.Mul(y).Mul(v.Claimed).GT(v.Amount.Mul(two18.Mul(x).Add(y))) {
			c.viol("C13/vesting_linear/ahead-beyond-rounding-tolerance", fmt.Sprintf("amount %s x/y=%s/%s claimed %s", v.Amount, x, y, v.Claimed))
		} else {
			c.viol("C13/vesting_linear/released-ahead-of-linear-schedule", fmt.Sprintf("amount %s, elapsed %s of %s ns: released %s = floor(linear) + %s", v.Amount, x, y, v.Claimed, ahead))
		}
	}
}

// execSweep: stateless Newton-contract check of TokensForExactInAmount for one parameter point
func (c *c13) execSweep(fl []string) (string, string) {
	l, _ := strconv.Atoi(fl[4])
	curve := irotypes.BondingCurve{M: c13Dec(fl[1]), N: c13Dec(fl[2]), C: c13Dec(fl[3]), RollappDenomDecimals: 18, LiquidityDenomDecimals: uint64(l)}
	sold, net := c13Int(fl[5]), c13Int(fl[6])
	if curve.ValidateBasic() != nil {
		return "bad-op", ""
	}
	out := "err"
	var orc []string
	func() {
		defer func() {
			if e := recover(); e != nil {
				out = "err" // LegacyDec overflow inside the Newton iteration: same class as a returned error
				c.r.Hit("xs/newton-panic")
			}
		}()
		if irotypes.ScaleFromBase(sold, 18).LT(math.LegacyOneDec()) || !net.IsPositive() {
			return
		}
		tok, x, ok := c.oracleT(curve, sold, net)
		orc = append(orc, tok)
		t, err := curve.TokensForExactInAmount(sold, net)
		if err != nil || !ok {
			return
		}
		_ = x
		orc = append(orc, c.oracleI(curve, sold), c.oracleI(curve, sold.Add(t)))
		cost := curve.Cost(sold, sold.Add(t))
		out = fmt.Sprintf("%s %s", t, cost)
		line := strings.Join(fl, " ")
		if cost.GT(net) {
			c.r.Hit("newton/overshoot")
			c.r.Violate("C13/exact_spend/cost-exceeds-spend", fmt.Sprintf("sweep L=%d M=%s N=%s C=%s sold %s: net spend %s buys %s tokens which cost %s", l, curve.M, curve.N, curve.C, sold, net, t, cost), line)
			c.r.Violate("C13/newton_contract/overshoot", fmt.Sprintf("sweep L=%d M=%s N=%s C=%s sold %s: tokens %s cost %s > net spend %s", l, curve.M, curve.N, curve.C, sold, t, cost, net), line)
		}
		tol := c13Tol(l, net).Add(c13SafeCost(curve, sold.Add(t), sold.Add(t).AddRaw(1)).AddRaw(1))
		if cost.LT(net.Sub(tol)) {
			c.r.Hit("newton/undershoot")
			c.r.Violate("C13/exact_spend/granted-tokens-worth-less-than-spend", fmt.Sprintf("sweep L=%d M=%s N=%s C=%s sold %s: net spend %s buys %s base tokens which cost only %s (tolerance %s)", l, curve.M, curve.N, curve.C, sold, net, t, cost, tol), line)
		}
	}()
	suffix := ""
	if len(orc) > 0 {
		suffix = "| " + strings.Join(orc, " ")
	}
	c.r.Hit("xs/" + strings.Fields(out)[0][:1])
	return out, suffix
}

func (c *c13) endTrace() {
	if len(c.kinds) == 0 {
		return
	}
	h := fnv.New64a()
	h.Write([]byte(strings.Join(c.kinds, " ")))
	c.r.Class(fmt.Sprintf("%x", h.Sum64()), c.nontrivial)
	c.r.Trace()
	c.kinds = nil
}

func (c *c13) do(line string) string {
	if strings.HasPrefix(line, "reset") {
		c.endTrace()
	}
	obs, suffix := c.exec(line)
	main := line
	if i := strings.Index(line, "|"); i >= 0 {
		main = strings.TrimSpace(line[:i])
	}
	if suffix != "" {
		main += " " + suffix
	}
	c.r.Emit(main, obs)
	return obs
}

func TestC13(t *testing.T) {
	r := NewRun(t, "C13")
	defer r.Close()
	c := &c13{r: r, streakActor: -1}
	if rl := ReplayLines(); rl != nil {
		for _, l := range rl {
			c.do(l)
		}
		c.endTrace()
		return
	}
	c13Corpus(c)
	c13Generate(c)
	c.endTrace()
}

// c13Corpus: fixed witness traces (the Lean counter-examples of Props/C13.lean, same numbers), run
// first in every run so that each known finding is re-derived on the real code whatever the seed.
func c13Corpus(c *c13) {
	for _, tr := range [][]string{
		// F5 (repaired) — exact spend with 6-decimals liquidity (fixed price 1): regression witness
		{"reset 20000000000000000 1000000000000000000 400000000000000000 0 0 0 3 1000000000000000000000 6",
			"fund 0 1000000000000", "fund 1 1000000000000",
			"create 1000000000000000000000 0 1000000000000000000 1000000000000000000 6 1 0 3600 500000000000000000 3 0",
			"bes 1 1020000 1"},
		// Newton tolerance — price 1000, 18 decimals: a dust spend returns the unconverged first guess
		{"reset 20000000000000000 1000000000000000000 400000000000000000 0 0 0 3 1000000000000000000000000 18",
			"fund 0 2000000000000000000000", "fund 1 1000000000000000000000",
			"create 1000000000000000000000000 0 1000000000000000000 1000000000000000000000 18 1 0 3600 500000000000000000 3 0",
			"bes 1 1000 1", "sell 1 980 1"},
		// F16 (repaired) — vesting total 3·10^18 over 3 ns, claim after 2 ns: regression witness
		{"reset 20000000000000000 1000000000000000000 400000000000000000 0 0 0 3 1000000000000000000000 18",
			"fund 0 1000000000000000000000", "fund 1 1000000000000000000000",
			"create 1000000000000000000000 0 1000000000000000000 1000000000000000000 18 1 0 3600 500000000000000000 3 0",
			"buy 1 5000000000000000000 1000000000000000000000", "settle 1000000000000000000000", "time 2", "claimv 0"},
		// creation fee (6 tokens) above the sellable maximum (5 tokens): must be rejected (repaired)
		{"reset 20000000000000000 6000000000000000000 400000000000000000 0 0 0 3 10000000000000000001 18",
			"fund 0 1000000000000000000000",
			"create 10000000000000000001 0 1000000000000000000 1000000000000000000 18 1 0 3600 1000000000000000000 3 0"},
	} {
		for _, l := range tr {
			c.do(l)
		}
		c.r.Hit("corpus/witness-trace")
	}
	c13ManyPlans(c)
	c13OwnerChange(c, "0")
	c13OwnerChange(c, "1")
}

// c13OwnerChange: the directed ownership trace.  The rollapp is handed over (real MsgTransferOwnership)
// before the plan's start — the former owner is gated like any trader, the new one trades — and again
// after settlement, between two vesting claims: each time only the CURRENT owner can claim, the total
// released to both owners stays within the vesting amount.  feeBase "1": the taker fee's beneficiary
// (half of the fee in the base denom) follows the owner too.
func c13OwnerChange(c *c13, feeBase string) {
	const alloc = "1000000000000000000000"
	c.do("reset 20000000000000000 1000000000000000000 400000000000000000 0 0 " + feeBase + " 3 " + alloc + " 18")
	c.do("fund 0 " + alloc)
	c.do("fund 1 " + alloc)
	c.do("fund 2 " + alloc)
	c.do("create " + alloc + " 0 1000000000000000000 1000000000000000000 18 1 3600000000000 3600 500000000000000000 3 0")
	c.do("chown 1 2") // not the owner
	c.do("chown 0 0") // to himself
	c.do("chown 0 2")
	c.do("buy 0 1000000000000000000 " + alloc) // former owner: not started
	c.do("buy 2 2000000000000000000 " + alloc) // new owner: before the start
	c.do("enable 0")
	c.do("time 3600000000000")
	c.do("buy 1 3000000000000000000 " + alloc) // fee beneficiary is a2
	c.do("bes 0 1000000000000000000 1")
	c.do("sell 1 1000000000000000000 1")
	c.do("settle " + alloc)
	c.do("time 1")
	c.do("claimv 0")
	c.do("claimv 2")
	c.do("chown 0 1")
	c.do("chown 2 1")
	c.do("time 1")
	c.do("claimv 2")
	c.do("claimv 1")
	c.do("time 5")
	c.do("claimv 1")
	c.do("claimv 1")
	c.do("claim 1")
	c.do("claim 2")
	c.r.Hit("corpus/owner-change")
}

// c13ManyPlans: the directed restart trace.  Twelve rollapps with a plan each (so at least eleven plans
// exist whatever the application held before: the plan section is walked 1,10,11,…,2,…,9 and the LAST
// exported plan is not the one with the largest id), a holder on every plan; restart; a thirteenth plan
// is created (it must get a fresh id); then every old plan is settled and its holder claims 1:1.
func c13ManyPlans(c *c13) {
	const alloc = "1000000000000000000000"
	create := "create " + alloc + " 0 1000000000000000000 1000000000000000000 18 1 0 3600 500000000000000000 3 0"
	c.do("reset 20000000000000000 1000000000000000000 400000000000000000 0 0 0 3 " + alloc + " 18")
	for k := 0; k < 12; k++ {
		if k > 0 {
			c.do("newra")
		}
		c.do("fund 0 " + alloc)
		c.do("fund 1 " + alloc)
		c.do(create)
		c.do(fmt.Sprintf("buy 1 %d000000000000000000 %s", 5+k, alloc))
	}
	c.do("restart")
	c.do("newra")
	c.do("fund 0 " + alloc)
	c.do(create)
	c.do("fund 1 " + alloc)
	c.do("buy 1 7000000000000000000 " + alloc)
	for k := 0; k < 12; k++ {
		c.do(fmt.Sprintf("sel %d", k))
		if k%2 == 0 {
			c.do("sell 1 1000000000000000000 1")
		}
		c.do("settle " + alloc)
		c.do("claim 1")
		c.do("claim 1")
		c.do("time 1")
		c.do("claimv 0")
	}
	c.do("restart")
	c.do("sel 12")
	c.do("settle " + alloc)
	c.do("claim 1")
	c.r.Hit("corpus/many-plans-restart")
}
