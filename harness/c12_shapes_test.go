package harness

// C12, correspondence of the loop SHAPES (lean/DymVerif/Model/Determinism.lean): every `shape …` op
// line names a class of map-consuming loop, the entries of the map and ONE enumeration order of
// them (`enum=`, a permutation drawn from the run's seed).  The implementation side runs the real
// production function of that class on a real Go map with those entries — in whatever order the Go
// runtime enumerates it — and the Lean driver evaluates the shape on the order given on the line;
// the two observations must agree.
//
//	shape sort     enum=k:0,…                       dymns/utils.GetSortedStringKeys
//	shape distinct list=a,b,a,… enum=a:a,…          dymns/types.ReverseResolvedDymNameAddresses.Distinct
//	shape distr    old=g:w,… upd=g:w,… enum=g:w,…   streamer HandleUpdateStreamDistributionProposal -> Keeper.UpdateDistrRecords
//	shape member   enum=i:0,… excl=i,j,k probe=i    app.ModuleAccountAddrs
//	shape shuffle  rng=S perm=… enum=id:0,…         math/rand seeded like eibc Keeper.FulfillByOnDemandLP (the real
//	                                                message runs in TestPackets' `ondemand` ops, replayed by the replicas)
//	shape fold     enum=k:v,…                       no production site of this class at the pinned tree: the loop is the harness' own

import (
	"fmt"
	"sort"
	"strconv"
	"strings"

	sdk "github.com/cosmos/cosmos-sdk/types"
	authtypes "github.com/cosmos/cosmos-sdk/x/auth/types"

	"github.com/dymensionxyz/dymension/v3/app"
	dymnstypes "github.com/dymensionxyz/dymension/v3/x/dymns/types"
	dymnsutils "github.com/dymensionxyz/dymension/v3/x/dymns/utils"
	irotypes "github.com/dymensionxyz/dymension/v3/x/iro/types"
	"github.com/dymensionxyz/dymension/v3/x/streamer"
	streamertypes "github.com/dymensionxyz/dymension/v3/x/streamer/types"
	txfeestypes "github.com/osmosis-labs/osmosis/v15/x/txfees/types"
)

const c12NGauges = 6

type c12Shapes struct {
	r        *Run
	w        *c15World // lazily: the chain `distr` and `member` run on
	universe []string  // member: module names and two non-modules, sorted
	perms    []int     // member: indices (into universe) of the keys of maccPerms
	excl     []int     // member: indices of the three names ModuleAccountAddrs overwrites with false
}

func c12KV(f []string, k string) string {
	for _, t := range f {
		if strings.HasPrefix(t, k+"=") {
			return t[len(k)+1:]
		}
	}
	return "-"
}

func c12Enum(tok string) [][2]uint64 {
	var out [][2]uint64
	if tok == "-" || tok == "" {
		return out
	}
	for _, p := range strings.Split(tok, ",") {
		kv := strings.Split(p, ":")
		k, _ := strconv.ParseUint(kv[0], 10, 64)
		v := uint64(0)
		if len(kv) > 1 {
			v, _ = strconv.ParseUint(kv[1], 10, 64)
		}
		out = append(out, [2]uint64{k, v})
	}
	return out
}

func c12ShowEnum(e [][2]uint64) string {
	if len(e) == 0 {
		return "-"
	}
	var xs []string
	for _, p := range e {
		xs = append(xs, fmt.Sprintf("%d:%d", p[0], p[1]))
	}
	return strings.Join(xs, ",")
}

func c12ShowU(xs []uint64) string {
	if len(xs) == 0 {
		return "-"
	}
	var s []string
	for _, x := range xs {
		s = append(s, strconv.FormatUint(x, 10))
	}
	return strings.Join(s, ",")
}

func (s *c12Shapes) world() *c15World {
	if s.w != nil {
		return s.w
	}
	w := c15NewWorld(s.r.T, 1000)
	must := func(line string) {
		if cl, err := w.apply(strings.Fields(line), false); cl != "ok" {
			s.r.T.Fatalf("c12 shapes setup: %q: %s %v", line, cl, err)
		}
	}
	for i := 0; i < c12NGauges; i++ {
		must(fmt.Sprintf("rollapp %d %d 1", i, i%c15NA))
		must(fmt.Sprintf("rgauge %d", i))
	}
	must("fund 100 1000000,0")
	must(fmt.Sprintf("mkstream 1000000,0 1:1 %d 1 4", c15Time(w.f)+100000))
	s.w = w
	lastFix = nil // the shapes run in the meta-harness process itself: nothing to digest
	// member: the universe of names
	perms := w.f.App.AccountKeeper.GetModulePermissions()
	set := map[string]bool{"not-a-module-1": true, "zz-not-a-module-2": true}
	for n := range perms {
		set[n] = true
	}
	for n := range set {
		s.universe = append(s.universe, n)
	}
	sort.Strings(s.universe)
	for i, n := range s.universe {
		if _, ok := perms[n]; ok {
			s.perms = append(s.perms, i)
		}
		if n == streamertypes.ModuleName || n == txfeestypes.ModuleName || n == irotypes.ModuleName {
			s.excl = append(s.excl, i)
		}
	}
	return w
}

// exec runs one `shape …` line on the production code
func (s *c12Shapes) exec(line string) (obs string) {
	f := strings.Fields(line)
	if len(f) < 2 || f[0] != "shape" {
		return "bad-op"
	}
	defer func() {
		if e := recover(); e != nil {
			obs = "panic"
		}
	}()
	enum := c12Enum(c12KV(f, "enum"))
	switch f[1] {
	case "sort":
		m := map[string]uint64{}
		for _, e := range enum {
			m[fmt.Sprintf("%08d", e[0])] = e[1]
		}
		var out []uint64
		for _, k := range dymnsutils.GetSortedStringKeys(m) {
			x, _ := strconv.ParseUint(k, 10, 64)
			out = append(out, x)
		}
		return c12ShowU(out)
	case "distinct":
		var in dymnstypes.ReverseResolvedDymNameAddresses
		for _, e := range c12Enum(c12KV(f, "list")) {
			// decimal names without leading zeros: (length, bytes) order of "<n>@c" is the numeric order
			in = append(in, dymnstypes.ReverseResolvedDymNameAddress{Name: strconv.FormatUint(e[0], 10), ChainIdOrAlias: "c"})
		}
		var out []uint64
		for _, a := range in.Distinct() {
			x, _ := strconv.ParseUint(a.Name, 10, 64)
			out = append(out, x)
		}
		return c12ShowU(out)
	case "distr":
		w := s.world()
		if cl, _ := w.apply([]string{"replace", "1", c12KV(f, "old")}, false); cl != "ok" {
			return "setup-" + cl
		}
		p := &streamertypes.UpdateStreamDistributionProposal{Title: "t", Description: "d", StreamId: 1, Records: c15Recs(c12KV(f, "upd"))}
		if err := p.ValidateBasic(); err != nil {
			return "invalid"
		}
		err := w.f.Try(func(ctx sdk.Context) error {
			return streamer.HandleUpdateStreamDistributionProposal(ctx, w.f.App.StreamerKeeper, p)
		})
		if err != nil {
			return c15Class(err)
		}
		st, err := w.f.App.StreamerKeeper.GetStreamByID(w.f.Ctx, 1)
		if err != nil {
			return "gone"
		}
		var out [][2]uint64
		for _, r := range st.DistributeTo.Records {
			out = append(out, [2]uint64{r.GaugeId, r.Weight.Uint64()})
		}
		return c12ShowEnum(out)
	case "member":
		s.world()
		i, _ := strconv.Atoi(c12KV(f, "probe"))
		if i < 0 || i >= len(s.universe) {
			return "bad-op"
		}
		v, ok := app.ModuleAccountAddrs()[authtypes.NewModuleAddress(s.universe[i]).String()]
		switch {
		case !ok:
			return "absent"
		case v:
			return "true"
		}
		return "false"
	case "shuffle":
		ids := make([]uint64, 0, len(enum))
		for _, e := range enum {
			ids = append(ids, e[0])
		}
		sort.Slice(ids, func(i, j int) bool { return ids[i] < ids[j] }) // the store iterates the LPs by id
		rng, _ := strconv.ParseInt(c12KV(f, "rng"), 10, 64)
		var out []uint64
		for _, i := range shufflePerm(rng, len(ids)) {
			out = append(out, ids[i])
		}
		return c12ShowU(out)
	case "fold":
		m := map[uint64]uint64{}
		for _, e := range enum {
			m[e[0]] = e[1]
		}
		t := uint64(0)
		for _, v := range m {
			t += v
		}
		return strconv.FormatUint(t, 10)
	}
	return "bad-op"
}

// shuffled: the entries in an order drawn from the run's seed (the `enum=` of the line)
func (s *c12Shapes) shuffled(e [][2]uint64) [][2]uint64 {
	out := append([][2]uint64(nil), e...)
	for i := len(out) - 1; i > 0; i-- {
		j := s.r.Rng.Intn(i + 1)
		out[i], out[j] = out[j], out[i]
	}
	return out
}

// distinctKeys draws n distinct keys below max
func (s *c12Shapes) distinctKeys(n, max int) []uint64 {
	seen := map[uint64]bool{}
	var out []uint64
	for len(out) < n {
		k := uint64(s.r.Rng.Intn(max))
		if !seen[k] {
			seen[k] = true
			out = append(out, k)
		}
	}
	return out
}

// gen produces the next `shape` line of the given class
func (s *c12Shapes) gen(class string) string {
	g := s.r.Rng
	switch class {
	case "sort", "fold":
		var e [][2]uint64
		pool := []int{12, 1000, 100000}[g.Intn(3)]
		for _, k := range s.distinctKeys(g.Intn(9), pool) {
			v := uint64(0)
			if class == "fold" {
				v = uint64(g.Intn(1000))
			}
			e = append(e, [2]uint64{k, v})
		}
		return fmt.Sprintf("shape %s enum=%s", class, c12ShowEnum(s.shuffled(e)))
	case "distinct":
		var list []uint64
		pool := []int{6, 15, 2000}[g.Intn(3)] // small pools: duplicates; 9 < 10 < 100: lengths differ
		for i, n := 0, g.Intn(10); i < n; i++ {
			list = append(list, uint64(1+g.Intn(pool)))
		}
		seen := map[uint64]bool{}
		var e, l [][2]uint64
		for _, a := range list {
			l = append(l, [2]uint64{a, 0})
			if !seen[a] {
				seen[a] = true
				e = append(e, [2]uint64{a, a})
			}
		}
		ls := strings.ReplaceAll(c12ShowEnum(l), ":0", "")
		return fmt.Sprintf("shape distinct list=%s enum=%s", ls, c12ShowEnum(s.shuffled(e)))
	case "distr":
		// old: 1..5 ascending records with positive weight; upd: ascending, zero weights (deletions),
		// overwrites and new gauges; at least 3 entries in the merged map most of the time
		rec := func(n int, zero int) [][2]uint64 {
			ks := s.distinctKeys(n, c12NGauges)
			sort.Slice(ks, func(i, j int) bool { return ks[i] < ks[j] })
			var e [][2]uint64
			for _, k := range ks {
				w := uint64(1 + g.Intn(50))
				if g.Chance(zero) {
					w = 0
				}
				e = append(e, [2]uint64{k + 1, w})
			}
			return e
		}
		old := rec(1+g.Intn(5), 0)
		upd := rec(1+g.Intn(5), 35)
		merged := append([][2]uint64(nil), old...)
		for _, u := range upd {
			found := false
			for i := range merged {
				if merged[i][0] == u[0] {
					merged[i], found = u, true
				}
			}
			if !found {
				merged = append(merged, u)
			}
		}
		if len(merged) >= 3 {
			s.r.Hit("shape/distr/three-or-more-records-in-the-map")
		}
		return fmt.Sprintf("shape distr old=%s upd=%s enum=%s", c12ShowEnum(old), c12ShowEnum(upd), c12ShowEnum(s.shuffled(merged)))
	case "member":
		s.world()
		var e [][2]uint64
		for _, i := range s.perms {
			e = append(e, [2]uint64{uint64(i), 0})
		}
		var ex []uint64
		for _, i := range s.excl {
			ex = append(ex, uint64(i))
		}
		return fmt.Sprintf("shape member enum=%s excl=%s probe=%d", c12ShowEnum(s.shuffled(e)), c12ShowU(ex), g.Intn(len(s.universe)))
	case "shuffle":
		var e [][2]uint64
		for _, k := range s.distinctKeys(g.Intn(7), 40) {
			e = append(e, [2]uint64{k, 0})
		}
		rng := int64(g.Intn(100000))
		var ps []uint64
		for _, i := range shufflePerm(rng, len(e)) {
			ps = append(ps, uint64(i))
		}
		return fmt.Sprintf("shape shuffle rng=%d perm=%s enum=%s", rng, c12ShowU(ps), c12ShowEnum(s.shuffled(e)))
	}
	return "shape none"
}

// c12RunShapes: the shape part of a generation run of TestC12
func c12RunShapes(r *Run) {
	s := &c12Shapes{r: r}
	n := r.N(60, 600)
	classes := []string{"sort", "distinct", "distr", "distr", "member", "shuffle", "fold"}
	for i := 0; i < n; i++ {
		cl := classes[i%len(classes)]
		line := s.gen(cl)
		obs := s.exec(line)
		r.Emit(line, obs)
		r.Hit("shape/" + cl)
		r.Class(line, obs != "err" && obs != "-" && obs != "absent")
		if obs == "panic" || strings.HasPrefix(obs, "setup-") || obs == "bad-op" {
			r.Violate("C12/shape/"+cl+"/production-function-failed", line+" => "+obs, line)
		}
		r.Trace()
	}
}
