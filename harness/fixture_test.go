package harness

import (
	"testing"
	"time"
)

// smoke test of the fixture: a few empty blocks must run through the real Begin/EndBlockers
func TestFixtureSmoke(t *testing.T) {
	f := NewFix(t)
	d0 := f.StoreDigest("rollapp", "sequencer")
	for i := 0; i < 5; i++ {
		if err := f.Begin(6 * time.Second); err != nil {
			t.Fatalf("begin: %v", err)
		}
		if err := f.End(); err != nil {
			t.Fatalf("end: %v", err)
		}
	}
	if d0 != f.StoreDigest("rollapp", "sequencer") {
		t.Fatalf("empty blocks changed rollapp/sequencer stores")
	}
}
