package app

import "os"

func Home() string { return os.Getenv("HOME") }
