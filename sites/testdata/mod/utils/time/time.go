package time

import stdtime "time"

func Now() stdtime.Time { return stdtime.Now().UTC() }
