module example.com/mod

go 1.23
