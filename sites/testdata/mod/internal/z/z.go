package z
