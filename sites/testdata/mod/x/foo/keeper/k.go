package keeper

import (
	"fmt"
	"maps"
	"math"
	"math/rand"
	"reflect"
	"slices"
	"sort"
	"sync"
	"time"

	tmtime "example.com/mod/utils/time"
	captypes "example.com/mod/x/capability/types"
)

type MsgDo struct{ Rng int64 }

func (*MsgDo) ProtoMessage() {}

type Keeper struct{}

// two map ranges in one function: the second one is unsorted
func (k Keeper) Two(m map[string]int) ([]string, []int) {
	var ks []string
	for a := range m {
		ks = append(ks, a)
	}
	sort.Strings(ks)
	var vs []int
	for _, v := range m {
		vs = append(vs, v)
	}
	return ks, vs
}

func (k Keeper) Acc(m map[string]int) int {
	t := 0
	for _, v := range m {
		t += v
	}
	return t
}

func (k Keeper) Filt(m map[uint64]int) []int {
	out := []int{}
	for _, v := range m {
		if v != 0 {
			out = append(out, v)
		}
	}
	sort.SliceStable(out, func(i, j int) bool { return out[i] < out[j] })
	return out
}

func (k Keeper) Keys(m map[string]int) []string { return slices.Collect(maps.Keys(m)) }

func (k Keeper) Refl(m any) int {
	n := len(reflect.ValueOf(m).MapKeys())
	it := reflect.ValueOf(m).MapRange()
	_ = it
	return n
}

func (k Keeper) Sync(m *sync.Map) { m.Range(func(a, b any) bool { return true }) }

func (k Keeper) Clock() (time.Time, time.Duration) {
	t := tmtime.Now()
	return t, time.Since(t)
}

func (k Keeper) Float(a, b float64, n int) float64 {
	const c = 1.5 * 2.0
	x := a*b + c
	x += math.Sqrt(a)
	return x / float64(n)
}

func (k Keeper) Ptr(c *captypes.Capability) error {
	_ = fmt.Sprintf("at %p", c)
	_ = fmt.Sprintf("100%% plain %d", 1)
	return fmt.Errorf("failed: %s", c)
}

func (k Keeper) shuffle(n int, seed int64) []int {
	r := rand.New(rand.NewSource(seed))
	return r.Perm(n)
}

func (k Keeper) Handle(msg *MsgDo) []int { return k.shuffle(3, msg.Rng) }

func (k Keeper) BadSeed() int {
	r := rand.New(rand.NewSource(time.Now().UnixNano()))
	return r.Intn(10) + rand.Intn(10)
}

func (k Keeper) Conc(ch chan int) {
	go func() {}()
	select {
	case <-ch:
	default:
	}
}
