package types

import "fmt"

type Capability struct{ Index uint64 }

func (c *Capability) String() string { return fmt.Sprintf("Capability{%p, %d}", c, c.Index) }
