package main

// self-test of the extractor on a small module (testdata/mod) that contains one positive sample of
// every site kind, a second (unsorted) map range inside a function whose first one is sorted, a
// PRNG seeded from a message field through a parameter, and one seeded from the wall clock.
//   cd sites && go test .

import (
	"fmt"
	"strings"
	"testing"
)

func TestExtractorSelfTest(t *testing.T) {
	sites, _, err := extract("testdata/mod")
	if err != nil {
		t.Fatal(err)
	}
	var got []string
	for _, s := range sites {
		got = append(got, fmt.Sprintf("%s %s %s %q %d", s.Kind, s.File, s.Func, s.Class, s.Ord))
	}
	want := []string{
		`getenv app/app.go Home "Getenv" 0`,
		`wallclock utils/time/time.go Now "time.Now" 0`,
		`fmtptr x/capability/types/cap.go Capability.String "%p" 0`,
		`fmtptr x/capability/types/cap.go Capability.String "capability" 1`,
		`maprange x/foo/keeper/k.go Keeper.Two "collectKeys+sorted" 0`,
		`maprange x/foo/keeper/k.go Keeper.Two "collectValues" 1`,
		`maprange x/foo/keeper/k.go Keeper.Acc "accumulate" 0`,
		`maprange x/foo/keeper/k.go Keeper.Filt "collectFiltered+sorted" 0`,
		`mapkeys x/foo/keeper/k.go Keeper.Keys "maps.Keys" 0`,
		`reflectmap x/foo/keeper/k.go Keeper.Refl "MapKeys" 0`,
		`reflectmap x/foo/keeper/k.go Keeper.Refl "MapRange" 1`,
		`syncmap x/foo/keeper/k.go Keeper.Sync "Range" 0`,
		`wallclock x/foo/keeper/k.go Keeper.Clock "example.com/mod/utils/time.Now" 0`,
		`wallclock x/foo/keeper/k.go Keeper.Clock "time.Since" 1`,
		`float x/foo/keeper/k.go Keeper.Float "*" 0`,
		`float x/foo/keeper/k.go Keeper.Float "+" 1`,
		`float x/foo/keeper/k.go Keeper.Float "+=" 2`,
		`float x/foo/keeper/k.go Keeper.Float "math.Sqrt" 3`,
		`float x/foo/keeper/k.go Keeper.Float "/" 4`,
		`fmtptr x/foo/keeper/k.go Keeper.Ptr "%p" 0`,
		`fmtptr x/foo/keeper/k.go Keeper.Ptr "capability" 1`,
		`fmtptr x/foo/keeper/k.go Keeper.Ptr "capability" 2`,
		`rand x/foo/keeper/k.go Keeper.shuffle "math/rand.New" 0`,
		`rand x/foo/keeper/k.go Keeper.shuffle "math/rand.NewSource seed=param<-msgField" 1`,
		`rand x/foo/keeper/k.go Keeper.BadSeed "math/rand.New" 0`,
		`rand x/foo/keeper/k.go Keeper.BadSeed "math/rand.NewSource seed=time" 1`,
		`wallclock x/foo/keeper/k.go Keeper.BadSeed "time.Now" 0`,
		`rand x/foo/keeper/k.go Keeper.BadSeed "math/rand.Intn" 2`,
		`go x/foo/keeper/k.go Keeper.Conc "-" 0`,
		`select x/foo/keeper/k.go Keeper.Conc "-" 0`,
	}
	if strings.Join(got, "\n") != strings.Join(want, "\n") {
		t.Fatalf("site table differs:\n%s", strings.Join(got, "\n"))
	}
}
