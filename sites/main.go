// sites — type-aware extraction of the runtime-nondeterminism sites of the hub's production packages
// (C12).  One row per SITE (not per function):
//
//	maprange    `range` over a map-typed expression          cls = syntactic class of the loop (see classify)
//	mapkeys     maps.Keys / Values / All / ... (std, x/exp)  cls = <pkg>.<fn>[+sorted]
//	reflectmap  reflect.Value.MapKeys / MapRange             cls = method
//	syncmap     (*sync.Map).Range                            cls = method
//	wallclock   time.Now/Since/Until, <…/time>.Now           cls = <pkg path>.<fn>
//	rand        math/rand, math/rand/v2, crypto/rand use     cls = <pkg>.<fn>; for NewSource: +" seed=<origin>"
//	go, select  goroutines / select                          cls = -
//	float       non-constant float32/float64 arithmetic      cls = operator or math.<fn>
//	getenv      os.Getenv / LookupEnv / Environ / ExpandEnv  cls = fn
//	fmtptr      `%p` in a constant format string, or a *capability.Capability handed to a
//	            formatting call (its String() prints the heap address)   cls = "%p" | "capability"
//
// Every row carries the enclosing function and `ord`, the 0-based ordinal of the site among the
// sites of the same (file, function, kind) in source order: the allow-list of Props/C12.lean names
// (kind, file, fn, cls, ord), so a second site added to an allow-listed function is a new row
// that no entry covers.
// Output: a Lean file with the site table (`Gen/MapSites.lean`).
package main

import (
	"fmt"
	"go/ast"
	"go/constant"
	"go/token"
	"go/types"
	"os"
	"path/filepath"
	"sort"
	"strings"

	"golang.org/x/tools/go/packages"
)

type site struct {
	Kind, File, Func, Class string
	Line, Col, Ord          int
}

// a call argument bound to a parameter of a function (for the origin of a PRNG seed)
type callArg struct {
	info *types.Info
	expr ast.Expr
	encl *ast.FuncDecl
}

func excluded(rel string) bool {
	return strings.HasSuffix(rel, "_test.go") || strings.HasSuffix(rel, ".pb.go") || strings.HasSuffix(rel, ".pb.gw.go") ||
		strings.Contains(rel, "/simulation/") || strings.Contains(rel, "/client/cli/") || strings.Contains(rel, "apptesting") || strings.Contains(rel, "testutil")
}

func main() {
	repo, out := os.Args[1], os.Args[2]
	sites, npkgs, err := extract(repo)
	if err != nil {
		fmt.Fprintln(os.Stderr, "sites:", err)
		os.Exit(1)
	}
	if err := os.WriteFile(out, []byte(render(sites)), 0o644); err != nil {
		panic(err)
	}
	fmt.Printf("sites: %d sites in %d packages\n", len(sites), npkgs)
}

func extract(repo string) ([]site, int, error) {
	repo, _ = filepath.Abs(repo)
	cfg := &packages.Config{Mode: packages.NeedName | packages.NeedFiles | packages.NeedSyntax | packages.NeedTypes | packages.NeedTypesInfo | packages.NeedImports,
		Dir: repo, Env: append(os.Environ(), "GOFLAGS=-mod=mod", "GOPROXY=off", "GOSUMDB=off")}
	pkgs, err := packages.Load(cfg, "./x/...", "./app/...", "./utils/...", "./internal/...")
	if err != nil {
		return nil, 0, fmt.Errorf("load: %v", err)
	}
	nerr := 0
	for _, p := range pkgs {
		for _, e := range p.Errors {
			nerr++
			if nerr < 5 {
				fmt.Fprintln(os.Stderr, "pkg error:", e)
			}
		}
	}
	if nerr > 0 {
		return nil, 0, fmt.Errorf("%d package errors", nerr)
	}
	// pass 1: every call of a function declared in the loaded packages, per callee and parameter index
	// (non-test, non-excluded callers only)
	callers := map[*types.Func][][]callArg{}
	for _, p := range pkgs {
		for _, f := range p.Syntax {
			rel, _ := filepath.Rel(repo, p.Fset.Position(f.Pos()).Filename)
			if excluded(rel) {
				continue
			}
			for _, d := range f.Decls {
				fd, ok := d.(*ast.FuncDecl)
				if !ok || fd.Body == nil {
					continue
				}
				ast.Inspect(fd.Body, func(n ast.Node) bool {
					c, ok := n.(*ast.CallExpr)
					if !ok {
						return true
					}
					if fn := calleeOf(c, p.TypesInfo); fn != nil {
						args := make([]callArg, len(c.Args))
						for i, a := range c.Args {
							args[i] = callArg{p.TypesInfo, a, fd}
						}
						callers[fn] = append(callers[fn], args)
					}
					return true
				})
			}
		}
	}
	// pass 2: the sites
	var sites []site
	for _, p := range pkgs {
		info := p.TypesInfo
		for _, f := range p.Syntax {
			rel, _ := filepath.Rel(repo, p.Fset.Position(f.Pos()).Filename)
			if excluded(rel) {
				continue
			}
			var stack []ast.Node
			add := func(kind, cls string, pos token.Pos) {
				ps := p.Fset.Position(pos)
				sites = append(sites, site{Kind: kind, File: rel, Func: enclName(stack), Class: cls, Line: ps.Line, Col: ps.Column})
			}
			ast.Inspect(f, func(n ast.Node) bool {
				if n == nil {
					stack = stack[:len(stack)-1]
					return true
				}
				stack = append(stack, n)
				switch x := n.(type) {
				case *ast.RangeStmt:
					if t := info.TypeOf(x.X); t != nil {
						if _, ok := t.Underlying().(*types.Map); ok {
							add("maprange", classify(x, info, stack), x.Pos())
						}
					}
				case *ast.GoStmt:
					add("go", "-", x.Pos())
				case *ast.SelectStmt:
					add("select", "-", x.Pos())
				case *ast.BinaryExpr:
					switch x.Op {
					case token.ADD, token.SUB, token.MUL, token.QUO:
						if isFloat(info.TypeOf(x)) && !isConst(info, x) {
							add("float", x.Op.String(), x.Pos())
						}
					}
				case *ast.AssignStmt:
					switch x.Tok {
					case token.ADD_ASSIGN, token.SUB_ASSIGN, token.MUL_ASSIGN, token.QUO_ASSIGN:
						if len(x.Lhs) == 1 && isFloat(info.TypeOf(x.Lhs[0])) {
							add("float", x.Tok.String(), x.Pos())
						}
					}
				case *ast.CallExpr:
					callSites(x, info, add)
				case *ast.SelectorExpr:
					if id, ok := x.X.(*ast.Ident); ok {
						if pn, ok := info.Uses[id].(*types.PkgName); ok {
							path := pn.Imported().Path()
							if (path == "time" && (x.Sel.Name == "Now" || x.Sel.Name == "Since" || x.Sel.Name == "Until")) ||
								(strings.HasSuffix(path, "/time") && x.Sel.Name == "Now") {
								add("wallclock", path+"."+x.Sel.Name, x.Pos())
							}
							if path == "math/rand" || path == "crypto/rand" || path == "math/rand/v2" {
								cls := path + "." + x.Sel.Name
								if x.Sel.Name == "NewSource" || x.Sel.Name == "NewPCG" || x.Sel.Name == "NewChaCha8" || x.Sel.Name == "Seed" {
									if len(stack) >= 2 {
										if c, ok := stack[len(stack)-2].(*ast.CallExpr); ok && c.Fun == ast.Expr(x) && len(c.Args) >= 1 {
											cls += " seed=" + seedOrigin(c.Args[0], info, enclDecl(stack), callers, 0)
										}
									}
								}
								add("rand", cls, x.Pos())
							}
							if path == "os" && (x.Sel.Name == "Getenv" || x.Sel.Name == "LookupEnv" || x.Sel.Name == "Environ" || x.Sel.Name == "ExpandEnv") {
								add("getenv", x.Sel.Name, x.Pos())
							}
						}
					}
				}
				return true
			})
		}
	}
	sort.Slice(sites, func(i, j int) bool {
		a, b := sites[i], sites[j]
		if a.File != b.File {
			return a.File < b.File
		}
		if a.Line != b.Line {
			return a.Line < b.Line
		}
		if a.Col != b.Col {
			return a.Col < b.Col
		}
		return a.Kind < b.Kind
	})
	ords := map[string]int{}
	for i := range sites {
		k := sites[i].File + "\x00" + sites[i].Func + "\x00" + sites[i].Kind
		sites[i].Ord = ords[k]
		ords[k]++
	}
	return sites, len(pkgs), nil
}

func render(sites []site) string {
	var b strings.Builder
	b.WriteString("-- GENERATED by /verif/sites (go/packages + go/types) from /repo's working tree. Do not edit.\n")
	b.WriteString("import DymVerif.Model.Determinism\nnamespace DymVerif.Gen.MapSites\nopen DymVerif.Det\n\n")
	b.WriteString("def sites : List Site := [\n")
	for i, s := range sites {
		sep := ","
		if i == len(sites)-1 {
			sep = ""
		}
		fmt.Fprintf(&b, "  { kind := .%s, file := %q, fn := %q, cls := %q, ord := %d }%s -- line %d\n", s.Kind, s.File, s.Func, s.Class, s.Ord, sep, s.Line)
	}
	b.WriteString("]\n\nend DymVerif.Gen.MapSites\n")
	return b.String()
}

// callSites: the site kinds that are calls
func callSites(c *ast.CallExpr, info *types.Info, add func(kind, cls string, pos token.Pos)) {
	if sel, ok := c.Fun.(*ast.SelectorExpr); ok {
		if id, ok := sel.X.(*ast.Ident); ok {
			if pn, ok := info.Uses[id].(*types.PkgName); ok {
				path := pn.Imported().Path()
				if path == "maps" || strings.HasSuffix(path, "/maps") {
					switch sel.Sel.Name {
					case "Keys", "Values", "All", "Collect", "Insert":
						if len(c.Args) >= 1 {
							if t := info.TypeOf(c.Args[0]); t != nil {
								if _, ok := t.Underlying().(*types.Map); !ok && sel.Sel.Name != "Keys" && sel.Sel.Name != "Values" && sel.Sel.Name != "All" {
									return // maps.Collect / Insert over a non-map sequence
								}
							}
						}
						add("mapkeys", path+"."+sel.Sel.Name, c.Pos())
					}
				}
				if path == "math" && isFloat(info.TypeOf(c)) && !isConst(info, c) {
					add("float", "math."+sel.Sel.Name, c.Pos())
				}
			}
		}
		// methods
		if s, ok := info.Selections[sel]; ok && s.Kind() == types.MethodVal {
			recv := types.TypeString(deref(s.Recv()), nil)
			switch {
			case recv == "reflect.Value" && (sel.Sel.Name == "MapKeys" || sel.Sel.Name == "MapRange"):
				add("reflectmap", sel.Sel.Name, c.Pos())
			case recv == "sync.Map" && sel.Sel.Name == "Range":
				add("syncmap", "Range", c.Pos())
			}
		}
	}
	// formatting: `%p` in a constant format string, or a capability pointer among the arguments of a
	// variadic (...any) call
	variadicAny := false
	if sig, ok := info.TypeOf(c.Fun).(*types.Signature); ok && sig.Variadic() {
		if sl, ok := sig.Params().At(sig.Params().Len() - 1).Type().(*types.Slice); ok {
			if it, ok := sl.Elem().Underlying().(*types.Interface); ok && it.Empty() {
				variadicAny = true
			}
		}
	}
	for _, a := range c.Args {
		if tv, ok := info.Types[a]; ok && tv.Value != nil && tv.Value.Kind() == constant.String {
			if hasPtrVerb(constant.StringVal(tv.Value)) {
				add("fmtptr", "%p", a.Pos())
			}
		}
		if variadicAny {
			if t := info.TypeOf(a); t != nil {
				if _, isPtr := t.(*types.Pointer); isPtr && strings.HasSuffix(types.TypeString(deref(t), nil), "capability/types.Capability") {
					add("fmtptr", "capability", a.Pos())
				}
			}
		}
	}
}

// hasPtrVerb: a `%p` verb (flags / width between `%` and the verb allowed; `%%` skipped)
func hasPtrVerb(s string) bool {
	for i := 0; i < len(s); i++ {
		if s[i] != '%' {
			continue
		}
		j := i + 1
		for j < len(s) && strings.IndexByte("+-# 0123456789.*[]", s[j]) >= 0 {
			j++
		}
		if j < len(s) {
			if s[j] == 'p' {
				return true
			}
			i = j
		}
	}
	return false
}

func deref(t types.Type) types.Type {
	if p, ok := t.(*types.Pointer); ok {
		return p.Elem()
	}
	return t
}

func isFloat(t types.Type) bool {
	if t == nil {
		return false
	}
	b, ok := t.Underlying().(*types.Basic)
	return ok && b.Info()&types.IsFloat != 0
}

func isConst(info *types.Info, e ast.Expr) bool {
	tv, ok := info.Types[e]
	return ok && tv.Value != nil
}

func calleeOf(c *ast.CallExpr, info *types.Info) *types.Func {
	var id *ast.Ident
	switch f := c.Fun.(type) {
	case *ast.Ident:
		id = f
	case *ast.SelectorExpr:
		id = f.Sel
	case *ast.IndexExpr:
		if i, ok := f.X.(*ast.Ident); ok {
			id = i
		} else if s, ok := f.X.(*ast.SelectorExpr); ok {
			id = s.Sel
		}
	}
	if id == nil {
		return nil
	}
	if fn, ok := info.Uses[id].(*types.Func); ok {
		return fn.Origin()
	}
	return nil
}

func enclDecl(stack []ast.Node) *ast.FuncDecl {
	for i := len(stack) - 1; i >= 0; i-- {
		if fd, ok := stack[i].(*ast.FuncDecl); ok {
			return fd
		}
	}
	return nil
}

func enclName(stack []ast.Node) string {
	fd := enclDecl(stack)
	if fd == nil {
		return "<init>"
	}
	name := fd.Name.Name
	if fd.Recv != nil && len(fd.Recv.List) == 1 {
		name = recv(fd.Recv.List[0].Type) + "." + name
	}
	return name
}

func recv(e ast.Expr) string {
	switch t := e.(type) {
	case *ast.StarExpr:
		return recv(t.X)
	case *ast.Ident:
		return t.Name
	case *ast.IndexExpr:
		return recv(t.X)
	case *ast.IndexListExpr:
		return recv(t.X)
	}
	return "?"
}

// seedOrigin: where the seed expression of a PRNG constructor comes from
//
//	msgField        a field / getter of a value whose type is a proto `Msg…` message
//	ctx             a method of sdk.Context (block height / time / header hash: consensus data)
//	const           a compile-time constant
//	param<-X        a parameter of the enclosing function; X joins the origins at every call of it
//	                in the production packages (`nocaller` if there is none)
//	time            mentions the wall clock
//	globalrand      mentions a rand package (global source)
//	other           anything else
func seedOrigin(e ast.Expr, info *types.Info, encl *ast.FuncDecl, callers map[*types.Func][][]callArg, depth int) string {
	bad := ""
	ast.Inspect(e, func(n ast.Node) bool {
		if sel, ok := n.(*ast.SelectorExpr); ok {
			if id, ok := sel.X.(*ast.Ident); ok {
				if pn, ok := info.Uses[id].(*types.PkgName); ok {
					path := pn.Imported().Path()
					if path == "time" || strings.HasSuffix(path, "/time") {
						bad = "time"
					}
					if path == "math/rand" || path == "math/rand/v2" || path == "crypto/rand" {
						bad = "globalrand"
					}
					if path == "os" {
						bad = "other"
					}
				}
			}
		}
		return true
	})
	if bad != "" {
		return bad
	}
	if isConst(info, e) {
		return "const"
	}
	switch x := e.(type) {
	case *ast.ParenExpr:
		return seedOrigin(x.X, info, encl, callers, depth)
	case *ast.CallExpr:
		// conversion int64(x) or getter msg.GetRng() / ctx.BlockHeight()
		if tv, ok := info.Types[x.Fun]; ok && tv.IsType() && len(x.Args) == 1 {
			return seedOrigin(x.Args[0], info, encl, callers, depth)
		}
		if sel, ok := x.Fun.(*ast.SelectorExpr); ok && len(x.Args) == 0 {
			return recvOrigin(sel.X, info)
		}
	case *ast.SelectorExpr:
		return recvOrigin(x.X, info)
	case *ast.Ident:
		obj := info.Uses[x]
		if encl != nil && obj != nil && depth < 3 {
			if fobj, ok := info.Defs[encl.Name].(*types.Func); ok {
				sig := fobj.Type().(*types.Signature)
				for i := 0; i < sig.Params().Len(); i++ {
					if sig.Params().At(i) == obj {
						cs := callers[fobj.Origin()]
						if len(cs) == 0 {
							return "param<-nocaller"
						}
						set := map[string]bool{}
						for _, args := range cs {
							if i < len(args) {
								set[seedOrigin(args[i].expr, args[i].info, args[i].encl, callers, depth+1)] = true
							} else {
								set["other"] = true
							}
						}
						var ks []string
						for k := range set {
							ks = append(ks, k)
						}
						sort.Strings(ks)
						return "param<-" + strings.Join(ks, "|")
					}
				}
			}
		}
	}
	return "other"
}

func recvOrigin(e ast.Expr, info *types.Info) string {
	t := info.TypeOf(e)
	if t == nil {
		return "other"
	}
	t = deref(t)
	if n, ok := t.(*types.Named); ok {
		name := n.Obj().Name()
		if name == "Context" && n.Obj().Pkg() != nil && strings.HasSuffix(n.Obj().Pkg().Path(), "cosmos-sdk/types") {
			return "ctx"
		}
		if strings.HasPrefix(name, "Msg") {
			ms := types.NewMethodSet(types.NewPointer(n))
			if ms.Lookup(nil, "ProtoMessage") != nil {
				return "msgField"
			}
		}
	}
	return "other"
}

// classify gives a syntactic class to the body of a map range.
//
//	collectKeys      body only appends the range KEY to one slice
//	collectValues    body only appends (an expression of) the range value / key to one slice
//	collectFiltered  body is one `if` without else whose body only appends to one slice
//	membership       body only sets / deletes entries of maps
//	accumulate       body only adds into accumulators (`x += e`, `x = x.Add(e)`)
//	unknown          anything else
//
// the three `collect…` classes get the suffix `+sorted` when the collected slice is sorted by a
// later statement of the enclosing block (sort.X(s…), slices.SortX(s…), s.Sort()) or by a deferred
// closure of the enclosing function.
func classify(r *ast.RangeStmt, info *types.Info, stack []ast.Node) string {
	body := r.Body.List
	if len(body) == 0 {
		return "unknown"
	}
	keyObj := identObj(r.Key, info)
	cls := "unknown"
	var slice types.Object
	appendsOnly := func(sts []ast.Stmt) (types.Object, bool, bool) {
		var s types.Object
		onlyKey := true
		if len(sts) == 0 {
			return nil, false, false
		}
		for _, st := range sts {
			as, ok := st.(*ast.AssignStmt)
			if !ok || len(as.Lhs) != 1 || len(as.Rhs) != 1 || as.Tok != token.ASSIGN {
				return nil, false, false
			}
			c, ok := as.Rhs[0].(*ast.CallExpr)
			if !ok || len(c.Args) < 2 {
				return nil, false, false
			}
			if id, ok := c.Fun.(*ast.Ident); !ok || id.Name != "append" || info.Uses[id] != types.Universe.Lookup("append") {
				return nil, false, false
			}
			lo, ao := identObj(as.Lhs[0], info), identObj(c.Args[0], info)
			if lo == nil || lo != ao || (s != nil && s != lo) {
				return nil, false, false
			}
			s = lo
			for _, a := range c.Args[1:] {
				if o := identObj(a, info); o == nil || o != keyObj {
					onlyKey = false
				}
			}
		}
		return s, onlyKey, true
	}
	if s, onlyKey, ok := appendsOnly(body); ok {
		slice = s
		if onlyKey {
			cls = "collectKeys"
		} else {
			cls = "collectValues"
		}
	} else if ifs, ok := body[0].(*ast.IfStmt); ok && len(body) == 1 && ifs.Else == nil && ifs.Init == nil {
		if s, _, ok := appendsOnly(ifs.Body.List); ok {
			slice, cls = s, "collectFiltered"
		}
	}
	if slice != nil {
		if sortedLater(r, slice, info, stack) {
			cls += "+sorted"
		}
		return cls
	}
	onlyMapOps, onlyAcc := true, true
	for _, st := range body {
		switch s := st.(type) {
		case *ast.AssignStmt:
			isMapSet := false
			if len(s.Lhs) == 1 && s.Tok == token.ASSIGN {
				if ix, ok := s.Lhs[0].(*ast.IndexExpr); ok {
					if t := info.TypeOf(ix.X); t != nil {
						if _, ok := t.Underlying().(*types.Map); ok {
							isMapSet = true
						}
					}
				}
			}
			if !isMapSet {
				onlyMapOps = false
			}
			isAcc := false
			if len(s.Lhs) == 1 && len(s.Rhs) == 1 {
				lo := identObj(s.Lhs[0], info)
				if s.Tok == token.ADD_ASSIGN && lo != nil {
					if b, ok := info.TypeOf(s.Lhs[0]).Underlying().(*types.Basic); ok && b.Info()&types.IsInteger != 0 {
						isAcc = true
					}
				}
				if s.Tok == token.ASSIGN && lo != nil {
					if c, ok := s.Rhs[0].(*ast.CallExpr); ok {
						if sel, ok := c.Fun.(*ast.SelectorExpr); ok && sel.Sel.Name == "Add" && identObj(sel.X, info) == lo {
							isAcc = true
						}
					}
				}
			}
			if !isAcc {
				onlyAcc = false
			}
		case *ast.ExprStmt:
			onlyAcc = false
			if c, ok := s.X.(*ast.CallExpr); ok {
				if id, ok := c.Fun.(*ast.Ident); ok && id.Name == "delete" {
					continue
				}
			}
			onlyMapOps = false
		default:
			onlyMapOps, onlyAcc = false, false
		}
	}
	switch {
	case onlyMapOps:
		return "membership"
	case onlyAcc:
		return "accumulate"
	}
	return "unknown"
}

func identObj(e ast.Expr, info *types.Info) types.Object {
	if e == nil {
		return nil
	}
	if id, ok := e.(*ast.Ident); ok {
		if o := info.Uses[id]; o != nil {
			return o
		}
		return info.Defs[id]
	}
	return nil
}

func mentions(e ast.Node, obj types.Object, info *types.Info) bool {
	found := false
	ast.Inspect(e, func(n ast.Node) bool {
		if id, ok := n.(*ast.Ident); ok && info.Uses[id] == obj {
			found = true
		}
		return !found
	})
	return found
}

func isSortCallOn(c *ast.CallExpr, obj types.Object, info *types.Info) bool {
	sel, ok := c.Fun.(*ast.SelectorExpr)
	if !ok {
		return false
	}
	if id, ok := sel.X.(*ast.Ident); ok {
		if pn, ok := info.Uses[id].(*types.PkgName); ok {
			path := pn.Imported().Path()
			if path == "sort" || path == "slices" || strings.HasSuffix(path, "/slices") {
				switch sel.Sel.Name {
				case "Strings", "Ints", "Float64s", "Slice", "SliceStable", "Sort", "Stable", "SortFunc", "SortStableFunc":
					return len(c.Args) >= 1 && mentions(c.Args[0], obj, info)
				}
			}
			return false
		}
		if info.Uses[id] == obj && sel.Sel.Name == "Sort" {
			return true
		}
	}
	return false
}

func sortedLater(r *ast.RangeStmt, slice types.Object, info *types.Info, stack []ast.Node) bool {
	// later statements of the directly enclosing statement list
	if len(stack) >= 2 {
		var list []ast.Stmt
		switch p := stack[len(stack)-2].(type) {
		case *ast.BlockStmt:
			list = p.List
		case *ast.CaseClause:
			list = p.Body
		case *ast.CommClause:
			list = p.Body
		}
		after := false
		for _, st := range list {
			if st == ast.Stmt(r) {
				after = true
				continue
			}
			if !after {
				continue
			}
			if es, ok := st.(*ast.ExprStmt); ok {
				if c, ok := es.X.(*ast.CallExpr); ok && isSortCallOn(c, slice, info) {
					return true
				}
			}
		}
	}
	// a deferred closure of the enclosing function that sorts the slice
	if fd := enclDecl(stack); fd != nil && fd.Body != nil {
		found := false
		ast.Inspect(fd.Body, func(n ast.Node) bool {
			if d, ok := n.(*ast.DeferStmt); ok {
				ast.Inspect(d.Call, func(m ast.Node) bool {
					if c, ok := m.(*ast.CallExpr); ok && isSortCallOn(c, slice, info) {
						found = true
					}
					return !found
				})
			}
			return !found
		})
		if found {
			return true
		}
	}
	return false
}
