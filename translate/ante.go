package main

// ante.go — regenerates lean/DymVerif/Gen/Ante.lean from app/ante/{reject_msgs,cosmos_handler}.go:
//   * `maxDepth`
//   * the `BlockTypeUrls(depthMin, urls…)` predicates handed to the reject decorator (in order)
//   * the type-assertion reject (`msg.(*evmtypes.MsgEthereumTx)`) and the cases of
//     `switch m := msg.(type)` in checkMsg with the way each case reads the wrapper
//   * the position of the reject decorator in the cosmos ante chain
// Everything else in checkMsg / checkMsgs / AnteHandle / BlockTypeUrls is compared (whitespace
// insensitive, switch cases and constants blanked) with the text the hand-written model mirrors;
// a difference sets `shapeOk := false`, which breaks `Props/C20.gen_shape_ok`.

import (
	"bytes"
	"fmt"
	"go/ast"
	"go/parser"
	"go/printer"
	"go/token"
	"path/filepath"
	"sort"
	"strconv"
	"strings"
)

// fixed map Go type -> well-known id of Model/Ante.lean
var anteWellKnown = map[string]int{
	"github.com/cosmos/cosmos-sdk/x/authz.MsgExec":                                      1,
	"github.com/cosmos/cosmos-sdk/x/gov/types/v1.MsgSubmitProposal":                     2,
	"github.com/cosmos/cosmos-sdk/x/group.MsgSubmitProposal":                            3,
	"github.com/cosmos/cosmos-sdk/x/authz.MsgGrant":                                     4,
	"github.com/evmos/ethermint/x/evm/types.MsgEthereumTx":                              5,
	"github.com/cosmos/ibc-go/v8/modules/core/02-client/types.MsgUpdateClient":          6,
	"github.com/cosmos/cosmos-sdk/x/auth/vesting/types.MsgCreateVestingAccount":         7,
	"github.com/cosmos/cosmos-sdk/x/auth/vesting/types.MsgCreatePeriodicVestingAccount": 8,
	"github.com/cosmos/cosmos-sdk/x/auth/vesting/types.MsgCreatePermanentLockedAccount": 9,
	"github.com/cosmos/ibc-go/v8/modules/core/02-client/types.MsgSubmitMisbehaviour":    10,
}

type anteTypes struct {
	ids   map[string]int
	names []string // in id order of first appearance (only the non-well-known ones get fresh ids)
	next  int
}

func (a *anteTypes) id(name string) int {
	if v, ok := a.ids[name]; ok {
		return v
	}
	v, ok := anteWellKnown[name]
	if !ok {
		v = a.next
		a.next++
	}
	a.ids[name] = v
	a.names = append(a.names, name)
	return v
}

func importsOf(f *ast.File) map[string]string {
	m := map[string]string{}
	for _, im := range f.Imports {
		p, _ := strconv.Unquote(im.Path.Value)
		name := p[strings.LastIndex(p, "/")+1:]
		if im.Name != nil {
			name = im.Name.Name
		}
		m[name] = p
	}
	return m
}

// goTypeOf resolves `alias.Type`, `*alias.Type`, `&alias.Type{}` to "importpath.Type".
func goTypeOf(e ast.Expr, imps map[string]string) (string, bool) {
	switch x := e.(type) {
	case *ast.StarExpr:
		return goTypeOf(x.X, imps)
	case *ast.UnaryExpr:
		return goTypeOf(x.X, imps)
	case *ast.CompositeLit:
		return goTypeOf(x.Type, imps)
	case *ast.ParenExpr:
		return goTypeOf(x.X, imps)
	case *ast.SelectorExpr:
		if id, ok := x.X.(*ast.Ident); ok {
			if p, ok := imps[id.Name]; ok {
				return p + "." + x.Sel.Name, true
			}
		}
	}
	return "", false
}

func squash(s string) string {
	return strings.Join(strings.Fields(s), "")
}

func printNode(fset *token.FileSet, n ast.Node) string {
	var b bytes.Buffer
	_ = printer.Fprint(&b, fset, n)
	return b.String()
}

func findFunc(f *ast.File, name string) *ast.FuncDecl {
	for _, d := range f.Decls {
		if fd, ok := d.(*ast.FuncDecl); ok && fd.Name.Name == name {
			return fd
		}
	}
	return nil
}

// the text (whitespace removed) of the parts of reject_msgs.go the model mirrors by hand
const (
	anteExpBlock     = `{block:=make(map[string]struct{})for_,url:=rangetypeUrls{block[url]=struct{}{}}returnfunc(urlstring,depthint)bool{_,ok:=block[url]returnok&&depthMax<=depth}}`
	anteExpHandle    = `{iferr:=rmd.checkMsgs(ctx,tx.GetMsgs(),0);err!=nil{returnctx,errors.Join(sdkerrors.ErrUnauthorized,err)}returnnext(ctx,tx,simulate)}`
	anteExpCheckMsgs = `{for_,msg:=rangemsgs{iferr:=rmd.checkMsg(ctx,msg,depth);err!=nil{returnerr}}returnnil}`
	anteExpCheckMsg  = `{ifdepth>=maxDepth{returnfmt.Errorf("foundmorenestedmsgsthanpermitted.Limitis:%d",maxDepth)}§TYPEREJECT§typeURL:=sdk.MsgTypeURL(msg)for_,pred:=rangermd.predicates{ifpred(typeURL,depth){returngerrc.ErrInvalidArgument.Wrapf("disabled:%s",typeURL)}}varerrerrorvarinner[]sdk.Msg§SWITCH§iferr!=nil{returnerr}returnrmd.checkMsgs(ctx,inner,depth+1)}`
	anteExpGrantCase = `authorization,err:=m.GetAuthorization()iferr!=nil{returnerr}typeURL=authorization.MsgTypeURL()for_,pred:=rangermd.predicates{ifpred(typeURL,depth){returngerrc.ErrInvalidArgument.Wrapf("disabledgrant:%s",typeURL)}}`
)

func genAnte(repo string) (string, []string, error) {
	var notes []string
	fset := token.NewFileSet()
	rej, err := parser.ParseFile(fset, filepath.Join(repo, "app/ante/reject_msgs.go"), nil, 0)
	if err != nil {
		return "", nil, err
	}
	cos, err := parser.ParseFile(fset, filepath.Join(repo, "app/ante/cosmos_handler.go"), nil, 0)
	if err != nil {
		return "", nil, err
	}
	tys := &anteTypes{ids: map[string]int{}, next: 100}
	shapeOk := true
	bad := func(format string, a ...any) {
		shapeOk = false
		notes = append(notes, fmt.Sprintf(format, a...))
	}

	// ---- maxDepth
	maxDepth := -1
	for _, d := range rej.Decls {
		gd, ok := d.(*ast.GenDecl)
		if !ok || gd.Tok != token.CONST {
			continue
		}
		for _, sp := range gd.Specs {
			vs := sp.(*ast.ValueSpec)
			for i, n := range vs.Names {
				if n.Name == "maxDepth" && i < len(vs.Values) {
					if bl, ok := vs.Values[i].(*ast.BasicLit); ok {
						maxDepth, _ = strconv.Atoi(bl.Value)
					}
				}
			}
		}
	}
	if maxDepth < 0 {
		return "", nil, fmt.Errorf("const maxDepth not found as an integer literal in reject_msgs.go")
	}

	// ---- checkMsg: type-assertion rejects, switch cases, remaining shape
	rimps := importsOf(rej)
	var typeRejects []int
	type unwrap struct {
		ty  int
		acc string
	}
	var unwraps []unwrap
	cm := findFunc(rej, "checkMsg")
	if cm == nil {
		return "", nil, fmt.Errorf("checkMsg not found")
	}
	body := squash(printNode(fset, cm.Body))
	for _, st := range cm.Body.List {
		switch s := st.(type) {
		case *ast.IfStmt:
			// if _, ok := msg.(*T); ok { return <err> }
			as, ok := s.Init.(*ast.AssignStmt)
			if !ok || len(as.Rhs) != 1 {
				continue
			}
			ta, ok := as.Rhs[0].(*ast.TypeAssertExpr)
			if !ok {
				continue
			}
			name, ok := goTypeOf(ta.Type, rimps)
			if !ok {
				bad("checkMsg: unresolved type assertion %s", printNode(fset, ta.Type))
				continue
			}
			if len(s.Body.List) != 1 {
				bad("checkMsg: type-assertion branch for %s is not a single return", name)
			} else if _, isRet := s.Body.List[0].(*ast.ReturnStmt); !isRet {
				bad("checkMsg: type-assertion branch for %s is not a single return", name)
			}
			typeRejects = append(typeRejects, tys.id(name))
			body = strings.Replace(body, squash(printNode(fset, s)), "§TYPEREJECT§", 1)
		case *ast.TypeSwitchStmt:
			for _, cc := range s.Body.List {
				c := cc.(*ast.CaseClause)
				if c.List == nil { // default
					if len(c.Body) != 0 {
						bad("checkMsg: non-empty default case")
					}
					continue
				}
				cb := ""
				for _, x := range c.Body {
					cb += squash(printNode(fset, x))
				}
				for _, te := range c.List {
					name, ok := goTypeOf(te, rimps)
					if !ok {
						bad("checkMsg: unresolved case type %s", printNode(fset, te))
						continue
					}
					switch {
					case cb == "inner,err=m.GetMessages()" || cb == "inner,err=m.GetMsgs()":
						unwraps = append(unwraps, unwrap{tys.id(name), ".msgs"})
					case cb == anteExpGrantCase:
						unwraps = append(unwraps, unwrap{tys.id(name), ".grant"})
					default:
						bad("checkMsg: case %s has a body the model does not know: %s", name, cb)
					}
				}
			}
			body = strings.Replace(body, squash(printNode(fset, s)), "§SWITCH§", 1)
		}
	}
	// one or more consecutive type rejects collapse to one marker
	for strings.Contains(body, "§TYPEREJECT§§TYPEREJECT§") {
		body = strings.Replace(body, "§TYPEREJECT§§TYPEREJECT§", "§TYPEREJECT§", 1)
	}
	if body != anteExpCheckMsg {
		if strings.Replace(anteExpCheckMsg, "§TYPEREJECT§", "", 1) == body {
			// no type-assertion reject at all: still the modelled shape (typeRejects = [])
		} else {
			bad("checkMsg body differs from the modelled text")
		}
	}
	for fn, exp := range map[string]string{"BlockTypeUrls": anteExpBlock, "AnteHandle": anteExpHandle, "checkMsgs": anteExpCheckMsgs} {
		fd := findFunc(rej, fn)
		if fd == nil {
			bad("%s not found", fn)
			continue
		}
		if squash(printNode(fset, fd.Body)) != exp {
			bad("%s body differs from the modelled text", fn)
		}
	}

	// ---- cosmos_handler.go: predicates of the reject decorator, decorator order
	cimps := importsOf(cos)
	type rule struct {
		pos      token.Pos
		depthMin int
		tys      []int
	}
	var rules []rule
	var order []string
	rejectIdx := -1
	nh := findFunc(cos, "newCosmosAnteHandler")
	if nh == nil {
		return "", nil, fmt.Errorf("newCosmosAnteHandler not found")
	}
	var rootName func(e ast.Expr) string
	rootName = func(e ast.Expr) string {
		switch x := e.(type) {
		case *ast.CallExpr:
			return rootName(x.Fun)
		case *ast.SelectorExpr:
			if c, ok := x.X.(*ast.CallExpr); ok {
				return rootName(c)
			}
			if id, ok := x.X.(*ast.Ident); ok {
				return id.Name + "." + x.Sel.Name
			}
			return x.Sel.Name
		case *ast.Ident:
			return x.Name
		}
		return "?"
	}
	ast.Inspect(nh.Body, func(n ast.Node) bool {
		cl, ok := n.(*ast.CompositeLit)
		if !ok {
			return true
		}
		at, ok := cl.Type.(*ast.ArrayType)
		if !ok {
			return true
		}
		if squash(printNode(fset, at.Elt)) != "sdk.AnteDecorator" {
			return true
		}
		for i, el := range cl.Elts {
			nm := rootName(el)
			order = append(order, nm)
			if nm == "NewRejectMessagesDecorator" {
				if rejectIdx >= 0 {
					bad("more than one reject decorator in the chain")
				}
				rejectIdx = i
				ast.Inspect(el, func(m ast.Node) bool {
					c, ok := m.(*ast.CallExpr)
					if !ok {
						return true
					}
					if id, ok := c.Fun.(*ast.Ident); ok && id.Name == "BlockTypeUrls" {
						r := rule{pos: c.Pos(), depthMin: -1}
						if len(c.Args) > 0 {
							if bl, ok := c.Args[0].(*ast.BasicLit); ok {
								r.depthMin, _ = strconv.Atoi(bl.Value)
							}
						}
						if r.depthMin < 0 {
							bad("BlockTypeUrls: depth is not an integer literal")
							r.depthMin = 1 << 30
						}
						for _, a := range c.Args[1:] {
							ok := false
							if ac, isCall := a.(*ast.CallExpr); isCall && squash(printNode(fset, ac.Fun)) == "sdk.MsgTypeURL" && len(ac.Args) == 1 {
								if name, ok2 := goTypeOf(ac.Args[0], cimps); ok2 {
									r.tys = append(r.tys, tys.id(name))
									ok = true
								}
							}
							if !ok {
								bad("BlockTypeUrls: argument %s is not sdk.MsgTypeURL(&pkg.T{})", printNode(fset, a))
							}
						}
						rules = append(rules, r)
						return false
					}
					if se, ok := c.Fun.(*ast.SelectorExpr); ok && se.Sel.Name == "WithPredicate" {
						if len(c.Args) != 1 || rootName(c.Args[0]) != "BlockTypeUrls" {
							bad("WithPredicate argument is not a BlockTypeUrls(...) call")
						}
					}
					return true
				})
			}
		}
		return false
	})
	sort.Slice(rules, func(i, j int) bool { return rules[i].pos < rules[j].pos })
	if rejectIdx < 0 {
		bad("reject decorator not found in the cosmos ante chain")
		rejectIdx = 1 << 30
	}

	// ---- emit
	natList := func(xs []int) string {
		s := make([]string, len(xs))
		for i, x := range xs {
			s[i] = strconv.Itoa(x)
		}
		return "[" + strings.Join(s, ", ") + "]"
	}
	var b strings.Builder
	b.WriteString("import DymVerif.Model.Ante\nnamespace DymVerif.Gen.Ante\nopen DymVerif.Ante\n\n")
	b.WriteString("/-- Go type (import path + name) of every message type the ante tables mention -/\n")
	b.WriteString("def typeNames : List (Nat × String) := [\n")
	sorted := append([]string(nil), tys.names...)
	sort.Slice(sorted, func(i, j int) bool { return tys.ids[sorted[i]] < tys.ids[sorted[j]] })
	for i, n := range sorted {
		sep := ","
		if i == len(sorted)-1 {
			sep = ""
		}
		fmt.Fprintf(&b, "  (%d, %q)%s\n", tys.ids[n], n, sep)
	}
	b.WriteString("]\n\n")
	b.WriteString("/-- reject_msgs.go / cosmos_handler.go as data -/\ndef config : Config := {\n")
	fmt.Fprintf(&b, "  maxDepth := %d\n", maxDepth)
	fmt.Fprintf(&b, "  typeRejects := %s\n", natList(typeRejects))
	b.WriteString("  rules := [")
	for i, r := range rules {
		if i > 0 {
			b.WriteString(", ")
		}
		fmt.Fprintf(&b, "{ depthMin := %d, tys := %s }", r.depthMin, natList(r.tys))
	}
	b.WriteString("]\n  unwraps := [")
	for i, u := range unwraps {
		if i > 0 {
			b.WriteString(", ")
		}
		fmt.Fprintf(&b, "(%d, %s)", u.ty, u.acc)
	}
	b.WriteString("] }\n\n")
	fmt.Fprintf(&b, "/-- the non-extracted text of BlockTypeUrls / AnteHandle / checkMsgs / checkMsg is the modelled one -/\ndef shapeOk : Bool := %v\n\n", shapeOk)
	b.WriteString("/-- constructors in `anteDecorators` of newCosmosAnteHandler, in order -/\ndef decoratorOrder : List String := [")
	for i, o := range order {
		if i > 0 {
			b.WriteString(", ")
		}
		fmt.Fprintf(&b, "%q", o)
	}
	fmt.Fprintf(&b, "]\ndef rejectIndex : Nat := %d\n", rejectIdx)
	// ---- routes of NewAnteHandler (ante_routes.go)
	rsrc, rnotes := genAnteRoutes(repo)
	b.WriteString("\n" + rsrc)
	notes = append(notes, rnotes...)
	b.WriteString("\nend DymVerif.Gen.Ante\n")
	return b.String(), notes, nil
}
