package main

// Generalised statement skeleton (the configurable successor of `skeleton` in lockup.go and of
// gsSkeleton in genesis.go), used by packets.go / lc.go / gb.go.
//
// The skeleton of a function is the ordered list of its normalised statements:
//   if <cond> {   } else if <cond> {   } else {   }
//   for <init>; <cond>; <post> {   }       range <X> as k, v {   }
//   switch <tag> {   case a, b:   default:   }        (type switches: `switch x := y.(type) {`)
//   return <results>        break / continue [label]        label L:        panic(<arg>)
//   call <expr>             <lhs> := <rhs>  /  <lhs> = <rhs>     defer <call>
// with function literals replaced by `func` and their bodies emitted as nested `{ … }` blocks right
// after the statement that contains them.
//
// Ignored (never part of a skeleton): comments; logging (anything through a Logger / a variable that
// was assigned from one, `log…` variables); events (EmitEvent / EmitTypedEvent / EventManager — an `if`
// whose init statement is such a call is dropped with its body); telemetry; the TEXT of error messages:
//   fmt.Errorf("…", a, err)        -> fmt.Errorf(err)            (only error-like arguments are kept)
//   errors.New("…")                -> errors.New(…)
//   errorsmod.Wrap[f](e, "…", …)   -> wrap(e)
//   <sentinel>.Wrap[f]("…", …)     -> wrap(<sentinel>)           (the sentinel identifier is kept)
//
// Configuration (`skelCfg`): `callRoots` / `setRoots` restrict the call / assignment statements that
// are kept to those whose root identifier (the receiver at the bottom of the selector chain) is listed;
// nil keeps every statement.  Control statements and returns are always kept.

import (
	"fmt"
	"go/ast"
	"go/parser"
	"go/token"
	"path/filepath"
	"strings"
)

type skelCfg struct {
	callRoots map[string]bool // nil: every call statement
	setRoots  map[string]bool // nil: every assignment
}

type skelCtx struct {
	p     *pkgSrc
	cfg   skelCfg
	noise map[string]bool // local variables holding loggers and the like
	out   []string
}

func rootsOf(names ...string) map[string]bool {
	m := map[string]bool{}
	for _, n := range names {
		m[n] = true
	}
	return m
}

// errorLike: an argument of fmt.Errorf worth keeping (an error value or a sentinel)
func errorLike(e ast.Expr) bool {
	switch x := e.(type) {
	case *ast.Ident:
		l := strings.ToLower(x.Name)
		return l == "err" || strings.HasPrefix(x.Name, "Err") || strings.HasPrefix(x.Name, "err") || strings.HasSuffix(l, "err")
	case *ast.SelectorExpr:
		return strings.HasPrefix(x.Sel.Name, "Err")
	}
	return false
}

// expr renders an expression with the normalisations described above
func (c *skelCtx) expr(e ast.Expr, lits *[]*ast.FuncLit) string {
	switch x := e.(type) {
	case nil:
		return ""
	case *ast.FuncLit:
		*lits = append(*lits, x)
		return "func"
	case *ast.CallExpr:
		if sel, ok := x.Fun.(*ast.SelectorExpr); ok {
			name := sel.Sel.Name
			recv := c.expr(sel.X, lits)
			switch {
			case recv == "fmt" && name == "Errorf":
				var keep []string
				for _, a := range x.Args {
					if errorLike(a) {
						keep = append(keep, c.expr(a, lits))
					}
				}
				return "fmt.Errorf(" + strings.Join(keep, ", ") + ")"
			case recv == "errors" && name == "New":
				return "errors.New(…)"
			case name == "Wrap" || name == "Wrapf":
				if _, bare := sel.X.(*ast.Ident); bare && len(x.Args) > 0 && !isStringLit(x.Args[0]) {
					return "wrap(" + c.expr(x.Args[0], lits) + ")" // errorsmod.Wrap(e, "…")
				}
				return "wrap(" + recv + ")" // sentinel.Wrap("…")
			}
		}
		fn := c.expr(x.Fun, lits)
		as := make([]string, len(x.Args))
		for i, a := range x.Args {
			as[i] = c.expr(a, lits)
		}
		ell := ""
		if x.Ellipsis.IsValid() {
			ell = "..."
		}
		return fn + "(" + strings.Join(as, ", ") + ell + ")"
	case *ast.ParenExpr:
		return "(" + c.expr(x.X, lits) + ")"
	case *ast.UnaryExpr:
		return x.Op.String() + c.expr(x.X, lits)
	case *ast.BinaryExpr:
		return c.expr(x.X, lits) + " " + x.Op.String() + " " + c.expr(x.Y, lits)
	case *ast.SelectorExpr:
		return c.expr(x.X, lits) + "." + x.Sel.Name
	case *ast.StarExpr:
		return "*" + c.expr(x.X, lits)
	case *ast.IndexExpr:
		return c.expr(x.X, lits) + "[" + c.expr(x.Index, lits) + "]"
	case *ast.TypeAssertExpr:
		if x.Type == nil {
			return c.expr(x.X, lits) + ".(type)"
		}
		return c.expr(x.X, lits) + ".(" + exprText(c.p.fset, x.Type) + ")"
	case *ast.KeyValueExpr:
		return c.expr(x.Key, lits) + ": " + c.expr(x.Value, lits)
	case *ast.CompositeLit:
		es := make([]string, len(x.Elts))
		for i, el := range x.Elts {
			es[i] = c.expr(el, lits)
		}
		t := ""
		if x.Type != nil {
			t = exprText(c.p.fset, x.Type)
		}
		return t + "{" + strings.Join(es, ", ") + "}"
	}
	return exprText(c.p.fset, e)
}

func (c *skelCtx) exprs(es []ast.Expr, lits *[]*ast.FuncLit) string {
	s := make([]string, len(es))
	for i, e := range es {
		s[i] = c.expr(e, lits)
	}
	return strings.Join(s, ", ")
}

// noiseCall: logging, events, telemetry
func (c *skelCtx) noiseCall(e ast.Expr) bool {
	call, ok := e.(*ast.CallExpr)
	if !ok {
		return false
	}
	noisy := false
	ast.Inspect(call.Fun, func(n ast.Node) bool {
		switch x := n.(type) {
		case *ast.FuncLit:
			return false
		case *ast.Ident:
			l := strings.ToLower(x.Name)
			if c.noise[x.Name] || l == "logger" || l == "telemetry" || l == "emitevent" || l == "emittypedevent" ||
				l == "eventmanager" || l == "emitevents" {
				noisy = true
			}
		}
		return !noisy
	})
	if id, ok := call.Fun.(*ast.Ident); ok && (id.Name == "println" || id.Name == "print") {
		return true
	}
	if s, ok := call.Fun.(*ast.SelectorExpr); ok {
		if id, ok := s.X.(*ast.Ident); ok && (id.Name == "log" || id.Name == "fmt" && strings.HasPrefix(s.Sel.Name, "Print")) {
			return true
		}
	}
	return noisy
}

// noiseStmt: a statement that is only logging / events / telemetry
func (c *skelCtx) noiseStmt(st ast.Stmt) bool {
	switch s := st.(type) {
	case *ast.ExprStmt:
		return c.noiseCall(s.X)
	case *ast.DeferStmt:
		return c.noiseCall(s.Call)
	case *ast.AssignStmt:
		if len(s.Rhs) == 1 && c.noiseCall(s.Rhs[0]) {
			for _, l := range s.Lhs {
				if id, ok := l.(*ast.Ident); ok && id.Name != "_" && id.Name != "err" {
					c.noise[id.Name] = true
				}
			}
			return true
		}
		// logContext := []interface{}{…}
		if len(s.Lhs) == 1 {
			if id, ok := s.Lhs[0].(*ast.Ident); ok && strings.HasPrefix(strings.ToLower(id.Name), "log") {
				c.noise[id.Name] = true
				return true
			}
		}
	}
	return false
}

func isBuiltinCall(call *ast.CallExpr) bool {
	id, ok := call.Fun.(*ast.Ident)
	if !ok {
		_, arr := call.Fun.(*ast.ArrayType) // []byte(x)
		return arr
	}
	switch id.Name {
	case "len", "cap", "append", "make", "new", "string", "int", "int32", "int64", "uint", "uint32", "uint64", "byte", "float64", "copy", "min", "max":
		return true
	}
	return false
}

// wantsCall: does the node contain a call the configuration keeps?
func (c *skelCtx) wantsCall(n ast.Node) bool {
	found := false
	ast.Inspect(n, func(x ast.Node) bool {
		call, ok := x.(*ast.CallExpr)
		if !ok || found {
			return !found
		}
		if isBuiltinCall(call) {
			return true
		}
		if c.cfg.callRoots == nil || c.cfg.callRoots[rootIdent(call.Fun)] {
			found = true
		}
		return !found
	})
	return found
}

func (c *skelCtx) emit(s string) { c.out = append(c.out, s) }

func (c *skelCtx) lits(lits []*ast.FuncLit) {
	for _, l := range lits {
		c.emit("{")
		c.stmts(l.Body.List)
		c.emit("}")
	}
}

func (c *skelCtx) stmts(list []ast.Stmt) {
	for _, st := range list {
		c.stmt(st)
	}
}

// simple renders a simple statement (init / post of if, for, switch) on one line; "" if it is noise
func (c *skelCtx) simple(st ast.Stmt, lits *[]*ast.FuncLit) string {
	if st == nil || c.noiseStmt(st) {
		return ""
	}
	switch s := st.(type) {
	case *ast.AssignStmt:
		return c.exprs(s.Lhs, lits) + " " + s.Tok.String() + " " + c.exprs(s.Rhs, lits)
	case *ast.ExprStmt:
		return c.expr(s.X, lits)
	case *ast.IncDecStmt:
		return c.expr(s.X, lits) + s.Tok.String()
	}
	return fmt.Sprintf("stmt %T", st)
}

func (c *skelCtx) stmt(st ast.Stmt) {
	if c.noiseStmt(st) {
		return
	}
	var lits []*ast.FuncLit
	switch s := st.(type) {
	case *ast.ExprStmt:
		if call, ok := s.X.(*ast.CallExpr); ok {
			if id, ok := call.Fun.(*ast.Ident); ok && id.Name == "panic" {
				c.emit("panic(" + c.exprs(call.Args, &lits) + ")")
				c.lits(lits)
				return
			}
			if !c.wantsCall(call) {
				return
			}
			c.emit("call " + c.expr(call, &lits))
			c.lits(lits)
			return
		}
		c.emit("expr " + c.expr(s.X, &lits))
	case *ast.AssignStmt:
		keep := c.cfg.setRoots == nil
		if !keep {
			for _, l := range s.Lhs {
				if _, plain := l.(*ast.Ident); !plain && c.cfg.setRoots[rootIdent(l)] {
					keep = true
				}
			}
		}
		if !keep && c.cfg.callRoots != nil {
			for _, r := range s.Rhs {
				if c.wantsCall(r) {
					keep = true
				}
			}
		}
		if !keep {
			return
		}
		c.emit(c.exprs(s.Lhs, &lits) + " " + s.Tok.String() + " " + c.exprs(s.Rhs, &lits))
		c.lits(lits)
	case *ast.IncDecStmt:
		if c.cfg.setRoots == nil || c.cfg.setRoots[rootIdent(s.X)] {
			c.emit(c.expr(s.X, &lits) + s.Tok.String())
		}
	case *ast.DeclStmt:
		gd, ok := s.Decl.(*ast.GenDecl)
		if !ok {
			return
		}
		for _, sp := range gd.Specs {
			v, ok := sp.(*ast.ValueSpec)
			if !ok || len(v.Values) == 0 {
				continue // `var x T`: a declaration without effect
			}
			if c.cfg.setRoots != nil && !c.wantsCall(v) {
				continue
			}
			ns := make([]string, len(v.Names))
			for i, n := range v.Names {
				ns[i] = n.Name
			}
			c.emit(strings.Join(ns, ", ") + " := " + c.exprs(v.Values, &lits))
		}
		c.lits(lits)
	case *ast.IfStmt:
		c.ifStmt(s, "if ")
	case *ast.RangeStmt:
		line := "range " + c.expr(s.X, &lits)
		if s.Key != nil || s.Value != nil {
			k, v := "_", "_"
			if s.Key != nil {
				k = exprText(c.p.fset, s.Key)
			}
			if s.Value != nil {
				v = exprText(c.p.fset, s.Value)
			}
			line += " as " + k + ", " + v
		}
		c.emit(line + " {")
		c.lits(lits)
		c.stmts(s.Body.List)
		c.emit("}")
	case *ast.ForStmt:
		c.emit("for " + c.simple(s.Init, &lits) + "; " + c.expr(s.Cond, &lits) + "; " + c.simple(s.Post, &lits) + " {")
		c.lits(lits)
		c.stmts(s.Body.List)
		c.emit("}")
	case *ast.SwitchStmt:
		line := "switch "
		if s.Init != nil {
			line += c.simple(s.Init, &lits) + "; "
		}
		c.emit(line + c.expr(s.Tag, &lits) + " {")
		c.lits(lits)
		c.cases(s.Body)
		c.emit("}")
	case *ast.TypeSwitchStmt:
		line := "switch "
		if s.Init != nil {
			line += c.simple(s.Init, &lits) + "; "
		}
		c.emit(line + c.simple(s.Assign, &lits) + " {")
		c.lits(lits)
		c.cases(s.Body)
		c.emit("}")
	case *ast.ReturnStmt:
		if len(s.Results) == 0 {
			c.emit("return")
			return
		}
		c.emit("return " + c.exprs(s.Results, &lits))
		c.lits(lits)
	case *ast.BranchStmt:
		if s.Label != nil {
			c.emit(s.Tok.String() + " " + s.Label.Name)
		} else {
			c.emit(s.Tok.String())
		}
	case *ast.LabeledStmt:
		c.emit("label " + s.Label.Name + ":")
		c.stmt(s.Stmt)
	case *ast.DeferStmt:
		c.emit("defer " + c.expr(s.Call, &lits))
		c.lits(lits)
	case *ast.GoStmt:
		c.emit("go " + c.expr(s.Call, &lits))
		c.lits(lits)
	case *ast.BlockStmt:
		c.emit("{")
		c.stmts(s.List)
		c.emit("}")
	case *ast.EmptyStmt:
	default:
		c.emit(fmt.Sprintf("stmt %T", st))
	}
}

func (c *skelCtx) cases(body *ast.BlockStmt) {
	for _, cl := range body.List {
		cc, ok := cl.(*ast.CaseClause)
		if !ok {
			c.emit(fmt.Sprintf("stmt %T", cl))
			continue
		}
		var lits []*ast.FuncLit
		if cc.List == nil {
			c.emit("default:")
		} else {
			c.emit("case " + c.exprs(cc.List, &lits) + ":")
		}
		c.lits(lits)
		c.stmts(cc.Body)
	}
}

func (c *skelCtx) ifStmt(s *ast.IfStmt, head string) {
	var lits []*ast.FuncLit
	if s.Init != nil {
		if c.noiseStmt(s.Init) {
			return // `if err := emitEvent(…); err != nil { … }`
		}
		head += c.simple(s.Init, &lits) + "; "
	}
	c.emit(head + c.expr(s.Cond, &lits) + " {")
	c.lits(lits)
	c.stmts(s.Body.List)
	switch e := s.Else.(type) {
	case *ast.IfStmt:
		c.ifStmt(e, "} else if ")
		return
	case *ast.BlockStmt:
		c.emit("} else {")
		c.stmts(e.List)
	}
	c.emit("}")
}

// skeletonWith computes the skeleton of one function under a configuration
func skeletonWith(p *pkgSrc, fn *ast.FuncDecl, cfg skelCfg) []string {
	c := &skelCtx{p: p, cfg: cfg, noise: map[string]bool{}}
	if fn.Body != nil {
		c.stmts(fn.Body.List)
	}
	return c.out
}

type skelFn struct{ goName, lean string }

// emitSkeletons writes one `def <lean> : List String` per function; a missing function becomes an
// `opaque` with a note (the tie lemma then fails; nothing stale is kept)
func emitSkeletons(b *strings.Builder, notes *[]string, p *pkgSrc, where string, cfg skelCfg, fns []skelFn) {
	for _, f := range fns {
		fd, ok := p.funcs[f.goName]
		if !ok || fd.Body == nil {
			*notes = append(*notes, "function "+f.goName+" not found in "+where)
			fmt.Fprintf(b, "opaque %s : List String\n\n", f.lean)
			continue
		}
		fmt.Fprintf(b, "/-- skeleton of `%s` (%s) -/\ndef %s : List String :=\n  %s\n\n", f.goName, where, f.lean,
			leanStrList(skeletonWith(p, fd, cfg)))
	}
}

// globGo: the non-test, non-generated Go files of a directory
func globGo(dir string) ([]string, error) {
	all, err := filepath.Glob(filepath.Join(dir, "*.go"))
	if err != nil {
		return nil, err
	}
	var out []string
	for _, f := range all {
		if strings.HasSuffix(f, "_test.go") || strings.HasSuffix(f, ".pb.go") || strings.HasSuffix(f, ".pb.gw.go") {
			continue
		}
		out = append(out, f)
	}
	return out, nil
}

// loadSome parses the files that exist and parse; the others become notes (the functions looked for
// in them are then reported missing one by one)
func loadSome(notes *[]string, paths ...string) *pkgSrc {
	var ok []string
	for _, f := range paths {
		if _, err := parser.ParseFile(token.NewFileSet(), f, nil, parser.SkipObjectResolution); err != nil {
			*notes = append(*notes, "cannot read "+f+": "+firstLine(err.Error()))
			continue
		}
		ok = append(ok, f)
	}
	p, err := loadFiles(ok...)
	if err != nil || p == nil {
		return &pkgSrc{fset: token.NewFileSet(), funcs: map[string]*ast.FuncDecl{}, vars: map[string]ast.Expr{}}
	}
	return p
}

func firstLine(s string) string {
	if i := strings.IndexByte(s, '\n'); i >= 0 {
		return s[:i]
	}
	return s
}

// loadDirSome: loadSome over the Go files of a directory
func loadDirSome(notes *[]string, dir string) *pkgSrc {
	files, err := globGo(dir)
	if err != nil || len(files) == 0 {
		*notes = append(*notes, "no Go files in "+dir)
	}
	return loadSome(notes, files...)
}
