package main

// Gen/Lockup.lean — regenerated facts about x/lockup that the M-Lockup model (C14) mirrors:
//   * the constant MinBlockHeightToBeginAutoWithdrawing of lockup.EndBlocker,
//   * for every mirrored function its "skeleton": the `if` conditions and the keeper / bank / txfees /
//     hooks calls in source order.  Lemmas/GenEqLockup.lean states the skeletons the model was written
//     against; a changed guard, a dropped owner check or a reordered effect breaks that lemma.

import (
	"bytes"
	"fmt"
	"go/ast"
	"go/printer"
	"go/token"
	"path/filepath"
	"strconv"
	"strings"
)

func exprText(fset *token.FileSet, e ast.Node) string {
	var b bytes.Buffer
	_ = printer.Fprint(&b, fset, e)
	return strings.Join(strings.Fields(b.String()), " ")
}

func rootIdent(e ast.Expr) string {
	for {
		switch x := e.(type) {
		case *ast.Ident:
			return x.Name
		case *ast.SelectorExpr:
			e = x.X
		case *ast.CallExpr:
			e = x.Fun
		default:
			return ""
		}
	}
}

// skeleton: the flat skeleton (see skel.go) with the root identifiers of interest for x/lockup.
func skeleton(p *pkgSrc, fn *ast.FuncDecl) []string {
	return skeletonRoots(p, fn, skelRoots{calls: rootSet("k", "server", "keeper"), sets: rootSet("lock")})
}

func leanStrList(xs []string) string {
	q := make([]string, len(xs))
	for i, x := range xs {
		q[i] = strconv.Quote(x)
	}
	return "[" + strings.Join(q, ",\n   ") + "]"
}

func genLockup(repo string) (string, []string, error) {
	var notes []string
	var b strings.Builder
	b.WriteString("namespace DymVerif.Gen.Lockup\n\n")
	p, err := loadFiles(
		filepath.Join(repo, "x/lockup/abci.go"),
		filepath.Join(repo, "x/lockup/keeper/msg_server.go"),
		filepath.Join(repo, "x/lockup/keeper/lock.go"),
		filepath.Join(repo, "x/lockup/keeper/iterator.go"),
		filepath.Join(repo, "x/lockup/types/msgs.go"),
		filepath.Join(repo, "x/lockup/types/lock.go"),
	)
	if err != nil {
		return "", nil, err
	}
	// --- the constant in EndBlocker
	eb, ok := p.funcs["EndBlocker"]
	if !ok {
		return "", nil, fmt.Errorf("lockup.EndBlocker not found")
	}
	minH := -1
	ast.Inspect(eb.Body, func(n ast.Node) bool {
		as, ok := n.(*ast.AssignStmt)
		if !ok || len(as.Lhs) != 1 || len(as.Rhs) != 1 {
			return true
		}
		if id, ok := as.Lhs[0].(*ast.Ident); ok && id.Name == "MinBlockHeightToBeginAutoWithdrawing" {
			e := as.Rhs[0]
			if c, ok := e.(*ast.CallExpr); ok && len(c.Args) == 1 { // int64(6)
				e = c.Args[0]
			}
			if v, err := p.constInt(e, 0); err == nil {
				minH = v
			}
		}
		return true
	})
	if minH < 0 {
		notes = append(notes, "MinBlockHeightToBeginAutoWithdrawing not found as a constant assignment in EndBlocker")
		b.WriteString("opaque minBlockHeightToBeginAutoWithdrawing : Nat\n\n")
	} else {
		fmt.Fprintf(&b, "/-- x/lockup/abci.go EndBlocker -/\ndef minBlockHeightToBeginAutoWithdrawing : Nat := %d\n\n", minH)
	}
	// --- skeletons
	fns := []struct{ goName, lean string }{
		{"EndBlocker", "endBlocker"},
		{"msgServer.LockTokens", "msgLockTokens"},
		{"msgServer.BeginUnlocking", "msgBeginUnlocking"},
		{"msgServer.ExtendLockup", "msgExtendLockup"},
		{"msgServer.ForceUnlock", "msgForceUnlock"},
		{"Keeper.ChargeLockFee", "chargeLockFee"},
		{"Keeper.AddToExistingLock", "addToExistingLock"},
		{"Keeper.AddTokensToLockByID", "addTokensToLockByID"},
		{"Keeper.CreateLock", "createLock"},
		{"Keeper.lock", "lock"},
		{"Keeper.beginUnlock", "beginUnlock"},
		{"Keeper.splitLock", "splitLock"},
		{"Keeper.PartialForceUnlock", "partialForceUnlock"},
		{"Keeper.ForceUnlock", "forceUnlock"},
		{"Keeper.UnlockMaturedLock", "unlockMaturedLock"},
		{"Keeper.unlockMaturedLockInternalLogic", "unlockMaturedLockInternalLogic"},
		{"Keeper.ExtendLockup", "extendLockup"},
		{"Keeper.WithdrawAllMaturedLocks", "withdrawAllMaturedLocks"},
		{"Keeper.unlockFromIterator", "unlockFromIterator"},
		{"MsgLockTokens.ValidateBasic", "vbLockTokens"},
		{"MsgBeginUnlocking.ValidateBasic", "vbBeginUnlocking"},
		{"MsgExtendLockup.ValidateBasic", "vbExtendLockup"},
		{"MsgForceUnlock.ValidateBasic", "vbForceUnlock"},
		{"PeriodLock.IsUnlocking", "isUnlocking"},
	}
	for _, f := range fns {
		fd, ok := p.funcs[f.goName]
		if !ok || fd.Body == nil {
			notes = append(notes, "function "+f.goName+" not found")
			fmt.Fprintf(&b, "opaque %s : List String\n\n", f.lean)
			continue
		}
		sk := skeleton(p, fd)
		if f.goName == "PeriodLock.IsUnlocking" { // a one-line predicate: keep its body text
			sk = []string{exprText(p.fset, fd.Body)}
		}
		fmt.Fprintf(&b, "/-- %s -/\ndef %s : List String :=\n  %s\n\n", f.goName, f.lean, leanStrList(sk))
	}
	// --- genesis / params facts behind Model/LockupChain (restart, setParams): the function bodies as
	//     normalised source text, and the initialisers of the constants DefaultParams depends on
	g, err := loadFiles(
		filepath.Join(repo, "x/lockup/keeper/genesis.go"),
		filepath.Join(repo, "x/lockup/keeper/keeper.go"),
		filepath.Join(repo, "x/lockup/keeper/store.go"),
		filepath.Join(repo, "x/lockup/keeper/utils.go"),
		filepath.Join(repo, "x/lockup/types/params.go"),
		filepath.Join(repo, "x/lockup/types/constants.go"),
		filepath.Join(repo, "x/common/types/constants.go"),
	)
	if err != nil {
		return "", nil, err
	}
	bodies := []struct{ goName, lean string }{
		{"Keeper.InitGenesis", "initGenesisBody"},
		{"Keeper.ExportGenesis", "exportGenesisBody"},
		{"Keeper.GetPeriodLocks", "getPeriodLocksBody"},
		{"combineLocks", "combineLocksBody"},
		{"DefaultParams", "defaultParamsBody"},
		{"Keeper.SetParams", "setParamsBody"},
		{"Keeper.GetParams", "getParamsBody"},
	}
	for _, f := range bodies {
		fd, ok := g.funcs[f.goName]
		if !ok || fd.Body == nil {
			notes = append(notes, "function "+f.goName+" not found")
			fmt.Fprintf(&b, "opaque %s : String\n\n", f.lean)
			continue
		}
		fmt.Fprintf(&b, "/-- %s -/\ndef %s : String :=\n  %s\n\n", f.goName, f.lean, strconv.Quote(exprText(g.fset, fd.Body)))
	}
	for _, v := range []struct{ goName, lean string }{{"DefaultLockFee", "defaultLockFeeInit"}, {"DYM", "dymInit"}} {
		e, ok := g.vars[v.goName]
		if ie, isIota := e.(*iotaExpr); ok && isIota {
			fmt.Fprintf(&b, "/-- initialiser of %s -/\ndef %s : String := %s\n\n", v.goName, v.lean, strconv.Quote(exprText(g.fset, ie.e)))
		} else {
			notes = append(notes, "initialiser of "+v.goName+" not found")
			fmt.Fprintf(&b, "opaque %s : String\n\n", v.lean)
		}
	}
	b.WriteString("end DymVerif.Gen.Lockup\n")
	return b.String(), notes, nil
}
