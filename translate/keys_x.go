package main

import "strings"

// genKeysX: x/rollapp store keys, remaining '/'-separated families, demand-order ids.
func genKeysX(repo string, b *strings.Builder, notes *[]string) error {
	return nil
}
