package main

import (
	"go/ast"
	"path/filepath"
	"strings"
)

// structFieldFn translates a key builder whose parameter is a struct (`AppKey(app App)`,
// `StateInfoKey(stateInfoIndex StateInfoIndex)`): every `param.Field` becomes the parameter
// lowerFirst(Field) of the generated Lean function.
func structFieldFn(p *pkgSrc, tr *bytesTranslator, goName, lean string, fields []string, specs []paramSpec, notes *[]string) string {
	d := p.funcs[goName]
	var sig []string
	for i, f := range fields {
		sig = append(sig, "("+lid(lowerFirst(f))+" : "+leanParamType(specs[i])+")")
	}
	opaque := "opaque " + lean + " " + strings.Join(sig, " ") + " : Bytes\n\n"
	if d == nil || d.Body == nil || len(d.Type.Params.List) != 1 || len(d.Type.Params.List[0].Names) != 1 {
		*notes = append(*notes, goName+": not found or parameter list changed")
		return opaque
	}
	recv := d.Type.Params.List[0].Names[0].Name
	ast.Inspect(d.Body, func(n ast.Node) bool {
		if x, ok := n.(*ast.CallExpr); ok {
			for i, a := range x.Args {
				if sel, ok := a.(*ast.SelectorExpr); ok {
					if id, ok := sel.X.(*ast.Ident); ok && id.Name == recv {
						x.Args[i] = ast.NewIdent(lowerFirst(sel.Sel.Name))
					}
				}
			}
		}
		return true
	})
	en := env{}
	for i, f := range fields {
		en[lowerFirst(f)] = specs[i]
	}
	body, err := tr.body(d.Body.List, en)
	if err != nil {
		*notes = append(*notes, goName+": "+err.Error())
		return opaque
	}
	return "/-- translated from `" + goName + "` -/\ndef " + lean + " " + strings.Join(sig, " ") + " : Bytes :=\n  " + body + "\n\n"
}

// genKeysX: x/rollapp store keys (types/key_*.go), the chain-id grammar constants, the remaining
// prefix constants and the statement listings of the scans built on them.
func genKeysX(repo string, b *strings.Builder, notes *[]string) error {
	rt, err := loadFiles(
		filepath.Join(repo, "x/rollapp/types/key_app.go"),
		filepath.Join(repo, "x/rollapp/types/key_block_height_to_finalization_queue.go"),
		filepath.Join(repo, "x/rollapp/types/key_latest_finalized_state_index.go"),
		filepath.Join(repo, "x/rollapp/types/key_latest_state_info_index.go"),
		filepath.Join(repo, "x/rollapp/types/key_rollapp.go"),
		filepath.Join(repo, "x/rollapp/types/key_state_info.go"),
		filepath.Join(repo, "x/rollapp/types/keys.go"),
		filepath.Join(repo, "x/rollapp/types/chain_id.go"),
		filepath.Join(repo, "x/rollapp/types/liveness.go"),
	)
	if err != nil {
		return err
	}
	tr := &bytesTranslator{p: rt, specs: map[string]*fnSpec{}, enumCases: map[string]string{}}
	for _, sp := range []*fnSpec{
		{goName: "RollappKey", leanName: "rollappKey", params: []paramSpec{psBytes}},
		{goName: "LatestStateInfoIndexKey", leanName: "latestStateInfoIndexKey", params: []paramSpec{psBytes}},
		{goName: "LatestFinalizedStateIndexKey", leanName: "latestFinalizedStateIndexKey", params: []paramSpec{psBytes}},
		{goName: "BlockHeightToFinalizationQueueKey", leanName: "blockHeightToFinalizationQueueKey", params: []paramSpec{psU64}},
		{goName: "RollappByEIP155Key", leanName: "rollappByEIP155Key", params: []paramSpec{psU64}},
		{goName: "RollappAppKeyPrefix", leanName: "rollappAppKeyPrefix", params: []paramSpec{psBytes}},
	} {
		tr.specs[sp.goName] = sp
		b.WriteString(tr.fn(sp) + "\n")
	}
	b.WriteString(structFieldFn(rt, tr, "StateInfoKey", "stateInfoKey", []string{"RollappId", "Index"}, []paramSpec{psBytes, psU64}, notes))
	b.WriteString(structFieldFn(rt, tr, "AppKey", "appKey", []string{"RollappId", "Id"}, []paramSpec{psBytes, psU64}, notes))
	for _, c := range [][2]string{
		{"RollappKeyPrefix", "rollappKeyPrefix"}, {"RollappByEIP155KeyPrefix", "rollappByEIP155KeyPrefix"},
		{"StateInfoKeyPrefix", "stateInfoKeyPrefix"}, {"LatestStateInfoIndexKeyPrefix", "latestStateInfoIndexKeyPrefix"},
		{"LatestFinalizedStateIndexKeyPrefix", "latestFinalizedStateIndexKeyPrefix"},
		{"BlockHeightToFinalizationQueueKeyPrefix", "blockHeightToFinalizationQueueKeyPrefix"},
		{"HeightRollappToFinalizationQueueKeyPrefix", "heightRollappToFinalizationQueueKeyPrefix"},
		{"RollappHeightToFinalizationQueueKeyPrefix", "rollappHeightToFinalizationQueueKeyPrefix"},
		{"AppKeyPrefix", "appKeyPrefix"}, {"AppSequenceKeyPrefix", "appSequenceKeyPrefix"},
		{"ObsoleteDRSVersionsKeyPrefix", "obsoleteDRSVersionsKeyPrefix"}, {"KeyRegisteredDenomPrefix", "keyRegisteredDenomPrefix"},
		{"LivenessEventQueueKeyPrefix", "livenessEventQueueKeyPrefix"},
		// the grammar of rollapp ids
		{"regexChainID", "regexChainID"}, {"regexEIP155Separator", "regexEIP155Separator"}, {"regexEIP155", "regexEIP155"},
		{"regexEpochSeparator", "regexEpochSeparator"}, {"regexEpoch", "regexEpoch"},
	} {
		emitCollPrefix(b, notes, tr, c[0], c[1])
	}
	emitListing(b, notes, rt, "NewChainID", "newChainIDListing")
	*notes = append(*notes, tr.notes...)

	rk, err := loadFiles(filepath.Join(repo, "x/rollapp/keeper/rollapp.go"), filepath.Join(repo, "x/rollapp/keeper/liveness.go"))
	if err != nil {
		return err
	}
	emitListing(b, notes, rk, "Keeper.GetRollappByName", "getRollappByNameListing")
	emitListing(b, notes, rk, "Keeper.GetLivenessEvents", "getLivenessEventsListing")

	ek, err := loadFiles(filepath.Join(repo, "x/eibc/keeper/keeper.go"), filepath.Join(repo, "x/eibc/types/keys.go"))
	if err != nil {
		return err
	}
	tre := &bytesTranslator{p: ek, specs: map[string]*fnSpec{}, enumCases: map[string]string{}}
	emitCollPrefix(b, notes, tre, "PendingDemandOrderKeyPrefix", "pendingDemandOrderKeyPrefix")
	emitCollPrefix(b, notes, tre, "FinalizedDemandOrderKeyPrefix", "finalizedDemandOrderKeyPrefix")
	emitListing(b, notes, ek, "Keeper.ListDemandOrdersByStatus", "listDemandOrdersByStatusListing")

	sk, err := loadFiles(filepath.Join(repo, "x/sequencer/keeper/get_and_set.go"))
	if err != nil {
		return err
	}
	for _, fn := range [][2]string{{"Keeper.RollappSequencers", "rollappSequencersListing"}, {"Keeper.RollappSequencersByStatus", "rollappSequencersByStatusListing"},
		{"Keeper.prefixSequencers", "prefixSequencersListing"}} {
		emitListing(b, notes, sk, fn[0], fn[1])
	}
	return nil
}
