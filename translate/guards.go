package main

// guards.go — regenerates lean/DymVerif/Gen/Guards.lean: one row per message handler registered in
// a custom module's gRPC Msg service (x/*/types/*.pb.go `_…_serviceDesc`, Query services skipped)
// and one row per legacy governance content type routed by x/*/proposal_handler.go.
//
// Per Msg row: request type, signer field (cosmos.msg.v1.signer option decoded from the gzipped
// file descriptor embedded in the .pb.go; fallback: the field read by a hand-written GetSigners),
// whether the struct has an `Authority` field, and the *signer guard* found by a syntactic analysis
// of the handler:
//
//   guard     an `if` whose condition contains  A != B,  !A.Equals(B),  !A.Equal(B)  or
//             !bytes.Equal(A, B)  where exactly one side depends on the signer field (directly, via
//             a method of the message that reads it, or via locals assigned from it) and the other
//             side is neither a literal nor nil, and whose body ends in a return with a non-nil
//             last result.  B mentioning `.authority` => authority guard, otherwise owner guard.
//   self      no guard, but the first call that receives the signer is a same-package lookup
//             (Get…/Real…/MustGet…/TryGet…): the object is addressed by the signer itself.
//   guardFirst  in source order (same-package callees inlined to depth ≤ 3, callee parameters bound
//             to signer-dependence of the arguments) no write-like call precedes the guard.
//             write-like = a call that does not resolve to a function of the handler's package (or
//             is at the depth limit) and whose name starts with Set, Remove, Delete, Save, Store,
//             Send, Mint, Burn, Delegate, Undelegate, Transfer, Move, Charge, Create, Lock, Unlock,
//             Refund, Slash, Jail, Punish, HardFork, Append, Insert, Push, Clear, Prune, Finalize,
//             Fulfill, Write, Emit is NOT counted (events are discarded with the failed tx).
//
// What it cannot see (go/ast only, no type information): calls are resolved by bare name within
// the handler's package directory (first declaration with that name and arity wins); interface and
// closure calls are opaque; dominance is approximated by source order (a guard nested in an `if`
// is flagged `nested`, a guard inside a `for` over message items is accepted); aliasing through
// struct fields or pointers is not followed.  The table is validated behaviourally by the harness.

import (
	"bytes"
	"compress/gzip"
	"fmt"
	"go/ast"
	"go/parser"
	"go/token"
	"io"
	"os"
	"path/filepath"
	"regexp"
	"sort"
	"strconv"
	"strings"
)

// ownerOnly is DERIVED (no list of names): a row is owner-only when the handler — followed through
// same-package calls and Before… hooks — compares the signer field with something that is neither
// the keeper authority nor a literal (the stored owner / creator / buyer / controller / proposer of
// the object the message targets), or when the first thing it does with the signer is a same-package
// lookup keyed by it (the signer's own sequencer, vote, …) in a handler that is not a `Create…`.
// Every rpc method of every x/*/types Msg service gets a row; `rpcMethods` counts the methods of the
// service descriptors by an independent textual scan so that a dropped row is visible in Lean.

var writeLike = regexp.MustCompile(`^(Set|Remove|Delete|Save|Store|Send|Mint|Burn|Delegate|Undelegate|Transfer|Move|Charge|Create|Lock|Unlock|Refund|Slash|Jail|Punish|HardFork|Append|Insert|Push|Clear|Prune|Finalize|Fulfill|Write)`)
var lookupLike = regexp.MustCompile(`^(Get|Real|MustGet|TryGet|Find)`)
var hookLike = regexp.MustCompile(`^(Before)[A-Z]`)

// pure conversions / validations of the signer string: not "the first call that receives the signer"
var converterLike = regexp.MustCompile(`^(MustAccAddressFromBech32|AccAddressFromBech32|ValidateBasic|Validate|String|Sprintf|Errorf|Wrapf|Wrap|UnwrapSDKContext|NewAttribute|Info|Debug|Error)$`)

type xfunc struct {
	mod string
	pkg *gpkg
	fd  *ast.FuncDecl
}

// ---- minimal protobuf wire reader (for FileDescriptorProto) -------------------------------

type pbField struct {
	num  int
	wt   int
	data []byte // wt 2
	v    uint64 // wt 0
}

func pbFields(b []byte) []pbField {
	var out []pbField
	for len(b) > 0 {
		key, n := pbVarint(b)
		if n == 0 {
			return out
		}
		b = b[n:]
		f := pbField{num: int(key >> 3), wt: int(key & 7)}
		switch f.wt {
		case 0:
			v, n := pbVarint(b)
			if n == 0 {
				return out
			}
			f.v = v
			b = b[n:]
		case 1:
			if len(b) < 8 {
				return out
			}
			b = b[8:]
		case 2:
			l, n := pbVarint(b)
			if n == 0 || int(l) > len(b)-n {
				return out
			}
			f.data = b[n : n+int(l)]
			b = b[n+int(l):]
		case 5:
			if len(b) < 4 {
				return out
			}
			b = b[4:]
		default:
			return out
		}
		out = append(out, f)
	}
	return out
}

func pbVarint(b []byte) (uint64, int) {
	var v uint64
	for i := 0; i < len(b) && i < 10; i++ {
		v |= uint64(b[i]&0x7f) << (7 * uint(i))
		if b[i] < 0x80 {
			return v, i + 1
		}
	}
	return 0, 0
}

const signerExt = 11110000 // cosmos.msg.v1.signer

// signersFromDescriptor: message name -> signer field path, from the gz descriptor in a .pb.go
func signersFromDescriptor(f *ast.File) map[string]string {
	out := map[string]string{}
	for _, d := range f.Decls {
		gd, ok := d.(*ast.GenDecl)
		if !ok || gd.Tok != token.VAR {
			continue
		}
		for _, sp := range gd.Specs {
			vs := sp.(*ast.ValueSpec)
			if len(vs.Names) != 1 || !strings.HasPrefix(vs.Names[0].Name, "fileDescriptor_") || len(vs.Values) != 1 {
				continue
			}
			cl, ok := vs.Values[0].(*ast.CompositeLit)
			if !ok {
				continue
			}
			raw := make([]byte, 0, len(cl.Elts))
			for _, e := range cl.Elts {
				if bl, ok := e.(*ast.BasicLit); ok {
					v, _ := strconv.ParseUint(bl.Value, 0, 8)
					raw = append(raw, byte(v))
				}
			}
			zr, err := gzip.NewReader(bytes.NewReader(raw))
			if err != nil {
				continue
			}
			desc, err := io.ReadAll(zr)
			if err != nil {
				continue
			}
			for _, ff := range pbFields(desc) {
				if ff.num != 4 || ff.wt != 2 { // message_type
					continue
				}
				name := ""
				var signers []string
				for _, mf := range pbFields(ff.data) {
					switch {
					case mf.num == 1 && mf.wt == 2:
						name = string(mf.data)
					case mf.num == 7 && mf.wt == 2: // options
						for _, of := range pbFields(mf.data) {
							if of.num == signerExt && of.wt == 2 {
								signers = append(signers, string(of.data))
							}
						}
					}
				}
				if name != "" && len(signers) > 0 {
					out[name] = strings.Join(signers, ",")
				}
			}
		}
	}
	return out
}

// ---- package loading ----------------------------------------------------------------------

type gpkg struct {
	fset  *token.FileSet
	files []*ast.File
	funcs map[string][]*ast.FuncDecl
}

func loadDir(fset *token.FileSet, dirs ...string) *gpkg {
	p := &gpkg{fset: fset, funcs: map[string][]*ast.FuncDecl{}}
	for _, dir := range dirs {
		ents, _ := os.ReadDir(dir)
		for _, e := range ents {
			n := e.Name()
			if e.IsDir() || !strings.HasSuffix(n, ".go") || strings.HasSuffix(n, "_test.go") {
				continue
			}
			f, err := parser.ParseFile(fset, filepath.Join(dir, n), nil, 0)
			if err != nil {
				continue
			}
			p.files = append(p.files, f)
			for _, d := range f.Decls {
				if fd, ok := d.(*ast.FuncDecl); ok && fd.Body != nil {
					p.funcs[fd.Name.Name] = append(p.funcs[fd.Name.Name], fd)
				}
			}
		}
	}
	return p
}

func snakeToCamel(s string) string {
	parts := strings.Split(s, "_")
	for i, p := range parts {
		if p != "" {
			parts[i] = strings.ToUpper(p[:1]) + p[1:]
		}
	}
	return strings.Join(parts, "")
}

func paramNames(fd *ast.FuncDecl) []string {
	var out []string
	for _, f := range fd.Type.Params.List {
		if len(f.Names) == 0 {
			out = append(out, "_")
		}
		for _, n := range f.Names {
			out = append(out, n.Name)
		}
	}
	return out
}

func guardExprStr(fset *token.FileSet, e ast.Node) string { return squash(printNode(fset, e)) }

// ---- the analysis -------------------------------------------------------------------------

type guardRes struct {
	kind      string // authority | owner | self | none
	other     string // the expression the signer is compared with
	first     bool
	nested    string   // "", "if", "for", …
	preWrites []string // write-like calls seen before the guard
	where     string   // function in which the guard was found
}

type ganalyzer struct {
	pkg           *gpkg
	msgMethods    map[string]bool // methods of the message type that read the signer field
	signerSel     []string        // Go selector path of the signer field, e.g. ["Owner"] or ["Lp","FundsAddr"]
	res           *guardRes
	hooks         map[string][]xfunc // Before… methods of every x/*/keeper package
	firstLook     string
	sawSignerCall bool
}

type genv struct {
	msg     map[string]bool // identifiers holding the whole message
	tainted map[string]bool // identifiers depending on the signer
}

func (a *ganalyzer) mentions(e ast.Node, en *genv) bool {
	found := false
	ast.Inspect(e, func(n ast.Node) bool {
		if found {
			return false
		}
		switch x := n.(type) {
		case *ast.Ident:
			if en.tainted[x.Name] {
				found = true
			}
		case *ast.SelectorExpr:
			// msg.<path…> or msg.GetX()
			if a.selIsSigner(x, en) {
				found = true
				return false
			}
		}
		return true
	})
	return found
}

// selIsSigner: x is msg.F1(.F2…) matching the signer path, or a method of msg that reads it
func (a *ganalyzer) selIsSigner(x *ast.SelectorExpr, en *genv) bool {
	// collect selector chain
	var chain []string
	var cur ast.Expr = x
	for {
		switch c := cur.(type) {
		case *ast.SelectorExpr:
			chain = append([]string{c.Sel.Name}, chain...)
			cur = c.X
			continue
		case *ast.CallExpr: // msg.GetLp().FundsAddr
			cur = c.Fun
			continue
		case *ast.Ident:
			if !en.msg[c.Name] {
				return false
			}
		default:
			return false
		}
		break
	}
	if len(chain) == 0 {
		return false
	}
	norm := func(s string) string { return strings.TrimPrefix(s, "Get") }
	if len(chain) >= len(a.signerSel) {
		ok := true
		for i, s := range a.signerSel {
			if norm(chain[i]) != s {
				ok = false
				break
			}
		}
		if ok {
			return true
		}
	}
	return a.msgMethods[chain[0]]
}

func lastResultNonNil(body *ast.BlockStmt) bool {
	if body == nil || len(body.List) == 0 {
		return false
	}
	switch s := body.List[len(body.List)-1].(type) {
	case *ast.ReturnStmt:
		if len(s.Results) == 0 {
			// naked return with named results: `err = <non-nil>; return`
			if len(body.List) >= 2 {
				if as, ok := body.List[len(body.List)-2].(*ast.AssignStmt); ok && len(as.Lhs) == 1 && len(as.Rhs) == 1 {
					if id, ok := as.Lhs[0].(*ast.Ident); ok && id.Name == "err" && !isLiteralish(as.Rhs[0]) {
						return true
					}
				}
			}
			return false
		}
		if id, ok := s.Results[len(s.Results)-1].(*ast.Ident); ok && id.Name == "nil" {
			return false
		}
		return true
	case *ast.IfStmt: // if … {return A}; (else) falls to return B — handled by caller’s last stmt
		return false
	case *ast.ExprStmt:
		if c, ok := s.X.(*ast.CallExpr); ok {
			if id, ok := c.Fun.(*ast.Ident); ok && id.Name == "panic" {
				return true
			}
		}
	}
	return false
}

func isLiteralish(e ast.Expr) bool {
	switch x := e.(type) {
	case *ast.BasicLit:
		return true
	case *ast.Ident:
		return x.Name == "nil" || x.Name == "true" || x.Name == "false"
	}
	return false
}

// guardIn looks for a signer comparison inside a condition; returns the other side's text
func (a *ganalyzer) guardIn(cond ast.Expr, en *genv) (string, bool) {
	var other string
	ok := false
	try := func(l, r ast.Expr) {
		if ok {
			return
		}
		lm, rm := a.mentions(l, en), a.mentions(r, en)
		if lm && !rm && !isLiteralish(r) {
			other, ok = guardExprStr(a.pkg.fset, r), true
		} else if rm && !lm && !isLiteralish(l) {
			other, ok = guardExprStr(a.pkg.fset, l), true
		}
	}
	ast.Inspect(cond, func(n ast.Node) bool {
		if ok {
			return false
		}
		switch x := n.(type) {
		case *ast.BinaryExpr:
			if x.Op == token.NEQ {
				try(x.X, x.Y)
			}
		case *ast.UnaryExpr:
			if x.Op == token.NOT {
				if c, isCall := x.X.(*ast.CallExpr); isCall {
					if se, isSel := c.Fun.(*ast.SelectorExpr); isSel && (se.Sel.Name == "Equals" || se.Sel.Name == "Equal") {
						if len(c.Args) == 1 {
							try(se.X, c.Args[0])
						} else if len(c.Args) == 2 { // bytes.Equal(a, b)
							try(c.Args[0], c.Args[1])
						}
					}
				}
			}
		}
		return true
	})
	return other, ok
}

func callName(c *ast.CallExpr) (name string, bare bool) {
	switch f := c.Fun.(type) {
	case *ast.Ident:
		return f.Name, true
	case *ast.SelectorExpr:
		return f.Sel.Name, false
	}
	return "", false
}

func (a *ganalyzer) resolve(c *ast.CallExpr, self *ast.FuncDecl) *ast.FuncDecl {
	name, _ := callName(c)
	for _, fd := range a.pkg.funcs[name] {
		if fd == self { // msgServer.Foo calling Keeper.Foo: same name, same arity
			continue
		}
		n := len(paramNames(fd))
		if n == len(c.Args) || (fd.Type.Params.NumFields() > 0 && isVariadic(fd) && len(c.Args) >= n-1) {
			return fd
		}
	}
	return nil
}

func isVariadic(fd *ast.FuncDecl) bool {
	l := fd.Type.Params.List
	if len(l) == 0 {
		return false
	}
	_, ok := l[len(l)-1].Type.(*ast.Ellipsis)
	return ok
}

// walk statements in source order; returns true once the guard has been found
func (a *ganalyzer) walk(fd *ast.FuncDecl, en *genv, depth int, nest string) bool {
	return a.stmts(fd.Body.List, fd, en, depth, nest)
}

func (a *ganalyzer) stmts(list []ast.Stmt, fd *ast.FuncDecl, en *genv, depth int, nest string) bool {
	for _, st := range list {
		if a.stmt(st, fd, en, depth, nest) {
			return true
		}
	}
	return false
}

func (a *ganalyzer) stmt(st ast.Stmt, fd *ast.FuncDecl, en *genv, depth int, nest string) bool {
	switch s := st.(type) {
	case *ast.AssignStmt:
		for _, r := range s.Rhs {
			if a.calls(r, fd, en, depth, nest) {
				return true
			}
		}
		dep := false
		for _, r := range s.Rhs {
			if a.mentions(r, en) {
				dep = true
			}
		}
		if dep {
			for _, l := range s.Lhs {
				if id, ok := l.(*ast.Ident); ok && id.Name != "_" && id.Name != "err" && id.Name != "ok" && id.Name != "found" {
					en.tainted[id.Name] = true
				}
			}
		}
	case *ast.DeclStmt:
		if gd, ok := s.Decl.(*ast.GenDecl); ok {
			for _, sp := range gd.Specs {
				if vs, ok := sp.(*ast.ValueSpec); ok {
					for _, v := range vs.Values {
						if a.calls(v, fd, en, depth, nest) {
							return true
						}
						if a.mentions(v, en) {
							for _, n := range vs.Names {
								en.tainted[n.Name] = true
							}
						}
					}
				}
			}
		}
	case *ast.ExprStmt:
		return a.calls(s.X, fd, en, depth, nest)
	case *ast.ReturnStmt:
		for _, r := range s.Results {
			if a.calls(r, fd, en, depth, nest) {
				return true
			}
		}
	case *ast.IfStmt:
		if s.Init != nil {
			if a.stmt(s.Init, fd, en, depth, nest) {
				return true
			}
		}
		if a.calls(s.Cond, fd, en, depth, nest) {
			return true
		}
		if other, ok := a.guardIn(s.Cond, en); ok && (lastResultNonNil(s.Body) || endsInReturn(s.Body)) {
			kind := "owner"
			if strings.Contains(other, ".authority") || strings.Contains(other, "GetAuthority()") || strings.Contains(other, "Authority()") {
				kind = "authority"
			}
			a.res.kind, a.res.other, a.res.nested, a.res.where = kind, other, nest, fd.Name.Name
			a.res.first = len(a.res.preWrites) == 0
			return true
		}
		if a.stmts(s.Body.List, fd, en, depth, joinNest(nest, "if")) {
			return true
		}
		if s.Else != nil {
			switch e := s.Else.(type) {
			case *ast.BlockStmt:
				return a.stmts(e.List, fd, en, depth, joinNest(nest, "if"))
			case *ast.IfStmt:
				return a.stmt(e, fd, en, depth, joinNest(nest, "if"))
			}
		}
	case *ast.ForStmt:
		return a.stmts(s.Body.List, fd, en, depth, joinNest(nest, "for"))
	case *ast.RangeStmt:
		if a.calls(s.X, fd, en, depth, nest) {
			return true
		}
		return a.stmts(s.Body.List, fd, en, depth, joinNest(nest, "for"))
	case *ast.BlockStmt:
		return a.stmts(s.List, fd, en, depth, nest)
	case *ast.SwitchStmt:
		for _, cc := range s.Body.List {
			if a.stmts(cc.(*ast.CaseClause).Body, fd, en, depth, joinNest(nest, "switch")) {
				return true
			}
		}
	case *ast.DeferStmt:
		// deferred calls run after the body; ignored
	}
	return false
}

func endsInReturn(b *ast.BlockStmt) bool {
	// `if guard { if x {return A}; return B }`
	if b == nil || len(b.List) == 0 {
		return false
	}
	r, ok := b.List[len(b.List)-1].(*ast.ReturnStmt)
	if !ok || len(r.Results) == 0 {
		return false
	}
	id, isId := r.Results[len(r.Results)-1].(*ast.Ident)
	return !(isId && id.Name == "nil")
}

func joinNest(a, b string) string {
	if a == "" {
		return b
	}
	return a + "/" + b
}

// calls handles every call inside e in evaluation order (arguments before the call itself)
func (a *ganalyzer) calls(e ast.Node, fd *ast.FuncDecl, en *genv, depth int, nest string) bool {
	if e == nil {
		return false
	}
	var list []*ast.CallExpr
	ast.Inspect(e, func(n ast.Node) bool {
		if _, isLit := n.(*ast.FuncLit); isLit {
			return false
		}
		if c, ok := n.(*ast.CallExpr); ok {
			list = append(list, c)
		}
		return true
	})
	// inner calls first
	for i := len(list) - 1; i >= 0; i-- {
		c := list[i]
		name, _ := callName(c)
		if name == "" {
			continue
		}
		callee := a.resolve(c, fd)
		if callee != nil && callee != fd && depth < 3 {
			// bind parameters
			ps := paramNames(callee)
			cen := &genv{msg: map[string]bool{}, tainted: map[string]bool{}}
			passes := false
			for j, arg := range c.Args {
				if j >= len(ps) {
					break
				}
				if id, ok := arg.(*ast.Ident); ok && en.msg[id.Name] {
					cen.msg[ps[j]] = true
					passes = true
				} else if st, ok := arg.(*ast.StarExpr); ok {
					if id, ok := st.X.(*ast.Ident); ok && en.msg[id.Name] {
						cen.msg[ps[j]] = true
						passes = true
					}
				} else if a.mentions(arg, en) {
					cen.tainted[ps[j]] = true
					passes = true
				}
			}
			// a same-package helper that merely forwards the signer is looked into, not judged by name;
			// a same-package LOOKUP keyed by the signer is what makes a handler `self`
			onlySigner := true // keyed by the signer alone: every argument but the context depends on it
			for j, arg := range c.Args {
				if id, ok := arg.(*ast.Ident); ok && j == 0 && (id.Name == "ctx" || id.Name == "goCtx") {
					continue
				}
				if !a.mentions(arg, en) {
					onlySigner = false
				}
			}
			if passes && !a.sawSignerCall && lookupLike.MatchString(name) && !onlySigner {
				a.sawSignerCall = true // a lookup of something else that merely receives the signer
			}
			if passes && !a.sawSignerCall && lookupLike.MatchString(name) {
				a.sawSignerCall = true
				if len(a.res.preWrites) == 0 {
					a.firstLook = name
				}
			}
			if a.walk(callee, cen, depth+1, nest) {
				return true
			}
			continue
		}
		// hooks: `k.hooks.BeforeXxx(ctx, msg.Signer, …)` dispatches through an interface to the other
		// modules' keepers; every implementation `BeforeXxx` with the same arity in any x/*/keeper is
		// analysed with the signer-dependence of the arguments (a guard in one of them guards the handler)
		if callee == nil && hookLike.MatchString(name) && depth < 3 {
			if _, isSel := c.Fun.(*ast.SelectorExpr); isSel {
				tainted := false
				for _, arg := range c.Args {
					if a.mentions(arg, en) {
						tainted = true
					}
				}
				if tainted {
					for _, xf := range a.hooks[name] {
						ps := paramNames(xf.fd)
						if len(ps) != len(c.Args) || xf.pkg == a.pkg {
							continue
						}
						cen := &genv{msg: map[string]bool{}, tainted: map[string]bool{}}
						for j, arg := range c.Args {
							if a.mentions(arg, en) {
								cen.tainted[ps[j]] = true
							}
						}
						savedPkg := a.pkg
						a.pkg = xf.pkg
						found := a.walk(xf.fd, cen, depth+1, nest)
						a.pkg = savedPkg
						if found {
							a.res.where = xf.mod + "." + a.res.where
							return true
						}
					}
				}
			}
		}
		// unresolved / external / depth limit: judge by name
		if writeLike.MatchString(name) {
			a.res.preWrites = append(a.res.preWrites, name)
		}
		if !a.sawSignerCall && !converterLike.MatchString(name) {
			for _, arg := range c.Args {
				if a.mentions(arg, en) {
					// an external call (bank, account keeper, another module) is no "own object" lookup
					a.sawSignerCall = true
					break
				}
			}
		}
	}
	return false
}

// ---- generator ----------------------------------------------------------------------------

type guardRow struct {
	key, service, method, signer, handler string
	hasAuth, ownerOnly, govOnly           bool
	res                                   guardRes
	legacy                                bool
}

func genGuards(repo string) (string, []string, error) {
	var notes []string
	fset := token.NewFileSet()
	mods, _ := filepath.Glob(filepath.Join(repo, "x", "*"))
	sort.Strings(mods)
	var rows []guardRow
	svcRe := regexp.MustCompile(`^_(\w+)_serviceDesc$`)
	// Before… methods of every keeper package (hook implementations)
	hooks := map[string][]xfunc{}
	kpkgs := map[string]*gpkg{}
	for _, mdir := range mods {
		kp := loadDir(fset, filepath.Join(mdir, "keeper"))
		kpkgs[mdir] = kp
		for name, fds := range kp.funcs {
			if !hookLike.MatchString(name) {
				continue
			}
			for _, fd := range fds {
				if fd.Recv != nil {
					hooks[name] = append(hooks[name], xfunc{mod: filepath.Base(mdir), pkg: kp, fd: fd})
				}
			}
		}
	}
	for name := range hooks {
		sort.Slice(hooks[name], func(i, j int) bool { return hooks[name][i].mod < hooks[name][j].mod })
	}
	// rpc methods per service descriptor: independent textual scan of the generated files
	type rpcCount struct {
		key string
		n   int
	}
	var rpcs []rpcCount
	descRe := regexp.MustCompile(`(?s)var _(\w+)_serviceDesc = grpc\.ServiceDesc\{(.*?)\n\tStreams:`)
	for _, mdir := range mods {
		pbs, _ := filepath.Glob(filepath.Join(mdir, "types", "*.pb.go"))
		sort.Strings(pbs)
		for _, pb := range pbs {
			src, err := os.ReadFile(pb)
			if err != nil {
				continue
			}
			for _, m := range descRe.FindAllStringSubmatch(string(src), -1) {
				if m[1] == "Query" {
					continue
				}
				rpcs = append(rpcs, rpcCount{filepath.Base(mdir) + "." + m[1], strings.Count(m[2], "MethodName:")})
			}
		}
	}
	for _, mdir := range mods {
		mod := filepath.Base(mdir)
		pbs, _ := filepath.Glob(filepath.Join(mdir, "types", "*.pb.go"))
		sort.Strings(pbs)
		var kp *gpkg
		var tp *gpkg
		for _, pb := range pbs {
			f, err := parser.ParseFile(fset, pb, nil, 0)
			if err != nil {
				return "", nil, err
			}
			// services in this file
			type svc struct {
				name    string
				methods []string
			}
			var svcs []svc
			for _, d := range f.Decls {
				gd, ok := d.(*ast.GenDecl)
				if !ok || gd.Tok != token.VAR {
					continue
				}
				for _, sp := range gd.Specs {
					vs := sp.(*ast.ValueSpec)
					if len(vs.Names) != 1 || len(vs.Values) != 1 {
						continue
					}
					m := svcRe.FindStringSubmatch(vs.Names[0].Name)
					if m == nil || m[1] == "Query" {
						continue
					}
					s := svc{name: m[1]}
					ast.Inspect(vs.Values[0], func(n ast.Node) bool {
						kv, ok := n.(*ast.KeyValueExpr)
						if !ok {
							return true
						}
						if k, ok := kv.Key.(*ast.Ident); ok && k.Name == "MethodName" {
							if bl, ok := kv.Value.(*ast.BasicLit); ok {
								mn, _ := strconv.Unquote(bl.Value)
								s.methods = append(s.methods, mn)
							}
						}
						return true
					})
					svcs = append(svcs, s)
				}
			}
			if len(svcs) == 0 {
				continue
			}
			signers := signersFromDescriptor(f)
			// struct fields
			fields := map[string][]string{}
			for _, d := range f.Decls {
				gd, ok := d.(*ast.GenDecl)
				if !ok || gd.Tok != token.TYPE {
					continue
				}
				for _, sp := range gd.Specs {
					ts := sp.(*ast.TypeSpec)
					if st, ok := ts.Type.(*ast.StructType); ok {
						for _, fl := range st.Fields.List {
							for _, n := range fl.Names {
								fields[ts.Name.Name] = append(fields[ts.Name.Name], n.Name)
							}
						}
					}
				}
			}
			if kp == nil {
				kp = kpkgs[mdir]
				tp = loadDir(fset, filepath.Join(mdir, "types"))
			}
			for _, s := range svcs {
				// server interface: method -> request type
				req := map[string]string{}
				for _, d := range f.Decls {
					gd, ok := d.(*ast.GenDecl)
					if !ok || gd.Tok != token.TYPE {
						continue
					}
					for _, sp := range gd.Specs {
						ts := sp.(*ast.TypeSpec)
						it, ok := ts.Type.(*ast.InterfaceType)
						if !ok || ts.Name.Name != s.name+"Server" {
							continue
						}
						for _, m := range it.Methods.List {
							ft, ok := m.Type.(*ast.FuncType)
							if !ok || len(m.Names) != 1 || len(ft.Params.List) != 2 {
								continue
							}
							if se, ok := ft.Params.List[1].Type.(*ast.StarExpr); ok {
								if id, ok := se.X.(*ast.Ident); ok {
									req[m.Names[0].Name] = id.Name
								}
							}
						}
					}
				}
				for _, mn := range s.methods {
					rt := req[mn]
					if rt == "" {
						notes = append(notes, fmt.Sprintf("%s.%s/%s: request type not found", mod, s.name, mn))
						continue
					}
					row := guardRow{key: mod + "." + rt, service: s.name, method: mn}
					row.govOnly = s.name != "Msg" // a governance service (ProposalMsg …)
					for _, fl := range fields[rt] {
						if fl == "Authority" {
							row.hasAuth = true
							row.govOnly = true
						}
					}
					row.signer = signers[rt]
					if strings.EqualFold(strings.Split(row.signer, ",")[0], "authority") {
						row.govOnly = true // cosmos.msg.v1.signer names the authority
					}
					// fallback: GetSigners in types package
					var selPath []string
					if row.signer != "" {
						for _, p := range strings.Split(strings.Split(row.signer, ",")[0], ".") {
							selPath = append(selPath, snakeToCamel(p))
						}
					} else {
						for _, fd := range tp.funcs["GetSigners"] {
							if fd.Recv != nil && len(fd.Recv.List) == 1 && recvTypeName(fd.Recv.List[0].Type) == rt && len(fd.Recv.List[0].Names) == 1 {
								rn := fd.Recv.List[0].Names[0].Name
								ast.Inspect(fd.Body, func(n ast.Node) bool {
									if se, ok := n.(*ast.SelectorExpr); ok && selPath == nil {
										if id, ok := se.X.(*ast.Ident); ok && id.Name == rn {
											selPath = []string{se.Sel.Name}
										}
										// `return m.Inner.GetSigners()`: the signer is the embedded message's own signer field
										if inner, ok := se.X.(*ast.SelectorExpr); ok && se.Sel.Name == "GetSigners" {
											if id, ok := inner.X.(*ast.Ident); ok && id.Name == rn {
												selPath = []string{inner.Sel.Name, "Signer"}
											}
										}
									}
									return true
								})
							}
						}
						if selPath != nil {
							row.signer = "go:" + strings.Join(selPath, ".")
						}
					}
					if selPath == nil {
						notes = append(notes, fmt.Sprintf("%s: no signer field found", row.key))
						row.res = guardRes{kind: "none"}
						rows = append(rows, row)
						continue
					}
					// methods of the message type that read the signer field
					mm := map[string]bool{}
					for name, fds := range tp.funcs {
						for _, fd := range fds {
							if fd.Recv == nil || len(fd.Recv.List) != 1 || recvTypeName(fd.Recv.List[0].Type) != rt || len(fd.Recv.List[0].Names) != 1 {
								continue
							}
							if name == "ValidateBasic" || name == "Validate" || name == "String" {
								continue
							}
							rn := fd.Recv.List[0].Names[0].Name
							ast.Inspect(fd.Body, func(n ast.Node) bool {
								if se, ok := n.(*ast.SelectorExpr); ok {
									if id, ok := se.X.(*ast.Ident); ok && id.Name == rn && se.Sel.Name == selPath[0] {
										mm[name] = true
									}
								}
								return true
							})
						}
					}
					// the handler
					var h *ast.FuncDecl
					for _, fd := range kp.funcs[mn] {
						if fd.Recv == nil {
							continue
						}
						for _, p := range fd.Type.Params.List {
							if strings.HasSuffix(guardExprStr(fset, p.Type), "."+rt) {
								h = fd
							}
						}
					}
					if h == nil {
						notes = append(notes, fmt.Sprintf("%s: handler %s not found in x/%s/keeper", row.key, mn, mod))
						row.res = guardRes{kind: "none"}
						rows = append(rows, row)
						continue
					}
					row.handler = recvTypeName(h.Recv.List[0].Type) + "." + mn
					an := &ganalyzer{pkg: kp, msgMethods: mm, signerSel: selPath, res: &guardRes{kind: "none"}, hooks: hooks}
					en := &genv{msg: map[string]bool{}, tainted: map[string]bool{}}
					for _, p := range h.Type.Params.List {
						if strings.HasSuffix(guardExprStr(fset, p.Type), "."+rt) {
							for _, n := range p.Names {
								en.msg[n.Name] = true
							}
						}
					}
					if !an.walk(h, en, 0, "") {
						if an.firstLook != "" {
							an.res.kind, an.res.other, an.res.first = "self", an.firstLook, true
						}
					}
					row.res = *an.res
					row.ownerOnly = row.res.kind == "owner" || (row.res.kind == "self" && !strings.HasPrefix(mn, "Create"))
					rows = append(rows, row)
				}
			}
		}
		// legacy governance content handlers
		ph := filepath.Join(mdir, "proposal_handler.go")
		if _, err := os.Stat(ph); err == nil {
			f, err := parser.ParseFile(fset, ph, nil, 0)
			if err != nil {
				return "", nil, err
			}
			ast.Inspect(f, func(n ast.Node) bool {
				ts, ok := n.(*ast.TypeSwitchStmt)
				if !ok {
					return true
				}
				for _, cc := range ts.Body.List {
					for _, te := range cc.(*ast.CaseClause).List {
						if st, ok := te.(*ast.StarExpr); ok {
							if se, ok := st.X.(*ast.SelectorExpr); ok {
								rows = append(rows, guardRow{key: mod + "." + se.Sel.Name, service: "gov-legacy-content", method: "proposal_handler.go", legacy: true,
									res: guardRes{kind: "govRouted", first: true}})
							}
						}
					}
				}
				return true
			})
		}
	}

	// routes of x/gov's legacy content router (app/keepers.go): whatever is routed there runs only
	// through gov (parameter-change proposals of the modules that still use x/params, …)
	if kf, err := parser.ParseFile(fset, filepath.Join(repo, "app/keepers.go"), nil, 0); err == nil {
		var routes []string
		ast.Inspect(kf, func(n ast.Node) bool {
			c, ok := n.(*ast.CallExpr)
			if !ok {
				return true
			}
			se, ok := c.Fun.(*ast.SelectorExpr)
			if !ok || se.Sel.Name != "AddRoute" || len(c.Args) != 2 {
				return true
			}
			// only the gov router chain: its root identifier is govRouter
			root := se.X
			for {
				if cc, ok := root.(*ast.CallExpr); ok {
					if s2, ok := cc.Fun.(*ast.SelectorExpr); ok {
						root = s2.X
						continue
					}
				}
				break
			}
			if id, ok := root.(*ast.Ident); ok && id.Name == "govRouter" {
				routes = append(routes, guardExprStr(fset, c.Args[0])+" "+guardExprStr(fset, c.Args[1]))
			}
			return true
		})
		sort.Strings(routes)
		for _, r := range routes {
			parts := strings.SplitN(r, " ", 2)
			rows = append(rows, guardRow{key: "govroute." + parts[0], service: "gov-legacy-router", method: parts[1], legacy: true,
				res: guardRes{kind: "govRouted", first: true}})
		}
	} else {
		notes = append(notes, "app/keepers.go not parsed: gov legacy routes missing from the table")
	}

	var b strings.Builder
	b.WriteString("import DymVerif.Model.Ante\nnamespace DymVerif.Gen.Guards\nopen DymVerif.Ante\n\n")
	b.WriteString("/-- (module.Message, guard row) for every registered custom-module Msg handler and legacy gov content type -/\n")
	b.WriteString("def table : List (String × GuardEntry) := [\n")
	for i, r := range rows {
		sep := ","
		if i == len(rows)-1 {
			sep = ""
		}
		kind := map[string]string{"authority": ".authority", "owner": ".owner", "self": ".self", "none": ".none", "govRouted": ".govRouted"}[r.res.kind]
		fmt.Fprintf(&b, "  (%q, { id := %d, isMsg := %v, hasAuthorityField := %v, govOnly := %v, ownerOnly := %v, guard := %s, guardFirst := %v })%s\n",
			r.key, i, !r.legacy, r.hasAuth, r.govOnly, r.ownerOnly, kind, r.res.first && r.res.kind != "none", sep)
		detail := fmt.Sprintf("signer=%s handler=%s", r.signer, r.handler)
		if r.res.other != "" {
			detail += " compared-with=" + r.res.other + " in=" + r.res.where
		}
		if r.res.nested != "" {
			detail += " nested=" + r.res.nested
		}
		if len(r.res.preWrites) > 0 {
			label := " writes-before-guard="
			if r.res.kind == "self" {
				label = " writes-after-lookup="
			} else if r.res.kind == "none" {
				label = " writes(no-guard)="
			}
			detail += label + strings.Join(r.res.preWrites, ",")
		}
		fmt.Fprintf(&b, "    -- %s/%s %s\n", r.service, r.method, detail)
	}
	b.WriteString("]\n\n/-- the rows without their names (what the theorems quantify over) -/\ndef entries : List GuardEntry := table.map (·.2)\n")
	b.WriteString("\n/-- Go field path of the signer of every Msg row (from the cosmos.msg.v1.signer option in the embedded file descriptor, or from GetSigners) -/\ndef signers : List (String × String) := [\n")
	first := true
	for _, r := range rows {
		if r.legacy || r.signer == "" {
			continue
		}
		path := strings.TrimPrefix(r.signer, "go:")
		if !strings.HasPrefix(r.signer, "go:") {
			var parts []string
			for _, x := range strings.Split(strings.Split(r.signer, ",")[0], ".") {
				parts = append(parts, snakeToCamel(x))
			}
			path = strings.Join(parts, ".")
		}
		if !first {
			b.WriteString(",\n")
		}
		first = false
		fmt.Fprintf(&b, "  (%q, %q)", r.key, path)
	}
	b.WriteString("\n]\n")
	b.WriteString("\n/-- number of rpc methods of every non-Query gRPC service descriptor under x/*/types (textual scan of the\n    `_…_serviceDesc` literals, independent of the row construction above) -/\ndef rpcMethods : List (String × Nat) := [")
	for i, r := range rpcs {
		if i > 0 {
			b.WriteString(", ")
		}
		fmt.Fprintf(&b, "(%q, %d)", r.key, r.n)
	}
	b.WriteString("]\n")
	b.WriteString("\nend DymVerif.Gen.Guards\n")
	if len(rows) == 0 {
		return "", nil, fmt.Errorf("no Msg services found under %s/x", repo)
	}
	return b.String(), notes, nil
}
