package main

// Gen/LC.lean — tie 1 for M-LC (Model/LC.lean; C09 and the light-client clause of C06): regenerated on
// every check from x/lightclient (types + keeper) and the rollapp keeper's HardFork.
//
//   * real translations (Lemmas/GenEqLC.lean proves them equal to the model's definitions):
//       checkCompatibility, compareNextValHash   types.CheckCompatibility: the three comparisons, in order
//       paramsValid                              types.IsCanonicalClientParamsValid: scalars, lengths, element loops
//       stateInfoHeights                         the height loop of ValidateStateInfoAgainstConsensusStates
//       validClientIndices, validClientStops     the state-info loop of validClient and its break comparison
//       pruneRange, pruneAboveFlag/BelowFlag     pruneSigners: StartExclusive / EndExclusive range ends
//       rollbackKeeps, rollbackPruneAbove        RollbackCanonicalClient: `<= lastValidHeight`, `lastValidHeight-1`
//       afterUpdatePruneBelow                    AfterUpdateState: `GetLatestHeight()+1`
//       resolveRefuses                           ResolveHardFork: `height <= clientHeight`
//       revisionMismatch, foreignSequencer       two comparisons of HandleMsgUpdateClient
//   * statement skeletons (skel.go) of every function the model mirrors step by step.

import (
	"fmt"
	"go/ast"
	"go/token"
	"path/filepath"
	"strings"
)

// forHeader translates `for v := A; v <=|< B; v++` and `for v := A; v > 0; v--` into the list of the
// values the loop variable takes
func forHeader(t *guardTr, fn *ast.FuncDecl, what, leanName, binders, typ string) string {
	fail := func(msg string) string {
		t.notes = append(t.notes, what+": "+msg)
		return fmt.Sprintf("opaque %s : %s\n", leanName, typ)
	}
	if fn == nil || fn.Body == nil {
		return fail("function not found")
	}
	var fs *ast.ForStmt
	ast.Inspect(fn.Body, func(n ast.Node) bool {
		if f, ok := n.(*ast.ForStmt); ok && fs == nil {
			fs = f
		}
		return fs == nil
	})
	if fs == nil {
		return fail("no for statement")
	}
	init, ok := fs.Init.(*ast.AssignStmt)
	if !ok || len(init.Lhs) != 1 || len(init.Rhs) != 1 || init.Tok != token.DEFINE {
		return fail("loop init form")
	}
	v, ok := init.Lhs[0].(*ast.Ident)
	if !ok {
		return fail("loop variable")
	}
	cond, ok := fs.Cond.(*ast.BinaryExpr)
	post, ok2 := fs.Post.(*ast.IncDecStmt)
	if !ok || !ok2 || exprText(t.p.fset, cond.X) != v.Name || exprText(t.p.fset, post.X) != v.Name {
		return fail("loop condition / post form")
	}
	a, err := t.ex(init.Rhs[0])
	if err != nil {
		return fail("outside the translated subset: " + err.Error())
	}
	bnd, err := t.ex(cond.Y)
	if err != nil {
		return fail("outside the translated subset: " + err.Error())
	}
	hdr := exprText(t.p.fset, fs.Init) + "; " + exprText(t.p.fset, fs.Cond) + "; " + exprText(t.p.fset, fs.Post)
	body := ""
	switch {
	case post.Tok == token.INC && cond.Op == token.LEQ:
		body = fmt.Sprintf("(List.range (%s + 1 - %s)).map (· + %s)", bnd, a, a)
	case post.Tok == token.INC && cond.Op == token.LSS:
		body = fmt.Sprintf("(List.range (%s - %s)).map (· + %s)", bnd, a, a)
	case post.Tok == token.DEC && cond.Op == token.GTR && bnd == "0":
		body = fmt.Sprintf("((List.range %s).map (· + 1)).reverse", a)
	case post.Tok == token.DEC && cond.Op == token.GEQ && bnd == "0":
		body = fmt.Sprintf("(List.range (%s + 1)).reverse", a)
	default:
		return fail("loop header " + hdr)
	}
	return fmt.Sprintf("/-- %s: the values of the loop variable of `for %s` -/\ndef %s %s : List Nat :=\n  %s\n", what, hdr, leanName, binders, body)
}

// pruneRangeDef: `if isAbove { rng = ….StartExclusive(h) } else { rng = ….EndExclusive(h) }`
func pruneRangeDef(p *pkgSrc, notes *[]string) string {
	fail := func(msg string) string {
		*notes = append(*notes, "pruneSigners: "+msg)
		return "opaque pruneRange : Bool → Nat → Nat → Bool\n"
	}
	fn := p.funcs["Keeper.pruneSigners"]
	if fn == nil || fn.Body == nil {
		return fail("function not found")
	}
	var is *ast.IfStmt
	for _, st := range fn.Body.List {
		if s, ok := st.(*ast.IfStmt); ok && is == nil {
			is = s
		}
	}
	if is == nil || exprText(p.fset, is.Cond) != "isAbove" {
		return fail("no `if isAbove`")
	}
	bound := func(list []ast.Stmt) (string, error) {
		if len(list) != 1 {
			return "", unsup("branch form")
		}
		as, ok := list[0].(*ast.AssignStmt)
		if !ok || len(as.Lhs) != 1 || len(as.Rhs) != 1 || exprText(p.fset, as.Lhs[0]) != "rng" {
			return "", unsup("branch is not `rng = …`")
		}
		call, ok := as.Rhs[0].(*ast.CallExpr)
		if !ok || len(call.Args) != 1 || exprText(p.fset, call.Args[0]) != "h" {
			return "", unsup("range end is not a bound on h")
		}
		sel, ok := call.Fun.(*ast.SelectorExpr)
		if !ok || !strings.Contains(exprText(p.fset, sel.X), "NewPrefixedPairRange[string, uint64](client)") {
			return "", unsup("not a prefixed pair range of the client")
		}
		switch sel.Sel.Name {
		case "StartExclusive":
			return "decide (h < x)", nil
		case "StartInclusive":
			return "decide (h ≤ x)", nil
		case "EndExclusive":
			return "decide (x < h)", nil
		case "EndInclusive":
			return "decide (x ≤ h)", nil
		}
		return "", unsup("range end %s", sel.Sel.Name)
	}
	a, err := bound(is.Body.List)
	if err != nil {
		return fail(err.Error())
	}
	eb, ok := is.Else.(*ast.BlockStmt)
	if !ok {
		return fail("no else branch")
	}
	b, err := bound(eb.List)
	if err != nil {
		return fail(err.Error())
	}
	// the walk must be over that range and remove every entry found
	walks := findCallArg(p, fn, "clientHeightToSigner.Walk", 1)
	if walks == nil || exprText(p.fset, walks) != "rng" {
		return fail("the walk is not over rng")
	}
	return "/-- `pruneSigners`: is the map entry of height `x` inside the pruned range? -/\n" +
		"def pruneRange (isAbove : Bool) (h x : Nat) : Bool :=\n  if isAbove then " + a + " else " + b + "\n"
}

func pruneFlag(p *pkgSrc, notes *[]string, goName, lean string) string {
	fn := p.funcs[goName]
	flag := findCallArg(p, fn, "pruneSigners", 3)
	hArg := findCallArg(p, fn, "pruneSigners", 2)
	cl := findCallArg(p, fn, "pruneSigners", 1)
	if flag == nil || hArg == nil || cl == nil || exprText(p.fset, hArg) != "h" || exprText(p.fset, cl) != "client" ||
		(exprText(p.fset, flag) != "true" && exprText(p.fset, flag) != "false") {
		*notes = append(*notes, goName+": not `k.pruneSigners(ctx, client, h, <bool>)`")
		return fmt.Sprintf("opaque %s : Bool\n", lean)
	}
	return fmt.Sprintf("/-- `%s` calls `pruneSigners(ctx, client, h, %s)` -/\ndef %s : Bool := %s\n", goName, exprText(p.fset, flag), lean, exprText(p.fset, flag))
}

func genLC(repo string) (src string, notes []string, err error) {
	// unexpected code must never crash the translator: a panic becomes a translator error (a broken tie)
	defer func() {
		if r := recover(); r != nil {
			src, err = "", fmt.Errorf("genLC: internal error: %v", r)
		}
	}()
	var b strings.Builder
	b.WriteString("import DymVerif.Model.LC\nnamespace DymVerif.Gen.LC\nopen DymVerif\n\n")
	b.WriteString("/-- `for i, x := range got { if bad x exp[i] { return err } }`; `exp[i]` panics when `exp` is shorter -/\n" +
		"def idxLoop : List Nat → List Nat → (Nat → Nat → Bool) → Option LC.PRes\n" +
		"  | [], _, _ => none\n  | _ :: _, [], _ => some .panic\n" +
		"  | g :: gs, e :: es, bad => if bad g e then some .bad else idxLoop gs es bad\n\n")

	ty := loadSome(&notes, filepath.Join(repo, "x/lightclient/types/state.go"), filepath.Join(repo, "x/lightclient/types/params.go"))
	kp := loadDirSome(&notes, filepath.Join(repo, "x/lightclient/keeper"))
	hf := loadSome(&notes, filepath.Join(repo, "x/rollapp/keeper/hard_fork.go"))

	b.WriteString("/-! ### translated comparisons -/\n\n")
	t := &guardTr{p: ty, fields: map[string]string{}, funcs: map[string]string{"compareNextValHash": "compareNextValHash"}}
	// cs = the consensus state; (root, ts) = the block descriptor; nextSeq = the sequencer of the next block
	t.leaves = map[string]string{
		"raState.NextBlockSequencer.ValsetHash()": "(some (LC.valHash nextSeq) : Option Nat)",
		"ibcState.NextValidatorsHash":             "cs.nextVal",
	}
	b.WriteString(t.guardFn("compareNextValHash", "compareNextValHash", "(cs : LC.Cons) (nextSeq : Nat)",
		"LC.Cons → Nat → Option LC.LErr", "LC.LErr", []string{".internal", ".nextVal"}) + "\n")
	t.leaves = map[string]string{
		"ibcState.Root.GetHash()":                                     "cs.root",
		"raState.BlockDescriptor.StateRoot":                           "root",
		"raState.BlockDescriptor.Timestamp.IsZero()":                  "ts.isNone",
		"ibcState.Timestamp.Equal(raState.BlockDescriptor.Timestamp)": "(some cs.ts == ts)",
		"ibcState": "cs",
		"raState":  "nextSeq",
	}
	b.WriteString(t.guardFn("CheckCompatibility", "checkCompatibility", "(cs : LC.Cons) (root : Nat) (ts : Option Nat) (nextSeq : Nat)",
		"LC.Cons → Nat → Option Nat → Nat → Option LC.LErr", "LC.LErr", []string{".root", ".ts", "="}) + "\n")
	// candidate parameters as tokens: a scalar is 0 iff it has the expected value, `frozen` iff FrozenHeight is not zero
	t.leaves = map[string]string{
		"got.TrustLevel": "p.trustLevel", "expect.TrustLevel": "0",
		"got.TrustingPeriod": "p.trusting", "expect.TrustingPeriod": "0",
		"got.UnbondingPeriod": "p.unbonding", "expect.UnbondingPeriod": "0",
		"got.MaxClockDrift": "p.drift", "expect.MaxClockDrift": "0",
		"got.FrozenHeight": "frozen", "expect.FrozenHeight": "false",
		"got.ProofSpecs": "p.specs", "expect.ProofSpecs": "LC.expSpecs",
		"got.UpgradePath": "p.path", "expect.UpgradePath": "LC.expPath",
	}
	t.eqFns = map[string]bool{"SpecEquals": true, "EqualICS23ProofSpecs": true}
	b.WriteString(t.guardFn("IsCanonicalClientParamsValid", "paramsValid", "(p : LC.CParams) (frozen : Bool)",
		"LC.CParams → Bool → Option LC.PRes", "LC.PRes",
		[]string{".bad", ".bad", ".bad", ".bad", ".bad", ".bad", "idxLoop", ".bad", "idxLoop"}) + "\n")
	notes = append(notes, t.notes...)

	k := &guardTr{p: kp, fields: map[string]string{}, funcs: map[string]string{}, wrap64: true}
	k.leaves = map[string]string{"stateInfo.GetStartHeight()": "start", "stateInfo.GetLatestHeight()": "latest"}
	b.WriteString(forHeader(k, kp.funcs["Keeper.ValidateStateInfoAgainstConsensusStates"], "ValidateStateInfoAgainstConsensusStates",
		"stateInfoHeights", "(start latest : Nat)", "Nat → Nat → List Nat") + "\n")
	k.leaves = map[string]string{"sinfo.Index": "latestIndex"}
	b.WriteString(forHeader(k, kp.funcs["Keeper.validClient"], "validClient (state info indices, latest first)",
		"validClientIndices", "(latestIndex : Nat)", "Nat → List Nat") + "\n")
	k.leaves = map[string]string{"sInfo.StartHeight": "startHeight"}
	b.WriteString(k.exprDef("validClient, the break", "validClientStops", "(startHeight baseHeight : Nat)", "Nat → Nat → Bool", "Bool",
		findIfCond(kp, kp.funcs["Keeper.validClient"], "baseHeight", 0)) + "\n")
	b.WriteString(pruneRangeDef(kp, &notes) + "\n")
	b.WriteString(pruneFlag(kp, &notes, "Keeper.PruneSignersAbove", "pruneAboveFlag") + "\n")
	b.WriteString(pruneFlag(kp, &notes, "Keeper.PruneSignersBelow", "pruneBelowFlag") + "\n")
	k.leaves = map[string]string{"h.GetRevisionHeight()": "h"}
	b.WriteString(k.exprDef("RollbackCanonicalClient, the consensus states kept", "rollbackKeeps", "(h lastValidHeight : Nat)", "Nat → Nat → Bool", "Bool",
		findIfCond(kp, kp.funcs["Keeper.RollbackCanonicalClient"], "lastValidHeight", 0)) + "\n")
	k.leaves = map[string]string{}
	b.WriteString(k.exprDef("RollbackCanonicalClient, signers are pruned above", "rollbackPruneAbove", "(lastValidHeight : Nat)", "Nat → Nat", "Nat",
		findCallArg(kp, kp.funcs["Keeper.RollbackCanonicalClient"], "PruneSignersAbove", 2)) + "\n")
	k.leaves = map[string]string{"stateInfo.GetLatestHeight()": "latest"}
	b.WriteString(k.exprDef("AfterUpdateState, signers are pruned below", "afterUpdatePruneBelow", "(latest : Nat)", "Nat → Nat", "Nat",
		findCallArg(kp, kp.funcs["rollappHook.AfterUpdateState"], "PruneSignersBelow", 2)) + "\n")
	k.leaves = map[string]string{}
	b.WriteString(k.exprDef("ResolveHardFork, the sanity check", "resolveRefuses", "(height clientHeight : Nat)", "Nat → Nat → Bool", "Bool",
		findIfCond(kp, kp.funcs["Keeper.ResolveHardFork"], "clientHeight", 0)) + "\n")
	k.leaves = map[string]string{"header.Header.Version.App": "headerRev", "rollapp.LatestRevision().Number": "latestRev"}
	b.WriteString(k.exprDef("HandleMsgUpdateClient, the revision check", "revisionMismatch", "(headerRev latestRev : Nat)", "Nat → Nat → Bool", "Bool",
		findIfCond(kp, kp.funcs["IBCMessagesDecorator.HandleMsgUpdateClient"], "Version.App", 0)) + "\n")
	k.leaves = map[string]string{"seq.RollappId": "seqRollapp"}
	b.WriteString(k.exprDef("HandleMsgUpdateClient, the sequencer belongs to another rollapp", "foreignSequencer",
		"(canonical : Bool) (seqRollapp canonicalRollapp : Nat)", "Bool → Nat → Nat → Bool", "Bool",
		findIfCond(kp, kp.funcs["IBCMessagesDecorator.HandleMsgUpdateClient"], "canonicalRollapp", 0)) + "\n")
	notes = append(notes, k.notes...)

	b.WriteString("/-! ### statement skeletons -/\n\n")
	cfg := skelCfg{}
	emitSkeletons(&b, &notes, ty, "x/lightclient/types", cfg, []skelFn{
		{"CheckCompatibility", "checkCompatibilitySk"},
		{"compareNextValHash", "compareNextValHashSk"},
		{"IsCanonicalClientParamsValid", "isCanonicalClientParamsValid"},
		{"EqualICS23ProofSpecs", "equalICS23ProofSpecs"},
		{"ExpectedCanonicalClientParams", "expectedCanonicalClientParams"},
		{"DefaultExpectedCanonicalClientParams", "defaultExpectedCanonicalClientParams"},
		{"expectedTrustPeriod", "expectedTrustPeriod"},
	})
	emitSkeletons(&b, &notes, kp, "x/lightclient/keeper", cfg, []skelFn{
		{"Keeper.TrySetCanonicalClient", "trySetCanonicalClient"},
		{"Keeper.GetCanonicalClient", "getCanonicalClient"},
		{"Keeper.SetCanonicalClient", "setCanonicalClient"},
		{"Keeper.GetRollappForClientID", "getRollappForClientID"},
		{"Keeper.expectedClient", "expectedClient"},
		{"Keeper.validClient", "validClient"},
		{"Keeper.ValidateHeaderAgainstStateInfo", "validateHeaderAgainstStateInfo"},
		{"Keeper.ValidateStateInfoAgainstConsensusStates", "validateStateInfoAgainstConsensusStates"},
		{"Keeper.getConsensusState", "getConsensusState"},
		{"Keeper.GetFirstConsensusStateHeight", "getFirstConsensusStateHeight"},
		{"rollappHook.AfterUpdateState", "afterUpdateState"},
		{"rollappHook.OnHardFork", "onHardFork"},
		{"Keeper.RollbackCanonicalClient", "rollbackCanonicalClient"},
		{"Keeper.ResolveHardFork", "resolveHardFork"},
		{"Keeper.freezeClient", "freezeClient"},
		{"Keeper.unfreezeClient", "unfreezeClient"},
		{"IterateConsensusStateDescending", "iterateConsensusStateDescending"},
		{"IBCMessagesDecorator.AnteHandle", "anteHandle"},
		{"checkedMsgsTravelWithIBCOnly", "checkedMsgsTravelWithIBCOnly"},
		{"IBCMessagesDecorator.HandleMsgUpdateClient", "handleMsgUpdateClient"},
		{"IBCMessagesDecorator.getSequencer", "getSequencer"},
		{"getHeader", "getHeader"},
		{"IBCMessagesDecorator.HandleMsgSubmitMisbehaviour", "handleMsgSubmitMisbehaviour"},
		{"IBCMessagesDecorator.HandleMsgChannelOpenAck", "handleMsgChannelOpenAck"},
		{"msgServer.UpdateClient", "msgUpdateClient"},
		{"msgServer.SetCanonicalClient", "msgSetCanonicalClient"},
		{"Keeper.CanUnbond", "canUnbond"},
		{"Keeper.PruneSignersAbove", "pruneSignersAbove"},
		{"Keeper.PruneSignersBelow", "pruneSignersBelow"},
		{"Keeper.SaveSigner", "saveSigner"},
		{"Keeper.RemoveSigner", "removeSigner"},
		{"Keeper.GetSigner", "getSigner"},
		{"Keeper.pruneSigners", "pruneSigners"},
	})
	emitSkeletons(&b, &notes, hf, "x/rollapp/keeper/hard_fork.go", cfg, []skelFn{
		{"Keeper.HardFork", "rollappHardFork"},
	})
	b.WriteString("end DymVerif.Gen.LC\n")
	return b.String(), notes, nil
}
