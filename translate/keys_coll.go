package main

import (
	"fmt"
	"go/ast"
	"path/filepath"
	"strings"
)

// emitCollPrefix emits a collections map prefix (`collections.NewPrefix("…")`, a string constant, or a
// []byte literal) as a Lean `Bytes` literal: NewPrefix of a string / []byte is the bytes themselves.
func emitCollPrefix(b *strings.Builder, notes *[]string, tr *bytesTranslator, goName, lean string) {
	v, ok := tr.p.vars[goName]
	if !ok {
		*notes = append(*notes, goName+": constant not found in source")
		fmt.Fprintf(b, "opaque %s : Bytes\n\n", lean)
		return
	}
	var e ast.Expr = v
	if ie, ok := e.(*iotaExpr); ok {
		e = ie.e
	}
	if c, ok := e.(*ast.CallExpr); ok {
		if sel, ok := c.Fun.(*ast.SelectorExpr); ok && selName(sel) == "collections.NewPrefix" && len(c.Args) == 1 {
			e = c.Args[0]
		}
	}
	x, err := tr.expr(e, env{})
	if err != nil {
		*notes = append(*notes, goName+": "+err.Error())
		fmt.Fprintf(b, "opaque %s : Bytes\n\n", lean)
		return
	}
	fmt.Fprintf(b, "/-- `%s` -/\ndef %s : Bytes := %s\n\n", goName, lean, x)
}

// genKeysColl: the collections map prefixes of the scans C19 proves exact, and the statement listings
// of the functions that build those ranges and of the constructors that choose the key codecs.
func genKeysColl(repo string, b *strings.Builder, notes *[]string) error {
	type src struct {
		files    []string
		prefixes [][2]string
		listings [][2]string
	}
	for _, s := range []src{
		{files: []string{"x/rollapp/types/keys.go", "x/rollapp/types/key_block_height_to_finalization_queue.go", "x/rollapp/keeper/block_height_to_finalization_queue.go"},
			prefixes: [][2]string{{"SeqToUnfinalizedHeightKeyPrefix", "collSeqToUnfinalizedHeightPrefix"}, {"HeightRollappToFinalizationQueueKeyPrefix", "collFinalizationQueuePrefix"}},
			listings: [][2]string{{"Keeper.CanUnbond", "canUnbondListing"}, {"Keeper.PruneSequencerHeights", "pruneSequencerHeightsListing"},
				{"Keeper.SaveSequencerHeight", "saveSequencerHeightListing"},
				{"Keeper.GetFinalizationQueueUntilHeightInclusive", "getFinalizationQueueUntilHeightInclusiveListing"}}},
		{files: []string{"x/eibc/keeper/lps.go"},
			prefixes: [][2]string{{"LPsByAddrPrefix", "collLPsByAddrPrefix"}, {"LPsByRollAppDenomPrefix", "collLPsByRollAppDenomPrefix"}},
			listings: [][2]string{{"LPs.GetByAddr", "lpsGetByAddrListing"}, {"LPs.GetOrderCompatibleLPs", "lpsGetOrderCompatibleLPsListing"}, {"makeLPsStore", "makeLPsStoreListing"}}},
		{files: []string{"x/delayedack/types/keys.go", "x/delayedack/keeper/rollapp_packet.go"},
			prefixes: [][2]string{{"PendingPacketsByAddressKeyPrefix", "collPendingPacketsByAddressPrefix"}},
			listings: [][2]string{{"Keeper.GetPendingPacketsByAddress", "getPendingPacketsByAddressListing"}}},
		{files: []string{"x/lightclient/types/keys.go"},
			prefixes: [][2]string{{"ClientHeightToSigner", "collClientHeightToSignerPrefix"}}},
	} {
		var paths []string
		for _, f := range s.files {
			paths = append(paths, filepath.Join(repo, f))
		}
		p, err := loadFiles(paths...)
		if err != nil {
			return err
		}
		tr := &bytesTranslator{p: p, specs: map[string]*fnSpec{}, enumCases: map[string]string{}}
		for _, c := range s.prefixes {
			emitCollPrefix(b, notes, tr, c[0], c[1])
		}
		for _, l := range s.listings {
			emitListing(b, notes, p, l[0], l[1])
		}
		*notes = append(*notes, tr.notes...)
	}
	return nil
}
