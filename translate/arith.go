package main

import (
	"path/filepath"
	"strings"
)

func genArith(repo string) (string, []string, error) {
	var b strings.Builder
	b.WriteString("import DymVerif.Base.Dec\nnamespace DymVerif.Gen.Arith\nopen DymVerif\n\n")
	lv, err := loadFiles(filepath.Join(repo, "x/rollapp/keeper/liveness.go"))
	if err != nil {
		return "", nil, err
	}
	t := &intTranslator{p: lv}
	b.WriteString(t.fn("NextSlashHeight", "nextSlashHeight"))
	b.WriteString("\nend DymVerif.Gen.Arith\n")
	return b.String(), t.notes, nil
}
