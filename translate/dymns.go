package main

// Facts and small pure functions of x/dymns re-extracted on every run into Gen/DymNS.lean:
//   * the buy-order id prefixes and MaxConfigSize (types/constants.go),
//   * the number of seconds RegisterName adds per registration year (the constant factors of
//     `addDurationInSeconds := 86400 * 365 * msg.Duration`),
//   * the divisor of the minimum bid increment (`….MulRaw(pct).QuoRaw(100)`),
//   * `getElementAtIndexOrLast` (price steps), translated if it still has the shape
//     `if index >= len(elements) { return elements[len(elements)-1] }; return elements[index]`.
// Lemmas/GenEqDymNS.lean proves each equal to what Model/DymNS.lean uses.

import (
	"fmt"
	"go/ast"
	"go/token"
	"path/filepath"
	"strings"
)

func mulFactors(e ast.Expr) []ast.Expr {
	switch e := e.(type) {
	case *ast.ParenExpr:
		return mulFactors(e.X)
	case *ast.BinaryExpr:
		if e.Op == token.MUL {
			return append(mulFactors(e.X), mulFactors(e.Y)...)
		}
	}
	return []ast.Expr{e}
}

func exprStr(e ast.Expr) string {
	switch e := e.(type) {
	case *ast.Ident:
		return e.Name
	case *ast.SelectorExpr:
		return exprStr(e.X) + "." + e.Sel.Name
	case *ast.BasicLit:
		return e.Value
	case *ast.CallExpr:
		var a []string
		for _, x := range e.Args {
			a = append(a, exprStr(x))
		}
		return exprStr(e.Fun) + "(" + strings.Join(a, ",") + ")"
	case *ast.IndexExpr:
		return exprStr(e.X) + "[" + exprStr(e.Index) + "]"
	case *ast.BinaryExpr:
		return exprStr(e.X) + e.Op.String() + exprStr(e.Y)
	case *ast.ParenExpr:
		return "(" + exprStr(e.X) + ")"
	}
	return fmt.Sprintf("<%T>", e)
}

func genDymNS(repo string) (string, []string, error) {
	var notes []string
	var b strings.Builder
	b.WriteString("namespace DymVerif.Gen.DymNS\n\n")
	opaque := func(name, typ, why string) {
		notes = append(notes, "DymNS.lean: "+name+": "+why)
		fmt.Fprintf(&b, "opaque %s : %s\n", name, typ)
	}

	consts, err := loadFiles(filepath.Join(repo, "x/dymns/types/constants.go"))
	if err != nil {
		return "", nil, err
	}
	for _, c := range []struct{ goName, lean string }{{"BuyOrderIdTypeDymNamePrefix", "orderPrefixName"}, {"BuyOrderIdTypeAliasPrefix", "orderPrefixAlias"}} {
		v, ok := consts.vars[c.goName]
		if !ok {
			opaque(c.lean, "String", "constant "+c.goName+" not found")
			continue
		}
		s, err := consts.constString(v)
		if err != nil {
			opaque(c.lean, "String", err.Error())
			continue
		}
		fmt.Fprintf(&b, "def %s : String := %q\n", c.lean, s)
	}
	if v, ok := consts.vars["MaxConfigSize"]; ok {
		if n, err := consts.constInt(v, 0); err == nil {
			fmt.Fprintf(&b, "def maxConfigSize : Nat := %d\n", n)
		} else {
			opaque("maxConfigSize", "Nat", err.Error())
		}
	} else {
		opaque("maxConfigSize", "Nat", "constant MaxConfigSize not found")
	}

	// seconds per registration year
	reg, err := loadFiles(filepath.Join(repo, "x/dymns/keeper/msg_server_register_name.go"))
	if err != nil {
		return "", nil, err
	}
	found := false
	if fn, ok := reg.funcs["msgServer.RegisterName"]; ok {
		ast.Inspect(fn.Body, func(n ast.Node) bool {
			as, ok := n.(*ast.AssignStmt)
			if !ok || len(as.Lhs) != 1 || len(as.Rhs) != 1 {
				return true
			}
			if id, ok := as.Lhs[0].(*ast.Ident); !ok || id.Name != "addDurationInSeconds" {
				return true
			}
			prod, vars := 1, []string{}
			for _, f := range mulFactors(as.Rhs[0]) {
				if v, err := reg.constInt(f, 0); err == nil {
					prod *= v
				} else {
					vars = append(vars, exprStr(f))
				}
			}
			if len(vars) == 1 && vars[0] == "msg.Duration" {
				fmt.Fprintf(&b, "/-- `addDurationInSeconds := %s` -/\ndef yearSeconds : Nat := %d\n", exprStr(as.Rhs[0]), prod)
				found = true
			}
			return false
		})
	}
	if !found {
		opaque("yearSeconds", "Nat", "addDurationInSeconds is no longer <constants> * msg.Duration")
	}

	// divisor of the minimum bid increment
	po, err := loadFiles(filepath.Join(repo, "x/dymns/keeper/msg_server_purchase_order.go"))
	if err != nil {
		return "", nil, err
	}
	found = false
	if fn, ok := po.funcs["msgServer.genericValidateSellOrderOfPurchaseOrder"]; ok {
		ast.Inspect(fn.Body, func(n ast.Node) bool {
			c, ok := n.(*ast.CallExpr)
			if !ok || found {
				return true
			}
			sel, ok := c.Fun.(*ast.SelectorExpr)
			if !ok || sel.Sel.Name != "QuoRaw" || len(c.Args) != 1 {
				return true
			}
			inner, ok := sel.X.(*ast.CallExpr)
			if !ok {
				return true
			}
			isel, ok := inner.Fun.(*ast.SelectorExpr)
			if !ok || isel.Sel.Name != "MulRaw" || exprStr(isel.X) != "so.HighestBid.Price.Amount" ||
				len(inner.Args) != 1 || exprStr(inner.Args[0]) != "int64(priceParams.MinBidIncrementPercent)" {
				return true
			}
			if v, err := po.constInt(c.Args[0], 0); err == nil {
				fmt.Fprintf(&b, "/-- `minimumIncrement := %s` -/\ndef bidIncDivisor : Nat := %d\n", exprStr(c), v)
				found = true
			}
			return true
		})
	}
	if !found {
		opaque("bidIncDivisor", "Nat", "minimum increment is no longer highestBid.MulRaw(percent).QuoRaw(<const>)")
	}

	// getElementAtIndexOrLast
	pr, err := loadFiles(filepath.Join(repo, "x/dymns/types/params.go"))
	if err != nil {
		return "", nil, err
	}
	shape := ""
	if fn, ok := pr.funcs["getElementAtIndexOrLast"]; ok && fn.Body != nil {
		var parts []string
		for _, st := range fn.Body.List {
			switch st := st.(type) {
			case *ast.IfStmt:
				if st.Init == nil && st.Else == nil && len(st.Body.List) == 1 {
					if r, ok := st.Body.List[0].(*ast.ReturnStmt); ok && len(r.Results) == 1 {
						parts = append(parts, "if "+exprStr(st.Cond)+" return "+exprStr(r.Results[0]))
						continue
					}
				}
				parts = append(parts, "?")
			case *ast.ReturnStmt:
				if len(st.Results) == 1 {
					parts = append(parts, "return "+exprStr(st.Results[0]))
					continue
				}
				parts = append(parts, "?")
			default:
				parts = append(parts, "?")
			}
		}
		shape = strings.Join(parts, "; ")
	}
	if shape == "if index>=len(elements) return elements[len(elements)-1]; return elements[index]" {
		b.WriteString("/-- `getElementAtIndexOrLast` (elements non-empty: validated params) -/\n")
		b.WriteString("def elemAtIndexOrLast (elements : List Nat) (index : Nat) : Nat :=\n  if index ≥ elements.length then elements.getLastD 0 else elements.getD index 0\n")
	} else {
		opaque("elemAtIndexOrLast", "List Nat → Nat → Nat", "getElementAtIndexOrLast changed shape: "+shape)
	}
	// which index the price functions pass
	for _, f := range []struct{ goName, lean, arg string }{{"PriceParams.GetFirstYearDymNamePrice", "nameStepIndexOffset", "name"}, {"PriceParams.GetAliasPrice", "aliasStepIndexOffset", "alias"}} {
		ok2 := false
		if fn, ok := pr.funcs[f.goName]; ok && fn.Body != nil && len(fn.Body.List) == 1 {
			if r, ok := fn.Body.List[0].(*ast.ReturnStmt); ok && len(r.Results) == 1 {
				if c, ok := r.Results[0].(*ast.CallExpr); ok && exprStr(c.Fun) == "getElementAtIndexOrLast" && len(c.Args) == 2 {
					if exprStr(c.Args[1]) == "len("+f.arg+")-1" {
						fmt.Fprintf(&b, "/-- `%s` passes index `%s` -/\ndef %s : Nat := 1\n", f.goName, exprStr(c.Args[1]), f.lean)
						ok2 = true
					}
				}
			}
		}
		if !ok2 {
			opaque(f.lean, "Nat", f.goName+" no longer returns getElementAtIndexOrLast(steps, len(x)-1)")
		}
	}
	b.WriteString("\nend DymVerif.Gen.DymNS\n")
	return b.String(), notes, nil
}
