package main

// Gen/Iro.lean — the small pure functions of x/iro translated from their current Go source:
// ScaleFromBase, ScaleToBase, BondingCurve.Cost (integral as a parameter), BondingCurve.
// TokensForExactInAmount (Newton result as a parameter), BondingCurve.ValidateBasic, checkPrecision,
// FindEquilibrium, Keeper.ApplyTakerFee, IROVestingPlan.VestedAmt, plus the constants they use.
//
// The translator below is a typed mini-translator for straight-line math.Int / LegacyDec / time
// arithmetic (go/ast only, own light type inference).  Accepted: `:=`, `=`, `var x T` followed by an
// if/else assigning x, `if c { x = e }`, `if c { return … }`, `return`, the method and constructor
// calls listed in iroMethod / iroPkgCall, comparison and boolean operators.  Anything else makes the
// function come out as an `opaque`-style stub with a `-- note:` line, so that the GenEq lemma stops
// checking (never a stale translation).

import (
	"fmt"
	"go/ast"
	"go/printer"
	"go/token"
	"path/filepath"
	"strings"
)

type iroTy int

const (
	iroInt  iroTy = iota // math.Int, int64, uint64, int, time.Duration (ns), time.Time (ns)  ↦ Int
	iroDec               // math.LegacyDec ↦ Dec
	iroBool              // bool ↦ Prop-valued Lean expression usable in `if`
	iroNat               // decimals ↦ Nat
	iroErr
)

type iroVal struct {
	lean string
	ty   iroTy
}

type iroParam struct {
	lean, leanType string
}

type iroFn struct {
	goName   string
	leanName string
	params   []iroParam
	vars     map[string]iroVal // Go identifiers (params, receiver fields as "recv.Field", zero-arg methods as "recv.M()") ↦ Lean
	ret      string            // "val" | "opt1" | "opt2" | "boolerr"
	retLean  string
}

type iroTr struct {
	p     *pkgSrc
	fn    *iroFn
	calls map[string]string // Go function name ↦ generated Lean function (same file)
}

func (t *iroTr) sel(e ast.Expr) string {
	switch e := e.(type) {
	case *ast.Ident:
		return e.Name
	case *ast.SelectorExpr:
		return t.sel(e.X) + "." + e.Sel.Name
	}
	return "?"
}

func (t *iroTr) constOf(name string) (int, bool) {
	if v, ok := t.p.vars[name]; ok {
		if n, err := t.p.constInt(v, 0); err == nil {
			return n, true
		}
	}
	return 0, false
}

func (t *iroTr) expr(e ast.Expr, env map[string]iroVal) (iroVal, error) {
	switch e := e.(type) {
	case *ast.ParenExpr:
		v, err := t.expr(e.X, env)
		if err != nil {
			return v, err
		}
		return iroVal{"(" + v.lean + ")", v.ty}, nil
	case *ast.BasicLit:
		if e.Kind == token.INT {
			return iroVal{e.Value, iroInt}, nil
		}
	case *ast.Ident:
		if v, ok := env[e.Name]; ok {
			return v, nil
		}
		if e.Name == "nil" {
			return iroVal{"nil", iroErr}, nil
		}
		if n, ok := t.constOf(e.Name); ok {
			return iroVal{fmt.Sprintf("%d", n), iroInt}, nil
		}
	case *ast.SelectorExpr:
		if v, ok := env[t.sel(e)]; ok {
			return v, nil
		}
	case *ast.UnaryExpr:
		if e.Op == token.NOT {
			v, err := t.expr(e.X, env)
			if err != nil {
				return v, err
			}
			return iroVal{"¬ " + paren(v.lean), iroBool}, nil
		}
	case *ast.BinaryExpr:
		a, err := t.expr(e.X, env)
		if err != nil {
			return a, err
		}
		b, err := t.expr(e.Y, env)
		if err != nil {
			return b, err
		}
		switch e.Op {
		case token.LOR:
			return iroVal{paren(a.lean) + " ∨ " + paren(b.lean), iroBool}, nil
		case token.LAND:
			return iroVal{paren(a.lean) + " ∧ " + paren(b.lean), iroBool}, nil
		case token.EQL:
			if b.ty == iroErr || a.ty == iroErr {
				break
			}
			return iroVal{a.lean + " = " + b.lean, iroBool}, nil
		case token.LSS:
			return iroVal{a.lean + " < " + b.lean, iroBool}, nil
		case token.GTR:
			return iroVal{b.lean + " < " + a.lean, iroBool}, nil
		}
	case *ast.CallExpr:
		return t.call(e, env)
	}
	return iroVal{}, unsup("expression %T `%s`", e, t.src(e))
}

func (t *iroTr) src(n ast.Node) string {
	var sb strings.Builder
	if err := printer.Fprint(&sb, t.p.fset, n); err != nil {
		return "?"
	}
	return sb.String()
}

func paren(s string) string {
	if strings.ContainsAny(s, " ") && !(strings.HasPrefix(s, "(") && strings.HasSuffix(s, ")") && balanced(s[1:len(s)-1])) {
		return "(" + s + ")"
	}
	return s
}

func balanced(s string) bool {
	d := 0
	for _, c := range s {
		if c == '(' {
			d++
		} else if c == ')' {
			d--
			if d < 0 {
				return false
			}
		}
	}
	return d == 0
}

func (t *iroTr) call(c *ast.CallExpr, env map[string]iroVal) (iroVal, error) {
	args := func() ([]iroVal, error) {
		var out []iroVal
		for _, a := range c.Args {
			v, err := t.expr(a, env)
			if err != nil {
				return nil, err
			}
			out = append(out, v)
		}
		return out, nil
	}
	// conversions and package-level constructors
	name := t.sel(c.Fun)
	switch name {
	case "int", "int64", "uint64", "uint32":
		a, err := args()
		if err != nil || len(a) != 1 {
			return iroVal{}, unsup("cast %s", t.src(c))
		}
		return a[0], nil
	case "math.ZeroInt":
		return iroVal{"0", iroInt}, nil
	case "math.OneInt":
		return iroVal{"1", iroInt}, nil
	case "math.LegacyZeroDec":
		return iroVal{"Dec.zero", iroDec}, nil
	case "math.LegacyOneDec":
		return iroVal{"Dec.one", iroDec}, nil
	case "math.NewInt", "math.LegacyNewDec", "math.LegacyNewDecFromInt":
		a, err := args()
		if err != nil || len(a) != 1 || a[0].ty != iroInt {
			return iroVal{}, unsup("constructor %s", t.src(c))
		}
		if name == "math.NewInt" {
			return a[0], nil
		}
		return iroVal{"Dec.ofInt " + paren(a[0].lean), iroDec}, nil
	case "math.LegacyNewDecFromIntWithPrec":
		a, err := args()
		if err != nil || len(a) != 2 || a[0].ty != iroInt || a[1].ty != iroNat {
			return iroVal{}, unsup("constructor %s", t.src(c))
		}
		return iroVal{"(⟨" + a[0].lean + " * pow10 (18 - " + a[1].lean + ")⟩ : Dec)", iroDec}, nil
	case "math.NewIntWithDecimal":
		a, err := args()
		if err != nil || len(a) != 2 || a[1].ty != iroNat {
			return iroVal{}, unsup("constructor %s", t.src(c))
		}
		if a[0].lean == "1" {
			return iroVal{"pow10 " + paren(a[1].lean), iroInt}, nil
		}
		return iroVal{a[0].lean + " * pow10 " + paren(a[1].lean), iroInt}, nil
	}
	if lean, ok := t.calls[name]; ok {
		a, err := args()
		if err != nil {
			return iroVal{}, err
		}
		s := lean
		for _, x := range a {
			s += " " + paren(x.lean)
		}
		ty := iroDec
		switch lean {
		case "scaleToBase":
			ty = iroInt
		case "checkPrecision":
			ty = iroBool
			s += " = true"
		}
		return iroVal{s, ty}, nil
	}
	// zero-argument accessor registered for this function (e.g. lbc.SupplyDecimals())
	if len(c.Args) == 0 {
		if v, ok := env[name+"()"]; ok {
			return v, nil
		}
	}
	// oracle: lbc.integral(d)
	if v, ok := env[name+"(·)"]; ok && len(c.Args) == 1 {
		a, err := args()
		if err != nil {
			return iroVal{}, err
		}
		return iroVal{v.lean + " " + paren(a[0].lean), v.ty}, nil
	}
	// methods
	se, ok := c.Fun.(*ast.SelectorExpr)
	if !ok {
		return iroVal{}, unsup("call %s", t.src(c))
	}
	recv, err := t.expr(se.X, env)
	if err != nil {
		return iroVal{}, err
	}
	a, err := args()
	if err != nil {
		return iroVal{}, err
	}
	m := se.Sel.Name
	r := paren(recv.lean)
	one := func(ty iroTy) (string, bool) {
		if len(a) == 1 && a[0].ty == ty {
			return paren(a[0].lean), true
		}
		return "", false
	}
	switch recv.ty {
	case iroInt:
		switch m {
		case "Add":
			if x, ok := one(iroInt); ok {
				return iroVal{recv.lean + " + " + x, iroInt}, nil
			}
		case "Sub": // math.Int.Sub, time.Time.Sub, (Duration arithmetic)
			if x, ok := one(iroInt); ok {
				return iroVal{recv.lean + " - " + x, iroInt}, nil
			}
		case "Mul":
			if x, ok := one(iroInt); ok {
				return iroVal{r + " * " + x, iroInt}, nil
			}
		case "IsPositive":
			return iroVal{"0 < " + r, iroBool}, nil
		case "IsNegative":
			return iroVal{r + " < 0", iroBool}, nil
		case "IsZero":
			return iroVal{r + " = 0", iroBool}, nil
		case "LT", "Before":
			if x, ok := one(iroInt); ok {
				return iroVal{r + " < " + x, iroBool}, nil
			}
		case "GT", "After":
			if x, ok := one(iroInt); ok {
				return iroVal{x + " < " + r, iroBool}, nil
			}
		case "LTE":
			if x, ok := one(iroInt); ok {
				return iroVal{r + " ≤ " + x, iroBool}, nil
			}
		case "GTE":
			if x, ok := one(iroInt); ok {
				return iroVal{x + " ≤ " + r, iroBool}, nil
			}
		case "Equal":
			if x, ok := one(iroInt); ok {
				return iroVal{r + " = " + x, iroBool}, nil
			}
		case "Nanoseconds":
			return recv, nil
		case "ToLegacyDec":
			return iroVal{"Dec.ofInt " + r, iroDec}, nil
		}
	case iroDec:
		bin := map[string]string{"Add": "add", "Sub": "sub", "Mul": "mul", "Quo": "quo", "MulTruncate": "mulTruncate", "QuoTruncate": "quoTruncate"}
		if f, ok := bin[m]; ok {
			if x, ok := one(iroDec); ok {
				return iroVal{r + "." + f + " " + x, iroDec}, nil
			}
		}
		switch m {
		case "MulInt":
			if x, ok := one(iroInt); ok {
				return iroVal{r + ".mulInt " + x, iroDec}, nil
			}
		case "TruncateInt":
			return iroVal{r + ".truncateInt", iroInt}, nil
		case "IsZero":
			return iroVal{r + ".raw = 0", iroBool}, nil
		case "IsPositive":
			return iroVal{"0 < " + r + ".raw", iroBool}, nil
		case "IsNegative":
			return iroVal{r + ".raw < 0", iroBool}, nil
		case "IsInteger":
			return iroVal{r + ".raw % decP = 0", iroBool}, nil
		case "LT":
			if x, ok := one(iroDec); ok {
				return iroVal{r + ".raw < " + x + ".raw", iroBool}, nil
			}
		case "GT":
			if x, ok := one(iroDec); ok {
				return iroVal{x + ".raw < " + r + ".raw", iroBool}, nil
			}
		case "Power":
			// integer-valued base and constant exponent: the repeated Mul is exact
			if strings.HasPrefix(recv.lean, "Dec.ofInt ") && len(a) == 1 && a[0].ty == iroInt {
				return iroVal{"Dec.ofInt (" + strings.TrimPrefix(recv.lean, "Dec.ofInt ") + " ^ " + a[0].lean + ")", iroDec}, nil
			}
		}
	}
	return iroVal{}, unsup("method %s on %s", m, t.src(se.X))
}

func (t *iroTr) retExpr(r *ast.ReturnStmt, env map[string]iroVal) (string, error) {
	isNil := func(e ast.Expr) bool { id, ok := e.(*ast.Ident); return ok && id.Name == "nil" }
	switch t.fn.ret {
	case "val":
		if len(r.Results) != 1 {
			return "", unsup("return arity")
		}
		v, err := t.expr(r.Results[0], env)
		if err == nil && t.fn.retLean == "Bool" && v.ty == iroBool {
			return "decide (" + v.lean + ")", nil
		}
		return v.lean, err
	case "boolerr":
		if len(r.Results) != 1 {
			return "", unsup("return arity")
		}
		if isNil(r.Results[0]) {
			return "true", nil
		}
		return "false", nil
	case "opt1", "opt2":
		n := 2
		if t.fn.ret == "opt2" {
			n = 3
		}
		if len(r.Results) != n {
			return "", unsup("return arity")
		}
		if !isNil(r.Results[n-1]) {
			return "none", nil
		}
		var parts []string
		for _, e := range r.Results[:n-1] {
			v, err := t.expr(e, env)
			if err != nil {
				return "", err
			}
			parts = append(parts, v.lean)
		}
		if n == 2 {
			return "some " + paren(parts[0]), nil
		}
		return "some (" + strings.Join(parts, ", ") + ")", nil
	}
	return "", unsup("return kind")
}

func cpEnv(m map[string]iroVal) map[string]iroVal {
	o := map[string]iroVal{}
	for k, v := range m {
		o[k] = v
	}
	return o
}

func (t *iroTr) local(name string) string {
	if name == t.fn.leanName {
		return name + "'"
	}
	return name
}

// onlyAssigns: the block consists of `x = e` statements on existing variables
func onlyAssigns(b *ast.BlockStmt) ([]*ast.AssignStmt, bool) {
	var out []*ast.AssignStmt
	for _, s := range b.List {
		a, ok := s.(*ast.AssignStmt)
		if !ok || a.Tok != token.ASSIGN || len(a.Lhs) != 1 || len(a.Rhs) != 1 {
			return nil, false
		}
		if _, ok := a.Lhs[0].(*ast.Ident); !ok {
			return nil, false
		}
		out = append(out, a)
	}
	return out, len(out) > 0
}

func (t *iroTr) stmts(list []ast.Stmt, env map[string]iroVal, ind string) (string, error) {
	if len(list) == 0 {
		return "", unsup("control reaches the end of the function without return")
	}
	s := list[0]
	rest := list[1:]
	switch s := s.(type) {
	case *ast.ReturnStmt:
		return t.retExpr(s, env)
	case *ast.DeclStmt: // var x T  — the value comes from the following if/else
		return t.stmts(rest, env, ind)
	case *ast.AssignStmt:
		// oracle call:  tokens, _, err := lbc.TokensApproximation(a, b) ; if err != nil { return …, err }
		if len(s.Lhs) == 3 && len(s.Rhs) == 1 {
			if c, ok := s.Rhs[0].(*ast.CallExpr); ok {
				if o, ok := env[t.sel(c.Fun)+"(·,·)"]; ok && len(c.Args) == 2 && len(rest) > 0 {
					a0, err := t.expr(c.Args[0], env)
					if err != nil {
						return "", err
					}
					a1, err := t.expr(c.Args[1], env)
					if err != nil {
						return "", err
					}
					ifs, ok := rest[0].(*ast.IfStmt)
					if !ok || t.src(ifs.Cond) != "err != nil" || ifs.Else != nil {
						return "", unsup("oracle call not followed by `if err != nil`")
					}
					errRet, err := t.stmts(ifs.Body.List, env, ind+"  ")
					if err != nil {
						return "", err
					}
					v := s.Lhs[0].(*ast.Ident).Name
					e2 := cpEnv(env)
					e2[v] = iroVal{v, iroDec}
					body, err := t.stmts(rest[1:], e2, ind+"    ")
					if err != nil {
						return "", err
					}
					return fmt.Sprintf("match %s %s.raw %s.raw with\n%s  | none => %s\n%s  | some %sRaw =>\n%s    let %s : Dec := ⟨%sRaw⟩\n%s    %s",
						o.lean, paren(a0.lean), paren(a1.lean), ind, errRet, ind, v, ind, v, v, ind, body), nil
				}
			}
		}
		if len(s.Lhs) != 1 || len(s.Rhs) != 1 {
			return "", unsup("assignment `%s`", t.src(s))
		}
		id, ok := s.Lhs[0].(*ast.Ident)
		if !ok {
			return "", unsup("assignment target `%s`", t.src(s))
		}
		v, err := t.expr(s.Rhs[0], env)
		if err != nil {
			return "", err
		}
		e2 := cpEnv(env)
		ln := t.local(id.Name)
		e2[id.Name] = iroVal{ln, v.ty}
		r, err := t.stmts(rest, e2, ind)
		if err != nil {
			return "", err
		}
		return fmt.Sprintf("let %s := %s\n%s%s", ln, v.lean, ind, r), nil
	case *ast.IfStmt:
		if s.Init != nil {
			return "", unsup("if with init")
		}
		c, err := t.expr(s.Cond, env)
		if err != nil {
			return "", err
		}
		// if c { x = a } else { x = b }   /   if c { x = a }
		if as, ok := onlyAssigns(s.Body); ok {
			e2 := cpEnv(env)
			out := ""
			var elseAs []*ast.AssignStmt
			if s.Else != nil {
				eb, ok := s.Else.(*ast.BlockStmt)
				if !ok {
					return "", unsup("else-if")
				}
				elseAs, ok = onlyAssigns(eb)
				if !ok || len(elseAs) != len(as) {
					return "", unsup("if/else assignment shape")
				}
			}
			for i, a := range as {
				name := a.Lhs[0].(*ast.Ident).Name
				va, err := t.expr(a.Rhs[0], env)
				if err != nil {
					return "", err
				}
				var vb iroVal
				if elseAs != nil {
					if elseAs[i].Lhs[0].(*ast.Ident).Name != name {
						return "", unsup("if/else assign different variables")
					}
					vb, err = t.expr(elseAs[i].Rhs[0], env)
					if err != nil {
						return "", err
					}
				} else {
					old, ok := env[name]
					if !ok {
						return "", unsup("conditional assignment to undeclared %s", name)
					}
					vb = old
				}
				ln := t.local(name)
				out += fmt.Sprintf("let %s := if %s then %s else %s\n%s", ln, c.lean, va.lean, vb.lean, ind)
				e2[name] = iroVal{ln, va.ty}
			}
			r, err := t.stmts(rest, e2, ind)
			if err != nil {
				return "", err
			}
			return out + r, nil
		}
		th, err := t.stmts(s.Body.List, env, ind+"  ")
		if err != nil {
			return "", err
		}
		var el string
		if s.Else != nil {
			eb, ok := s.Else.(*ast.BlockStmt)
			if !ok {
				return "", unsup("else-if")
			}
			el, err = t.stmts(eb.List, env, ind+"  ")
		} else {
			el, err = t.stmts(rest, env, ind)
		}
		if err != nil {
			return "", err
		}
		return fmt.Sprintf("if %s then %s else\n%s%s", c.lean, th, ind, el), nil
	}
	return "", unsup("statement %T `%s`", s, t.src(s))
}

func (t *iroTr) emit(fn *iroFn, notes *[]string) string {
	t.fn = fn
	sig := "def " + fn.leanName
	for _, p := range fn.params {
		sig += fmt.Sprintf(" (%s : %s)", p.lean, p.leanType)
	}
	sig += " : " + fn.retLean + " :=\n  "
	d, ok := t.p.funcs[fn.goName]
	if !ok || d.Body == nil {
		*notes = append(*notes, fmt.Sprintf("Iro: Go function %s not found", fn.goName))
		return fmt.Sprintf("-- %s: not found in the source\n", fn.goName)
	}
	body, err := t.stmts(d.Body.List, cpEnv(fn.vars), "  ")
	if err != nil {
		*notes = append(*notes, fmt.Sprintf("Iro: %s outside the translated subset: %v", fn.goName, err))
		return fmt.Sprintf("-- %s: outside the translated subset (%v); no definition emitted\n", fn.goName, err)
	}
	return fmt.Sprintf("/-- translated from `%s` -/\n%s%s\n", fn.goName, sig, body)
}

func genIro(repo string) (string, []string, error) {
	var notes []string
	p, err := loadFiles(
		filepath.Join(repo, "x/iro/types/bonding_curve.go"),
		filepath.Join(repo, "x/iro/types/liquidity.go"),
		filepath.Join(repo, "x/iro/types/vesting.go"),
		filepath.Join(repo, "x/iro/types/plan.go"),
		filepath.Join(repo, "x/iro/keeper/trade.go"),
	)
	if err != nil {
		return "", nil, err
	}
	var b strings.Builder
	b.WriteString("import DymVerif.Model.Iro\nnamespace DymVerif.Gen.Iro\nopen DymVerif DymVerif.Iro\n\n")
	t := &iroTr{p: p, calls: map[string]string{"ScaleFromBase": "scaleFromBase", "ScaleToBase": "scaleToBase", "checkPrecision": "checkPrecision"}}
	for _, c := range []string{"MaxNValue", "MaxNPrecision", "maxIterations", "epsilonPrecision"} {
		if n, ok := t.constOf(c); ok {
			fmt.Fprintf(&b, "def %s : Int := %d\n", lowerFirst(c), n)
		} else {
			notes = append(notes, "Iro: constant "+c+" not found")
		}
	}
	// MinTokenAllocation = math.LegacyNewDec(k)
	if v, ok := p.vars["MinTokenAllocation"]; ok {
		if ie, ok := v.(*iotaExpr); ok {
			if ce, ok := ie.e.(*ast.CallExpr); ok && t.sel(ce.Fun) == "math.LegacyNewDec" && len(ce.Args) == 1 {
				if n, err := p.constInt(ce.Args[0], 0); err == nil {
					fmt.Fprintf(&b, "def minTokenAllocation : Dec := Dec.ofInt %d\n", n)
				}
			}
		}
	}
	b.WriteString("\n")
	curveVars := func(extra map[string]iroVal) map[string]iroVal {
		m := map[string]iroVal{
			"lbc.M": {"m", iroDec}, "lbc.N": {"n", iroDec}, "lbc.C": {"c", iroDec},
			"curve.M": {"m", iroDec}, "curve.N": {"n", iroDec}, "curve.C": {"c", iroDec},
			"lbc.SupplyDecimals()": {"S", iroNat}, "lbc.LiquidityDecimals()": {"L", iroNat},
			"lbc.RollappDenomDecimals": {"(S : Int)", iroInt}, "lbc.LiquidityDenomDecimals": {"(L : Int)", iroInt},
			"MaxNValue": {"maxNValue", iroInt}, "MaxNPrecision": {"maxNPrecision.toNat", iroInt},
		}
		for k, v := range extra {
			m[k] = v
		}
		return m
	}
	fns := []*iroFn{
		{goName: "ScaleFromBase", leanName: "scaleFromBase", ret: "val", retLean: "Dec",
			params: []iroParam{{"x", "Int"}, {"precision", "Nat"}},
			vars:   map[string]iroVal{"x": {"x", iroInt}, "precision": {"precision", iroNat}}},
		{goName: "ScaleToBase", leanName: "scaleToBase", ret: "val", retLean: "Int",
			params: []iroParam{{"x", "Dec"}, {"precision", "Nat"}},
			vars:   map[string]iroVal{"x": {"x", iroDec}, "precision": {"precision", iroNat}}},
		{goName: "checkPrecision", leanName: "checkPrecision", ret: "val", retLean: "Bool",
			params: []iroParam{{"d", "Dec"}},
			vars:   map[string]iroVal{"d": {"d", iroDec}, "MaxNPrecision": {"maxNPrecision.toNat", iroInt}}},
		{goName: "BondingCurve.ValidateBasic", leanName: "validateBasic", ret: "boolerr", retLean: "Bool",
			params: []iroParam{{"m", "Dec"}, {"n", "Dec"}, {"c", "Dec"}, {"S", "Nat"}, {"L", "Nat"}},
			vars:   curveVars(nil)},
		{goName: "BondingCurve.Cost", leanName: "cost", ret: "val", retLean: "Int",
			params: []iroParam{{"integral", "Dec → Dec"}, {"S", "Nat"}, {"L", "Nat"}, {"x", "Int"}, {"x1", "Int"}},
			vars:   curveVars(map[string]iroVal{"x": {"x", iroInt}, "x1": {"x1", iroInt}, "lbc.integral(·)": {"integral", iroDec}})},
		{goName: "BondingCurve.TokensForExactInAmount", leanName: "tokensForExactInAmount", ret: "opt1", retLean: "Option Int",
			params: []iroParam{{"T", "Int → Int → Option Int"}, {"S", "Nat"}, {"L", "Nat"}, {"currX", "Int"}, {"spendAmt", "Int"}},
			vars: curveVars(map[string]iroVal{"currX": {"currX", iroInt}, "spendAmt": {"spendAmt", iroInt},
				"lbc.TokensApproximation(·,·)": {"T", iroDec}})},
		{goName: "FindEquilibrium", leanName: "findEquilibrium", ret: "val", retLean: "Int",
			params: []iroParam{{"m", "Dec"}, {"n", "Dec"}, {"totalAllocation", "Int"}, {"r", "Dec"}},
			vars:   curveVars(map[string]iroVal{"totalAllocation": {"totalAllocation", iroInt}, "r": {"r", iroDec}})},
		{goName: "Keeper.ApplyTakerFee", leanName: "applyTakerFee", ret: "opt2", retLean: "Option (Int × Int)",
			params: []iroParam{{"amount", "Int"}, {"takerFee", "Dec"}, {"isAdd", "Bool"}},
			vars:   map[string]iroVal{"amount": {"amount", iroInt}, "takerFee": {"takerFee", iroDec}, "isAdd": {"isAdd = true", iroBool}}},
		{goName: "IROVestingPlan.VestedAmt", leanName: "vestedAmt", ret: "val", retLean: "Int",
			params: []iroParam{{"v", "Vest"}, {"currTime", "Int"}},
			vars: map[string]iroVal{"currTime": {"currTime", iroInt}, "v.Amount": {"v.amount", iroInt}, "v.Claimed": {"v.claimed", iroInt},
				"v.StartTime": {"v.start", iroInt}, "v.EndTime": {"v.stop", iroInt}}},
	}
	for _, f := range fns {
		b.WriteString(t.emit(f, &notes))
		b.WriteString("\n")
	}
	b.WriteString("end DymVerif.Gen.Iro\n")
	return b.String(), notes, nil
}
