package main

// Gen/Eibc.lean — translation of the small pure functions the eIBC clauses of C05 rest on:
//   types.CalcPriceWithBridgingFee, OnDemandLPRecord.MaxSpend, OnDemandLPRecord.Accepts
// (x/eibc/types/fees.go, lp.go) into Lean definitions over Int / Nat / Dec.
//
// Accepted subset: `x := e`, `if c { return v, err }`, `return e[, nil]`; expressions built from
// parameters, field selections and argument-less getters of parameters (each distinct leaf becomes
// a parameter of the Lean definition, typed from the struct / method declarations of the package),
// the math.Int / LegacyDec methods Sub Add MulInt TruncateInt LTE LT GTE GT IsPositive IsZero,
// math.MinInt / MaxInt / ZeroInt, `!`, `&&`, `||`, `<=` and `-` on uint64 (the subtraction wraps),
// and calls of an already translated method on the same receiver.

import (
	"fmt"
	"go/ast"
	"go/token"
	"path/filepath"
	"strings"
)

type eibcTr struct {
	p      *pkgSrc
	notes  []string
	params []string          // leaf parameters in order of first appearance
	ptype  map[string]string // leaf -> Int | Nat | Dec
	locals map[string]string // local -> Int | Nat | Dec | Bool
	known  map[string]string // "Recv.Method" -> lean application text (params included)
	recv   string            // receiver variable name
	recvT  string            // receiver type name
}

// leanType maps a Go type expression to the Lean type used for it
func leanTypeOf(e ast.Expr) string {
	s := ""
	switch t := e.(type) {
	case *ast.Ident:
		s = t.Name
	case *ast.SelectorExpr:
		s = t.Sel.Name
	case *ast.StarExpr:
		return leanTypeOf(t.X)
	}
	switch s {
	case "Int":
		return "Int"
	case "LegacyDec", "Dec":
		return "Dec"
	case "uint64", "uint32", "uint":
		return "Nat"
	case "bool":
		return "Bool"
	}
	return ""
}

// fieldType finds a struct field of the package by name
func (t *eibcTr) fieldType(name string) string {
	for _, f := range t.p.files {
		for _, d := range f.Decls {
			gd, ok := d.(*ast.GenDecl)
			if !ok || gd.Tok != token.TYPE {
				continue
			}
			for _, s := range gd.Specs {
				st, ok := s.(*ast.TypeSpec).Type.(*ast.StructType)
				if !ok {
					continue
				}
				for _, fl := range st.Fields.List {
					for _, n := range fl.Names {
						if n.Name == name {
							if lt := leanTypeOf(fl.Type); lt != "" {
								return lt
							}
						}
					}
				}
			}
		}
	}
	return ""
}

// getterType finds the result type of an argument-less method by name
func (t *eibcTr) getterType(name string) string {
	for k, d := range t.p.funcs {
		if strings.HasSuffix(k, "."+name) && d.Type.Results != nil && len(d.Type.Results.List) == 1 {
			if lt := leanTypeOf(d.Type.Results.List[0].Type); lt != "" {
				return lt
			}
		}
	}
	return ""
}

func (t *eibcTr) leaf(name, typ string) (string, string, error) {
	if typ == "" {
		return "", "", unsup("cannot type leaf %s", name)
	}
	l := lowerFirst(name)
	if _, ok := t.ptype[l]; !ok {
		t.ptype[l] = typ
		t.params = append(t.params, l)
	}
	return lid(l), typ, nil
}

// expr returns (lean text, lean type)
func (t *eibcTr) expr(e ast.Expr) (string, string, error) {
	switch e := e.(type) {
	case *ast.ParenExpr:
		return t.expr(e.X)
	case *ast.Ident:
		if ty, ok := t.locals[e.Name]; ok {
			return lid(e.Name), ty, nil
		}
		if ty, ok := t.ptype[e.Name]; ok {
			return lid(e.Name), ty, nil
		}
		return "", "", unsup("identifier %s", e.Name)
	case *ast.SelectorExpr:
		// field chain rooted at the receiver or a parameter: the leaf is the last name
		return t.leaf(e.Sel.Name, t.fieldType(e.Sel.Name))
	case *ast.UnaryExpr:
		if e.Op == token.NOT {
			x, ty, err := t.expr(e.X)
			if err != nil || ty != "Bool" {
				return "", "", unsup("! on non-bool")
			}
			return "(!" + x + ")", "Bool", nil
		}
	case *ast.BinaryExpr:
		a, ta, err := t.expr(e.X)
		if err != nil {
			return "", "", err
		}
		b, tb, err := t.expr(e.Y)
		if err != nil {
			return "", "", err
		}
		switch {
		case e.Op == token.LAND && ta == "Bool" && tb == "Bool":
			return "(" + a + " && " + b + ")", "Bool", nil
		case e.Op == token.LOR && ta == "Bool" && tb == "Bool":
			return "(" + a + " || " + b + ")", "Bool", nil
		case e.Op == token.LEQ && ta == "Nat" && tb == "Nat":
			return "(decide (" + a + " ≤ " + b + "))", "Bool", nil
		case e.Op == token.SUB && ta == "Nat" && tb == "Nat":
			// uint64 subtraction wraps around
			return "((" + a + " + 2 ^ 64 - " + b + ") % 2 ^ 64)", "Nat", nil
		}
		return "", "", unsup("binary %s on %s,%s", e.Op, ta, tb)
	case *ast.CallExpr:
		sel, ok := e.Fun.(*ast.SelectorExpr)
		if !ok {
			return "", "", unsup("call %T", e.Fun)
		}
		// package functions of cosmossdk.io/math
		if id, ok := sel.X.(*ast.Ident); ok && id.Name == "math" {
			switch sel.Sel.Name {
			case "ZeroInt":
				return "(0 : Int)", "Int", nil
			case "MinInt", "MaxInt":
				if len(e.Args) != 2 {
					break
				}
				a, ta, err := t.expr(e.Args[0])
				if err != nil {
					return "", "", err
				}
				b, tb, err := t.expr(e.Args[1])
				if err != nil {
					return "", "", err
				}
				if ta != "Int" || tb != "Int" {
					break
				}
				f := map[string]string{"MinInt": "min", "MaxInt": "max"}[sel.Sel.Name]
				return "(" + f + " " + a + " " + b + ")", "Int", nil
			}
			return "", "", unsup("math.%s", sel.Sel.Name)
		}
		// an already translated method of the same receiver
		if id, ok := sel.X.(*ast.Ident); ok && id.Name == t.recv && len(e.Args) == 0 {
			if app, ok := t.known[t.recvT+"."+sel.Sel.Name]; ok {
				f := strings.Fields(app)
				for _, prm := range f[1:] {
					if _, ok := t.ptype[prm]; !ok {
						t.ptype[prm] = "Int"
						t.params = append(t.params, prm)
					}
				}
				return "(" + app + ")", "Int", nil
			}
		}
		// argument-less getter of a parameter object: a leaf
		if _, isIdent := sel.X.(*ast.Ident); isIdent && len(e.Args) == 0 {
			if _, isLocal := t.locals[sel.X.(*ast.Ident).Name]; !isLocal {
				if _, isParam := t.ptype[sel.X.(*ast.Ident).Name]; !isParam {
					return t.leaf(sel.Sel.Name, t.getterType(sel.Sel.Name))
				}
			}
		}
		x, tx, err := t.expr(sel.X)
		if err != nil {
			return "", "", err
		}
		var args, targs []string
		for _, a := range e.Args {
			s, ty, err := t.expr(a)
			if err != nil {
				return "", "", err
			}
			args, targs = append(args, s), append(targs, ty)
		}
		m := sel.Sel.Name
		switch {
		case tx == "Dec" && m == "MulInt" && len(args) == 1 && targs[0] == "Int":
			return "(Dec.mulInt " + x + " " + args[0] + ")", "Dec", nil
		case tx == "Dec" && m == "TruncateInt" && len(args) == 0:
			return "(Dec.truncateInt " + x + ")", "Int", nil
		case tx == "Int" && (m == "Sub" || m == "Add") && len(args) == 1 && targs[0] == "Int":
			return "(" + x + map[string]string{"Sub": " - ", "Add": " + "}[m] + args[0] + ")", "Int", nil
		case tx == "Int" && len(args) == 1 && targs[0] == "Int" && (m == "LTE" || m == "LT" || m == "GTE" || m == "GT"):
			op := map[string]string{"LTE": "≤", "LT": "<", "GTE": "≥", "GT": ">"}[m]
			return "(decide (" + x + " " + op + " " + args[0] + "))", "Bool", nil
		case tx == "Int" && m == "IsPositive" && len(args) == 0:
			return "(decide (0 < " + x + "))", "Bool", nil
		case tx == "Int" && m == "IsZero" && len(args) == 0:
			return "(decide (" + x + " = 0))", "Bool", nil
		}
		return "", "", unsup("method %s on %s", m, tx)
	}
	return "", "", unsup("expression %T", e)
}

// stmts translates a statement list; `opt` = the function returns (value, error): errors become none
func (t *eibcTr) stmts(ss []ast.Stmt, opt bool) (string, string, error) {
	if len(ss) == 0 {
		return "", "", unsup("falls off the end")
	}
	switch s := ss[0].(type) {
	case *ast.AssignStmt:
		if len(s.Lhs) != 1 || len(s.Rhs) != 1 || s.Tok != token.DEFINE {
			return "", "", unsup("assignment form")
		}
		id, ok := s.Lhs[0].(*ast.Ident)
		if !ok {
			return "", "", unsup("assign target")
		}
		x, ty, err := t.expr(s.Rhs[0])
		if err != nil {
			return "", "", err
		}
		t.locals[id.Name] = ty
		k, kt, err := t.stmts(ss[1:], opt)
		if err != nil {
			return "", "", err
		}
		return fmt.Sprintf("let %s := %s\n  %s", lid(id.Name), x, k), kt, nil
	case *ast.IfStmt:
		if s.Else != nil || s.Init != nil || len(s.Body.List) != 1 || !opt {
			return "", "", unsup("if form")
		}
		r, ok := s.Body.List[0].(*ast.ReturnStmt)
		if !ok || len(r.Results) != 2 {
			return "", "", unsup("if body")
		}
		if id, ok := r.Results[1].(*ast.Ident); ok && id.Name == "nil" {
			return "", "", unsup("early success return")
		}
		c, ty, err := t.expr(s.Cond)
		if err != nil || ty != "Bool" {
			return "", "", unsup("if condition")
		}
		k, kt, err := t.stmts(ss[1:], opt)
		if err != nil {
			return "", "", err
		}
		return fmt.Sprintf("if %s then none else\n  %s", c, k), kt, nil
	case *ast.ReturnStmt:
		if opt {
			if len(s.Results) != 2 {
				return "", "", unsup("return arity")
			}
			if id, ok := s.Results[1].(*ast.Ident); !ok || id.Name != "nil" {
				return "", "", unsup("final return with error")
			}
			x, ty, err := t.expr(s.Results[0])
			return "some " + x, ty, err
		}
		if len(s.Results) != 1 {
			return "", "", unsup("return arity")
		}
		return t.expr(s.Results[0])
	}
	return "", "", unsup("statement %T", ss[0])
}

// fn translates function / method `goName` into `leanName`; returns the definition and the
// application text "leanName p1 p2 .." for later calls
func (t *eibcTr) fn(goName, leanName string) (string, string) {
	d := t.p.funcs[goName]
	t.params, t.ptype, t.locals = nil, map[string]string{}, map[string]string{}
	t.recv, t.recvT = "", ""
	if d == nil {
		t.notes = append(t.notes, goName+": function not found")
		return fmt.Sprintf("opaque %s : Int\n", leanName), leanName
	}
	if d.Recv != nil && len(d.Recv.List) == 1 && len(d.Recv.List[0].Names) == 1 {
		t.recv, t.recvT = d.Recv.List[0].Names[0].Name, recvTypeName(d.Recv.List[0].Type)
	}
	for _, f := range d.Type.Params.List {
		lt := leanTypeOf(f.Type)
		for _, n := range f.Names {
			if lt != "" { // scalar parameter; object parameters only contribute leaves
				t.ptype[n.Name] = lt
				t.params = append(t.params, n.Name)
			}
		}
	}
	opt := d.Type.Results != nil && len(d.Type.Results.List) == 2
	body, rt, err := t.stmts(d.Body.List, opt)
	if err != nil {
		t.notes = append(t.notes, goName+": outside the translated subset: "+err.Error())
		return fmt.Sprintf("opaque %s : Int\n", leanName), leanName
	}
	sig, app := "", leanName
	for _, p := range t.params {
		sig += fmt.Sprintf(" (%s : %s)", lid(p), t.ptype[p])
		app += " " + lid(p)
	}
	if opt {
		rt = "Option " + rt
	}
	return fmt.Sprintf("/-- translated from `%s` -/\ndef %s%s : %s :=\n  %s\n", goName, leanName, sig, rt, body), app
}

func genEibc(repo string) (string, []string, error) {
	dir := filepath.Join(repo, "x/eibc/types")
	files, err := filepath.Glob(filepath.Join(dir, "*.go"))
	if err != nil {
		return "", nil, err
	}
	var srcs []string
	for _, f := range files {
		if !strings.HasSuffix(f, "_test.go") && !strings.HasSuffix(f, ".pb.gw.go") {
			srcs = append(srcs, f)
		}
	}
	p, err := loadFiles(srcs...)
	if err != nil {
		return "", nil, err
	}
	t := &eibcTr{p: p, known: map[string]string{}}
	var b strings.Builder
	b.WriteString("import DymVerif.Base.Dec\nnamespace DymVerif.Gen.Eibc\nopen DymVerif\n\n")
	d1, _ := t.fn("CalcPriceWithBridgingFee", "calcPriceWithBridgingFee")
	b.WriteString(d1 + "\n")
	d2, app2 := t.fn("OnDemandLPRecord.MaxSpend", "maxSpend")
	b.WriteString(d2 + "\n")
	t.known["OnDemandLPRecord.MaxSpend"] = app2
	d3, _ := t.fn("OnDemandLPRecord.Accepts", "accepts")
	b.WriteString(d3 + "\n")
	b.WriteString("end DymVerif.Gen.Eibc\n")
	return b.String(), t.notes, nil
}
