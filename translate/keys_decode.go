package main

import (
	"fmt"
	"go/ast"
	"go/token"
	"strconv"
	"strings"
)

// decodeBody TRANSLATES the body of DecodePacketKey (straight-line buffer code over base64.StdEncoding)
// into a Lean term over the primitives of Model/KeysX (`b64DecodedLen`, `b64DecodeInto`, `List.take`,
// `trimRight0`, `List.replicate`); `Lemmas/GenEqKeys.decodePacketKey_eq` proves the term equal to the
// model's decoder.  Subset:
//
//	v := make([]byte, <int expr>)
//	n, err := base64.StdEncoding.Decode(v, []byte(s))   followed by   if err != nil { return nil, err }
//	v := <bytes expr> / v = <bytes expr>
//	return <bytes expr>, nil
//
// bytes expr: identifier, x[:n], x[a:], x[a:n], bytes.TrimRight(x, "\x00"), []byte(x), string(x);
// int expr: identifier, literal, len(x), base64.StdEncoding.DecodedLen(<int expr>), + - * /.
func decodeBody(p *pkgSrc, notes *[]string) string {
	opaque := "opaque decodePacketKey (s : Bytes) : Option Bytes\n\n"
	d := p.funcs["DecodePacketKey"]
	if d == nil || d.Body == nil || len(d.Type.Params.List) != 1 || len(d.Type.Params.List[0].Names) != 1 {
		*notes = append(*notes, "DecodePacketKey: not found or parameter list changed")
		return opaque
	}
	param := d.Type.Params.List[0].Names[0].Name
	t := &decTr{ren: map[string]string{param: "s"}}
	body, err := t.stmts(d.Body.List)
	if err != nil {
		*notes = append(*notes, "DecodePacketKey: "+err.Error())
		return opaque
	}
	return "/-- translated from the body of `DecodePacketKey` -/\ndef decodePacketKey (s : Bytes) : Option Bytes :=\n" + body + "\n\n"
}

type decTr struct {
	ren map[string]string // Go local -> Lean name
}

func (t *decTr) name(id string) string {
	if n, ok := t.ren[id]; ok {
		return n
	}
	n := lid(id)
	t.ren[id] = n
	return n
}

func isStdEnc(e ast.Expr, method string) bool {
	sel, ok := e.(*ast.SelectorExpr)
	if !ok || sel.Sel.Name != method {
		return false
	}
	inner, ok := sel.X.(*ast.SelectorExpr)
	return ok && selName(inner) == "base64.StdEncoding"
}

func (t *decTr) intExpr(e ast.Expr) (string, error) {
	switch e := e.(type) {
	case *ast.ParenExpr:
		return t.intExpr(e.X)
	case *ast.Ident:
		return t.name(e.Name), nil
	case *ast.BasicLit:
		if e.Kind == token.INT {
			return e.Value, nil
		}
	case *ast.BinaryExpr:
		op := map[token.Token]string{token.ADD: "+", token.SUB: "-", token.MUL: "*", token.QUO: "/"}[e.Op]
		if op != "" {
			a, err := t.intExpr(e.X)
			if err != nil {
				return "", err
			}
			b, err := t.intExpr(e.Y)
			if err != nil {
				return "", err
			}
			return "(" + a + " " + op + " " + b + ")", nil
		}
	case *ast.CallExpr:
		if id, ok := e.Fun.(*ast.Ident); ok && id.Name == "len" && len(e.Args) == 1 {
			x, err := t.bytesExpr(e.Args[0])
			if err != nil {
				return "", err
			}
			return "(" + x + ").length", nil
		}
		if isStdEnc(e.Fun, "DecodedLen") && len(e.Args) == 1 {
			x, err := t.intExpr(e.Args[0])
			if err != nil {
				return "", err
			}
			return "(Keys.b64DecodedLen " + x + ")", nil
		}
	}
	return "", unsup("integer expression outside the subset: %T", e)
}

func (t *decTr) bytesExpr(e ast.Expr) (string, error) {
	switch e := e.(type) {
	case *ast.ParenExpr:
		return t.bytesExpr(e.X)
	case *ast.Ident:
		return t.name(e.Name), nil
	case *ast.SliceExpr:
		if e.Slice3 {
			break
		}
		x, err := t.bytesExpr(e.X)
		if err != nil {
			return "", err
		}
		if e.High != nil {
			h, err := t.intExpr(e.High)
			if err != nil {
				return "", err
			}
			x = "(List.take " + h + " " + x + ")"
		}
		if e.Low != nil {
			l, err := t.intExpr(e.Low)
			if err != nil {
				return "", err
			}
			x = "(List.drop " + l + " " + x + ")"
		}
		return x, nil
	case *ast.CallExpr:
		if sel, ok := e.Fun.(*ast.SelectorExpr); ok && selName(sel) == "bytes.TrimRight" && len(e.Args) == 2 {
			if lit, ok := e.Args[1].(*ast.BasicLit); ok && lit.Kind == token.STRING {
				if cut, err := strconv.Unquote(lit.Value); err == nil && cut == "\x00" {
					x, err := t.bytesExpr(e.Args[0])
					if err != nil {
						return "", err
					}
					return "(trimRight0 " + x + ")", nil
				}
			}
			return "", unsup("bytes.TrimRight with a cutset other than \"\\x00\"")
		}
		if len(e.Args) == 1 {
			switch f := e.Fun.(type) {
			case *ast.ArrayType: // []byte(x)
				if id, ok := f.Elt.(*ast.Ident); ok && id.Name == "byte" && f.Len == nil {
					return t.bytesExpr(e.Args[0])
				}
			case *ast.Ident:
				if f.Name == "string" {
					return t.bytesExpr(e.Args[0])
				}
			}
		}
	}
	return "", unsup("byte-slice expression outside the subset: %T", e)
}

func isErrReturn(s ast.Stmt, errName string) bool {
	ifs, ok := s.(*ast.IfStmt)
	if !ok || ifs.Init != nil || ifs.Else != nil || len(ifs.Body.List) != 1 {
		return false
	}
	c, ok := ifs.Cond.(*ast.BinaryExpr)
	if !ok || c.Op != token.NEQ {
		return false
	}
	x, ok1 := c.X.(*ast.Ident)
	y, ok2 := c.Y.(*ast.Ident)
	if !ok1 || !ok2 || x.Name != errName || y.Name != "nil" {
		return false
	}
	ret, ok := ifs.Body.List[0].(*ast.ReturnStmt)
	if !ok || len(ret.Results) != 2 {
		return false
	}
	r0, ok1 := ret.Results[0].(*ast.Ident)
	r1, ok2 := ret.Results[1].(*ast.Ident)
	return ok1 && ok2 && r0.Name == "nil" && r1.Name == errName
}

func (t *decTr) stmts(list []ast.Stmt) (string, error) {
	var b strings.Builder
	for i := 0; i < len(list); i++ {
		switch s := list[i].(type) {
		case *ast.AssignStmt:
			if len(s.Lhs) == 1 && len(s.Rhs) == 1 {
				lhs, ok := s.Lhs[0].(*ast.Ident)
				if !ok {
					return "", unsup("assignment to a non-identifier")
				}
				if call, ok := s.Rhs[0].(*ast.CallExpr); ok {
					if id, ok := call.Fun.(*ast.Ident); ok && id.Name == "make" && len(call.Args) == 2 {
						n, err := t.intExpr(call.Args[1])
						if err != nil {
							return "", err
						}
						fmt.Fprintf(&b, "  let %s : Bytes := List.replicate %s 0\n", t.name(lhs.Name), n)
						continue
					}
				}
				x, err := t.bytesExpr(s.Rhs[0])
				if err != nil {
					return "", err
				}
				fmt.Fprintf(&b, "  let %s : Bytes := %s\n", t.name(lhs.Name), x)
				continue
			}
			if len(s.Lhs) == 2 && len(s.Rhs) == 1 {
				call, ok := s.Rhs[0].(*ast.CallExpr)
				n, ok1 := s.Lhs[0].(*ast.Ident)
				e, ok2 := s.Lhs[1].(*ast.Ident)
				if ok && ok1 && ok2 && isStdEnc(call.Fun, "Decode") && len(call.Args) == 2 && i+1 < len(list) && isErrReturn(list[i+1], e.Name) {
					dst, ok := call.Args[0].(*ast.Ident)
					if !ok {
						return "", unsup("Decode into a non-identifier destination")
					}
					src, err := t.bytesExpr(call.Args[1])
					if err != nil {
						return "", err
					}
					rest, err := t.stmts(list[i+2:])
					if err != nil {
						return "", err
					}
					d := t.name(dst.Name)
					// Decode writes into the destination: the buffer is rebound to what it holds afterwards
					fmt.Fprintf(&b, "  match Keys.b64DecodeInto %s %s with\n  | none => none\n  | some (%s, %s) =>\n%s", d, src, d, t.name(n.Name), rest)
					return b.String(), nil
				}
			}
			return "", unsup("assignment outside the subset")
		case *ast.ReturnStmt:
			if len(s.Results) == 2 {
				if id, ok := s.Results[1].(*ast.Ident); ok && id.Name == "nil" {
					x, err := t.bytesExpr(s.Results[0])
					if err != nil {
						return "", err
					}
					fmt.Fprintf(&b, "  some %s", x)
					return b.String(), nil
				}
			}
			return "", unsup("return outside the subset")
		default:
			return "", unsup("statement outside the subset: %T", s)
		}
	}
	return "", unsup("body does not end in a return")
}
