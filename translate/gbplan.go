package main

// Gen/GBPlan.lean — regenerated facts about the IRO-plan side of M-GB (property C10): how a plan seals the
// registered genesis info of its rollapp and moves the pre-launch time, with trading enabled at creation
// or later through MsgEnableTrading.
//
//   * for every mirrored function its statement skeleton: every statement of the body in source order,
//     as normalised text — `if <cond> {` … `} else {` … `}`, `set <lhs> = <rhs>`, `let <lhs> := <rhs>`,
//     `call <expr>`, `return <exprs>` — comments ignored.  Unlike the guard/call skeleton of
//     translate/lockup.go this one keeps assignments and returns, because the order of
//     `rollapp.GenesisInfo.Sealed = true` relative to the returns of SetIROPlanToRollapp is exactly what
//     the model depends on.  Lemmas/GenEqGBPlan.lean states the skeletons M-GB was written against.
//   * the distance (in hours) by which SetIROPlanToRollapp parks the pre-launch time of a plan whose
//     trading is not enabled: the product `time.Hour * 24 * 365 * 10`.
//
// Helper names in this file are prefixed gp… (other translate/*.go files share the package).

import (
	"fmt"
	"go/ast"
	"go/token"
	"path/filepath"
	"strconv"
	"strings"
)

func gpExprs(p *pkgSrc, es []ast.Expr) string {
	var xs []string
	for _, e := range es {
		xs = append(xs, exprText(p.fset, e))
	}
	return strings.Join(xs, ", ")
}

func gpBlock(p *pkgSrc, b *ast.BlockStmt, out *[]string) {
	for _, st := range b.List {
		gpStmt(p, st, out)
	}
}

func gpStmt(p *pkgSrc, st ast.Stmt, out *[]string) {
	switch x := st.(type) {
	case *ast.IfStmt:
		if x.Init != nil {
			gpStmt(p, x.Init, out)
		}
		*out = append(*out, "if "+exprText(p.fset, x.Cond)+" {")
		gpBlock(p, x.Body, out)
		for el := x.Else; el != nil; {
			switch e := el.(type) {
			case *ast.BlockStmt:
				*out = append(*out, "} else {")
				gpBlock(p, e, out)
				el = nil
			case *ast.IfStmt:
				*out = append(*out, "} else if "+exprText(p.fset, e.Cond)+" {")
				gpBlock(p, e.Body, out)
				el = e.Else
			default:
				*out = append(*out, "} else ?")
				el = nil
			}
		}
		*out = append(*out, "}")
	case *ast.AssignStmt:
		kw := "set "
		if x.Tok == token.DEFINE {
			kw = "let "
		}
		*out = append(*out, kw+gpExprs(p, x.Lhs)+" "+x.Tok.String()+" "+gpExprs(p, x.Rhs))
	case *ast.ExprStmt:
		*out = append(*out, "call "+exprText(p.fset, x.X))
	case *ast.ReturnStmt:
		*out = append(*out, strings.TrimSpace("return "+gpExprs(p, x.Results)))
	case *ast.RangeStmt:
		*out = append(*out, "range "+exprText(p.fset, x.X)+" {")
		gpBlock(p, x.Body, out)
		*out = append(*out, "}")
	case *ast.BlockStmt:
		gpBlock(p, x, out)
	default:
		*out = append(*out, "stmt "+exprText(p.fset, st))
	}
}

// gpHours evaluates a product of integer literals and exactly one `time.Hour` factor
func gpHours(e ast.Expr) (n int, hourFactors int, ok bool) {
	switch x := e.(type) {
	case *ast.ParenExpr:
		return gpHours(x.X)
	case *ast.BasicLit:
		if x.Kind != token.INT {
			return 0, 0, false
		}
		v, err := strconv.Atoi(x.Value)
		return v, 0, err == nil
	case *ast.SelectorExpr:
		if ibcExprText(x) == "time.Hour" {
			return 1, 1, true
		}
	case *ast.BinaryExpr:
		if x.Op != token.MUL {
			return 0, 0, false
		}
		a, ha, oka := gpHours(x.X)
		b, hb, okb := gpHours(x.Y)
		return a * b, ha + hb, oka && okb
	}
	return 0, 0, false
}

func genGBPlan(repo string) (string, []string, error) {
	var notes []string
	var b strings.Builder
	b.WriteString("namespace DymVerif.Gen.GBPlan\n\n")
	type src struct {
		file           string
		goName, leanNm string
	}
	fns := []src{
		{"x/rollapp/keeper/rollapp.go", "Keeper.SetIROPlanToRollapp", "setIROPlanToRollapp"},
		{"x/rollapp/keeper/rollapp.go", "Keeper.SetPreLaunchTime", "setPreLaunchTime"},
		{"x/iro/keeper/trade.go", "Keeper.EnableTrading", "enableTrading"},
		{"x/iro/keeper/msg_server.go", "msgServer.EnableTrading", "msgEnableTrading"},
		{"x/iro/types/plan.go", "Plan.EnableTradingWithStartTime", "enableTradingWithStartTime"},
		{"x/iro/keeper/create_plan.go", "Keeper.CreatePlan", "createPlanHead"},
	}
	loaded := map[string]*pkgSrc{}
	for _, f := range fns {
		p, ok := loaded[f.file]
		if !ok {
			var err error
			if p, err = loadFiles(filepath.Join(repo, f.file)); err != nil {
				return "", nil, err
			}
			loaded[f.file] = p
		}
		fd, ok := p.funcs[f.goName]
		if !ok || fd.Body == nil {
			notes = append(notes, "function "+f.goName+" not found in "+f.file)
			fmt.Fprintf(&b, "opaque %s : List String\n\n", f.leanNm)
			continue
		}
		var sk []string
		gpBlock(p, fd.Body, &sk)
		if f.goName == "Keeper.CreatePlan" {
			// only the head, up to the call that touches the rollapp: what follows (module account, creation
			// fee, storing the plan) is the subject of the IRO properties
			cut := -1
			for i, l := range sk {
				if strings.Contains(l, "SetIROPlanToRollapp(") {
					cut = i
					break
				}
			}
			if cut < 0 {
				notes = append(notes, "Keeper.CreatePlan does not call SetIROPlanToRollapp")
				fmt.Fprintf(&b, "opaque %s : List String\n\n", f.leanNm)
				continue
			}
			sk = sk[:cut+1]
		}
		fmt.Fprintf(&b, "/-- %s (%s) -/\ndef %s : List String :=\n  %s\n\n", f.goName, f.file, f.leanNm, leanStrList(sk))
	}
	// the parking distance of SetIROPlanToRollapp: the argument of the only `.Add(` whose argument mentions time.Hour
	hours := -1
	if fd, ok := loaded["x/rollapp/keeper/rollapp.go"].funcs["Keeper.SetIROPlanToRollapp"]; ok && fd.Body != nil {
		cnt := 0
		ast.Inspect(fd.Body, func(n ast.Node) bool {
			call, ok := n.(*ast.CallExpr)
			if !ok || len(call.Args) != 1 {
				return true
			}
			sel, ok := call.Fun.(*ast.SelectorExpr)
			if !ok || sel.Sel.Name != "Add" {
				return true
			}
			if v, h, ok := gpHours(call.Args[0]); ok && h == 1 {
				hours = v
				cnt++
			}
			return true
		})
		if cnt != 1 {
			hours = -1
		}
	}
	if hours < 0 {
		notes = append(notes, "SetIROPlanToRollapp: no unique `.Add(time.Hour * …)` with a constant product")
		b.WriteString("opaque disabledPreLaunchHours : Nat\n\n")
	} else {
		fmt.Fprintf(&b, "/-- SetIROPlanToRollapp: pre-launch time of a plan without trading = block time + this many hours -/\ndef disabledPreLaunchHours : Nat := %d\n\n", hours)
	}
	b.WriteString("end DymVerif.Gen.GBPlan\n")
	return b.String(), notes, nil
}
