package main

// Gen/Core.lean — regenerated facts about x/rollapp and x/sequencer that the hand-written M-Core model
// (lean/DymVerif/Model/Core.lean; properties C01 C02 C03 C06 C07 C08 C11 C18) mirrors:
//
//   1. translations (corex.go) of the comparisons, guard chains, arithmetic and field updates that are
//      simple enough: Lemmas/GenEqCore.lean proves them equal to the model's expressions;
//   2. structured listings (skel.go) of every function the model mirrors step by step:
//      Lemmas/GenEqCore.lean records the listing the model was written against.
//
// Missing files / functions become notes + `opaque` (the Lean lemma then no longer checks): never a
// stale definition, never a panic.

import (
	"fmt"
	"go/ast"
	"os"
	"path/filepath"
	"strings"
)

// loadExisting is loadFiles restricted to the files that exist (a removed file is a note).
func loadExisting(notes *[]string, repo string, rel ...string) *pkgSrc {
	var paths []string
	for _, r := range rel {
		p := filepath.Join(repo, r)
		if _, err := os.Stat(p); err != nil {
			*notes = append(*notes, "file "+r+" not found")
			continue
		}
		paths = append(paths, p)
	}
	p, err := loadFiles(paths...)
	if err != nil {
		*notes = append(*notes, "parse error: "+err.Error())
		p, _ = loadFiles()
	}
	return p
}

type coreFn struct{ goName, lean string }

// stripConv removes integer conversions around a constant initialiser: uint64(7200) -> 7200
func stripConv(e ast.Expr) ast.Expr {
	switch x := e.(type) {
	case *iotaExpr:
		return &iotaExpr{e: stripConv(x.e), iota: x.iota}
	case *ast.ParenExpr:
		return stripConv(x.X)
	case *ast.CallExpr:
		if id, ok := x.Fun.(*ast.Ident); ok && len(x.Args) == 1 {
			switch id.Name {
			case "uint64", "int64", "int", "uint32", "uint":
				return stripConv(x.Args[0])
			}
		}
	}
	return e
}

func genCore(repo string) (src string, notes []string, err error) {
	defer func() {
		if r := recover(); r != nil { // robustness: code the translator does not understand is a broken tie, not a crash
			err = fmt.Errorf("core generator: %v", r)
		}
	}()
	var b strings.Builder
	b.WriteString("import DymVerif.Base.Dec\nimport DymVerif.Gen.Arith\nnamespace DymVerif.Gen.Core\nopen DymVerif\n\n")

	rk := loadExisting(&notes, repo,
		"x/rollapp/keeper/msg_server_update_state.go", "x/rollapp/keeper/hard_fork.go", "x/rollapp/keeper/liveness.go",
		"x/rollapp/keeper/block_height_to_finalization_queue.go", "x/rollapp/keeper/fraud_proposal.go",
		"x/rollapp/keeper/msg_server_mark_obsolete_rollapps.go", "x/rollapp/keeper/msg_server_transfer_ownership.go",
		"x/rollapp/keeper/sequencer_hooks.go", "x/rollapp/keeper/state_info.go", "x/rollapp/keeper/latest_state_info_index.go",
		"x/rollapp/keeper/grpc_query_state_info.go", "x/rollapp/keeper/rollapp.go", "x/rollapp/keeper/bond.go",
		"x/rollapp/keeper/params.go")
	rm := loadExisting(&notes, repo, "x/rollapp/module.go")
	rt := loadExisting(&notes, repo,
		"x/rollapp/types/state_info.go", "x/rollapp/types/message_update_state.go", "x/rollapp/types/block_descriptor.go",
		"x/rollapp/types/rollapp.go", "x/rollapp/types/params.go", "x/rollapp/types/message_fraud_proposal.go",
		"x/rollapp/types/message_mark_obsolete_rollapps.go")
	sk := loadExisting(&notes, repo,
		"x/sequencer/keeper/bond.go", "x/sequencer/keeper/funds.go", "x/sequencer/keeper/fraud.go", "x/sequencer/keeper/rotation.go",
		"x/sequencer/keeper/proposer.go", "x/sequencer/keeper/hook_listener.go", "x/sequencer/keeper/msg_server_bond.go",
		"x/sequencer/keeper/msg_server_create.go", "x/sequencer/keeper/msg_server_kick_proposer.go",
		"x/sequencer/keeper/msg_server_update.go", "x/sequencer/keeper/get_and_set.go", "x/sequencer/keeper/sequencer.go")
	sm := loadExisting(&notes, repo, "x/sequencer/module.go")
	// the standalone governance punishment (legacy gov route): handler + proposal content
	sp := loadExisting(&notes, repo, "x/sequencer/proposal_handler.go")
	// parameter updates (Core.Op.setSeqParams)
	spar := loadExisting(&notes, repo, "x/sequencer/keeper/msg_server_update_params.go", "x/sequencer/keeper/params.go")
	stp := loadExisting(&notes, repo, "x/sequencer/types/proposal_punish_sequencer.go")
	st := loadExisting(&notes, repo,
		"x/sequencer/types/sequencer.go", "x/sequencer/types/params.go", "x/sequencer/types/msg_bond.go",
		"x/sequencer/types/msg_create.go", "x/sequencer/types/operating_status.pb.go", "x/sequencer/types/status.go")

	// ------------------------------------------------------------------ 1. translations
	t := &coreTr{defs: map[string]*cdef{}, ext: map[string]string{"NextSlashHeight": "Gen.Arith.nextSlashHeight"}}
	b.WriteString("/-! ### translations -/\n\n")

	// constants
	for _, c := range []struct {
		p         *pkgSrc
		go_, lean string
	}{
		{rt, "DefaultDisputePeriodInBlocks", "defaultDisputePeriodInBlocks"},
		{rt, "MinDisputePeriodInBlocks", "minDisputePeriodInBlocks"},
		{rt, "DefaultLivenessSlashBlocks", "defaultLivenessSlashBlocks"},
		{rt, "DefaultLivenessSlashInterval", "defaultLivenessSlashInterval"},
		{st, "DefaultDishonorStateUpdate", "defaultDishonorStateUpdate"},
		{st, "DefaultDishonorLiveness", "defaultDishonorLiveness"},
		{st, "DefaultDishonorKickThreshold", "defaultDishonorKickThreshold"},
		{st, "Unbonded", "statusUnbonded"},
		{st, "Bonded", "statusBonded"},
	} {
		e, ok := c.p.vars[c.go_]
		if !ok {
			notes = append(notes, "constant "+c.go_+" not found")
			fmt.Fprintf(&b, "opaque %s : Nat\n\n", c.lean)
			continue
		}
		v, err := c.p.constInt(stripConv(e), 0)
		if err != nil {
			notes = append(notes, "constant "+c.go_+": "+err.Error())
			fmt.Fprintf(&b, "opaque %s : Nat\n\n", c.lean)
			continue
		}
		fmt.Fprintf(&b, "/-- `%s` -/\ndef %s : Nat := %d\n\n", c.go_, c.lean, v)
	}

	// x/rollapp/types: state info arithmetic
	b.WriteString(t.value(rt, "StateInfo.GetLatestHeight", "getLatestHeight", "", true))
	b.WriteString(t.value(rt, "StateInfo.ContainsHeight", "containsHeight", "", true))
	b.WriteString(t.value(rt, "StateInfo.NextSequencerForHeight", "nextSequencerForHeight", "", true))
	// MsgUpdateState.ValidateBasic: ordered checks before the loop, and the loop body
	b.WriteString(t.guards(rt, "MsgUpdateState.ValidateBasic", "updateStateValidateBasic"))
	b.WriteString(t.guardsLoop(rt, "MsgUpdateState.ValidateBasic", "updateStateValidateBD"))
	b.WriteString(t.guards(rt, "BlockDescriptor.Validate", "blockDescriptorValidate"))
	b.WriteString(t.guards(rt, "MsgMarkObsoleteRollapps.ValidateBasic", "markObsoleteValidateBasic"))
	b.WriteString(t.ifCond(rt, "Rollapp.GetRevisionForHeight", 0, "revisionForHeightCond"))

	// x/rollapp/keeper: UpdateState comparisons
	b.WriteString(t.ifCond(rk, "msgServer.UpdateState", 2, "updWrongRevision"))
	b.WriteString(t.local(rk, "msgServer.UpdateState", "expectedStartHeight", "updExpectedStartHeight"))
	b.WriteString(t.ifCond(rk, "msgServer.UpdateState", 7, "updWrongHeight"))
	b.WriteString(t.assigned(rk, "msgServer.UpdateState", "newIndex", "updNewIndex"))
	// hard fork guards
	b.WriteString(t.value(rk, "Keeper.ForkAllowed", "forkAllowed", "", false))
	b.WriteString(t.local(rk, "Keeper.HardFork", "newRevisionHeight", "hardForkNewRevisionHeight"))
	b.WriteString(t.callArg(rk, "Keeper.HardFork", "k.RevertPendingStates", 2, "hardForkRevertHeight"))
	b.WriteString(t.callArg(rk, "Keeper.SubmitRollappFraud", "k.HardFork", 2, "fraudLastValidHeight"))
	b.WriteString(t.ifCond(rk, "Keeper.UpdateLastStateInfo", 0, "ulsiBelowStart"))
	b.WriteString(t.ifCond(rk, "Keeper.UpdateLastStateInfo", 1, "ulsiAtStart"))
	b.WriteString(t.ifCond(rk, "Keeper.UpdateLastStateInfo", 3, "ulsiTruncate"))
	b.WriteString(t.ifCond(rk, "Keeper.pruneFinalizationsAbove", 1, "pruneKeepIndex"))
	b.WriteString(t.ifCond(rk, "Keeper.FindStateInfoByHeight", 0, "fsbhZero"))
	b.WriteString(t.ifCond(rk, "Keeper.FindStateInfoByHeight", 2, "fsbhBeyond"))
	b.WriteString(t.local(rk, "Keeper.FindStateInfoByHeight", "midIndex", "fsbhMid"))
	b.WriteString(t.ifCond(rk, "Keeper.FindStateInfoByHeight", 5, "fsbhGoLeft"))
	// finalization due height
	b.WriteString(t.ifCond(rk, "Keeper.FinalizeRollappStates", 0, "finalizeTooEarly"))
	b.WriteString(t.local(rk, "Keeper.FinalizeRollappStates", "finalizationHeight", "finalizationHeight"))
	// liveness clock
	b.WriteString(t.assigned(rk, "Keeper.ResetLivenessClock", "ra.LivenessEventHeight", "resetClockEventHeight"))
	b.WriteString(t.assigned(rk, "Keeper.ResetLivenessClock", "ra.LivenessCountdownStartHeight", "resetClockCountdownStart"))
	b.WriteString(t.local(rk, "Keeper.ScheduleLivenessEvent", "nextH", "scheduleNextH"))

	// x/sequencer/types: predicates
	b.WriteString(t.value(st, "Sequencer.Sentinel", "seqSentinel", "", true))
	b.WriteString(t.value(st, "Sequencer.Bonded", "seqBonded", "", true))
	b.WriteString(t.value(st, "Sequencer.IsPotentialProposer", "seqIsPotentialProposer", "", true))
	b.WriteString(t.value(st, "Sequencer.NoticeStarted", "seqNoticeStarted", "", true))
	b.WriteString(t.value(st, "Sequencer.NoticeElapsed", "seqNoticeElapsed", "", true))
	b.WriteString(t.value(st, "Sequencer.NoticeInProgress", "seqNoticeInProgress", "", true))
	// x/sequencer/keeper: bonds, slashing, dishonor, kick
	b.WriteString(t.ifCond(sk, "Keeper.TryUnbond", 0, "tryUnbondIsRole"))
	b.WriteString(t.ifCond(sk, "Keeper.TryUnbond", 2, "tryUnbondRefused"))
	b.WriteString(t.ifCond(sk, "Keeper.TryUnbond", 4, "tryUnbondBecomesUnbonded"))
	b.WriteString(t.guards(sk, "validBondDenom", "validBondDenom"))
	b.WriteString(t.guards(sk, "Keeper.sufficientBond", "sufficientBond"))
	b.WriteString(t.value(sk, "Keeper.Kickable", "kickable", "", false))
	b.WriteString(t.local(sk, "Keeper.livenessSlash", "amt", "livenessSlashAmt"))
	b.WriteString(t.value(sk, "Keeper.livenessHonor", "livenessHonor", "seq.Dishonor", false))
	b.WriteString(t.value(sk, "Keeper.livenessDishonor", "livenessDishonor", "seq.Dishonor", false))
	b.WriteString(t.local(sk, "Keeper.slash", "rewardCoin", "slashReward"))
	b.WriteString(t.local(sk, "Keeper.slash", "remainder", "slashRemainder"))
	b.WriteString(t.assigned(sk, "Keeper.PunishSequencer", "rewardMul", "punishRewardMul"))
	b.WriteString(t.assigned(sk, "Keeper.StartNoticePeriod", "prop.NoticePeriodTime", "noticePeriodEnd"))
	b.WriteString(t.ifCond(sk, "Keeper.TryKickProposer", 0, "kickNotPotential"))
	b.WriteString(t.ifCond(sk, "Keeper.TryKickProposer", 1, "kickSelf"))
	b.WriteString(t.ifCond(sk, "msgServer.Unbond", 1, "unbondRotationGuard"))
	b.WriteString(t.value(sk, "Keeper.IsProposer", "isProposer", "", false))
	b.WriteString(t.value(sk, "Keeper.IsSuccessor", "isSuccessor", "", false))
	b.WriteString(t.ifCond(sk, "rollappHook.BeforeUpdateState", 0, "beforeUpdateNotProposer"))
	b.WriteString(t.ifCond(sk, "rollappHook.BeforeUpdateState", 1, "beforeUpdateBadLast"))
	b.WriteString(t.callArg(sk, "rollappHook.AfterUpdateState", "hook.k.afterStateUpdate", 2, "afterUpdateIsLast"))
	notes = append(notes, t.notes...)

	// ------------------------------------------------------------------ 2. listings
	b.WriteString("/-! ### listings -/\n\n")
	for _, grp := range []struct {
		p   *pkgSrc
		fns []coreFn
	}{
		{rk, []coreFn{
			{"msgServer.UpdateState", "updateState"},
			{"msgServer.IsStateUpdateObsolete", "isStateUpdateObsolete"},
			{"Keeper.IsDRSVersionObsolete", "isDRSVersionObsolete"},
			{"Keeper.HardFork", "hardFork"},
			{"Keeper.RevertPendingStates", "revertPendingStates"},
			{"Keeper.UpdateLastStateInfo", "updateLastStateInfo"},
			{"Keeper.HardForkToLatest", "hardForkToLatest"},
			{"mapKeysToSlice", "mapKeysToSlice"},
			{"Keeper.pruneFinalizationsAbove", "pruneFinalizationsAbove"},
			{"Keeper.ForkLatestAllowed", "forkLatestAllowed"},
			{"Keeper.ForkAllowed", "forkAllowedL"},
			{"Keeper.FindStateInfoByHeight", "findStateInfoByHeight"},
			{"Keeper.GetLatestStateInfo", "getLatestStateInfo"},
			{"Keeper.GetLatestHeight", "getLatestHeightK"},
			{"Keeper.MustGetStateInfo", "mustGetStateInfo"},
			{"Keeper.CheckLiveness", "checkLiveness"},
			{"Keeper.HandleLivenessEvent", "handleLivenessEvent"},
			{"Keeper.IndicateLiveness", "indicateLiveness"},
			{"Keeper.ResetLivenessClock", "resetLivenessClock"},
			{"Keeper.ScheduleLivenessEvent", "scheduleLivenessEvent"},
			{"Keeper.GetLivenessEvents", "getLivenessEvents"},
			{"Keeper.PutLivenessEvent", "putLivenessEvent"},
			{"Keeper.DelLivenessEvents", "delLivenessEvents"},
			{"Keeper.CanUnbond", "canUnbond"},
			{"Keeper.PruneSequencerHeights", "pruneSequencerHeights"},
			{"Keeper.SaveSequencerHeight", "saveSequencerHeight"},
			{"Keeper.DelSequencerHeight", "delSequencerHeight"},
			{"Keeper.FinalizeRollappStates", "finalizeRollappStates"},
			{"Keeper.FinalizeAllPending", "finalizeAllPending"},
			{"Keeper.FinalizeStates", "finalizeStates"},
			{"Keeper.finalizePendingState", "finalizePendingState"},
			{"Keeper.SetFinalizationQueue", "setFinalizationQueue"},
			{"Keeper.GetFinalizationQueue", "getFinalizationQueue"},
			{"Keeper.RemoveFinalizationQueue", "removeFinalizationQueue"},
			{"Keeper.GetFinalizationQueueUntilHeightInclusive", "getFinalizationQueueUntilHeightInclusive"},
			{"Keeper.GetFinalizationQueueByRollapp", "getFinalizationQueueByRollapp"},
			{"Keeper.SubmitRollappFraud", "submitRollappFraud"},
			{"msgServer.MarkObsoleteRollapps", "msgMarkObsoleteRollapps"},
			{"Keeper.MarkObsoleteRollapps", "markObsoleteRollapps"},
			{"msgServer.TransferOwnership", "transferOwnership"},
			{"SequencerHooks.AfterSetRealProposer", "afterSetRealProposer"},
			{"SequencerHooks.AfterKickProposer", "afterKickProposer"},
			{"Keeper.SetRollappAsLaunched", "setRollappAsLaunched"},
			{"Keeper.MinBond", "minBond"},
		}},
		{rm, []coreFn{{"AppModule.EndBlock", "rollappEndBlock"}}},
		{rt, []coreFn{
			{"NewStateInfo", "newStateInfo"},
			{"StateInfo.Finalize", "stateInfoFinalize"},
			{"StateInfo.GetLatestHeight", "stateInfoGetLatestHeight"},
			{"StateInfo.ContainsHeight", "stateInfoContainsHeight"},
			{"StateInfo.GetLatestBlockDescriptor", "stateInfoGetLatestBlockDescriptor"},
			{"StateInfo.NextSequencerForHeight", "stateInfoNextSequencerForHeight"},
			{"MsgUpdateState.ValidateBasic", "msgUpdateStateValidateBasic"},
			{"BlockDescriptors.Validate", "blockDescriptorsValidate"},
			{"BlockDescriptor.Validate", "blockDescriptorValidateL"},
			{"Rollapp.LatestRevision", "rollappLatestRevision"},
			{"Rollapp.GetRevisionForHeight", "rollappGetRevisionForHeight"},
			{"Rollapp.BumpRevision", "rollappBumpRevision"},
			{"MsgRollappFraudProposal.ValidateBasic", "fraudProposalValidateBasic"},
			{"MsgRollappFraudProposal.MustRewardee", "fraudProposalMustRewardee"},
			{"MsgMarkObsoleteRollapps.ValidateBasic", "markObsoleteValidateBasicL"},
		}},
		{sk, []coreFn{
			{"Keeper.TryUnbond", "tryUnbond"},
			{"Keeper.unbond", "unbondInternal"},
			{"validBondDenom", "validBondDenomL"},
			{"Keeper.sufficientBond", "sufficientBondL"},
			{"Keeper.Kickable", "kickableL"},
			{"Keeper.burn", "burn"},
			{"Keeper.refund", "refund"},
			{"Keeper.sendFromModule", "sendFromModule"},
			{"Keeper.sendToModule", "sendToModule"},
			{"Keeper.TryKickProposer", "tryKickProposer"},
			{"Keeper.SlashLiveness", "slashLiveness"},
			{"Keeper.livenessSlash", "livenessSlash"},
			{"Keeper.livenessHonor", "livenessHonorL"},
			{"Keeper.livenessDishonor", "livenessDishonorL"},
			{"Keeper.PunishSequencer", "punishSequencer"},
			{"Keeper.slash", "slash"},
			{"Keeper.StartNoticePeriod", "startNoticePeriod"},
			{"Keeper.NoticeElapsedProposers", "noticeElapsedProposers"},
			{"Keeper.ChooseSuccessorForFinishedNotices", "chooseSuccessorForFinishedNotices"},
			{"Keeper.RotationInProgress", "rotationInProgress"},
			{"Keeper.AwaitingLastProposerBlock", "awaitingLastProposerBlock"},
			{"Keeper.OnProposerLastBlock", "onProposerLastBlock"},
			{"Keeper.setSuccessorForRotatingRollapp", "setSuccessorForRotatingRollapp"},
			{"ProposerChoiceAlgo", "proposerChoiceAlgo"},
			{"Keeper.afterStateUpdate", "afterStateUpdate"},
			{"Keeper.abruptRemoveProposer", "abruptRemoveProposer"},
			{"Keeper.optOutAllSequencers", "optOutAllSequencers"},
			{"Keeper.RollappPotentialProposers", "rollappPotentialProposers"},
			{"Keeper.RecoverFromSentinel", "recoverFromSentinel"},
			{"Keeper.IsProposer", "isProposerL"},
			{"Keeper.IsSuccessor", "isSuccessorL"},
			{"rollappHook.BeforeUpdateState", "hookBeforeUpdateState"},
			{"rollappHook.AfterUpdateState", "hookAfterUpdateState"},
			{"rollappHook.OnHardFork", "hookOnHardFork"},
			{"msgServer.IncreaseBond", "msgIncreaseBond"},
			{"msgServer.DecreaseBond", "msgDecreaseBond"},
			{"msgServer.Unbond", "msgUnbond"},
			{"msgServer.CreateSequencer", "msgCreateSequencer"},
			{"msgServer.KickProposer", "msgKickProposer"},
			{"msgServer.UpdateOptInStatus", "msgUpdateOptInStatus"},
			{"Keeper.SetSequencer", "setSequencer"},
			{"Keeper.SetProposer", "setProposer"},
			{"Keeper.SetSuccessor", "setSuccessor"},
			{"Keeper.AddToNoticeQueue", "addToNoticeQueue"},
			{"Keeper.removeFromNoticeQueue", "removeFromNoticeQueue"},
			{"Keeper.RollappSequencers", "rollappSequencers"},
			{"Keeper.RollappBondedSequencers", "rollappBondedSequencers"},
			{"Keeper.GetSequencer", "getSequencer"},
			{"Keeper.RealSequencer", "realSequencer"},
			{"Keeper.GetProposer", "getProposer"},
			{"Keeper.GetSuccessor", "getSuccessor"},
			{"Keeper.NoticeQueue", "noticeQueue"},
			{"Keeper.SentinelSequencer", "sentinelSequencer"},
			{"Keeper.NewSequencer", "newSequencer"},
		}},
		{sm, []coreFn{{"AppModule.BeginBlock", "sequencerBeginBlock"}}},
		{sp, []coreFn{
			{"NewSequencerProposalHandler", "newSequencerProposalHandler"},
			{"HandlePunishSequencerProposal", "handlePunishSequencerProposal"},
		}},
		{spar, []coreFn{
			{"msgServer.UpdateParams", "msgUpdateSeqParams"},
			{"Keeper.ValidateParams", "validateSeqParams"},
			{"Keeper.SetParams", "setSeqParamsK"},
		}},
		{st, []coreFn{
			{"Params.ValidateBasic", "seqParamsValidateBasic"},
			{"validateTime", "seqParamsValidateTime"},
			{"validateLivenessSlashMultiplier", "seqParamsValidateMultiplier"},
		}},
		{stp, []coreFn{
			{"PunishSequencerProposal.ProposalRoute", "punishProposalRoute"},
			{"PunishSequencerProposal.ValidateBasic", "punishProposalValidateBasic"},
			{"PunishSequencerProposal.MustRewardee", "punishProposalMustRewardee"},
		}},
		{st, []coreFn{
			{"Sequencer.SetOptedIn", "seqSetOptedIn"},
			{"Sequencer.Sentinel", "seqSentinelL"},
			{"Sequencer.Bonded", "seqBondedL"},
			{"Sequencer.IsPotentialProposer", "seqIsPotentialProposerL"},
			{"Sequencer.TokensCoin", "seqTokensCoin"},
			{"Sequencer.SetTokensCoin", "seqSetTokensCoin"},
			{"Sequencer.NoticeInProgress", "seqNoticeInProgressL"},
			{"Sequencer.NoticeElapsed", "seqNoticeElapsedL"},
			{"Sequencer.NoticeStarted", "seqNoticeStartedL"},
			{"MsgCreateSequencer.ValidateBasic", "msgCreateSequencerValidateBasic"},
			{"MsgIncreaseBond.ValidateBasic", "msgIncreaseBondValidateBasic"},
			{"MsgDecreaseBond.ValidateBasic", "msgDecreaseBondValidateBasic"},
		}},
	} {
		for _, f := range grp.fns {
			fd, ok := grp.p.funcs[f.goName]
			if !ok || fd.Body == nil {
				notes = append(notes, "function "+f.goName+" not found")
				fmt.Fprintf(&b, "opaque L.%s : List String\n\n", f.lean)
				continue
			}
			fmt.Fprintf(&b, "/-- %s -/\ndef L.%s : List String :=\n  %s\n\n", f.goName, f.lean, leanStrList(listing(grp.p, fd)))
		}
	}
	b.WriteString("end DymVerif.Gen.Core\n")
	return b.String(), notes, nil
}
