package main

// corex — mini-translator used by core.go for the small integer / boolean facts of x/rollapp and
// x/sequencer that M-Core mirrors: comparisons (with their operators and operands), guard chains
// (ordered `if c { return ErrX }` lists), straight-line arithmetic and field updates.
//
// Every Go leaf expression that is not computed inside the translated fragment (a message field, a
// keeper getter, a parameter, `ctx.BlockHeight()`) becomes a parameter of the Lean definition, named
// after its selector path; the list `name := go-expression` is emitted next to the definition
// (`<def>_src`) so that a changed operand is visible even when the shape stays the same.
// Integers are `Nat` (uint64/int64 conversions are identities: the Lean side states the
// no-overflow side conditions), `Coin.SafeSub` is `Int` subtraction, `LegacyDec` is `Dec`.
// Anything outside this subset makes the definition `opaque` and adds a note.

import (
	"fmt"
	"go/ast"
	"go/parser"
	"go/token"
	"math/big"
	"regexp"
	"strconv"
	"strings"
)

type ckind int

const (
	kU ckind = iota
	kNat
	kInt
	kBool
	kDec
	kAny
)

func (k ckind) lean() string {
	switch k {
	case kNat:
		return "Nat"
	case kInt:
		return "Int"
	case kBool:
		return "Bool"
	case kDec:
		return "Dec"
	}
	return "α"
}

type cleaf struct {
	name  string
	kind  ckind
	src   string
	param int    // index of the Go parameter this leaf stands for, -1 otherwise
	path  string // dotted Go path without the dropped roots (for inlining into callers)
	field bool   // a field / method of the receiver (re-rooted when the definition is inlined)
}

type cval struct {
	text string
	kind ckind
	leaf *cleaf
}

// cdef: an emitted definition (for calls from later translations)
type cdef struct {
	lean   string
	leaves []*cleaf
	kind   ckind
}

type coreTr struct {
	notes []string
	defs  map[string]*cdef // "Type.Method" / "Func" -> definition
	ext   map[string]string
}

type cunit struct {
	t        *coreTr
	p        *pkgSrc
	fn       *ast.FuncDecl
	recv     string
	varTypes map[string]string
	goParams map[string]int
	leaves   []*cleaf
	byName   map[string]*cleaf
	env      map[string]*cval
	pend     [][2]*cleaf
	isolated bool
	depth    int
}

var droppedRoots = map[string]bool{"k": true, "ctx": true, "hook": true, "h": true, "am": true, "goCtx": true}

func typeName(e ast.Expr) string {
	switch x := e.(type) {
	case *ast.StarExpr:
		return typeName(x.X)
	case *ast.SelectorExpr:
		return x.Sel.Name
	case *ast.Ident:
		return x.Name
	}
	return ""
}

func (t *coreTr) unit(p *pkgSrc, fn *ast.FuncDecl) *cunit {
	u := &cunit{t: t, p: p, fn: fn, varTypes: map[string]string{}, goParams: map[string]int{},
		byName: map[string]*cleaf{}, env: map[string]*cval{}}
	if fn.Recv != nil && len(fn.Recv.List) == 1 && len(fn.Recv.List[0].Names) == 1 {
		u.recv = fn.Recv.List[0].Names[0].Name
		u.varTypes[u.recv] = typeName(fn.Recv.List[0].Type)
	}
	i := 0
	for _, f := range fn.Type.Params.List {
		for _, n := range f.Names {
			u.goParams[n.Name] = i
			u.varTypes[n.Name] = typeName(f.Type)
			i++
		}
	}
	return u
}

func camel(parts []string) string {
	if len(parts) == 0 {
		return "x"
	}
	s := lowerFirst(parts[0])
	for _, p := range parts[1:] {
		if p == "" {
			continue
		}
		s += strings.ToUpper(p[:1]) + p[1:]
	}
	return lid(s)
}

// pathOf: selector chains, nullary-ish calls (arguments must be plain paths) and [0] / [i] indexing.
func (u *cunit) pathOf(e ast.Expr) ([]string, bool) {
	switch x := e.(type) {
	case *ast.Ident:
		return []string{x.Name}, true
	case *ast.ParenExpr:
		return u.pathOf(x.X)
	case *ast.StarExpr:
		return u.pathOf(x.X)
	case *ast.UnaryExpr:
		if x.Op == token.AND {
			return u.pathOf(x.X)
		}
	case *ast.SelectorExpr:
		p, ok := u.pathOf(x.X)
		if !ok {
			return nil, false
		}
		return append(p, x.Sel.Name), true
	case *ast.CallExpr:
		for _, a := range x.Args {
			if _, ok := u.pathOf(a); !ok {
				return nil, false
			}
		}
		return u.pathOf(x.Fun)
	case *ast.IndexExpr:
		p, ok := u.pathOf(x.X)
		if !ok {
			return nil, false
		}
		if b, isLit := x.Index.(*ast.BasicLit); isLit && b.Value == "0" {
			return p, true
		}
		return append(p, "At"), true
	}
	return nil, false
}

func (u *cunit) strip(parts []string) []string {
	for len(parts) > 1 && (droppedRoots[parts[0]] || parts[0] == u.recv) {
		parts = parts[1:]
	}
	return parts
}

func (u *cunit) leafNamed(name, src, path string, param int) (*cval, error) {
	if l, ok := u.byName[name]; ok {
		if l.src != src {
			return nil, unsup("two different operands named %s: `%s` and `%s`", name, l.src, src)
		}
		return &cval{text: name, kind: l.kind, leaf: l}, nil
	}
	l := &cleaf{name: name, src: src, param: param, path: path}
	u.byName[name] = l
	u.leaves = append(u.leaves, l)
	return &cval{text: name, kind: kU, leaf: l}, nil
}

func (u *cunit) leafOf(e ast.Expr) (*cval, error) {
	parts, ok := u.pathOf(e)
	if !ok {
		return nil, unsup("operand `%s`", exprText(u.p.fset, e))
	}
	param := -1
	if len(parts) == 1 {
		if i, isP := u.goParams[parts[0]]; isP {
			param = i
		}
	}
	field := u.recv != "" && parts[0] == u.recv && len(parts) > 1
	parts = u.strip(parts)
	v, err := u.leafNamed(camel(parts), exprText(u.p.fset, e), strings.Join(parts, "."), param)
	if err == nil && v.leaf != nil && field {
		v.leaf.field = true
	}
	return v, err
}

func (u *cunit) want(v *cval, k ckind) error {
	if v.leaf != nil && v.leaf.kind != kU && v.kind == kU {
		v.kind = v.leaf.kind
	}
	if v.kind == k {
		return nil
	}
	if v.kind == kU {
		v.kind = k
		if v.leaf != nil {
			v.leaf.kind = k
		}
		return nil
	}
	if v.kind == kNat && k == kInt {
		v.text = "(Int.ofNat " + v.text + ")"
		v.kind = kInt
		v.leaf = nil
		return nil
	}
	return unsup("`%s` used as %s and as %s", v.text, v.kind.lean(), k.lean())
}

func (u *cunit) numPair(a, b *cval) (ckind, error) {
	for _, v := range []*cval{a, b} {
		if v.leaf != nil && v.leaf.kind != kU {
			v.kind = v.leaf.kind
		}
		if v.kind == kU {
			if err := u.want(v, kNat); err != nil {
				return kU, err
			}
		}
	}
	if a.kind == kInt || b.kind == kInt {
		if err := u.want(a, kInt); err != nil {
			return kU, err
		}
		if err := u.want(b, kInt); err != nil {
			return kU, err
		}
		return kInt, nil
	}
	if a.kind != kNat || b.kind != kNat {
		return kU, unsup("numeric operation on %s / %s", a.kind.lean(), b.kind.lean())
	}
	return kNat, nil
}

// same: both values get the same kind (equalities, branches of a conditional)
func (u *cunit) same(a, b *cval) error {
	for _, v := range []*cval{a, b} {
		if v.leaf != nil && v.leaf.kind != kU {
			v.kind = v.leaf.kind
		}
	}
	switch {
	case a.kind == kU && b.kind == kU:
		if a.leaf == nil || b.leaf == nil {
			return unsup("cannot type `%s` / `%s`", a.text, b.text)
		}
		u.pend = append(u.pend, [2]*cleaf{a.leaf, b.leaf})
		return nil
	case a.kind == kU:
		return u.want(a, b.kind)
	case b.kind == kU:
		return u.want(b, a.kind)
	case a.kind == b.kind:
		return nil
	case (a.kind == kNat || a.kind == kInt) && (b.kind == kNat || b.kind == kInt):
		_, err := u.numPair(a, b)
		return err
	}
	return unsup("`%s` : %s compared with `%s` : %s", a.text, a.kind.lean(), b.text, b.kind.lean())
}

func (u *cunit) cmp(a, b *cval, op string) (*cval, error) {
	if _, err := u.numPair(a, b); err != nil {
		return nil, err
	}
	return &cval{text: "decide (" + a.text + " " + op + " " + b.text + ")", kind: kBool}, nil
}

func (u *cunit) eq(a, b *cval, op string) (*cval, error) {
	if err := u.same(a, b); err != nil {
		return nil, err
	}
	return &cval{text: "decide (" + a.text + " " + op + " " + b.text + ")", kind: kBool}, nil
}

func natLit(s string) *cval { return &cval{text: s, kind: kNat} }

// decLit parses a plain decimal string into the raw 18-decimals integer of LegacyDec.
func decLit(s string) (*cval, error) {
	r, ok := new(big.Rat).SetString(s)
	if !ok {
		return nil, unsup("decimal literal %q", s)
	}
	r.Mul(r, new(big.Rat).SetInt(new(big.Int).Exp(big.NewInt(10), big.NewInt(18), nil)))
	if !r.IsInt() {
		return nil, unsup("decimal literal %q has more than 18 decimals", s)
	}
	return &cval{text: "(⟨" + r.Num().String() + "⟩ : Dec)", kind: kDec}, nil
}

// singleDef: the unique `name := e` / `name, _ := e` / `var name = e` of a local in the function
// (isolated mode inlines such locals); nil when the local is assigned more than once.
func (u *cunit) singleDef(name string) ast.Expr {
	var def ast.Expr
	n := 0
	ast.Inspect(u.fn.Body, func(nd ast.Node) bool {
		switch x := nd.(type) {
		case *ast.AssignStmt:
			for i, l := range x.Lhs {
				if id, ok := l.(*ast.Ident); ok && id.Name == name {
					n++
					if len(x.Rhs) == 1 && (i == 0) && (x.Tok == token.DEFINE || x.Tok == token.ASSIGN) {
						def = x.Rhs[0]
						for _, o := range x.Lhs[1:] {
							if oid, ok := o.(*ast.Ident); !ok || oid.Name != "_" {
								def = nil
							}
						}
					} else {
						def = nil
					}
				}
			}
		case *ast.IncDecStmt:
			if id, ok := x.X.(*ast.Ident); ok && id.Name == name {
				n += 2
			}
		case *ast.RangeStmt:
			for _, l := range []ast.Expr{x.Key, x.Value} {
				if id, ok := l.(*ast.Ident); ok && id.Name == name {
					n += 2
				}
			}
		}
		return true
	})
	if n != 1 {
		return nil
	}
	return def
}

func (u *cunit) ex(e ast.Expr) (*cval, error) {
	u.depth++
	defer func() { u.depth-- }()
	if u.depth > 40 {
		return nil, unsup("expression too deep")
	}
	switch x := e.(type) {
	case *ast.ParenExpr:
		return u.ex(x.X)
	case *ast.StarExpr:
		return u.ex(x.X)
	case *ast.BasicLit:
		if x.Kind == token.INT {
			return natLit(x.Value), nil
		}
	case *ast.CompositeLit:
		if exprText(u.p.fset, x) == "time.Time{}" {
			return natLit("0"), nil // the zero time is before every block time
		}
	case *ast.Ident:
		switch x.Name {
		case "true", "false":
			return &cval{text: x.Name, kind: kBool}, nil
		case "nil":
			return nil, unsup("nil")
		}
		if v, ok := u.env[x.Name]; ok {
			c := *v
			return &c, nil
		}
		if _, isP := u.goParams[x.Name]; !isP {
			if v, err := u.p.constInt(x, 0); err == nil {
				if _, isVar := u.p.vars[x.Name]; isVar {
					return natLit(strconv.Itoa(v)), nil
				}
			}
			if u.isolated {
				if d := u.singleDef(x.Name); d != nil {
					return u.ex(d)
				}
			}
		}
		return u.leafOf(x)
	case *ast.SelectorExpr:
		if t := exprText(u.p.fset, x); t == "math.MaxUint64" {
			return natLit("18446744073709551615"), nil
		}
		if parts, ok := u.pathOf(x); ok {
			if v, ok := u.env[camel(u.strip(parts))]; ok {
				c := *v
				return &c, nil
			}
		}
		return u.leafOf(x)
	case *ast.IndexExpr:
		if b, ok := x.Index.(*ast.BasicLit); ok && b.Value == "0" {
			return u.ex(x.X) // Coins[0]
		}
		return u.leafOf(x)
	case *ast.UnaryExpr:
		switch x.Op {
		case token.NOT:
			a, err := u.ex(x.X)
			if err != nil {
				return nil, err
			}
			if err := u.want(a, kBool); err != nil {
				return nil, err
			}
			return &cval{text: "(!" + a.text + ")", kind: kBool}, nil
		case token.AND:
			return u.ex(x.X)
		}
	case *ast.BinaryExpr:
		a, err := u.ex(x.X)
		if err != nil {
			return nil, err
		}
		b, err := u.ex(x.Y)
		if err != nil {
			return nil, err
		}
		switch x.Op {
		case token.ADD, token.SUB, token.MUL, token.QUO:
			k, err := u.numPair(a, b)
			if err != nil {
				return nil, err
			}
			return &cval{text: "(" + a.text + " " + x.Op.String() + " " + b.text + ")", kind: k}, nil
		case token.LSS:
			return u.cmp(a, b, "<")
		case token.LEQ:
			return u.cmp(a, b, "≤")
		case token.GTR:
			return u.cmp(a, b, ">")
		case token.GEQ:
			return u.cmp(a, b, "≥")
		case token.EQL:
			return u.eq(a, b, "=")
		case token.NEQ:
			return u.eq(a, b, "≠")
		case token.LAND, token.LOR:
			if err := u.want(a, kBool); err != nil {
				return nil, err
			}
			if err := u.want(b, kBool); err != nil {
				return nil, err
			}
			op := "&&"
			if x.Op == token.LOR {
				op = "||"
			}
			return &cval{text: "(" + a.text + " " + op + " " + b.text + ")", kind: kBool}, nil
		}
	case *ast.CallExpr:
		return u.call(x)
	}
	return nil, unsup("expression `%s`", exprText(u.p.fset, e))
}

func (u *cunit) args(c *ast.CallExpr, n int) ([]*cval, error) {
	if len(c.Args) != n {
		return nil, unsup("`%s`: %d arguments expected", exprText(u.p.fset, c), n)
	}
	out := make([]*cval, n)
	for i, a := range c.Args {
		v, err := u.ex(a)
		if err != nil {
			return nil, err
		}
		out[i] = v
	}
	return out, nil
}

// inline a call of an already translated definition: its field leaves are re-rooted at `base`
// (the path of the object the method is called on), its Go parameters are the call arguments.
func (u *cunit) inline(d *cdef, base []string, baseSrc string, c *ast.CallExpr) (*cval, error) {
	text := d.lean
	for _, l := range d.leaves {
		var v *cval
		var err error
		if l.param >= 0 {
			// Go parameters of the callee, skipping a leading ctx
			args := c.Args
			idx := l.param
			if idx >= len(args) {
				return nil, unsup("call `%s`: missing argument %d", exprText(u.p.fset, c), idx)
			}
			v, err = u.ex(args[idx])
		} else if !l.field {
			v, err = u.leafNamed(l.name, l.src, l.path, -1)
		} else {
			parts := u.strip(append(append([]string{}, base...), strings.Split(l.path, ".")...))
			name := camel(parts)
			if ev, ok := u.env[name]; ok {
				cp := *ev
				v = &cp
			} else {
				src := l.src
				if baseSrc != "" {
					src = baseSrc + "." + l.path
				}
				v, err = u.leafNamed(name, src, strings.Join(parts, "."), -1)
				if err == nil && len(base) > 0 && base[0] == u.recv {
					v.leaf.field = true
				}
			}
		}
		if err != nil {
			return nil, err
		}
		if l.kind == kAny || l.kind == kU {
			if v.kind == kU {
				if err := u.want(v, kAny); err != nil {
					return nil, err
				}
			}
		} else if err := u.want(v, l.kind); err != nil {
			return nil, err
		}
		text += " " + paren(v.text)
	}
	if len(d.leaves) > 0 {
		text = "(" + text + ")"
	}
	return &cval{text: text, kind: d.kind}, nil
}

func (u *cunit) call(c *ast.CallExpr) (*cval, error) {
	src := exprText(u.p.fset, c)
	switch f := c.Fun.(type) {
	case *ast.Ident:
		switch f.Name {
		case "uint64", "int64", "int", "uint32", "uint":
			if len(c.Args) == 1 {
				return u.ex(c.Args[0])
			}
		case "len":
			if len(c.Args) == 1 {
				parts, ok := u.pathOf(c.Args[0])
				if !ok {
					return nil, unsup("`%s`", src)
				}
				parts = u.strip(parts)
				v, err := u.leafNamed(camel(append([]string{"len"}, parts...)), src, "", -1)
				if err != nil {
					return nil, err
				}
				return v, u.want(v, kNat)
			}
		case "min", "max":
			a, err := u.args(c, 2)
			if err != nil {
				return nil, err
			}
			k, err := u.numPair(a[0], a[1])
			if err != nil {
				return nil, err
			}
			return &cval{text: "(" + f.Name + " " + paren(a[0].text) + " " + paren(a[1].text) + ")", kind: k}, nil
		}
		if lean, ok := u.t.ext[f.Name]; ok { // package-level function translated elsewhere (all Nat)
			text := lean
			for _, a := range c.Args {
				v, err := u.ex(a)
				if err != nil {
					return nil, err
				}
				if err := u.want(v, kNat); err != nil {
					return nil, err
				}
				text += " " + paren(v.text)
			}
			return &cval{text: "(" + text + ")", kind: kNat}, nil
		}
		if d, ok := u.t.defs[f.Name]; ok {
			return u.inline(d, nil, "", c)
		}
	case *ast.SelectorExpr:
		name := f.Sel.Name
		recvT := exprText(u.p.fset, f.X)
		bin := func(op string, cmp bool) (*cval, error) {
			if len(c.Args) != 1 {
				return nil, unsup("`%s`", src)
			}
			a, err := u.ex(f.X)
			if err != nil {
				return nil, err
			}
			b, err := u.ex(c.Args[0])
			if err != nil {
				return nil, err
			}
			if cmp {
				return u.cmp(a, b, op)
			}
			return u.eq(a, b, op)
		}
		switch recvT + "." + name {
		case "ucoin.SimpleMin", "ucoin.SimpleMax":
			a, err := u.args(c, 2)
			if err != nil {
				return nil, err
			}
			k, err := u.numPair(a[0], a[1])
			if err != nil {
				return nil, err
			}
			fn := "min"
			if name == "SimpleMax" {
				fn = "max"
			}
			return &cval{text: "(" + fn + " " + paren(a[0].text) + " " + paren(a[1].text) + ")", kind: k}, nil
		case "ucoin.MulDec": // coin.Amount = dec.MulInt(coin.Amount).TruncateInt()
			a, err := u.args(c, 2)
			if err != nil {
				return nil, err
			}
			if err := u.want(a[0], kDec); err != nil {
				return nil, err
			}
			if err := u.want(a[1], kNat); err != nil {
				return nil, err
			}
			return &cval{text: "((" + a[0].text + ".mulInt " + a[1].text + ").truncateInt).toNat", kind: kNat}, nil
		case "math.LegacyZeroDec":
			return &cval{text: "(⟨0⟩ : Dec)", kind: kDec}, nil
		case "math.LegacyMustNewDecFromStr":
			if len(c.Args) == 1 {
				if s, err := u.p.constString(c.Args[0]); err == nil {
					return decLit(s)
				}
			}
			return nil, unsup("`%s`", src)
		}
		switch name {
		case "IsLT", "LT", "Before":
			return bin("<", true)
		case "IsGTE", "GTE":
			return bin("≥", true)
		case "IsLTE", "LTE":
			return bin("≤", true)
		case "GT", "After":
			return bin(">", true)
		case "IsEqual", "Equal":
			return bin("=", false)
		case "IsZero", "IsPositive":
			if len(c.Args) == 0 {
				a, err := u.ex(f.X)
				if err != nil {
					return nil, err
				}
				if name == "IsZero" {
					return u.eq(a, natLit("0"), "=")
				}
				return u.cmp(natLit("0"), a, "<")
			}
		case "SafeSub": // (Coin, bool): the difference, possibly negative
			if len(c.Args) == 1 {
				a, err := u.ex(f.X)
				if err != nil {
					return nil, err
				}
				b, err := u.ex(c.Args[0])
				if err != nil {
					return nil, err
				}
				for _, v := range []*cval{a, b} {
					if v.kind == kU {
						if err := u.want(v, kNat); err != nil {
							return nil, err
						}
					}
					if err := u.want(v, kInt); err != nil {
						return nil, err
					}
				}
				return &cval{text: "(" + a.text + " - " + b.text + ")", kind: kInt}, nil
			}
		case "Add": // time.Time.Add(duration) / Coin.Add
			if len(c.Args) == 1 {
				a, err := u.ex(f.X)
				if err != nil {
					return nil, err
				}
				b, err := u.ex(c.Args[0])
				if err != nil {
					return nil, err
				}
				k, err := u.numPair(a, b)
				if err != nil {
					return nil, err
				}
				return &cval{text: "(" + a.text + " + " + b.text + ")", kind: k}, nil
			}
		case "Sub": // Coin.Sub (panics when negative: the Lean side guards the call)
			if len(c.Args) == 1 {
				a, err := u.ex(f.X)
				if err != nil {
					return nil, err
				}
				b, err := u.ex(c.Args[0])
				if err != nil {
					return nil, err
				}
				k, err := u.numPair(a, b)
				if err != nil {
					return nil, err
				}
				return &cval{text: "(" + a.text + " - " + b.text + ")", kind: k}, nil
			}
		}
		// a method of an object whose type has translated methods: inline
		if base, ok := u.pathOf(f.X); ok {
			if ty, ok := u.varTypes[base[0]]; ok && len(base) == 1 {
				if d, ok := u.t.defs[ty+"."+name]; ok {
					bsrc := base[0]
					if base[0] == u.recv {
						bsrc = ""
					}
					return u.inline(d, base, bsrc, c)
				}
			}
		}
	}
	// anything else with plain arguments is an operand
	return u.leafOf(c)
}

// ---------------------------------------------------------------------------------- statements

// assignTarget: identifier or field path name
func (u *cunit) assignTarget(e ast.Expr) (string, bool) {
	parts, ok := u.pathOf(e)
	if !ok {
		return "", false
	}
	if _, isCall := e.(*ast.CallExpr); isCall {
		return "", false
	}
	return camel(u.strip(parts)), true
}

func (u *cunit) assign(s *ast.AssignStmt) error {
	if len(s.Rhs) != 1 || len(s.Lhs) < 1 {
		return unsup("assignment `%s`", exprText(u.p.fset, s))
	}
	for _, o := range s.Lhs[1:] {
		if id, ok := o.(*ast.Ident); !ok || id.Name != "_" {
			return unsup("multi-value assignment `%s`", exprText(u.p.fset, s))
		}
	}
	name, ok := u.assignTarget(s.Lhs[0])
	if !ok {
		return unsup("assignment target `%s`", exprText(u.p.fset, s.Lhs[0]))
	}
	v, err := u.ex(s.Rhs[0])
	if err != nil {
		return err
	}
	switch s.Tok {
	case token.DEFINE, token.ASSIGN:
	case token.ADD_ASSIGN, token.SUB_ASSIGN, token.MUL_ASSIGN, token.QUO_ASSIGN:
		old, err := u.ex(s.Lhs[0])
		if err != nil {
			return err
		}
		k, err := u.numPair(old, v)
		if err != nil {
			return err
		}
		op := strings.TrimSuffix(s.Tok.String(), "=")
		v = &cval{text: "(" + old.text + " " + op + " " + v.text + ")", kind: k}
	default:
		return unsup("assignment operator %s", s.Tok)
	}
	u.env[name] = v
	return nil
}

// seq translates a straight-line statement list; `final` gives the value at the end of the list
// (the result of a function without explicit return: a named result or an updated field).
func (u *cunit) seq(ss []ast.Stmt, final func() (*cval, error)) (*cval, error) {
	if len(ss) == 0 {
		return final()
	}
	rest := ss[1:]
	switch s := ss[0].(type) {
	case *ast.ReturnStmt:
		if len(s.Results) == 0 {
			return final()
		}
		if len(s.Results) != 1 {
			return nil, unsup("multi-value return")
		}
		return u.ex(s.Results[0])
	case *ast.AssignStmt:
		if err := u.assign(s); err != nil {
			return nil, err
		}
		return u.seq(rest, final)
	case *ast.DeclStmt:
		if gd, ok := s.Decl.(*ast.GenDecl); ok && gd.Tok == token.VAR {
			for _, sp := range gd.Specs {
				vs := sp.(*ast.ValueSpec)
				for i, n := range vs.Names {
					if i < len(vs.Values) {
						v, err := u.ex(vs.Values[i])
						if err != nil {
							return nil, err
						}
						u.env[n.Name] = v
					} else {
						u.env[n.Name] = natLit("0")
					}
				}
			}
			return u.seq(rest, final)
		}
	case *ast.IfStmt:
		if s.Init != nil || s.Else != nil {
			return nil, unsup("if with init/else")
		}
		c, err := u.ex(s.Cond)
		if err != nil {
			return nil, err
		}
		if err := u.want(c, kBool); err != nil {
			return nil, err
		}
		// `if c { return e }`
		if len(s.Body.List) == 1 {
			if r, ok := s.Body.List[0].(*ast.ReturnStmt); ok {
				var a *cval
				if len(r.Results) == 0 {
					a, err = final()
				} else if len(r.Results) == 1 {
					a, err = u.ex(r.Results[0])
				} else {
					err = unsup("multi-value return")
				}
				if err != nil {
					return nil, err
				}
				saved := u.copyEnv()
				b, err := u.seq(rest, final)
				u.env = saved
				if err != nil {
					return nil, err
				}
				if err := u.same(a, b); err != nil {
					return nil, err
				}
				k := a.kind
				if k == kU {
					k = b.kind
				}
				return &cval{text: "(if " + c.text + " then " + a.text + " else " + b.text + ")", kind: k, leaf: pickLeaf(a, b)}, nil
			}
		}
		// `if c { x = e … }`
		for _, b := range s.Body.List {
			as, ok := b.(*ast.AssignStmt)
			if !ok || as.Tok == token.DEFINE || len(as.Lhs) != 1 {
				return nil, unsup("statement in if body `%s`", exprText(u.p.fset, b))
			}
			name, ok := u.assignTarget(as.Lhs[0])
			if !ok {
				return nil, unsup("assignment target")
			}
			old, err := u.ex(as.Lhs[0])
			if err != nil {
				return nil, err
			}
			if err := u.assign(as); err != nil {
				return nil, err
			}
			nv := u.env[name]
			if err := u.same(old, nv); err != nil {
				return nil, err
			}
			u.env[name] = &cval{text: "(if " + c.text + " then " + nv.text + " else " + old.text + ")", kind: nv.kind}
		}
		return u.seq(rest, final)
	}
	return nil, unsup("statement `%s`", exprText(u.p.fset, ss[0]))
}

func pickLeaf(a, b *cval) *cleaf {
	if a.kind == kU && b.kind == kU {
		return a.leaf
	}
	return nil
}

func (u *cunit) copyEnv() map[string]*cval {
	m := map[string]*cval{}
	for k, v := range u.env {
		m[k] = v
	}
	return m
}

// ---------------------------------------------------------------------------------- emission

func (u *cunit) finish(res *cval) {
	for changed := true; changed; {
		changed = false
		for _, p := range u.pend {
			a, b := p[0], p[1]
			if a.kind == kU && b.kind != kU {
				a.kind, changed = b.kind, true
			} else if b.kind == kU && a.kind != kU {
				b.kind, changed = a.kind, true
			}
		}
	}
	for _, l := range u.leaves {
		if l.kind == kU {
			l.kind = kAny
		}
	}
	if res != nil {
		if res.leaf != nil && res.kind == kU {
			res.kind = res.leaf.kind
		}
		if res.kind == kU {
			res.kind = kAny
		}
	}
}

func (u *cunit) binders() string {
	s := ""
	anyT := false
	for _, l := range u.leaves {
		if l.kind == kAny {
			anyT = true
		}
	}
	if anyT {
		s += " {α : Type} [DecidableEq α]"
	}
	for _, l := range u.leaves {
		s += fmt.Sprintf(" (%s : %s)", l.name, l.kind.lean())
	}
	return s
}

func (u *cunit) srcList() []string {
	out := make([]string, len(u.leaves))
	for i, l := range u.leaves {
		out[i] = l.name + " := " + l.src
	}
	return out
}

func (t *coreTr) opaque(lean, what string, err error) string {
	t.notes = append(t.notes, what+": outside the translated subset: "+err.Error())
	return fmt.Sprintf("opaque %s : Nat\nopaque %s_src : List String\n\n", lean, lean)
}

func (t *coreTr) missing(lean, what string) string {
	t.notes = append(t.notes, what+": not found")
	return fmt.Sprintf("opaque %s : Nat\nopaque %s_src : List String\n\n", lean, lean)
}

// prune drops the operands that do not occur in the final text (objects fetched only to read fields).
func (u *cunit) prune(body string) {
	var kept []*cleaf
	for _, l := range u.leaves {
		if regexp.MustCompile(`(^|[^A-Za-z0-9_.])` + regexp.QuoteMeta(l.name) + `($|[^A-Za-z0-9_])`).MatchString(body) {
			kept = append(kept, l)
		}
	}
	u.leaves = kept
}

func (t *coreTr) emit(u *cunit, lean, doc, resType, body string) string {
	u.prune(body)
	return fmt.Sprintf("/-- %s -/\ndef %s%s : %s :=\n  %s\ndef %s_src : List String :=\n  %s\n\n",
		doc, lean, u.binders(), resType, body, lean, leanStrList(u.srcList()))
}

func (t *coreTr) lookup(p *pkgSrc, goName string) *ast.FuncDecl {
	fd := p.funcs[goName]
	if fd == nil || fd.Body == nil {
		return nil
	}
	return fd
}

// value: the whole function as a value (`return e` at the end, `if c { return e }` before it).
// field != "": the function updates `field` (e.g. "seq.Dishonor"); the value is its final content.
func (t *coreTr) value(p *pkgSrc, goName, lean, field string, register bool) string {
	fd := t.lookup(p, goName)
	if fd == nil {
		return t.missing(lean, goName)
	}
	u := t.unit(p, fd)
	result := ""
	if fd.Type.Results != nil && len(fd.Type.Results.List) == 1 && len(fd.Type.Results.List[0].Names) == 1 {
		result = fd.Type.Results.List[0].Names[0].Name
		u.env[result] = natLit("0")
	}
	final := func() (*cval, error) {
		if field != "" {
			fe, err := parseExprString(field)
			if err != nil {
				return nil, err
			}
			name, _ := u.assignTarget(fe)
			if v, ok := u.env[name]; ok {
				return v, nil
			}
			return nil, unsup("field %s is not assigned", field)
		}
		if result != "" {
			return u.env[result], nil
		}
		return nil, unsup("falls off the end")
	}
	res, err := u.seq(fd.Body.List, final)
	if err != nil {
		return t.opaque(lean, goName, err)
	}
	u.finish(res)
	what := "translated from `" + goName + "`"
	if field != "" {
		what += ": the final value of `" + field + "`"
	}
	out := t.emit(u, lean, what, res.kind.lean(), res.text)
	if register {
		t.defs[goName] = &cdef{lean: lean, leaves: u.leaves, kind: res.kind}
	}
	return out
}

// ifCond: the condition of the n-th `if` (source order, 0-based) of the function, in isolation:
// single-definition locals are inlined, everything else is an operand.
func (t *coreTr) ifCond(p *pkgSrc, goName string, n int, lean string) string {
	fd := t.lookup(p, goName)
	if fd == nil {
		return t.missing(lean, goName)
	}
	var conds []ast.Expr
	ast.Inspect(fd.Body, func(nd ast.Node) bool {
		if s, ok := nd.(*ast.IfStmt); ok {
			conds = append(conds, s.Cond)
		}
		return true
	})
	if n >= len(conds) {
		return t.missing(lean, fmt.Sprintf("%s: if #%d", goName, n))
	}
	u := t.unit(p, fd)
	u.isolated = true
	res, err := u.ex(conds[n])
	if err == nil {
		err = u.want(res, kBool)
	}
	if err != nil {
		return t.opaque(lean, goName, err)
	}
	u.finish(res)
	return t.emit(u, lean, fmt.Sprintf("`%s`: condition of `if` #%d: `%s`", goName, n, exprText(p.fset, conds[n])), "Bool", res.text)
}

// local: the defining expression of a local variable, in isolation.
func (t *coreTr) local(p *pkgSrc, goName, name, lean string) string {
	fd := t.lookup(p, goName)
	if fd == nil {
		return t.missing(lean, goName)
	}
	u := t.unit(p, fd)
	u.isolated = true
	d := u.singleDef(name)
	if d == nil {
		return t.missing(lean, goName+": single definition of "+name)
	}
	res, err := u.ex(d)
	if err != nil {
		return t.opaque(lean, goName, err)
	}
	u.finish(res)
	return t.emit(u, lean, fmt.Sprintf("`%s`: `%s := %s`", goName, name, exprText(p.fset, d)), res.kind.lean(), res.text)
}

// assigned: the right-hand side of the unique assignment to `target` (a field path), in isolation.
func (t *coreTr) assigned(p *pkgSrc, goName, target, lean string) string {
	fd := t.lookup(p, goName)
	if fd == nil {
		return t.missing(lean, goName)
	}
	var rhs []ast.Expr
	ast.Inspect(fd.Body, func(nd ast.Node) bool {
		if s, ok := nd.(*ast.AssignStmt); ok && len(s.Lhs) == 1 && len(s.Rhs) == 1 && s.Tok == token.ASSIGN &&
			exprText(p.fset, s.Lhs[0]) == target {
			rhs = append(rhs, s.Rhs[0])
		}
		return true
	})
	if len(rhs) != 1 {
		return t.missing(lean, goName+": single assignment to "+target)
	}
	u := t.unit(p, fd)
	u.isolated = true
	res, err := u.ex(rhs[0])
	if err != nil {
		return t.opaque(lean, goName, err)
	}
	u.finish(res)
	return t.emit(u, lean, fmt.Sprintf("`%s`: `%s = %s`", goName, target, exprText(p.fset, rhs[0])), res.kind.lean(), res.text)
}

// callArg: argument `idx` of the unique call of `callee` (printed selector) in the function, in isolation.
func (t *coreTr) callArg(p *pkgSrc, goName, callee string, idx int, lean string) string {
	fd := t.lookup(p, goName)
	if fd == nil {
		return t.missing(lean, goName)
	}
	var calls []*ast.CallExpr
	ast.Inspect(fd.Body, func(nd ast.Node) bool {
		if c, ok := nd.(*ast.CallExpr); ok && exprText(p.fset, c.Fun) == callee {
			calls = append(calls, c)
		}
		return true
	})
	if len(calls) != 1 || idx >= len(calls[0].Args) {
		return t.missing(lean, goName+": single call of "+callee)
	}
	u := t.unit(p, fd)
	u.isolated = true
	res, err := u.ex(calls[0].Args[idx])
	if err != nil {
		return t.opaque(lean, goName, err)
	}
	u.finish(res)
	return t.emit(u, lean, fmt.Sprintf("`%s`: argument %d of `%s`", goName, idx, exprText(p.fset, calls[0])), res.kind.lean(), res.text)
}

// guards: an ordered guard chain `if c { return ErrX }` … (`x, err := f(); if err != nil { return … }`
// becomes a Bool operand `errF`), ending at `return nil` or at a loop (whose body is translated with
// guardsLoop).  Value: the sentinel of the first failing guard.
func (t *coreTr) guards(p *pkgSrc, goName, lean string) string {
	fd := t.lookup(p, goName)
	if fd == nil {
		return t.missing(lean, goName)
	}
	u := t.unit(p, fd)
	body, _, err := u.guardChain(fd.Body.List)
	if err != nil {
		return t.opaque(lean, goName, err)
	}
	u.finish(nil)
	return t.emit(u, lean, "guard chain of `"+goName+"`: the error sentinel of the first failing check", "Option String", body)
}

// guardsLoop: the guard chain inside the (first) loop of the function; the loop header is `<lean>_header`.
func (t *coreTr) guardsLoop(p *pkgSrc, goName, lean string) string {
	fd := t.lookup(p, goName)
	if fd == nil {
		return t.missing(lean, goName)
	}
	var loop ast.Stmt
	for _, s := range fd.Body.List {
		switch s.(type) {
		case *ast.ForStmt, *ast.RangeStmt:
			if loop == nil {
				loop = s
			}
		}
	}
	if loop == nil {
		return t.missing(lean, goName+": loop")
	}
	var list []ast.Stmt
	l := &lister{p: p}
	hdr := ""
	switch x := loop.(type) {
	case *ast.ForStmt:
		list = x.Body.List
		hdr = l.header(&ast.ForStmt{Init: x.Init, Cond: x.Cond, Post: x.Post, Body: &ast.BlockStmt{}})
	case *ast.RangeStmt:
		list = x.Body.List
		hdr = l.header(&ast.RangeStmt{Key: x.Key, Value: x.Value, Tok: x.Tok, X: x.X, Body: &ast.BlockStmt{}})
	}
	u := t.unit(p, fd)
	body, _, err := u.guardChain(list)
	if err != nil {
		return t.opaque(lean, goName, err)
	}
	u.finish(nil)
	return t.emit(u, lean, "guard chain of the loop body of `"+goName+"`", "Option String", body) +
		fmt.Sprintf("def %s_header : String := %s\n\n", lean, strconv.Quote(hdr))
}

func (u *cunit) sentinel(r *ast.ReturnStmt) string {
	if len(r.Results) == 0 {
		return "return"
	}
	l := &lister{p: u.p}
	return l.text(r.Results[len(r.Results)-1])
}

func errCallName(e ast.Expr) string {
	if c, ok := e.(*ast.CallExpr); ok {
		return "err" + strings.ToUpper(lastName(c.Fun)[:1]) + lastName(c.Fun)[1:]
	}
	return "err"
}

func (u *cunit) guardChain(ss []ast.Stmt) (string, bool, error) {
	type g struct{ cond, sent string }
	var gs []g
	var pendingErr *cval
	for i := 0; i < len(ss); i++ {
		switch s := ss[i].(type) {
		case *ast.AssignStmt:
			if mentionsErr(s.Lhs) && len(s.Rhs) == 1 {
				if lastName(rhsFun(s.Rhs[0])) == "" {
					return "", false, unsup("`%s`", exprText(u.p.fset, s))
				}
				v, err := u.leafNamed(errCallName(s.Rhs[0]), exprText(u.p.fset, s.Rhs[0])+" fails", "", -1)
				if err != nil {
					return "", false, err
				}
				if err := u.want(v, kBool); err != nil {
					return "", false, err
				}
				pendingErr = v
				continue
			}
			if err := u.assign(s); err != nil {
				return "", false, err
			}
		case *ast.IfStmt:
			if s.Else != nil || len(s.Body.List) == 0 {
				return "", false, unsup("if/else in a guard chain")
			}
			r, ok := s.Body.List[len(s.Body.List)-1].(*ast.ReturnStmt)
			if !ok {
				return "", false, unsup("guard without return: `%s`", exprText(u.p.fset, s.Cond))
			}
			cond := exprText(u.p.fset, s.Cond)
			var c *cval
			if s.Init != nil {
				as, ok := s.Init.(*ast.AssignStmt)
				if !ok || !mentionsErr(as.Lhs) || cond != "err != nil" || len(as.Rhs) != 1 || lastName(rhsFun(as.Rhs[0])) == "" {
					return "", false, unsup("guard init `%s`", exprText(u.p.fset, s.Init))
				}
				v, err := u.leafNamed(errCallName(as.Rhs[0]), exprText(u.p.fset, as.Rhs[0])+" fails", "", -1)
				if err != nil {
					return "", false, err
				}
				if err := u.want(v, kBool); err != nil {
					return "", false, err
				}
				c = v
			} else if cond == "err != nil" {
				if pendingErr == nil {
					return "", false, unsup("`err != nil` without a preceding call")
				}
				c = pendingErr
				pendingErr = nil
			} else {
				v, err := u.ex(s.Cond)
				if err != nil {
					return "", false, err
				}
				if err := u.want(v, kBool); err != nil {
					return "", false, err
				}
				c = v
			}
			gs = append(gs, g{c.text, u.sentinel(r)})
		case *ast.ReturnStmt:
			if t := exprText(u.p.fset, s); t != "return nil" {
				return "", false, unsup("chain ends with `%s`", t)
			}
			i = len(ss)
		case *ast.ForStmt, *ast.RangeStmt:
			i = len(ss) // the loop body is translated separately
		default:
			return "", false, unsup("statement `%s`", exprText(u.p.fset, ss[i]))
		}
	}
	body := ""
	for _, x := range gs {
		body += "if " + x.cond + " then some " + strconv.Quote(x.sent) + " else\n  "
	}
	return body + "none", true, nil
}

func parseExprString(s string) (ast.Expr, error) { return parser.ParseExpr(s) }

func rhsFun(e ast.Expr) ast.Expr {
	if c, ok := e.(*ast.CallExpr); ok {
		return c.Fun
	}
	return nil
}
