package main

// Mini-translator for "guard chain" functions — validators of the shape
//
//	if <comparison> { return <error> }          x := <expr>
//	if err := f(…); err != nil { return … }     x, err := f(…); if err != nil { return … }
//	if x == nil { return nil }                  if <cond> { <guards> }        (falls through)
//	for _, v := range L { <lets>; <guard> }     for i, v := range L { <guards comparing v with M[i]> }
//	return nil
//
// into Lean definitions `… : Option E` (none = the Go function returns nil; `some e` = it returns the
// error of the guard that fired), and for boolean / integer one-liners (`return <expr>`) into plain
// Lean expressions.  Used by packets.go, lc.go, gb.go.
//
// What is translated structurally: the ORDER of the guards, the boolean structure of every condition
// (! && || == != < <= > >=, nil tests, len, bytes.Equal, .Equal, slices.ContainsFunc), which guard
// yields which error (errors are positional: the k-th `return <non-nil>` of the Go source gets the
// k-th entry of the generator's list, so that a reordered or dropped guard changes the definition),
// let-bindings, and the loop forms above.  What is table-driven: the *leaves* — Go sub-expressions
// (by source text), struct fields and callee names are mapped to terms of the hand-written model's
// vocabulary.  A leaf that is not in the table (because the Go code now compares something else) makes
// the whole function `opaque` with a note: nothing stale is kept.
//
// Error entries: "=" propagates the inner error of `if err := f(…)` unchanged; any other entry is the
// Lean term returned.

import (
	"fmt"
	"go/ast"
	"go/token"
	"strings"
)

type guardTr struct {
	p      *pkgSrc
	leaves map[string]string // Go expression text -> Lean term
	fields map[string]string // Go field / argument-less getter name -> Lean projection name
	funcs  map[string]string // Go callee (text of call.Fun) -> Lean function
	notes  []string
	errs   []string // positional error entries of the function being translated
	nerr   int
	tmp    map[string]string // loop-local leaves (indexed expressions)
	wrap64 bool              // + and - are uint64 operations (wrap around)
	eqFns  map[string]bool   // extra callees that are equality tests: f(a, b) / a.f(b)
}

func (t *guardTr) nextErr() (string, error) {
	if t.nerr >= len(t.errs) {
		return "", unsup("more error returns than the model has (%d)", len(t.errs))
	}
	t.nerr++
	return t.errs[t.nerr-1], nil
}

func isNilIdent(e ast.Expr) bool {
	id, ok := e.(*ast.Ident)
	return ok && id.Name == "nil"
}

func (t *guardTr) ex(e ast.Expr) (string, error) {
	txt := exprText(t.p.fset, e)
	if l, ok := t.tmp[txt]; ok {
		return l, nil
	}
	if l, ok := t.leaves[txt]; ok {
		return l, nil
	}
	switch x := e.(type) {
	case *ast.ParenExpr:
		return t.ex(x.X)
	case *ast.BasicLit:
		if x.Kind == token.INT {
			return x.Value, nil
		}
	case *ast.Ident:
		switch x.Name {
		case "true", "false":
			return x.Name, nil
		}
		return lid(x.Name), nil
	case *ast.StarExpr:
		return t.ex(x.X)
	case *ast.UnaryExpr:
		a, err := t.ex(x.X)
		if err != nil {
			return "", err
		}
		switch x.Op {
		case token.NOT:
			return "(!" + a + ")", nil
		case token.AND:
			return a, nil
		}
		return "", unsup("unary %s", x.Op)
	case *ast.BinaryExpr:
		if isNilIdent(x.Y) && (x.Op == token.EQL || x.Op == token.NEQ) {
			a, err := t.ex(x.X)
			if err != nil {
				return "", err
			}
			if x.Op == token.EQL {
				return "(" + a + ").isNone", nil
			}
			return "(" + a + ").isSome", nil
		}
		a, err := t.ex(x.X)
		if err != nil {
			return "", err
		}
		b, err := t.ex(x.Y)
		if err != nil {
			return "", err
		}
		switch x.Op {
		case token.EQL:
			return "(" + a + " == " + b + ")", nil
		case token.NEQ:
			return "(" + a + " != " + b + ")", nil
		case token.LAND:
			return "(" + a + " && " + b + ")", nil
		case token.LOR:
			return "(" + a + " || " + b + ")", nil
		case token.LSS:
			return "(decide (" + a + " < " + b + "))", nil
		case token.LEQ:
			return "(decide (" + a + " ≤ " + b + "))", nil
		case token.GTR:
			return "(decide (" + a + " > " + b + "))", nil
		case token.GEQ:
			return "(decide (" + a + " ≥ " + b + "))", nil
		case token.ADD:
			if t.wrap64 {
				return "((" + a + " + " + b + ") % 2 ^ 64)", nil
			}
			return "(" + a + " + " + b + ")", nil
		case token.SUB:
			if t.wrap64 {
				return "((" + a + " + 2 ^ 64 - " + b + ") % 2 ^ 64)", nil
			}
			return "(" + a + " - " + b + ")", nil
		}
		return "", unsup("binary %s", x.Op)
	case *ast.SelectorExpr:
		f, ok := t.fields[x.Sel.Name]
		if !ok {
			return "", unsup("field %s (in %s)", x.Sel.Name, txt)
		}
		a, err := t.ex(x.X)
		if err != nil {
			return "", err
		}
		return a + "." + f, nil
	case *ast.CallExpr:
		fn := exprText(t.p.fset, x.Fun)
		switch fn {
		case "len":
			if len(x.Args) == 1 {
				a, err := t.ex(x.Args[0])
				return "(" + a + ").length", err
			}
		case "uint64", "int64", "int", "uint32":
			if len(x.Args) == 1 {
				return t.ex(x.Args[0])
			}
		}
		if (fn == "bytes.Equal" || t.eqFns[fn]) && len(x.Args) == 2 {
			{
				a, err := t.ex(x.Args[0])
				if err != nil {
					return "", err
				}
				b, err := t.ex(x.Args[1])
				return "(" + a + " == " + b + ")", err
			}
		}
		if fn == "slices.ContainsFunc" {
			if len(x.Args) == 2 {
				if fl, ok := x.Args[1].(*ast.FuncLit); ok && len(fl.Type.Params.List) == 1 && len(fl.Type.Params.List[0].Names) == 1 &&
					len(fl.Body.List) == 1 {
					if r, ok := fl.Body.List[0].(*ast.ReturnStmt); ok && len(r.Results) == 1 {
						l, err := t.ex(x.Args[0])
						if err != nil {
							return "", err
						}
						c, err := t.ex(r.Results[0])
						return "(" + l + ".any (fun " + lid(fl.Type.Params.List[0].Names[0].Name) + " => " + c + "))", err
					}
				}
			}
		}
		if lf, ok := t.funcs[fn]; ok {
			s := lf
			for _, a := range x.Args {
				if id, ok := a.(*ast.Ident); ok && id.Name == "ctx" {
					continue
				}
				as, err := t.ex(a)
				if err != nil {
					return "", err
				}
				s += " " + as
			}
			return "(" + s + ")", nil
		}
		if sel, ok := x.Fun.(*ast.SelectorExpr); ok {
			switch {
			case (sel.Sel.Name == "Equal" || sel.Sel.Name == "Equals" || t.eqFns[sel.Sel.Name]) && len(x.Args) == 1:
				a, err := t.ex(sel.X)
				if err != nil {
					return "", err
				}
				b, err := t.ex(x.Args[0])
				return "(" + a + " == " + b + ")", err
			case len(x.Args) == 0:
				if f, ok := t.fields[sel.Sel.Name]; ok {
					a, err := t.ex(sel.X)
					return a + "." + f, err
				}
			}
		}
		return "", unsup("call %s", txt)
	}
	return "", unsup("expression %s", txt)
}

// errReturn: is this `return …, <non-nil>`?  (ok=false: not a return)
func lastResult(st ast.Stmt) (ast.Expr, bool) {
	r, ok := st.(*ast.ReturnStmt)
	if !ok || len(r.Results) == 0 {
		return nil, false
	}
	return r.Results[len(r.Results)-1], true
}

// isErrNeNil: `err != nil`
func isErrNeNil(e ast.Expr) bool {
	b, ok := e.(*ast.BinaryExpr)
	if !ok || b.Op != token.NEQ || !isNilIdent(b.Y) {
		return false
	}
	id, ok := b.X.(*ast.Ident)
	return ok && id.Name == "err"
}

// seq translates a statement list; `fall` is the term for falling off its end
func (t *guardTr) seq(ss []ast.Stmt, fall string) (string, error) {
	if len(ss) == 0 {
		return fall, nil
	}
	// translate the rest lazily (positional errors are consumed in source order)
	rest := func() (string, error) { return t.seq(ss[1:], fall) }
	switch s := ss[0].(type) {
	case *ast.ReturnStmt:
		last, _ := lastResult(s)
		if last == nil || isNilIdent(last) {
			return "none", nil
		}
		if call, ok := last.(*ast.CallExpr); ok && !strings.Contains(exprText(t.p.fset, call.Fun), "Wrap") &&
			!strings.HasPrefix(exprText(t.p.fset, call.Fun), "fmt.") && !strings.HasPrefix(exprText(t.p.fset, call.Fun), "errors.") {
			// tail call of another validator
			c, err := t.ex(call)
			if err != nil {
				return "", err
			}
			e, err := t.nextErr()
			if err != nil {
				return "", err
			}
			if e == "=" {
				return c, nil
			}
			return "(" + c + ").map (fun _ => " + e + ")", nil
		}
		e, err := t.nextErr()
		if err != nil {
			return "", err
		}
		return "some " + e, nil
	case *ast.AssignStmt:
		if len(s.Rhs) != 1 {
			return "", unsup("assignment form")
		}
		var names []string
		for _, l := range s.Lhs {
			id, ok := l.(*ast.Ident)
			if !ok {
				return "", unsup("assignment target %s", exprText(t.p.fset, l))
			}
			names = append(names, id.Name)
		}
		followedByCheck := false
		if len(ss) > 1 {
			if nx, ok := ss[1].(*ast.IfStmt); ok && nx.Init == nil && nx.Else == nil && isErrNeNil(nx.Cond) && len(nx.Body.List) >= 1 {
				if _, isRet := lastResult(nx.Body.List[len(nx.Body.List)-1]); isRet {
					followedByCheck = true
				}
			}
		}
		switch {
		case len(names) == 1 && names[0] == "err" && followedByCheck:
			r2 := func() (string, error) { return t.seq(ss[2:], fall) }
			// consume the error first, then the rest
			c, err := t.ex(s.Rhs[0])
			if err != nil {
				return "", err
			}
			e, err := t.nextErr()
			if err != nil {
				return "", err
			}
			k, err := r2()
			if err != nil {
				return "", err
			}
			if e == "=" {
				return fmt.Sprintf("match %s with\n  | some e => some e\n  | none =>\n  %s", c, k), nil
			}
			return fmt.Sprintf("if (%s).isSome then some %s else\n  %s", c, e, k), nil
		case len(names) == 2 && names[1] == "err" && followedByCheck:
			// fallible binding: the callee is `Option X` (none = it failed)
			c, err := t.ex(s.Rhs[0])
			if err != nil {
				return "", err
			}
			e, err := t.nextErr()
			if err != nil {
				return "", err
			}
			k, err := t.seq(ss[2:], fall)
			if err != nil {
				return "", err
			}
			if e == "=" { // the callee is `Except E X`: its error is propagated
				return fmt.Sprintf("match %s with\n  | .error e => some e\n  | .ok %s =>\n  %s", c, lid(names[0]), k), nil
			}
			return fmt.Sprintf("match %s with\n  | none => some %s\n  | some %s =>\n  %s", c, e, lid(names[0]), k), nil
		case len(names) == 1 || len(names) == 2 && names[1] == "_":
			c, err := t.ex(s.Rhs[0])
			if err != nil {
				return "", err
			}
			k, err := rest()
			if err != nil {
				return "", err
			}
			return fmt.Sprintf("let %s := %s\n  %s", lid(names[0]), c, k), nil
		}
		return "", unsup("assignment %s", exprText(t.p.fset, s))
	case *ast.IfStmt:
		if s.Else != nil {
			return "", unsup("if with else")
		}
		if s.Init != nil {
			as, ok := s.Init.(*ast.AssignStmt)
			if !ok || len(as.Lhs) != 1 || len(as.Rhs) != 1 || !isErrNeNil(s.Cond) {
				return "", unsup("if init form")
			}
			if id, ok := as.Lhs[0].(*ast.Ident); !ok || id.Name != "err" {
				return "", unsup("if init target")
			}
			c, err := t.ex(as.Rhs[0])
			if err != nil {
				return "", err
			}
			e, err := t.nextErr()
			if err != nil {
				return "", err
			}
			k, err := rest()
			if err != nil {
				return "", err
			}
			if e == "=" {
				return fmt.Sprintf("match %s with\n  | some e => some e\n  | none =>\n  %s", c, k), nil
			}
			return fmt.Sprintf("if (%s).isSome then some %s else\n  %s", c, e, k), nil
		}
		// `if x == nil { return … }` on an identifier: case split that rebinds x
		if b, ok := s.Cond.(*ast.BinaryExpr); ok && b.Op == token.EQL && isNilIdent(b.Y) && len(s.Body.List) == 1 {
			if id, ok := b.X.(*ast.Ident); ok {
				if _, isRet := lastResult(s.Body.List[0]); isRet || isBareReturn(s.Body.List[0]) {
					r, err := t.seq(s.Body.List, "none")
					if err != nil {
						return "", err
					}
					k, err := rest()
					if err != nil {
						return "", err
					}
					return fmt.Sprintf("match %s with\n  | none => %s\n  | some %s =>\n  %s", lid(id.Name), r, lid(id.Name), k), nil
				}
			}
		}
		c, err := t.ex(s.Cond)
		if err != nil {
			return "", err
		}
		// plain guard
		if len(s.Body.List) == 1 {
			if _, isRet := lastResult(s.Body.List[0]); isRet || isBareReturn(s.Body.List[0]) {
				r, err := t.seq(s.Body.List, "none")
				if err != nil {
					return "", err
				}
				k, err := rest()
				if err != nil {
					return "", err
				}
				return fmt.Sprintf("if %s then %s else\n  %s", c, r, k), nil
			}
		}
		// a block of guards that falls through
		blk, err := t.seq(s.Body.List, "none")
		if err != nil {
			return "", err
		}
		k, err := rest()
		if err != nil {
			return "", err
		}
		return fmt.Sprintf("match (if %s then (%s) else none) with\n  | some e => some e\n  | none =>\n  %s", c, blk, k), nil
	case *ast.RangeStmt:
		if s.Value == nil {
			return "", unsup("range without value")
		}
		v := exprText(t.p.fset, s.Value)
		l, err := t.ex(s.X)
		if err != nil {
			return "", err
		}
		key := ""
		if s.Key != nil {
			key = exprText(t.p.fset, s.Key)
		}
		if key != "" && key != "_" {
			// `for i, v := range L { if bad(v, M[i]) { return … } … }`
			var base ast.Expr
			t.tmp = map[string]string{}
			bad := false
			ast.Inspect(s.Body, func(n ast.Node) bool {
				ix, ok := n.(*ast.IndexExpr)
				if !ok {
					return true
				}
				if id, ok := ix.Index.(*ast.Ident); ok && id.Name == key {
					if base != nil && exprText(t.p.fset, base) != exprText(t.p.fset, ix.X) {
						bad = true
					}
					base = ix.X
					t.tmp[exprText(t.p.fset, ix)] = "e"
				}
				return true
			})
			defer func() { t.tmp = nil }()
			if bad || base == nil {
				return "", unsup("indexed loop: not exactly one indexed list")
			}
			var conds []string
			for _, b := range s.Body.List {
				g, ok := b.(*ast.IfStmt)
				if !ok || g.Init != nil || g.Else != nil || len(g.Body.List) != 1 {
					return "", unsup("indexed loop body")
				}
				if last, isRet := lastResult(g.Body.List[0]); !isRet || isNilIdent(last) {
					return "", unsup("indexed loop guard")
				}
				c, err := t.ex(g.Cond)
				if err != nil {
					return "", err
				}
				conds = append(conds, c)
			}
			t.tmp = nil
			m, err := t.ex(base)
			if err != nil {
				return "", err
			}
			e, err := t.nextErr()
			if err != nil {
				return "", err
			}
			k, err := rest()
			if err != nil {
				return "", err
			}
			return fmt.Sprintf("match %s %s %s (fun %s e => %s) with\n  | some r => some r\n  | none =>\n  %s", e, l, m, lid(v), strings.Join(conds, " || "), k), nil
		}
		// `for _, v := range L { lets; guard }`
		var lets string
		body := s.Body.List
		for len(body) > 1 {
			as, ok := body[0].(*ast.AssignStmt)
			if !ok || len(as.Lhs) != 1 || len(as.Rhs) != 1 {
				return "", unsup("loop body")
			}
			id, ok := as.Lhs[0].(*ast.Ident)
			if !ok {
				return "", unsup("loop let target")
			}
			c, err := t.ex(as.Rhs[0])
			if err != nil {
				return "", err
			}
			lets += fmt.Sprintf("let %s := %s; ", lid(id.Name), c)
			body = body[1:]
		}
		g, ok := body[0].(*ast.IfStmt)
		if len(body) != 1 || !ok || g.Init != nil || g.Else != nil || len(g.Body.List) != 1 {
			return "", unsup("loop guard")
		}
		if last, isRet := lastResult(g.Body.List[0]); !isRet || isNilIdent(last) {
			return "", unsup("loop guard return")
		}
		c, err := t.ex(g.Cond)
		if err != nil {
			return "", err
		}
		e, err := t.nextErr()
		if err != nil {
			return "", err
		}
		k, err := rest()
		if err != nil {
			return "", err
		}
		return fmt.Sprintf("if %s.any (fun %s => %s%s) then some %s else\n  %s", l, lid(v), lets, c, e, k), nil
	}
	return "", unsup("statement %T", ss[0])
}

func isBareReturn(st ast.Stmt) bool {
	r, ok := st.(*ast.ReturnStmt)
	return ok && len(r.Results) == 0
}

// guardFn translates an error-returning validator.  binders: Lean binder text; typ: the full Lean type
// (for the `opaque` fallback); errs: the positional error entries.
func (t *guardTr) guardFn(goName, leanName, binders, typ, resType string, errs []string) string {
	d := t.p.funcs[goName]
	fail := func(msg string) string {
		t.notes = append(t.notes, goName+": "+msg)
		return fmt.Sprintf("opaque %s : %s\n", leanName, typ)
	}
	if d == nil || d.Body == nil {
		return fail("function not found")
	}
	t.errs, t.nerr, t.tmp = errs, 0, nil
	body, err := t.seq(d.Body.List, "none")
	if err != nil {
		return fail("outside the translated subset: " + err.Error())
	}
	if t.nerr != len(errs) {
		return fail(fmt.Sprintf("has %d error returns, the model was written against %d", t.nerr, len(errs)))
	}
	return fmt.Sprintf("/-- translated from `%s` (none = returns nil) -/\ndef %s %s : Option %s :=\n  %s\n", goName, leanName, binders, resType, body)
}

// exprFn translates a function whose body is lets followed by `return <expr>` (an optional trailing
// `, nil` is dropped)
func (t *guardTr) exprFn(goName, leanName, binders, typ, resType string) string {
	d := t.p.funcs[goName]
	fail := func(msg string) string {
		t.notes = append(t.notes, goName+": "+msg)
		return fmt.Sprintf("opaque %s : %s\n", leanName, typ)
	}
	if d == nil || d.Body == nil {
		return fail("function not found")
	}
	t.tmp = nil
	out := ""
	for i, st := range d.Body.List {
		switch s := st.(type) {
		case *ast.AssignStmt:
			if len(s.Lhs) != 1 || len(s.Rhs) != 1 {
				return fail("assignment form")
			}
			id, ok := s.Lhs[0].(*ast.Ident)
			if !ok {
				return fail("assignment target")
			}
			c, err := t.ex(s.Rhs[0])
			if err != nil {
				return fail("outside the translated subset: " + err.Error())
			}
			out += fmt.Sprintf("let %s := %s\n  ", lid(id.Name), c)
		case *ast.ReturnStmt:
			if i != len(d.Body.List)-1 || len(s.Results) == 0 || len(s.Results) > 2 || len(s.Results) == 2 && !isNilIdent(s.Results[1]) {
				return fail("return form")
			}
			c, err := t.ex(s.Results[0])
			if err != nil {
				return fail("outside the translated subset: " + err.Error())
			}
			return fmt.Sprintf("/-- translated from `%s` -/\ndef %s %s : %s :=\n  %s%s\n", goName, leanName, binders, resType, out, c)
		default:
			return fail(fmt.Sprintf("statement %T", st))
		}
	}
	return fail("no return")
}

// exprDef translates one expression found by `find` into a definition
func (t *guardTr) exprDef(what, leanName, binders, typ, resType string, e ast.Expr) string {
	fail := func(msg string) string {
		t.notes = append(t.notes, what+": "+msg)
		return fmt.Sprintf("opaque %s : %s\n", leanName, typ)
	}
	if e == nil {
		return fail("expression not found")
	}
	t.tmp = nil
	c, err := t.ex(e)
	if err != nil {
		return fail("outside the translated subset: " + err.Error())
	}
	return fmt.Sprintf("/-- translated from %s: `%s` -/\ndef %s %s : %s :=\n  %s\n", what, exprText(t.p.fset, e), leanName, binders, resType, c)
}

// ---------------------------------------------------------------- finders

// findCallArg: argument `idx` of the first call in `fn` whose callee text ends with `callee`
func findCallArg(p *pkgSrc, fn *ast.FuncDecl, callee string, idx int) ast.Expr {
	var res ast.Expr
	if fn == nil || fn.Body == nil {
		return nil
	}
	ast.Inspect(fn.Body, func(n ast.Node) bool {
		c, ok := n.(*ast.CallExpr)
		if ok && res == nil && strings.HasSuffix(exprText(p.fset, c.Fun), callee) && idx < len(c.Args) {
			res = c.Args[idx]
		}
		return res == nil
	})
	return res
}

// findAssignRhs: right-hand side of the first `lhs = …` / `lhs := …` in `fn`
func findAssignRhs(p *pkgSrc, fn *ast.FuncDecl, lhs string) ast.Expr {
	var res ast.Expr
	if fn == nil || fn.Body == nil {
		return nil
	}
	ast.Inspect(fn.Body, func(n ast.Node) bool {
		a, ok := n.(*ast.AssignStmt)
		if ok && res == nil && len(a.Lhs) == 1 && len(a.Rhs) == 1 && exprText(p.fset, a.Lhs[0]) == lhs {
			res = a.Rhs[0]
		}
		return res == nil
	})
	return res
}

// findIfCond: condition of the n-th (0-based) `if` (in source order, nested ones included) whose
// condition text contains `mention`
func findIfCond(p *pkgSrc, fn *ast.FuncDecl, mention string, nth int) ast.Expr {
	var res ast.Expr
	if fn == nil || fn.Body == nil {
		return nil
	}
	k := 0
	ast.Inspect(fn.Body, func(n ast.Node) bool {
		s, ok := n.(*ast.IfStmt)
		if ok && res == nil && strings.Contains(exprText(p.fset, s.Cond), mention) {
			if k == nth {
				res = s.Cond
			}
			k++
		}
		return res == nil
	})
	return res
}

// ---------------------------------------------------------------- tables over the packet type enum

var ptypeConsts = []struct{ goName, lean string }{
	{"RollappPacket_ON_RECV", ".onRecv"}, {"RollappPacket_ON_ACK", ".onAck"},
	{"RollappPacket_ON_TIMEOUT", ".onTimeout"}, {"RollappPacket_UNDEFINED", ".undefined"},
}

func constName(e ast.Expr) string {
	switch x := e.(type) {
	case *ast.Ident:
		return x.Name
	case *ast.SelectorExpr:
		return x.Sel.Name
	}
	return ""
}

// evalOnConst evaluates a boolean condition built from `<tag> ==/!= CONST`, && || ! for tag = c
func evalOnConst(p *pkgSrc, cond ast.Expr, tag string, c string) (bool, error) {
	switch x := cond.(type) {
	case *ast.ParenExpr:
		return evalOnConst(p, x.X, tag, c)
	case *ast.UnaryExpr:
		if x.Op == token.NOT {
			v, err := evalOnConst(p, x.X, tag, c)
			return !v, err
		}
	case *ast.BinaryExpr:
		switch x.Op {
		case token.LAND, token.LOR:
			a, err := evalOnConst(p, x.X, tag, c)
			if err != nil {
				return false, err
			}
			b, err := evalOnConst(p, x.Y, tag, c)
			if x.Op == token.LAND {
				return a && b, err
			}
			return a || b, err
		case token.EQL, token.NEQ:
			l, r := x.X, x.Y
			if exprText(p.fset, r) == tag {
				l, r = r, l
			}
			if exprText(p.fset, l) != tag {
				return false, unsup("comparison of %s, not of %s", exprText(p.fset, l), tag)
			}
			k := constName(r)
			known := false
			for _, pc := range ptypeConsts {
				if pc.goName == k {
					known = true
				}
			}
			if !known {
				return false, unsup("unknown constant %s", exprText(p.fset, r))
			}
			return (k == c) == (x.Op == token.EQL), nil
		}
	}
	return false, unsup("condition %s", exprText(p.fset, cond))
}

// ptypeBoolTable: `def <lean> : Keys.PType → Bool` from a condition on the packet type
func ptypeBoolTable(p *pkgSrc, notes *[]string, what, leanName, tag string, cond ast.Expr) string {
	fail := func(msg string) string {
		*notes = append(*notes, what+": "+msg)
		return fmt.Sprintf("opaque %s : Keys.PType → Bool\n", leanName)
	}
	if cond == nil {
		return fail("condition not found")
	}
	out := fmt.Sprintf("/-- %s: `%s`, by packet type -/\ndef %s : Keys.PType → Bool\n", what, exprText(p.fset, cond), leanName)
	for _, pc := range ptypeConsts {
		v, err := evalOnConst(p, cond, tag, pc.goName)
		if err != nil {
			return fail(err.Error())
		}
		out += fmt.Sprintf("  | %s => %v\n", pc.lean, v)
	}
	return out
}

// findSwitch: the n-th `switch` of `fn` whose tag text is `tag` (init statements allowed)
func findSwitch(p *pkgSrc, fn *ast.FuncDecl, tag string, nth int) *ast.SwitchStmt {
	var res *ast.SwitchStmt
	if fn == nil || fn.Body == nil {
		return nil
	}
	k := 0
	ast.Inspect(fn.Body, func(n ast.Node) bool {
		s, ok := n.(*ast.SwitchStmt)
		if ok && res == nil && s.Tag != nil && exprText(p.fset, s.Tag) == tag {
			if k == nth {
				res = s
			}
			k++
		}
		return res == nil
	})
	return res
}

// ptypeSwitchTable: `def <lean> : Keys.PType → Option <T>` from a `switch <packet type>`: every case
// body is classified by which of the marker identifiers it mentions (exactly one class per case;
// a case mentioning none, a missing case and `default` without markers give `none`).
func ptypeSwitchTable(p *pkgSrc, notes *[]string, what, leanName, leanT string, sw *ast.SwitchStmt, classes []struct {
	ctor    string
	markers []string
}) string {
	fail := func(msg string) string {
		*notes = append(*notes, what+": "+msg)
		return fmt.Sprintf("opaque %s : Keys.PType → Option %s\n", leanName, leanT)
	}
	if sw == nil {
		return fail("switch not found")
	}
	classify := func(body []ast.Stmt) (string, error) {
		got := ""
		for _, cl := range classes {
			hit := false
			for _, st := range body {
				ast.Inspect(st, func(n ast.Node) bool {
					if id, ok := n.(*ast.Ident); ok {
						for _, m := range cl.markers {
							if id.Name == m {
								hit = true
							}
						}
					}
					return true
				})
			}
			if hit {
				if got != "" {
					return "", unsup("a case mentions both %s and %s", got, cl.ctor)
				}
				got = cl.ctor
			}
		}
		if got == "" {
			return "none", nil
		}
		return "some " + got, nil
	}
	res := map[string]string{}
	deflt := "none"
	for _, c := range sw.Body.List {
		cc, ok := c.(*ast.CaseClause)
		if !ok {
			return fail("clause form")
		}
		r, err := classify(cc.Body)
		if err != nil {
			return fail(err.Error())
		}
		if cc.List == nil {
			deflt = r
			continue
		}
		for _, e := range cc.List {
			k := constName(e)
			found := false
			for _, pc := range ptypeConsts {
				if pc.goName == k {
					found = true
					if _, dup := res[pc.lean]; dup {
						return fail("duplicate case " + k)
					}
					res[pc.lean] = r
				}
			}
			if !found {
				return fail("unknown case constant " + exprText(p.fset, e))
			}
		}
	}
	out := fmt.Sprintf("/-- %s: `switch %s`, by packet type -/\ndef %s : Keys.PType → Option %s\n", what, exprText(p.fset, sw.Tag), leanName, leanT)
	for _, pc := range ptypeConsts {
		r, ok := res[pc.lean]
		if !ok {
			r = deflt
		}
		out += fmt.Sprintf("  | %s => %s\n", pc.lean, r)
	}
	return out
}
