package main

// Gen/Packets.lean — tie 1 for M-Packets (Model/Packets.lean; C03 C04 C05): regenerated on every check
// from x/delayedack, x/eibc, x/bridgingfee, x/common/types and the rollapp keeper's packet
// authentication.
//
//   * real translations (Lemmas/GenEqPackets.lean proves them equal to the model's definitions):
//       verifyHeightFinalized          Keeper.VerifyHeightFinalized (the finalizability comparison)
//       finalizedFlag                  `data.Finalized = data.ProofHeight <= finalizedHeight`
//       settlementValidatedCmp         `raPacket.ProofHeight <= lastHeight` of checkIfSettlementValidated
//       validateOrder                  msgServer.validateOrder (ordered guards)
//       hardForkFromHeight             the `lastValidHeight+1` OnHardFork lists pending packets from
//       hardForkRestoresCommitment     which packet types OnHardFork restores the commitment of
//       updateFeeDropsBridgingFee      which packet types UpdateDemandOrder prices without bridging fee
//       *Side                          the beneficiary field (receiver / sender) by packet type, in every
//                                      switch that picks the pending-by-address key
//       finalizeCallback               the ICS-20 callback finalizeRollappPacket runs, by packet type
//       eibcOrderCtor, refundFeeParam  the order constructor / fee parameter the eIBC handler picks
//       finalizeFrom / finalizeTo, transferAddrFrom     the packet status transition
//   * statement skeletons (skel.go) of every function the model mirrors step by step.

import (
	"fmt"
	"go/ast"
	"go/token"
	"path/filepath"
	"strings"
)

// statusOfGuard: the `Status_X` constant of `if <obj>.Status != commontypes.Status_X { return … }`
func statusOfGuard(p *pkgSrc, fn *ast.FuncDecl) string {
	c := findIfCond(p, fn, ".Status != ", 0)
	if b, ok := c.(*ast.BinaryExpr); ok && b.Op == token.NEQ {
		return constName(b.Y)
	}
	return ""
}

func statusLean(c string) string {
	switch c {
	case "Status_PENDING":
		return ".pending"
	case "Status_FINALIZED":
		return ".finalized"
	}
	return ""
}

func statusDef(notes *[]string, what, lean, c string) string {
	l := statusLean(c)
	if l == "" {
		*notes = append(*notes, what+": status constant not found")
		return fmt.Sprintf("opaque %s : Keys.Status\n\n", lean)
	}
	return fmt.Sprintf("/-- %s -/\ndef %s : Keys.Status := %s\n\n", what, lean, l)
}

func genPackets(repo string) (src string, notes []string, err error) {
	// unexpected code must never crash the translator: a panic becomes a translator error (a broken tie)
	defer func() {
		if r := recover(); r != nil {
			src, err = "", fmt.Errorf("genPackets: internal error: %v", r)
		}
	}()
	var b strings.Builder
	b.WriteString("import DymVerif.Model.Packets\nnamespace DymVerif.Gen.Packets\nopen DymVerif DymVerif.Keys\n\n")
	b.WriteString("/-- the field of the ICS-20 data that names the hub-side beneficiary -/\ninductive Side | receiver | sender\n  deriving DecidableEq, Repr\n\n")
	b.WriteString("/-- the callbacks `finalizeRollappPacket` resumes -/\ninductive Callback | recvAndAck | ack | timeout\n  deriving DecidableEq, Repr\n\n")
	b.WriteString("inductive OrderCtor | onRecv | onErrAckOrTimeout\n  deriving DecidableEq, Repr\n\n")
	b.WriteString("inductive FeeParam | timeoutFee | errAckFee\n  deriving DecidableEq, Repr\n\n")

	dk := loadDirSome(&notes, filepath.Join(repo, "x/delayedack/keeper"))
	dm := loadSome(&notes, filepath.Join(repo, "x/delayedack/ibc_middleware.go"))
	dt := loadSome(&notes, filepath.Join(repo, "x/delayedack/types/msgs.go"))
	ct := loadSome(&notes, filepath.Join(repo, "x/common/types/rollapp_packet.go"), filepath.Join(repo, "x/common/types/packet_uid.go"))
	ek := loadDirSome(&notes, filepath.Join(repo, "x/eibc/keeper"))
	et := loadDirSome(&notes, filepath.Join(repo, "x/eibc/types"))
	bf := loadSome(&notes, filepath.Join(repo, "x/bridgingfee/ibc_module.go"))
	rk := loadSome(&notes, filepath.Join(repo, "x/rollapp/keeper/authenticate_packet.go"))
	hf := loadSome(&notes, filepath.Join(repo, "x/rollapp/keeper/hard_fork.go"))
	ap := loadSome(&notes, filepath.Join(repo, "app/transfer_stack.go"))

	// ------------------------------------------------------------ real translations
	b.WriteString("/-! ### translated comparisons and tables -/\n\n")
	t := &guardTr{p: dk,
		leaves: map[string]string{"k.getRollappLatestFinalizedHeight(ctx, rollappID)": "fin"},
		fields: map[string]string{}, funcs: map[string]string{}}
	b.WriteString(t.guardFn("Keeper.VerifyHeightFinalized", "verifyHeightFinalized", "(fin : Option Nat) (height : Nat)",
		"Option Nat → Nat → Option Packets.Err", "Packets.Err", []string{".noFinalState", ".notFinal"}) + "\n")
	t.leaves = map[string]string{"data.ProofHeight": "proofHeight"}
	b.WriteString(t.exprDef("GetValidTransferWithFinalizationInfo, `data.Finalized =`", "finalizedFlag", "(proofHeight finalizedHeight : Nat)",
		"Nat → Nat → Bool", "Bool", findAssignRhs(dk, dk.funcs["Keeper.GetValidTransferWithFinalizationInfo"], "data.Finalized")) + "\n")
	t.leaves, t.wrap64 = map[string]string{}, true
	b.WriteString(t.exprDef("OnHardFork, first height of the reverted range", "hardForkFromHeight", "(lastValidHeight : Nat)",
		"Nat → Nat", "Nat", findCallArg(dk, dk.funcs["Keeper.OnHardFork"], "PendingByRollappIDFromHeight", 1)) + "\n")
	notes = append(notes, t.notes...)

	te := &guardTr{p: ek,
		leaves: map[string]string{"raPacket.ProofHeight": "proofHeight"},
		fields: map[string]string{}, funcs: map[string]string{}}
	var cmp ast.Expr
	if fn := ek.funcs["msgServer.checkIfSettlementValidated"]; fn != nil && fn.Body != nil && len(fn.Body.List) > 0 {
		if r, ok := fn.Body.List[len(fn.Body.List)-1].(*ast.ReturnStmt); ok && len(r.Results) == 2 && isNilIdent(r.Results[1]) {
			cmp = r.Results[0]
		}
	}
	b.WriteString(te.exprDef("checkIfSettlementValidated, the final comparison", "settlementValidatedCmp", "(proofHeight lastHeight : Nat)",
		"Nat → Nat → Bool", "Bool", cmp) + "\n")
	// validateOrder: o = the stored order, m = the message; `sv` = checkIfSettlementValidated's result
	te.leaves = map[string]string{
		"demandOrder.RollappId":                          "o.rollappId",
		"msg.RollappId":                                  "m.rollappId",
		"demandOrder.Price":                              "[(o.denom, o.price)]",
		"msg.Price":                                      "m.price",
		"math.NewIntFromString(msg.ExpectedFee)":         "m.expectedFee",
		"demandOrder.GetFeeAmount()":                     "o.fee",
		"msg.SettlementValidated":                        "m.sv",
		"m.checkIfSettlementValidated(ctx, demandOrder)": "sv",
	}
	b.WriteString(te.guardFn("msgServer.validateOrder", "validateOrder",
		"(o : Packets.Order) (m : Packets.AuthMsg) (sv : Except Packets.Err Bool)", "Packets.Order → Packets.AuthMsg → Except Packets.Err Bool → Option Packets.Err", "Packets.Err",
		[]string{".rollappMismatch", ".priceMismatch", ".feeMismatch", "=", ".notValidated"}) + "\n")
	notes = append(notes, te.notes...)

	b.WriteString(ptypeBoolTable(dk, &notes, "OnHardFork, restore the packet commitment (else: delete the receipt)", "hardForkRestoresCommitment",
		"rollappPacket.Type", findIfCond(dk, dk.funcs["Keeper.OnHardFork"], "rollappPacket.Type", 0)) + "\n")
	b.WriteString(ptypeBoolTable(ek, &notes, "UpdateDemandOrder, price without bridging fee", "updateFeeDropsBridgingFee",
		"raPacketType", findIfCond(ek, ek.funcs["msgServer.UpdateDemandOrder"], "raPacketType", 0)) + "\n")

	sides := []struct {
		ctor    string
		markers []string
	}{{".receiver", []string{"Receiver", "recipient", "GetDestPort"}}, {".sender", []string{"Sender", "sender", "GetSourcePort"}}}
	b.WriteString(ptypeSwitchTable(dm, &notes, "savePacket, the pending-by-address key", "savePacketSide", "Side",
		findSwitch(dm, dm.funcs["IBCMiddleware.savePacket"], "packetType", 0), sides) + "\n")
	b.WriteString(ptypeSwitchTable(dk, &notes, "UpdateRollappPacketAfterFinalization, the index entry deleted", "afterFinalizationSide", "Side",
		findSwitch(dk, dk.funcs["Keeper.UpdateRollappPacketAfterFinalization"], "rollappPacket.Type", 0), sides) + "\n")
	b.WriteString(ptypeSwitchTable(dk, &notes, "DeleteRollappPacket, the index entry deleted", "deletePacketSide", "Side",
		findSwitch(dk, dk.funcs["Keeper.DeleteRollappPacket"], "rollappPacket.Type", 0), sides) + "\n")
	b.WriteString(ptypeSwitchTable(dk, &notes, "UpdateRollappPacketTransferAddress, the field rewritten (and remembered as original target)", "transferAddressSide", "Side",
		findSwitch(dk, dk.funcs["Keeper.UpdateRollappPacketTransferAddress"], "rollappPacket.Type", 0),
		[]struct {
			ctor    string
			markers []string
		}{{".receiver", []string{"recipient"}}, {".sender", []string{"sender"}}}) + "\n")
	b.WriteString(ptypeSwitchTable(ct, &notes, "RestoreOriginalTransferTarget, the field restored", "restoreTargetSide", "Side",
		findSwitch(ct, ct.funcs["RollappPacket.RestoreOriginalTransferTarget"], "r.Type", 0), sides) + "\n")
	b.WriteString(ptypeSwitchTable(ct, &notes, "PacketHubPortChan, the hub end of the channel (receiver = destination, sender = source)", "hubEndSide", "Side",
		findSwitch(ct, ct.funcs["PacketHubPortChan"], "packetType", 0), sides) + "\n")
	b.WriteString(ptypeSwitchTable(dk, &notes, "finalizeRollappPacket, the callback resumed", "finalizeCallback", "Callback",
		findSwitch(dk, dk.funcs["Keeper.finalizeRollappPacket"], "rollappPacket.Type", 0),
		[]struct {
			ctor    string
			markers []string
		}{{".recvAndAck", []string{"OnRecvPacket", "writeRecvAck"}}, {".ack", []string{"onAckPacket", "OnAcknowledgementPacket"}},
			{".timeout", []string{"onTimeoutPacket", "OnTimeoutPacket"}}}) + "\n")
	b.WriteString(ptypeSwitchTable(ek, &notes, "EIBCDemandOrderHandler, the order constructor", "eibcOrderCtor", "OrderCtor",
		findSwitch(ek, ek.funcs["Keeper.EIBCDemandOrderHandler"], "t", 0),
		[]struct {
			ctor    string
			markers []string
		}{{".onRecv", []string{"CreateDemandOrderOnRecv"}}, {".onErrAckOrTimeout", []string{"CreateDemandOrderOnErrAckOrTimeout"}}}) + "\n")
	b.WriteString(ptypeSwitchTable(ek, &notes, "CreateDemandOrderOnErrAckOrTimeout, the fee parameter", "refundFeeParam", "FeeParam",
		findSwitch(ek, ek.funcs["Keeper.CreateDemandOrderOnErrAckOrTimeout"], "rollappPacket.Type", 0),
		[]struct {
			ctor    string
			markers []string
		}{{".timeoutFee", []string{"TimeoutFee"}}, {".errAckFee", []string{"ErrAckFee"}}}) + "\n")

	// status transition
	b.WriteString(statusDef(&notes, "UpdateRollappPacketAfterFinalization: the only status it accepts", "finalizeFrom",
		statusOfGuard(dk, dk.funcs["Keeper.UpdateRollappPacketAfterFinalization"])))
	b.WriteString(statusDef(&notes, "UpdateRollappPacketAfterFinalization: the status it writes", "finalizeTo",
		constName(findAssignRhs(dk, dk.funcs["Keeper.UpdateRollappPacketAfterFinalization"], "rollappPacket.Status"))))
	b.WriteString(statusDef(&notes, "UpdateRollappPacketTransferAddress: the only status it accepts", "transferAddrFrom",
		statusOfGuard(dk, dk.funcs["Keeper.UpdateRollappPacketTransferAddress"])))
	b.WriteString(statusDef(&notes, "eibc AfterPacketDeleted: the status the order id is rebuilt under", "orderIdStatus",
		constName(findAssignRhs(ek, ek.funcs["delayedAckHooks.AfterPacketDeleted"], "rollappPacket.Status"))))

	// ------------------------------------------------------------ skeletons
	b.WriteString("/-! ### statement skeletons -/\n\n")
	cfg := skelCfg{}
	emitSkeletons(&b, &notes, dm, "x/delayedack/ibc_middleware.go", cfg, []skelFn{
		{"IBCMiddleware.OnRecvPacket", "mwOnRecvPacket"},
		{"IBCMiddleware.OnAcknowledgementPacket", "mwOnAcknowledgementPacket"},
		{"IBCMiddleware.OnTimeoutPacket", "mwOnTimeoutPacket"},
		{"IBCMiddleware.savePacket", "mwSavePacket"},
		{"IBCMiddleware.isForwarded", "mwIsForwarded"},
	})
	emitSkeletons(&b, &notes, dk, "x/delayedack/keeper", cfg, []skelFn{
		{"Keeper.GetValidTransferWithFinalizationInfo", "getValidTransferWithFinalizationInfo"},
		{"Keeper.FinalizeRollappPacket", "finalizeRollappPacketOuter"},
		{"Keeper.finalizeRollappPacket", "finalizeRollappPacket"},
		{"Keeper.writeRecvAck", "writeRecvAck"},
		{"Keeper.onAckPacket", "onAckPacket"},
		{"Keeper.onTimeoutPacket", "onTimeoutPacket"},
		{"Keeper.VerifyHeightFinalized", "verifyHeightFinalizedSk"},
		{"Keeper.getRollappLatestFinalizedHeight", "getRollappLatestFinalizedHeight"},
		{"Keeper.SetRollappPacket", "setRollappPacket"},
		{"Keeper.SetPendingPacketByAddress", "setPendingPacketByAddress"},
		{"Keeper.MustSetPendingPacketByAddress", "mustSetPendingPacketByAddress"},
		{"Keeper.DeletePendingPacketByAddress", "deletePendingPacketByAddress"},
		{"Keeper.MustDeletePendingPacketByAddress", "mustDeletePendingPacketByAddress"},
		{"Keeper.GetPendingPacketsByAddress", "getPendingPacketsByAddress"},
		{"Keeper.GetRollappPacket", "getRollappPacket"},
		{"Keeper.UpdateRollappPacketTransferAddress", "updateRollappPacketTransferAddress"},
		{"Keeper.UpdateRollappPacketAfterFinalization", "updateRollappPacketAfterFinalization"},
		{"Keeper.ListRollappPackets", "listRollappPackets"},
		{"Keeper.DeleteRollappPacket", "deleteRollappPacket"},
		{"Keeper.OnHardFork", "onHardFork"},
		{"Keeper.deletePacketReceipt", "deletePacketReceipt"},
		{"eibcHooks.AfterDemandOrderFulfilled", "afterDemandOrderFulfilled"},
		{"epochHooks.AfterEpochEnd", "afterEpochEnd"},
		{"MsgServer.FinalizePacket", "msgFinalizePacket"},
		{"MsgServer.FinalizePacketByPacketKey", "msgFinalizePacketByPacketKey"},
	})
	emitSkeletons(&b, &notes, dt, "x/delayedack/types/msgs.go", cfg, []skelFn{
		{"MsgFinalizePacket.ValidateBasic", "vbFinalizePacket"},
		{"MsgFinalizePacketByPacketKey.ValidateBasic", "vbFinalizePacketByPacketKey"},
		{"MsgFinalizePacket.PendingPacketKey", "pendingPacketKey"},
	})
	emitSkeletons(&b, &notes, ct, "x/common/types", cfg, []skelFn{
		{"RollappPacket.GetTransferPacketData", "getTransferPacketData"},
		{"RollappPacket.RestoreOriginalTransferTarget", "restoreOriginalTransferTarget"},
		{"IBCProofHeightDecorator.AnteHandle", "proofHeightAnte"},
		{"PacketHubPortChan", "packetHubPortChan"},
		{"UnpackPacketProofHeight", "unpackPacketProofHeight"},
		{"CtxWithPacketProofHeight", "ctxWithPacketProofHeight"},
		{"PacketProofHeightFromCtx", "packetProofHeightFromCtx"},
		{"NewPacketUID", "newPacketUID"},
		{"PacketUID.String", "packetUIDString"},
	})
	emitSkeletons(&b, &notes, rk, "x/rollapp/keeper/authenticate_packet.go", cfg, []skelFn{
		{"Keeper.GetValidTransfer", "getValidTransfer"},
		{"Keeper.GetRollappByPortChan", "getRollappByPortChan"},
	})
	// the order of the transfer stack (transfer <- bridgingfee <- packet-forward <- denommetadata <- delayedack <- genesisbridge)
	emitSkeletons(&b, &notes, ap, "app/transfer_stack.go", cfg, []skelFn{
		{"AppKeepers.InitTransferStack", "initTransferStack"},
	})
	// the caller of the OnHardFork hooks: which height they are handed
	emitSkeletons(&b, &notes, hf, "x/rollapp/keeper/hard_fork.go", cfg, []skelFn{
		{"Keeper.HardFork", "rollappHardFork"},
	})
	emitSkeletons(&b, &notes, bf, "x/bridgingfee/ibc_module.go", cfg, []skelFn{
		{"IBCModule.OnRecvPacket", "bridgingFeeOnRecvPacket"},
	})
	emitSkeletons(&b, &notes, ek, "x/eibc/keeper", cfg, []skelFn{
		{"msgServer.FulfillOrder", "msgFulfillOrder"},
		{"msgServer.FulfillOrderAuthorized", "msgFulfillOrderAuthorized"},
		{"msgServer.validateOrder", "validateOrderSk"},
		{"msgServer.checkIfSettlementValidated", "checkIfSettlementValidated"},
		{"msgServer.UpdateDemandOrder", "msgUpdateDemandOrder"},
		{"msgServer.TryFulfillOnDemand", "msgTryFulfillOnDemand"},
		{"msgServer.CreateOnDemandLP", "msgCreateOnDemandLP"},
		{"msgServer.DeleteOnDemandLP", "msgDeleteOnDemandLP"},
		{"Keeper.SetDemandOrder", "setDemandOrder"},
		{"Keeper.deleteDemandOrder", "deleteDemandOrder"},
		{"Keeper.UpdateDemandOrderWithStatus", "updateDemandOrderWithStatus"},
		{"Keeper.SetOrderFulfilled", "setOrderFulfilled"},
		{"Keeper.GetDemandOrder", "getDemandOrder"},
		{"Keeper.GetOutstandingOrder", "getOutstandingOrder"},
		{"Keeper.Fulfill", "fulfill"},
		{"Keeper.EIBCDemandOrderHandler", "eibcDemandOrderHandler"},
		{"Keeper.CreateDemandOrderOnRecv", "createDemandOrderOnRecv"},
		{"Keeper.CreateDemandOrderOnErrAckOrTimeout", "createDemandOrderOnErrAckOrTimeout"},
		{"Keeper.BlockedAddr", "blockedAddr"},
		{"delayedAckHooks.AfterPacketStatusUpdated", "afterPacketStatusUpdated"},
		{"delayedAckHooks.AfterPacketDeleted", "afterPacketDeleted"},
		{"LPs.Create", "lpsCreate"},
		{"LPs.Set", "lpsSet"},
		{"LPs.Get", "lpsGet"},
		{"LPs.Del", "lpsDel"},
		{"LPs.GetOrderCompatibleLPs", "lpsGetOrderCompatibleLPs"},
		{"Keeper.FulfillByOnDemandLP", "fulfillByOnDemandLP"},
		{"Keeper.CreateLP", "createLP"},
		{"Keeper.DeleteLP", "deleteLP"},
	})
	emitSkeletons(&b, &notes, et, "x/eibc/types", cfg, []skelFn{
		{"NewDemandOrder", "newDemandOrder"},
		{"DemandOrder.ValidateBasic", "demandOrderValidateBasic"},
		{"DemandOrder.Validate", "demandOrderValidate"},
		{"DemandOrder.ValidateOrderIsOutstanding", "validateOrderIsOutstanding"},
		{"DemandOrder.IsFulfilled", "isFulfilled"},
		{"BuildDemandIDFromPacketKey", "buildDemandIDFromPacketKey"},
		{"FulfillOrderAuthorization.Accept", "authzAccept"},
		{"FulfillOrderAuthorization.removeRollappCriteria", "authzRemoveRollappCriteria"},
		{"FulfillOrderAuthorization.ValidateBasic", "authzValidateBasic"},
		{"hasDuplicates", "hasDuplicates"},
		{"exceedsMaxPrice", "exceedsMaxPrice"},
		{"MsgFulfillOrder.ValidateBasic", "vbFulfillOrder"},
		{"MsgFulfillOrderAuthorized.ValidateBasic", "vbFulfillOrderAuthorized"},
		{"MsgUpdateDemandOrder.ValidateBasic", "vbUpdateDemandOrder"},
		{"MsgTryFulfillOnDemand.ValidateBasic", "vbTryFulfillOnDemand"},
		{"MsgCreateOnDemandLP.ValidateBasic", "vbCreateOnDemandLP"},
		{"MsgDeleteOnDemandLP.ValidateBasic", "vbDeleteOnDemandLP"},
		{"validateCommon", "validateCommon"},
		{"OnDemandLP.Validate", "onDemandLPValidate"},
		{"OnDemandLPRecord.Validate", "onDemandLPRecordValidate"},
	})
	b.WriteString("end DymVerif.Gen.Packets\n")
	return b.String(), notes, nil
}
