package main

import (
	"fmt"
	"go/ast"
	"go/parser"
	"go/token"
	"math/big"
	"path/filepath"
	"strings"
)

// genSpons regenerates Gen/Spons.lean from x/sponsorship (and the endorsement claim in it):
//   - constants (MaxAllocationWeight, default params) evaluated from types/constants.go
//   - the integer expressions the model hinges on, translated from the method chains in the source:
//     ApplyWeights' gauge power, Vote.GetGaugePower, EstimateClaim's reward amount, processHook's
//     power difference / new total / the argument handed to ApplyWeights
//   - structural facts: the epoch hook ignores the epoch identifier; BeforeValidatorSlashed is a no-op;
//     x/incentives' epoch hook is registered before x/sponsorship's
// Anything it cannot translate becomes `opaque` (+ a note), so the GenEq lemma stops checking.

type sponsSrc struct {
	fset  *token.FileSet
	funcs map[string]*ast.FuncDecl
	vars  map[string]ast.Expr
}

func sponsLoad(paths ...string) (*sponsSrc, error) {
	p := &sponsSrc{fset: token.NewFileSet(), funcs: map[string]*ast.FuncDecl{}, vars: map[string]ast.Expr{}}
	for _, path := range paths {
		f, err := parser.ParseFile(p.fset, path, nil, parser.SkipObjectResolution)
		if err != nil {
			return nil, err
		}
		for _, d := range f.Decls {
			switch d := d.(type) {
			case *ast.FuncDecl:
				name := d.Name.Name
				if d.Recv != nil && len(d.Recv.List) == 1 {
					t := d.Recv.List[0].Type
					if st, ok := t.(*ast.StarExpr); ok {
						t = st.X
					}
					if id, ok := t.(*ast.Ident); ok {
						name = id.Name + "." + name
					}
				}
				p.funcs[name] = d
			case *ast.GenDecl:
				if d.Tok != token.VAR && d.Tok != token.CONST {
					continue
				}
				for _, s := range d.Specs {
					vs := s.(*ast.ValueSpec)
					for i, n := range vs.Names {
						if i < len(vs.Values) {
							p.vars[n.Name] = vs.Values[i]
						}
					}
				}
			}
		}
	}
	return p, nil
}

// evalConst evaluates math.NewInt(n), math.NewIntWithDecimal(a, b), X.MulRaw(n), identifiers
func (p *sponsSrc) evalConst(e ast.Expr, depth int) (*big.Int, error) {
	if depth > 8 {
		return nil, fmt.Errorf("constant too deep")
	}
	switch e := e.(type) {
	case *ast.BasicLit:
		v, ok := new(big.Int).SetString(strings.ReplaceAll(e.Value, "_", ""), 10)
		if !ok {
			return nil, fmt.Errorf("literal %s", e.Value)
		}
		return v, nil
	case *ast.Ident:
		if v, ok := p.vars[e.Name]; ok {
			return p.evalConst(v, depth+1)
		}
		return nil, fmt.Errorf("unknown identifier %s", e.Name)
	case *ast.CallExpr:
		sel, ok := e.Fun.(*ast.SelectorExpr)
		if !ok {
			return nil, fmt.Errorf("unsupported call")
		}
		switch sel.Sel.Name {
		case "NewInt":
			return p.evalConst(e.Args[0], depth+1)
		case "NewIntWithDecimal":
			a, err := p.evalConst(e.Args[0], depth+1)
			if err != nil {
				return nil, err
			}
			b, err := p.evalConst(e.Args[1], depth+1)
			if err != nil {
				return nil, err
			}
			return new(big.Int).Mul(a, new(big.Int).Exp(big.NewInt(10), b, nil)), nil
		case "MulRaw":
			x, err := p.evalConst(sel.X, depth+1)
			if err != nil {
				return nil, err
			}
			n, err := p.evalConst(e.Args[0], depth+1)
			if err != nil {
				return nil, err
			}
			return new(big.Int).Mul(x, n), nil
		}
		return nil, fmt.Errorf("unsupported constant constructor %s", sel.Sel.Name)
	}
	return nil, fmt.Errorf("unsupported constant expression %T", e)
}

// flat renders a selector chain like v.VotingPower / weight.Weight as a dotted name
func flat(e ast.Expr) string {
	switch e := e.(type) {
	case *ast.Ident:
		return e.Name
	case *ast.SelectorExpr:
		return flat(e.X) + "." + e.Sel.Name
	}
	return "?"
}

// render prints an expression canonically (selectors dotted, calls with rendered arguments; the
// receiver chain h.k. and the ctx argument are dropped)
func render(e ast.Expr) string {
	switch e := e.(type) {
	case *ast.Ident:
		return e.Name
	case *ast.SelectorExpr:
		x := render(e.X)
		if x == "h.k" || x == "k" {
			return e.Sel.Name
		}
		return x + "." + e.Sel.Name
	case *ast.CallExpr:
		var args []string
		for _, a := range e.Args {
			if r := render(a); r != "ctx" {
				args = append(args, r)
			}
		}
		return render(e.Fun) + "(" + strings.Join(args, ", ") + ")"
	case *ast.ParenExpr:
		return "(" + render(e.X) + ")"
	}
	return "?"
}

// trInt translates a math.Int method chain into a Lean Int expression; names maps Go operands to
// Lean variables, locals holds `x := e` definitions seen so far (inlined).
func trInt(e ast.Expr, names map[string]string, locals map[string]ast.Expr, depth int) (string, error) {
	if depth > 12 {
		return "", fmt.Errorf("expression too deep")
	}
	switch e := e.(type) {
	case *ast.Ident, *ast.SelectorExpr:
		n := flat(e)
		if l, ok := names[n]; ok {
			return l, nil
		}
		if id, ok := e.(*ast.Ident); ok {
			if d, ok := locals[id.Name]; ok {
				return trInt(d, names, locals, depth+1)
			}
		}
		return "", fmt.Errorf("unmapped operand %s", n)
	case *ast.ParenExpr:
		return trInt(e.X, names, locals, depth+1)
	case *ast.CallExpr:
		sel, ok := e.Fun.(*ast.SelectorExpr)
		if !ok {
			return "", fmt.Errorf("unsupported call")
		}
		if flat(sel) == "math.ZeroInt" {
			return "0", nil
		}
		op := map[string]string{"Mul": "*", "Add": "+", "Sub": "-"}[sel.Sel.Name]
		if sel.Sel.Name == "Neg" && len(e.Args) == 0 {
			x, err := trInt(sel.X, names, locals, depth+1)
			return "(-" + x + ")", err
		}
		if len(e.Args) != 1 {
			return "", fmt.Errorf("unsupported method %s", sel.Sel.Name)
		}
		x, err := trInt(sel.X, names, locals, depth+1)
		if err != nil {
			return "", err
		}
		y, err := trInt(e.Args[0], names, locals, depth+1)
		if err != nil {
			return "", err
		}
		switch {
		case op != "":
			return "(" + x + " " + op + " " + y + ")", nil
		case sel.Sel.Name == "Quo": // big.Int.Quo: truncated division
			return "(Int.tdiv " + x + " " + y + ")", nil
		}
		return "", fmt.Errorf("unsupported method %s", sel.Sel.Name)
	}
	return "", fmt.Errorf("unsupported expression %T", e)
}

// findExpr walks a function body collecting `x := e` locals and returns the first expression for
// which pick returns true (called on every expression in source order).
func findExpr(fn *ast.FuncDecl, pick func(ast.Expr) bool) (ast.Expr, map[string]ast.Expr) {
	locals := map[string]ast.Expr{}
	var found ast.Expr
	ast.Inspect(fn.Body, func(n ast.Node) bool {
		if found != nil {
			return false
		}
		if as, ok := n.(*ast.AssignStmt); ok && as.Tok == token.DEFINE && len(as.Lhs) == len(as.Rhs) {
			for i, l := range as.Lhs {
				if id, ok := l.(*ast.Ident); ok {
					if _, seen := locals[id.Name]; !seen {
						locals[id.Name] = as.Rhs[i]
					}
				}
			}
		}
		if e, ok := n.(ast.Expr); ok && pick(e) {
			found = e
			return false
		}
		return true
	})
	return found, locals
}

func isMethodCall(e ast.Expr, name string) (*ast.CallExpr, bool) {
	c, ok := e.(*ast.CallExpr)
	if !ok {
		return nil, false
	}
	s, ok := c.Fun.(*ast.SelectorExpr)
	if !ok || s.Sel.Name != name {
		return nil, false
	}
	return c, true
}

func genSpons(repo string) (string, []string, error) {
	var notes []string
	var b strings.Builder
	b.WriteString("namespace DymVerif.Gen.Spons\n\n")
	dir := filepath.Join(repo, "x/sponsorship")
	p, err := sponsLoad(
		filepath.Join(dir, "types/constants.go"), filepath.Join(dir, "types/types.go"),
		filepath.Join(dir, "keeper/endorsements.go"), filepath.Join(dir, "keeper/hooks_staking.go"),
		filepath.Join(dir, "keeper/hook_epoch.go"),
	)
	if err != nil {
		return "", nil, err
	}
	// ---- constants
	for _, c := range [][2]string{{"MaxAllocationWeight", "maxAllocationWeight"}, {"DefaultMinAllocationWeight", "defaultMinAllocationWeight"}, {"DefaultMinVotingPower", "defaultMinVotingPower"}} {
		v, ok := p.vars[c[0]]
		var val *big.Int
		if ok {
			val, err = p.evalConst(v, 0)
		}
		if !ok || err != nil {
			notes = append(notes, fmt.Sprintf("constant %s not evaluated: %v", c[0], err))
			fmt.Fprintf(&b, "opaque %s : Int\n", c[1])
			continue
		}
		fmt.Fprintf(&b, "/-- `%s` (types/constants.go) -/\ndef %s : Int := %s\n", c[0], c[1], val)
	}
	b.WriteString("\n")
	emit := func(leanName, doc, params string, fn string, pick func(ast.Expr) bool, names map[string]string) {
		f, ok := p.funcs[fn]
		if !ok {
			notes = append(notes, "function "+fn+" not found")
			fmt.Fprintf(&b, "opaque %s %s : Int\n\n", leanName, params)
			return
		}
		e, locals := findExpr(f, pick)
		if e == nil {
			notes = append(notes, "expression for "+leanName+" not found in "+fn)
			fmt.Fprintf(&b, "opaque %s %s : Int\n\n", leanName, params)
			return
		}
		s, err := trInt(e, names, locals, 0)
		if err != nil {
			notes = append(notes, fmt.Sprintf("%s: %v", leanName, err))
			fmt.Fprintf(&b, "opaque %s %s : Int\n\n", leanName, params)
			return
		}
		fmt.Fprintf(&b, "/-- %s -/\ndef %s %s : Int := %s\n\n", doc, leanName, params, s)
	}
	isQuo := func(e ast.Expr) bool { _, ok := isMethodCall(e, "Quo"); return ok }
	emit("applyWeightsPower", "`ApplyWeights`: power of one gauge", "(vp w : Int)", "ApplyWeights", isQuo,
		map[string]string{"votingPower": "vp", "weight.Weight": "w", "MaxAllocationWeight": "maxAllocationWeight"})
	emit("getGaugePower", "`Vote.GetGaugePower`: the matching weight's power", "(vp w : Int)", "Vote.GetGaugePower", isQuo,
		map[string]string{"v.VotingPower": "vp", "w.Weight": "w", "MaxAllocationWeight": "maxAllocationWeight"})
	emit("claimAmount", "`EstimateClaim`: reward of one denom", "(power reward epochShares : Int)", "Keeper.EstimateClaim", isQuo,
		map[string]string{"power": "power", "reward.Amount": "reward", "endorsement.EpochShares": "epochShares"})
	hookNames := map[string]string{"newVP": "newVP", "oldVP": "oldVP", "vote.VotingPower": "voteVP"}
	if f, ok := p.funcs["StakingHooks.processHook"]; ok {
		_, locals := findExpr(f, func(ast.Expr) bool { return false })
		redo := func(leanName, doc string, e ast.Expr) {
			s, err := trInt(e, hookNames, locals, 0)
			if err != nil {
				notes = append(notes, fmt.Sprintf("%s: %v", leanName, err))
				fmt.Fprintf(&b, "opaque %s (voteVP oldVP newVP : Int) : Int\n\n", leanName)
				return
			}
			fmt.Fprintf(&b, "/-- %s -/\ndef %s (voteVP oldVP newVP : Int) : Int := %s\n\n", doc, leanName, s)
		}
		redo("hookNewTotal", "`processHook`: newTotalVP", &ast.Ident{Name: "newTotalVP"})
		// the sequence of distribution / shares updates processHook performs when the vote is kept
		// (top-level statements only: the pruning branch is a nested block)
		var script []string
		for _, st := range f.Body.List {
			var line string
			switch st := st.(type) {
			case *ast.AssignStmt:
				if len(st.Lhs) >= 1 && len(st.Rhs) == 1 {
					r := render(st.Rhs[0])
					l := render(st.Lhs[0])
					switch {
					case strings.Contains(r, "ToDistribution") || strings.Contains(r, "ApplyWeights"):
						line = l + " := " + r
					case l == "vote.VotingPower":
						line = l + " = " + r
					case strings.Contains(r, "UpdateDistribution") || strings.Contains(r, "UpdateTotalSharesWithDistribution"):
						line = r
					}
				}
			case *ast.ExprStmt:
				r := render(st.X)
				if strings.Contains(r, "UpdateDistribution") || strings.Contains(r, "UpdateTotalSharesWithDistribution") {
					line = r
				}
			}
			if line != "" {
				script = append(script, line)
			}
		}
		b.WriteString("/-- `processHook` (vote kept): the distribution / endorsement-share updates, in order -/\ndef hookScript : List String := [")
		for i, l := range script {
			if i > 0 {
				b.WriteString(",")
			}
			fmt.Fprintf(&b, "\n  %q", l)
		}
		b.WriteString("]\n\n")
	}
	// ---- structural facts
	ign := false
	if f, ok := p.funcs["EpochHooks.AfterEpochEnd"]; ok && len(f.Type.Params.List) >= 2 {
		par := f.Type.Params.List[1]
		ign = len(par.Names) == 1 && par.Names[0].Name == "_"
		if !ign { // the identifier is named: does the body mention it at all?
			used := false
			ast.Inspect(f.Body, func(n ast.Node) bool {
				if id, ok := n.(*ast.Ident); ok && len(par.Names) == 1 && id.Name == par.Names[0].Name {
					used = true
				}
				return true
			})
			ign = !used
		}
	} else {
		notes = append(notes, "EpochHooks.AfterEpochEnd not found")
	}
	fmt.Fprintf(&b, "/-- sponsorship's `AfterEpochEnd` does not look at the epoch identifier -/\ndef epochHookIgnoresIdentifier : Bool := %v\n\n", ign)
	// first statement: `if <identifier> != <…>.DistrEpochIdentifier { return nil }`
	only := false
	if f, ok := p.funcs["EpochHooks.AfterEpochEnd"]; ok && len(f.Body.List) > 0 && len(f.Type.Params.List) >= 2 && len(f.Type.Params.List[1].Names) == 1 {
		id := f.Type.Params.List[1].Names[0].Name
		if ifs, ok := f.Body.List[0].(*ast.IfStmt); ok && ifs.Init == nil && ifs.Else == nil && len(ifs.Body.List) == 1 {
			if be, ok := ifs.Cond.(*ast.BinaryExpr); ok && be.Op == token.NEQ {
				l, r := render(be.X), render(be.Y)
				if l != id {
					l, r = r, l
				}
				if ret, ok := ifs.Body.List[0].(*ast.ReturnStmt); ok && len(ret.Results) == 1 && render(ret.Results[0]) == "nil" {
					only = l == id && strings.HasSuffix(r, ".DistrEpochIdentifier") && strings.Contains(r, "incentivesKeeper.GetParams")
				}
			}
		}
	}
	fmt.Fprintf(&b, "/-- sponsorship's `AfterEpochEnd` returns at once unless the identifier is x/incentives' DistrEpochIdentifier -/\ndef epochHookOnlyOnDistrIdentifier : Bool := %v\n\n", only)
	noop := false
	if f, ok := p.funcs["StakingHooks.BeforeValidatorSlashed"]; ok && len(f.Body.List) == 1 {
		if r, ok := f.Body.List[0].(*ast.ReturnStmt); ok && len(r.Results) == 1 {
			if id, ok := r.Results[0].(*ast.Ident); ok && id.Name == "nil" {
				noop = true
			}
		}
	}
	fmt.Fprintf(&b, "/-- `StakingHooks.BeforeValidatorSlashed` is `return nil` -/\ndef slashHookIsNoop : Bool := %v\n\n", noop)
	// epoch hook order in app/keepers.go
	order := false
	if src, err := sponsLoad(filepath.Join(repo, "app/keepers.go")); err == nil {
		for _, f := range src.funcs {
			ast.Inspect(f.Body, func(n ast.Node) bool {
				c, ok := n.(*ast.CallExpr)
				if !ok || flat(c.Fun) != "epochstypes.NewMultiEpochHooks" {
					return true
				}
				inc, sp := -1, -1
				for i, a := range c.Args {
					s := ""
					if ca, ok := a.(*ast.CallExpr); ok {
						s = flat(ca.Fun)
					}
					if strings.Contains(s, "IncentivesKeeper") {
						inc = i
					}
					if strings.Contains(s, "SponsorshipKeeper") {
						sp = i
					}
				}
				order = inc >= 0 && sp > inc
				return true
			})
		}
	} else {
		notes = append(notes, "app/keepers.go not parsed")
	}
	fmt.Fprintf(&b, "/-- x/incentives' epoch hook is registered before x/sponsorship's (app/keepers.go) -/\ndef incentivesHookBeforeSponsorship : Bool := %v\n\n", order)
	b.WriteString("end DymVerif.Gen.Spons\n")
	return b.String(), notes, nil
}
