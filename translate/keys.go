package main

import (
	"fmt"
	"go/ast"
	"path/filepath"
	"strings"
)

var (
	psBytes  = paramSpec{kind: kBytes}
	psU64    = paramSpec{kind: kU64}
	psStatus = paramSpec{kind: kEnum, leanType: "Status", strFn: "statusName"}
	psPType  = paramSpec{kind: kEnum, leanType: "PType", strFn: "ptypeName"}
	psOpStat = paramSpec{kind: kEnum, leanType: "OpStatus", strFn: "opStatusName"}
	psTime   = paramSpec{kind: kTime}
)

// emitListing pins a function that is outside the byte-builder subset by its normalised statement
// listing (skel.go): `def <lean> : List String`.
func emitListing(b *strings.Builder, notes *[]string, p *pkgSrc, goName, lean string) {
	fd := p.funcs[goName]
	if fd == nil || fd.Body == nil {
		*notes = append(*notes, goName+": function not found in source")
		fmt.Fprintf(b, "opaque %s : List String\n\n", lean)
		return
	}
	fmt.Fprintf(b, "/-- statement listing of `%s` -/\ndef %s : List String :=\n  %s\n\n", goName, lean, leanStrList(listing(p, fd)))
}

// emitConstBytes emits a package-level string/[]byte constant as a Lean `Bytes` literal.
func emitConstBytes(b *strings.Builder, notes *[]string, tr *bytesTranslator, goName, lean string) {
	v, ok := tr.p.vars[goName]
	if !ok {
		*notes = append(*notes, goName+": constant not found in source")
		fmt.Fprintf(b, "opaque %s : Bytes\n\n", lean)
		return
	}
	x, err := tr.expr(v, env{})
	if err != nil {
		*notes = append(*notes, goName+": "+err.Error())
		fmt.Fprintf(b, "opaque %s : Bytes\n\n", lean)
		return
	}
	fmt.Fprintf(b, "/-- `%s` -/\ndef %s : Bytes := %s\n\n", goName, lean, x)
}

func emitEnumTable(name, leanType string, tbl map[int]string, ctors map[int]string) (string, []string) {
	var notes []string
	out := fmt.Sprintf("def %s : %s → Bytes\n", name, leanType)
	for _, k := range sortedKeys(tbl) {
		c, ok := ctors[k]
		if !ok {
			notes = append(notes, fmt.Sprintf("%s: enum value %d (%s) has no constructor in the model", name, k, tbl[k]))
			continue
		}
		out += fmt.Sprintf("  | %s => %s -- %q\n", c, leanBytes([]byte(tbl[k])), tbl[k])
	}
	out += fmt.Sprintf("def %sCount : Nat := %d\n", name, len(tbl))
	return out, notes
}

func genKeys(repo string) (string, []string, error) {
	var notes []string
	var b strings.Builder
	b.WriteString("import DymVerif.Model.KeysX\nnamespace DymVerif.Gen.Keys\nopen DymVerif DymVerif.Keys\n\n")

	// ---- x/common/types : rollapp packet keys ------------------------------------------
	common, err := loadFiles(
		filepath.Join(repo, "x/common/types/key_rollapp_packet.go"),
		filepath.Join(repo, "x/common/types/status.pb.go"),
		filepath.Join(repo, "x/common/types/rollapp_packet.pb.go"),
	)
	if err != nil {
		return "", nil, err
	}
	stTbl, err := enumNameTable(common, "Status_name")
	if err != nil {
		return "", nil, err
	}
	s, n := emitEnumTable("statusName", "Status", stTbl, map[int]string{0: ".pending", 1: ".finalized"})
	b.WriteString(s)
	notes = append(notes, n...)
	ptTbl, err := enumNameTable(common, "RollappPacket_Type_name")
	if err != nil {
		return "", nil, err
	}
	s, n = emitEnumTable("ptypeName", "PType", ptTbl, map[int]string{0: ".onRecv", 1: ".onAck", 2: ".onTimeout", -1: ".undefined"})
	b.WriteString(s)
	notes = append(notes, n...)

	tr := &bytesTranslator{p: common, specs: map[string]*fnSpec{}, enumCases: map[string]string{
		"Status_PENDING": ".pending", "Status_FINALIZED": ".finalized",
		"RollappPacket_ON_RECV": ".onRecv", "RollappPacket_ON_ACK": ".onAck",
		"RollappPacket_ON_TIMEOUT": ".onTimeout", "RollappPacket_UNDEFINED": ".undefined",
	}}
	order := []*fnSpec{
		{goName: "MustGetStatusBytes", leanName: "mustGetStatusBytes", params: []paramSpec{psStatus}},
		{goName: "RollappPacketByStatusPrefix", leanName: "rollappPacketByStatusPrefix", params: []paramSpec{psStatus}},
		{goName: "RollappPacketByRollappIDPrefix", leanName: "rollappPacketByRollappIDPrefix", params: []paramSpec{psBytes}},
		{goName: "RollappPacketByStatusByRollappIDPrefix", leanName: "rollappPacketByStatusByRollappIDPrefix", params: []paramSpec{psStatus, psBytes}},
		{goName: "RollappPacketByStatusByRollappIDByProofHeightPrefix", leanName: "rollappPacketByStatusByRollappIDByProofHeightPrefix", params: []paramSpec{psBytes, psStatus, psU64}},
		{goName: "RollappPacketKey", leanName: "rollappPacketKey", params: []paramSpec{psStatus, psBytes, psU64, psPType, psBytes, psU64}},
	}
	for _, sp := range order {
		tr.specs[sp.goName] = sp
	}
	for _, sp := range order {
		b.WriteString(tr.fn(sp))
		b.WriteString("\n")
	}
	notes = append(notes, tr.notes...)

	// DecodePacketKey: recognise which of the two known shapes the source has
	b.WriteString(decodeBody(common, &notes))

	// ---- x/delayedack/types : range filters ------------------------------------------------
	// (the Start/End expressions of the two height-range filters)
	da, err := loadFiles(filepath.Join(repo, "x/delayedack/types/rollapp_packets_list_filter.go"))
	if err != nil {
		return "", nil, err
	}
	for _, f := range []struct{ goName, lean string }{
		{"PendingByRollappIDByMaxHeight", "pendingByMaxHeightRange"},
		{"PendingByRollappIDFromHeight", "pendingFromHeightRange"},
	} {
		b.WriteString(rangeFilter(da, tr, f.goName, f.lean, &notes))
	}

	// ---- x/eibc/types : demand order key ------------------------------------------------------
	eibc, err := loadFiles(filepath.Join(repo, "x/eibc/types/keys.go"))
	if err != nil {
		return "", nil, err
	}
	tre := &bytesTranslator{p: eibc, specs: map[string]*fnSpec{}, enumCases: tr.enumCases}
	sp := &fnSpec{goName: "GetDemandOrderKey", leanName: "getDemandOrderKey", params: []paramSpec{psStatus, psBytes}}
	b.WriteString(tre.fn(sp) + "\n")
	notes = append(notes, tre.notes...)

	// ---- x/rollapp/types : liveness queue keys -------------------------------------------------
	lv, err := loadFiles(filepath.Join(repo, "x/rollapp/types/liveness.go"))
	if err != nil {
		return "", nil, err
	}
	trl := &bytesTranslator{p: lv, specs: map[string]*fnSpec{}, enumCases: map[string]string{}}
	l1 := &fnSpec{goName: "LivenessEventQueueIterHeightKey", leanName: "livenessEventQueueIterHeightKey", params: []paramSpec{psU64}}
	trl.specs[l1.goName] = l1
	b.WriteString(trl.fn(l1) + "\n")
	b.WriteString(livenessKey(lv, trl, &notes))
	notes = append(notes, trl.notes...)

	// ---- x/sequencer/types : by-rollapp keys ---------------------------------------------------
	sq, err := loadFiles(filepath.Join(repo, "x/sequencer/types/keys.go"))
	if err != nil {
		return "", nil, err
	}
	trs := &bytesTranslator{p: sq, specs: map[string]*fnSpec{}, enumCases: map[string]string{"Bonded": ".bonded", "Unbonded": ".unbonded"}}
	sorder := []*fnSpec{
		{goName: "SequencersByRollappKey", leanName: "sequencersByRollappKey", params: []paramSpec{psBytes}},
		{goName: "SequencersByRollappByStatusKey", leanName: "sequencersByRollappByStatusKey", params: []paramSpec{psBytes, psOpStat}},
		{goName: "SequencerByRollappByStatusKey", leanName: "sequencerByRollappByStatusKey", params: []paramSpec{psBytes, psBytes, psOpStat}},
		{goName: "SequencerKey", leanName: "sequencerKey", params: []paramSpec{psBytes}},
		{goName: "ProposerByRollappKey", leanName: "proposerByRollappKey", params: []paramSpec{psBytes}},
		{goName: "SuccessorByRollappKey", leanName: "successorByRollappKey", params: []paramSpec{psBytes}},
		{goName: "NoticeQueueByTimeKey", leanName: "noticeQueueByTimeKey", params: []paramSpec{psTime}},
		{goName: "NoticeQueueBySeqTimeKey", leanName: "noticeQueueBySeqTimeKey", params: []paramSpec{psBytes, psTime}},
	}
	for _, sp := range sorder {
		trs.specs[sp.goName] = sp
	}
	for _, sp := range sorder {
		b.WriteString(trs.fn(sp) + "\n")
	}
	notes = append(notes, trs.notes...)
	emitConstBytes(&b, &notes, trs, "NoticePeriodQueueKey", "noticePeriodQueueKey")

	// utils.EncodeTimeToKey (make + copy) and the notice-queue iterator bounds: pinned listings
	ut, err := loadFiles(filepath.Join(repo, "utils/keys.go"))
	if err != nil {
		return "", nil, err
	}
	emitListing(&b, &notes, ut, "EncodeTimeToKey", "encodeTimeToKeyListing")
	sk, err := loadFiles(filepath.Join(repo, "x/sequencer/keeper/get_and_set.go"), filepath.Join(repo, "x/sequencer/keeper/rotation.go"))
	if err != nil {
		return "", nil, err
	}
	emitListing(&b, &notes, sk, "Keeper.NoticeQueue", "noticeQueueListing")
	emitListing(&b, &notes, sk, "Keeper.NoticeElapsedProposers", "noticeElapsedProposersListing")

	// ---- x/dymns/types : buy-order ids ------------------------------------------------------------
	dn, err := loadFiles(filepath.Join(repo, "x/dymns/types/buy_offer.go"), filepath.Join(repo, "x/dymns/types/constants.go"))
	if err != nil {
		return "", nil, err
	}
	trd := &bytesTranslator{p: dn, specs: map[string]*fnSpec{}, enumCases: map[string]string{}}
	emitConstBytes(&b, &notes, trd, "BuyOrderIdTypeDymNamePrefix", "buyOrderIdTypeDymNamePrefix")
	emitConstBytes(&b, &notes, trd, "BuyOrderIdTypeAliasPrefix", "buyOrderIdTypeAliasPrefix")
	emitListing(&b, &notes, dn, "IsValidBuyOrderId", "isValidBuyOrderIdListing")
	emitListing(&b, &notes, dn, "CreateBuyOrderId", "createBuyOrderIdListing")

	// ---- x/iro/types : IRO denoms, plan keys -------------------------------------------------------
	ir, err := loadFiles(filepath.Join(repo, "x/iro/types/plan.go"), filepath.Join(repo, "x/iro/types/keys.go"))
	if err != nil {
		return "", nil, err
	}
	tri := &bytesTranslator{p: ir, specs: map[string]*fnSpec{}, enumCases: map[string]string{}}
	for _, sp := range []*fnSpec{
		{goName: "IRODenom", leanName: "iRODenom", params: []paramSpec{psBytes}},
		{goName: "PlanKey", leanName: "planKey", params: []paramSpec{psBytes}},
		{goName: "PlansByRollappKey", leanName: "plansByRollappKey", params: []paramSpec{psBytes}},
	} {
		tri.specs[sp.goName] = sp
		b.WriteString(tri.fn(sp) + "\n")
	}
	emitConstBytes(&b, &notes, tri, "IROTokenPrefix", "iROTokenPrefix")
	emitConstBytes(&b, &notes, tri, "LastPlanIdKey", "lastPlanIdKey")
	emitConstBytes(&b, &notes, tri, "ParamsKey", "iroParamsKey")
	emitListing(&b, &notes, ir, "RollappIDFromIRODenom", "rollappIDFromIRODenomListing")
	irk, err := loadFiles(filepath.Join(repo, "x/iro/keeper/iro.go"))
	if err != nil {
		return "", nil, err
	}
	emitListing(&b, &notes, irk, "Keeper.SetPlan", "setPlanListing")
	notes = append(notes, tri.notes...)

	// ---- x/dymns/types : store keys -------------------------------------------------------------------
	dk, err := loadFiles(filepath.Join(repo, "x/dymns/types/keys.go"))
	if err != nil {
		return "", nil, err
	}
	psAsset := paramSpec{kind: kEnum, leanType: "AssetType", strFn: "assetTypeName"}
	trn := &bytesTranslator{p: dk, specs: map[string]*fnSpec{}, enumCases: map[string]string{"TypeName": ".name", "TypeAlias": ".alias"}}
	for _, sp := range []*fnSpec{
		{goName: "DymNameKey", leanName: "dymNameKey", params: []paramSpec{psBytes}},
		{goName: "DymNamesOwnedByAccountRvlKey", leanName: "dymNamesOwnedByAccountRvlKey", params: []paramSpec{psBytes}},
		{goName: "ConfiguredAddressToDymNamesIncludeRvlKey", leanName: "configuredAddressToDymNamesIncludeRvlKey", params: []paramSpec{psBytes}},
		{goName: "FallbackAddressToDymNamesIncludeRvlKey", leanName: "fallbackAddressToDymNamesIncludeRvlKey", params: []paramSpec{psBytes}},
		{goName: "SellOrderKey", leanName: "sellOrderKey", params: []paramSpec{psBytes, psAsset}},
		{goName: "BuyOrderKey", leanName: "buyOrderKey", params: []paramSpec{psBytes}},
		{goName: "BuyerToOrderIdsRvlKey", leanName: "buyerToOrderIdsRvlKey", params: []paramSpec{psBytes}},
		{goName: "DymNameToBuyOrderIdsRvlKey", leanName: "dymNameToBuyOrderIdsRvlKey", params: []paramSpec{psBytes}},
		{goName: "AliasToBuyOrderIdsRvlKey", leanName: "aliasToBuyOrderIdsRvlKey", params: []paramSpec{psBytes}},
		{goName: "RollAppIdToAliasesKey", leanName: "rollAppIdToAliasesKey", params: []paramSpec{psBytes}},
		{goName: "AliasToRollAppIdRvlKey", leanName: "aliasToRollAppIdRvlKey", params: []paramSpec{psBytes}},
	} {
		trn.specs[sp.goName] = sp
		b.WriteString(trn.fn(sp) + "\n")
	}
	emitConstBytes(&b, &notes, trn, "KeyCountBuyOrders", "keyCountBuyOrders")
	for _, c := range []string{"KeyPrefixDymName", "KeyPrefixRvlDymNamesOwnedByAccount", "KeyPrefixRvlConfiguredAddressToDymNamesInclude",
		"KeyPrefixRvlFallbackAddressToDymNamesInclude", "KeyPrefixSellOrder", "KeyPrefixDymNameSellOrder", "KeyPrefixAliasSellOrder",
		"KeyPrefixBuyOrder", "KeyPrefixRvlBuyerToBuyOrderIds", "KeyPrefixRvlDymNameToBuyOrderIds", "KeyPrefixRvlAliasToBuyOrderIds",
		"KeyPrefixRollAppIdToAliases", "KeyPrefixRvlAliasToRollAppId"} {
		emitConstBytes(&b, &notes, trn, c, "dymns"+c)
	}
	notes = append(notes, trn.notes...)

	// ---- x/lockup : reference keys and iterator bounds -----------------------------------------------
	lt, err := loadFiles(filepath.Join(repo, "x/lockup/types/keys.go"))
	if err != nil {
		return "", nil, err
	}
	trk := &bytesTranslator{p: lt, specs: map[string]*fnSpec{}, enumCases: map[string]string{}}
	for _, c := range []string{"KeyIndexSeparator", "KeyPrefixNotUnlocking", "KeyPrefixUnlocking", "KeyPrefixTimestamp", "KeyPrefixDuration",
		"KeyPrefixLockDuration", "KeyPrefixAccountLockDuration", "KeyPrefixDenomLockDuration", "KeyPrefixAccountDenomLockDuration",
		"KeyPrefixLockTimestamp", "KeyPrefixAccountLockTimestamp", "KeyPrefixDenomLockTimestamp", "KeyPrefixAccountDenomLockTimestamp"} {
		emitConstBytes(&b, &notes, trk, c, "lockup"+c)
	}
	lk, err := loadFiles(filepath.Join(repo, "x/lockup/keeper/utils.go"), filepath.Join(repo, "x/lockup/keeper/iterator.go"),
		filepath.Join(repo, "x/lockup/keeper/lock_refs.go"), filepath.Join(repo, "x/lockup/keeper/store.go"))
	if err != nil {
		return "", nil, err
	}
	for _, fn := range []string{"combineKeys", "getTimeKey", "getDurationKey", "durationLockRefKeys", "lockRefKeys"} {
		emitListing(&b, &notes, lk, fn, "lockup_"+fn+"_listing")
	}
	// iterator bounds and the storing side, one combined listing
	var all []string
	for _, fn := range []string{"unlockingPrefix", "Keeper.iteratorAfterTime", "Keeper.iteratorBeforeTime", "Keeper.iteratorDuration",
		"Keeper.iteratorLongerDuration", "Keeper.iteratorShorterDuration", "Keeper.iterator",
		"Keeper.LockIteratorBeforeTime", "Keeper.AccountLockIteratorBeforeTime", "Keeper.LockIteratorAfterTimeDenom",
		"Keeper.LockIteratorLongerThanDurationDenom", "Keeper.AccountLockIterator", "Keeper.AccountLockIteratorDuration",
		"Keeper.LockIteratorDenom", "Keeper.addLockRefs", "Keeper.addLockRefByKey"} {
		fd := lk.funcs[fn]
		if fd == nil || fd.Body == nil {
			notes = append(notes, fn+": function not found in source")
			all = append(all, "MISSING "+fn)
			continue
		}
		all = append(all, listing(lk, fd)...)
	}
	fmt.Fprintf(&b, "/-- statement listings of the lockup iterator constructors and of the storing side -/\ndef lockupIteratorsListing : List String :=\n  %s\n\n", leanStrList(all))

	if err := genKeysColl(repo, &b, &notes); err != nil {
		return "", nil, err
	}
	if err := genKeysX(repo, &b, &notes); err != nil {
		return "", nil, err
	}

	b.WriteString("end DymVerif.Gen.Keys\n")
	return b.String(), notes, nil
}

func nodeString(p *pkgSrc, n ast.Node) string {
	var sb strings.Builder
	ast.Inspect(n, func(x ast.Node) bool {
		if id, ok := x.(*ast.Ident); ok {
			sb.WriteString(id.Name + ".")
		}
		return true
	})
	return sb.String()
}

// rangeFilter extracts the Start/End expressions of a height-range filter constructor.
func rangeFilter(p *pkgSrc, tr *bytesTranslator, goName, lean string, notes *[]string) string {
	d := p.funcs[goName]
	opaque := fmt.Sprintf("opaque %s (rollappID : Bytes) (h : Nat) : Bytes × Bytes\n\n", lean)
	if d == nil {
		*notes = append(*notes, goName+" not found")
		return opaque
	}
	var names []string
	for _, f := range d.Type.Params.List {
		for _, n := range f.Names {
			names = append(names, n.Name)
		}
	}
	if len(names) != 2 {
		*notes = append(*notes, goName+": parameter list changed")
		return opaque
	}
	en := env{names[0]: psBytes, names[1]: psU64}
	// locals of the form `status := commontypes.Status_PENDING`
	tr2 := &bytesTranslator{p: tr.p, specs: tr.specs, enumCases: copyMap(tr.enumCases)}
	var start, end ast.Expr
	count := 0
	ast.Inspect(d.Body, func(n ast.Node) bool {
		switch x := n.(type) {
		case *ast.AssignStmt:
			if len(x.Lhs) == 1 && len(x.Rhs) == 1 {
				if id, ok := x.Lhs[0].(*ast.Ident); ok {
					if sel, ok := x.Rhs[0].(*ast.SelectorExpr); ok {
						if c, ok := tr.enumCases[sel.Sel.Name]; ok {
							tr2.enumCases[id.Name] = c
						}
					}
				}
			}
		case *ast.KeyValueExpr:
			if k, ok := x.Key.(*ast.Ident); ok {
				if k.Name == "Start" {
					start = x.Value
					count++
				}
				if k.Name == "End" {
					end = x.Value
					count++
				}
			}
		}
		return true
	})
	if start == nil || end == nil || count != 2 {
		*notes = append(*notes, goName+": Start/End not found exactly once")
		return opaque
	}
	strip := func(e ast.Expr) ast.Expr {
		// commontypes.F(args) -> F(args)
		if c, ok := e.(*ast.CallExpr); ok {
			if sel, ok := c.Fun.(*ast.SelectorExpr); ok {
				return &ast.CallExpr{Fun: ast.NewIdent(sel.Sel.Name), Args: c.Args}
			}
		}
		return e
	}
	s1, err := tr2.expr(strip(start), en)
	if err != nil {
		*notes = append(*notes, goName+": "+err.Error())
		return opaque
	}
	s2, err := tr2.expr(strip(end), en)
	if err != nil {
		*notes = append(*notes, goName+": "+err.Error())
		return opaque
	}
	return fmt.Sprintf("/-- translated from `%s` (Start, End) -/\ndef %s (%s : Bytes) (%s : Nat) : Bytes × Bytes :=\n  (%s,\n   %s)\n\n",
		goName, lean, lid(names[0]), lid(names[1]), s1, s2)
}

func copyMap(m map[string]string) map[string]string {
	n := map[string]string{}
	for k, v := range m {
		n[k] = v
	}
	return n
}

// livenessKey translates LivenessEventQueueKey(e LivenessEvent) with e.HubHeight / e.RollappId as parameters.
func livenessKey(p *pkgSrc, tr *bytesTranslator, notes *[]string) string {
	d := p.funcs["LivenessEventQueueKey"]
	opaque := "opaque livenessEventQueueKey (hubHeight : Nat) (rollappId : Bytes) : Bytes\n\n"
	if d == nil {
		*notes = append(*notes, "LivenessEventQueueKey not found")
		return opaque
	}
	// rewrite e.HubHeight -> hubHeight, e.RollappId -> rollappId
	ast.Inspect(d.Body, func(n ast.Node) bool {
		switch x := n.(type) {
		case *ast.CallExpr:
			for i, a := range x.Args {
				if sel, ok := a.(*ast.SelectorExpr); ok {
					if id, ok := sel.X.(*ast.Ident); ok && id.Name == "e" {
						x.Args[i] = ast.NewIdent(lowerFirst(sel.Sel.Name))
					}
				}
			}
		}
		return true
	})
	en := env{"hubHeight": psU64, "rollappId": psBytes}
	body, err := tr.body(d.Body.List, en)
	if err != nil {
		*notes = append(*notes, "LivenessEventQueueKey: "+err.Error())
		return opaque
	}
	return "/-- translated from `LivenessEventQueueKey` -/\ndef livenessEventQueueKey (hubHeight : Nat) (rollappId : Bytes) : Bytes :=\n  " + body + "\n\n"
}

func lowerFirst(s string) string { return strings.ToLower(s[:1]) + s[1:] }
