package main

// incent.go — regenerated facts for property C15 (M-Incent):
//   * the stream share expression of x/streamer CalculateGaugeRewards (method chain on LegacyDec),
//   * the per-lock share expression of x/incentives calculateAssetGaugeRewards (method chain on math.Int),
//   * constants: DefaultMaxIterationsPerBlock, IterationsNoLimit, Min/Max stream and gauge ids,
//     DefaultDistrEpochIdentifier,
//   * positions of x/streamer and x/incentives in the epoch-hook list, of x/streamer and x/lockup in
//     the EndBlocker order (app/keepers.go, app/modules.go).
// Accepted expression subset: identifiers bound once by `x := math.LegacyNewDecFromInt(e)`,
// `math.NewInt(int64(e))`, `math.NewIntFromUint64(e)`; selectors `a.Amount`, `a.Weight`; parameters and
// locals; methods Mul Quo MulTruncate QuoTruncate MulRoundUp QuoRoundUp Add Sub MulInt QuoInt
// TruncateInt RoundInt.  Anything else => `opaque` + note (the GenEq lemma then fails).

import (
	"fmt"
	"go/ast"
	"go/parser"
	"go/token"
	"path/filepath"
	"strconv"
	"strings"
)

type incKind int

const (
	kindInt incKind = iota
	kindDec
)

type incTr struct {
	locals map[string]ast.Expr // single-assignment locals of the function
	names  map[string]string   // Go leaf expression (printed) -> Lean parameter name
}

func exprString(e ast.Expr) string {
	switch x := e.(type) {
	case *ast.Ident:
		return x.Name
	case *ast.SelectorExpr:
		return exprString(x.X) + "." + x.Sel.Name
	case *ast.ParenExpr:
		return exprString(x.X)
	}
	return fmt.Sprintf("%T", e)
}

func (t *incTr) tr(e ast.Expr, depth int) (string, incKind, error) {
	if depth > 12 {
		return "", 0, fmt.Errorf("expression too deep")
	}
	switch x := e.(type) {
	case *ast.ParenExpr:
		return t.tr(x.X, depth+1)
	case *ast.Ident, *ast.SelectorExpr:
		key := exprString(e)
		if n, ok := t.names[key]; ok {
			return n, kindInt, nil
		}
		if id, ok := e.(*ast.Ident); ok {
			if def, ok := t.locals[id.Name]; ok {
				return t.tr(def, depth+1)
			}
		}
		return "", 0, fmt.Errorf("unknown leaf %s", key)
	case *ast.CallExpr:
		fn := exprString(x.Fun)
		switch fn {
		case "math.LegacyNewDecFromInt":
			a, _, err := t.tr(x.Args[0], depth+1)
			if err != nil {
				return "", 0, err
			}
			return "(Dec.ofInt (" + a + " : Int))", kindDec, nil
		case "math.NewInt", "math.NewIntFromUint64", "int64", "uint64":
			return t.tr(x.Args[0], depth+1)
		}
		sel, ok := x.Fun.(*ast.SelectorExpr)
		if !ok {
			return "", 0, fmt.Errorf("unsupported call %s", fn)
		}
		recv, rk, err := t.tr(sel.X, depth+1)
		if err != nil {
			return "", 0, err
		}
		m := sel.Sel.Name
		if len(x.Args) == 0 {
			if rk == kindDec && m == "TruncateInt" {
				return "(Dec.truncateInt " + recv + ").toNat", kindInt, nil
			}
			if rk == kindDec && m == "RoundInt" {
				return "(Dec.roundInt " + recv + ").toNat", kindInt, nil
			}
			return "", 0, fmt.Errorf("unsupported method %s/0", m)
		}
		arg, ak, err := t.tr(x.Args[0], depth+1)
		if err != nil {
			return "", 0, err
		}
		if rk == kindDec {
			decM := map[string]string{"Mul": "mul", "Quo": "quo", "MulTruncate": "mulTruncate", "QuoTruncate": "quoTruncate",
				"MulRoundUp": "mulRoundUp", "QuoRoundUp": "quoRoundUp", "Add": "add", "Sub": "sub"}
			if lm, ok := decM[m]; ok && ak == kindDec {
				return "(Dec." + lm + " " + recv + " " + arg + ")", kindDec, nil
			}
			if (m == "MulInt" || m == "QuoInt") && ak == kindInt {
				return "(Dec." + strings.ToLower(m[:1]) + m[1:] + " " + recv + " (" + arg + " : Int))", kindDec, nil
			}
			return "", 0, fmt.Errorf("unsupported Dec method %s", m)
		}
		intM := map[string]string{"Mul": "*", "Quo": "/", "Add": "+", "Sub": "-"}
		if op, ok := intM[m]; ok && ak == kindInt {
			return "(" + recv + " " + op + " " + arg + ")", kindInt, nil
		}
		return "", 0, fmt.Errorf("unsupported Int method %s", m)
	}
	return "", 0, fmt.Errorf("unsupported expression %T", e)
}

func parseOne(path string) (*ast.File, error) {
	return parser.ParseFile(token.NewFileSet(), path, nil, 0)
}

// findAssign returns the right-hand side of `name := rhs` inside function fn, plus all single
// `:=` locals of that function.
func findAssign(f *ast.File, fn, name string) (ast.Expr, map[string]ast.Expr, error) {
	for _, d := range f.Decls {
		fd, ok := d.(*ast.FuncDecl)
		if !ok || fd.Name.Name != fn || fd.Body == nil {
			continue
		}
		locals := map[string]ast.Expr{}
		var target ast.Expr
		ast.Inspect(fd.Body, func(n ast.Node) bool {
			as, ok := n.(*ast.AssignStmt)
			if !ok || as.Tok != token.DEFINE || len(as.Lhs) != 1 || len(as.Rhs) != 1 {
				return true
			}
			id, ok := as.Lhs[0].(*ast.Ident)
			if !ok {
				return true
			}
			if id.Name == name {
				target = as.Rhs[0]
			} else if _, dup := locals[id.Name]; !dup {
				locals[id.Name] = as.Rhs[0]
			}
			return true
		})
		if target == nil {
			return nil, nil, fmt.Errorf("%s: no `%s :=` found", fn, name)
		}
		return target, locals, nil
	}
	return nil, nil, fmt.Errorf("function %s not found", fn)
}

func constOf(f *ast.File, name string) (ast.Expr, bool) {
	for _, d := range f.Decls {
		gd, ok := d.(*ast.GenDecl)
		if !ok || (gd.Tok != token.CONST && gd.Tok != token.VAR) {
			continue
		}
		for _, sp := range gd.Specs {
			vs := sp.(*ast.ValueSpec)
			for i, n := range vs.Names {
				if n.Name == name && i < len(vs.Values) {
					return vs.Values[i], true
				}
			}
		}
	}
	return nil, false
}

func natConst(f *ast.File, name string) (string, error) {
	e, ok := constOf(f, name)
	if !ok {
		return "", fmt.Errorf("constant %s not found", name)
	}
	switch x := e.(type) {
	case *ast.BasicLit:
		if x.Kind == token.INT {
			return x.Value, nil
		}
	case *ast.SelectorExpr:
		if exprString(x) == "math.MaxUint64" {
			return "18446744073709551615", nil
		}
	}
	return "", fmt.Errorf("constant %s: unsupported value", name)
}

// callArgNames returns, for the first call `<fun>(...)` whose printed callee ends with suffix, the
// printed receiver/selector names of its arguments (e.g. a.StreamerKeeper.Hooks() -> "StreamerKeeper").
func orderedNames(f *ast.File, calleeSuffix string) []string {
	var out []string
	ast.Inspect(f, func(n ast.Node) bool {
		if out != nil {
			return false
		}
		ce, ok := n.(*ast.CallExpr)
		if !ok || !strings.HasSuffix(exprString(ce.Fun), calleeSuffix) {
			return true
		}
		for _, a := range ce.Args {
			s := ""
			ast.Inspect(a, func(m ast.Node) bool {
				if se, ok := m.(*ast.SelectorExpr); ok && s == "" {
					s = exprString(se)
				}
				return s == ""
			})
			if s == "" {
				s = exprString(a)
			}
			out = append(out, s)
		}
		return false
	})
	return out
}

func indexContaining(xs []string, sub string) int {
	for i, x := range xs {
		if strings.Contains(x, sub) {
			return i
		}
	}
	return -1
}

func genIncent(repo string) (string, []string, error) {
	var notes []string
	var b strings.Builder
	b.WriteString("import DymVerif.Base.Dec\nnamespace DymVerif.Gen.Incent\nopen DymVerif\n\n")

	emitFn := func(leanName, params, file, fn, local string, names map[string]string) {
		f, err := parseOne(filepath.Join(repo, file))
		var body string
		if err == nil {
			var rhs ast.Expr
			var locals map[string]ast.Expr
			rhs, locals, err = findAssign(f, fn, local)
			if err == nil {
				t := &incTr{locals: locals, names: names}
				body, _, err = t.tr(rhs, 0)
			}
		}
		if err != nil {
			notes = append(notes, fmt.Sprintf("%s: %v (emitted opaque)", leanName, err))
			fmt.Fprintf(&b, "/-- %s.%s: outside the translated subset -/\nopaque %s %s : Nat\n\n", file, fn, leanName, params)
			return
		}
		fmt.Fprintf(&b, "/-- %s: `%s := …` in %s -/\ndef %s %s : Nat := %s\n\n", file, local, fn, leanName, params, body)
	}
	emitFn("streamShare", "(amount weight total : Nat)", "x/streamer/keeper/distribute.go", "CalculateGaugeRewards", "allocatingAmount",
		map[string]string{"coin.Amount": "amount", "record.Weight": "weight", "totalWeight": "total"})
	emitFn("lockShare", "(remain l lockSum remainEpochs : Nat)", "x/incentives/keeper/gauge_asset.go", "calculateAssetGaugeRewards", "amt",
		map[string]string{"coin.Amount": "remain", "denomLockAmt": "l", "lockSum": "lockSum", "remainEpochs": "remainEpochs"})

	// constants
	emitNat := func(leanName, file, goName string) {
		f, err := parseOne(filepath.Join(repo, file))
		var v string
		if err == nil {
			v, err = natConst(f, goName)
		}
		if err != nil {
			notes = append(notes, fmt.Sprintf("%s: %v (emitted opaque)", leanName, err))
			fmt.Fprintf(&b, "opaque %s : Nat\n", leanName)
			return
		}
		fmt.Fprintf(&b, "def %s : Nat := %s -- %s.%s\n", leanName, v, file, goName)
	}
	emitNat("defaultMaxIterationsPerBlock", "x/streamer/types/constants.go", "DefaultMaxIterationsPerBlock")
	emitNat("iterationsNoLimit", "x/streamer/types/streamer.go", "IterationsNoLimit")
	emitNat("maxStreamID", "x/streamer/types/streamer.go", "MaxStreamID")
	emitNat("maxGaugeID", "x/streamer/types/streamer.go", "MaxGaugeID")
	emitNat("minStreamID", "x/streamer/types/streamer.go", "MinStreamID")
	emitNat("minGaugeID", "x/streamer/types/streamer.go", "MinGaugeID")

	if f, err := parseOne(filepath.Join(repo, "x/incentives/types/constants.go")); err == nil {
		if e, ok := constOf(f, "DefaultDistrEpochIdentifier"); ok {
			if bl, ok := e.(*ast.BasicLit); ok && bl.Kind == token.STRING {
				s, _ := strconv.Unquote(bl.Value)
				parts := []string{}
				for _, c := range []byte(s) {
					parts = append(parts, strconv.Itoa(int(c)))
				}
				fmt.Fprintf(&b, "def distrEpochIdentifier : List Nat := [%s] -- %q\n", strings.Join(parts, ", "), s)
			}
		}
	}

	// orders
	emitPos := func(leanName, file, callee, sub string) {
		f, err := parseOne(filepath.Join(repo, file))
		pos := -1
		if err == nil {
			pos = indexContaining(orderedNames(f, callee), sub)
		}
		if pos < 0 {
			notes = append(notes, fmt.Sprintf("%s: %s not found in %s(...) of %s (emitted opaque)", leanName, sub, callee, file))
			fmt.Fprintf(&b, "opaque %s : Nat\n", leanName)
			return
		}
		fmt.Fprintf(&b, "def %s : Nat := %d -- position of %s in %s(...) of %s\n", leanName, pos, sub, callee, file)
	}
	emitPos("epochHookStreamer", "app/keepers.go", "NewMultiEpochHooks", "StreamerKeeper")
	emitPos("epochHookIncentives", "app/keepers.go", "NewMultiEpochHooks", "IncentivesKeeper")

	// EndBlockers order is a slice literal `var EndBlockers = []string{...}` (or SetOrderEndBlockers(...))
	if f, err := parseOne(filepath.Join(repo, "app/modules.go")); err == nil {
		var names []string
		if e, ok := constOf(f, "EndBlockers"); ok {
			if cl, ok := e.(*ast.CompositeLit); ok {
				for _, el := range cl.Elts {
					names = append(names, exprString(el))
				}
			}
		}
		if names == nil {
			names = orderedNames(f, "SetOrderEndBlockers")
		}
		for _, p := range [][2]string{{"endBlockStreamer", "streamermoduletypes"}, {"endBlockLockup", "lockuptypes"}} {
			if i := indexContaining(names, p[1]); i >= 0 {
				fmt.Fprintf(&b, "def %s : Nat := %d -- position of %s in the EndBlockers order (app/modules.go)\n", p[0], i, p[1])
			} else {
				notes = append(notes, fmt.Sprintf("%s: %s not found in the EndBlockers order (emitted opaque)", p[0], p[1]))
				fmt.Fprintf(&b, "opaque %s : Nat\n", p[0])
			}
		}
	}
	b.WriteString("\nend DymVerif.Gen.Incent\n")
	return b.String(), notes, nil
}
