package main

// Symbolic translation of Go functions that build []byte keys into Lean definitions over `Bytes`.

import (
	"fmt"
	"go/ast"
	"go/parser"
	"go/token"
	"sort"
	"strconv"
	"strings"
)

type pkgSrc struct {
	fset  *token.FileSet
	files []*ast.File
	funcs map[string]*ast.FuncDecl
	vars  map[string]ast.Expr // package-level var/const initialisers
}

func loadFiles(paths ...string) (*pkgSrc, error) {
	p := &pkgSrc{fset: token.NewFileSet(), funcs: map[string]*ast.FuncDecl{}, vars: map[string]ast.Expr{}}
	for _, path := range paths {
		f, err := parser.ParseFile(p.fset, path, nil, parser.SkipObjectResolution)
		if err != nil {
			return nil, err
		}
		p.files = append(p.files, f)
		for _, d := range f.Decls {
			switch d := d.(type) {
			case *ast.FuncDecl:
				name := d.Name.Name
				if d.Recv != nil && len(d.Recv.List) == 1 {
					name = recvTypeName(d.Recv.List[0].Type) + "." + name
				}
				p.funcs[name] = d
			case *ast.GenDecl:
				if d.Tok != token.VAR && d.Tok != token.CONST {
					continue
				}
				var lastVals []ast.Expr
				for si, s := range d.Specs {
					vs := s.(*ast.ValueSpec)
					vals := vs.Values
					if len(vals) == 0 && d.Tok == token.CONST {
						vals = lastVals // iota continuation
					} else {
						lastVals = vals
					}
					for i, n := range vs.Names {
						if i < len(vals) {
							p.vars[n.Name] = &iotaExpr{e: vals[i], iota: si}
						}
					}
				}
			}
		}
	}
	return p, nil
}

// iotaExpr wraps a const initialiser with the iota value of its spec.
type iotaExpr struct {
	ast.Expr
	e    ast.Expr
	iota int
}

func (i *iotaExpr) Pos() token.Pos { return i.e.Pos() }
func (i *iotaExpr) End() token.Pos { return i.e.End() }

func recvTypeName(e ast.Expr) string {
	switch t := e.(type) {
	case *ast.StarExpr:
		return recvTypeName(t.X)
	case *ast.Ident:
		return t.Name
	}
	return "?"
}

type unsupported struct{ msg string }

func (u unsupported) Error() string { return u.msg }

func unsup(format string, a ...any) error { return unsupported{fmt.Sprintf(format, a...)} }

// constInt evaluates small integer constant expressions (literals, iota, +, named consts).
func (p *pkgSrc) constInt(e ast.Expr, iota int) (int, error) {
	switch e := e.(type) {
	case *iotaExpr:
		return p.constInt(e.e, e.iota)
	case *ast.BasicLit:
		if e.Kind == token.INT {
			v, err := strconv.ParseInt(e.Value, 0, 64)
			return int(v), err
		}
		if e.Kind == token.CHAR {
			s, err := strconv.Unquote(e.Value)
			if err != nil || len(s) != 1 {
				return 0, unsup("char literal %s", e.Value)
			}
			return int(s[0]), nil
		}
	case *ast.Ident:
		if e.Name == "iota" {
			return iota, nil
		}
		if v, ok := p.vars[e.Name]; ok {
			return p.constInt(v, iota)
		}
	case *ast.BinaryExpr:
		a, err := p.constInt(e.X, iota)
		if err != nil {
			return 0, err
		}
		b, err := p.constInt(e.Y, iota)
		if err != nil {
			return 0, err
		}
		switch e.Op {
		case token.ADD:
			return a + b, nil
		case token.SUB:
			return a - b, nil
		case token.MUL:
			return a * b, nil
		}
	case *ast.ParenExpr:
		return p.constInt(e.X, iota)
	}
	return 0, unsup("not a constant int: %T", e)
}

func (p *pkgSrc) constString(e ast.Expr) (string, error) {
	switch e := e.(type) {
	case *iotaExpr:
		return p.constString(e.e)
	case *ast.BasicLit:
		if e.Kind == token.STRING {
			return strconv.Unquote(e.Value)
		}
	case *ast.Ident:
		if v, ok := p.vars[e.Name]; ok {
			return p.constString(v)
		}
	case *ast.BinaryExpr:
		if e.Op == token.ADD {
			a, err := p.constString(e.X)
			if err != nil {
				return "", err
			}
			b, err := p.constString(e.Y)
			return a + b, err
		}
	}
	return "", unsup("not a constant string: %T", e)
}

func leanBytes(b []byte) string {
	parts := make([]string, len(b))
	for i, x := range b {
		parts[i] = strconv.Itoa(int(x))
	}
	return "([" + strings.Join(parts, ", ") + "] : Bytes)"
}

// paramKind tells the translator how a Go parameter is represented in Lean.
type paramKind int

const (
	kBytes  paramKind = iota // string / []byte / sdk.AccAddress  -> Bytes
	kU64                     // uint64 / int64                    -> Nat
	kEnum                    // an enum with a String() table     -> named Lean inductive
	kTime                    // time.Time (UTC calendar fields)    -> TimeF
)

type paramSpec struct {
	kind     paramKind
	leanType string // for kEnum
	strFn    string // Lean function giving x.String() as Bytes (kEnum)
}

type fnSpec struct {
	goName   string
	leanName string
	params   []paramSpec // by position; must match the Go parameter list length
	recv     *paramSpec  // not used yet
}

type bytesTranslator struct {
	p     *pkgSrc
	specs map[string]*fnSpec // by Go name
	// enumCases maps Go enum constant identifiers to Lean constructor names
	enumCases map[string]string
	notes     []string
}

type env map[string]paramSpec // locals and params in scope (locals are kBytes unless noted)

// expr translates a Go expression of []byte/string type to a Lean term of type Bytes.
func (t *bytesTranslator) expr(e ast.Expr, en env) (string, error) {
	switch e := e.(type) {
	case *ast.ParenExpr:
		return t.expr(e.X, en)
	case *ast.BasicLit:
		if e.Kind == token.STRING {
			s, err := strconv.Unquote(e.Value)
			if err != nil {
				return "", err
			}
			return leanBytes([]byte(s)), nil
		}
	case *ast.Ident:
		if ps, ok := en[e.Name]; ok {
			if ps.kind == kEnum {
				// only well-typed in Go as a %s argument: formatted through its String() method
				return "(" + ps.strFn + " " + lid(e.Name) + ")", nil
			}
			if ps.kind != kBytes {
				return "", unsup("identifier %s is not a byte string", e.Name)
			}
			return lid(e.Name), nil
		}
		if v, ok := t.p.vars[e.Name]; ok {
			return t.expr(v, env{})
		}
		return "", unsup("unknown identifier %s", e.Name)
	case *iotaExpr:
		return t.expr(e.e, en)
	case *ast.CompositeLit:
		// []byte{a, b, ...}
		if at, ok := e.Type.(*ast.ArrayType); ok {
			if id, ok := at.Elt.(*ast.Ident); ok && id.Name == "byte" && at.Len == nil {
				var bs []byte
				for _, el := range e.Elts {
					v, err := t.p.constInt(el, 0)
					if err != nil {
						return "", err
					}
					if v < 0 || v > 255 {
						return "", unsup("byte out of range")
					}
					bs = append(bs, byte(v))
				}
				return leanBytes(bs), nil
			}
		}
	case *ast.CallExpr:
		// conversions []byte(x), string(x)
		if at, ok := e.Fun.(*ast.ArrayType); ok && len(e.Args) == 1 {
			if id, ok := at.Elt.(*ast.Ident); ok && id.Name == "byte" {
				return t.expr(e.Args[0], en)
			}
		}
		if id, ok := e.Fun.(*ast.Ident); ok {
			switch id.Name {
			case "string":
				if len(e.Args) == 1 {
					return t.expr(e.Args[0], en)
				}
			case "append":
				if len(e.Args) == 2 && e.Ellipsis.IsValid() {
					a, err := t.expr(e.Args[0], en)
					if err != nil {
						return "", err
					}
					b, err := t.expr(e.Args[1], en)
					if err != nil {
						return "", err
					}
					return "(" + a + " ++ " + b + ")", nil
				}
				return "", unsup("append without ellipsis")
			}
			if spec, ok := t.specs[id.Name]; ok {
				return t.call(spec, e.Args, en)
			}
			return "", unsup("call to untranslated function %s", id.Name)
		}
		if sel, ok := e.Fun.(*ast.SelectorExpr); ok {
			full := selName(sel)
			switch full {
			case "sdk.Uint64ToBigEndian":
				n, err := t.num(e.Args[0], en)
				if err != nil {
					return "", err
				}
				return "(be64 " + n + ")", nil
			case "sdk.FormatTimeBytes":
				// sdk.FormatTimeBytes(t) = t.UTC().Round(0).Format(SortableTimeFormat): `Keys.fmtTime`
				// (library function, differentially validated by the `tfmt` op of the C19 run)
				if len(e.Args) != 1 {
					return "", unsup("FormatTimeBytes arity")
				}
				x, err := t.timeArg(e.Args[0], en)
				if err != nil {
					return "", err
				}
				return "(fmtTime " + x + ")", nil
			case "utils.EncodeTimeToKey":
				// make+copy idiom, pinned by its statement listing (encodeTimeToKeyListing)
				if len(e.Args) != 2 {
					return "", unsup("EncodeTimeToKey arity")
				}
				a, err := t.expr(e.Args[0], en)
				if err != nil {
					return "", err
				}
				x, err := t.timeArg(e.Args[1], en)
				if err != nil {
					return "", err
				}
				return "(encodeTimeToKey " + a + " " + x + ")", nil
			case "fmt.Sprintf":
				f, err := t.p.constString(e.Args[0])
				if err != nil {
					return "", err
				}
				if strings.Trim(f, "%s") != "" || len(f) != 2*(len(e.Args)-1) {
					return "", unsup("Sprintf format %q", f)
				}
				var parts []string
				for _, a := range e.Args[1:] {
					x, err := t.expr(a, en)
					if err != nil {
						return "", err
					}
					parts = append(parts, x)
				}
				return "(" + strings.Join(parts, " ++ ") + ")", nil
			}
			// x.Bytes() on a byte-string parameter (sdk.AccAddress.Bytes() is the identity conversion)
			if sel.Sel.Name == "Bytes" && len(e.Args) == 0 {
				if id, ok := sel.X.(*ast.Ident); ok {
					if ps, ok := en[id.Name]; ok && ps.kind == kBytes {
						return lid(id.Name), nil
					}
				}
			}
			// x.String() on an enum parameter
			if sel.Sel.Name == "String" && len(e.Args) == 0 {
				if id, ok := sel.X.(*ast.Ident); ok {
					if ps, ok := en[id.Name]; ok && ps.kind == kEnum {
						return "(" + ps.strFn + " " + lid(id.Name) + ")", nil
					}
				}
			}
			return "", unsup("call %s", full)
		}
	}
	return "", unsup("expression %T", e)
}

// timeArg: a time.Time parameter passed on unchanged.
func (t *bytesTranslator) timeArg(e ast.Expr, en env) (string, error) {
	if id, ok := e.(*ast.Ident); ok {
		if ps, ok := en[id.Name]; ok && ps.kind == kTime {
			return lid(id.Name), nil
		}
	}
	return "", unsup("time argument %T", e)
}

func selName(s *ast.SelectorExpr) string {
	if id, ok := s.X.(*ast.Ident); ok {
		return id.Name + "." + s.Sel.Name
	}
	return "?." + s.Sel.Name
}

// num translates an integer expression to a Lean Nat term (uint64 semantics made explicit).
func (t *bytesTranslator) num(e ast.Expr, en env) (string, error) {
	switch e := e.(type) {
	case *ast.ParenExpr:
		return t.num(e.X, en)
	case *ast.BasicLit:
		if e.Kind == token.INT {
			return e.Value, nil
		}
	case *ast.Ident:
		if ps, ok := en[e.Name]; ok && ps.kind == kU64 {
			return lid(e.Name), nil
		}
		return "", unsup("numeric identifier %s", e.Name)
	case *ast.SelectorExpr:
		if selName(e) == "math.MaxUint64" {
			return "(2 ^ 64 - 1)", nil
		}
	case *ast.CallExpr:
		if id, ok := e.Fun.(*ast.Ident); ok && (id.Name == "uint64" || id.Name == "int64") && len(e.Args) == 1 {
			return t.num(e.Args[0], en)
		}
	case *ast.BinaryExpr:
		a, err := t.num(e.X, en)
		if err != nil {
			return "", err
		}
		b, err := t.num(e.Y, en)
		if err != nil {
			return "", err
		}
		if e.Op == token.ADD {
			return "((" + a + " + " + b + ") % 2 ^ 64)", nil
		}
	}
	return "", unsup("numeric expression %T", e)
}

func (t *bytesTranslator) call(spec *fnSpec, args []ast.Expr, en env) (string, error) {
	if len(args) != len(spec.params) {
		return "", unsup("arity of %s", spec.goName)
	}
	out := "(" + spec.leanName
	for i, a := range args {
		switch spec.params[i].kind {
		case kBytes:
			x, err := t.expr(a, en)
			if err != nil {
				return "", err
			}
			out += " " + x
		case kU64:
			x, err := t.num(a, en)
			if err != nil {
				return "", err
			}
			out += " " + x
		case kTime:
			x, err := t.timeArg(a, en)
			if err != nil {
				return "", err
			}
			out += " " + x
		case kEnum:
			id, ok := a.(*ast.Ident)
			if !ok {
				if sel, ok2 := a.(*ast.SelectorExpr); ok2 {
					if c, ok3 := t.enumCases[sel.Sel.Name]; ok3 {
						out += " " + c
						continue
					}
				}
				return "", unsup("enum argument %T", a)
			}
			if c, ok := t.enumCases[id.Name]; ok {
				out += " " + c
			} else {
				out += " " + lid(id.Name)
			}
		}
	}
	return out + ")", nil
}

// body translates a function body (sequence of :=, =, switch-assign/return, return) into a Lean term.
func (t *bytesTranslator) body(stmts []ast.Stmt, en env) (string, error) {
	if len(stmts) == 0 {
		return "", unsup("function falls off the end")
	}
	s := stmts[0]
	rest := stmts[1:]
	switch s := s.(type) {
	case *ast.ReturnStmt:
		if len(s.Results) == 0 {
			return "", unsup("naked return")
		}
		// (value) or (value, nil)
		if len(s.Results) == 2 {
			if id, ok := s.Results[1].(*ast.Ident); !ok || id.Name != "nil" {
				return "", unsup("error return")
			}
		}
		return t.expr(s.Results[0], en)
	case *ast.AssignStmt:
		if len(s.Lhs) != 1 || len(s.Rhs) != 1 {
			return "", unsup("multi-assign")
		}
		id, ok := s.Lhs[0].(*ast.Ident)
		if !ok {
			return "", unsup("assign to non-identifier")
		}
		// hBz := make([]byte, 8) followed by binary.BigEndian.PutUint64(hBz, x)
		if call, ok := s.Rhs[0].(*ast.CallExpr); ok {
			if f, ok := call.Fun.(*ast.Ident); ok && f.Name == "make" && len(rest) > 0 {
				if es, ok := rest[0].(*ast.ExprStmt); ok {
					if c2, ok := es.X.(*ast.CallExpr); ok {
						if sel, ok := c2.Fun.(*ast.SelectorExpr); ok && sel.Sel.Name == "PutUint64" && len(c2.Args) == 2 {
							// the byte order is part of the key: binary.BigEndian -> be64, binary.LittleEndian -> le64
							enc := ""
							switch selName(sel) {
							case "BigEndian.PutUint64":
								enc = "be64"
							case "LittleEndian.PutUint64":
								enc = "le64"
							}
							if bo, ok := sel.X.(*ast.SelectorExpr); ok {
								switch bo.Sel.Name {
								case "BigEndian":
									enc = "be64"
								case "LittleEndian":
									enc = "le64"
								}
							}
							if enc == "" {
								return "", unsup("PutUint64 with unknown byte order")
							}
							if a0, ok := c2.Args[0].(*ast.Ident); ok && a0.Name == id.Name {
								n, err := t.num(c2.Args[1], en)
								if err != nil {
									return "", err
								}
								en2 := copyEnv(en)
								en2[id.Name] = paramSpec{kind: kBytes}
								k, err := t.body(rest[1:], en2)
								if err != nil {
									return "", err
								}
								return fmt.Sprintf("let %s : Bytes := %s %s\n  %s", lid(id.Name), enc, n, k), nil
							}
						}
					}
				}
			}
		}
		x, err := t.expr(s.Rhs[0], en)
		if err != nil {
			return "", err
		}
		en2 := copyEnv(en)
		en2[id.Name] = paramSpec{kind: kBytes}
		k, err := t.body(rest, en2)
		if err != nil {
			return "", err
		}
		return fmt.Sprintf("let %s : Bytes := %s\n  %s", lid(id.Name), x, k), nil
	case *ast.DeclStmt:
		// var prefix []byte  — followed by a switch assigning it
		gd, ok := s.Decl.(*ast.GenDecl)
		if !ok || len(gd.Specs) != 1 {
			return "", unsup("decl")
		}
		vs := gd.Specs[0].(*ast.ValueSpec)
		if len(vs.Names) != 1 || len(vs.Values) != 0 {
			return "", unsup("decl with value")
		}
		name := vs.Names[0].Name
		if len(rest) == 0 {
			return "", unsup("decl at end")
		}
		sw, ok := rest[0].(*ast.SwitchStmt)
		if !ok {
			// `var key []byte` followed by `key = append(key, …)`: the nil slice is the empty byte string
			if at, isArr := vs.Type.(*ast.ArrayType); isArr && at.Len == nil {
				if el, isId := at.Elt.(*ast.Ident); isId && el.Name == "byte" {
					en2 := copyEnv(en)
					en2[name] = paramSpec{kind: kBytes}
					k, err := t.body(rest, en2)
					if err != nil {
						return "", err
					}
					return fmt.Sprintf("let %s : Bytes := []\n  %s", lid(name), k), nil
				}
			}
			return "", unsup("decl not followed by switch")
		}
		m, err := t.switchExpr(sw, en, func(body []ast.Stmt) (string, error) {
			if len(body) != 1 {
				return "", unsup("switch case body")
			}
			as, ok := body[0].(*ast.AssignStmt)
			if !ok || len(as.Lhs) != 1 {
				return "", unsup("switch case body")
			}
			if l, ok := as.Lhs[0].(*ast.Ident); !ok || l.Name != name {
				return "", unsup("switch assigns other variable")
			}
			return t.expr(as.Rhs[0], en)
		})
		if err != nil {
			return "", err
		}
		en2 := copyEnv(en)
		en2[name] = paramSpec{kind: kBytes}
		k, err := t.body(rest[1:], en2)
		if err != nil {
			return "", err
		}
		return fmt.Sprintf("let %s : Bytes := %s\n  %s", lid(name), m, k), nil
	case *ast.SwitchStmt:
		if len(rest) != 0 {
			return "", unsup("statements after returning switch")
		}
		return t.switchExpr(s, en, func(body []ast.Stmt) (string, error) { return t.body(body, en) })
	}
	return "", unsup("statement %T", s)
}

// switchExpr: `switch x { case A: … case B: … default: panic/return err }` over an enum parameter.
func (t *bytesTranslator) switchExpr(sw *ast.SwitchStmt, en env, arm func([]ast.Stmt) (string, error)) (string, error) {
	tag, ok := sw.Tag.(*ast.Ident)
	if !ok || sw.Init != nil {
		return "", unsup("switch tag")
	}
	ps, ok := en[tag.Name]
	if !ok || ps.kind != kEnum {
		return "", unsup("switch over non-enum %s", tag.Name)
	}
	out := "(match " + lid(tag.Name) + " with"
	for _, c := range sw.Body.List {
		cc := c.(*ast.CaseClause)
		if cc.List == nil {
			// default: accepted only if it cannot produce a value (panic / error return): the Lean
			// enum has exactly the listed constructors, so the default is unreachable in the model.
			if !defaultIsAbort(cc.Body) {
				return "", unsup("default case yields a value")
			}
			t.notes = append(t.notes, "switch default on "+tag.Name+" aborts (panic/error): outside the model's enum domain")
			continue
		}
		for _, ce := range cc.List {
			var name string
			switch x := ce.(type) {
			case *ast.Ident:
				name = x.Name
			case *ast.SelectorExpr:
				name = x.Sel.Name
			default:
				return "", unsup("case expr")
			}
			ctor, ok := t.enumCases[name]
			if !ok {
				return "", unsup("unknown enum case %s", name)
			}
			v, err := arm(cc.Body)
			if err != nil {
				return "", err
			}
			out += "\n    | " + ctor + " => " + v
		}
	}
	return out + ")", nil
}

func defaultIsAbort(body []ast.Stmt) bool {
	if len(body) != 1 {
		return false
	}
	switch s := body[0].(type) {
	case *ast.ExprStmt:
		if c, ok := s.X.(*ast.CallExpr); ok {
			if id, ok := c.Fun.(*ast.Ident); ok && id.Name == "panic" {
				return true
			}
		}
	case *ast.ReturnStmt:
		if len(s.Results) == 2 {
			if id, ok := s.Results[0].(*ast.Ident); ok && id.Name == "nil" {
				return true
			}
		}
	}
	return false
}

func copyEnv(e env) env {
	n := env{}
	for k, v := range e {
		n[k] = v
	}
	return n
}

func leanParamType(ps paramSpec) string {
	switch ps.kind {
	case kBytes:
		return "Bytes"
	case kU64:
		return "Nat"
	case kTime:
		return "TimeF"
	default:
		return ps.leanType
	}
}

// fn translates one function; on an unsupported construct it emits an `opaque` constant instead.
func (t *bytesTranslator) fn(spec *fnSpec) string {
	d := t.p.funcs[spec.goName]
	sig := ""
	if d == nil {
		t.notes = append(t.notes, spec.goName+": function not found in source")
		for i, ps := range spec.params {
			sig += fmt.Sprintf(" (a%d : %s)", i, leanParamType(ps))
		}
		return fmt.Sprintf("opaque %s%s : Bytes\n", spec.leanName, sig)
	}
	en := env{}
	var names []string
	for _, f := range d.Type.Params.List {
		for _, n := range f.Names {
			names = append(names, n.Name)
		}
	}
	if len(names) != len(spec.params) {
		t.notes = append(t.notes, spec.goName+": parameter list changed")
		for i, ps := range spec.params {
			sig += fmt.Sprintf(" (a%d : %s)", i, leanParamType(ps))
		}
		return fmt.Sprintf("opaque %s%s : Bytes\n", spec.leanName, sig)
	}
	for i, n := range names {
		en[n] = spec.params[i]
		sig += fmt.Sprintf(" (%s : %s)", lid(n), leanParamType(spec.params[i]))
	}
	body, err := t.body(d.Body.List, en)
	if err != nil {
		t.notes = append(t.notes, spec.goName+": outside the translated subset: "+err.Error())
		return fmt.Sprintf("opaque %s%s : Bytes\n", spec.leanName, sig)
	}
	return fmt.Sprintf("/-- translated from `%s` -/\ndef %s%s : Bytes :=\n  %s\n", spec.goName, spec.leanName, sig, body)
}

// enumNameTable reads `var <X>_name = map[int32]string{...}` from a generated .pb.go file.
func enumNameTable(p *pkgSrc, varName string) (map[int]string, error) {
	v, ok := p.vars[varName]
	if !ok {
		return nil, fmt.Errorf("%s not found", varName)
	}
	ie := v.(*iotaExpr)
	cl, ok := ie.e.(*ast.CompositeLit)
	if !ok {
		return nil, fmt.Errorf("%s not a composite literal", varName)
	}
	out := map[int]string{}
	for _, el := range cl.Elts {
		kv := el.(*ast.KeyValueExpr)
		var k int
		switch kk := kv.Key.(type) {
		case *ast.BasicLit:
			x, _ := strconv.Atoi(kk.Value)
			k = x
		case *ast.UnaryExpr:
			x, _ := strconv.Atoi(kk.X.(*ast.BasicLit).Value)
			k = -x
		}
		s, _ := strconv.Unquote(kv.Value.(*ast.BasicLit).Value)
		out[k] = s
	}
	return out, nil
}

func sortedKeys(m map[int]string) []int {
	var ks []int
	for k := range m {
		ks = append(ks, k)
	}
	sort.Ints(ks)
	return ks
}

// lid makes a Go identifier safe as a Lean identifier.
func lid(s string) string {
	switch s {
	case "prefix", "end", "from", "at", "open", "in", "then", "else", "fun", "do", "if", "let", "have", "show", "match", "with", "by", "where", "local", "namespace", "section", "variable", "theorem", "def", "instance", "structure", "class", "infix", "postfix", "notation", "macro", "syntax", "mutual", "private", "protected", "partial", "unsafe", "universe", "export", "import", "deriving", "extends", "abbrev", "axiom", "opaque", "example", "inductive", "Type", "Prop", "Sort", "using", "at_", "calc", "from_", "return", "for", "unless", "try", "catch", "finally", "mut", "nomatch", "nofun", "suffices", "obtain", "set_option", "attribute", "noncomputable", "termination_by", "decreasing_by":
		return s + "_"
	}
	return s
}
