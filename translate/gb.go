package main

// Gen/GB.lean — tie 1 for M-GB (Model/GB.lean; C10): regenerated on every check from
// x/rollapp/genesisbridge, x/rollapp/types (genesis info, genesis bridge data and its validator), the
// rollapp keeper functions that seal / launch a rollapp and the x/sequencer, x/iro entry points the
// model mirrors.
//
//   * real translations (Lemmas/GenEqGB.lean proves them equal to the model's definitions):
//       validateAgainstHub        the ordered equality checks checksum, bech32 prefix, native denom, initial
//                                 supply, accounts
//       compareGenesisAccounts    length + every hub account occurs in the data
//       requiresTransfer, genesisTransferAmount      `0 < len(accounts)`, the sum of the account amounts
//       validateGenesisTransfer   required / unexpected / receiver = HubRecipient / amount = sum
//       validate                  GenesisBridgeValidator.Validate: the three stages in order
//       launchable, iroReady      GenesisInfo.Launchable / IROReady
//       isTransferEnabled, transferAllowed     the guard of ICS4Wrapper.SendPacket on outgoing transfers
//       hubRecipient              the constant
//   * statement skeletons (skel.go) of every function the model mirrors step by step.

import (
	"fmt"
	"go/ast"
	"go/token"
	"path/filepath"
	"strconv"
	"strings"
)

// foldSum: `acc := math.ZeroInt(); for _, a := range L { acc = acc.Add(a.F) }; return acc`
func foldSum(t *guardTr, goName, leanName, binders, typ string) string {
	fail := func(msg string) string {
		t.notes = append(t.notes, goName+": "+msg)
		return fmt.Sprintf("opaque %s : %s\n", leanName, typ)
	}
	fn := t.p.funcs[goName]
	if fn == nil || fn.Body == nil || len(fn.Body.List) != 3 {
		return fail("not `acc := zero; for …; return acc`")
	}
	init, ok := fn.Body.List[0].(*ast.AssignStmt)
	loop, ok2 := fn.Body.List[1].(*ast.RangeStmt)
	ret, ok3 := fn.Body.List[2].(*ast.ReturnStmt)
	if !ok || !ok2 || !ok3 || len(init.Lhs) != 1 || len(init.Rhs) != 1 || len(ret.Results) != 1 || loop.Value == nil || len(loop.Body.List) != 1 {
		return fail("statement forms")
	}
	acc := exprText(t.p.fset, init.Lhs[0])
	if exprText(t.p.fset, init.Rhs[0]) != "math.ZeroInt()" || exprText(t.p.fset, ret.Results[0]) != acc {
		return fail("accumulator does not start at zero / is not what is returned")
	}
	step, ok := loop.Body.List[0].(*ast.AssignStmt)
	if !ok || step.Tok != token.ASSIGN || len(step.Lhs) != 1 || len(step.Rhs) != 1 || exprText(t.p.fset, step.Lhs[0]) != acc {
		return fail("loop body is not an update of the accumulator")
	}
	call, ok := step.Rhs[0].(*ast.CallExpr)
	if !ok || len(call.Args) != 1 || exprText(t.p.fset, call.Fun) != acc+".Add" {
		return fail("the update is not acc.Add(x)")
	}
	l, err := t.ex(loop.X)
	if err != nil {
		return fail("outside the translated subset: " + err.Error())
	}
	x, err := t.ex(call.Args[0])
	if err != nil {
		return fail("outside the translated subset: " + err.Error())
	}
	return fmt.Sprintf("/-- translated from `%s` -/\ndef %s %s : Int :=\n  %s.foldl (fun %s %s => %s + %s) 0\n", goName, leanName, binders,
		l, lid(acc), lid(exprText(t.p.fset, loop.Value)), lid(acc), x)
}

// transferAllowedDef checks the exact shape of ICS4Wrapper.transferAllowed and renders it over the
// outcome of GetRollappByPortChan: `.error true` = ErrRollappNotFound, `.error false` = any other error,
// `.ok tph` = the rollapp's TransferProofHeight
func transferAllowedDef(p *pkgSrc, notes *[]string) string {
	fail := func(msg string) string {
		*notes = append(*notes, "ICS4Wrapper.transferAllowed: "+msg)
		return "opaque transferAllowed : Except Bool Nat → Bool\n"
	}
	fn := p.funcs["ICS4Wrapper.transferAllowed"]
	if fn == nil || fn.Body == nil || len(fn.Body.List) != 4 {
		return fail("not the four statements lookup / error branch / enabled guard / return nil")
	}
	as, ok := fn.Body.List[0].(*ast.AssignStmt)
	if !ok || len(as.Rhs) != 1 || !strings.HasSuffix(exprText(p.fset, as.Rhs[0].(ast.Node)), "GetRollappByPortChan(ctx, sourcePort, sourceChannel)") ||
		len(as.Lhs) != 2 || exprText(p.fset, as.Lhs[0]) != "ra" {
		return fail("first statement is not `ra, err := ….GetRollappByPortChan(ctx, sourcePort, sourceChannel)`")
	}
	eb, ok := fn.Body.List[1].(*ast.IfStmt)
	if !ok || !isErrNeNil(eb.Cond) || eb.Else != nil || len(eb.Body.List) != 2 {
		return fail("error branch form")
	}
	nf, ok := eb.Body.List[0].(*ast.IfStmt)
	if !ok || nf.Else != nil || exprText(p.fset, nf.Cond) != "errorsmod.IsOf(err, types.ErrRollappNotFound)" || len(nf.Body.List) != 1 {
		return fail("error branch does not start with the ErrRollappNotFound test")
	}
	if last, isRet := lastResult(nf.Body.List[0]); !isRet || !isNilIdent(last) {
		return fail("ErrRollappNotFound is not answered with nil")
	}
	if last, isRet := lastResult(eb.Body.List[1]); !isRet || isNilIdent(last) {
		return fail("other lookup errors are not returned")
	}
	g, ok := fn.Body.List[2].(*ast.IfStmt)
	if !ok || g.Else != nil || g.Init != nil || exprText(p.fset, g.Cond) != "!ra.GenesisState.IsTransferEnabled()" || len(g.Body.List) != 1 {
		return fail("third statement is not `if !ra.GenesisState.IsTransferEnabled()`")
	}
	if last, isRet := lastResult(g.Body.List[0]); !isRet || isNilIdent(last) {
		return fail("disabled transfers are not refused")
	}
	if last, isRet := lastResult(fn.Body.List[3]); !isRet || !isNilIdent(last) {
		return fail("does not end with return nil")
	}
	return "/-- `ICS4Wrapper.transferAllowed` over the outcome of GetRollappByPortChan (`.error true` = ErrRollappNotFound,\n" +
		"    `.ok tph` = the rollapp's TransferProofHeight); true = the transfer may be sent -/\n" +
		"def transferAllowed : Except Bool Nat → Bool\n  | .error notFound => notFound\n  | .ok tph => isTransferEnabled tph\n"
}

func genGB(repo string) (src string, notes []string, err error) {
	// unexpected code must never crash the translator: a panic becomes a translator error (a broken tie)
	defer func() {
		if r := recover(); r != nil {
			src, err = "", fmt.Errorf("genGB: internal error: %v", r)
		}
	}()
	var b strings.Builder
	b.WriteString("import DymVerif.Model.GB\nnamespace DymVerif.Gen.GB\nopen DymVerif\n\n")
	b.WriteString("/-- the amount string of an ICS-20 transfer as a number, when it is the canonical decimal rendering of one\n" +
		"    (`math.Int.String()` yields exactly those) -/\n" +
		"def amountOf (t : GB.FT) : Option Int := if t.canon then some t.amt else none\n\n")

	ty := loadSome(&notes, filepath.Join(repo, "x/rollapp/types/genesis_info.go"), filepath.Join(repo, "x/rollapp/types/genesis_bridge_data.go"),
		filepath.Join(repo, "x/rollapp/types/genesis_bridge_data_validator.go"), filepath.Join(repo, "x/rollapp/types/rollapp.go"),
		filepath.Join(repo, "x/rollapp/types/message_create_rollapp.go"))
	gb := loadDirSome(&notes, filepath.Join(repo, "x/rollapp/genesisbridge"))
	rk := loadSome(&notes, filepath.Join(repo, "x/rollapp/keeper/rollapp.go"), filepath.Join(repo, "x/rollapp/keeper/msg_server_update_rollapp.go"),
		filepath.Join(repo, "x/rollapp/keeper/msg_server_create_rollapp.go"), filepath.Join(repo, "x/rollapp/keeper/authenticate_packet.go"))
	sq := loadSome(&notes, filepath.Join(repo, "x/sequencer/keeper/msg_server_create.go"))
	iro := loadSome(&notes, filepath.Join(repo, "x/iro/keeper/create_plan.go"), filepath.Join(repo, "x/iro/keeper/settle.go"))

	b.WriteString("/-! ### translated checks -/\n\n")
	if e, ok := ty.vars["HubRecipient"]; ok {
		if s, err := ty.constString(e); err == nil {
			fmt.Fprintf(&b, "/-- `HubRecipient` (genesis_bridge_data_validator.go) -/\ndef hubRecipient : String := %s\n\n", strconv.Quote(s))
		} else {
			notes = append(notes, "HubRecipient is not a string constant")
			b.WriteString("opaque hubRecipient : String\n\n")
		}
	} else {
		notes = append(notes, "HubRecipient not found")
		b.WriteString("opaque hubRecipient : String\n\n")
	}

	fields := map[string]string{"GenesisChecksum": "checksum", "Bech32Prefix": "pfx", "NativeDenom": "denom", "InitialSupply": "supply",
		"Accounts": "accounts", "Address": "addr", "Amount": "amt"}
	t := &guardTr{p: ty, fields: fields, funcs: map[string]string{"compareGenesisAccounts": "compareGenesisAccounts"}}

	t.leaves = map[string]string{"s.TransferProofHeight": "tph"}
	b.WriteString(t.exprFn("RollappGenesisState.IsTransferEnabled", "isTransferEnabled", "(tph : Nat)", "Nat → Bool", "Bool") + "\n")
	t.leaves = map[string]string{"gi": "g", `""`: "0", "gi.InitialSupply.IsNil()": "g.supply.isNone"}
	b.WriteString(t.exprFn("GenesisInfo.Launchable", "launchable", "(g : GB.GInfo)", "GB.GInfo → Bool", "Bool") + "\n")
	t.leaves = map[string]string{"gi.Launchable()": "(launchable g)", "gi.NativeDenom.IsSet()": "g.denom.isSet"}
	b.WriteString(t.exprFn("GenesisInfo.IROReady", "iroReady", "(g : GB.GInfo)", "GB.GInfo → Bool", "Bool") + "\n")
	t.leaves = map[string]string{"gi": "hub"}
	b.WriteString(t.exprFn("GenesisInfo.RequiresTransfer", "requiresTransfer", "(hub : GB.GInfo)", "GB.GInfo → Bool", "Bool") + "\n")
	b.WriteString(foldSum(t, "GenesisInfo.GenesisTransferAmount", "genesisTransferAmount", "(hub : GB.GInfo)", "GB.GInfo → Int") + "\n")

	t.leaves = map[string]string{}
	b.WriteString(t.guardFn("compareGenesisAccounts", "compareGenesisAccounts", "(raCommitted gbData : List GB.Acc)",
		"List GB.Acc → List GB.Acc → Option Unit", "Unit", []string{"()", "()"}) + "\n")
	t.leaves = map[string]string{"rollapp": "d"}
	b.WriteString(t.guardFn("validateAgainstHub", "validateAgainstHub", "(d hub : GB.GInfo)",
		"GB.GInfo → GB.GInfo → Option GB.RErr", "GB.RErr", []string{".checksum", ".pfx", ".denom", ".supply", ".accounts"}) + "\n")
	t.leaves = map[string]string{
		"v.rollapp.GenesisTransfer":     "tr",
		"v.hub.RequiresTransfer()":      "(requiresTransfer hub)",
		"HubRecipient":                  "0",
		"gTransfer.Receiver":            "gTransfer.recv",
		"v.hub.GenesisTransferAmount()": "(genesisTransferAmount hub)",
		"expectedAmount.String()":       "(some expectedAmount : Option Int)",
		"gTransfer.Amount":              "(amountOf gTransfer)",
	}
	b.WriteString(t.guardFn("GenesisBridgeValidator.validateGenesisTransfer", "validateGenesisTransfer", "(tr : Option GB.FT) (hub : GB.GInfo)",
		"Option GB.FT → GB.GInfo → Option GB.RErr", "GB.RErr", []string{".trRequired", ".trUnexpected", ".trReceiver", ".trAmount"}) + "\n")
	t.leaves = map[string]string{
		"v.rollapp.ValidateBasic()":                        "(GB.GBData.vb d)",
		"validateAgainstHub(v.rollapp.GenesisInfo, v.hub)": "(validateAgainstHub d.gi hub)",
		"v.validateGenesisTransfer()":                      "(validateGenesisTransfer d.tr hub)",
	}
	b.WriteString(t.guardFn("GenesisBridgeValidator.Validate", "validate", "(d : GB.GBData) (hub : GB.GInfo)",
		"GB.GBData → GB.GInfo → Option GB.RErr", "GB.RErr", []string{"=", "=", "="}) + "\n")
	notes = append(notes, t.notes...)
	b.WriteString(transferAllowedDef(gb, &notes) + "\n")

	b.WriteString("/-! ### statement skeletons -/\n\n")
	cfg := skelCfg{}
	// the order of the transfer stack: the genesis bridge is the outermost module, delayedack next
	emitSkeletons(&b, &notes, loadSome(&notes, filepath.Join(repo, "app/transfer_stack.go")), "app/transfer_stack.go", cfg, []skelFn{
		{"AppKeepers.InitTransferStack", "initTransferStack"},
	})
	emitSkeletons(&b, &notes, gb, "x/rollapp/genesisbridge", cfg, []skelFn{
		{"IBCModule.OnRecvPacket", "onRecvPacket"},
		{"IBCModule.EnableTransfers", "enableTransfers"},
		{"ICS4Wrapper.SendPacket", "sendPacket"},
		{"ICS4Wrapper.transferAllowed", "transferAllowedSk"},
	})
	emitSkeletons(&b, &notes, ty, "x/rollapp/types", cfg, []skelFn{
		{"GenesisInfo.Accounts", "giAccounts"},
		{"GenesisInfo.RequiresTransfer", "giRequiresTransfer"},
		{"GenesisInfo.GenesisTransferAmount", "giGenesisTransferAmount"},
		{"GenesisInfo.Launchable", "giLaunchable"},
		{"GenesisInfo.IROReady", "giIROReady"},
		{"GenesisInfo.ValidateBasic", "giValidateBasic"},
		{"GenesisAccount.ValidateBasic", "genesisAccountValidateBasic"},
		{"DenomMetadata.IsSet", "denomMetadataIsSet"},
		{"DenomMetadata.Validate", "denomMetadataValidate"},
		{"GenesisBridgeData.ValidateBasic", "gbdValidateBasic"},
		{"GenesisBridgeData.IBCDenom", "gbdIBCDenom"},
		{"GenesisBridgeData.GenesisAccPackets", "gbdGenesisAccPackets"},
		{"GenesisBridgeInfo.Accounts", "gbiAccounts"},
		{"GenesisBridgeInfo.ValidateBasic", "gbiValidateBasic"},
		{"NewGenesisBridgeValidator", "newGenesisBridgeValidator"},
		{"GenesisBridgeValidator.Validate", "validatorValidate"},
		{"validateAgainstHub", "validateAgainstHubSk"},
		{"compareGenesisAccounts", "compareGenesisAccountsSk"},
		{"GenesisBridgeValidator.validateGenesisTransfer", "validateGenesisTransferSk"},
		{"Rollapp.IsTransferEnabled", "rollappIsTransferEnabled"},
		{"RollappGenesisState.IsTransferEnabled", "genesisStateIsTransferEnabled"},
		{"Rollapp.ValidateBasic", "rollappValidateBasic"},
		{"MsgCreateRollapp.GetRollapp", "msgCreateRollappGetRollapp"},
		{"MsgCreateRollapp.ValidateBasic", "msgCreateRollappValidateBasic"},
	})
	emitSkeletons(&b, &notes, rk, "x/rollapp/keeper", cfg, []skelFn{
		{"Keeper.GetRollappByPortChan", "getRollappByPortChan"},
		{"Keeper.CheckAndUpdateRollappFields", "checkAndUpdateRollappFields"},
		{"Keeper.SetRollappAsLaunched", "setRollappAsLaunched"},
		{"Keeper.SetIROPlanToRollapp", "setIROPlanToRollapp"},
		{"msgServer.UpdateRollappInformation", "msgUpdateRollappInformation"},
		{"Keeper.ForceGenesisInfoChange", "forceGenesisInfoChange"},
		{"msgServer.CreateRollapp", "msgCreateRollapp"},
	})
	emitSkeletons(&b, &notes, sq, "x/sequencer/keeper/msg_server_create.go", cfg, []skelFn{
		{"msgServer.CreateSequencer", "msgCreateSequencer"},
	})
	emitSkeletons(&b, &notes, iro, "x/iro/keeper", cfg, []skelFn{
		{"msgServer.CreatePlan", "msgCreatePlan"},
		{"Keeper.CreatePlan", "createPlan"},
		{"Keeper.AfterTransfersEnabled", "afterTransfersEnabled"},
		{"Keeper.Settle", "settle"},
	})
	b.WriteString("end DymVerif.Gen.GB\n")
	return b.String(), notes, nil
}
