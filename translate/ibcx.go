package main

// Generator "IBC": regenerated facts the C09 / C10 models depend on.
//   * constants of the genesis bridge (account limit, checksum length, hub recipient, IRO minimum allocation)
//   * the ante chain: which message types RejectMessagesDecorator blocks at depth >= 1 / >= 0
//     (app/ante/cosmos_handler.go) and which message types IBCMessagesDecorator handles
//     (x/lightclient/keeper/ibc_msgs.go)
//   * the shape of IsCanonicalClientParamsValid: what its two `range` loops iterate over and whether a
//     length comparison occurs (x/lightclient/types/params.go), the expected upgrade path
// Anything that does not have the expected shape is an error (the tie is reported broken).

import (
	"fmt"
	"go/ast"
	"go/token"
	"path/filepath"
	"strconv"
	"strings"
)

func ibcExprText(e ast.Expr) string {
	switch e := e.(type) {
	case *ast.Ident:
		return e.Name
	case *ast.SelectorExpr:
		return ibcExprText(e.X) + "." + e.Sel.Name
	case *ast.StarExpr:
		return ibcExprText(e.X)
	case *ast.UnaryExpr:
		return ibcExprText(e.X)
	case *ast.CompositeLit:
		return ibcExprText(e.Type)
	case *ast.ParenExpr:
		return ibcExprText(e.X)
	}
	return "?"
}

func ibcStrList(xs []string) string {
	var q []string
	for _, x := range xs {
		q = append(q, strconv.Quote(x))
	}
	return "[" + strings.Join(q, ", ") + "]"
}

func genIBC(repo string) (string, []string, error) {
	var b strings.Builder
	var notes []string
	b.WriteString("namespace DymVerif.Gen.IBC\n\n")

	// ---- genesis bridge constants
	ra, err := loadFiles(filepath.Join(repo, "x/rollapp/types/genesis_info.go"), filepath.Join(repo, "x/rollapp/types/rollapp.go"),
		filepath.Join(repo, "x/rollapp/types/genesis_bridge_data_validator.go"))
	if err != nil {
		return "", nil, err
	}
	for _, c := range []struct{ goName, leanName string }{{"maxAllowedGenesisAccounts", "maxAllowedGenesisAccounts"}, {"maxGenesisChecksumLength", "maxGenesisChecksumLength"}} {
		e, ok := ra.vars[c.goName]
		if !ok {
			return "", nil, fmt.Errorf("constant %s not found", c.goName)
		}
		v, err := ra.constInt(e, 0)
		if err != nil {
			return "", nil, fmt.Errorf("%s: %v", c.goName, err)
		}
		fmt.Fprintf(&b, "def %s : Nat := %d\n", c.leanName, v)
	}
	if e, ok := ra.vars["HubRecipient"]; ok {
		s, err := ra.constString(e)
		if err != nil {
			return "", nil, fmt.Errorf("HubRecipient: %v", err)
		}
		fmt.Fprintf(&b, "def hubRecipient : String := %s\n", strconv.Quote(s))
	} else {
		return "", nil, fmt.Errorf("HubRecipient not found")
	}
	iro, err := loadFiles(filepath.Join(repo, "x/iro/types/plan.go"))
	if err != nil {
		return "", nil, err
	}
	if e, ok := iro.vars["MinTokenAllocation"]; ok {
		// math.LegacyNewDec(<int>)
		var inner ast.Expr = e
		if ie, ok := e.(*iotaExpr); ok {
			inner = ie.e
		}
		call, ok := inner.(*ast.CallExpr)
		if !ok || ibcExprText(call.Fun) != "math.LegacyNewDec" || len(call.Args) != 1 {
			return "", nil, fmt.Errorf("MinTokenAllocation is not math.LegacyNewDec(n)")
		}
		lit, ok := call.Args[0].(*ast.BasicLit)
		if !ok || lit.Kind != token.INT {
			return "", nil, fmt.Errorf("MinTokenAllocation argument is not an integer literal")
		}
		fmt.Fprintf(&b, "def minTokenAllocation : Nat := %s\n", lit.Value)
	} else {
		return "", nil, fmt.Errorf("MinTokenAllocation not found")
	}

	// ---- ante chain: BlockTypeUrls(depth, sdk.MsgTypeURL(&T{})...)
	an, err := loadFiles(filepath.Join(repo, "app/ante/cosmos_handler.go"))
	if err != nil {
		return "", nil, err
	}
	blocked := map[int][]string{}
	found := false
	for _, f := range an.files {
		ast.Inspect(f, func(n ast.Node) bool {
			call, ok := n.(*ast.CallExpr)
			if !ok || ibcExprText(call.Fun) != "BlockTypeUrls" || len(call.Args) < 1 {
				return true
			}
			lit, ok := call.Args[0].(*ast.BasicLit)
			if !ok {
				return true
			}
			depth, _ := strconv.Atoi(lit.Value)
			found = true
			for _, a := range call.Args[1:] {
				c, ok := a.(*ast.CallExpr)
				if !ok || ibcExprText(c.Fun) != "sdk.MsgTypeURL" || len(c.Args) != 1 {
					notes = append(notes, "BlockTypeUrls argument of unexpected shape")
					blocked[depth] = append(blocked[depth], "?")
					continue
				}
				blocked[depth] = append(blocked[depth], ibcExprText(c.Args[0]))
			}
			return true
		})
	}
	if !found {
		return "", nil, fmt.Errorf("no BlockTypeUrls call in cosmos_handler.go")
	}
	fmt.Fprintf(&b, "/-- message types refused at depth ≥ 1 (inside a wrapper) -/\ndef nestedBlocked : List String := %s\n", ibcStrList(blocked[1]))
	fmt.Fprintf(&b, "/-- message types refused at any depth -/\ndef alwaysBlocked : List String := %s\n", ibcStrList(blocked[0]))

	// ---- IBCMessagesDecorator: handled message types (top level only: it ranges over tx.GetMsgs())
	lc, err := loadFiles(filepath.Join(repo, "x/lightclient/keeper/ibc_msgs.go"))
	if err != nil {
		return "", nil, err
	}
	fn, ok := lc.funcs["IBCMessagesDecorator.AnteHandle"]
	if !ok {
		return "", nil, fmt.Errorf("IBCMessagesDecorator.AnteHandle not found")
	}
	var handled []string
	recurses := false
	ast.Inspect(fn.Body, func(n ast.Node) bool {
		switch n := n.(type) {
		case *ast.TypeSwitchStmt:
			for _, c := range n.Body.List {
				for _, t := range c.(*ast.CaseClause).List {
					handled = append(handled, ibcExprText(t))
				}
			}
		case *ast.CallExpr:
			if strings.Contains(ibcExprText(n.Fun), "GetMessages") || strings.Contains(ibcExprText(n.Fun), "GetMsgs") && ibcExprText(n.Fun) != "tx.GetMsgs" {
				recurses = true
			}
		}
		return true
	})
	fmt.Fprintf(&b, "/-- message types IBCMessagesDecorator looks at -/\ndef anteHandled : List String := %s\n", ibcStrList(handled))
	fmt.Fprintf(&b, "/-- does it look inside wrapper messages? -/\ndef anteHandlesNested : Bool := %v\n", recurses)
	// ---- checkedMsgsTravelWithIBCOnly: called by AnteHandle before its loop; which message types trigger it, which type URL prefix is allowed
	mixedFirst := false
	if len(fn.Body.List) > 1 {
		for _, st := range fn.Body.List {
			if _, isRange := st.(*ast.RangeStmt); isRange {
				break
			}
			ast.Inspect(st, func(n ast.Node) bool {
				if c, ok := n.(*ast.CallExpr); ok && ibcExprText(c.Fun) == "checkedMsgsTravelWithIBCOnly" {
					mixedFirst = true
				}
				return true
			})
		}
	}
	var mixedTypes, mixedLits []string
	if mf, ok := lc.funcs["checkedMsgsTravelWithIBCOnly"]; ok {
		ast.Inspect(mf.Body, func(n ast.Node) bool {
			switch n := n.(type) {
			case *ast.TypeSwitchStmt:
				for _, c := range n.Body.List {
					for _, t := range c.(*ast.CaseClause).List {
						mixedTypes = append(mixedTypes, ibcExprText(t))
					}
				}
			case *ast.CallExpr:
				if ibcExprText(n.Fun) == "strings.HasPrefix" && len(n.Args) == 2 {
					if lit, ok := n.Args[1].(*ast.BasicLit); ok {
						mixedLits = append(mixedLits, strings.Trim(lit.Value, "\""))
					}
				}
			}
			return true
		})
	}
	fmt.Fprintf(&b, "/-- AnteHandle calls checkedMsgsTravelWithIBCOnly before it looks at any message -/\ndef anteRefusesMixedFirst : Bool := %v\n", mixedFirst)
	fmt.Fprintf(&b, "/-- the message types that must travel with ibc core messages only -/\ndef mixedCheckedTypes : List String := %s\n", ibcStrList(mixedTypes))
	fmt.Fprintf(&b, "/-- the type URL prefixes a companion message may have -/\ndef mixedAllowedPrefixes : List String := %s\n", ibcStrList(mixedLits))

	// ---- IsCanonicalClientParamsValid
	pr, err := loadFiles(filepath.Join(repo, "x/lightclient/types/params.go"))
	if err != nil {
		return "", nil, err
	}
	fn, ok = pr.funcs["IsCanonicalClientParamsValid"]
	if !ok {
		return "", nil, fmt.Errorf("IsCanonicalClientParamsValid not found")
	}
	var ranges []string
	lenCmp := false
	ast.Inspect(fn.Body, func(n ast.Node) bool {
		switch n := n.(type) {
		case *ast.RangeStmt:
			ranges = append(ranges, ibcExprText(n.X))
		case *ast.CallExpr:
			if ibcExprText(n.Fun) == "len" {
				lenCmp = true
			}
		}
		return true
	})
	fmt.Fprintf(&b, "/-- what the loops of IsCanonicalClientParamsValid range over -/\ndef paramsLoopsOver : List String := %s\n", ibcStrList(ranges))
	fmt.Fprintf(&b, "def paramsComparesLengths : Bool := %v\n", lenCmp)
	// expected upgrade path literal in ExpectedCanonicalClientParams
	fn, ok = pr.funcs["ExpectedCanonicalClientParams"]
	if !ok {
		return "", nil, fmt.Errorf("ExpectedCanonicalClientParams not found")
	}
	var path []string
	ast.Inspect(fn.Body, func(n ast.Node) bool {
		kv, ok := n.(*ast.KeyValueExpr)
		if !ok || ibcExprText(kv.Key) != "UpgradePath" {
			return true
		}
		if cl, ok := kv.Value.(*ast.CompositeLit); ok {
			for _, e := range cl.Elts {
				if l, ok := e.(*ast.BasicLit); ok && l.Kind == token.STRING {
					s, _ := strconv.Unquote(l.Value)
					path = append(path, s)
				}
			}
		}
		return true
	})
	fmt.Fprintf(&b, "def expectedUpgradePath : List String := %s\n", ibcStrList(path))
	// ---- three more shapes of x/lightclient the model depends on
	calls := func(files []string, fn, callee string) (bool, error) {
		ps, err := loadFiles(files...)
		if err != nil {
			return false, err
		}
		f, ok := ps.funcs[fn]
		if !ok {
			return false, fmt.Errorf("%s not found", fn)
		}
		found := false
		ast.Inspect(f.Body, func(n ast.Node) bool {
			switch n := n.(type) {
			case *ast.CallExpr:
				if strings.HasSuffix(ibcExprText(n.Fun), callee) {
					found = true
				}
			case *ast.SelectorExpr:
				if ibcExprText(n) == callee {
					found = true
				}
			}
			return true
		})
		return found, nil
	}
	kdir := filepath.Join(repo, "x/lightclient/keeper")
	v, err := calls([]string{filepath.Join(kdir, "client_store.go")}, "Keeper.GetFirstConsensusStateHeight", "IterateConsensusStateAscending")
	if err != nil {
		return "", nil, err
	}
	fmt.Fprintf(&b, "/-- GetFirstConsensusStateHeight walks the numerically ordered iteration keys -/\ndef firstConsHeightNumeric : Bool := %v\n", v)
	v, err = calls([]string{filepath.Join(kdir, "rollback.go")}, "Keeper.ResolveHardFork", "NextSequencerForHeight")
	if err != nil {
		return "", nil, err
	}
	fmt.Fprintf(&b, "/-- ResolveHardFork takes the next validators from StateInfo.NextSequencerForHeight -/\ndef resolveUsesNextSequencer : Bool := %v\n", v)
	v, err = calls([]string{filepath.Join(kdir, "ibc_msg_update_client.go")}, "IBCMessagesDecorator.HandleMsgUpdateClient", "seq.RollappId")
	if err != nil {
		return "", nil, err
	}
	fmt.Fprintf(&b, "/-- HandleMsgUpdateClient looks at the rollapp of the named sequencer -/\ndef updateChecksSequencerRollapp : Bool := %v\n", v)
	v, err = calls([]string{filepath.Join(kdir, "ibc_msg_update_client.go")}, "IBCMessagesDecorator.HandleMsgUpdateClient", "header.Header.ValidatorsHash")
	if err != nil {
		return "", nil, err
	}
	fmt.Fprintf(&b, "/-- HandleMsgUpdateClient compares the header's validator set hash -/\ndef updateChecksValidatorSet : Bool := %v\n", v)
	b.WriteString("\nend DymVerif.Gen.IBC\n")
	return b.String(), notes, nil
}
