package main

// Mini-translator for straight-line unsigned-integer Go functions into Lean definitions over Nat.
// Accepted: parameters / locals of integer type, `:=`, `=`, `+=`, `if c { assignments }` (no else),
// `return [expr]` (naked return with a named result), + - * /, comparisons, uint64()/int64()
// conversions (identity: the Lean side states the non-negativity / no-overflow side conditions).

import (
	"fmt"
	"go/ast"
	"go/token"
	"strings"
)

type intTranslator struct {
	p     *pkgSrc
	notes []string
}

func (t *intTranslator) expr(e ast.Expr) (string, error) {
	switch e := e.(type) {
	case *ast.ParenExpr:
		x, err := t.expr(e.X)
		return "(" + x + ")", err
	case *ast.BasicLit:
		if e.Kind == token.INT {
			return e.Value, nil
		}
	case *ast.Ident:
		return lid(e.Name), nil
	case *ast.CallExpr:
		if id, ok := e.Fun.(*ast.Ident); ok && (id.Name == "uint64" || id.Name == "int64") && len(e.Args) == 1 {
			return t.expr(e.Args[0])
		}
	case *ast.BinaryExpr:
		a, err := t.expr(e.X)
		if err != nil {
			return "", err
		}
		b, err := t.expr(e.Y)
		if err != nil {
			return "", err
		}
		op := map[token.Token]string{token.ADD: "+", token.SUB: "-", token.MUL: "*", token.QUO: "/",
			token.LEQ: "≤", token.LSS: "<", token.GEQ: "≥", token.GTR: ">", token.EQL: "=", token.NEQ: "≠"}[e.Op]
		if op == "" {
			return "", unsup("operator %s", e.Op)
		}
		return "(" + a + " " + op + " " + b + ")", nil
	}
	return "", unsup("int expression %T", e)
}

func (t *intTranslator) stmts(ss []ast.Stmt, result string) (string, error) {
	if len(ss) == 0 {
		if result != "" {
			return lid(result), nil
		}
		return "", unsup("falls off the end")
	}
	rest := ss[1:]
	switch s := ss[0].(type) {
	case *ast.ReturnStmt:
		if len(s.Results) == 0 {
			if result == "" {
				return "", unsup("naked return without named result")
			}
			return lid(result), nil
		}
		if len(s.Results) != 1 {
			return "", unsup("multi-value return")
		}
		return t.expr(s.Results[0])
	case *ast.AssignStmt:
		if len(s.Lhs) != 1 || len(s.Rhs) != 1 {
			return "", unsup("multi-assign")
		}
		id, ok := s.Lhs[0].(*ast.Ident)
		if !ok {
			return "", unsup("assign target")
		}
		x, err := t.expr(s.Rhs[0])
		if err != nil {
			return "", err
		}
		switch s.Tok {
		case token.DEFINE, token.ASSIGN:
		case token.ADD_ASSIGN:
			x = "(" + lid(id.Name) + " + " + x + ")"
		default:
			return "", unsup("assign op %s", s.Tok)
		}
		k, err := t.stmts(rest, result)
		if err != nil {
			return "", err
		}
		return fmt.Sprintf("let %s := %s\n  %s", lid(id.Name), x, k), nil
	case *ast.IfStmt:
		if s.Else != nil || s.Init != nil {
			return "", unsup("if with else/init")
		}
		c, err := t.expr(s.Cond)
		if err != nil {
			return "", err
		}
		// body: assignments to existing variables only
		out := ""
		for _, b := range s.Body.List {
			as, ok := b.(*ast.AssignStmt)
			if !ok || len(as.Lhs) != 1 || as.Tok == token.DEFINE {
				return "", unsup("if body statement")
			}
			id, ok := as.Lhs[0].(*ast.Ident)
			if !ok {
				return "", unsup("if body target")
			}
			x, err := t.expr(as.Rhs[0])
			if err != nil {
				return "", err
			}
			if as.Tok == token.ADD_ASSIGN {
				x = "(" + lid(id.Name) + " + " + x + ")"
			} else if as.Tok != token.ASSIGN {
				return "", unsup("if body op")
			}
			out += fmt.Sprintf("let %s := if %s then %s else %s\n  ", lid(id.Name), c, x, lid(id.Name))
		}
		k, err := t.stmts(rest, result)
		if err != nil {
			return "", err
		}
		return out + k, nil
	}
	return "", unsup("statement %T", ss[0])
}

// fn translates `goName` (all parameters and the result are Nat) to a Lean def `leanName`.
func (t *intTranslator) fn(goName, leanName string) string {
	d := t.p.funcs[goName]
	if d == nil {
		t.notes = append(t.notes, goName+": function not found")
		return fmt.Sprintf("opaque %s : Nat → Nat\n", leanName)
	}
	var names []string
	for _, f := range d.Type.Params.List {
		for _, n := range f.Names {
			names = append(names, lid(n.Name))
		}
	}
	result := ""
	if d.Type.Results != nil && len(d.Type.Results.List) == 1 && len(d.Type.Results.List[0].Names) == 1 {
		result = d.Type.Results.List[0].Names[0].Name
	}
	sig := ""
	for _, n := range names {
		sig += fmt.Sprintf(" (%s : Nat)", n)
	}
	body, err := t.stmts(d.Body.List, result)
	if err != nil {
		t.notes = append(t.notes, goName+": outside the translated subset: "+err.Error())
		return fmt.Sprintf("opaque %s%s : Nat\n", leanName, sig)
	}
	if result != "" {
		// named results start at zero
		body = fmt.Sprintf("let %s := 0\n  %s", lid(result), body)
	}
	return fmt.Sprintf("/-- translated from `%s` (integers as Nat; conversions are identities) -/\ndef %s%s : Nat :=\n  %s\n", goName, leanName, sig, strings.TrimRight(body, " \n"))
}
