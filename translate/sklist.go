package main

// Gen/Sk<M>.lean — structured listings (skel.go `listing`: every statement in source order, normalised:
// comments, logging, events and the TEXT of error messages dropped) of EVERY function with a body in the
// files a property is anchored in, for the modules whose hand-written models so far were tied to the
// source by a handful of translated expressions only (x/dymns, x/incentives + x/streamer, x/sponsorship,
// the x/iro keeper, x/lockup beyond the flat skeletons).  Lemmas/GenEqSk<M>.lean states, per function,
// the listing the model was written against; a dropped guard, a reordered effect, a changed operand, a
// new early return or a function that disappears changes the generated list and the lemma stops
// checking (the check then goes to its search branch).
//
// One package per group (files of one Go package are loaded together so that method names are unique).

import (
	"fmt"
	"path/filepath"
	"sort"
	"strings"
)

type skGroup struct {
	prefix string // Lean name prefix for this package's functions
	files  []string
}

// skOnly: "<module>/<prefix>" -> only these functions of the group's files (the others are boilerplate
// unrelated to the property)
var skOnly = map[string][]string{
	"Blocks/app": {"App.PreBlocker", "App.BeginBlocker", "App.EndBlocker", "App.InitChainer"},
	"Blocks/ra":  {"AppModule.EndBlock"},
	"Blocks/sq":  {"AppModule.BeginBlock"},
	"Blocks/str": {"AppModule.EndBlock"},
	"Blocks/lk":  {"AppModule.EndBlock", "EndBlocker"},
	"Det/ms":     {"msgServer.TryFulfillOnDemand"},
	"Det/str":    {"Keeper.UpdateDistrRecords"},
	"Det/hf":     {"mapKeysToSlice"},
	"Det/lk":     {"Keeper.InitializeAllLocks"},
	"Det/rra":    {"ReverseResolvedDymNameAddress.String", "ReverseResolvedDymNameAddresses.Sort", "ReverseResolvedDymNameAddresses.Distinct"},
	"Det/mod":    {"ModuleAccountAddrs"},
}

type skModule struct {
	name   string // Gen file / namespace: Sk<name>
	groups []skGroup
}

var skModules = []skModule{
	{"DymNS", []skGroup{
		{"k", []string{
			"x/dymns/keeper/dym_name.go", "x/dymns/keeper/dym_name_reverse_lookup.go", "x/dymns/keeper/alias.go",
			"x/dymns/keeper/sell_order.go", "x/dymns/keeper/sell_order_name.go", "x/dymns/keeper/sell_order_alias.go",
			"x/dymns/keeper/buy_order.go", "x/dymns/keeper/buy_order_reverse_lookup.go", "x/dymns/keeper/refund.go",
			"x/dymns/keeper/msg_server_register_name.go", "x/dymns/keeper/msg_server_purchase_order.go",
			"x/dymns/keeper/msg_server_place_buy_order.go", "x/dymns/keeper/msg_server_accept_buy_order.go",
			"x/dymns/keeper/msg_server_cancel_buy_order.go", "x/dymns/keeper/msg_server_complete_sell_order.go",
			"x/dymns/keeper/msg_server_transfer_ownership.go", "x/dymns/keeper/hooks.go",
			"x/dymns/keeper/msg_server_register_alias.go", "x/dymns/keeper/msg_server_place_sell_order.go",
			"x/dymns/keeper/msg_server_cancel_sell_order.go", "x/dymns/keeper/msg_server_set_controller.go",
			"x/dymns/keeper/msg_server_update_resolve_address.go", "x/dymns/keeper/msg_server_update_details.go",
			"x/dymns/keeper/generic_reverse_lookup.go",
		}},
		{"t", []string{"x/dymns/types/dym_name.go"}},
	}},
	{"Incent", []skGroup{
		{"inc", []string{
			"x/incentives/keeper/distribute.go", "x/incentives/keeper/gauge_asset.go", "x/incentives/keeper/gauge_rollapp.go",
			"x/incentives/keeper/gauge_endorsement.go", "x/incentives/keeper/gauge.go", "x/incentives/keeper/hooks.go",
		}},
		{"str", []string{
			"x/streamer/keeper/distribute.go", "x/streamer/keeper/stream.go", "x/streamer/keeper/hooks.go",
			"x/streamer/keeper/abci.go", "x/streamer/keeper/stream_iterator.go", "x/streamer/keeper/invariants.go",
		}},
	}},
	{"Spons", []skGroup{
		{"k", []string{
			"x/sponsorship/keeper/votes.go", "x/sponsorship/keeper/hooks_staking.go", "x/sponsorship/keeper/endorsements.go",
			"x/sponsorship/keeper/hook_epoch.go", "x/sponsorship/keeper/helpers.go", "x/sponsorship/keeper/invariants.go",
			"x/sponsorship/keeper/msg_server.go",
		}},
		{"t", []string{"x/sponsorship/types/types.go"}},
	}},
	{"Iro", []skGroup{
		{"k", []string{
			"x/iro/keeper/trade.go", "x/iro/keeper/create_plan.go", "x/iro/keeper/settle.go", "x/iro/keeper/claim.go",
			"x/iro/keeper/invariants.go", "x/iro/keeper/msg_server.go",
		}},
		{"t", []string{
			"x/iro/types/bonding_curve.go", "x/iro/types/liquidity.go", "x/iro/types/vesting.go", "x/iro/types/plan.go",
		}},
	}},
	// --- anchor functions of the M-Core / M-GB / ante properties that the older generators (Gen/Core,
	// Gen/GB, Gen/Guards) do not list: store accessors, invariants, proposal handlers, param updates
	{"CoreX", []skGroup{
		{"ra", []string{
			"x/rollapp/keeper/block_height_to_finalization_queue.go", "x/rollapp/keeper/invariants.go",
			"x/rollapp/keeper/latest_state_info_index.go", "x/rollapp/keeper/latest_finalized_state_index.go",
			"x/rollapp/keeper/grpc_query_state_info.go", "x/rollapp/keeper/liveness.go",
		}},
		{"rat", []string{"x/rollapp/types/liveness.go", "x/rollapp/types/state_info.go"}},
		{"sq", []string{
			"x/sequencer/keeper/invariants.go", "x/sequencer/keeper/get_and_set.go", "x/sequencer/keeper/msg_server_update.go",
			"x/sequencer/keeper/msg_server_update_reward_address.go", "x/sequencer/keeper/msg_server_update_whitelisted_relayers.go",
		}},
	}},
	{"Auth", []skGroup{
		{"sqp", []string{"x/sequencer/proposal_handler.go"}},
		{"sqk", []string{"x/sequencer/keeper/msg_server_update_params.go"}},
		{"strp", []string{"x/streamer/proposal_handler.go"}},
		{"dnp", []string{"x/dymns/proposal_handler.go"}},
		{"dnk", []string{"x/dymns/keeper/msg_server_update_params.go", "x/dymns/keeper/proposal.go"}},
		{"inc", []string{"x/incentives/keeper/msg_server.go"}},
		{"lc", []string{"x/lightclient/keeper/msg_server.go"}},
		{"rak", []string{
			"x/rollapp/keeper/msg_server_mark_obsolete_rollapps.go", "x/rollapp/keeper/msg_server_transfer_ownership.go",
			"x/rollapp/keeper/msg_server_update_rollapp.go", "x/rollapp/keeper/msg_server_app.go", "x/rollapp/keeper/fraud_proposal.go",
		}},
		{"ante", []string{"app/ante/ante.go", "app/ante/reject_msgs.go", "app/ante/cosmos_handler.go"}},
	}},
	{"GBX", []skGroup{
		{"ra", []string{"x/rollapp/keeper/rollapp.go"}},
		{"dm", []string{"x/denommetadata/keeper/keeper.go", "x/denommetadata/keeper/rollback.go"}},
	}},
	{"Det", []skGroup{
		{"cache", []string{"utils/cache/ordered.go"}},
		{"lps", []string{"x/eibc/keeper/lps.go"}},
		// the functions of the allow-listed consensus sites of C12 (loop, sort, and the caller that fills the PRNG seed)
		{"ms", []string{"x/eibc/keeper/msg_server.go"}},
		{"str", []string{"x/streamer/keeper/keeper_replace_update_distribution.go"}},
		{"hf", []string{"x/rollapp/keeper/hard_fork.go"}},
		{"lk", []string{"x/lockup/keeper/lock.go"}},
		{"dmap", []string{"x/dymns/utils/map.go"}},
		{"rra", []string{"x/dymns/types/reverse_resolved_dym_name_address.go"}},
		{"mod", []string{"app/modules.go"}},
	}},
	// --- identifiers handed out in events / messages (C19) and the order type's own methods (C05)
	{"EibcT", []skGroup{
		{"t", []string{"x/eibc/types/demand_order.go"}},
		{"da", []string{"x/delayedack/types/msgs.go", "x/delayedack/types/rollapp_packets_list_filter.go"}},
		{"cm", []string{"x/common/types/key_rollapp_packet.go"}},
	}},
	// --- the block-level entry points (C11): the application's blockers and the four custom modules' ABCI methods
	{"Blocks", []skGroup{
		{"app", []string{"app/app.go"}},
		{"ra", []string{"x/rollapp/module.go"}},
		{"sq", []string{"x/sequencer/module.go"}},
		{"str", []string{"x/streamer/module.go"}},
		{"lk", []string{"x/lockup/module.go", "x/lockup/abci.go"}},
		{"exp", []string{"app/export.go"}},
	}},
	{"Lockup", []skGroup{
		{"k", []string{
			"x/lockup/keeper/lock.go", "x/lockup/keeper/msg_server.go", "x/lockup/keeper/lock_refs.go",
			"x/lockup/keeper/store.go", "x/lockup/keeper/invariants.go",
		}},
		{"t", []string{"x/lockup/types/lock.go"}},
		{"m", []string{"x/lockup/abci.go"}},
	}},
}

func contains(xs []string, x string) bool {
	for _, y := range xs {
		if y == x {
			return true
		}
	}
	return false
}

func leanIdent(prefix, goName string) string {
	return prefix + "_" + strings.NewReplacer(".", "_", "*", "").Replace(goName)
}

func genSkModule(m skModule) func(repo string) (string, []string, error) {
	return func(repo string) (string, []string, error) {
		var notes []string
		var b strings.Builder
		fmt.Fprintf(&b, "namespace DymVerif.Gen.Sk%s\n\n", m.name)
		var index []string
		for _, g := range m.groups {
			var paths []string
			for _, f := range g.files {
				paths = append(paths, filepath.Join(repo, f))
			}
			p, err := loadFiles(paths...)
			if err != nil {
				// a file of the anchor list that no longer exists / parses: the tie cannot be regenerated
				notes = append(notes, fmt.Sprintf("group %s: %v", g.prefix, err))
				fmt.Fprintf(&b, "opaque %s_missing : List String\n\n", g.prefix)
				continue
			}
			var names []string
			only := skOnly[m.name+"/"+g.prefix]
			for n, fd := range p.funcs {
				if fd.Body != nil && (len(only) == 0 || contains(only, n)) {
					names = append(names, n)
				}
			}
			for _, n := range only { // a listed function that vanished is a fact, too
				if fd, ok := p.funcs[n]; !ok || fd.Body == nil {
					notes = append(notes, fmt.Sprintf("group %s: function %s not found", g.prefix, n))
					fmt.Fprintf(&b, "opaque %s : List String\n\n", leanIdent(g.prefix, n))
				}
			}
			sort.Strings(names)
			for _, n := range names {
				id := leanIdent(g.prefix, n)
				index = append(index, id)
				fmt.Fprintf(&b, "/-- %s -/\ndef %s : List String :=\n  %s\n\n", n, id, leanStrList(listing(p, p.funcs[n])))
			}
		}
		// the inventory itself is a fact: a function added to (or removed from) an anchor file shows here
		fmt.Fprintf(&b, "/-- every function with a body in the listed files, sorted per package -/\ndef inventory : List String :=\n  %s\n\n", leanStrList(index))
		fmt.Fprintf(&b, "end DymVerif.Gen.Sk%s\n", m.name)
		return b.String(), notes, nil
	}
}

func init() {
	for _, m := range skModules {
		generators = append(generators, generator{"Sk" + m.name, genSkModule(m)})
	}
}
