package main

// Function "skeletons" — two renderings of a Go function body as a `List String`, compared on the Lean
// side with the list the model was written against:
//
//   * skeletonRoots (flat; used by Gen/Lockup): the `if` conditions, the calls whose root identifier is
//     in `calls` and the field updates of the objects in `sets`, in source order;
//   * listing (structured; used by Gen/Core): every statement in source order, indented by nesting
//     depth, after normalisation.  Ignored: comments, logging, event emission, telemetry and the TEXT
//     of error messages (`errorsmod.Wrap(err, "…")` ↦ `err`, `gerrc.ErrX.Wrapf("…", a)` ↦ `gerrc.ErrX`,
//     `fmt.Errorf("…: %w", err)` ↦ `fmt.Errorf(err)`, `panic(fmt.Sprintf(…))` ↦ `panic()`).  Kept: every
//     `if` / `else` / `switch` / `for` / `range` header, every `return` (error sentinels by identifier),
//     every call with its arguments, every assignment.  A dropped guard, a reordered effect, a new
//     early return, a changed operand or a statement moved into or out of a branch changes the list.

import (
	"go/ast"
	"go/token"
	"strings"
)

// skelRoots configures the flat skeleton: root identifiers of interesting calls and of updated objects.
type skelRoots struct {
	calls map[string]bool
	sets  map[string]bool
}

func rootSet(names ...string) map[string]bool {
	m := map[string]bool{}
	for _, n := range names {
		m[n] = true
	}
	return m
}

func skeletonRoots(p *pkgSrc, fn *ast.FuncDecl, r skelRoots) []string {
	var out []string
	ast.Inspect(fn.Body, func(n ast.Node) bool {
		switch x := n.(type) {
		case *ast.IfStmt:
			out = append(out, "if "+exprText(p.fset, x.Cond))
		case *ast.AssignStmt:
			// field updates of the tracked objects: lock.EndTime = …, lock.Coins = …
			if len(x.Lhs) == 1 && len(x.Rhs) == 1 {
				if sel, ok := x.Lhs[0].(*ast.SelectorExpr); ok && r.sets[rootIdent(sel)] {
					out = append(out, "set "+exprText(p.fset, sel)+" = "+exprText(p.fset, x.Rhs[0]))
				}
			}
		case *ast.CallExpr:
			if sel, ok := x.Fun.(*ast.SelectorExpr); ok {
				if r.calls[rootIdent(sel)] {
					out = append(out, "call "+exprText(p.fset, sel))
				}
			}
		}
		return true
	})
	return out
}

// ---------------------------------------------------------------------------------- structured listing

type lister struct {
	p         *pkgSrc
	out       []string
	lits      []*ast.FuncLit // function literals met in the statement being rendered
	nlit      int
	skipErrIf bool // the previous statement was an ignored `err = <noise call>`: drop its `if err != nil`
}

const noiseName = "<noise>"

func lastName(e ast.Expr) string {
	switch x := e.(type) {
	case *ast.Ident:
		return x.Name
	case *ast.SelectorExpr:
		return x.Sel.Name
	case *ast.IndexExpr: // generic instantiation f[T]
		return lastName(x.X)
	}
	return ""
}

// isNoiseCall: logging, event emission, telemetry, context unwrapping.
func (l *lister) isNoiseCall(c *ast.CallExpr) bool {
	fun := exprText(l.p.fset, c.Fun)
	if strings.Contains(fun, "Logger(") || strings.Contains(fun, "EventManager(") {
		return true
	}
	switch rootIdent(c.Fun) {
	case "logger", "telemetry", "uevent":
		return true
	}
	switch lastName(c.Fun) {
	case "EmitEvent", "EmitEvents", "EmitTypedEvent", "EmitTypedEvents", "GetEvents", "UnwrapSDKContext", "Logger":
		return true
	}
	return false
}

func isStringLit(e ast.Expr) bool {
	b, ok := e.(*ast.BasicLit)
	return ok && b.Kind == token.STRING
}

func (l *lister) normList(es []ast.Expr) []ast.Expr {
	out := make([]ast.Expr, len(es))
	for i, e := range es {
		out[i] = l.norm(e)
	}
	return out
}

// norm returns a normalised copy of the expression (the source AST is never modified).
func (l *lister) norm(e ast.Expr) ast.Expr {
	switch x := e.(type) {
	case nil:
		return nil
	case *ast.CallExpr:
		if l.isNoiseCall(x) {
			return &ast.Ident{Name: noiseName}
		}
		if sel, ok := x.Fun.(*ast.SelectorExpr); ok {
			name := sel.Sel.Name
			root := exprText(l.p.fset, sel.X)
			if name == "Wrap" || name == "Wrapf" {
				if root == "errorsmod" || root == "errors" || root == "sdkerrors" {
					if len(x.Args) > 0 {
						return l.norm(x.Args[0])
					}
				} else {
					return l.norm(sel.X)
				}
			}
			if root == "fmt" && name == "Errorf" {
				var args []ast.Expr
				for _, a := range x.Args {
					if !isStringLit(a) {
						args = append(args, l.norm(a))
					}
				}
				return &ast.CallExpr{Fun: x.Fun, Args: args}
			}
		}
		if id, ok := x.Fun.(*ast.Ident); ok && id.Name == "panic" {
			if len(x.Args) == 1 {
				if _, isId := x.Args[0].(*ast.Ident); isId {
					return &ast.CallExpr{Fun: x.Fun, Args: x.Args}
				}
			}
			return &ast.CallExpr{Fun: x.Fun}
		}
		c := &ast.CallExpr{Fun: l.norm(x.Fun), Args: l.normList(x.Args)}
		if x.Ellipsis.IsValid() {
			c.Ellipsis = 1
		}
		return c
	case *ast.FuncLit:
		l.nlit++
		l.lits = append(l.lits, x)
		return &ast.Ident{Name: "func#" + itoa(l.nlit)}
	case *ast.BinaryExpr:
		return &ast.BinaryExpr{X: l.norm(x.X), Op: x.Op, Y: l.norm(x.Y)}
	case *ast.UnaryExpr:
		return &ast.UnaryExpr{Op: x.Op, X: l.norm(x.X)}
	case *ast.ParenExpr:
		return &ast.ParenExpr{X: l.norm(x.X)}
	case *ast.StarExpr:
		return &ast.StarExpr{X: l.norm(x.X)}
	case *ast.SelectorExpr:
		return &ast.SelectorExpr{X: l.norm(x.X), Sel: x.Sel}
	case *ast.IndexExpr:
		return &ast.IndexExpr{X: l.norm(x.X), Index: l.norm(x.Index)}
	case *ast.SliceExpr:
		return &ast.SliceExpr{X: l.norm(x.X), Low: l.norm(x.Low), High: l.norm(x.High), Max: l.norm(x.Max), Slice3: x.Slice3}
	case *ast.TypeAssertExpr:
		return &ast.TypeAssertExpr{X: l.norm(x.X), Type: x.Type}
	case *ast.KeyValueExpr:
		return &ast.KeyValueExpr{Key: x.Key, Value: l.norm(x.Value)}
	case *ast.CompositeLit:
		return &ast.CompositeLit{Type: x.Type, Elts: l.normList(x.Elts)}
	}
	return e
}

func itoa(n int) string {
	if n == 0 {
		return "0"
	}
	s := ""
	for n > 0 {
		s = string(rune('0'+n%10)) + s
		n /= 10
	}
	return s
}

func (l *lister) text(e ast.Expr) string { return exprText(l.p.fset, l.norm(e)) }

func (l *lister) texts(es []ast.Expr) string {
	ss := make([]string, len(es))
	for i, e := range es {
		ss[i] = l.text(e)
	}
	return strings.Join(ss, ", ")
}

// tidy removes the traces of multi-line formatting that survive whitespace squashing.
func tidy(s string) string {
	for _, r := range [][2]string{{"( ", "("}, {", )", ")"}, {"{ ", "{"}, {", }", "}"}, {" }", "}"}, {"[ ", "["}, {", ]", "]"}} {
		s = strings.ReplaceAll(s, r[0], r[1])
	}
	return s
}

func (l *lister) emit(d int, s string) {
	l.out = append(l.out, strings.Repeat("  ", d)+tidy(s))
	// bodies of the function literals of this line
	lits := l.lits
	l.lits = nil
	base := l.nlit - len(lits)
	for i, f := range lits {
		l.out = append(l.out, strings.Repeat("  ", d+1)+"func#"+itoa(base+i+1)+" "+tidy(strings.TrimPrefix(exprText(l.p.fset, f.Type), "func")))
		l.stmts(f.Body.List, d+2)
	}
}

func (l *lister) stmts(list []ast.Stmt, d int) {
	for _, s := range list {
		l.stmt(s, d)
	}
}

func mentionsErr(es []ast.Expr) bool {
	for _, e := range es {
		if id, ok := e.(*ast.Ident); ok && id.Name == "err" {
			return true
		}
	}
	return false
}

// noiseAssign: `… := <noise call>` / `… = <noise call>`
func (l *lister) noiseAssign(s ast.Stmt) (*ast.AssignStmt, bool) {
	as, ok := s.(*ast.AssignStmt)
	if !ok || len(as.Rhs) != 1 {
		return nil, false
	}
	c, ok := as.Rhs[0].(*ast.CallExpr)
	if !ok || !l.isNoiseCall(c) {
		return nil, false
	}
	return as, true
}

// header renders a for / range / switch header by printing the statement with an empty body.
func (l *lister) header(s ast.Stmt) string {
	t := exprText(l.p.fset, s)
	t = strings.TrimSpace(strings.TrimSuffix(strings.TrimSpace(t), "}"))
	t = strings.TrimSpace(strings.TrimSuffix(t, "{"))
	return t
}

func (l *lister) stmt(s ast.Stmt, d int) {
	skip := l.skipErrIf
	l.skipErrIf = false
	switch x := s.(type) {
	case nil:
	case *ast.ExprStmt:
		if c, ok := x.X.(*ast.CallExpr); ok && l.isNoiseCall(c) {
			return
		}
		l.emit(d, l.text(x.X))
	case *ast.AssignStmt:
		if as, ok := l.noiseAssign(x); ok {
			l.skipErrIf = mentionsErr(as.Lhs)
			return
		}
		lhs, rhs := l.texts(x.Lhs), l.texts(x.Rhs)
		if lhs == rhs { // `err = errorsmod.Wrap(err, "…")`
			l.lits = nil
			return
		}
		l.emit(d, lhs+" "+x.Tok.String()+" "+rhs)
	case *ast.IfStmt:
		cond := exprText(l.p.fset, x.Cond)
		if x.Init != nil {
			if _, ok := l.noiseAssign(x.Init); ok && cond == "err != nil" {
				return // `if err := <emit event>; err != nil { return … }`
			}
		} else if skip && cond == "err != nil" {
			return
		}
		if x.Init != nil {
			l.stmt(x.Init, d)
		}
		l.emit(d, "if "+l.text(x.Cond))
		l.stmts(x.Body.List, d+1)
		switch e := x.Else.(type) {
		case nil:
		case *ast.BlockStmt:
			l.emit(d, "else")
			l.stmts(e.List, d+1)
		default:
			l.emit(d, "else")
			l.stmt(e, d+1)
		}
	case *ast.ForStmt:
		l.emit(d, l.header(&ast.ForStmt{Init: x.Init, Cond: x.Cond, Post: x.Post, Body: &ast.BlockStmt{}}))
		l.stmts(x.Body.List, d+1)
	case *ast.RangeStmt:
		l.emit(d, l.header(&ast.RangeStmt{Key: x.Key, Value: x.Value, Tok: x.Tok, X: x.X, Body: &ast.BlockStmt{}}))
		l.stmts(x.Body.List, d+1)
	case *ast.ReturnStmt:
		if len(x.Results) == 0 {
			l.emit(d, "return")
		} else {
			l.emit(d, "return "+l.texts(x.Results))
		}
	case *ast.BranchStmt:
		t := x.Tok.String()
		if x.Label != nil {
			t += " " + x.Label.Name
		}
		l.emit(d, t)
	case *ast.IncDecStmt:
		l.emit(d, l.text(x.X)+x.Tok.String())
	case *ast.DeclStmt:
		gd, ok := x.Decl.(*ast.GenDecl)
		if !ok {
			l.emit(d, exprText(l.p.fset, x))
			return
		}
		for _, sp := range gd.Specs {
			vs, ok := sp.(*ast.ValueSpec)
			if !ok {
				l.emit(d, gd.Tok.String()+" "+exprText(l.p.fset, sp))
				continue
			}
			noise := len(vs.Values) > 0
			for _, v := range vs.Values {
				if c, ok := v.(*ast.CallExpr); !ok || !l.isNoiseCall(c) {
					noise = false
				}
			}
			if noise {
				continue
			}
			names := make([]string, len(vs.Names))
			for i, n := range vs.Names {
				names[i] = n.Name
			}
			t := gd.Tok.String() + " " + strings.Join(names, ", ")
			if vs.Type != nil {
				t += " " + exprText(l.p.fset, vs.Type)
			}
			if len(vs.Values) > 0 {
				t += " = " + l.texts(vs.Values)
			}
			l.emit(d, t)
		}
	case *ast.DeferStmt:
		l.emit(d, "defer "+l.text(x.Call))
	case *ast.GoStmt:
		l.emit(d, "go "+l.text(x.Call))
	case *ast.BlockStmt:
		l.stmts(x.List, d)
	case *ast.LabeledStmt:
		l.emit(d, x.Label.Name+":")
		l.stmt(x.Stmt, d)
	case *ast.SwitchStmt:
		if x.Init != nil {
			l.stmt(x.Init, d)
		}
		if x.Tag != nil {
			l.emit(d, "switch "+l.text(x.Tag))
		} else {
			l.emit(d, "switch")
		}
		l.clauses(x.Body, d)
	case *ast.TypeSwitchStmt:
		if x.Init != nil {
			l.stmt(x.Init, d)
		}
		l.emit(d, "switch "+exprText(l.p.fset, x.Assign))
		l.clauses(x.Body, d)
	default:
		l.emit(d, exprText(l.p.fset, s))
	}
}

func (l *lister) clauses(b *ast.BlockStmt, d int) {
	for _, c := range b.List {
		cc, ok := c.(*ast.CaseClause)
		if !ok {
			l.emit(d+1, exprText(l.p.fset, c))
			continue
		}
		if cc.List == nil {
			l.emit(d+1, "default")
		} else {
			l.emit(d+1, "case "+l.texts(cc.List))
		}
		l.stmts(cc.Body, d+2)
	}
}

// listing renders the function: its signature, then the normalised statements.
func listing(p *pkgSrc, fn *ast.FuncDecl) []string {
	l := &lister{p: p}
	sig := exprText(p.fset, &ast.FuncDecl{Recv: fn.Recv, Name: fn.Name, Type: fn.Type})
	l.out = append(l.out, tidy(sig))
	if fn.Body != nil {
		l.stmts(fn.Body.List, 1)
	}
	return l.out
}
