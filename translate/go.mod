module dymverif/translate

go 1.22
