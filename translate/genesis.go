package main

// Gen/Genesis.lean — regenerated facts about the genesis code of the custom modules (C18):
//
//   * for every InitGenesis / ExportGenesis of the property's anchor list (and the few keeper helpers
//     the Lean genesis models mirror directly) its *skeleton*: the ordered list of normalised
//     statements — calls with receiver.method and argument text, `range X as v {` … `}`, `if cond {`,
//     `switch x {` / `case …:`, assignments, `panic`, `return {` Field = value … `}` — with comments,
//     logging and the text of panic messages ignored.  Lemmas/GenEqGenesis.lean states the skeletons
//     the models were written against, so any edit of those functions breaks the tie;
//   * the *computed* pieces of InitGenesis as executable Lean definitions built from the statements:
//     the x/iro id-counter loop (a fold over the accumulator), the pending-by-address switch of
//     x/delayedack, the base64 encode / decode of the eibc tracking key, the comparison function of
//     x/streamer's sort, the distribution recomputation of x/sponsorship.  Anything outside the
//     accepted shapes is emitted as `opaque` with a note (the `Gen.f = Model.f` lemma then fails).
//
// Helper names in this file are prefixed gs… (other translate/*.go files share the package).

import (
	"fmt"
	"go/ast"
	"go/token"
	"path/filepath"
	"strings"
)

type gsCtx struct {
	p *pkgSrc
}

// gsIgnoredCall: logging and printing
func gsIgnoredCall(c *ast.CallExpr) bool {
	t := ""
	switch f := c.Fun.(type) {
	case *ast.SelectorExpr:
		t = rootIdent(f) + "." + f.Sel.Name
		// ctx.Logger().Info(...) and friends
		if inner, ok := f.X.(*ast.CallExpr); ok {
			if is, ok := inner.Fun.(*ast.SelectorExpr); ok && is.Sel.Name == "Logger" {
				return true
			}
		}
	case *ast.Ident:
		t = f.Name
	}
	return strings.HasPrefix(t, "log.") || strings.HasPrefix(t, "fmt.Print") || t == "println" || t == "print"
}

// gsExpr renders an expression; function literals are replaced by `func` (their bodies are emitted
// as nested skeleton lines by the caller)
func (g *gsCtx) gsExpr(e ast.Expr, lits *[]*ast.FuncLit) string {
	switch x := e.(type) {
	case *ast.FuncLit:
		*lits = append(*lits, x)
		return "func"
	case *ast.CallExpr:
		fn := g.gsExpr(x.Fun, lits)
		switch fn {
		case "fmt.Errorf", "fmt.Sprintf", "errors.New":
			return fn + "(…)" // message formatting is not part of the skeleton
		case "errorsmod.Wrap", "errorsmod.Wrapf":
			if len(x.Args) > 0 {
				return fn + "(" + g.gsExpr(x.Args[0], lits) + ", …)"
			}
		}
		var as []string
		for _, a := range x.Args {
			as = append(as, g.gsExpr(a, lits))
		}
		return fn + "(" + strings.Join(as, ", ") + ")"
	case *ast.ParenExpr:
		return "(" + g.gsExpr(x.X, lits) + ")"
	case *ast.UnaryExpr:
		return x.Op.String() + g.gsExpr(x.X, lits)
	case *ast.BinaryExpr:
		return g.gsExpr(x.X, lits) + " " + x.Op.String() + " " + g.gsExpr(x.Y, lits)
	case *ast.SelectorExpr:
		return g.gsExpr(x.X, lits) + "." + x.Sel.Name
	case *ast.StarExpr:
		return "*" + g.gsExpr(x.X, lits)
	}
	return exprText(g.p.fset, e)
}

func (g *gsCtx) gsLits(lits []*ast.FuncLit, out *[]string) {
	for _, l := range lits {
		*out = append(*out, "{")
		g.gsStmts(l.Body.List, out)
		*out = append(*out, "}")
	}
}

func gsIsPanic(e ast.Expr) bool {
	c, ok := e.(*ast.CallExpr)
	if !ok {
		return false
	}
	id, ok := c.Fun.(*ast.Ident)
	return ok && id.Name == "panic"
}

func (g *gsCtx) gsStmts(list []ast.Stmt, out *[]string) {
	for _, st := range list {
		g.gsStmt(st, out)
	}
}

func (g *gsCtx) gsStmt(st ast.Stmt, out *[]string) {
	var lits []*ast.FuncLit
	switch s := st.(type) {
	case *ast.ExprStmt:
		if gsIsPanic(s.X) {
			*out = append(*out, "panic")
			return
		}
		if c, ok := s.X.(*ast.CallExpr); ok {
			if gsIgnoredCall(c) {
				return
			}
			*out = append(*out, "call "+g.gsExpr(c, &lits))
			g.gsLits(lits, out)
			return
		}
		*out = append(*out, "expr "+g.gsExpr(s.X, &lits))
	case *ast.AssignStmt:
		var l, r []string
		for _, e := range s.Lhs {
			l = append(l, g.gsExpr(e, &lits))
		}
		for _, e := range s.Rhs {
			r = append(r, g.gsExpr(e, &lits))
		}
		*out = append(*out, strings.Join(l, ", ")+" "+s.Tok.String()+" "+strings.Join(r, ", "))
		g.gsLits(lits, out)
	case *ast.IncDecStmt:
		*out = append(*out, g.gsExpr(s.X, &lits)+s.Tok.String())
	case *ast.DeclStmt:
		if gd, ok := s.Decl.(*ast.GenDecl); ok {
			for _, sp := range gd.Specs {
				switch v := sp.(type) {
				case *ast.ValueSpec:
					var ns []string
					for _, n := range v.Names {
						ns = append(ns, n.Name)
					}
					line := gd.Tok.String() + " " + strings.Join(ns, ", ")
					if v.Type != nil {
						line += " " + exprText(g.p.fset, v.Type)
					}
					if len(v.Values) > 0 {
						var vs []string
						for _, e := range v.Values {
							vs = append(vs, g.gsExpr(e, &lits))
						}
						line += " = " + strings.Join(vs, ", ")
					}
					*out = append(*out, line)
				}
			}
		}
	case *ast.IfStmt:
		if s.Init != nil {
			g.gsStmt(s.Init, out)
		}
		*out = append(*out, "if "+g.gsExpr(s.Cond, &lits)+" {")
		g.gsStmts(s.Body.List, out)
		for s.Else != nil {
			switch e := s.Else.(type) {
			case *ast.IfStmt:
				if e.Init != nil {
					*out = append(*out, "} else {")
					g.gsStmt(e, out)
					*out = append(*out, "}")
					return
				}
				*out = append(*out, "} else if "+g.gsExpr(e.Cond, &lits)+" {")
				g.gsStmts(e.Body.List, out)
				s = e
				continue
			case *ast.BlockStmt:
				*out = append(*out, "} else {")
				g.gsStmts(e.List, out)
			}
			break
		}
		*out = append(*out, "}")
	case *ast.RangeStmt:
		line := "range " + g.gsExpr(s.X, &lits)
		if s.Key != nil || s.Value != nil {
			k, v := "_", "_"
			if s.Key != nil {
				k = exprText(g.p.fset, s.Key)
			}
			if s.Value != nil {
				v = exprText(g.p.fset, s.Value)
			}
			line += " as " + k + ", " + v
		}
		*out = append(*out, line+" {")
		g.gsStmts(s.Body.List, out)
		*out = append(*out, "}")
	case *ast.ForStmt:
		line := "for"
		if s.Cond != nil {
			line += " " + g.gsExpr(s.Cond, &lits)
		}
		*out = append(*out, line+" {")
		g.gsStmts(s.Body.List, out)
		*out = append(*out, "}")
	case *ast.SwitchStmt:
		line := "switch"
		if s.Tag != nil {
			line += " " + g.gsExpr(s.Tag, &lits)
		}
		*out = append(*out, line+" {")
		for _, c := range s.Body.List {
			cc := c.(*ast.CaseClause)
			if cc.List == nil {
				*out = append(*out, "default:")
			} else {
				var cs []string
				for _, e := range cc.List {
					cs = append(cs, g.gsExpr(e, &lits))
				}
				*out = append(*out, "case "+strings.Join(cs, ", ")+":")
			}
			g.gsStmts(cc.Body, out)
		}
		*out = append(*out, "}")
	case *ast.ReturnStmt:
		if len(s.Results) == 0 {
			*out = append(*out, "return")
			return
		}
		// the exported GenesisState literal: one line per field
		first := s.Results[0]
		if u, ok := first.(*ast.UnaryExpr); ok && u.Op == token.AND {
			first = u.X
		}
		if cl, ok := first.(*ast.CompositeLit); ok && len(cl.Elts) > 0 {
			*out = append(*out, "return "+exprText(g.p.fset, cl.Type)+" {")
			for _, el := range cl.Elts {
				if kv, ok := el.(*ast.KeyValueExpr); ok {
					*out = append(*out, exprText(g.p.fset, kv.Key)+" = "+g.gsExpr(kv.Value, &lits))
				} else {
					*out = append(*out, g.gsExpr(el, &lits))
				}
			}
			rest := ""
			for _, r := range s.Results[1:] {
				rest += ", " + g.gsExpr(r, &lits)
			}
			*out = append(*out, "}"+rest)
			return
		}
		var rs []string
		for _, r := range s.Results {
			rs = append(rs, g.gsExpr(r, &lits))
		}
		*out = append(*out, "return "+strings.Join(rs, ", "))
	case *ast.BranchStmt:
		*out = append(*out, s.Tok.String())
	case *ast.DeferStmt:
		*out = append(*out, "defer "+g.gsExpr(s.Call, &lits))
		g.gsLits(lits, out)
	case *ast.BlockStmt:
		g.gsStmts(s.List, out)
	default:
		*out = append(*out, fmt.Sprintf("stmt %T", st))
	}
}

func gsSkeleton(p *pkgSrc, fn *ast.FuncDecl) []string {
	g := &gsCtx{p: p}
	var out []string
	g.gsStmts(fn.Body.List, &out)
	return out
}

// ---------------------------------------------------------------- computed pieces

// gsLoopOver finds `for _, v := range <sel>` (sel rendered as text) at the top level of a function
func gsLoopOver(p *pkgSrc, fn *ast.FuncDecl, over string) *ast.RangeStmt {
	for _, st := range fn.Body.List {
		if r, ok := st.(*ast.RangeStmt); ok && exprText(p.fset, r.X) == over {
			return r
		}
	}
	return nil
}

func gsMentions(n ast.Node, name string) bool {
	found := false
	ast.Inspect(n, func(x ast.Node) bool {
		if id, ok := x.(*ast.Ident); ok && id.Name == name {
			found = true
		}
		return !found
	})
	return found
}

// gsAccExpr translates an expression over the accumulator and the fields of the loop variable.
// atoms: accumulator ident -> accLean; <loopVar>.<Field> -> fields[Field]; integer literals;
// uint64()/int64() conversions; comparison / + / -; method calls listed in `methods`.
type gsAcc struct {
	p       *pkgSrc
	acc     string            // Go name of the accumulator
	accLean string            // its Lean name
	loopVar string            // Go name of the range value
	fields  map[string]string // selector path under the loop variable (e.g. "Id", "Vote") -> Lean term
	methods map[string]string // Go method / function name -> Lean function (receiver first)
	consts  map[string]string // Go call text with no arguments -> Lean term
}

func (t *gsAcc) expr(e ast.Expr) (string, error) {
	switch x := e.(type) {
	case *ast.ParenExpr:
		s, err := t.expr(x.X)
		return "(" + s + ")", err
	case *ast.BasicLit:
		if x.Kind == token.INT {
			return x.Value, nil
		}
	case *ast.Ident:
		if x.Name == t.acc {
			return t.accLean, nil
		}
	case *ast.SelectorExpr:
		// path under the loop variable
		path := []string{x.Sel.Name}
		cur := x.X
		for {
			if s, ok := cur.(*ast.SelectorExpr); ok {
				path = append([]string{s.Sel.Name}, path...)
				cur = s.X
				continue
			}
			break
		}
		if id, ok := cur.(*ast.Ident); ok && id.Name == t.loopVar {
			if l, ok := t.fields[strings.Join(path, ".")]; ok {
				return l, nil
			}
		}
	case *ast.CallExpr:
		if id, ok := x.Fun.(*ast.Ident); ok && (id.Name == "uint64" || id.Name == "int64") && len(x.Args) == 1 {
			return t.expr(x.Args[0])
		}
		if len(x.Args) == 0 {
			if l, ok := t.consts[exprText(t.p.fset, x)]; ok {
				return l, nil
			}
		}
		if sel, ok := x.Fun.(*ast.SelectorExpr); ok {
			if l, ok := t.methods[sel.Sel.Name]; ok {
				recv, err := t.expr(sel.X)
				if err != nil {
					return "", err
				}
				args := []string{recv}
				for _, a := range x.Args {
					s, err := t.expr(a)
					if err != nil {
						return "", err
					}
					args = append(args, s)
				}
				return "(" + l + " " + strings.Join(args, " ") + ")", nil
			}
		}
	case *ast.BinaryExpr:
		a, err := t.expr(x.X)
		if err != nil {
			return "", err
		}
		b, err := t.expr(x.Y)
		if err != nil {
			return "", err
		}
		op := map[token.Token]string{token.ADD: "+", token.SUB: "-", token.LEQ: "≤", token.LSS: "<", token.GEQ: "≥",
			token.GTR: ">", token.EQL: "=", token.NEQ: "≠"}[x.Op]
		if op == "" {
			return "", unsup("operator %s", x.Op)
		}
		return a + " " + op + " " + b, nil
	}
	return "", unsup("expression `%s`", exprText(t.p.fset, e))
}

// body translates the statements of the loop body that touch the accumulator into a chain of lets
func (t *gsAcc) body(list []ast.Stmt) (string, error) {
	var lets []string
	for _, st := range list {
		if !gsMentions(st, t.acc) {
			continue // writes to the store, error handling of other calls …
		}
		switch s := st.(type) {
		case *ast.AssignStmt:
			if len(s.Lhs) != 1 || len(s.Rhs) != 1 || s.Tok != token.ASSIGN {
				return "", unsup("assignment shape `%s`", exprText(t.p.fset, s))
			}
			if id, ok := s.Lhs[0].(*ast.Ident); !ok || id.Name != t.acc {
				return "", unsup("the accumulator is read in `%s`", exprText(t.p.fset, s))
			}
			x, err := t.expr(s.Rhs[0])
			if err != nil {
				return "", err
			}
			lets = append(lets, fmt.Sprintf("let %s := %s", t.accLean, x))
		case *ast.IfStmt:
			if s.Else != nil || s.Init != nil {
				return "", unsup("if with else / init touching the accumulator")
			}
			c, err := t.expr(s.Cond)
			if err != nil {
				return "", err
			}
			for _, b := range s.Body.List {
				as, ok := b.(*ast.AssignStmt)
				if !ok || len(as.Lhs) != 1 || len(as.Rhs) != 1 || as.Tok != token.ASSIGN {
					return "", unsup("statement in the if body")
				}
				if id, ok := as.Lhs[0].(*ast.Ident); !ok || id.Name != t.acc {
					return "", unsup("if body assigns something else")
				}
				x, err := t.expr(as.Rhs[0])
				if err != nil {
					return "", err
				}
				lets = append(lets, fmt.Sprintf("let %s := if %s then %s else %s", t.accLean, c, x, t.accLean))
			}
		default:
			return "", unsup("statement %T touches the accumulator", st)
		}
	}
	if len(lets) == 0 {
		return "", unsup("the loop never updates the accumulator")
	}
	return strings.Join(lets, "\n    ") + "\n    " + t.accLean, nil
}

// gsInitOf finds `<name> := <expr>` at the top level of fn
func gsInitOf(fn *ast.FuncDecl, name string) ast.Expr {
	for _, st := range fn.Body.List {
		if as, ok := st.(*ast.AssignStmt); ok && as.Tok == token.DEFINE && len(as.Lhs) == 1 && len(as.Rhs) == 1 {
			if id, ok := as.Lhs[0].(*ast.Ident); ok && id.Name == name {
				return as.Rhs[0]
			}
		}
	}
	return nil
}

func gsIroCounter(p *pkgSrc, notes *[]string) string {
	fail := func(msg string) string {
		*notes = append(*notes, "iro InitGenesis id counter: "+msg)
		return "opaque iroInitLastPlanId : List Nat → Nat\n"
	}
	fn := p.funcs["InitGenesis"]
	if fn == nil {
		return fail("InitGenesis not found")
	}
	loop := gsLoopOver(p, fn, "genState.Plans")
	if loop == nil {
		return fail("no top-level loop over genState.Plans")
	}
	lv, ok := loop.Value.(*ast.Ident)
	if !ok {
		return fail("loop variable")
	}
	// the accumulator is what SetLastPlanId receives after the loop
	acc := ""
	ast.Inspect(fn.Body, func(n ast.Node) bool {
		if c, ok := n.(*ast.CallExpr); ok {
			if sel, ok := c.Fun.(*ast.SelectorExpr); ok && sel.Sel.Name == "SetLastPlanId" && len(c.Args) == 2 {
				if id, ok := c.Args[1].(*ast.Ident); ok {
					acc = id.Name
				}
			}
		}
		return true
	})
	if acc == "" {
		return fail("SetLastPlanId is not called with a local variable")
	}
	t := &gsAcc{p: p, acc: acc, accLean: "acc", loopVar: lv.Name, fields: map[string]string{"Id": "id"}}
	ie := gsInitOf(fn, acc)
	if ie == nil {
		return fail("no initial value of " + acc)
	}
	init, err := (&gsAcc{p: p, acc: "\x00", fields: map[string]string{}}).expr(ie)
	if err != nil {
		return fail("initial value: " + err.Error())
	}
	body, err := t.body(loop.Body.List)
	if err != nil {
		return fail(err.Error())
	}
	return fmt.Sprintf("/-- x/iro InitGenesis: the `%s` loop over genState.Plans (accumulator `acc`, `id` = plan.Id) -/\ndef iroInitLastPlanId (ids : List Nat) : Nat :=\n  ids.foldl (fun acc id =>\n    %s) %s\n", acc, body, init)
}

func gsSponsDist(p *pkgSrc, notes *[]string) string {
	fail := func(msg string) string {
		*notes = append(*notes, "sponsorship ImportGenesis distribution: "+msg)
		return "opaque sponsInitDist : List Spons.Vote → Spons.Dist\n"
	}
	fn := p.funcs["Keeper.ImportGenesis"]
	if fn == nil {
		return fail("Keeper.ImportGenesis not found")
	}
	loop := gsLoopOver(p, fn, "genState.VoterInfos")
	if loop == nil {
		return fail("no top-level loop over genState.VoterInfos")
	}
	lv, ok := loop.Value.(*ast.Ident)
	if !ok {
		return fail("loop variable")
	}
	acc := ""
	ast.Inspect(fn.Body, func(n ast.Node) bool {
		if c, ok := n.(*ast.CallExpr); ok {
			if sel, ok := c.Fun.(*ast.SelectorExpr); ok && sel.Sel.Name == "SaveDistribution" && len(c.Args) == 2 {
				if id, ok := c.Args[1].(*ast.Ident); ok {
					acc = id.Name
				}
			}
		}
		return true
	})
	if acc == "" {
		return fail("SaveDistribution is not called with a local variable")
	}
	ie := gsInitOf(fn, acc)
	if ie == nil || exprText(p.fset, ie) != "types.NewDistribution()" {
		return fail("the distribution does not start from types.NewDistribution()")
	}
	// NewDistribution must be the zero distribution
	nd := p.funcs["NewDistribution"]
	if nd == nil || strings.Join(gsSkeleton(p, nd), "|") != "return Distribution {|VotingPower = math.ZeroInt()|Gauges = make([]Gauge, 0)|}" {
		return fail("types.NewDistribution is not the zero distribution")
	}
	t := &gsAcc{p: p, acc: acc, accLean: "distr", loopVar: lv.Name, fields: map[string]string{"Vote": "vote"},
		methods: map[string]string{"Merge": "Spons.Dist.merge", "ToDistribution": "Spons.Vote.toDist"}}
	body, err := t.body(loop.Body.List)
	if err != nil {
		return fail(err.Error())
	}
	return fmt.Sprintf("/-- x/sponsorship ImportGenesis: the `%s` accumulation over genState.VoterInfos (`vote` = i.Vote) -/\ndef sponsInitDist (votes : List Spons.Vote) : Spons.Dist :=\n  votes.foldl (fun distr vote =>\n    %s) ⟨0, []⟩\n", acc, body)
}

// gsDaSwitch translates the `switch packet.Type` of delayedack InitGenesis
func gsDaSwitch(p *pkgSrc, notes *[]string) string {
	fail := func(msg string) string {
		*notes = append(*notes, "delayedack InitGenesis switch: "+msg)
		return "opaque daIndexAddr : Keys.PType → Bytes → Bytes → Option Bytes\n"
	}
	fn := p.funcs["InitGenesis"]
	if fn == nil {
		return fail("InitGenesis not found")
	}
	var sw *ast.SwitchStmt
	ast.Inspect(fn.Body, func(n ast.Node) bool {
		if s, ok := n.(*ast.SwitchStmt); ok && s.Tag != nil && exprText(p.fset, s.Tag) == "packet.Type" {
			sw = s
		}
		return true
	})
	if sw == nil {
		return fail("no switch on packet.Type")
	}
	ctor := map[string]string{"commontypes.RollappPacket_ON_RECV": ".onRecv", "commontypes.RollappPacket_ON_ACK": ".onAck",
		"commontypes.RollappPacket_ON_TIMEOUT": ".onTimeout", "commontypes.RollappPacket_UNDEFINED": ".undefined"}
	seen := map[string]bool{}
	var lines []string
	for _, c := range sw.Body.List {
		cc := c.(*ast.CaseClause)
		if cc.List == nil {
			return fail("default clause")
		}
		if len(cc.Body) != 1 {
			return fail("a case with other than one statement")
		}
		res := ""
		es, ok := cc.Body[0].(*ast.ExprStmt)
		if !ok {
			return fail("case body is not a call")
		}
		if gsIsPanic(es.X) {
			res = "none"
		} else if call, ok := es.X.(*ast.CallExpr); ok {
			sel, ok := call.Fun.(*ast.SelectorExpr)
			if !ok || sel.Sel.Name != "MustSetPendingPacketByAddress" || len(call.Args) != 3 ||
				exprText(p.fset, call.Args[2]) != "packet.RollappPacketKey()" {
				return fail("case body is not MustSetPendingPacketByAddress(ctx, addr, packet.RollappPacketKey())")
			}
			switch exprText(p.fset, call.Args[1]) {
			case "transferPacketData.Receiver":
				res = "some receiver"
			case "transferPacketData.Sender":
				res = "some sender"
			default:
				return fail("indexed address is neither the receiver nor the sender of the transfer data")
			}
		} else {
			return fail("case body")
		}
		for _, e := range cc.List {
			k := exprText(p.fset, e)
			c, ok := ctor[k]
			if !ok {
				return fail("unknown case constant " + k)
			}
			if seen[c] {
				return fail("duplicate case " + k)
			}
			seen[c] = true
			lines = append(lines, fmt.Sprintf("  | %s, receiver, sender => %s", c, strings.NewReplacer().Replace(res)))
		}
	}
	if len(seen) != 4 {
		return fail("not all four packet types have a case")
	}
	// the transfer data must come from the packet itself
	if e := gsInitOf2(fn, "transferPacketData"); e != "packet.MustGetTransferPacketData()" {
		return fail("transferPacketData is not packet.MustGetTransferPacketData()")
	}
	out := "/-- x/delayedack InitGenesis: `switch packet.Type` — the address a pending packet is indexed under (none = panic) -/\n" +
		"def daIndexAddr : Keys.PType → Bytes → Bytes → Option Bytes\n"
	for _, l := range lines {
		// silence unused-variable lints by underscoring the unused binder
		if strings.HasSuffix(l, "some receiver") {
			l = strings.Replace(l, "receiver, sender =>", "receiver, _ =>", 1)
		} else if strings.HasSuffix(l, "some sender") {
			l = strings.Replace(l, "receiver, sender =>", "_, sender =>", 1)
		} else {
			l = strings.Replace(l, "receiver, sender =>", "_, _ =>", 1)
		}
		out += l + "\n"
	}
	return out
}

// gsInitOf2: text of the `name := expr` anywhere in the function
func gsInitOf2(fn *ast.FuncDecl, name string) string {
	res := ""
	fset := token.NewFileSet()
	ast.Inspect(fn.Body, func(n ast.Node) bool {
		if as, ok := n.(*ast.AssignStmt); ok && as.Tok == token.DEFINE && len(as.Lhs) == 1 && len(as.Rhs) == 1 {
			if id, ok := as.Lhs[0].(*ast.Ident); ok && id.Name == name {
				res = exprText(fset, as.Rhs[0])
			}
		}
		return true
	})
	return res
}

// gsKeyBlock translates the `if X.TrackingPacketKey != "" { … X.TrackingPacketKey = … }` block of the
// eibc genesis functions.  k = the key before the block.
func gsKeyBlock(p *pkgSrc, fn *ast.FuncDecl, leanName string, fallible bool, notes *[]string) string {
	typ := "Bytes"
	if fallible {
		typ = "Option Bytes"
	}
	fail := func(msg string) string {
		*notes = append(*notes, "eibc "+fn.Name.Name+" tracking key: "+msg)
		return fmt.Sprintf("opaque %s : Bytes → %s\n", leanName, typ)
	}
	var blk *ast.IfStmt
	holder := ""
	ast.Inspect(fn.Body, func(n ast.Node) bool {
		if s, ok := n.(*ast.IfStmt); ok && s.Init == nil && s.Else == nil {
			if b, ok := s.Cond.(*ast.BinaryExpr); ok && b.Op == token.NEQ && exprText(p.fset, b.Y) == `""` {
				if sel, ok := b.X.(*ast.SelectorExpr); ok && sel.Sel.Name == "TrackingPacketKey" {
					blk, holder = s, exprText(p.fset, sel.X)
				}
			}
		}
		return true
	})
	if blk == nil {
		return fail(`no block guarded by TrackingPacketKey != ""`)
	}
	field := holder + ".TrackingPacketKey"
	env := map[string]string{}
	var binds []string // monadic binds (fallible calls)
	var tr func(e ast.Expr) (string, bool, error)
	tr = func(e ast.Expr) (string, bool, error) {
		switch x := e.(type) {
		case *ast.ParenExpr:
			return tr(x.X)
		case *ast.Ident:
			if l, ok := env[x.Name]; ok {
				return l, false, nil
			}
		case *ast.SelectorExpr:
			if exprText(p.fset, x) == field {
				return "k", false, nil
			}
		case *ast.CallExpr:
			ft := exprText(p.fset, x.Fun)
			if len(x.Args) == 1 {
				a, _, err := tr(x.Args[0])
				if err != nil {
					return "", false, err
				}
				switch ft {
				case "[]byte", "string":
					return a, false, nil
				case "base64.StdEncoding.EncodeToString":
					return "(b64enc " + a + ")", false, nil
				case "base64.StdEncoding.DecodeString":
					return "(b64dec " + a + ")", true, nil
				}
			}
		}
		return "", false, unsup("expression `%s`", exprText(p.fset, e))
	}
	result := ""
	for _, st := range blk.Body.List {
		switch s := st.(type) {
		case *ast.AssignStmt:
			if len(s.Rhs) != 1 {
				return fail("assignment shape")
			}
			x, fall, err := tr(s.Rhs[0])
			if err != nil {
				return fail(err.Error())
			}
			if len(s.Lhs) == 2 { // v, err := fallible(...)
				id, ok := s.Lhs[0].(*ast.Ident)
				if !ok || !fall {
					return fail("two-value assignment of a non-fallible call")
				}
				binds = append(binds, fmt.Sprintf("%s.bind fun %s => ", x, lid(id.Name)))
				env[id.Name] = lid(id.Name)
				continue
			}
			if fall {
				return fail("error of a fallible call is dropped")
			}
			if id, ok := s.Lhs[0].(*ast.Ident); ok {
				env[id.Name] = x
				continue
			}
			if exprText(p.fset, s.Lhs[0]) == field {
				result = x
				continue
			}
			return fail("assignment to " + exprText(p.fset, s.Lhs[0]))
		case *ast.IfStmt:
			// `if err != nil { panic(...) }` — absorbed by the Option
			if exprText(p.fset, s.Cond) == "err != nil" && len(s.Body.List) == 1 {
				if es, ok := s.Body.List[0].(*ast.ExprStmt); ok && gsIsPanic(es.X) {
					continue
				}
			}
			return fail("nested if")
		default:
			return fail(fmt.Sprintf("statement %T", st))
		}
	}
	if result == "" {
		return fail("the block does not assign the tracking key")
	}
	if fallible {
		body := "some " + result
		for i := len(binds) - 1; i >= 0; i-- {
			body = binds[i] + body
		}
		return fmt.Sprintf("/-- x/eibc %s: the tracking-key block (k = key before; none = panic) -/\ndef %s (k : Bytes) : Option Bytes :=\n  if k ≠ [] then %s else some k\n", fn.Name.Name, leanName, body)
	}
	if len(binds) > 0 {
		return fail("fallible call in a non-fallible block")
	}
	return fmt.Sprintf("/-- x/eibc %s: the tracking-key block (k = key before) -/\ndef %s (k : Bytes) : Bytes :=\n  if k ≠ [] then %s else k\n", fn.Name.Name, leanName, result)
}

// gsCmp translates CmpStreams (through cmpUint64) into an Int-valued comparison of two ids
func gsCmp(p *pkgSrc, notes *[]string) string {
	fail := func(msg string) string {
		*notes = append(*notes, "streamer CmpStreams: "+msg)
		return "opaque strCmp : Nat → Nat → Int\n"
	}
	cs, cu := p.funcs["CmpStreams"], p.funcs["cmpUint64"]
	if cs == nil || cu == nil {
		return fail("CmpStreams / cmpUint64 not found")
	}
	if sk := gsSkeleton(p, cs); len(sk) != 1 || sk[0] != "return cmpUint64(a.Id, b.Id)" {
		return fail("CmpStreams is not cmpUint64(a.Id, b.Id)")
	}
	if len(cu.Body.List) != 1 {
		return fail("cmpUint64 body")
	}
	sw, ok := cu.Body.List[0].(*ast.SwitchStmt)
	if !ok || sw.Tag != nil {
		return fail("cmpUint64 is not a tagless switch")
	}
	var names []string
	for _, f := range cu.Type.Params.List {
		for _, n := range f.Names {
			names = append(names, n.Name)
		}
	}
	if len(names) != 2 {
		return fail("cmpUint64 parameters")
	}
	t := &intTranslator{p: p}
	body, def := "", ""
	for _, c := range sw.Body.List {
		cc := c.(*ast.CaseClause)
		if len(cc.Body) != 1 {
			return fail("case body")
		}
		rs, ok := cc.Body[0].(*ast.ReturnStmt)
		if !ok || len(rs.Results) != 1 {
			return fail("case body is not a return")
		}
		v := exprText(p.fset, rs.Results[0])
		if v != "-1" && v != "0" && v != "1" {
			return fail("return value " + v)
		}
		if cc.List == nil {
			def = v
			continue
		}
		if len(cc.List) != 1 {
			return fail("case list")
		}
		c0, err := t.expr(cc.List[0])
		if err != nil {
			return fail(err.Error())
		}
		body += fmt.Sprintf("if %s then %s else ", c0, v)
	}
	if def == "" {
		return fail("no default")
	}
	return fmt.Sprintf("/-- x/streamer CmpStreams = cmpUint64(a.Id, b.Id) -/\ndef strCmp (%s %s : Nat) : Int :=\n  %s%s\n", lid(names[0]), lid(names[1]), body, def)
}

func genGenesis(repo string) (string, []string, error) {
	var notes []string
	var b strings.Builder
	b.WriteString("import DymVerif.Model.Genesis\nnamespace DymVerif.Gen.Genesis\nopen DymVerif\n\n")

	type fnRef struct{ goName, lean string }
	mods := []struct {
		name  string
		files []string
		fns   []fnRef
	}{
		{"rollapp", []string{"x/rollapp/genesis.go"}, []fnRef{{"InitGenesis", "rollappInitSkeleton"}, {"ExportGenesis", "rollappExportSkeleton"}}},
		{"sequencer", []string{"x/sequencer/genesis.go"}, []fnRef{{"InitGenesis", "sequencerInitSkeleton"}, {"ExportGenesis", "sequencerExportSkeleton"}}},
		{"delayedack", []string{"x/delayedack/genesis.go"}, []fnRef{{"InitGenesis", "delayedackInitSkeleton"}, {"ExportGenesis", "delayedackExportSkeleton"}}},
		{"eibc", []string{"x/eibc/genesis.go"}, []fnRef{{"InitGenesis", "eibcInitSkeleton"}, {"ExportGenesis", "eibcExportSkeleton"}}},
		{"dymns", []string{"x/dymns/genesis.go", "x/dymns/keeper/refund.go"}, []fnRef{{"InitGenesis", "dymnsInitSkeleton"}, {"ExportGenesis", "dymnsExportSkeleton"},
			{"Keeper.GenesisRefundBid", "dymnsGenesisRefundBidSkeleton"}, {"Keeper.GenesisRefundBuyOrder", "dymnsGenesisRefundBuyOrderSkeleton"},
			{"Keeper.refundBid", "dymnsRefundBidSkeleton"}, {"Keeper.refundBuyOrder", "dymnsRefundBuyOrderSkeleton"}}},
		{"lightclient", []string{"x/lightclient/keeper/genesis.go", "x/lightclient/keeper/canonical_client.go", "x/lightclient/keeper/keeper.go", "x/lightclient/types/genesis.go"},
			[]fnRef{{"Keeper.InitGenesis", "lightclientInitSkeleton"}, {"Keeper.ExportGenesis", "lightclientExportSkeleton"},
				{"Keeper.SetCanonicalClient", "lightclientSetCanonicalClientSkeleton"}, {"Keeper.SaveSigner", "lightclientSaveSignerSkeleton"},
				{"GenesisState.Validate", "lightclientValidateSkeleton"}}},
		{"iro", []string{"x/iro/genesis.go", "x/iro/keeper/iro.go"}, []fnRef{{"InitGenesis", "iroInitSkeleton"}, {"ExportGenesis", "iroExportSkeleton"},
			{"Keeper.SetPlan", "iroSetPlanSkeleton"}, {"Keeper.GetNextPlanIdAndIncrement", "iroNextPlanIdSkeleton"}}},
		{"lockup", []string{"x/lockup/keeper/genesis.go", "x/lockup/keeper/store.go", "x/lockup/keeper/utils.go"},
			[]fnRef{{"Keeper.InitGenesis", "lockupInitSkeleton"}, {"Keeper.ExportGenesis", "lockupExportSkeleton"},
				{"Keeper.GetPeriodLocks", "lockupGetPeriodLocksSkeleton"}, {"combineLocks", "lockupCombineLocksSkeleton"}}},
		{"incentives", []string{"x/incentives/keeper/genesis.go", "x/incentives/keeper/gauge.go", "x/incentives/types/gauge.go"},
			[]fnRef{{"Keeper.InitGenesis", "incentivesInitSkeleton"}, {"Keeper.ExportGenesis", "incentivesExportSkeleton"},
				{"Keeper.SetGaugeWithRefKey", "incentivesSetGaugeWithRefKeySkeleton"}, {"Keeper.GetNotFinishedGauges", "incentivesNotFinishedSkeleton"},
				{"Gauge.IsUpcomingGauge", "incentivesIsUpcomingSkeleton"}, {"Gauge.IsActiveGauge", "incentivesIsActiveSkeleton"}}},
		{"streamer", []string{"x/streamer/keeper/genesis.go", "x/streamer/keeper/store.go", "x/streamer/keeper/stream.go", "x/streamer/keeper/stream_iterator.go", "x/streamer/types/stream.go", "x/streamer/types/streamer.go"},
			[]fnRef{{"Keeper.InitGenesis", "streamerInitSkeleton"}, {"Keeper.ExportGenesis", "streamerExportSkeleton"},
				{"Keeper.SetStreamWithRefKey", "streamerSetStreamWithRefKeySkeleton"}, {"Keeper.GetNotFinishedStreams", "streamerNotFinishedSkeleton"},
				{"Stream.IsUpcomingStream", "streamerIsUpcomingSkeleton"}, {"Stream.IsActiveStream", "streamerIsActiveSkeleton"},
				{"NewEpochPointer", "streamerNewEpochPointerSkeleton"}}},
		{"sponsorship", []string{"x/sponsorship/keeper/genesis.go", "x/sponsorship/types/types.go"},
			[]fnRef{{"Keeper.ImportGenesis", "sponsorshipInitSkeleton"}, {"Keeper.ExportGenesis", "sponsorshipExportSkeleton"}}},
		{"app", []string{"app/export.go"}, []fnRef{{"App.ExportAppStateAndValidators", "appExportSkeleton"}}},
	}
	pk := map[string]*pkgSrc{}
	for _, m := range mods {
		var paths []string
		for _, f := range m.files {
			paths = append(paths, filepath.Join(repo, f))
		}
		p, err := loadFiles(paths...)
		if err != nil {
			return "", nil, err
		}
		pk[m.name] = p
		for _, f := range m.fns {
			fd, ok := p.funcs[f.goName]
			if !ok || fd.Body == nil {
				notes = append(notes, m.name+": function "+f.goName+" not found")
				fmt.Fprintf(&b, "opaque %s : List String\n\n", f.lean)
				continue
			}
			fmt.Fprintf(&b, "/-- x/%s %s -/\ndef %s : List String :=\n  %s\n\n", m.name, f.goName, f.lean, leanStrList(gsSkeleton(p, fd)))
		}
	}
	// ---- computed pieces
	b.WriteString(gsIroCounter(pk["iro"], &notes) + "\n")
	b.WriteString(gsDaSwitch(pk["delayedack"], &notes) + "\n")
	if fn := pk["eibc"].funcs["ExportGenesis"]; fn != nil {
		b.WriteString(gsKeyBlock(pk["eibc"], fn, "eibcEncodeKey", false, &notes) + "\n")
	} else {
		b.WriteString("opaque eibcEncodeKey : Bytes → Bytes\n\n")
	}
	if fn := pk["eibc"].funcs["InitGenesis"]; fn != nil {
		b.WriteString(gsKeyBlock(pk["eibc"], fn, "eibcDecodeKey", true, &notes) + "\n")
	} else {
		b.WriteString("opaque eibcDecodeKey : Bytes → Option Bytes\n\n")
	}
	b.WriteString(gsCmp(pk["streamer"], &notes) + "\n")
	b.WriteString(gsSponsDist(pk["sponsorship"], &notes) + "\n")
	b.WriteString("end DymVerif.Gen.Genesis\n")
	return b.String(), notes, nil
}
