package main

// ante_routes.go — the ROUTE table of app/ante/ante.go (part of Gen/Ante.lean):
//   * `NewAnteHandler` switches on the type URL of the tx's first (critical) extension option; every
//     `case "<url>": anteHandler = newXxx(options)` is one route, the default case must reject, a tx
//     without extension options goes to the constructor named in the `switch tx.(type)` below it;
//   * for every constructor reached, the decorators handed to `sdk.ChainAnteDecorators` in order,
//     each named "<import path>.<Constructor>" ("app/ante.<Constructor>" for the package's own);
//     local variables (`x := pkg.NewFoo(…)`) are resolved to their constructor.
// Everything else of NewAnteHandler's closure is compared (whitespace-insensitive, the two switches
// blanked) with the text the model mirrors; a difference sets `routeShapeOk := false`.

import (
	"fmt"
	"go/ast"
	"go/parser"
	"go/token"
	"os"
	"path/filepath"
	"strconv"
	"strings"
)

const anteExpRouter = `{varanteHandlersdk.AnteHandlerdeferRecover(ctx.Logger(),&err)txWithExtensions,ok:=tx.(authante.HasExtensionOptionsTx)ifok{opts:=txWithExtensions.GetExtensionOptions()iflen(opts)>0{§EXTSWITCH§returnanteHandler(ctx,tx,sim)}}§TXSWITCH§returnanteHandler(ctx,tx,sim)}`

type anteRoute struct {
	ext     string // "" = no extension option
	handler string
	decs    []string
}

// single statement `anteHandler = newXxx(options)`
func anteHandlerAssign(body []ast.Stmt) (string, bool) {
	if len(body) != 1 {
		return "", false
	}
	as, ok := body[0].(*ast.AssignStmt)
	if !ok || as.Tok != token.ASSIGN || len(as.Lhs) != 1 || len(as.Rhs) != 1 {
		return "", false
	}
	if id, ok := as.Lhs[0].(*ast.Ident); !ok || id.Name != "anteHandler" {
		return "", false
	}
	c, ok := as.Rhs[0].(*ast.CallExpr)
	if !ok || len(c.Args) != 1 {
		return "", false
	}
	if a, ok := c.Args[0].(*ast.Ident); !ok || a.Name != "options" {
		return "", false
	}
	f, ok := c.Fun.(*ast.Ident)
	if !ok {
		return "", false
	}
	return f.Name, true
}

// single statement `return ctx, <non-nil>`
func anteRejectReturn(body []ast.Stmt) bool {
	if len(body) != 1 {
		return false
	}
	r, ok := body[0].(*ast.ReturnStmt)
	if !ok || len(r.Results) != 2 {
		return false
	}
	if id, ok := r.Results[1].(*ast.Ident); ok && id.Name == "nil" {
		return false
	}
	return true
}

// decoratorsOf: the arguments of sdk.ChainAnteDecorators in constructor `name`
func decoratorsOf(fset *token.FileSet, files []*ast.File, name string) ([]string, error) {
	var fd *ast.FuncDecl
	var file *ast.File
	for _, f := range files {
		if d := findFunc(f, name); d != nil && d.Recv == nil {
			fd, file = d, f
		}
	}
	if fd == nil {
		return nil, fmt.Errorf("constructor %s not found in app/ante", name)
	}
	imps := importsOf(file)
	// local variable -> its initialiser
	locals := map[string]ast.Expr{}
	ast.Inspect(fd.Body, func(n ast.Node) bool {
		if as, ok := n.(*ast.AssignStmt); ok && as.Tok == token.DEFINE && len(as.Lhs) == len(as.Rhs) {
			for i, l := range as.Lhs {
				if id, ok := l.(*ast.Ident); ok {
					locals[id.Name] = as.Rhs[i]
				}
			}
		}
		return true
	})
	var nameOf func(e ast.Expr, depth int) string
	nameOf = func(e ast.Expr, depth int) string {
		switch x := e.(type) {
		case *ast.CallExpr:
			// pkg.NewFoo(…), NewFoo(…), NewFoo().WithX(…)
			switch f := x.Fun.(type) {
			case *ast.Ident:
				return "app/ante." + f.Name
			case *ast.SelectorExpr:
				if id, ok := f.X.(*ast.Ident); ok {
					if p, ok := imps[id.Name]; ok {
						return p + "." + f.Sel.Name
					}
					if depth < 3 {
						if init, ok := locals[id.Name]; ok { // method on a local: name the local's constructor
							return nameOf(init, depth+1)
						}
					}
					return "?" + id.Name + "." + f.Sel.Name
				}
				return nameOf(f.X, depth) // builder chain: the root constructor
			}
		case *ast.Ident:
			if init, ok := locals[x.Name]; ok && depth < 3 {
				return nameOf(init, depth+1)
			}
			return "?" + x.Name
		case *ast.UnaryExpr:
			return nameOf(x.X, depth)
		case *ast.ParenExpr:
			return nameOf(x.X, depth)
		}
		return "?" + squash(printNode(fset, e))
	}
	var out []string
	found := 0
	ast.Inspect(fd.Body, func(n ast.Node) bool {
		c, ok := n.(*ast.CallExpr)
		if !ok || squash(printNode(fset, c.Fun)) != "sdk.ChainAnteDecorators" {
			return true
		}
		found++
		args := c.Args
		if c.Ellipsis.IsValid() && len(args) == 1 {
			// ChainAnteDecorators(list...): the slice literal assigned to `list`
			if id, ok := args[0].(*ast.Ident); ok {
				if cl, ok := locals[id.Name].(*ast.CompositeLit); ok {
					args = cl.Elts
				}
			}
		}
		for _, a := range args {
			out = append(out, nameOf(a, 0))
		}
		return false
	})
	if found != 1 {
		return nil, fmt.Errorf("constructor %s: %d calls of sdk.ChainAnteDecorators (expected 1)", name, found)
	}
	return out, nil
}

func genAnteRoutes(repo string) (string, []string) {
	var notes []string
	shapeOk := true
	bad := func(format string, a ...any) {
		shapeOk = false
		notes = append(notes, "routes: "+fmt.Sprintf(format, a...))
	}
	fset := token.NewFileSet()
	dir := filepath.Join(repo, "app/ante")
	ents, _ := os.ReadDir(dir)
	var files []*ast.File
	var router *ast.File
	for _, e := range ents {
		n := e.Name()
		if e.IsDir() || !strings.HasSuffix(n, ".go") || strings.HasSuffix(n, "_test.go") {
			continue
		}
		f, err := parser.ParseFile(fset, filepath.Join(dir, n), nil, 0)
		if err != nil {
			bad("%s does not parse", n)
			continue
		}
		files = append(files, f)
		if findFunc(f, "NewAnteHandler") != nil {
			router = f
		}
	}
	var routes []anteRoute
	if router == nil {
		bad("NewAnteHandler not found")
	} else {
		nh := findFunc(router, "NewAnteHandler")
		var lit *ast.FuncLit
		ast.Inspect(nh.Body, func(n ast.Node) bool {
			if fl, ok := n.(*ast.FuncLit); ok && lit == nil {
				lit = fl
				return false
			}
			return true
		})
		if lit == nil {
			bad("NewAnteHandler returns no closure")
		} else {
			body := squash(printNode(fset, lit.Body))
			nExt, nTx := 0, 0
			ast.Inspect(lit.Body, func(n ast.Node) bool {
				switch s := n.(type) {
				case *ast.SwitchStmt:
					if squash(printNode(fset, s.Init)) != "typeURL:=opts[0].GetTypeUrl()" || squash(printNode(fset, s.Tag)) != "typeURL" {
						bad("unexpected switch in NewAnteHandler: %s", squash(printNode(fset, s.Tag)))
						return false
					}
					nExt++
					hasDefault := false
					for _, cc := range s.Body.List {
						c := cc.(*ast.CaseClause)
						if c.List == nil {
							hasDefault = true
							if !anteRejectReturn(c.Body) {
								bad("the default case of the extension-option switch is not a single `return ctx, err`")
							}
							continue
						}
						h, ok := anteHandlerAssign(c.Body)
						if !ok {
							bad("an extension-option case is not `anteHandler = newXxx(options)`")
							continue
						}
						for _, e := range c.List {
							bl, ok := e.(*ast.BasicLit)
							if !ok || bl.Kind != token.STRING {
								bad("an extension-option case label is not a string literal")
								continue
							}
							u, _ := strconv.Unquote(bl.Value)
							routes = append(routes, anteRoute{ext: u, handler: h})
						}
					}
					if !hasDefault {
						bad("the extension-option switch has no default case")
					}
					body = strings.Replace(body, squash(printNode(fset, s)), "§EXTSWITCH§", 1)
					return false
				case *ast.TypeSwitchStmt:
					if squash(printNode(fset, s.Assign)) != "tx.(type)" {
						bad("unexpected type switch in NewAnteHandler")
						return false
					}
					nTx++
					for _, cc := range s.Body.List {
						c := cc.(*ast.CaseClause)
						if c.List == nil {
							if !anteRejectReturn(c.Body) {
								bad("the default case of `switch tx.(type)` is not a single `return ctx, err`")
							}
							continue
						}
						if len(c.List) != 1 || squash(printNode(fset, c.List[0])) != "sdk.Tx" {
							bad("`switch tx.(type)` has a case other than sdk.Tx")
							continue
						}
						h, ok := anteHandlerAssign(c.Body)
						if !ok {
							bad("the sdk.Tx case is not `anteHandler = newXxx(options)`")
							continue
						}
						routes = append([]anteRoute{{ext: "", handler: h}}, routes...)
					}
					body = strings.Replace(body, squash(printNode(fset, s)), "§TXSWITCH§", 1)
					return false
				}
				return true
			})
			if nExt != 1 || nTx != 1 {
				bad("NewAnteHandler: %d extension-option switches, %d tx type switches (expected 1 and 1)", nExt, nTx)
			}
			if body != anteExpRouter {
				bad("the closure of NewAnteHandler differs from the modelled text")
			}
		}
	}
	for i := range routes {
		ds, err := decoratorsOf(fset, files, routes[i].handler)
		if err != nil {
			bad("%v", err)
		}
		for _, d := range ds {
			if strings.HasPrefix(d, "?") {
				bad("%s: decorator expression %s not resolved to a constructor", routes[i].handler, d[1:])
			}
		}
		routes[i].decs = ds
	}
	var b strings.Builder
	b.WriteString("/-- app/ante/ante.go NewAnteHandler: type URL of the tx's first extension option (none = no extension\n    option) → constructor of the ante chain → its decorators, in order -/\ndef routes : List Route := [\n")
	for i, r := range routes {
		ext := "none"
		if r.ext != "" {
			ext = fmt.Sprintf("some %q", r.ext)
		}
		fmt.Fprintf(&b, "  { ext := %s, handler := %q, decs := [\n", ext, r.handler)
		for j, d := range r.decs {
			sep := ","
			if j == len(r.decs)-1 {
				sep = ""
			}
			fmt.Fprintf(&b, "      %q%s\n", d, sep)
		}
		sep := ","
		if i == len(routes)-1 {
			sep = ""
		}
		fmt.Fprintf(&b, "    ] }%s\n", sep)
	}
	b.WriteString("]\n\n")
	fmt.Fprintf(&b, "/-- the rest of NewAnteHandler's closure is the modelled text: the first extension option alone selects\n    the route, an unlisted one is rejected outright (default case), no extension option = the `sdk.Tx` case -/\ndef routeShapeOk : Bool := %v\n", shapeOk)
	return b.String(), notes
}
