package main

import (
	"fmt"
	"go/ast"
	"path/filepath"
	"strings"
)

// genKeysAddr: the text level of Dym-Name addresses (x/dymns) — the validators' pattern sources and
// length limits, and the statement listings of the validators, the parser, the formatter, the
// validation of the chains/aliases params and the two translations through that table.
func genKeysAddr(repo string) (string, []string, error) {
	var notes []string
	var b strings.Builder
	b.WriteString("import DymVerif.Base.Bytes\nnamespace DymVerif.Gen.KeysAddr\nopen DymVerif\n\n")
	ut, err := loadFiles(
		filepath.Join(repo, "x/dymns/utils/dym_name.go"),
		filepath.Join(repo, "x/dymns/utils/alias.go"),
		filepath.Join(repo, "x/dymns/utils/chain.go"),
		filepath.Join(repo, "x/dymns/utils/address.go"),
		filepath.Join(repo, "x/dymns/utils/constants.go"),
	)
	if err != nil {
		return "", nil, err
	}
	// `var pattern… = regexp.MustCompile(`…`)`: the pattern source
	for _, c := range [][2]string{{"patternValidateDymNameStep1", "patternValidateDymNameStep1"}, {"patternValidateAlias", "patternValidateAlias"},
		{"patternValidChainId", "patternValidChainId"}, {"pattern0xHex", "pattern0xHex"}} {
		v, ok := ut.vars[c[0]]
		src, good := "", false
		if ok {
			if ie, isI := v.(*iotaExpr); isI {
				v = ie.e
			}
			if call, isCall := v.(*ast.CallExpr); isCall && len(call.Args) == 1 {
				if sel, isSel := call.Fun.(*ast.SelectorExpr); isSel && selName(sel) == "regexp.MustCompile" {
					if s, err := ut.constString(call.Args[0]); err == nil {
						src, good = s, true
					}
				}
			}
		}
		if !good {
			notes = append(notes, c[0]+": not a regexp.MustCompile(<string literal>) initialiser")
			fmt.Fprintf(&b, "opaque %s : Bytes\n\n", c[1])
			continue
		}
		fmt.Fprintf(&b, "/-- source of `%s`: %s -/\ndef %s : Bytes := %s\n\n", c[0], strings.ReplaceAll(src, "-/", "- /"), c[1], leanBytes([]byte(src)))
	}
	for _, c := range [][2]string{{"MaxDymNameLength", "maxDymNameLength"}, {"MaxSubNameLength", "maxSubNameLength"}, {"MaxAliasLength", "maxAliasLength"}} {
		v, ok := ut.vars[c[0]]
		if !ok {
			notes = append(notes, c[0]+": constant not found in source")
			fmt.Fprintf(&b, "opaque %s : Nat\n\n", c[1])
			continue
		}
		n, err := ut.constInt(v, 0)
		if err != nil {
			notes = append(notes, c[0]+": "+err.Error())
			fmt.Fprintf(&b, "opaque %s : Nat\n\n", c[1])
			continue
		}
		fmt.Fprintf(&b, "/-- `%s` -/\ndef %s : Nat := %d\n\n", c[0], c[1], n)
	}
	for _, fn := range [][2]string{{"IsValidDymName", "isValidDymNameListing"}, {"IsValidSubDymName", "isValidSubDymNameListing"},
		{"IsValidAlias", "isValidAliasListing"}, {"IsValidChainIdFormat", "isValidChainIdFormatListing"}, {"IsValidHexAddress", "isValidHexAddressListing"}} {
		emitListing(&b, &notes, ut, fn[0], fn[1])
	}
	ty, err := loadFiles(filepath.Join(repo, "x/dymns/types/params.go"), filepath.Join(repo, "x/dymns/types/reverse_resolved_dym_name_address.go"))
	if err != nil {
		return "", nil, err
	}
	emitListing(&b, &notes, ty, "validateAliasesOfChainIds", "validateAliasesOfChainIdsListing")
	emitListing(&b, &notes, ty, "validateChainsParams", "validateChainsParamsListing")
	emitListing(&b, &notes, ty, "ReverseResolvedDymNameAddress.String", "reverseResolvedStringListing")
	kp, err := loadFiles(filepath.Join(repo, "x/dymns/keeper/dym_name.go"), filepath.Join(repo, "x/dymns/keeper/alias.go"))
	if err != nil {
		return "", nil, err
	}
	emitListing(&b, &notes, kp, "ParseDymNameAddress", "parseDymNameAddressListing")
	emitListing(&b, &notes, kp, "Keeper.tryResolveChainIdOrAliasToChainId", "tryResolveChainIdOrAliasToChainIdListing")
	emitListing(&b, &notes, kp, "Keeper.ReplaceChainIdWithAliasIfPossible", "replaceChainIdWithAliasIfPossibleListing")
	emitListing(&b, &notes, kp, "Keeper.GetEffectiveAliasesByChainId", "getEffectiveAliasesByChainIdListing")
	b.WriteString("end DymVerif.Gen.KeysAddr\n")
	return b.String(), notes, nil
}
