#!/bin/bash
# MANIFEST.setup_cmd — build the framework once, offline, from files on disk only.
set -u
cd "$(dirname "$0")"
export GOFLAGS=-mod=mod GOPROXY=off GOSUMDB=off GOTOOLCHAIN=local
mkdir -p .cache evidence replays
echo "[setup] translator"
(cd translate && go build -o ../.cache/translate.bin .) || exit 1
./.cache/translate.bin "${VERIF_REPO:-/repo}" lean/DymVerif/Gen || echo "[setup] translate reported problems (checks will report them)"
echo "[setup] nondeterminism-site table (C12)"
cp "${VERIF_REPO:-/repo}/go.sum" sites/go.sum 2>/dev/null
(cd sites && go build -o ../.cache/sites.bin . && ../.cache/sites.bin "${VERIF_REPO:-/repo}" ../lean/DymVerif/Gen/MapSites.lean) || echo "[setup] site extraction reported problems (check C12 will report them)"
echo "[setup] lean library"
(cd lean && for t in $(python3 -c "
import json
import os; r={f[:-5]:json.load(open('../registry.d/'+f)) for f in os.listdir('../registry.d') if f.endswith('.json')}
s=[]
for k,v in r.items():
    for t in v['lean_targets']+['DymVerif.Driver.'+v.get('driver',k)]+['DymVerif.Driver.'+a['driver'] for a in v.get('also',[])]:
        if t not in s: s.append(t)
print(' '.join(s))"); do lake build $t 2>&1 | tail -3; done)
echo "[setup] harness"
bash harness/gen_gomod.sh && (cd harness && go test -c -tags verif -o ../.cache/dymh-setup.test . && rm -f ../.cache/dymh-setup.test 2>&1 | tail -5)
echo "[setup] done"
