#!/usr/bin/env python3
"""regenerates MANIFEST.json from registry.json (+ manifest_meta.json for the prose)"""
import json, os
ROOT = os.path.dirname(os.path.abspath(__file__))
reg = {fn[:-5]: json.load(open(os.path.join(ROOT, "registry.d", fn))) for fn in sorted(os.listdir(os.path.join(ROOT, "registry.d"))) if fn.endswith(".json")}
meta = json.load(open(os.path.join(ROOT, "manifest_meta.json")))
props = [json.loads(l) for l in open(os.path.join(ROOT, "properties.jsonl"))]
checks, na = [], []
for p in props:
    pid = p["id"]
    if pid in reg and not reg[pid].get("disabled"):
        m = reg[pid].get("manifest", {})
        checks.append({
            "property_id": pid,
            "quick_cmd": "./check %s --tier quick" % pid,
            "thorough_cmd": "./check %s --tier thorough" % pid,
            "evidence_file": "/verif/evidence/%s.json" % pid,
            "replay_cmd_template": "./check %s --replay {path}" % pid,
            "engine": "lean4-proof+correspondence",
            "level_claimed": {"category": "proof", "text": m.get("text", ""), "design_ref": m.get("design_ref", "DESIGN.md §4 " + pid)},
            "level_note": m.get("note", ""),
            "technique": m.get("technique", "Lean 4 theorems over an executable model; model tied to /repo by regenerated Go->Lean translation and a differential correspondence run"),
        })
    else:
        na.append({"property_id": pid, "reason": meta["not_applicable"].get(pid, "check not built yet in this round; no claim is made")})
man = {
    "version": 1,
    "setup_cmd": "bash /verif/setup.sh",
    "hooks": meta["hooks"],
    "engines": [{"name": "lean4-proof+correspondence", "path": "/verif/check", "serves_properties": [c["property_id"] for c in checks],
                 "kind_free_text": "Lean 4.33 theorems (lake build + #print axioms audit) over hand-written executable models; Gen/*.lean regenerated from the Go source on every run; Go harness drives the real code and the Lean driver replays the same op lines; monitors + seeded search produce replays"}],
    "checks": checks,
    "notes": meta.get("notes", ""),
    "not_applicable": na,
}
json.dump(man, open(os.path.join(ROOT, "MANIFEST.json"), "w"), indent=1)
print("MANIFEST.json: %d checks, %d not claimed" % (len(checks), len(na)))
