#!/usr/bin/env python3
"""regenerates the generated tables of DESIGN.md §12 (between <!-- BEGIN:x --> / <!-- END:x --> markers)
from known_findings.json, registry.d, evidence/ and seeded/."""
import json, os, glob, re
ROOT = os.path.dirname(os.path.dirname(os.path.abspath(__file__)))
def load(p, d=None):
    try: return json.load(open(os.path.join(ROOT, p)))
    except Exception: return d
kf = load("known_findings.json")["findings"]
def esc(s): return str(s).replace("|", "\\|").replace("\n", " ")
def findings():
    out = ["| property | status | commit | signature | what |", "|---|---|---|---|---|"]
    for x in sorted(kf, key=lambda x: (x["property"], x["status"], x["signature"])):
        w = x.get("what", "")
        w = re.sub(r"^fixed: property=\S+ \S+ ", "", w)
        out.append("| %s | %s | %s | `%s` | %s |" % (x["property"], x["status"], x.get("commit", ""), x["signature"], esc(w[:420])))
    return "\n".join(out)
def status():
    out = ["| property | theorems audited | quick-tier ops | distinct non-trivial traces | known findings | fixed | Lean targets |", "|---|---|---|---|---|---|---|"]
    for f in sorted(glob.glob(os.path.join(ROOT, "registry.d", "C*.json"))):
        pid = os.path.basename(f)[:-5]
        reg = json.load(open(f)); ev = load("evidence/%s.json" % pid, {})
        cov = ev.get("coverage", {}) if isinstance(ev, dict) else {}
        def g(*ks):
            for k in ks:
                for d in (ev, cov):
                    if isinstance(d, dict) and k in d: return d[k]
            return ""
        nk = len({x["signature"] for x in kf if x["property"] == pid and x["status"] == "known"})
        nf = len({x["signature"] for x in kf if x["property"] == pid and x["status"] == "fixed"})
        out.append("| %s | %s | %s | %s | %s | %s | %s |" % (pid, g("obligations"), g("evaluations"), g("distinct_nontrivial"), nk, nf, ", ".join(t.replace("DymVerif.", "") for t in reg.get("lean_targets", []))))
    return "\n".join(out)
def seeded():
    out = ["| id | property | change | result of the property's quick check on the changed tree | how it is caught |", "|---|---|---|---|---|"]
    for d in sorted(glob.glob(os.path.join(ROOT, "seeded", "*"))):
        i = os.path.basename(d); m = load("seeded/%s/meta.json" % i, {}); r = load("seeded/%s/result.json" % i, {})
        res = []
        how = r.get("note", "")
        for pid, v in r.items():
            if not isinstance(v, dict): continue
            res.append("%s: exit %s" % (pid, v.get("exit")))
            if not how and v.get("detail"): how = v["detail"][0][:200]
        out.append("| %s | %s | %s | %s | %s |" % (i, m.get("property", ""), esc(m.get("summary", "")[:300]), "; ".join(res), esc(how[:260])))
    return "\n".join(out)
tables = {"findings": findings(), "status": status(), "seeded": seeded()}
p = os.path.join(ROOT, "DESIGN.md"); s = open(p).read()
for k, v in tables.items():
    s = re.sub(r"(<!-- BEGIN:%s -->\n).*?(<!-- END:%s -->)" % (k, k), lambda m: m.group(1) + v + "\n" + m.group(2), s, flags=re.S)
open(p, "w").write(s)
print("tables:", {k: v.count("\n") for k, v in tables.items()})
