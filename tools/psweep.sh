#!/bin/bash
# parallel sweep of every registered check on /repo: tools/psweep.sh [tier] [seed] [jobs]
# (checks are safe to run concurrently: the build phases take a lock, each run has its own binary)
cd "$(dirname "$0")/.."
tier=${1:-quick}; seed=${2:-1}; jobs=${3:-3}
log=.cache/psweep-$tier-$seed.log
: > $log
ls registry.d/*.json | xargs -n1 basename | sed 's/.json//' | xargs -P $jobs -I{} bash -c "out=\$(VERIF_SEED=$seed ./check {} --tier $tier 2>&1 | grep '^OK\|^VIOLATION\|^KNOWN' | cut -c1-200); printf '== %s\n%s\n' {} \"\$out\" >> $log"
echo DONE >> $log
