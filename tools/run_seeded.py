#!/usr/bin/env python3
"""applies each seeded change under /verif/seeded/<id>/patch.diff to /repo, runs the quick check of
the property it breaks (and optionally others), records what the check reported, and restores /repo.
usage: tools/run_seeded.py [id ...]"""
import json, os, subprocess, sys, time
ROOT = os.path.dirname(os.path.dirname(os.path.abspath(__file__)))
REPO = "/repo"
ids = sys.argv[1:] or sorted(os.listdir(os.path.join(ROOT, "seeded")))
for i in ids:
    d = os.path.join(ROOT, "seeded", i)
    if not os.path.exists(os.path.join(d, "patch.diff")):
        continue
    meta = json.load(open(os.path.join(d, "meta.json")))
    st = subprocess.run(["git", "-C", REPO, "status", "--porcelain", "--untracked-files=no"], capture_output=True, text=True).stdout.strip()
    if st:
        print("refusing: /repo has uncommitted changes:\n" + st); sys.exit(2)
    a = subprocess.run(["git", "-C", REPO, "apply", os.path.join(d, "patch.diff")], capture_output=True, text=True)
    if a.returncode != 0:
        print(i, "patch does not apply:", a.stderr[:300]); continue
    res = {}
    try:
        for pid in meta.get("checks", [meta["property"]]):
            t0 = time.time()
            p = subprocess.run([os.path.join(ROOT, "check"), pid, "--tier", "quick"], cwd=ROOT, capture_output=True, text=True)
            lines = [l for l in p.stdout.split("\n") if l.startswith("VIOLATION") or l.startswith("OK ") or l.startswith("KNOWN-FINDING")]
            detail = [l.strip() for l in p.stdout.split("\n") if l.startswith("   ")][:6]
            res[pid] = {"exit": p.returncode, "lines": lines, "detail": detail, "wall_s": round(time.time() - t0)}
            print(i, pid, "exit", p.returncode, lines[:2], detail[:1])
    finally:
        subprocess.run(["git", "-C", REPO, "checkout", "--", "."], check=True)
    json.dump(res, open(os.path.join(d, "result.json"), "w"), indent=1)
