#!/usr/bin/env python3
"""runs the quick check of the property a seeded change breaks against a tree with that change applied.
By default the change is applied in a scratch worktree of /repo (so that other work using /repo is not
disturbed) and the check is pointed at it with VERIF_REPO; with --in-place it is applied to /repo
itself (git apply), checked, and undone (git checkout -- .).
usage: tools/run_seeded.py [--in-place] [id ...]"""
import json, os, subprocess, sys, time
ROOT = os.path.dirname(os.path.dirname(os.path.abspath(__file__)))
REPO = "/repo"
args = [a for a in sys.argv[1:] if not a.startswith("--")]
inplace = "--in-place" in sys.argv
ids = args or sorted(os.listdir(os.path.join(ROOT, "seeded")))
for i in ids:
    d = os.path.join(ROOT, "seeded", i)
    if not os.path.exists(os.path.join(d, "patch.diff")):
        continue
    meta = json.load(open(os.path.join(d, "meta.json")))
    if inplace:
        tree = REPO
        st = subprocess.run(["git", "-C", REPO, "status", "--porcelain", "--untracked-files=no"], capture_output=True, text=True).stdout.strip()
        if st:
            print("refusing: /repo has uncommitted changes:\n" + st); sys.exit(2)
    else:
        tree = "/tmp/seedrun-%d" % os.getpid()
        subprocess.run(["git", "-C", REPO, "worktree", "remove", "--force", tree], capture_output=True)
        subprocess.run(["git", "-C", REPO, "worktree", "add", "-q", tree, "HEAD"], check=True)
    a = subprocess.run(["git", "-C", tree, "apply", os.path.join(d, "patch.diff")], capture_output=True, text=True)
    if a.returncode != 0:
        print(i, "patch does not apply:", a.stderr[:300]); continue
    res = {}
    try:
        for pid in meta.get("checks", [meta["property"]]):
            t0 = time.time()
            env = dict(os.environ, VERIF_REPO=tree)
            p = subprocess.run([os.path.join(ROOT, "check"), pid, "--tier", "quick"], cwd=ROOT, capture_output=True, text=True, env=env)
            lines = [l for l in p.stdout.split("\n") if l.startswith("VIOLATION") or l.startswith("OK ")]
            detail = [l.strip() for l in p.stdout.split("\n") if l.startswith("   ")][:6]
            res[pid] = {"exit": p.returncode, "lines": lines, "detail": detail, "wall_s": round(time.time() - t0)}
            print(i, pid, "exit", p.returncode, lines[:2], detail[:2], flush=True)
    finally:
        if inplace:
            subprocess.run(["git", "-C", REPO, "checkout", "--", "."], check=True)
        else:
            subprocess.run(["git", "-C", REPO, "worktree", "remove", "--force", tree], capture_output=True)
    json.dump(res, open(os.path.join(d, "result.json"), "w"), indent=1)
