#!/usr/bin/env python3
"""confirm a seeded change produced in /tmp/mut/<id> and adopt it under /verif/seeded/<id>:
 1. demo fails WITH the patch, passes WITHOUT it (run in the scratch worktree)
 2. the existing tests named in meta.json pass WITH the patch (demo file excluded)
 then copy patch.diff, demo, meta.json (+ what was run) to /verif/seeded/<id>/
usage: tools/adopt_mut.py <id> [--skip-existing]"""
import json, os, shutil, subprocess, sys
mid = sys.argv[1]
wt = "/tmp/mut/" + mid
env = dict(os.environ, GOFLAGS="-mod=mod", GOPROXY="off", GOSUMDB="off", GOTOOLCHAIN="local")
meta = json.load(open(wt + "/_mut/meta.json"))
def sh(cmd, timeout=3000):
    p = subprocess.run(cmd, shell=True, cwd=wt, env=env, capture_output=True, text=True, timeout=timeout)
    return p.returncode, (p.stdout + p.stderr)[-1500:]
def git(*a):
    return subprocess.run(["git", "-C", wt] + list(a), capture_output=True, text=True)
# normalise: worktree clean of production changes, then apply patch
git("checkout", "--", ".")
demo = meta["demo_cmd"].split(";")[-1].strip()
ran = {}
a = git("apply", "_mut/patch.diff")
assert a.returncode == 0, "patch does not apply: " + a.stderr
rc_with, out_with = sh(demo)
ran["demo_with_patch"] = {"cmd": demo, "exit": rc_with}
ok_existing = True
if "--skip-existing" not in sys.argv:
    # existing tests with the patch: move the demo away
    demo_files = [f for f in subprocess.check_output(["git", "-C", wt, "ls-files", "--others", "--exclude-standard"], text=True).split() if f.endswith("_test.go") and not f.startswith("_mut/")]
    for f in demo_files:
        os.rename(os.path.join(wt, f), os.path.join(wt, f) + ".off")
    for c in meta.get("existing_tests_run", []):
        if not c.strip().startswith("go test"):
            continue
        import re as _re
        c = _re.split(r"\s{2,}[(#]", c)[0].strip()  # drop trailing prose
        rc, out = sh(c)
        ran.setdefault("existing_with_patch", []).append({"cmd": c, "exit": rc})
        if rc != 0:
            ok_existing = False
            print("EXISTING TEST FAILS WITH PATCH:", c, out[-400:])
    for f in demo_files:
        os.rename(os.path.join(wt, f) + ".off", os.path.join(wt, f))
git("apply", "-R", "_mut/patch.diff")
rc_wo, out_wo = sh(demo)
ran["demo_without_patch"] = {"cmd": demo, "exit": rc_wo}
print(mid, "demo with patch exit", rc_with, "| without", rc_wo, "| existing ok", ok_existing)
if rc_with != 0 and rc_wo == 0 and ok_existing:
    d = "/verif/seeded/" + mid
    os.makedirs(d, exist_ok=True)
    shutil.copy(wt + "/_mut/patch.diff", d + "/patch.diff")
    for f in os.listdir(wt + "/_mut"):
        if f not in ("patch.diff", "meta.json"):
            shutil.copy(wt + "/_mut/" + f, d + "/" + f)
    meta["confirmed"] = ran
    json.dump(meta, open(d + "/meta.json", "w"), indent=1)
    print("adopted ->", d)
else:
    print("NOT adopted"); print(out_with[-600:]); print(out_wo[-300:])
