#!/bin/bash
# merge an agent branch into main, resolving the two append-only shared files automatically
set -e
cd /verif
b=$1
git merge $b -m "merge $b" 2>&1 | tail -2 || true
if git diff --name-only --diff-filter=U | grep -q .; then
python3 - "$b" <<'PY'
import json,subprocess,re,sys
b=sys.argv[1]
conf=subprocess.check_output(['git','-C','/verif','diff','--name-only','--diff-filter=U']).decode().split()
for f in conf:
    if f=='known_findings.json':
        ours=json.loads(subprocess.check_output(['git','-C','/verif','show','HEAD:known_findings.json']))
        theirs=json.loads(subprocess.check_output(['git','-C','/verif','show',b+':known_findings.json']))
        sigs={x['signature'] for x in ours['findings']}
        for x in theirs['findings']:
            if x['signature'] not in sigs:
                ours['findings'].append(x); sigs.add(x['signature'])
        json.dump(ours,open('/verif/known_findings.json','w'),indent=1)
    elif f=='translate/main.go':
        s=open('/verif/translate/main.go').read()
        s=re.sub(r'<<<<<<< HEAD\n(.*?)=======\n(.*?)>>>>>>> [^\n]*\n', lambda m: m.group(1)+m.group(2), s, flags=re.S)
        open('/verif/translate/main.go','w').write(s)
    elif f.startswith('evidence/'):
        subprocess.check_call(['git','-C','/verif','checkout','--theirs',f])
    else:
        print('UNRESOLVED',f)
PY
git add -A && git commit -qm "merge $b"
fi
git log --oneline | head -1
