#!/bin/bash
# run every registered quick check once on /repo; summary to .cache/sweep.log
cd "$(dirname "$0")/.."
: > .cache/sweep.log
for f in registry.d/*.json; do
  id=$(basename $f .json)
  out=$(./check $id --tier ${1:-quick} 2>&1 | grep "^OK\|^VIOLATION\|^KNOWN" | cut -c1-160)
  echo "== $id" >> .cache/sweep.log; echo "$out" >> .cache/sweep.log
done
echo DONE >> .cache/sweep.log
