#!/usr/bin/env python3
"""bootstrap / refresh Lemmas/GenEqSk<M>.lean from the current Gen/Sk<M>.lean (ONLY to be run by hand on a
tree whose behaviour the models were validated against; the result is committed and from then on is the
hand-kept expectation: `check` never runs this).
usage: tools/mkskexpect.py DymNS Cxx "<model>"  """
import re, sys, os
ROOT = os.path.dirname(os.path.dirname(os.path.abspath(__file__)))
m, prop, model = sys.argv[1], sys.argv[2], sys.argv[3]
src = open(os.path.join(ROOT, "lean/DymVerif/Gen/Sk%s.lean" % m)).read()
out = ["/-",
       "  Lemmas/GenEqSk%s — tie 1 for %s (%s): the normalised statement listing (translate/skel.go `listing`:" % (m, prop, model),
       "  every `if` / `for` / `switch` header, call, assignment and `return` in source order; comments, logging,",
       "  events and error-message texts dropped) of EVERY function with a body in the files the property is",
       "  anchored in, regenerated from /repo's working tree on every run (Gen/Sk%s.lean), equals the listing" % m,
       "  the model was written and validated against.  A dropped or weakened guard, a reordered effect, a",
       "  changed operand, a new early return, a new or vanished function breaks the corresponding lemma; the",
       "  check then searches for a failing input with the harness' monitors (DESIGN.md §12.2).",
       "-/",
       "import DymVerif.Gen.Sk%s" % m,
       "namespace DymVerif.GenEqSk.%s" % m, ""]
for mm in re.finditer(r"/-- (.*?) -/\ndef (\S+) : List String :=\n  (\[.*?\])\n\n", src, re.S):
    doc, name, body = mm.group(1), mm.group(2), mm.group(3)
    out.append("/-- `%s` -/" % doc.replace("/-", "").replace("-/", ""))
    out.append("theorem %s_listing : Gen.Sk%s.%s =\n  %s := rfl\n" % (name, m, name, body))
out.append("end DymVerif.GenEqSk.%s" % m)
open(os.path.join(ROOT, "lean/DymVerif/Lemmas/GenEqSk%s.lean" % m), "w").write("\n".join(out) + "\n")
print(m, len(out))
