#!/usr/bin/env python3
"""prepare a scratch worktree /tmp/mut/<id> of /repo and print the prompt for a seeding sub-agent.
The prompt carries ONLY the property's text (from properties.jsonl) plus one line per earlier seeded
change of that property (files touched, so that the new change lands somewhere else) — nothing about
how /verif checks anything.
usage: tools/mkseedprompt.py C07_4"""
import json, os, subprocess, sys
ROOT = os.path.dirname(os.path.dirname(os.path.abspath(__file__)))
mid = sys.argv[1]
pid = mid.split("_")[0]
prop = None
for l in open(os.path.join(ROOT, "properties.jsonl")):
    p = json.loads(l)
    if p["id"] == pid:
        prop = p
wt = "/tmp/mut/" + mid
os.makedirs("/tmp/mut", exist_ok=True)
if not os.path.isdir(wt):
    subprocess.run(["git", "-C", "/repo", "worktree", "add", "-q", "--detach", wt, "HEAD"], check=True)
earlier = []
for d in sorted(os.listdir(os.path.join(ROOT, "seeded"))):
    if d.startswith(pid + "_"):
        m = json.load(open(os.path.join(ROOT, "seeded", d, "meta.json")))
        earlier.append("- %s: %s" % (", ".join(m.get("files_touched", [])), m["summary"][:160].replace("\n", " ")))
print(f"""You are testing how well a Go code base's safety net catches subtle regressions. Work ONLY inside the git worktree {wt} (a checkout of the Dymension Hub, a Cosmos-SDK chain; module path github.com/dymensionxyz/dymension/v3). Never touch /repo or /verif, and never read anything under /verif.

Every shell call needs: export GOFLAGS=-mod=mod GOPROXY=off GOSUMDB=off GOTOOLCHAIN=local   (no network; the Go build cache is warm; a package test run takes 1-5 minutes, so run only the packages you need, never `go test ./...` at the root in one go — run the directories your change can affect, e.g. `go test -count=1 ./x/<module>/... ./ibctesting/... ./app/...`).

THE PROPERTY (id {pid}) — "{prop['title']}":
{prop['statement']}

It is meant to hold over: {prop['quantifier']['text']}
Code it is anchored in: {', '.join(prop['anchors']['files'])}
Mechanisms: {'; '.join(m['name'] + ' (' + m['where'] + ')' for m in prop['anchors']['mechanism'])}

YOUR TASK: make ONE realistic change to the production (non-test) Go code — the kind of thing a refactor, optimisation, "cleanup" or well-meant bug fix could introduce — that makes the property FALSE, while
  (a) everything still compiles (`go build ./...`),
  (b) the EXISTING tests of the packages you touch and of the packages that use them still pass unchanged (you may not edit or delete existing tests),
  (c) the breakage needs something SPECIFIC to manifest: a particular interleaving or multi-step sequence of messages, an unusual but valid input, a boundary value, a fault at a particular point, or two cooperating code sites that each look fine alone. NOT something any ordinary use of the feature would expose at once, and not a blatant sabotage (no `if addr == "…"`, no removed feature, no changed constant that tests would pin).
Then write a DEMONSTRATION: a new Go test file (name it zz_demo_test.go, in an existing test package so it can reuse that package's suite helpers; test name must contain `{pid}Demo`) that FAILS with your change and PASSES without it, asserting the property's own observable statement (not an implementation detail).

Earlier rounds already produced these changes for this property — do something DIFFERENT (other function / other mechanism / other clause of the property):
{chr(10).join(earlier) if earlier else '- (none)'}

Verify yourself, in the worktree: demo fails with the change; `git stash`-style check that it passes without the change (e.g. `git diff > /tmp/p.diff; git apply -R /tmp/p.diff; run demo; git apply /tmp/p.diff`); existing tests of affected packages pass with the change (with your demo file moved away or skipped via `-skip {pid}Demo`).

DELIVERABLE — create the directory {wt}/_mut/ containing:
  patch.diff   : `git diff` of the production change only (NOT the demo file; leave the demo file untracked in its package directory AND copy it into _mut/ as zz_demo_test.go)
  meta.json    : {{"property": "{pid}", "summary": "<what was changed and why the property breaks>", "needs": "<what specific sequence/input/interleaving it needs to manifest>", "demo_cmd": "go test -count=1 ./<pkg>/ -run '<regex>'", "demo_path": "<pkg>/zz_demo_test.go", "demo_result": "<what fails with / passes without>", "existing_tests_run": ["go test -count=1 ./x/<module>/... -skip {pid}Demo", ...], "files_touched": ["<production files>"]}}
Leave the worktree with the change APPLIED and the demo file in place. Finish with a 5-line report: files changed, what it needs to manifest, demo command, results with/without, existing-test commands run. If after a serious attempt you cannot find a change that survives the existing tests, say so plainly instead of weakening the requirements.""")
